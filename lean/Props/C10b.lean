import AvgProofs.SampleStatErrVar
import AvgProofs.SampleStatErrSkew
import AvgProofs.SampleStatErrKurt
import AvgProofs.SampleStats
import Props.C02c
import Props.C03e
import Props.C04c
import Mathlib.Tactic.NormNum

/-!
# C10 (addendum) - the bias-corrected sample statistics in floating point

Forward-error bounds, in the standard model of rounding, for `sample_variance` (all five estimators),
`variance_of_mean`, `error`, and for `sample_skewness` / `sample_excess_kurtosis` of `define_moments!`,
as the model (= the crate after the `fix:` commit, `Props.C10`) computes them.

Carrier **R2** (`RF2 r`, `AvgProofs/MeanErr2.lean`): an ordered field `F` in which every `+ - * /` is followed
by a rounding `r.fl`, `|fl t - t| ≤ u·|t|` (no overflow, no underflow); counts are converted exactly. Over ℝ:
`RndSqrt r` (`|sqrtfl t - √t| ≤ u·√t`, `SqrtIs q`) for `sqrt`, and `RndPow15 r`
(`|powfl t - t^(3/2)| ≤ ρ·t^(3/2)`, `Pow15Is p`; `AvgProofs/SampleStatErrReal.lean`) for `powf(·, 1.5)` -
`powf` is not correctly rounded in general, so its accuracy `ρ` is a separate parameter (`ρ = u`: correctly
rounded, `flPow15`; `ρ ≈ 2u`: faithful).

All main statements are about an ARBITRARY state `s` (whatever history produced it: add-only, merge tree,
deserialised) whose stored second/third/fourth-order quantities carry abstract errors `ε₂`, `δ₃`, `ε₄`; they
are then instantiated with the proved bounds for add-only streams (`Props.C01b`/`C03e`/`C04c`) and merge trees
(`Props.C02c`).

## What is computed (read off the model, operation by operation)
* `sample_variance = fl(S/(n-1))`: `self.n - 1` is an INTEGER subtraction followed by an exact conversion -
  one rounding (`sample_variance_computed`). `Skewness`, `Kurtosis`, `WeightedMeanWithError` delegate to the
  inner `Variance` (`sample_variance_delegates`, bit for bit, any carrier); `define_moments!` reads `m[0]`
  (it does NOT go through `central_moment(2)·n/(n-1)`).
* `variance_of_mean = fl(fl(S/(n-1))/n)`, `error = sqrtfl(variance_of_mean)`.
* `central_moment(p) = fl(m[p-2]/n)` (`central_moment_computed`).
* `sample_skewness`, `n ≥ 3`: here `n - 1.`, `n - 2.` are FLOAT subtractions (rounded in the model; exact in
  IEEE for `n < 2^53`, which only makes the bound pessimistic by `2u`):
  `fl(fl(fl(sqrtfl(fl(n·fl(n-1)))/fl(n-2))·c₃)/powfl(c₂))` - six `fl`/`sqrtfl`, one `powfl`;
  `n = 2`: `fl(c₃/powfl(fl(2·fl(c₂/fl(2-1)))))`; `n = 1`: `0`; `n = 0`: NaN.
* `sample_excess_kurtosis`, `n ≥ 4`: `fl(t₁ - t₂)`,
  `t₁ = fl(fl(fl(fl(n+1)·fl(n-1))·c₄)/fl(fl(fl(n-2)·fl(n-3))·fl(c₂·c₂)))` (`pow(x, 2)` is one product),
  `t₂ = fl(fl(3·fl(fl(n-1)·fl(n-1)))/fl(fl(n-2)·fl(n-3)))`; NaN below four observations.

## Results
1. `sample_variance_state_error` (+ `skewness_…`, `kurtosis_…`, `wmwe_…`, `moments_…`):
   `|S - T| ≤ ε₂·T` ⟹ `|sample_variance - T/(n-1)| ≤ ((1+u)·ε₂ + u)·T/(n-1)`;
   `variance_of_mean_state_error`: factor `(1+u)((1+u)ε₂+u)+u`; `error_state_error`: one more `(1+u)·η + u`.
   Instances: `sample_variance_stream_relative` (add-only, `ε₂ = 8nκu`, all four estimators that share
   `Variance`), `moments_sample_variance_stream_relative` (`define_moments!`, `ε₂ = 8nκu`),
   `sample_variance_mtree_relative` (every merge tree, `ε₂ = (10 + 62·M/σ)·n·u`).
2. `sample_skewness_accessor_error` (`n ≥ 3`, `m₂ > 0`): with `|c₂ - m₂| ≤ ε₂·m₂`, `|c₃ - m₃| ≤ δ₃`,
   `A = √(n(n-1))/(n-2)`, `Φ = (1/(1-u))^6 · 1/(1-ρ) · (1/(1-ε₂))^(3/2)`:
   `|sample_skewness - A·m₃/m₂^(3/2)| ≤ A/m₂^(3/2)·(|m₃|·(Φ-1) + δ₃·Φ)`;
   `sample_skewness_accessor_envelope`: `6u + ρ + (3/2)ε₂ ≤ 1/16` ⟹
   `≤ A/m₂^(3/2)·(|m₃|·((32/5)u + (16/15)ρ + (8/5)ε₂) + (16/15)δ₃)`.
   `sample_skewness_two_accessor_error`: the branch `n = 2` (`Φ₂` has `(1/(1-u))^7`), whose exact value is `0`
   for every pair of observations: `|sample_skewness| ≤ Φ₂·δ₃/(2m₂)^(3/2)` (`sample_skewness_two_zero`).
   `sample_skewness_sentinels`: `n = 0`: NaN, `n = 1`: the value `0`, bit for bit.
3. `sample_excess_kurtosis_accessor_error` (`n ≥ 4`): with `|c₂ - m₂| ≤ ε₂·m₂`, `|c₄ - m₄| ≤ ε₄·m₄`,
   `G₁ = (n+1)(n-1)/((n-2)(n-3))·m₄/m₂²` (`SSE.kurtScale`), `G₂ = 3(n-1)²/((n-2)(n-3))` (`SSE.kurtShift`),
   exact value `(n-1)/((n-2)(n-3))·((n+1)(m₄/m₂²-3)+6) = G₁ - G₂`,
   `Φ₁ = (1/(1-u))^10·1/(1-ε₄)·(1/(1-ε₂))²`, `Φ₂ = (1/(1-u))^8`:
   `|sample_excess_kurtosis - (G₁-G₂)| ≤ (1+u)·((Φ₁-1)·G₁ + (Φ₂-1)·G₂) + u·|G₁-G₂|`.
   The two terms cancel: the bound is relative to `G₁` (and `G₂ ≤ 3·G₁`), NOT to the result.
   `sample_excess_kurtosis_accessor_envelope`: `m₂² ≤ m₄`, `10u + ε₄ + 2ε₂ ≤ 1/16` ⟹
   `≤ ((11/10)·ε₄ + (11/5)·ε₂ + 39·u)·G₁`.
4. Add-only streams of `define_moments!(T, N)`: only `central_moment(2)` has a proved rounding bound
   (`Props.C04c`: `ε₂ = 8nκu`); there is none for `m[1]`, `m[2]` (their updates read the lower entries).
   `sample_skewness_stream_partial`, `sample_excess_kurtosis_stream_partial` instantiate `ε₂` and keep `δ₃`,
   `ε₄` as hypotheses on the computed `central_moment(3)`, `central_moment(4)` of that stream. The full
   statements (explicit `δ₃`, `ε₄` in `n, κ, u`) are not proved in this file. For the third order they are proved in
   `Props.C04d` (`sample_skewness_stream_forward_error`, with `δ₃ = 401·(n+10)·κ·u·V3/n`); for the fourth order
   in `Props.C04e` (`sample_excess_kurtosis_stream_forward_error`, with `ε₄ = 181775·(n+10)·κ·u`).
-/
open Avg MSpec VarSpec SkewSpec KurtSpec SSE

namespace Props.C10b

/-! ## 1. `sample_variance`, `variance_of_mean`, `error` on any state -/

/-- Any carrier, bit for bit: `sample_variance` of `Skewness`, `Kurtosis` and `WeightedMeanWithError` is
`Variance::sample_variance` of the inner `Variance` (whatever the state). -/
theorem sample_variance_delegates {α : Type} [Add α] [Sub α] [Mul α] [Div α] [NatCast α] [FloatOps α]
    (s : Skewness α) (k : Kurtosis α) (w : WeightedMeanWithError α) :
    s.sampleVariance = s.avg.sampleVariance ∧ k.sampleVariance = k.avg.avg.sampleVariance
    ∧ w.sampleVariance = w.unweighted_avg.sampleVariance :=
  ⟨rfl, rfl, rfl⟩

section field
variable {F : Type} [Field F] [LinearOrder F] [IsStrictOrderedRing F]
variable {r : Rnd2 F} [FloatOps (RF2 r)]

/-- What `sample_variance` computes at R2 on any state with `n ≥ 2`: `fl(sum_2/(n-1))` for `Variance`,
`fl(m[0]/(n-1))` for `define_moments!`; `n - 1` is an integer subtraction converted exactly - one rounding. -/
theorem sample_variance_computed (s : Variance (RF2 r)) (ms : Moments (RF2 r)) :
    (2 ≤ s.avg.n → s.sampleVariance.val = r.fl (s.sum_2.val / ((s.avg.n - 1 : ℕ) : F)))
    ∧ (2 ≤ ms.n → ms.sampleVariance.val = r.fl ((ms.m.getD 0 nan).val / ((ms.n - 1 : ℕ) : F))) :=
  ⟨samplevar_state_val s, moments_samplevar_state_val ms⟩

/-- What `central_moment(p)`, `p ≥ 2`, computes at R2 on a non-empty state: `fl(m[p-2]/n)`; a relative error
`ε` of the stored entry against `S` becomes `(1+u)·ε + u` against `S/n`. -/
theorem central_moment_computed (s : Moments (RF2 r)) (p : ℕ) (hp : 2 ≤ p) (hn : 0 < s.n) :
    (s.cmRaw p).val = r.fl ((s.m.getD (p - 2) nan).val / (s.n : F))
    ∧ ∀ S ε : F, |(s.m.getD (p - 2) nan).val - S| ≤ ε * |S| →
        |(s.cmRaw p).val - S / (s.n : F)| ≤ ((1 + r.u) * ε + r.u) * |S / (s.n : F)| :=
  ⟨cmRaw_val s p hp hn, fun S ε h => cm_state_error s p hp hn S ε h⟩

/-- **`Variance::sample_variance` on any state** with `n ≥ 2`: if the stored `sum_2` approximates `T ≥ 0` with
`|sum_2 - T| ≤ ε₂·T`, then `|sample_variance - T/(n-1)| ≤ ((1+u)·ε₂ + u)·T/(n-1)`. -/
theorem sample_variance_state_error (s : Variance (RF2 r)) (h2 : 2 ≤ s.avg.n) (T ε₂ : F) (hT : 0 ≤ T)
    (h : |s.sum_2.val - T| ≤ ε₂ * T) :
    |s.sampleVariance.val - T / ((s.avg.n - 1 : ℕ) : F)|
      ≤ ((1 + r.u) * ε₂ + r.u) * (T / ((s.avg.n - 1 : ℕ) : F)) :=
  samplevar_state_error s h2 T ε₂ hT h

/-- the same for `Skewness` (any state) -/
theorem skewness_sample_variance_state_error (s : Skewness (RF2 r)) (h2 : 2 ≤ s.avg.avg.n) (T ε₂ : F)
    (hT : 0 ≤ T) (h : |s.avg.sum_2.val - T| ≤ ε₂ * T) :
    |s.sampleVariance.val - T / ((s.avg.avg.n - 1 : ℕ) : F)|
      ≤ ((1 + r.u) * ε₂ + r.u) * (T / ((s.avg.avg.n - 1 : ℕ) : F)) :=
  samplevar_state_error s.avg h2 T ε₂ hT h

/-- the same for `Kurtosis` (any state) -/
theorem kurtosis_sample_variance_state_error (s : Kurtosis (RF2 r)) (h2 : 2 ≤ s.avg.avg.avg.n)
    (T ε₂ : F) (hT : 0 ≤ T) (h : |s.avg.avg.sum_2.val - T| ≤ ε₂ * T) :
    |s.sampleVariance.val - T / ((s.avg.avg.avg.n - 1 : ℕ) : F)|
      ≤ ((1 + r.u) * ε₂ + r.u) * (T / ((s.avg.avg.avg.n - 1 : ℕ) : F)) :=
  samplevar_state_error s.avg.avg h2 T ε₂ hT h

/-- the same for `WeightedMeanWithError` (any state, whatever the weights) -/
theorem wmwe_sample_variance_state_error (s : WeightedMeanWithError (RF2 r))
    (h2 : 2 ≤ s.unweighted_avg.avg.n) (T ε₂ : F) (hT : 0 ≤ T)
    (h : |s.unweighted_avg.sum_2.val - T| ≤ ε₂ * T) :
    |s.sampleVariance.val - T / ((s.unweighted_avg.avg.n - 1 : ℕ) : F)|
      ≤ ((1 + r.u) * ε₂ + r.u) * (T / ((s.unweighted_avg.avg.n - 1 : ℕ) : F)) :=
  samplevar_state_error s.unweighted_avg h2 T ε₂ hT h

/-- the same for `define_moments!(T, N)` (any state; the stored sum is `m[0]`) -/
theorem moments_sample_variance_state_error (s : Moments (RF2 r)) (h2 : 2 ≤ s.n) (T ε₂ : F) (hT : 0 ≤ T)
    (h : |(s.m.getD 0 nan).val - T| ≤ ε₂ * T) :
    |s.sampleVariance.val - T / ((s.n - 1 : ℕ) : F)|
      ≤ ((1 + r.u) * ε₂ + r.u) * (T / ((s.n - 1 : ℕ) : F)) :=
  moments_samplevar_state_error s h2 T ε₂ hT h

/-- **`variance_of_mean` on any state** with `n ≥ 2`: it computes `fl(fl(sum_2/(n-1))/n)` and
`|variance_of_mean - T/((n-1)n)| ≤ ((1+u)·((1+u)·ε₂ + u) + u)·T/((n-1)n)`. -/
theorem variance_of_mean_state_error (s : Variance (RF2 r)) (h2 : 2 ≤ s.avg.n) (T ε₂ : F) (hT : 0 ≤ T)
    (h : |s.sum_2.val - T| ≤ ε₂ * T) :
    s.varianceOfMean.val = r.fl (r.fl (s.sum_2.val / ((s.avg.n - 1 : ℕ) : F)) / (s.avg.n : F))
    ∧ |s.varianceOfMean.val - T / ((s.avg.n - 1 : ℕ) : F) / (s.avg.n : F)|
      ≤ ((1 + r.u) * ((1 + r.u) * ε₂ + r.u) + r.u)
          * (T / ((s.avg.n - 1 : ℕ) : F) / (s.avg.n : F)) :=
  ⟨vom_state_val s h2, vom_state_error s h2 T ε₂ hT h⟩

end field

/-- **`error()` on any state** (ℝ, `sqrt` rounded by `q`), `n ≥ 2`, `T > 0`, `ε₂ ≤ 1`, `u ≤ 1`: with
`η = (1+u)·((1+u)·ε₂ + u) + u`, `|error - √(T/((n-1)n))| ≤ ((1+u)·η + u)·√(T/((n-1)n))`. -/
theorem error_state_error {r : Rnd2 ℝ} [FloatOps (RF2 r)] (q : RndSqrt r) (hs : SqrtIs q)
    (s : Variance (RF2 r)) (h2 : 2 ≤ s.avg.n) (T ε₂ : ℝ) (hT : 0 < T) (hε₂1 : ε₂ ≤ 1) (hu1 : r.u ≤ 1)
    (h : |s.sum_2.val - T| ≤ ε₂ * T) :
    |s.error.val - Real.sqrt (T / ((s.avg.n - 1 : ℕ) : ℝ) / (s.avg.n : ℝ))|
      ≤ ((1 + r.u) * ((1 + r.u) * ((1 + r.u) * ε₂ + r.u) + r.u) + r.u)
          * Real.sqrt (T / ((s.avg.n - 1 : ℕ) : ℝ) / (s.avg.n : ℝ)) :=
  SSE.error_state_error q hs s h2 T ε₂ hT hε₂1 hu1 h

/-! ### instances: add-only streams and merge trees -/

section instances
variable {F : Type} [Field F] [LinearOrder F] [IsStrictOrderedRing F]
variable {r : Rnd2 F} [FloatOps (RF2 r)]

/-- **Add-only streams, `Variance` / `Skewness` / `Kurtosis`.** `n ≥ 2`, `|x_i| ≤ M`, `(n+28)·u ≤ 1/64`, `σ > 0`
with `n·σ² = T` (population standard deviation), `κ = 1 + M/σ`, `n·u·M ≤ σ`: the abstract `ε₂` is `8·n·κ·u`
(`Props.C03e.sum2_relative_error_sigma`, from `Props.C01b`), so with `s² = T/(n-1)`
`|sample_variance - s²| ≤ ((1+u)·8·n·κ·u + u)·s²`; `Skewness` and `Kurtosis` fed the same stream return the same
bits. -/
theorem sample_variance_stream_relative (M : F) (hM : 0 ≤ M) (xs : List (RF2 r)) (h2 : 2 ≤ xs.length)
    (hb : ∀ x ∈ xs, |x.val| ≤ M) (hsmall : ((xs.length : F) + 28) * r.u ≤ 1/64)
    (σ : F) (hσ : 0 < σ) (hvar : (xs.length : F) * σ^2 = T (xs.map RF2.val))
    (hcond : (xs.length : F) * r.u * M ≤ σ) :
    |(xs.foldl Variance.add Variance.new).sampleVariance.val
        - T (xs.map RF2.val) / ((xs.length - 1 : ℕ) : F)|
      ≤ ((1 + r.u) * (8 * xs.length * (1 + M / σ) * r.u) + r.u)
          * (T (xs.map RF2.val) / ((xs.length - 1 : ℕ) : F))
    ∧ (xs.foldl Skewness.add Skewness.new).sampleVariance
        = (xs.foldl Variance.add Variance.new).sampleVariance
    ∧ (xs.foldl Kurtosis.add Kurtosis.new).sampleVariance
        = (xs.foldl Variance.add Variance.new).sampleVariance := by
  refine ⟨?_, ?_, ?_⟩
  · have hrel := Props.C03e.sum2_relative_error_sigma r M hM xs hb hsmall σ hσ hvar hcond
    have hn := c10_variance_fold_n xs
    have := sample_variance_state_error (xs.foldl Variance.add Variance.new) (by rw [hn]; exact h2)
      (T (xs.map RF2.val)) _ (T_nonneg _) hrel
    rwa [hn] at this
  · show (xs.foldl Skewness.add Skewness.new).avg.sampleVariance = _
    rw [Skewness.fold_avg]; rfl
  · show (xs.foldl Kurtosis.add Kurtosis.new).avg.avg.sampleVariance = _
    rw [Kurtosis.fold_avg, Skewness.fold_avg]; rfl

/-- **Add-only streams, `WeightedMeanWithError`** fed (sample, weight) pairs, whatever the weights: the bound of
`sample_variance_stream_relative` for the samples. -/
theorem wmwe_sample_variance_stream_relative (M : F) (hM : 0 ≤ M) (ps : List (RF2 r × RF2 r))
    (h2 : 2 ≤ ps.length) (hb : ∀ p ∈ ps, |p.1.val| ≤ M)
    (hsmall : ((ps.length : F) + 28) * r.u ≤ 1/64)
    (σ : F) (hσ : 0 < σ) (hvar : (ps.length : F) * σ^2 = T ((ps.map Prod.fst).map RF2.val))
    (hcond : (ps.length : F) * r.u * M ≤ σ) :
    |(ps.foldl (fun (s : WeightedMeanWithError (RF2 r)) p => s.add p.1 p.2) WeightedMeanWithError.new).sampleVariance.val
        - T ((ps.map Prod.fst).map RF2.val) / ((ps.length - 1 : ℕ) : F)|
      ≤ ((1 + r.u) * (8 * ps.length * (1 + M / σ) * r.u) + r.u)
          * (T ((ps.map Prod.fst).map RF2.val) / ((ps.length - 1 : ℕ) : F)) := by
  have hl : (ps.map Prod.fst).length = ps.length := List.length_map _
  have h := (sample_variance_stream_relative M hM (ps.map Prod.fst) (by rw [hl]; exact h2)
    (by intro x hx
        rw [List.mem_map] at hx
        obtain ⟨p, hp, rfl⟩ := hx
        exact hb p hp)
    (by rw [hl]; exact hsmall) σ hσ (by rw [hl]; exact hvar) (by rw [hl]; exact hcond)).1
  rw [hl] at h
  show |(ps.foldl (fun (s : WeightedMeanWithError (RF2 r)) p => s.add p.1 p.2) WeightedMeanWithError.new).unweighted_avg.sampleVariance.val
      - _| ≤ _
  rw [c10_wmwe_fold_unweighted]
  exact h

omit [FloatOps (RF2 r)] in
/-- **The stored `m[0]` of `define_moments!(T, N)` in relative form** (from `Props.C04c`): add-only stream,
`N ≥ 2`, `|x_i| ≤ M`, `(n+28)·u ≤ 1/64`, `σ > 0` with `n·σ² = T`, `n·u·M ≤ σ`: `|m[0] - T| ≤ 8·n·κ·u·T`. -/
theorem moments_m0_relative_error [Neg (RF2 r)] (hneg : NegExact r) (N : Nat) (hN : 2 ≤ N) (M : F)
    (hM : 0 ≤ M) (xs : List (RF2 r)) (hb : ∀ x ∈ xs, |x.val| ≤ M)
    (hsmall : ((xs.length : F) + 28) * r.u ≤ 1/64)
    (σ : F) (hσ : 0 < σ) (hvar : (xs.length : F) * σ^2 = T (xs.map RF2.val))
    (hcond : (xs.length : F) * r.u * M ≤ σ) :
    |(xs.foldl (Moments.add N) (Moments.new N)).m0.val - T (xs.map RF2.val)|
      ≤ 8 * xs.length * (1 + M / σ) * r.u * T (xs.map RF2.val) := by
  have hu := r.u_nonneg
  have hn0 : (0 : F) ≤ xs.length := Nat.cast_nonneg _
  have h := MomVarErr.moments_m0_error_sharp_num hneg N hN M hM xs hb hsmall ((xs.length : F) * σ)
    (by positivity) (by rw [← hvar]; exact le_of_eq (by ring))
  refine le_trans h ?_
  rw [← hvar]
  set n : F := (xs.length : F)
  have e : 8 * n * (1 + M / σ) * r.u * (n * σ^2) = 8 * n^2 * r.u * σ^2 + 8 * n^2 * r.u * M * σ := by
    field_simp
  rw [e]
  have h3 : n^3 * r.u^2 * M^2 ≤ n^2 * r.u * M * σ := by
    have : 0 ≤ n * r.u * M := by positivity
    calc n^3 * r.u^2 * M^2 = n * (n * r.u * M) * (n * r.u * M) := by ring
      _ ≤ n * (n * r.u * M) * σ := by gcongr
      _ = n^2 * r.u * M * σ := by ring
  have a1 : 0 ≤ n^2 * r.u * σ^2 := by positivity
  have a2 : 0 ≤ n^2 * r.u * M * σ := by positivity
  nlinarith

/-- **Add-only streams, `define_moments!(T, N)`**, every order `N ≥ 2`: `ε₂ = 8·n·κ·u`,
`|sample_variance - s²| ≤ ((1+u)·8·n·κ·u + u)·s²`. -/
theorem moments_sample_variance_stream_relative [Neg (RF2 r)] (hneg : NegExact r) (N : Nat)
    (hN : 2 ≤ N) (M : F) (hM : 0 ≤ M) (xs : List (RF2 r)) (h2 : 2 ≤ xs.length)
    (hb : ∀ x ∈ xs, |x.val| ≤ M) (hsmall : ((xs.length : F) + 28) * r.u ≤ 1/64)
    (σ : F) (hσ : 0 < σ) (hvar : (xs.length : F) * σ^2 = T (xs.map RF2.val))
    (hcond : (xs.length : F) * r.u * M ≤ σ) :
    |(xs.foldl (Moments.add N) (Moments.new N)).sampleVariance.val
        - T (xs.map RF2.val) / ((xs.length - 1 : ℕ) : F)|
      ≤ ((1 + r.u) * (8 * xs.length * (1 + M / σ) * r.u) + r.u)
          * (T (xs.map RF2.val) / ((xs.length - 1 : ℕ) : F)) := by
  have hrel := moments_m0_relative_error hneg N hN M hM xs hb hsmall σ hσ hvar hcond
  have hne : xs ≠ [] := by intro h; rw [h] at h2; simp at h2
  have hn : (xs.foldl (Moments.add N) (Moments.new N)).n = xs.length := momN_fold_new_n N xs
  have hget := MomVarErr.mfold_getD_nan (r := r) N hN xs hne
  have := moments_sample_variance_state_error (xs.foldl (Moments.add N) (Moments.new N))
    (by rw [hn]; exact h2) (T (xs.map RF2.val)) _ (T_nonneg _) (by rw [hget]; exact hrel)
  rwa [hn] at this

omit [FloatOps (RF2 r)] in
/-- **The stored `sum_2` after EVERY merge tree, in relative form** (from `Props.C02c`): `n·u ≤ 1/64`,
`|x_i| ≤ M`, `σ > 0` with `n·σ² = T`, `n·u·M ≤ σ`: `|sum_2 - T| ≤ (10 + 62·M/σ)·n·u·T`. -/
theorem sum2_mtree_relative_error (M : F) (hM : 0 ≤ M) (t : MTree (RF2 r))
    (hb : ∀ x ∈ t.flatten, |x.val| ≤ M) (hsmall : (t.flatten.length : F) * r.u ≤ 1/64)
    (σ : F) (hσ : 0 < σ) (hvar : (t.flatten.length : F) * σ^2 = T (t.flatten.map RF2.val))
    (hcond : (t.flatten.length : F) * r.u * M ≤ σ) :
    |(Variance.evalTree t).sum_2.val - T (t.flatten.map RF2.val)|
      ≤ (10 + 62 * (M / σ)) * t.flatten.length * r.u * T (t.flatten.map RF2.val) := by
  have hu := r.u_nonneg
  have hn0 : (0 : F) ≤ t.flatten.length := Nat.cast_nonneg _
  have h := Props.C02c.sum2_mtree_forward_error r M hM t hb hsmall ((t.flatten.length : F) * σ)
    (by positivity) (by rw [← hvar]; exact le_of_eq (by ring))
  refine le_trans h ?_
  rw [← hvar]
  set n : F := (t.flatten.length : F)
  have e : (10 + 62 * (M / σ)) * n * r.u * (n * σ^2) = 10 * n^2 * r.u * σ^2 + 62 * n^2 * r.u * M * σ := by
    field_simp
  rw [e]
  have h3 : n^3 * r.u^2 * M^2 ≤ n^2 * r.u * M * σ := by
    have : 0 ≤ n * r.u * M := by positivity
    calc n^3 * r.u^2 * M^2 = n * (n * r.u * M) * (n * r.u * M) := by ring
      _ ≤ n * (n * r.u * M) * σ := by gcongr
      _ = n^2 * r.u * M * σ := by ring
  nlinarith

/-- **Every merge tree, `Variance`** (`n ≥ 2` observations in all chunks together): the abstract `ε₂` is
`(10 + 62·M/σ)·n·u ≤ 62·n·κ·u`, so `|sample_variance - s²| ≤ ((1+u)·(10 + 62·M/σ)·n·u + u)·s²`. -/
theorem sample_variance_mtree_relative (M : F) (hM : 0 ≤ M) (t : MTree (RF2 r))
    (h2 : 2 ≤ t.flatten.length) (hb : ∀ x ∈ t.flatten, |x.val| ≤ M)
    (hsmall : (t.flatten.length : F) * r.u ≤ 1/64)
    (σ : F) (hσ : 0 < σ) (hvar : (t.flatten.length : F) * σ^2 = T (t.flatten.map RF2.val))
    (hcond : (t.flatten.length : F) * r.u * M ≤ σ) :
    |(Variance.evalTree t).sampleVariance.val
        - T (t.flatten.map RF2.val) / ((t.flatten.length - 1 : ℕ) : F)|
      ≤ ((1 + r.u) * ((10 + 62 * (M / σ)) * t.flatten.length * r.u) + r.u)
          * (T (t.flatten.map RF2.val) / ((t.flatten.length - 1 : ℕ) : F)) := by
  have hrel := sum2_mtree_relative_error M hM t hb hsmall σ hσ hvar hcond
  have hn := VarMerge.mtree_count M hM t hb hsmall
  have := sample_variance_state_error (Variance.evalTree t) (by rw [hn]; exact h2)
    (T (t.flatten.map RF2.val)) _ (T_nonneg _) hrel
  rwa [hn] at this

end instances

/-! ## 2. `sample_skewness` of `define_moments!` -/

section skew
variable {r : Rnd2 ℝ} [FloatOps (RF2 r)]

/-- The sentinel branches on any state, bit for bit: `NaN` for the empty state, the value `0` for one
observation (no arithmetic is performed). -/
theorem sample_skewness_sentinels (s : Moments (RF2 r)) :
    (s.n = 0 → s.sampleSkewness = nan) ∧ (s.n = 1 → s.sampleSkewness.val = 0) := by
  refine ⟨fun h => ?_, fun h => ?_⟩
  · unfold Moments.sampleSkewness; rw [if_pos h]
  · unfold Moments.sampleSkewness
    rw [if_neg (by omega), if_pos h]
    exact (Nat.cast_zero : ((0:ℕ):ℝ) = 0)

/-- What `sample_skewness` computes at R2 when `sqrt` is `q.sqrtfl` and `powf(·, 1.5)` is `p.powfl`:
`n ≥ 3`: `fl(fl(fl(sqrtfl(fl(n·fl(n-1)))/fl(n-2))·c₃)/powfl(c₂))`; `n = 2`:
`fl(c₃/powfl(fl(2·fl(c₂/fl(2-1)))))`, `c_p = central_moment(p)` as computed. -/
theorem sample_skewness_computed (q : RndSqrt r) (hs : SqrtIs q) (p : RndPow15 r) (hp : Pow15Is p)
    (s : Moments (RF2 r)) :
    (3 ≤ s.n → s.sampleSkewness.val
      = r.fl (r.fl (r.fl (q.sqrtfl (r.fl ((s.n:ℝ) * r.fl ((s.n:ℝ) - 1))) / r.fl ((s.n:ℝ) - 2))
                * (s.cmRaw 3).val) / p.powfl (s.cmRaw 2).val))
    ∧ (s.n = 2 → s.sampleSkewness.val
      = r.fl ((s.cmRaw 3).val / p.powfl (r.fl (2 * r.fl ((s.cmRaw 2).val / r.fl (2 - 1)))))) :=
  ⟨sampleSkewness_val q hs p hp s, sampleSkewness_two_val p hp s⟩

/-- **`sample_skewness` on any state with `n ≥ 3`.** If the computed `central_moment(2)`, `central_moment(3)`
approximate `m₂ > 0` and `m₃` with `|c₂ - m₂| ≤ ε₂·m₂` (`0 ≤ ε₂ < 1`) and `|c₃ - m₃| ≤ δ₃`, and `u < 1`, `ρ < 1`,
then with `A = √(n(n-1))/(n-2)` and `Φ = (1/(1-u))^6 · 1/(1-ρ) · (1/(1-ε₂))^(3/2)`
`|sample_skewness - A·m₃/m₂^(3/2)| ≤ A/m₂^(3/2) · (|m₃|·(Φ - 1) + δ₃·Φ)`. -/
theorem sample_skewness_accessor_error (q : RndSqrt r) (hs : SqrtIs q) (p : RndPow15 r) (hp : Pow15Is p)
    (s : Moments (RF2 r)) (hn : 3 ≤ s.n) (m₂ m₃ ε₂ δ₃ : ℝ) (hm₂ : 0 < m₂) (hε₂ : 0 ≤ ε₂) (hε₂1 : ε₂ < 1)
    (hu1 : r.u < 1) (hρ1 : p.ρ < 1)
    (h2 : |(s.cmRaw 2).val - m₂| ≤ ε₂ * m₂) (h3 : |(s.cmRaw 3).val - m₃| ≤ δ₃) :
    |s.sampleSkewness.val
        - Real.sqrt ((s.n:ℝ) * ((s.n:ℝ) - 1)) / ((s.n:ℝ) - 2) * m₃ / m₂ ^ ((3:ℝ)/2)|
      ≤ Real.sqrt ((s.n:ℝ) * ((s.n:ℝ) - 1)) / ((s.n:ℝ) - 2) / m₂ ^ ((3:ℝ)/2)
          * (|m₃| * (((1 - r.u)⁻¹)^6 * (1 - p.ρ)⁻¹ * ((1 - ε₂)⁻¹) ^ ((3:ℝ)/2) - 1)
              + δ₃ * (((1 - r.u)⁻¹)^6 * (1 - p.ρ)⁻¹ * ((1 - ε₂)⁻¹) ^ ((3:ℝ)/2))) := by
  rw [sampleSkewness_val q hs p hp s hn]
  have hn' : (3:ℝ) ≤ (s.n : ℝ) := by exact_mod_cast hn
  exact skew_core r q p _ _ _ m₂ m₃ ε₂ δ₃ hn' hm₂ hε₂ hε₂1 hu1 hρ1 h2 h3

/-- **The same with numerals.** If `6u + ρ + (3/2)·ε₂ ≤ 1/16` then `Φ ≤ 1 + (16/15)(6u + ρ + (3/2)ε₂) ≤ 16/15` and
`|sample_skewness - A·m₃/m₂^(3/2)| ≤ A/m₂^(3/2) · (|m₃|·((32/5)·u + (16/15)·ρ + (8/5)·ε₂) + (16/15)·δ₃)`. -/
theorem sample_skewness_accessor_envelope (q : RndSqrt r) (hs : SqrtIs q) (p : RndPow15 r)
    (hp : Pow15Is p) (s : Moments (RF2 r)) (hn : 3 ≤ s.n) (m₂ m₃ ε₂ δ₃ : ℝ) (hm₂ : 0 < m₂)
    (hε₂ : 0 ≤ ε₂) (hsmall : 6 * r.u + p.ρ + 3/2 * ε₂ ≤ 1/16)
    (h2 : |(s.cmRaw 2).val - m₂| ≤ ε₂ * m₂) (h3 : |(s.cmRaw 3).val - m₃| ≤ δ₃) :
    |s.sampleSkewness.val
        - Real.sqrt ((s.n:ℝ) * ((s.n:ℝ) - 1)) / ((s.n:ℝ) - 2) * m₃ / m₂ ^ ((3:ℝ)/2)|
      ≤ Real.sqrt ((s.n:ℝ) * ((s.n:ℝ) - 1)) / ((s.n:ℝ) - 2) / m₂ ^ ((3:ℝ)/2)
          * (|m₃| * (32/5 * r.u + 16/15 * p.ρ + 8/5 * ε₂) + 16/15 * δ₃) := by
  have hu := r.u_nonneg
  have hρ := p.ρ_nonneg
  have hδ : 0 ≤ δ₃ := le_trans (abs_nonneg _) h3
  have h := sample_skewness_accessor_error q hs p hp s hn m₂ m₃ ε₂ δ₃ hm₂ hε₂ (by linarith)
    (by linarith) (by linarith) h2 h3
  refine le_trans h ?_
  have hΦ := skew_factor_le hu hρ hε₂ hsmall
  unfold skewPhi at hΦ
  have hn' : (3:ℝ) ≤ (s.n : ℝ) := by exact_mod_cast hn
  have hw : 0 ≤ Real.sqrt ((s.n:ℝ) * ((s.n:ℝ) - 1)) / ((s.n:ℝ) - 2) / m₂ ^ ((3:ℝ)/2) :=
    div_nonneg (div_nonneg (Real.sqrt_nonneg _) (by linarith)) (Real.rpow_pos_of_pos hm₂ _).le
  apply mul_le_mul_of_nonneg_left _ hw
  have ha := abs_nonneg m₃
  have h1 : |m₃| * (((1 - r.u)⁻¹)^6 * (1 - p.ρ)⁻¹ * ((1 - ε₂)⁻¹) ^ ((3:ℝ)/2) - 1)
      ≤ |m₃| * (16/15 * (6 * r.u + p.ρ + 3/2 * ε₂)) :=
    mul_le_mul_of_nonneg_left (by linarith) ha
  have h2' : δ₃ * (((1 - r.u)⁻¹)^6 * (1 - p.ρ)⁻¹ * ((1 - ε₂)⁻¹) ^ ((3:ℝ)/2)) ≤ δ₃ * (16/15) :=
    mul_le_mul_of_nonneg_left (by linarith) hδ
  calc _ ≤ |m₃| * (16/15 * (6 * r.u + p.ρ + 3/2 * ε₂)) + δ₃ * (16/15) := add_le_add h1 h2'
    _ = _ := by ring

/-- **The branch `n = 2` (method of moments) on any state.** Same hypotheses; the code computes
`fl(c₃/powfl(fl(2·fl(c₂/fl(2-1)))))`; with `Φ₂ = (1/(1-u))^7 · 1/(1-ρ) · (1/(1-ε₂))^(3/2)`:
`|sample_skewness - m₃/(2·(m₂/(2-1)))^(3/2)| ≤ (|m₃|·(Φ₂ - 1) + δ₃·Φ₂)/(2·(m₂/(2-1)))^(3/2)`. -/
theorem sample_skewness_two_accessor_error (p : RndPow15 r) (hp : Pow15Is p)
    (s : Moments (RF2 r)) (hn : s.n = 2) (m₂ m₃ ε₂ δ₃ : ℝ) (hm₂ : 0 < m₂) (hε₂ : 0 ≤ ε₂) (hε₂1 : ε₂ < 1)
    (hu1 : r.u < 1) (hρ1 : p.ρ < 1)
    (h2 : |(s.cmRaw 2).val - m₂| ≤ ε₂ * m₂) (h3 : |(s.cmRaw 3).val - m₃| ≤ δ₃) :
    |s.sampleSkewness.val - m₃ / (2 * (m₂ / (2 - 1))) ^ ((3:ℝ)/2)|
      ≤ 1 / (2 * (m₂ / (2 - 1))) ^ ((3:ℝ)/2)
          * (|m₃| * (((1 - r.u)⁻¹)^7 * (1 - p.ρ)⁻¹ * ((1 - ε₂)⁻¹) ^ ((3:ℝ)/2) - 1)
              + δ₃ * (((1 - r.u)⁻¹)^7 * (1 - p.ρ)⁻¹ * ((1 - ε₂)⁻¹) ^ ((3:ℝ)/2))) := by
  rw [sampleSkewness_two_val p hp s hn]
  exact skew_two_core r p _ _ m₂ m₃ ε₂ δ₃ hm₂ hε₂ hε₂1 hu1 hρ1 h2 h3

/-- **Two observations: zero within the envelope.** The exact third central moment of two observations is `0`
(`Props.C10.sample_skewness_two`), so with `m₃ = 0` and `7u + ρ + (3/2)·ε₂ ≤ 1/16`:
`|sample_skewness| ≤ (16/15)·δ₃/(2·m₂)^(3/2)`. -/
theorem sample_skewness_two_zero (p : RndPow15 r) (hp : Pow15Is p)
    (s : Moments (RF2 r)) (hn : s.n = 2) (m₂ ε₂ δ₃ : ℝ) (hm₂ : 0 < m₂) (hε₂ : 0 ≤ ε₂)
    (hsmall : 7 * r.u + p.ρ + 3/2 * ε₂ ≤ 1/16)
    (h2 : |(s.cmRaw 2).val - m₂| ≤ ε₂ * m₂) (h3 : |(s.cmRaw 3).val| ≤ δ₃) :
    |s.sampleSkewness.val| ≤ 16/15 * δ₃ / (2 * m₂) ^ ((3:ℝ)/2) := by
  have hu := r.u_nonneg
  have hρ := p.ρ_nonneg
  have hδ : 0 ≤ δ₃ := le_trans (abs_nonneg _) h3
  have h := sample_skewness_two_accessor_error p hp s hn m₂ 0 ε₂ δ₃ hm₂ hε₂ (by linarith)
    (by linarith) (by linarith) h2 (by rwa [sub_zero])
  have hΦ := skew_factor2_le hu hρ hε₂ hsmall
  unfold skewPhi2 at hΦ
  have e : (2:ℝ) * (m₂ / (2 - 1)) = 2 * m₂ := by norm_num
  rw [e, zero_div, sub_zero, abs_zero, zero_mul, zero_add] at h
  have hP : 0 < (2 * m₂) ^ ((3:ℝ)/2) := Real.rpow_pos_of_pos (by linarith) _
  refine le_trans h ?_
  rw [div_mul_eq_mul_div, one_mul]
  apply div_le_div_of_nonneg_right _ hP.le
  calc δ₃ * _ ≤ δ₃ * (16/15) := mul_le_mul_of_nonneg_left (by linarith) hδ
    _ = 16/15 * δ₃ := by ring

end skew

/-! ## 3. `sample_excess_kurtosis` of `define_moments!` -/

section kurt
variable {F : Type} [Field F] [LinearOrder F] [IsStrictOrderedRing F]
variable {r : Rnd2 F} [FloatOps (RF2 r)]

/-- What `sample_excess_kurtosis` computes at R2 on any state with `n ≥ 4`: `fl(t₁ - t₂)` with
`t₁ = fl(fl(fl(fl(n+1)·fl(n-1))·c₄)/fl(fl(fl(n-2)·fl(n-3))·fl(c₂·c₂)))` and
`t₂ = fl(fl(3·fl(fl(n-1)·fl(n-1)))/fl(fl(n-2)·fl(n-3)))`; below four observations it is NaN, bit for bit. -/
theorem sample_excess_kurtosis_computed (s : Moments (RF2 r)) :
    (s.n < 4 → s.sampleExcessKurtosis = nan)
    ∧ (4 ≤ s.n → s.sampleExcessKurtosis.val
      = r.fl (r.fl (r.fl (r.fl (r.fl ((s.n:F) + 1) * r.fl ((s.n:F) - 1)) * (s.cmRaw 4).val)
                / r.fl (r.fl (r.fl ((s.n:F) - 2) * r.fl ((s.n:F) - 3))
                      * r.fl ((s.cmRaw 2).val * (s.cmRaw 2).val)))
              - r.fl (r.fl (3 * r.fl (r.fl ((s.n:F) - 1) * r.fl ((s.n:F) - 1)))
                  / r.fl (r.fl ((s.n:F) - 2) * r.fl ((s.n:F) - 3))))) := by
  refine ⟨fun h => ?_, sampleExcessKurtosis_val s⟩
  unfold Moments.sampleExcessKurtosis; rw [if_pos h]

/-- The exact value splits into scale minus shift:
`(n-1)/((n-2)(n-3))·((n+1)(m₄/m₂² - 3) + 6) = (n+1)(n-1)/((n-2)(n-3))·m₄/m₂² - 3(n-1)²/((n-2)(n-3))`. -/
theorem sample_excess_kurtosis_exact_split (n m₂ m₄ : F) :
    (n - 1) / ((n - 2) * (n - 3)) * ((n + 1) * (m₄ / m₂ ^ 2 - 3) + 6)
      = (n + 1) * (n - 1) / ((n - 2) * (n - 3)) * (m₄ / m₂ ^ 2) - 3 * (n - 1) ^ 2 / ((n - 2) * (n - 3)) :=
  kurt_exact_split n m₂ m₄

/-- **`sample_excess_kurtosis` on any state with `n ≥ 4`.** If the computed `central_moment(2)`,
`central_moment(4)` approximate `m₂ > 0`, `m₄ ≥ 0` with `|c₂ - m₂| ≤ ε₂·m₂`, `|c₄ - m₄| ≤ ε₄·m₄`
(`0 ≤ ε₂, ε₄ < 1`) and `u < 1`, then with `G₁ = kurtScale n m₂ m₄ = (n+1)(n-1)/((n-2)(n-3))·m₄/m₂²`,
`G₂ = kurtShift n = 3(n-1)²/((n-2)(n-3))`, `Φ₁ = (1/(1-u))^10·1/(1-ε₄)·(1/(1-ε₂))²`, `Φ₂ = (1/(1-u))^8`:
`|sample_excess_kurtosis - (n-1)/((n-2)(n-3))·((n+1)(m₄/m₂²-3)+6)|
   ≤ (1+u)·((Φ₁-1)·G₁ + (Φ₂-1)·G₂) + u·|G₁ - G₂|`. -/
theorem sample_excess_kurtosis_accessor_error (s : Moments (RF2 r)) (hn : 4 ≤ s.n)
    (m₂ m₄ ε₂ ε₄ : F) (hm₂ : 0 < m₂) (hm₄ : 0 ≤ m₄) (hε₂ : 0 ≤ ε₂) (hε₂1 : ε₂ < 1) (hε₄ : 0 ≤ ε₄)
    (hε₄1 : ε₄ < 1) (hu1 : r.u < 1)
    (h2 : |(s.cmRaw 2).val - m₂| ≤ ε₂ * m₂) (h4 : |(s.cmRaw 4).val - m₄| ≤ ε₄ * m₄) :
    |s.sampleExcessKurtosis.val
        - ((s.n:F) - 1) / (((s.n:F) - 2) * ((s.n:F) - 3)) * (((s.n:F) + 1) * (m₄ / m₂ ^ 2 - 3) + 6)|
      ≤ (1 + r.u) * ((((1 - r.u)⁻¹)^10 * (1 - ε₄)⁻¹ * ((1 - ε₂)⁻¹)^2 - 1) * kurtScale (s.n:F) m₂ m₄
            + (((1 - r.u)⁻¹)^8 - 1) * kurtShift (s.n:F))
        + r.u * |kurtScale (s.n:F) m₂ m₄ - kurtShift (s.n:F)| := by
  rw [sampleExcessKurtosis_val s hn, kurt_exact_split]
  have hn' : (4:F) ≤ (s.n : F) := by exact_mod_cast hn
  have h := kurt_core r (s.n : F) _ _ m₂ m₄ ε₂ ε₄ hε₂ hε₂1 hε₄ hε₄1 hu1
    (by rwa [abs_of_pos hm₂]) (by rwa [abs_of_nonneg hm₄])
  rw [kurtScale_raw, kurtShift_raw] at h
  have h1 : 0 ≤ kurtScale (s.n:F) m₂ m₄ := by
    unfold kurtScale
    have : 0 < (s.n:F) - 3 := by linarith
    have : 0 < (s.n:F) - 2 := by linarith
    have : 0 < (s.n:F) - 1 := by linarith
    positivity
  have h2' : 0 ≤ kurtShift (s.n:F) := by
    unfold kurtShift
    have : 0 < (s.n:F) - 3 := by linarith
    have : 0 < (s.n:F) - 2 := by linarith
    positivity
  rw [abs_of_nonneg h1, abs_of_nonneg h2'] at h
  exact h

/-- **The same against the scale alone, with numerals.** If moreover `m₂² ≤ m₄` (Cauchy-Schwarz: true of the
exact central moments of every sample) and `10u + ε₄ + 2ε₂ ≤ 1/16`, then `G₂ ≤ 3·G₁` and
`|sample_excess_kurtosis - exact| ≤ ((11/10)·ε₄ + (11/5)·ε₂ + 39·u) · (n+1)(n-1)/((n-2)(n-3)) · m₄/m₂²`.
The bound is relative to the first of the two subtracted terms, not to their (possibly tiny) difference. -/
theorem sample_excess_kurtosis_accessor_envelope (s : Moments (RF2 r)) (hn : 4 ≤ s.n)
    (m₂ m₄ ε₂ ε₄ : F) (hm₂ : 0 < m₂) (hCS : m₂ ^ 2 ≤ m₄) (hε₂ : 0 ≤ ε₂) (hε₄ : 0 ≤ ε₄)
    (hsmall : 10 * r.u + ε₄ + 2 * ε₂ ≤ 1/16)
    (h2 : |(s.cmRaw 2).val - m₂| ≤ ε₂ * m₂) (h4 : |(s.cmRaw 4).val - m₄| ≤ ε₄ * m₄) :
    |s.sampleExcessKurtosis.val
        - ((s.n:F) - 1) / (((s.n:F) - 2) * ((s.n:F) - 3)) * (((s.n:F) + 1) * (m₄ / m₂ ^ 2 - 3) + 6)|
      ≤ (11/10 * ε₄ + 11/5 * ε₂ + 39 * r.u)
          * (((s.n:F) + 1) * ((s.n:F) - 1) / (((s.n:F) - 2) * ((s.n:F) - 3)) * (m₄ / m₂ ^ 2)) := by
  rw [sampleExcessKurtosis_val s hn, kurt_exact_split]
  have hn' : (4:F) ≤ (s.n : F) := by exact_mod_cast hn
  exact kurt_core_scale r (s.n : F) _ _ m₂ m₄ ε₂ ε₄ hn' hm₂ (by rw [← sq]; exact hCS) hε₂ hε₄ hsmall h2 h4

end kurt

/-! ## 4. add-only streams of `define_moments!`: `ε₂` instantiated, `δ₃` / `ε₄` kept abstract -/

/-- **`sample_skewness` after an add-only stream, partial instantiation.** `define_moments!(T, N)`, `N ≥ 3`,
`n ≥ 3` observations `|x_i| ≤ M`, `(n+28)·u ≤ 1/64`, exact moments `m₂ = T/n > 0`, `m₃ = U/n`, `σ = √m₂`,
`κ = 1 + M/σ`, `n·u·M ≤ σ`. The error of `central_moment(2)` is `ε₂ = 8·n·κ·u` (`Props.C04c`); for
`central_moment(3)` no rounding bound is proved, so `δ₃` is any number with `|central_moment(3) - m₃| ≤ δ₃`.
If `6u + ρ + 12·n·κ·u ≤ 1/16`:
`|sample_skewness - A·m₃/m₂^(3/2)| ≤ A/m₂^(3/2)·(|m₃|·((32/5)u + (16/15)ρ + (64/5)·n·κ·u) + (16/15)·δ₃)`.
(`..._partial`: the full statement would give `δ₃` explicitly in `n, κ, u`.) -/
theorem sample_skewness_stream_partial {r : Rnd2 ℝ} [Neg (RF2 r)] [FloatOps (RF2 r)] (hneg : NegExact r)
    (q : RndSqrt r) (hs : SqrtIs q) (p : RndPow15 r) (hp : Pow15Is p) (N : Nat) (hN : 3 ≤ N)
    (M : ℝ) (hM : 0 ≤ M) (xs : List (RF2 r)) (h3 : 3 ≤ xs.length) (hb : ∀ x ∈ xs, |x.val| ≤ M)
    (hsmall : ((xs.length : ℝ) + 28) * r.u ≤ 1/64)
    (hpos : 0 < T (xs.map RF2.val) / (xs.length : ℝ))
    (hcond : (xs.length : ℝ) * r.u * M ≤ Real.sqrt (T (xs.map RF2.val) / (xs.length : ℝ)))
    (δ₃ : ℝ)
    (hδ : |((xs.foldl (Moments.add N) (Moments.new N)).cmRaw 3).val
            - U (xs.map RF2.val) / (xs.length : ℝ)| ≤ δ₃)
    (hsm : 6 * r.u + p.ρ + 3/2 * (8 * xs.length
            * (1 + M / Real.sqrt (T (xs.map RF2.val) / (xs.length : ℝ))) * r.u) ≤ 1/16) :
    |(xs.foldl (Moments.add N) (Moments.new N)).sampleSkewness.val
        - Real.sqrt ((xs.length : ℝ) * ((xs.length : ℝ) - 1)) / ((xs.length : ℝ) - 2)
            * (U (xs.map RF2.val) / (xs.length : ℝ))
            / (T (xs.map RF2.val) / (xs.length : ℝ)) ^ ((3:ℝ)/2)|
      ≤ Real.sqrt ((xs.length : ℝ) * ((xs.length : ℝ) - 1)) / ((xs.length : ℝ) - 2)
            / (T (xs.map RF2.val) / (xs.length : ℝ)) ^ ((3:ℝ)/2)
          * (|U (xs.map RF2.val) / (xs.length : ℝ)|
                * (32/5 * r.u + 16/15 * p.ρ + 8/5 * (8 * xs.length
                    * (1 + M / Real.sqrt (T (xs.map RF2.val) / (xs.length : ℝ))) * r.u))
              + 16/15 * δ₃) := by
  have hne : xs ≠ [] := by intro h; rw [h] at h3; simp at h3
  have hn : (xs.foldl (Moments.add N) (Moments.new N)).n = xs.length := momN_fold_new_n N xs
  have h2 := Props.C04c.central_moment2_envelope_kappa hneg N (by omega) M hM xs hne hb hsmall hpos hcond
  have hε : 0 ≤ 8 * (xs.length : ℝ)
      * (1 + M / Real.sqrt (T (xs.map RF2.val) / (xs.length : ℝ))) * r.u := by
    have := r.u_nonneg
    have := Real.sqrt_nonneg (T (xs.map RF2.val) / (xs.length : ℝ))
    positivity
  have h := sample_skewness_accessor_envelope q hs p hp (xs.foldl (Moments.add N) (Moments.new N))
    (by rw [hn]; exact h3) _ _ _ δ₃ hpos hε hsm h2 hδ
  rwa [hn] at h

/-- **`sample_excess_kurtosis` after an add-only stream, partial instantiation.** `define_moments!(T, N)`,
`N ≥ 4`, `n ≥ 4` observations `|x_i| ≤ M`, `(n+28)·u ≤ 1/64`, `σ > 0` with `σ² = m₂ = T/n`, `m₄ = Q/n`,
`κ = 1 + M/σ`, `n·u·M ≤ σ`. `ε₂ = 8·n·κ·u` (`Props.C04c`); `ε₄` is any number with
`|central_moment(4) - m₄| ≤ ε₄·m₄` (no rounding bound for `m[2]` is proved); `m₂² ≤ m₄` holds by Cauchy-Schwarz.
If `10u + ε₄ + 16·n·κ·u ≤ 1/16`:
`|sample_excess_kurtosis - exact| ≤ ((11/10)·ε₄ + (88/5)·n·κ·u + 39·u)·(n+1)(n-1)/((n-2)(n-3))·m₄/m₂²`.
(`..._partial`: the full statement would give `ε₄` explicitly in `n, κ, u`.) -/
theorem sample_excess_kurtosis_stream_partial {F : Type} [Field F] [LinearOrder F]
    [IsStrictOrderedRing F] {r : Rnd2 F} [Neg (RF2 r)] [FloatOps (RF2 r)] (hneg : NegExact r)
    (N : Nat) (hN : 4 ≤ N) (M : F) (hM : 0 ≤ M) (xs : List (RF2 r)) (h4 : 4 ≤ xs.length)
    (hb : ∀ x ∈ xs, |x.val| ≤ M) (hsmall : ((xs.length : F) + 28) * r.u ≤ 1/64)
    (σ : F) (hσ : 0 < σ) (hvar : σ^2 = T (xs.map RF2.val) / (xs.length : F))
    (hcond : (xs.length : F) * r.u * M ≤ σ) (ε₄ : F) (hε₄ : 0 ≤ ε₄)
    (hq : |((xs.foldl (Moments.add N) (Moments.new N)).cmRaw 4).val
            - Q (xs.map RF2.val) / (xs.length : F)| ≤ ε₄ * (Q (xs.map RF2.val) / (xs.length : F)))
    (hsm : 10 * r.u + ε₄ + 2 * (8 * xs.length * (1 + M / σ) * r.u) ≤ 1/16) :
    |(xs.foldl (Moments.add N) (Moments.new N)).sampleExcessKurtosis.val
        - ((xs.length : F) - 1) / (((xs.length : F) - 2) * ((xs.length : F) - 3))
          * (((xs.length : F) + 1)
              * (Q (xs.map RF2.val) / (xs.length : F) / (T (xs.map RF2.val) / (xs.length : F)) ^ 2 - 3)
              + 6)|
      ≤ (11/10 * ε₄ + 11/5 * (8 * xs.length * (1 + M / σ) * r.u) + 39 * r.u)
          * (((xs.length : F) + 1) * ((xs.length : F) - 1)
              / (((xs.length : F) - 2) * ((xs.length : F) - 3))
              * (Q (xs.map RF2.val) / (xs.length : F) / (T (xs.map RF2.val) / (xs.length : F)) ^ 2)) := by
  have hu := r.u_nonneg
  have hne : xs ≠ [] := by intro h; rw [h] at h4; simp at h4
  have hn : (xs.foldl (Moments.add N) (Moments.new N)).n = xs.length := momN_fold_new_n N xs
  have hnpos : (0:F) < xs.length := by
    have : 0 < xs.length := by omega
    exact_mod_cast this
  have hv : 0 < T (xs.map RF2.val) / (xs.length : F) := by rw [← hvar]; positivity
  -- central_moment(2): relative error 8·n·κ·u
  have h2 : |((xs.foldl (Moments.add N) (Moments.new N)).cmRaw 2).val
      - T (xs.map RF2.val) / (xs.length : F)|
      ≤ 8 * xs.length * (1 + M / σ) * r.u * (T (xs.map RF2.val) / (xs.length : F)) := by
    have h := MomVarErr.cm2_error_envelope hneg N (by omega) M hM xs hne hb hsmall σ hσ.le
      (le_of_eq hvar.symm) hcond
    refine le_trans h (le_of_eq ?_)
    rw [← hvar]
    field_simp
  have hε : 0 ≤ 8 * (xs.length : F) * (1 + M / σ) * r.u := by positivity
  -- Cauchy-Schwarz
  have hCS : (T (xs.map RF2.val) / (xs.length : F)) ^ 2 ≤ Q (xs.map RF2.val) / (xs.length : F) := by
    have h := KurtErr.T_sq_le (xs.map RF2.val)
    rw [List.length_map] at h
    rw [div_pow, div_le_div_iff₀ (by positivity) hnpos]
    calc T (xs.map RF2.val) ^ 2 * (xs.length : F) ≤ ((xs.length : F) * Q (xs.map RF2.val)) * xs.length :=
          mul_le_mul_of_nonneg_right h hnpos.le
      _ = Q (xs.map RF2.val) * (xs.length : F) ^ 2 := by ring
  have h := sample_excess_kurtosis_accessor_envelope (xs.foldl (Moments.add N) (Moments.new N))
    (by rw [hn]; exact h4) _ _ _ ε₄ hv hCS hε hε₄ hsm h2 hq
  rwa [hn] at h

/-! ## Non-vacuity -/

/-- a rounded `powf(·, 1.5)` that is never exact (except at 0): always too large by the full `ρ = 2^-52` -/
noncomputable def awayPow : RndPow15 Props.C01c.awayRndR :=
  ⟨fun t => t ^ ((3:ℝ)/2) * (1 + 1/2^52), 1/2^52, by norm_num, fun t ht => by
    have e : t ^ ((3:ℝ)/2) * (1 + 1/2^52) - t ^ ((3:ℝ)/2) = (1/2^52) * t ^ ((3:ℝ)/2) := by ring
    rw [e, abs_mul, abs_of_pos (by norm_num : (0:ℝ) < 1/2^52), abs_of_nonneg (Real.rpow_nonneg ht _)]⟩

/-- the R2 carrier over ℝ with the never-exact rounding `awayRndR`, square root `awaySqrt`, power `awayPow` -/
@[reducible] noncomputable def exOps : FloatOps (RF2 Props.C01c.awayRndR) :=
  rf2SqrtPowFloatOps Props.C01c.awayRndR Props.C01c.awaySqrt awayPow

/-- a state of `define_moments!(T, 4)` as a deserialiser, a merge or a stream may leave it: five observations
(`1, 2, 3, 4, 10`: mean 4, `T = 50`, `U = 180`, `Q = 1394`, positively skewed) whose stored sums are off by
`10^-3`, `10^-2`, `10^-1` -/
noncomputable def exState : Moments (RF2 Props.C01c.awayRndR) :=
  ⟨5, ⟨4⟩, [⟨50 + 1/1000⟩, ⟨180 - 1/100⟩, ⟨1394 + 1/10⟩]⟩

/-- its computed central moments: one never-exact rounded division each -/
theorem exState_cm :
    letI := exOps
    (exState.cmRaw 2).val = (50 + 1/1000) / 5 * (1 + 1/2^53)
    ∧ (exState.cmRaw 3).val = (180 - 1/100) / 5 * (1 + 1/2^53)
    ∧ (exState.cmRaw 4).val = (1394 + 1/10) / 5 * (1 + 1/2^53) := by
  let _ : FloatOps (RF2 Props.C01c.awayRndR) := exOps
  refine ⟨?_, ?_, ?_⟩
  · rw [cmRaw_val exState 2 (by norm_num) (by norm_num [exState])]
    norm_num [exState, Props.C01c.awayRndR]
  · rw [cmRaw_val exState 3 (by norm_num) (by norm_num [exState])]
    norm_num [exState, Props.C01c.awayRndR]
  · rw [cmRaw_val exState 4 (by norm_num) (by norm_num [exState])]
    norm_num [exState, Props.C01c.awayRndR]

/-- the hypotheses of the accessor theorems of sections 2 and 3 are met by `exState` with `m₂ = 10`, `m₃ = 36`,
`m₄ = 1394/5`, `ε₂ = 10^-3`, `δ₃ = 10^-2`, `ε₄ = 10^-3`, `u = 2^-53`, `ρ = 2^-52` -/
example :
    letI := exOps
    @SqrtIs _ Props.C01c.awaySqrt exOps ∧ @Pow15Is _ awayPow exOps
    ∧ 4 ≤ exState.n ∧ |(exState.cmRaw 2).val - 10| ≤ 1/1000 * 10
    ∧ |(exState.cmRaw 3).val - 36| ≤ 1/100
    ∧ |(exState.cmRaw 4).val - 1394/5| ≤ 1/1000 * (1394/5)
    ∧ (10:ℝ)^2 ≤ 1394/5
    ∧ 6 * Props.C01c.awayRndR.u + awayPow.ρ + 3/2 * (1/1000) ≤ 1/16
    ∧ 10 * Props.C01c.awayRndR.u + 1/1000 + 2 * (1/1000) ≤ 1/16 := by
  let _ : FloatOps (RF2 Props.C01c.awayRndR) := exOps
  obtain ⟨h2, h3, h4⟩ := exState_cm
  refine ⟨rf2SqrtPowFloatOps_sqrtIs _ _ _, rf2SqrtPowFloatOps_pow15Is _ _ _, by norm_num [exState],
    ?_, ?_, ?_, by norm_num, ?_, ?_⟩
  · rw [h2, abs_le]; constructor <;> norm_num
  · rw [h3, abs_le]; constructor <;> norm_num
  · rw [h4, abs_le]; constructor <;> norm_num
  · norm_num [Props.C01c.awayRndR, awayPow]
  · norm_num [Props.C01c.awayRndR]

/-- and the conclusions are concrete statements about computations none of whose operations is exact:
`sample_skewness()` of `exState` is within `A/m₂^1.5·(36·((32/5)·2^-53 + (16/15)·2^-52 + (8/5)·10^-3) + (16/15)·10^-2)`
of `A·36/10^1.5`, `A = √(5·4)/3`; `sample_excess_kurtosis()` is within
`((11/10)·10^-3 + (11/5)·10^-3 + 39·2^-53)·G₁`, `G₁ = 6·4/(3·2)·(1394/5)/10²`, of the exact value. -/
example :
    letI := exOps
    |exState.sampleSkewness.val - Real.sqrt (5 * (5 - 1)) / (5 - 2) * 36 / (10:ℝ) ^ ((3:ℝ)/2)|
      ≤ Real.sqrt (5 * (5 - 1)) / (5 - 2) / (10:ℝ) ^ ((3:ℝ)/2)
          * (|(36:ℝ)| * (32/5 * (1/2^53) + 16/15 * (1/2^52) + 8/5 * (1/1000)) + 16/15 * (1/100))
    ∧ |exState.sampleExcessKurtosis.val
        - (5 - 1) / ((5 - 2) * (5 - 3)) * ((5 + 1) * (1394/5 / (10:ℝ)^2 - 3) + 6)|
      ≤ (11/10 * (1/1000) + 11/5 * (1/1000) + 39 * (1/2^53))
          * ((5 + 1) * (5 - 1) / ((5 - 2) * (5 - 3)) * (1394/5 / (10:ℝ)^2)) := by
  let _ : FloatOps (RF2 Props.C01c.awayRndR) := exOps
  obtain ⟨h2, h3, h4⟩ := exState_cm
  have e2 : |(exState.cmRaw 2).val - 10| ≤ 1/1000 * 10 := by
    rw [h2, abs_le]; constructor <;> norm_num
  have e3 : |(exState.cmRaw 3).val - 36| ≤ 1/100 := by
    rw [h3, abs_le]; constructor <;> norm_num
  have e4 : |(exState.cmRaw 4).val - 1394/5| ≤ 1/1000 * (1394/5) := by
    rw [h4, abs_le]; constructor <;> norm_num
  have hn : ((exState.n : ℕ) : ℝ) = 5 := by norm_num [exState]
  constructor
  · have h := sample_skewness_accessor_envelope Props.C01c.awaySqrt (rf2SqrtPowFloatOps_sqrtIs _ _ _)
      awayPow (rf2SqrtPowFloatOps_pow15Is _ _ _) exState (by norm_num [exState]) 10 36 (1/1000) (1/100)
      (by norm_num) (by norm_num) (by norm_num [Props.C01c.awayRndR, awayPow]) e2 e3
    rw [hn] at h
    exact h
  · have h := sample_excess_kurtosis_accessor_envelope exState (by norm_num [exState]) 10 (1394/5)
      (1/1000) (1/1000) (by norm_num) (by norm_num) (by norm_num) (by norm_num)
      (by norm_num [Props.C01c.awayRndR]) e2 e4
    rw [hn] at h
    exact h

/-- a `Variance` state with a perturbed `sum_2` (five observations, `T = 50`, `ε₂ = 10^-3`) meets the hypotheses
of `sample_variance_state_error`, `variance_of_mean_state_error`, `error_state_error` -/
example :
    let s : Variance (RF2 Props.C01c.awayRndR) := ⟨⟨⟨4⟩, 5⟩, ⟨50 + 1/1000⟩⟩
    2 ≤ s.avg.n ∧ |s.sum_2.val - 50| ≤ 1/1000 * 50 ∧ (0:ℝ) < 50 ∧ (1/1000 : ℝ) ≤ 1
    ∧ Props.C01c.awayRndR.u ≤ 1 := by
  refine ⟨by norm_num, ?_, by norm_num, by norm_num, by norm_num [Props.C01c.awayRndR]⟩
  rw [abs_le]; constructor <;> norm_num

/-- two observations (`1, 2`: `m₂ = 1/4`, `m₃ = 0`) with perturbed stored sums: the hypotheses of
`sample_skewness_two_zero` hold with `ε₂ = 10^-5`, `δ₃ = 10^-9` -/
example :
    letI := exOps
    let s : Moments (RF2 Props.C01c.awayRndR) := ⟨2, ⟨3/2⟩, [⟨1/2 + 1/10^6⟩, ⟨1/10^9⟩, ⟨1/8⟩]⟩
    s.n = 2 ∧ |(s.cmRaw 2).val - 1/4| ≤ 1/10^5 * (1/4) ∧ |(s.cmRaw 3).val| ≤ 1/10^9
    ∧ 7 * Props.C01c.awayRndR.u + awayPow.ρ + 3/2 * (1/10^5) ≤ 1/16 := by
  let _ : FloatOps (RF2 Props.C01c.awayRndR) := exOps
  intro s
  refine ⟨rfl, ?_, ?_, by norm_num [Props.C01c.awayRndR, awayPow]⟩
  · rw [cmRaw_val s 2 (by norm_num) (by norm_num [s])]
    norm_num [s, Props.C01c.awayRndR]
  · rw [cmRaw_val s 3 (by norm_num) (by norm_num [s])]
    norm_num [s, Props.C01c.awayRndR]

/-- an ill-conditioned, positively skewed stream over ℚ (offset 1000; deviations `-3, -1, -1, 5`): `T = 36`,
`U = 96`, `Q = 708`, `σ² = T/n = 9`; the rounding `Props.C02b.awayRnd` is never exact -/
def exStreamQ : List (RF2 Props.C02b.awayRnd) := [⟨997⟩, ⟨999⟩, ⟨999⟩, ⟨1005⟩]

theorem exStreamQ_vals : T (exStreamQ.map RF2.val) = 36 ∧ U (exStreamQ.map RF2.val) = 96
    ∧ Q (exStreamQ.map RF2.val) = 708 := by
  refine ⟨?_, ?_, ?_⟩
  · norm_num [exStreamQ, T, sumPow, mean]
  · norm_num [exStreamQ, U, sumPow, mean]
  · norm_num [exStreamQ, Q, sumPow, mean]

theorem exStreamQ_bound : ∀ x ∈ exStreamQ, |x.val| ≤ 1005 := by
  intro x hx
  simp only [exStreamQ, List.mem_cons, List.not_mem_nil, or_false] at hx
  rcases hx with rfl | rfl | rfl | rfl <;> norm_num

/-- `exStreamQ` meets the hypotheses of the add-only instances of section 1 (`M = 1005`, `σ = 3`, `u = 2^-53`), and
the conclusion is a concrete statement: `sample_variance()` of `Variance` and of `define_moments!(T, 4)` (no rounded
operation is exact) are within `((1+u)·8·4·(1 + 1005/3)·u + u)·12` of `s² = 12`. -/
example :
    letI : FloatOps (RF2 Props.C02b.awayRnd) := rf2FloatOps Props.C02b.awayRnd
    |(exStreamQ.foldl Variance.add Variance.new).sampleVariance.val - 12|
      ≤ ((1 + 1/2^53) * (8 * 4 * (1 + 1005 / 3) * (1/2^53)) + 1/2^53) * 12
    ∧ |(exStreamQ.foldl (Moments.add 4) (Moments.new 4)).sampleVariance.val - 12|
      ≤ ((1 + 1/2^53) * (8 * 4 * (1 + 1005 / 3) * (1/2^53)) + 1/2^53) * 12 := by
  let _ : FloatOps (RF2 Props.C02b.awayRnd) := rf2FloatOps Props.C02b.awayRnd
  have hl : (exStreamQ.length : ℚ) = 4 := by norm_num [exStreamQ]
  have hl' : ((exStreamQ.length - 1 : ℕ) : ℚ) = 3 := by norm_num [exStreamQ]
  have hu : Props.C02b.awayRnd.u = 1/2^53 := rfl
  have hT := exStreamQ_vals.1
  constructor
  · have h := (sample_variance_stream_relative 1005 (by norm_num) exStreamQ (by simp [exStreamQ])
      exStreamQ_bound (by rw [hl, hu]; norm_num) 3 (by norm_num) (by rw [hT, hl]; norm_num)
      (by rw [hl, hu]; norm_num)).1
    rw [hT, hl, hl', hu] at h
    norm_num at h ⊢
    exact h
  · have h := moments_sample_variance_stream_relative (RF2.instNeg_negExact _) 4 (by norm_num) 1005
      (by norm_num) exStreamQ (by simp [exStreamQ])
      exStreamQ_bound (by rw [hl, hu]; norm_num) 3 (by norm_num) (by rw [hT, hl]; norm_num)
      (by rw [hl, hu]; norm_num)
    rw [hT, hl, hl', hu] at h
    norm_num at h ⊢
    exact h

/-- the same data in a merge tree with a nested merge and an empty chunk -/
def exTreeQ : MTree (RF2 Props.C02b.awayRnd) :=
  .node (.leaf [⟨997⟩, ⟨999⟩]) (.node (.leaf []) (.leaf [⟨999⟩, ⟨1005⟩]))

/-- `exTreeQ` meets the hypotheses of `sample_variance_mtree_relative` (`M = 1005`, `σ = 3`) -/
example : 2 ≤ exTreeQ.flatten.length ∧ (∀ x ∈ exTreeQ.flatten, |x.val| ≤ 1005)
    ∧ (exTreeQ.flatten.length : ℚ) * Props.C02b.awayRnd.u ≤ 1/64
    ∧ (exTreeQ.flatten.length : ℚ) * 3^2 = T (exTreeQ.flatten.map RF2.val)
    ∧ (exTreeQ.flatten.length : ℚ) * Props.C02b.awayRnd.u * 1005 ≤ 3 := by
  have hf : exTreeQ.flatten = exStreamQ := rfl
  have hl : (exStreamQ.length : ℚ) = 4 := by norm_num [exStreamQ]
  have hu : Props.C02b.awayRnd.u = 1/2^53 := rfl
  rw [hf, exStreamQ_vals.1, hl, hu]
  exact ⟨by simp [exStreamQ], exStreamQ_bound, by norm_num, by norm_num, by norm_num⟩

/-- the computed `central_moment(4)` of `define_moments!(T, 4)` after `exStreamQ` (every one of its rounded
operations is inexact) has relative error at most `2^-30` against `m₄ = 708/4 = 177` - checked by evaluating the model in
exact rational arithmetic inside the kernel -/
theorem exStreamQ_cm4 :
    letI : FloatOps (RF2 Props.C02b.awayRnd) := rf2FloatOps Props.C02b.awayRnd
    |((exStreamQ.foldl (Moments.add 4) (Moments.new 4)).cmRaw 4).val - 177| ≤ 1/2^30 * 177 := by
  decide +kernel

/-- hence ALL hypotheses of `sample_excess_kurtosis_stream_partial` hold together for `exStreamQ` (`N = 4`,
`M = 1005`, `σ = 3`, `ε₄ = 2^-30`), and its conclusion is a concrete statement: `sample_excess_kurtosis()` is within
`((11/10)·2^-30 + (11/5)·8·4·(1+1005/3)·2^-53 + 39·2^-53)·G₁`, `G₁ = 5·3/(2·1)·177/9²`, of the exact value. -/
example :
    letI : FloatOps (RF2 Props.C02b.awayRnd) := rf2FloatOps Props.C02b.awayRnd
    |(exStreamQ.foldl (Moments.add 4) (Moments.new 4)).sampleExcessKurtosis.val
        - (4 - 1) / ((4 - 2) * (4 - 3)) * ((4 + 1) * (177 / 9 ^ 2 - 3) + 6)|
      ≤ (11/10 * (1/2^30) + 11/5 * (8 * 4 * (1 + 1005 / 3) * (1/2^53)) + 39 * (1/2^53))
          * ((4 + 1) * (4 - 1) / ((4 - 2) * (4 - 3)) * (177 / 9 ^ 2)) := by
  let _ : FloatOps (RF2 Props.C02b.awayRnd) := rf2FloatOps Props.C02b.awayRnd
  have hl : (exStreamQ.length : ℚ) = 4 := by norm_num [exStreamQ]
  have hu : Props.C02b.awayRnd.u = 1/2^53 := rfl
  obtain ⟨hT, _, hQ⟩ := exStreamQ_vals
  have h := sample_excess_kurtosis_stream_partial (RF2.instNeg_negExact _) 4 (le_refl 4) 1005
    (by norm_num) exStreamQ (by simp [exStreamQ]) exStreamQ_bound
    (by rw [hl, hu]; norm_num) 3 (by norm_num) (by rw [hT, hl]; norm_num)
    (by rw [hl, hu]; norm_num) (1/2^30) (by norm_num)
    (by rw [hQ, hl]; have := exStreamQ_cm4; norm_num at this ⊢; exact this)
    (by rw [hl, hu]; norm_num)
  rw [hT, hQ, hl, hu] at h
  norm_num at h ⊢
  exact h

/-- the same stream over ℝ (rounding `awayRndR`, `sqrt` `awaySqrt`, `powf` `awayPow`) meets the hypotheses of
`sample_skewness_stream_partial` with `N = 4`, `M = 1005` (`T/n = 9`, `σ = 3`, `κ = 336`); its hypothesis on
`central_moment(3)` holds for `δ₃` := the actual error, and the smallness condition does not involve `δ₃`. -/
example :
    let xs : List (RF2 Props.C01c.awayRndR) := [⟨997⟩, ⟨999⟩, ⟨999⟩, ⟨1005⟩]
    3 ≤ xs.length ∧ (∀ x ∈ xs, |x.val| ≤ 1005)
    ∧ ((xs.length : ℝ) + 28) * Props.C01c.awayRndR.u ≤ 1/64
    ∧ 0 < T (xs.map RF2.val) / (xs.length : ℝ)
    ∧ (xs.length : ℝ) * Props.C01c.awayRndR.u * 1005 ≤ Real.sqrt (T (xs.map RF2.val) / (xs.length : ℝ))
    ∧ 6 * Props.C01c.awayRndR.u + awayPow.ρ + 3/2 * (8 * xs.length
        * (1 + 1005 / Real.sqrt (T (xs.map RF2.val) / (xs.length : ℝ))) * Props.C01c.awayRndR.u) ≤ 1/16 := by
  intro xs
  have hT : T (xs.map RF2.val) = 36 := by norm_num [xs, T, sumPow, mean]
  have hl : (xs.length : ℝ) = 4 := by norm_num [xs]
  have hu : Props.C01c.awayRndR.u = 1/2^53 := rfl
  have hs : Real.sqrt (36 / 4) = 3 := by
    rw [show (36:ℝ) / 4 = 3 ^ 2 by norm_num]; exact Real.sqrt_sq (by norm_num)
  refine ⟨by simp [xs], ?_, ?_, ?_, ?_, ?_⟩
  · intro x hx
    simp only [xs, List.mem_cons, List.not_mem_nil, or_false] at hx
    rcases hx with rfl | rfl | rfl | rfl <;> norm_num
  · rw [hl, hu]; norm_num
  · rw [hT, hl]; norm_num
  · rw [hT, hl, hu, hs]; norm_num
  · rw [hT, hl, hu, hs]; norm_num [awayPow]

end Props.C10b

#print axioms Props.C10b.sample_variance_delegates
#print axioms Props.C10b.sample_variance_computed
#print axioms Props.C10b.central_moment_computed
#print axioms Props.C10b.sample_variance_state_error
#print axioms Props.C10b.skewness_sample_variance_state_error
#print axioms Props.C10b.kurtosis_sample_variance_state_error
#print axioms Props.C10b.wmwe_sample_variance_state_error
#print axioms Props.C10b.moments_sample_variance_state_error
#print axioms Props.C10b.variance_of_mean_state_error
#print axioms Props.C10b.error_state_error
#print axioms Props.C10b.sample_variance_stream_relative
#print axioms Props.C10b.wmwe_sample_variance_stream_relative
#print axioms Props.C10b.moments_m0_relative_error
#print axioms Props.C10b.moments_sample_variance_stream_relative
#print axioms Props.C10b.sum2_mtree_relative_error
#print axioms Props.C10b.sample_variance_mtree_relative
#print axioms Props.C10b.sample_skewness_sentinels
#print axioms Props.C10b.sample_skewness_computed
#print axioms Props.C10b.sample_skewness_accessor_error
#print axioms Props.C10b.sample_skewness_accessor_envelope
#print axioms Props.C10b.sample_skewness_two_accessor_error
#print axioms Props.C10b.sample_skewness_two_zero
#print axioms Props.C10b.sample_excess_kurtosis_computed
#print axioms Props.C10b.sample_excess_kurtosis_exact_split
#print axioms Props.C10b.sample_excess_kurtosis_accessor_error
#print axioms Props.C10b.sample_excess_kurtosis_accessor_envelope
#print axioms Props.C10b.sample_skewness_stream_partial
#print axioms Props.C10b.sample_excess_kurtosis_stream_partial
#print axioms Props.C10b.exStreamQ_cm4
