import AvgProofs.OrdCarrier
import AvgProofs.QuantileStep
import AvgProofs.QuantileInv
import AvgProofs.QuantileSmall
import AvgProofs.QuantileRange
import Mathlib.Data.Rat.Floor
import Mathlib.Algebra.Order.Ring.Rat
import Mathlib.Algebra.Field.Rat

/-!
# C15 - `Quantile` estimates stay inside the data range and bookkeeping is exact

Carriers.
* any carrier: `len`, `is_empty`, `p()` read-back, `quantile()` of the empty estimator, the
  constructor's panic for an operand that compares false with everything (NaN);
* O + order (linear order `K`, `OrdLaws K`, arbitrary arithmetic): the constructor panics exactly
  outside [0,1]; the small-sample estimate is inside the data range; from the fifth observation on
  the extreme markers are the running minimum and maximum; with sorted heights the estimate is
  between them;
* E (ordered field): heights are sorted after every observation from the fifth on, so the range
  statement holds for every stream.

`IsMinOf m xs` : `m ∈ xs ∧ ∀ x ∈ xs, m ≤ x`; `IsMaxOf m xs` : `m ∈ xs ∧ ∀ x ∈ xs, x ≤ m`.
-/
open Avg Avg.Spec
set_option linter.unusedSectionVars false

namespace Props.C15

/-! ## any carrier -/
section anyCarrier
variable {α : Type} [Add α] [Sub α] [Mul α] [Div α] [NatCast α] [IntCast α] [FloatOps α]

/-- `len()` is the number of observations, for every stream of every length (both phases). -/
theorem len_eq (p : α) (s0 : Quantile α) (h0 : Quantile.new p = .val s0) (xs : List α) :
    (xs.foldl Quantile.add s0).len = xs.length := by
  rw [new_val h0]
  unfold Quantile.len
  rw [run_n_a4]
  exact Int.toNat_natCast _

/-- `is_empty()` is `len() == 0`, on every state -/
theorem isEmpty_iff (s : Quantile α) : s.isEmpty = true ↔ s.len = 0 := by
  unfold Quantile.isEmpty
  exact beq_iff_eq

/-- ... so the estimator is empty exactly before the first observation. -/
theorem isEmpty_run (p : α) (s0 : Quantile α) (h0 : Quantile.new p = .val s0) (xs : List α) :
    (xs.foldl Quantile.add s0).isEmpty = true ↔ xs = [] := by
  rw [isEmpty_iff, len_eq p s0 h0 xs, List.length_eq_zero_iff]

/-- `p()` returns exactly the construction argument after any stream: `add` never writes `dm`. -/
theorem p_readback (p : α) (s0 : Quantile α) (h0 : Quantile.new p = .val s0) (xs : List α) :
    (xs.foldl Quantile.add s0).p = p := by
  rw [new_val h0]
  unfold Quantile.p
  rw [run_dm]
  rfl

/-- the empty estimator's `quantile()` is NaN -/
theorem quantile_empty (p : α) (s0 : Quantile α) (h0 : Quantile.new p = .val s0) :
    s0.quantile = nan := by
  rw [new_val h0]
  rfl

/-- `new` panics for a `p` that compares false with everything under `<` and `==` - a NaN. -/
theorem new_panic_of_unordered (p : α)
    (hp : ∀ y : α, FloatOps.lt y p = false ∧ FloatOps.eqb y p = false) :
    Quantile.new p = .panic := by
  rw [new_eq]
  have : fle ((0:Nat):α) p = false := by
    unfold fle; rw [(hp _).1, (hp _).2]; rfl
  rw [this]
  rfl

end anyCarrier

/-! ## linear order, arbitrary arithmetic -/
section order
variable {K : Type} [LinearOrder K] [FloatOps K] [OrdLaws K]
variable [Add K] [Sub K] [Mul K] [Div K] [NatCast K] [IntCast K]

/-- `Quantile::new(p)` panics exactly when `p` is outside [0,1] (`0`, `1` as the carrier's casts). -/
theorem new_panic_iff (p : K) :
    Quantile.new p = .panic ↔ ¬ (((0:Nat):K) ≤ p ∧ p ≤ ((1:Nat):K)) := by
  rw [new_eq]
  by_cases h : ((0:Nat):K) ≤ p ∧ p ≤ ((1:Nat):K)
  · have : (fle ((0:Nat):K) p && fle p ((1:Nat):K)) = true := by
      simp only [Bool.and_eq_true, fle_iff]; exact h
    rw [if_pos this]
    simp [h]
  · have : ¬ ((fle ((0:Nat):K) p && fle p ((1:Nat):K)) = true) := by
      simp only [Bool.and_eq_true, fle_iff]; exact h
    rw [if_neg this]
    simp [h]

/-- 1 to 4 observations: `quantile()` lies in every interval containing the observations - between
the smallest and the largest - whatever the arithmetic and `ceil` do (the repaired code clamps the
midpoint between its two operands). -/
theorem small_range (p : K) (s0 : Quantile K) (h0 : Quantile.new p = .val s0) (xs : List K)
    (h1 : 1 ≤ xs.length) (h4 : xs.length ≤ 4) (lo hi : K) (hb : ∀ x ∈ xs, lo ≤ x ∧ x ≤ hi) :
    lo ≤ (xs.foldl Quantile.add s0).quantile ∧ (xs.foldl Quantile.add s0).quantile ≤ hi := by
  rw [new_val h0, quantile_small_eq p xs h1 h4]
  exact smallQuantile_range p xs h1 lo hi hb

/-- From the fifth observation on, for every stream and any arithmetic, the first and last marker
heights are the minimum and the maximum of all observations so far. -/
theorem extremes_run (p : K) (s0 : Quantile K) (h0 : Quantile.new p = .val s0) (xs : List K)
    (h5 : 5 ≤ xs.length) :
    IsMinOf (xs.foldl Quantile.add s0).q.a0 xs ∧ IsMaxOf (xs.foldl Quantile.add s0).q.a4 xs := by
  rw [new_val h0]
  exact Avg.extremes_run p xs h5

/-- P² phase: if the heights after the stream are sorted, `quantile()` lies between the smallest
and the largest observation. -/
theorem psq_range_of_sorted (p : K) (s0 : Quantile K) (h0 : Quantile.new p = .val s0) (xs : List K)
    (h5 : 5 ≤ xs.length) (hs : Sorted5 (xs.foldl Quantile.add s0).q) :
    ∃ lo hi, IsMinOf lo xs ∧ IsMaxOf hi xs
      ∧ lo ≤ (xs.foldl Quantile.add s0).quantile ∧ (xs.foldl Quantile.add s0).quantile ≤ hi := by
  obtain ⟨emin, emax⟩ := extremes_run p s0 h0 xs h5
  refine ⟨_, _, emin, emax, ?_⟩
  have hn : (5:Int) ≤ (xs.foldl Quantile.add s0).n.a4 := by
    rw [new_val h0, run_n_a4]; exact_mod_cast h5
  rw [quantile_large _ hn]
  obtain ⟨h01, h12, h23, h34⟩ := hs
  exact ⟨le_trans h01 h12, le_trans h23 h34⟩

/-- Every non-empty stream, any arithmetic: `quantile()` lies in every interval containing the
observations, provided the heights are sorted once five observations are in (the invariant
monitored on the implementation; a theorem in exact arithmetic, `wellformed_run`). -/
theorem quantile_range_of_sorted (p : K) (s0 : Quantile K) (h0 : Quantile.new p = .val s0) (xs : List K)
    (hne : xs ≠ []) (hs : 5 ≤ xs.length → Sorted5 (xs.foldl Quantile.add s0).q)
    (lo hi : K) (hb : ∀ x ∈ xs, lo ≤ x ∧ x ≤ hi) :
    lo ≤ (xs.foldl Quantile.add s0).quantile ∧ (xs.foldl Quantile.add s0).quantile ≤ hi := by
  have hpos : 0 < xs.length := List.length_pos_of_ne_nil hne
  by_cases h5 : 5 ≤ xs.length
  · obtain ⟨a, b, ha, hb', h1, h2⟩ := psq_range_of_sorted p s0 h0 xs h5 (hs h5)
    exact ⟨le_trans (hb a ha.1).1 h1, le_trans h2 (hb b hb'.1).2⟩
  · exact small_range p s0 h0 xs (by omega) (by omega) lo hi hb

end order

/-! ## exact arithmetic -/
section field
variable {K : Type} [Field K] [LinearOrder K] [IsStrictOrderedRing K] [FloatOps K] [OrdLaws K]

/-- in a field the constructor's bounds are the field's 0 and 1 -/
theorem new_panic_iff_field (p : K) : Quantile.new p = .panic ↔ ¬ (0 ≤ p ∧ p ≤ 1) := by
  rw [new_panic_iff, Nat.cast_zero, Nat.cast_one]

/-- Exact arithmetic: after every stream of at least five observations the serialised marker state
is well formed - heights non-decreasing, positions strictly increasing from 1 to the count, first
and last height the minimum and maximum of the observations. -/
theorem wellformed_run (p : K) (s0 : Quantile K) (h0 : Quantile.new p = .val s0) (xs : List K)
    (h5 : 5 ≤ xs.length) :
    Sorted5 (xs.foldl Quantile.add s0).q
    ∧ StrictIncr5 (xs.foldl Quantile.add s0).n
    ∧ (xs.foldl Quantile.add s0).n.a0 = 1 ∧ (xs.foldl Quantile.add s0).n.a4 = xs.length
    ∧ IsMinOf (xs.foldl Quantile.add s0).q.a0 xs ∧ IsMaxOf (xs.foldl Quantile.add s0).q.a4 xs := by
  obtain ⟨emin, emax⟩ := extremes_run p s0 h0 xs h5
  rw [new_val h0] at emin emax ⊢
  obtain ⟨iq, inn, i4⟩ := run_inv p xs h5
  refine ⟨iq, inn, ?_, i4, emin, emax⟩
  clear iq inn i4 emin emax h5
  induction xs using List.reverseRecOn with
  | nil => rfl
  | append_singleton ys y ih =>
    rw [List.foldl_append]
    simp only [List.foldl_cons, List.foldl_nil]
    rw [add_n_a0_any, ih]

/-- Exact arithmetic, every `p` in [0,1], every non-empty stream of any length: `quantile()` lies
in every interval that contains the observations, i.e. between the smallest and largest seen. -/
theorem quantile_range (p : K) (s0 : Quantile K) (h0 : Quantile.new p = .val s0) (xs : List K)
    (hne : xs ≠ []) (lo hi : K) (hb : ∀ x ∈ xs, lo ≤ x ∧ x ≤ hi) :
    lo ≤ (xs.foldl Quantile.add s0).quantile ∧ (xs.foldl Quantile.add s0).quantile ≤ hi :=
  quantile_range_of_sorted p s0 h0 xs hne (fun h5 => (wellformed_run p s0 h0 xs h5).1) lo hi hb

end field

/-! ## the hypotheses are satisfiable -/
section examples

@[reducible] def intOps : FloatOps Int := ordFloatOps Int 0 0 0 id id id
@[reducible] def ratOps : FloatOps ℚ := ordFloatOps ℚ 0 0 0 id id (fun x => ⌈x⌉)
attribute [local instance] intOps ratOps
local instance : OrdLaws Int := ordFloatOps_laws Int 0 0 0 id id id
local instance : OrdLaws ℚ := ordFloatOps_laws ℚ 0 0 0 id id (fun x => ⌈x⌉)

/-- `new (3/10)` succeeds over ℚ, `new 2` and `new (-1/10)` panic -/
example : (∃ s0, Quantile.new (3/10 : ℚ) = .val s0) ∧ Quantile.new (2 : ℚ) = .panic
    ∧ Quantile.new (-1/10 : ℚ) = .panic := by
  refine ⟨⟨Quantile.init (3/10), ?_⟩, ?_, ?_⟩
  · rw [new_eq]
    have : (fle ((0:Nat):ℚ) (3/10) && fle (3/10) ((1:Nat):ℚ)) = true := by
      simp only [Bool.and_eq_true, fle_iff]; norm_num
    rw [if_pos this]
  · rw [new_panic_iff_field]; norm_num
  · rw [new_panic_iff_field]; norm_num

/-- a constant stream and a tie-heavy reversed stream over ℤ (p = 1, integer division): the
estimate is inside the range, the state is as `extremes_run` says -/
example : (([7, 7, 7, 7, 7, 7, 7] : List Int).foldl Quantile.add (Quantile.init 1)).quantile = 7
    ∧ (([3, 3, 2, 2, 1, 1, 0, 0] : List Int).foldl Quantile.add (Quantile.init 1)).q.a0 = 0
    ∧ (([3, 3, 2, 2, 1, 1, 0, 0] : List Int).foldl Quantile.add (Quantile.init 1)).q.a4 = 3
    ∧ (([3, 3, 2, 2, 1, 1, 0, 0] : List Int).foldl Quantile.add (Quantile.init 1)).len = 8 := by
  decide

end examples

end Props.C15

#print axioms Props.C15.len_eq
#print axioms Props.C15.isEmpty_iff
#print axioms Props.C15.isEmpty_run
#print axioms Props.C15.p_readback
#print axioms Props.C15.quantile_empty
#print axioms Props.C15.new_panic_of_unordered
#print axioms Props.C15.new_panic_iff
#print axioms Props.C15.small_range
#print axioms Props.C15.extremes_run
#print axioms Props.C15.psq_range_of_sorted
#print axioms Props.C15.quantile_range_of_sorted
#print axioms Props.C15.new_panic_iff_field
#print axioms Props.C15.wellformed_run
#print axioms Props.C15.quantile_range
