import AvgProofs.WeightedMeanErr
import AvgProofs.WeightedMeanLower
import Mathlib.Tactic.NormNum

/-!
# C08 (addendum) - the weighted mean in floating point: proved forward-error bound, every merge tree

Carrier **R2** (`RF2 r`, `AvgProofs/MeanErr2.lean`): an ordered field `F` in which every `+ - * /` is
followed by a rounding `r.fl` with `|fl t - t| ≤ u |t|` (standard model: no overflow, no underflow).
`FloatOps (RF2 r)` is any instance whose `==` compares the values (`ValEqb r`; `rf2FloatOps r` is one) -
the only `FloatOps` member `WeightedMean` uses besides `nan`.
Observations are pairs `(x, w)`; `WObs M (x, w)` says `w ≥ 0` and `|x| ≤ M` **if `w > 0`** - the sample of
a zero-weight observation is unrestricted. `pairVals` maps the observations to their exact values,
`W`, `WX` are the exact `Σw`, `Σw·x`. `MTree` is an arbitrary order-preserving binary merge tree over
contiguous chunks (empty chunks, one-element chunks and chunks of total weight zero allowed).

What makes this harder than the plain mean: `WeightedMean.add` divides by the *rounded* running sum of
the weights `Ŵ_k = fl(Ŵ_{k-1} + w_k)` (relative error up to about `k·u`), so the computed ratio `w/Ŵ_k`
is off from the exact `w/W_k` by a relative `(k+1)·u`, not by `u`. The proof carries the invariant
`WInv` (`AvgProofs/WeightedMeanErr.lean`): `|Ŵ - Σw| ≤ (64/63)·n·u·Ŵ`, the average is exactly `0` while
`Σw = 0`, and `|weighted_avg - Σwx/Σw| ≤ 8·u·M·n`; the contraction by `1 - w/W_k` of the old error pays
for the `k·u·(w/W_k)·2M` of the perturbed ratio.

**Result** (`weighted_mean_mtree_forward_error`): for every merge tree over `n` observations with
positive total weight and `n·u ≤ 1/64`: `|mean() - Σwx/Σw| ≤ 8·n·u·M` and
`|sum_weights() - Σw| ≤ 2·n·u·Σw`; the same for `WeightedMeanWithError::weighted_mean / sum_weights`.

**On the constant.** DESIGN.md section 5 measures the weighted mean against `4·n·u·M`. The constant
proved here is `8`; `4` cannot be proved from the standard model alone (`constant_four_fails`): with
`n = 2`, observations `(-1, 2^-80)`, `(1, 1)` and roundings chosen adversarially (sum of the weights
rounded down; quotient, difference, product, final sum rounded up, each by the full `u = 2^-53`) the
result is `1 + 9u + O(u²)`, i.e. an error of about `4.5·n·u·M`. (IEEE arithmetic does not realise that
pattern - `fl(2^-80 + 1) = 1` exactly there - so the measured envelope is not contradicted.)
-/
open Avg MSpec

namespace Props.C08b
variable {F : Type} [Field F] [LinearOrder F] [IsStrictOrderedRing F] {r : Rnd2 F}

/-! ## one `add`, one `merge` -/

/-- The roundings of one `WeightedMean.add` with positive weight. `C` is the computed new weight sum and
`W'` the exact one with `|C - W'| ≤ h·C`; `m` is the exact weighted mean so far, `ρ = w/W'` the exact
ratio, `e = prev - m` the error so far, `|x - m| ≤ D`. The computed
`fl(prev + fl(fl(w/C)·fl(x - prev)))` is within `(1+u)·((1-ρ)|e| + ρ·η·(D + |e|)) + u·M` of the exact
update `m + ρ(x - m)`, where `η = wEta h u = h + 3u + O(hu + u²)`. -/
theorem weighted_add_rounding_error (r : Rnd2 F) (h C W' w : F) (hh : 0 ≤ h) (hC : 0 < C) (hW' : 0 < W')
    (hCW : |C - W'| ≤ h * C) (hw0 : 0 ≤ w) (hwW : w ≤ W')
    (M D prev m x : F) (hm : |m| ≤ M) (hx : |x| ≤ M) (hD : |x - m| ≤ D) :
    |r.fl (prev + r.fl (r.fl (w / C) * r.fl (x - prev))) - (m + w / W' * (x - m))|
      ≤ (1 + r.u) * ((1 - w / W') * |prev - m| + w / W' * wEta h r.u * (D + |prev - m|)) + r.u * M :=
  wmean_step_error r.fl r.u r.u_nonneg r.err h C W' w hh hC hW' hCW hw0 hwW M D prev m x hm hx hD

/-- **`add` keeps the invariant**: if `s` summarises the exact pairs `qs` (`n` of them) in the sense of
`WInv` - stored weight sum non-negative and within `(64/63)·n·u` of `Σw` relative to itself, average
exactly `0` while `Σw = 0`, average within `8·u·M·n` of `Σwx/Σw` - then `s.add x w` summarises
`qs ++ [(x, w)]` in the same sense (with `n + 1`), provided `(n+1)·u ≤ 1/64`. -/
theorem weighted_add_keeps_invariant [FloatOps (RF2 r)] (heq : ValEqb r) {M : F} (hM : 0 ≤ M)
    (s : WeightedMean (RF2 r)) (qs : List (F × F)) (x w : RF2 r)
    (hinv : WInv r M s qs) (hqs : ∀ p ∈ qs, WObs M p) (hw : WObs M (x.val, w.val))
    (hsmall : ((qs.length + 1 : Nat) : F) * r.u ≤ 1/64) :
    WInv r M (s.add x w) (qs ++ [(x.val, w.val)]) :=
  WInv.add heq hM s qs x w hinv hqs hw hsmall

/-- **`merge` keeps the invariant**: if `a`, `b` summarise `ps`, `qs` in the sense of `WInv`, then
`a.merge b` summarises `ps ++ qs`, provided `(|ps| + |qs|)·u ≤ 1/64`. Both early returns (a state whose
weight sum is zero) are covered. For two states of positive weight the five roundings of
`(Ŵ_a·a + Ŵ_b·b)/(Ŵ_a + Ŵ_b)` cost `5·u·(M + 8uMn)` (`Props.C02b.merge_rounding_error`), the use of the
computed weights instead of the exact ones costs `(64/31)·u·M·n·t(1-t)`, `t = Ŵ_b/(Ŵ_a+Ŵ_b)`. -/
theorem weighted_merge_keeps_invariant [FloatOps (RF2 r)] (heq : ValEqb r) {M : F} (hM : 0 ≤ M)
    (a b : WeightedMean (RF2 r)) (ps qs : List (F × F))
    (ha : WInv r M a ps) (hb : WInv r M b qs) (hps : ∀ p ∈ ps, WObs M p) (hqs : ∀ p ∈ qs, WObs M p)
    (hsmall : ((ps ++ qs).length : F) * r.u ≤ 1/64) :
    WInv r M (a.merge b) (ps ++ qs) :=
  WInv.merge heq hM a b ps qs ha hb hps hqs hsmall

/-! ## streams and merge trees -/

/-- **Add-only streams.** After `n` observations `(x, w)` with `w ≥ 0`, `|x| ≤ M` where `w > 0`,
positive total weight and `n·u ≤ 1/64`: `|mean() - Σwx/Σw| ≤ 8·u·M·n`. -/
theorem weighted_mean_forward_error [FloatOps (RF2 r)] (heq : ValEqb r) {M : F} (hM : 0 ≤ M)
    (ps : List (RF2 r × RF2 r)) (hobs : ∀ p ∈ ps, WObs M (p.1.val, p.2.val))
    (hsmall : (ps.length : F) * r.u ≤ 1/64) (hpos : 0 < W (pairVals ps)) :
    |(ps.foldl WeightedMean.addP WeightedMean.new).mean.val - WX (pairVals ps) / W (pairVals ps)|
      ≤ 8 * r.u * M * (ps.length : F) := by
  obtain ⟨h1, _, h3⟩ := wmean_mtree_error heq hM (.leaf ps) hobs hsmall hpos
  have h1' : 0 < (ps.foldl WeightedMean.addP WeightedMean.new).weight_sum.val := h1
  rw [WeightedMean.mean_of_pos heq _ h1']
  exact h3

/-- **`WeightedMean`, every merge tree.** In the standard model of rounding with unit roundoff `u`, for
every merge tree `t` (any shape, any chunk sizes; empty chunks and chunks of total weight zero
included) over `n` observations `(x, w)` with `w ≥ 0`, `|x| ≤ M` where `w > 0`, positive total weight
and `n·u ≤ 1/64`:
`|mean() - Σwx/Σw| ≤ 8·u·M·n` and `|sum_weights() - Σw| ≤ 2·n·u·Σw` (and `is_empty()` is false). -/
theorem weighted_mean_mtree_forward_error [FloatOps (RF2 r)] (heq : ValEqb r) {M : F} (hM : 0 ≤ M)
    (t : MTree (RF2 r × RF2 r)) (hobs : ∀ p ∈ t.flatten, WObs M (p.1.val, p.2.val))
    (hsmall : (t.flatten.length : F) * r.u ≤ 1/64) (hpos : 0 < W (pairVals t.flatten)) :
    |(WeightedMean.evalTree t).mean.val - WX (pairVals t.flatten) / W (pairVals t.flatten)|
      ≤ 8 * r.u * M * (t.flatten.length : F) ∧
    |(WeightedMean.evalTree t).sumWeights.val - W (pairVals t.flatten)|
      ≤ 2 * (t.flatten.length : F) * r.u * W (pairVals t.flatten) ∧
    0 < (WeightedMean.evalTree t).sumWeights.val := by
  obtain ⟨h1, h2, h3⟩ := wmean_mtree_error heq hM t hobs hsmall hpos
  rw [WeightedMean.mean_of_pos heq _ h1]
  exact ⟨h3, h2, h1⟩

/-- The invariant itself for every merge tree (also when the total weight is zero). -/
theorem weighted_mean_mtree_invariant [FloatOps (RF2 r)] (heq : ValEqb r) {M : F} (hM : 0 ≤ M)
    (t : MTree (RF2 r × RF2 r)) (hobs : ∀ p ∈ t.flatten, WObs M (p.1.val, p.2.val))
    (hsmall : (t.flatten.length : F) * r.u ≤ 1/64) :
    WInv r M (WeightedMean.evalTree t) (pairVals t.flatten) :=
  wmean_mtree_inv heq hM t hobs hsmall

/-- Total weight zero (all weights `0`, any samples): the stored weight sum and the stored average are
exactly `0` after any merge tree - `is_empty()` stays true, nothing was divided by zero. -/
theorem weighted_total_weight_zero [FloatOps (RF2 r)] (heq : ValEqb r)
    (t : MTree (RF2 r × RF2 r)) (hobs : ∀ p ∈ t.flatten, p.2.val = 0)
    (hsmall : (t.flatten.length : F) * r.u ≤ 1/64) :
    (WeightedMean.evalTree t).weight_sum.val = 0 ∧ (WeightedMean.evalTree t).weighted_avg.val = 0
      ∧ (WeightedMean.evalTree t).isEmpty = true := by
  have hobs' : ∀ p ∈ t.flatten, WObs (0:F) (p.1.val, p.2.val) := by
    intro p hp
    have := hobs p hp
    exact ⟨this.ge, fun h => absurd this h.ne'⟩
  have hinv := wmean_mtree_inv heq le_rfl t hobs' hsmall
  have hW : W (pairVals t.flatten) = 0 := by
    unfold pairVals W
    rw [List.map_map]
    apply List.sum_eq_zero
    intro z hz
    rw [List.mem_map] at hz
    obtain ⟨p, hp, rfl⟩ := hz
    exact hobs p hp
  have hn0 : (0:F) ≤ (t.flatten.length : F) := Nat.cast_nonneg _
  have hws := hinv.wsum
  rw [pairVals_length] at hws
  have hz := (wsum_zero_iff _ _ _ (by nlinarith [r.u_nonneg]) hinv.wnn hws).mpr hW
  refine ⟨hz, hinv.zero hW, ?_⟩
  unfold WeightedMean.isEmpty
  rw [heq]
  exact hz.trans (Nat.cast_zero (R := F)).symm

/-! ## `WeightedMeanWithError` -/

/-- **`WeightedMeanWithError`, every merge tree.** Its `weighted_mean()` and `sum_weights()` are computed
by the text of `WeightedMean` (`WeightedMeanWithError.mtree_weighted_avg`, any carrier), so the same
bounds hold: `|weighted_mean() - Σwx/Σw| ≤ 8·u·M·n`, `|sum_weights() - Σw| ≤ 2·n·u·Σw`. -/
theorem wmwe_weighted_mean_mtree_forward_error [FloatOps (RF2 r)] (heq : ValEqb r) {M : F} (hM : 0 ≤ M)
    (t : MTree (RF2 r × RF2 r)) (hobs : ∀ p ∈ t.flatten, WObs M (p.1.val, p.2.val))
    (hsmall : (t.flatten.length : F) * r.u ≤ 1/64) (hpos : 0 < W (pairVals t.flatten)) :
    |(WeightedMeanWithError.evalTree t).weightedMean.val
        - WX (pairVals t.flatten) / W (pairVals t.flatten)| ≤ 8 * r.u * M * (t.flatten.length : F) ∧
    |(WeightedMeanWithError.evalTree t).sumWeights.val - W (pairVals t.flatten)|
      ≤ 2 * (t.flatten.length : F) * r.u * W (pairVals t.flatten) := by
  unfold WeightedMeanWithError.weightedMean WeightedMeanWithError.sumWeights
  rw [WeightedMeanWithError.mtree_weighted_avg]
  obtain ⟨h1, h2, _⟩ := weighted_mean_mtree_forward_error heq hM t hobs hsmall hpos
  exact ⟨h1, h2⟩

/-! ## the constant -/

/-- **The constant cannot be lowered to 4 in the standard model of rounding.** There is a rounding
`WLower.advRnd` with `|fl t - t| ≤ 2^-53·|t|` for every `t` (the identity except at five arguments) and
a stream `WLower.obs` of `n = 2` observations, `(-1, 2^-80)` and `(1, 1)`, which meets every hypothesis
of `weighted_mean_forward_error` with `M = 1`, and for which `mean()` is **more than `4·n·u·M`** away
from the exact weighted mean. (The proved constant is 8; the worst case of this two-observation pattern
is `4.5`.) -/
theorem constant_four_fails :
    ValEqb WLower.advRnd ∧ WLower.advRnd.u = 1/2^53
    ∧ (∀ p ∈ WLower.obs, WObs (1:ℚ) (p.1.val, p.2.val))
    ∧ (WLower.obs.length : ℚ) * WLower.advRnd.u ≤ 1/64 ∧ 0 < W (pairVals WLower.obs) ∧
    4 * (WLower.obs.length : ℚ) * WLower.advRnd.u * 1
      < |(WLower.obs.foldl WeightedMean.addP WeightedMean.new).mean.val
          - WX (pairVals WLower.obs) / W (pairVals WLower.obs)| :=
  WLower.four_fails

/-! ## Non-vacuity -/

/-- a rounding that is never exact (except at 0): always moves away from zero by the full relative
amount `u = 2^-53` -/
def awayRnd : Rnd2 ℚ :=
  ⟨fun t => t * (1 + 1/2^53), 1/2^53, by norm_num, fun t => by
    have : t * (1 + 1/2^53) - t = (1/2^53) * t := by ring
    rw [this, abs_mul, abs_of_pos (by norm_num : (0:ℚ) < 1/2^53)]⟩

/-- the comparisons of the values: an instance with `ValEqb` -/
local instance : FloatOps (RF2 awayRnd) := rf2FloatOps awayRnd

/-- a tree with a nested merge, an empty chunk in the middle, unequal chunk sizes, a leading
zero-weight observation whose sample (`1000`) is far outside the bound `M = 6`, and a non-integer weight -/
def exTree : MTree (RF2 awayRnd × RF2 awayRnd) :=
  .node (.leaf [(⟨1000⟩, ⟨0⟩), (⟨1⟩, ⟨2⟩), (⟨-6⟩, ⟨1⟩)]) (.node (.leaf []) (.leaf [(⟨3⟩, ⟨1/2⟩)]))

theorem exTree_obs : ∀ p ∈ exTree.flatten, WObs (6:ℚ) (p.1.val, p.2.val) := by
  intro p hp
  simp only [exTree, MTree.flatten, List.nil_append, List.mem_append, List.mem_cons,
    List.not_mem_nil, or_false] at hp
  rcases hp with (rfl | rfl | rfl) | rfl
  · exact ⟨le_rfl, fun h => absurd h (lt_irrefl _)⟩
  · exact ⟨by norm_num, fun _ => by norm_num⟩
  · exact ⟨by norm_num, fun _ => by norm_num⟩
  · exact ⟨by norm_num, fun _ => by norm_num⟩

theorem exTree_W : W (pairVals exTree.flatten) = 7/2 := by
  norm_num [exTree, MTree.flatten, pairVals, W]

theorem exTree_WX : WX (pairVals exTree.flatten) = -5/2 := by
  norm_num [exTree, MTree.flatten, pairVals, WX]

/-- the hypotheses of the tree theorems are met by `exTree` with `M = 6`, `u = 2^-53`: exact
`Σw = 7/2 > 0` -/
example : ValEqb awayRnd ∧ (∀ p ∈ exTree.flatten, WObs (6:ℚ) (p.1.val, p.2.val))
    ∧ (exTree.flatten.length : ℚ) * awayRnd.u ≤ 1/64 ∧ 0 < W (pairVals exTree.flatten) :=
  ⟨rf2FloatOps_valEqb awayRnd, exTree_obs, by norm_num [exTree, MTree.flatten, awayRnd],
    by rw [exTree_W]; norm_num⟩

/-- and the conclusion is a concrete statement about a computation under a rounding that is not the
identity: `mean()` is within `8·2^-53·6·4` of the exact weighted mean `(-5/2)/(7/2) = -5/7` -/
example : |(WeightedMean.evalTree exTree).mean.val - (-5/7)| ≤ 8 * (1/2^53) * 6 * 4 := by
  have h := (weighted_mean_mtree_forward_error (rf2FloatOps_valEqb awayRnd) (by norm_num : (0:ℚ) ≤ 6)
    exTree exTree_obs (by norm_num [exTree, MTree.flatten, awayRnd])
    (by rw [exTree_W]; norm_num)).1
  have hl : (exTree.flatten.length : ℚ) = 4 := by norm_num [exTree, MTree.flatten]
  rw [exTree_W, exTree_WX, hl] at h
  have e : (-5/2 : ℚ) / (7/2) = -5/7 := by norm_num
  rw [e] at h
  exact h

end Props.C08b

#print axioms Props.C08b.weighted_add_rounding_error
#print axioms Props.C08b.weighted_add_keeps_invariant
#print axioms Props.C08b.weighted_merge_keeps_invariant
#print axioms Props.C08b.weighted_mean_forward_error
#print axioms Props.C08b.weighted_mean_mtree_forward_error
#print axioms Props.C08b.weighted_mean_mtree_invariant
#print axioms Props.C08b.weighted_total_weight_zero
#print axioms Props.C08b.wmwe_weighted_mean_mtree_forward_error
#print axioms Props.C08b.constant_four_fails
