import AvgProofs.VarMergeErrLin
import Props.C02b
import Mathlib.Analysis.Real.Sqrt
import Mathlib.Tactic.NormNum

/-!
# C02 (second addendum) - the forward-error bound of the variance holds for every merge tree

The envelope clause of C02 for `Variance` (= `MeanWithError`): *proved* for every merge tree, with a
bound of the same shape as the one of `Props.C01b.sum2_forward_error` for add-only streams - linear in
the conditioning.

Carrier **R2** (`RF2 r`, `AvgProofs/MeanErr2.lean`): an ordered field `F` in which every `+ - * /` is
followed by a rounding `r.fl` with `|fl t - t| ≤ u·|t|` (standard model: no overflow, no underflow);
conversions of counts are exact (`n < 2^53`). `MTree` is an arbitrary order-preserving binary merge tree
over contiguous chunks (empty and one-element chunks allowed); `Variance.evalTree t` folds every leaf
with `Variance.add` from `Variance.new` and combines the summaries with `Variance.merge` along the tree.
Notation: `n` the number of observations, `M ≥ max|x_i|`, `mean vs = Σx/n`, `T vs = Σ(x - mean)²`
(`VarSpec.T`), `var = T/n`.

What `Variance.merge` computes for `sum_2` of two non-empty states (`sum2_computed_merge`; eight rounded
operations - six for the cross term, two additions - on top of the five of `Mean.merge`):
`S' = fl(S_x + fl(S_y + fl(fl(fl(fl(δ·δ)·n_x)·n_y)/fl(n_x+n_y))))`, `δ = fl(b - a)`, `a`, `b` the *computed*
means of the operands; `n_x + n_y` is a rounded addition of two exactly converted counts. The exact
quantity obeys `T(xs++ys) = T xs + T ys + (μ_y-μ_x)²·n_x·n_y/(n_x+n_y)` (`sum2_exact_merge`).

Main results (`u` the unit roundoff, `R₀ = sqrt(n·T) = n·σ`):

* `sum2_mtree_forward_error`: `n·u ≤ 1/64` ⟹ `|sum_2 - T| ≤ 10·n·u·T + 17·n·u·M·R₀ + 45·n³·u²·M²`
  for EVERY merge tree (add-only stream, `Props.C01b.sum2_forward_error`: `10, 14, 41` - the second and
  third numerals are larger, the first is the same).
* `population_variance_mtree_forward_error`: `|population_variance - var| ≤ 12·n·u·var + 18·n·u·M·σ +
  46·n²·u²·M²` (add-only: `12, 15, 42`); `sample_variance_mtree_forward_error`: `12, 35, 92`.
* `variance_mtree_forward_error`: count exact, mean within `11·u·M·n`, `sum_2` as above - one statement.

How: (i) the cross term is computed with relative error `η = (1+u)^6/(1-u) - 1 ≤ 7.5u`
(`cross_term_rounding_error`); (ii) the errors `e_x, e_y` of the two computed means perturb it by
`(2(e_y-e_x)(μ_y-μ_x) + (e_y-e_x)²)·n_x·n_y/(n_x+n_y)`, linear in the *distance of the chunk means*, which
is at most `sqrt(T·(n_x+n_y)/(n_x·n_y))` (`sum2_merge_state_error`); (iii) the induction over the tree
carries the square-root-free envelope
`G(n,T) = (19/2)·u·n·T + (4/5)·Λ·n·T + (4/5)·κ·n² + (2/5)·B²·n³` for *all* `Λ, κ ≥ 0` with `B² ≤ Λ·κ`
(`B` the per-observation budget of the mean, kept by every merge tree by `Props.C02b`), which is
super-additive under merge with the same `Λ, κ` (`envelope_superadditive`:
`n·T - n_x·T_x - n_y·T_y = n_y·T_x + n_x·T_y + n·C ≥ T + C`, and AM-GM against `n·C = (μ_y-μ_x)²·n_x·n_y`);
the two rounded additions of a merge multiply the accumulated error by `(1+u)²`, at most `n - 1` times
along any path, whence the leading factor `(1+u)^(2n) ≤ 32/31`; (iv) `Λ = B·n/R₀`, `κ = B·R₀/n` at the
end.

Not covered: `Skewness`, `Kurtosis`, `define_moments!` (higher sums) through merge trees - only their
inner mean (`Props.C02b`) and, by projection, their inner `Variance`
(`skewness_mtree_sum2_forward_error`, `kurtosis_mtree_sum2_forward_error`); `variance_of_mean`/`error`.
-/
open Avg MSpec Finset VarSpec VarErr VarMerge

namespace Props.C02c
variable {F : Type} [Field F] [LinearOrder F] [IsStrictOrderedRing F]

/-! ## the exact side -/

/-- **Exact merge identity.** For non-empty `xs`, `ys` the sum of squared deviations of the
concatenation is `T xs + T ys + (mean ys - mean xs)²·n_x·n_y/(n_x+n_y)` - the quantity
`Variance.merge` approximates. -/
theorem sum2_exact_merge (xs ys : List F) (hx : xs ≠ []) (hy : ys ≠ []) :
    T (xs ++ ys) = T xs + T ys
      + (mean ys - mean xs)^2 * ((xs.length : F) * (ys.length : F) / ((xs.length : F) + (ys.length : F))) :=
  T_append xs ys hx hy

/-- The exact cross term is non-negative and at most `T` of the concatenation; `T` is super-additive. -/
theorem sum2_exact_merge_signs (xs ys : List F) (hx : xs ≠ []) (hy : ys ≠ []) :
    0 ≤ (mean ys - mean xs)^2 * ((xs.length : F) * (ys.length : F) / ((xs.length : F) + (ys.length : F)))
    ∧ (mean ys - mean xs)^2 * ((xs.length : F) * (ys.length : F) / ((xs.length : F) + (ys.length : F)))
        ≤ T (xs ++ ys)
    ∧ T xs + T ys ≤ T (xs ++ ys) :=
  ⟨cross_nonneg xs ys, cross_le_T xs ys hx hy, T_append_ge xs ys hx hy⟩

/-! ## one merge -/

/-- What `Variance.merge` computes for `sum_2` of two non-empty states at the carrier R2, operation by
operation: eight rounded operations. -/
theorem sum2_computed_merge (r : Rnd2 F) (s o : Variance (RF2 r)) (hs : s.avg.n ≠ 0) (ho : o.avg.n ≠ 0) :
    (s.merge o).sum_2.val
      = r.fl (s.sum_2.val + r.fl (o.sum_2.val +
          r.fl (r.fl (r.fl (r.fl (r.fl (o.avg.avg.val - s.avg.avg.val)
                                  * r.fl (o.avg.avg.val - s.avg.avg.val))
                            * (s.avg.n : F))
                      * (o.avg.n : F))
                / r.fl ((s.avg.n : F) + (o.avg.n : F))))) :=
  sum2_merge_val r s o hs ho

/-- **Rounding of the cross term.** With `δ = fl(b - a)` the computed
`fl(fl(fl(fl(δ·δ)·n_x)·n_y)/fl(n_x+n_y))` is within relative error `η = (1+u)^6/(1-u) - 1` of
`I = (b - a)²·n_x·n_y/(n_x+n_y)`, and `I ≥ 0` (`u < 1`, `n_x, n_y > 0`). -/
theorem cross_term_rounding_error (r : Rnd2 F) (hu1 : r.u < 1) (a b nx ny : F)
    (hnx : 0 < nx) (hny : 0 < ny) :
    let δ := r.fl (b - a)
    let I := (b - a)^2 * (nx * ny / (nx + ny))
    0 ≤ I ∧ |r.fl (r.fl (r.fl (r.fl (δ * δ) * nx) * ny) / r.fl (nx + ny)) - I|
      ≤ ((1 + r.u)^6 / (1 - r.u) - 1) * I :=
  cross_term_error r.fl r.u r.u_nonneg hu1 r.err a b nx ny hnx hny

/-- `η = (1+u)^6/(1-u) - 1 ≤ 7.5·u` for `u ≤ 1/64` (six rounded operations; the rounded `δ` enters
twice). -/
theorem cross_term_eta_le (u : F) (hu : 0 ≤ u) (h : u ≤ 1/64) : (1 + u)^6 / (1 - u) - 1 ≤ 15/2 * u :=
  eta_le u hu h

/-- **One merge step (state lemma).** The `Variance` states `s`, `o` hold the exact counts of the
non-empty chunks `xs`, `ys` and means within `εx`, `εy` of the exact ones. With
`q = n_x·n_y/(n_x+n_y)`, `C = (μ_y-μ_x)²·q`, `η = (1+u)^6/(1-u) - 1`, `ε = εx + εy`:
`|sum_2' - T(xs++ys)| ≤ (1+u)²·(|s.sum_2 - T xs| + |o.sum_2 - T ys| + η·C + (1+η)·(2ε|μ_y-μ_x| + ε²)·q)
   + (1+u)·u·(T ys + C) + u·T(xs++ys)`. -/
theorem sum2_merge_state_error (r : Rnd2 F) (hu1 : r.u < 1) (s o : Variance (RF2 r)) (xs ys : List F)
    (hx : xs ≠ []) (hy : ys ≠ []) (hsn : s.avg.n = xs.length) (hon : o.avg.n = ys.length)
    (εx εy : F) (hsx : |s.avg.avg.val - mean xs| ≤ εx) (hoy : |o.avg.avg.val - mean ys| ≤ εy) :
    let q := (xs.length : F) * (ys.length : F) / ((xs.length : F) + (ys.length : F))
    let C := (mean ys - mean xs)^2 * q
    let η := (1 + r.u)^6 / (1 - r.u) - 1
    |(s.merge o).sum_2.val - T (xs ++ ys)|
      ≤ (1 + r.u)^2 * (|s.sum_2.val - T xs| + |o.sum_2.val - T ys| + η * C
            + (1 + η) * ((2 * (εx + εy) * |mean ys - mean xs| + (εx + εy)^2) * q))
        + (1 + r.u) * r.u * (T ys + C) + r.u * T (xs ++ ys) :=
  sum2_merge_error r hu1 s o xs ys hx hy hsn hon εx εy hsx hoy

/-- **Super-additivity of the envelope.** `G(n,T) = (19/2)·u·n·T + (4/5)·Λ·n·T + (4/5)·κ·n² + (2/5)·B²·n³`
with `Λ, κ ≥ 0`, `B² ≤ Λ·κ`. For `n_x, n_y ≥ 1`, `q·(n_x+n_y) = n_x·n_y`, `C = d²·q`, a relative error
`η ≤ 7.5u`, `(1+η)² ≤ 32/25` of the cross term and an error `B·(n_x+n_y)` of the difference of the means:
`G(n_x,T_x) + G(n_y,T_y) + η·C + (1+η)·(2B(n_x+n_y)|d| + B²(n_x+n_y)²)·q + 2u·(T_x+T_y+C)
   ≤ G(n_x+n_y, T_x+T_y+C)`  (same `Λ, κ` on both sides). -/
theorem envelope_superadditive (u B Λ κ η nx ny Tx Ty d q : F) (hu : 0 ≤ u) (hΛ : 0 ≤ Λ) (hκ : 0 ≤ κ)
    (hΛκ : B^2 ≤ Λ * κ) (hη0 : 0 ≤ η) (hηu : η ≤ 15/2 * u) (hη2 : (1 + η)^2 ≤ 32/25)
    (hnx : 1 ≤ nx) (hny : 1 ≤ ny) (hTx : 0 ≤ Tx) (hTy : 0 ≤ Ty)
    (hq0 : 0 ≤ q) (hq : q * (nx + ny) = nx * ny) :
    G u B Λ κ nx Tx + G u B Λ κ ny Ty + η * (d^2 * q)
        + (1 + η) * ((2 * (B * (nx + ny)) * |d| + (B * (nx + ny))^2) * q)
        + 2 * u * (Tx + Ty + d^2 * q)
      ≤ G u B Λ κ (nx + ny) (Tx + Ty + d^2 * q) :=
  superadd u B Λ κ η nx ny Tx Ty d q hu hΛ hκ hΛκ hη0 hηu hη2 hnx hny hTx hTy hq0 hq

omit [LinearOrder F] [IsStrictOrderedRing F] in
/-- the envelope, spelled out -/
theorem envelope_def (u B Λ κ n Tn : F) :
    G u B Λ κ n Tn = 19/2 * u * n * Tn + 4/5 * Λ * n * Tn + 4/5 * κ * n^2 + 2/5 * B^2 * n^3 := rfl

/-! ## every merge tree -/

/-- **The invariant.** `u ≤ 1/64`; `B` any per-observation budget of the mean that every merge tree
keeps (`B ≥ 2M(2w+u)`, `w = (2u+u²)(1+u)`, `w + n·u ≤ 1/2`, `5u(M + B·n) ≤ B`, as in
`Props.C02b.mean_mtree_forward_error_gen`); any `Λ, κ ≥ 0` with `B² ≤ Λ·κ`. For every merge tree over `n`
observations with `|x| ≤ M`:  `|sum_2 - T| ≤ (1+u)^(2n)·G(n,T)`. -/
theorem sum2_mtree_invariant (r : Rnd2 F) (M B Λ κ : F) (hM : 0 ≤ M) (hu64 : r.u ≤ 1/64)
    (hB : 2 * M * (2 * ((2*r.u + r.u^2) * (1 + r.u)) + r.u) ≤ B)
    (hΛ : 0 ≤ Λ) (hκ : 0 ≤ κ) (hΛκ : B^2 ≤ Λ * κ) (t : MTree (RF2 r))
    (hb : ∀ x ∈ t.flatten, |x.val| ≤ M)
    (hs1 : (2*r.u + r.u^2) * (1 + r.u) + (t.flatten.length : F) * r.u ≤ 1/2)
    (hs2 : 5 * r.u * (M + B * (t.flatten.length : F)) ≤ B) :
    |(Variance.evalTree t).sum_2.val - T (t.flatten.map RF2.val)|
      ≤ (1 + r.u)^(2 * t.flatten.length)
          * G r.u B Λ κ (t.flatten.length : F) (T (t.flatten.map RF2.val)) :=
  var_mtree_inv r M B Λ κ hM hu64 hB hΛ hκ hΛκ t hb hs1 hs2

/-- **Symbolic in the budget `B` of the mean.** Same hypotheses on `B`; `n ≥ 1`; any `R₀ ≥ 0` with
`n·T ≤ R₀²`:  `|sum_2 - T| ≤ (1+u)^(2n)·((19/2)·u·n·T + (8/5)·B·n·R₀ + (33/80)·B²·n³)`. -/
theorem sum2_mtree_forward_error_symbolic (r : Rnd2 F) (M B : F) (hM : 0 ≤ M) (hu64 : r.u ≤ 1/64)
    (hB : 2 * M * (2 * ((2*r.u + r.u^2) * (1 + r.u)) + r.u) ≤ B) (t : MTree (RF2 r))
    (hne : t.flatten ≠ [])
    (hb : ∀ x ∈ t.flatten, |x.val| ≤ M)
    (hs1 : (2*r.u + r.u^2) * (1 + r.u) + (t.flatten.length : F) * r.u ≤ 1/2)
    (hs2 : 5 * r.u * (M + B * (t.flatten.length : F)) ≤ B)
    (R₀ : F) (hR : 0 ≤ R₀) (hRT : (t.flatten.length : F) * T (t.flatten.map RF2.val) ≤ R₀^2) :
    |(Variance.evalTree t).sum_2.val - T (t.flatten.map RF2.val)|
      ≤ (1 + r.u)^(2 * t.flatten.length)
          * (19/2 * r.u * (t.flatten.length : F) * T (t.flatten.map RF2.val)
              + 8/5 * B * (t.flatten.length : F) * R₀ + 33/80 * B^2 * (t.flatten.length : F)^3) :=
  var_mtree_error_sym r M B hM hu64 hB t hne hb hs1 hs2 R₀ hR hRT

/-- **Variance, every merge tree.** In the standard model of rounding with unit roundoff `u`, for every
merge tree `t` (any shape, any chunk sizes, empty and one-element chunks included; leaves folded with
`Variance.add`, nodes merged with `Variance.merge`) over `n` observations with `|x| ≤ M` and
`n·u ≤ 1/64`, with `T = Σ(x - mean)²` of the whole sequence and any `R₀ ≥ 0` with `n·T ≤ R₀²`:
`|sum_2 - T| ≤ 10·n·u·T + 17·n·u·M·R₀ + 45·n³·u²·M²`. -/
theorem sum2_mtree_forward_error (r : Rnd2 F) (M : F) (hM : 0 ≤ M) (t : MTree (RF2 r))
    (hb : ∀ x ∈ t.flatten, |x.val| ≤ M) (hsmall : (t.flatten.length : F) * r.u ≤ 1/64)
    (R₀ : F) (hR : 0 ≤ R₀) (hRT : (t.flatten.length : F) * T (t.flatten.map RF2.val) ≤ R₀^2) :
    |(Variance.evalTree t).sum_2.val - T (t.flatten.map RF2.val)|
      ≤ 10 * (t.flatten.length : F) * r.u * T (t.flatten.map RF2.val)
        + 17 * (t.flatten.length : F) * r.u * M * R₀
        + 45 * (t.flatten.length : F)^3 * r.u^2 * M^2 :=
  var_mtree_error_lin r M hM t hb hsmall R₀ hR hRT

/-- The same over ℝ with `R₀ = sqrt(n·T)`:
`|sum_2 - T| ≤ 10·n·u·T + 17·n·u·M·sqrt(n·T) + 45·n³·u²·M²`. -/
theorem sum2_mtree_forward_error_sqrt (r : Rnd2 ℝ) (M : ℝ) (hM : 0 ≤ M) (t : MTree (RF2 r))
    (hb : ∀ x ∈ t.flatten, |x.val| ≤ M) (hsmall : (t.flatten.length : ℝ) * r.u ≤ 1/64) :
    |(Variance.evalTree t).sum_2.val - T (t.flatten.map RF2.val)|
      ≤ 10 * (t.flatten.length : ℝ) * r.u * T (t.flatten.map RF2.val)
        + 17 * (t.flatten.length : ℝ) * r.u * M
            * Real.sqrt ((t.flatten.length : ℝ) * T (t.flatten.map RF2.val))
        + 45 * (t.flatten.length : ℝ)^3 * r.u^2 * M^2 :=
  var_mtree_error_lin r M hM t hb hsmall _ (Real.sqrt_nonneg _)
    (le_of_eq (Real.sq_sqrt (mul_nonneg (Nat.cast_nonneg _) (T_nonneg _))).symm)

/-- **All of `Variance` through every merge tree, one statement**: the count is exact, the mean is
within `11·u·M·n` of the exact mean, `sum_2` is within `10·n·u·T + 17·n·u·M·R₀ + 45·n³·u²·M²` of `T`. -/
theorem variance_mtree_forward_error (r : Rnd2 F) (M : F) (hM : 0 ≤ M) (t : MTree (RF2 r))
    (hb : ∀ x ∈ t.flatten, |x.val| ≤ M) (hsmall : (t.flatten.length : F) * r.u ≤ 1/64)
    (R₀ : F) (hR : 0 ≤ R₀) (hRT : (t.flatten.length : F) * T (t.flatten.map RF2.val) ≤ R₀^2) :
    (Variance.evalTree t).avg.n = t.flatten.length
    ∧ |(Variance.evalTree t).avg.avg.val - mean (t.flatten.map RF2.val)|
        ≤ 11 * r.u * M * (t.flatten.length : F)
    ∧ |(Variance.evalTree t).sum_2.val - T (t.flatten.map RF2.val)|
        ≤ 10 * (t.flatten.length : F) * r.u * T (t.flatten.map RF2.val)
          + 17 * (t.flatten.length : F) * r.u * M * R₀
          + 45 * (t.flatten.length : F)^3 * r.u^2 * M^2 := by
  have h := Props.C02b.variance_mtree_mean_forward_error r M hM t hb hsmall
  exact ⟨h.1, h.2, var_mtree_error_lin r M hM t hb hsmall R₀ hR hRT⟩

/-- `Skewness`: its inner `sum_2` through any merge tree obeys the same bound (it is computed by the
text of `Variance.add` / `Variance.merge`). -/
theorem skewness_mtree_sum2_forward_error (r : Rnd2 F) (M : F) (hM : 0 ≤ M) (t : MTree (RF2 r))
    (hb : ∀ x ∈ t.flatten, |x.val| ≤ M) (hsmall : (t.flatten.length : F) * r.u ≤ 1/64)
    (R₀ : F) (hR : 0 ≤ R₀) (hRT : (t.flatten.length : F) * T (t.flatten.map RF2.val) ≤ R₀^2) :
    |(Skewness.evalTree t).avg.sum_2.val - T (t.flatten.map RF2.val)|
      ≤ 10 * (t.flatten.length : F) * r.u * T (t.flatten.map RF2.val)
        + 17 * (t.flatten.length : F) * r.u * M * R₀
        + 45 * (t.flatten.length : F)^3 * r.u^2 * M^2 := by
  rw [Skewness.mtree_avg]; exact var_mtree_error_lin r M hM t hb hsmall R₀ hR hRT

/-- `Kurtosis`: the same. -/
theorem kurtosis_mtree_sum2_forward_error (r : Rnd2 F) (M : F) (hM : 0 ≤ M) (t : MTree (RF2 r))
    (hb : ∀ x ∈ t.flatten, |x.val| ≤ M) (hsmall : (t.flatten.length : F) * r.u ≤ 1/64)
    (R₀ : F) (hR : 0 ≤ R₀) (hRT : (t.flatten.length : F) * T (t.flatten.map RF2.val) ≤ R₀^2) :
    |(Kurtosis.evalTree t).avg.avg.sum_2.val - T (t.flatten.map RF2.val)|
      ≤ 10 * (t.flatten.length : F) * r.u * T (t.flatten.map RF2.val)
        + 17 * (t.flatten.length : F) * r.u * M * R₀
        + 45 * (t.flatten.length : F)^3 * r.u^2 * M^2 := by
  rw [Kurtosis.mtree_avg]; exact skewness_mtree_sum2_forward_error r M hM t hb hsmall R₀ hR hRT

/-! ## the accessors -/

section access
variable {r : Rnd2 F} [FloatOps (RF2 r)]

/-- **`population_variance` after any merge tree** (`n ≥ 1`, `|x| ≤ M`, `n·u ≤ 1/64`): the accessor
takes its non-`nan` branch and, with `var = T/n` and any `σ ≥ 0` with `var ≤ σ²`,
`|population_variance - var| ≤ 12·n·u·var + 18·n·u·M·σ + 46·n²·u²·M²`. -/
theorem population_variance_mtree_forward_error (M : F) (hM : 0 ≤ M) (t : MTree (RF2 r))
    (hne : t.flatten ≠ [])
    (hb : ∀ x ∈ t.flatten, |x.val| ≤ M) (hsmall : (t.flatten.length : F) * r.u ≤ 1/64)
    (σ : F) (hσ : 0 ≤ σ) (hvar : T (t.flatten.map RF2.val) / (t.flatten.length : F) ≤ σ^2) :
    (Variance.evalTree t).avg.n ≠ 0
    ∧ |(Variance.evalTree t).populationVariance.val
        - T (t.flatten.map RF2.val) / (t.flatten.length : F)|
      ≤ 12 * (t.flatten.length : F) * r.u * (T (t.flatten.map RF2.val) / (t.flatten.length : F))
        + 18 * (t.flatten.length : F) * r.u * M * σ + 46 * (t.flatten.length : F)^2 * r.u^2 * M^2 := by
  refine ⟨?_, popvar_mtree_error_lin M hM t hne hb hsmall σ hσ hvar⟩
  rw [mtree_count M hM t hb hsmall]
  exact fun h => hne (List.length_eq_zero_iff.mp h)

/-- **`sample_variance` after any merge tree** (`n ≥ 2`): the accessor takes its non-`nan` branch and,
with `s² = T/(n-1)` and any `σ ≥ 0` with `s² ≤ σ²`,
`|sample_variance - s²| ≤ 12·n·u·s² + 35·n·u·M·σ + 92·n²·u²·M²`. -/
theorem sample_variance_mtree_forward_error (M : F) (hM : 0 ≤ M) (t : MTree (RF2 r))
    (h2 : 2 ≤ t.flatten.length)
    (hb : ∀ x ∈ t.flatten, |x.val| ≤ M) (hsmall : (t.flatten.length : F) * r.u ≤ 1/64)
    (σ : F) (hσ : 0 ≤ σ)
    (hvar : T (t.flatten.map RF2.val) / ((t.flatten.length - 1 : ℕ) : F) ≤ σ^2) :
    ¬ (Variance.evalTree t).avg.n < 2
    ∧ |(Variance.evalTree t).sampleVariance.val
        - T (t.flatten.map RF2.val) / ((t.flatten.length - 1 : ℕ) : F)|
      ≤ 12 * (t.flatten.length : F) * r.u
            * (T (t.flatten.map RF2.val) / ((t.flatten.length - 1 : ℕ) : F))
        + 35 * (t.flatten.length : F) * r.u * M * σ + 92 * (t.flatten.length : F)^2 * r.u^2 * M^2 := by
  refine ⟨?_, samplevar_mtree_error_lin M hM t h2 hb hsmall σ hσ hvar⟩
  rw [mtree_count M hM t hb hsmall]
  omega

end access

/-! ## Non-vacuity -/

/-- ill-conditioned data (offset 1000, spread 4) in a tree with a nested merge, an empty chunk in the
middle, a one-element chunk and unequal chunk sizes; the rounding `Props.C02b.awayRnd` is never exact
(except at 0): it always moves away from zero by the full relative amount `u = 2^-53` -/
def exTree : MTree (RF2 Props.C02b.awayRnd) :=
  .node (.leaf [⟨1001⟩, ⟨999⟩, ⟨1002⟩]) (.node (.leaf []) (.leaf [⟨998⟩]))

theorem exTree_T : T (exTree.flatten.map RF2.val) = 10 := by
  norm_num [exTree, MTree.flatten, T, sumPow, mean]

/-- the hypotheses of `sum2_mtree_forward_error` are met by `exTree` with `M = 1002`, `u = 2^-53`,
`R₀ = 7` (`n·T = 40 ≤ 49`) -/
example : (∀ x ∈ exTree.flatten, |x.val| ≤ 1002)
    ∧ (exTree.flatten.length : ℚ) * Props.C02b.awayRnd.u ≤ 1/64
    ∧ (exTree.flatten.length : ℚ) * T (exTree.flatten.map RF2.val) ≤ 7^2 := by
  refine ⟨?_, ?_, ?_⟩
  · intro x hx
    simp only [exTree, MTree.flatten, List.nil_append, List.mem_append, List.mem_cons,
      List.not_mem_nil, or_false] at hx
    rcases hx with (rfl | rfl | rfl) | rfl <;> norm_num
  · norm_num [exTree, MTree.flatten, Props.C02b.awayRnd]
  · rw [exTree_T]; norm_num [exTree, MTree.flatten]

/-- and the conclusion is a concrete statement about a computation under a rounding that is never exact
(45 rounded operations: 8 per `add`, 5 + 8 in the one merge of two non-empty states): the computed `sum_2`
is within `10·4·u·10 + 17·4·u·1002·7 + 45·64·u²·1002²` (about `4.8·10^5·u`) of the exact `T = 10`; a bound
quadratic in `M` would be of the order `n²·u·M² ≈ 1.6·10^7·u`. -/
example : |(Variance.evalTree exTree).sum_2.val - 10|
    ≤ 10 * 4 * (1/2^53) * 10 + 17 * 4 * (1/2^53) * 1002 * 7 + 45 * (4:ℚ)^3 * (1/2^53)^2 * 1002^2 := by
  have h := sum2_mtree_forward_error Props.C02b.awayRnd 1002 (by norm_num) exTree
    (by intro x hx
        simp only [exTree, MTree.flatten, List.nil_append, List.mem_append, List.mem_cons,
          List.not_mem_nil, or_false] at hx
        rcases hx with (rfl | rfl | rfl) | rfl <;> norm_num)
    (by norm_num [exTree, MTree.flatten, Props.C02b.awayRnd]) 7 (by norm_num)
    (by rw [exTree_T]; norm_num [exTree, MTree.flatten])
  rw [exTree_T] at h
  have hl : (exTree.flatten.length : ℚ) = 4 := by norm_num [exTree, MTree.flatten]
  have hu : Props.C02b.awayRnd.u = 1/2^53 := rfl
  rw [hl, hu] at h
  exact h

end Props.C02c

#print axioms Props.C02c.sum2_exact_merge
#print axioms Props.C02c.sum2_exact_merge_signs
#print axioms Props.C02c.sum2_computed_merge
#print axioms Props.C02c.cross_term_rounding_error
#print axioms Props.C02c.cross_term_eta_le
#print axioms Props.C02c.sum2_merge_state_error
#print axioms Props.C02c.envelope_superadditive
#print axioms Props.C02c.envelope_def
#print axioms Props.C02c.sum2_mtree_invariant
#print axioms Props.C02c.sum2_mtree_forward_error_symbolic
#print axioms Props.C02c.sum2_mtree_forward_error
#print axioms Props.C02c.sum2_mtree_forward_error_sqrt
#print axioms Props.C02c.variance_mtree_forward_error
#print axioms Props.C02c.skewness_mtree_sum2_forward_error
#print axioms Props.C02c.kurtosis_mtree_sum2_forward_error
#print axioms Props.C02c.population_variance_mtree_forward_error
#print axioms Props.C02c.sample_variance_mtree_forward_error
