import AvgProofs.PearsonMergeErr
import Props.C09c
import Props.C09d
import Mathlib.Tactic.NormNum

/-!
# C09 (fourth addendum) - forward error of `Covariance::pearson` through every merge tree

Carrier **R2** over ℝ (`RF2 r`: every `+ - * /` followed by a rounding with `|fl t - t| ≤ u·|t|`, counts
converted exactly) with a correctly rounded square root `q : RndSqrt r` (`|sqrtfl t - √t| ≤ u·√t`,
`AvgProofs/SqrtErr.lean`); `SqrtIs q` says the `FloatOps (RF2 r)` instance takes square roots with it.
`MTree (α × α)` is an arbitrary order-preserving binary merge tree over contiguous chunks of pairs (empty and
one-element chunks allowed); `Covariance.evalTree t` folds every leaf with `Covariance.add` from
`Covariance.new` and combines the summaries with `Covariance.merge` along the tree.

What the code computes for `n ≥ 2` pairs after any tree (`pearson_mtree_computed`):
`pearson = fl(sum_prod / sqrtfl(fl(sum_x_2 · sum_y_2)))`.
Exact value: `ρ = C/√(T_x·T_y)` (`C = Σ(x - mean x)(y - mean y)`, `T_x = Σ(x - mean x)²`, `T_y` likewise, of the
whole data).

**Results** for EVERY merge tree (`n ≥ 2` pairs, `|x| ≤ Mx`, `|y| ≤ My`, `T_x, T_y > 0`, `σx = √(T_x/n)`,
`σy = √(T_y/n)`, `κ = 1 + max(Mx/σx, My/σy)`):

* `pearson_mtree_envelope_kappa`: the `y`-mean after the first pair of every chunk exact (`ChunksFirstExact`,
  true of IEEE arithmetic) and `n·κ·u ≤ 1/160`:      **`|pearson - ρ| ≤ 48·n·κ·u`**
  - three times the constant `16` of add-only streams (`Props.C09c.pearson_envelope_kappa`);
  `pearson_mtree_envelope_kappa_wide`: `n·κ·u ≤ 1/64` ⟹ `|pearson - ρ| ≤ 60·n·κ·u`;
  `pearson_mtree_abs_le`: `|pearson| ≤ 1 + 48·n·κ·u`.
* `pearson_mtree_forward_error`: the square-root-free parametrisation (`σx² = T_x/n`, `Mx ≤ κ'·σx`, ...) with
  any first-pair bound `εf` (`FirstEps t εf`), `L` non-empty chunks:
  `|pearson - ρ| ≤ 48·n·(1+κ')·u + (3/2)·εf·Mx·L/(n·σx·σy)`; `_exact`: `εf = 0`; `_wide`: `60`, `7/4`.
* `pearson_mtree_forward_error_std`: standard model only (no hypothesis on first pairs):
  `|pearson - ρ| ≤ 48·n·(1+κ')·u + 5·κ'²·u·L/n` - the extra term is genuine there
  (`Props.C09d.first_pair_term_per_chunk_is_genuine`) and at most `5·κ'²·u` since `L ≤ n`.

How: `Props.C09d` gives `|sum_x_2 - T_x| ≤ ε·T_x`, `|sum_y_2 - T_y| ≤ ε·T_y`, `|sum_prod - C| ≤ εp·√(T_xT_y)` with
`ε = 10x + 17a + 45a²`, `εp = 5x + (17/2 + 16)a + 44a² (+ (5/4)·εf·Mx·L/(n·σx·σy))`, `x = n·u`, `a = n·u·(κ-1)`;
then exactly as in `Props.C09c`: the rounded square root of the rounded product is within
`γ = ε + u + u(1+ε+u)` of `√(T_xT_y)` (`Props.C09c.denominator_error`), the quotient within
`(1+u)(εp+γ)/(1-γ) + u` (`Props.C09c.quotient_error`); `n·κ·u ≤ 1/160` keeps `γ ≤ 0.109` and the total is at
most `18.7·x + 47.6·a ≤ 48·(x + a)`.
-/
open Avg MSpec VarSpec CovSpec CovErr CovMerge

namespace Props.C09e
variable {r : Rnd2 ℝ} [FloatOps (RF2 r)]

/-- What `pearson` computes at R2 after any merge tree over `n ≥ 2` pairs:
`fl(sum_prod / sqrtfl(fl(sum_x_2·sum_y_2)))` (the count kept through the tree is exact on every carrier,
`Props.C09d.count_mtree`, so the `n < 2` guard is not taken). -/
theorem pearson_mtree_computed (q : RndSqrt r) (hs : SqrtIs q) (t : MTree (RF2 r × RF2 r))
    (h2 : 2 ≤ t.flatten.length) :
    (Covariance.evalTree t).pearson.val
      = r.fl ((Covariance.evalTree t).sum_prod.val
          / q.sqrtfl (r.fl ((Covariance.evalTree t).sum_x_2.val
                            * (Covariance.evalTree t).sum_y_2.val))) :=
  pearson_mtree_val q hs t h2

/-- **`pearson` through every merge tree, square-root-free parametrisation, any first-pair bound.** `n ≥ 2`
pairs, `|x| ≤ Mx`, `|y| ≤ My`; `εf ≥ 0` with `|avg_y after the first pair - y_0| ≤ εf` for the first pair of
every chunk, `L` the number of non-empty chunks; `σx, σy > 0` with `σx² = T_x/n`, `σy² = T_y/n`; `κ' ≥ 0` with
`Mx ≤ κ'·σx`, `My ≤ κ'·σy`; `n·u·(1 + κ') ≤ 1/160`:
`|pearson - C/√(T_x·T_y)| ≤ 48·n·(1 + κ')·u + (3/2)·εf·Mx·L/(n·σx·σy)`. -/
theorem pearson_mtree_forward_error (q : RndSqrt r) (hs : SqrtIs q) (Mx My εf : ℝ) (hMx : 0 ≤ Mx)
    (hMy : 0 ≤ My) (hεf : 0 ≤ εf) (t : MTree (RF2 r × RF2 r)) (h2 : 2 ≤ t.flatten.length)
    (hbx : ∀ p ∈ t.flatten, |p.1.val| ≤ Mx) (hby : ∀ p ∈ t.flatten, |p.2.val| ≤ My)
    (hfirst : FirstEps t εf)
    (σx σy κ' : ℝ) (hσx : 0 < σx) (hσy : 0 < σy)
    (hvx : σx^2 = T (fsts (vals t.flatten)) / (t.flatten.length : ℝ))
    (hvy : σy^2 = T (snds (vals t.flatten)) / (t.flatten.length : ℝ))
    (hκ0 : 0 ≤ κ') (hκx : Mx ≤ κ' * σx) (hκy : My ≤ κ' * σy)
    (hsm : (t.flatten.length : ℝ) * r.u * (1 + κ') ≤ 1/160) :
    |(Covariance.evalTree t).pearson.val
        - Cxy (vals t.flatten) / Real.sqrt (T (fsts (vals t.flatten)) * T (snds (vals t.flatten)))|
      ≤ 48 * (t.flatten.length : ℝ) * (1 + κ') * r.u
        + 3/2 * (εf * Mx) * (t.neLeaves : ℝ) / ((t.flatten.length : ℝ) * σx * σy) :=
  pearson_mtree_error q hs Mx My εf hMx hMy hεf t h2 hbx hby hfirst σx σy κ' hσx hσy hvx hvy hκ0 hκx
    hκy hsm

/-- **The same when the first pair of every chunk is exact** (`ChunksFirstExact`, the target form):
`|pearson - C/√(T_x·T_y)| ≤ 48·n·(1 + κ')·u`. -/
theorem pearson_mtree_forward_error_exact (q : RndSqrt r) (hs : SqrtIs q) (Mx My : ℝ) (hMx : 0 ≤ Mx)
    (hMy : 0 ≤ My) (t : MTree (RF2 r × RF2 r)) (h2 : 2 ≤ t.flatten.length)
    (hbx : ∀ p ∈ t.flatten, |p.1.val| ≤ Mx) (hby : ∀ p ∈ t.flatten, |p.2.val| ≤ My)
    (hfirst : ChunksFirstExact t)
    (σx σy κ' : ℝ) (hσx : 0 < σx) (hσy : 0 < σy)
    (hvx : σx^2 = T (fsts (vals t.flatten)) / (t.flatten.length : ℝ))
    (hvy : σy^2 = T (snds (vals t.flatten)) / (t.flatten.length : ℝ))
    (hκ0 : 0 ≤ κ') (hκx : Mx ≤ κ' * σx) (hκy : My ≤ κ' * σy)
    (hsm : (t.flatten.length : ℝ) * r.u * (1 + κ') ≤ 1/160) :
    |(Covariance.evalTree t).pearson.val
        - Cxy (vals t.flatten) / Real.sqrt (T (fsts (vals t.flatten)) * T (snds (vals t.flatten)))|
      ≤ 48 * (t.flatten.length : ℝ) * (1 + κ') * r.u := by
  have h := pearson_mtree_error q hs Mx My 0 hMx hMy le_rfl t h2 hbx hby (firstEps_of_exact hfirst)
    σx σy κ' hσx hσy hvx hvy hκ0 hκx hκy hsm
  simpa using h

/-- **Weaker smallness hypothesis** `n·u·(1 + κ') ≤ 1/64`, first pair of every chunk exact:
`|pearson - C/√(T_x·T_y)| ≤ 60·n·(1 + κ')·u`. -/
theorem pearson_mtree_forward_error_exact_wide (q : RndSqrt r) (hs : SqrtIs q) (Mx My : ℝ)
    (hMx : 0 ≤ Mx) (hMy : 0 ≤ My) (t : MTree (RF2 r × RF2 r)) (h2 : 2 ≤ t.flatten.length)
    (hbx : ∀ p ∈ t.flatten, |p.1.val| ≤ Mx) (hby : ∀ p ∈ t.flatten, |p.2.val| ≤ My)
    (hfirst : ChunksFirstExact t)
    (σx σy κ' : ℝ) (hσx : 0 < σx) (hσy : 0 < σy)
    (hvx : σx^2 = T (fsts (vals t.flatten)) / (t.flatten.length : ℝ))
    (hvy : σy^2 = T (snds (vals t.flatten)) / (t.flatten.length : ℝ))
    (hκ0 : 0 ≤ κ') (hκx : Mx ≤ κ' * σx) (hκy : My ≤ κ' * σy)
    (hsm : (t.flatten.length : ℝ) * r.u * (1 + κ') ≤ 1/64) :
    |(Covariance.evalTree t).pearson.val
        - Cxy (vals t.flatten) / Real.sqrt (T (fsts (vals t.flatten)) * T (snds (vals t.flatten)))|
      ≤ 60 * (t.flatten.length : ℝ) * (1 + κ') * r.u := by
  have h := pearson_mtree_error_wide q hs Mx My 0 hMx hMy le_rfl t h2 hbx hby
    (firstEps_of_exact hfirst) σx σy κ' hσx hσy hvx hvy hκ0 hκx hκy hsm
  simpa using h

/-- The general first-pair bound under the weaker smallness hypothesis `n·u·(1 + κ') ≤ 1/64`:
`|pearson - C/√(T_x·T_y)| ≤ 60·n·(1 + κ')·u + (7/4)·εf·Mx·L/(n·σx·σy)`. -/
theorem pearson_mtree_forward_error_wide (q : RndSqrt r) (hs : SqrtIs q) (Mx My εf : ℝ)
    (hMx : 0 ≤ Mx) (hMy : 0 ≤ My) (hεf : 0 ≤ εf) (t : MTree (RF2 r × RF2 r))
    (h2 : 2 ≤ t.flatten.length)
    (hbx : ∀ p ∈ t.flatten, |p.1.val| ≤ Mx) (hby : ∀ p ∈ t.flatten, |p.2.val| ≤ My)
    (hfirst : FirstEps t εf)
    (σx σy κ' : ℝ) (hσx : 0 < σx) (hσy : 0 < σy)
    (hvx : σx^2 = T (fsts (vals t.flatten)) / (t.flatten.length : ℝ))
    (hvy : σy^2 = T (snds (vals t.flatten)) / (t.flatten.length : ℝ))
    (hκ0 : 0 ≤ κ') (hκx : Mx ≤ κ' * σx) (hκy : My ≤ κ' * σy)
    (hsm : (t.flatten.length : ℝ) * r.u * (1 + κ') ≤ 1/64) :
    |(Covariance.evalTree t).pearson.val
        - Cxy (vals t.flatten) / Real.sqrt (T (fsts (vals t.flatten)) * T (snds (vals t.flatten)))|
      ≤ 60 * (t.flatten.length : ℝ) * (1 + κ') * r.u
        + 7/4 * (εf * Mx) * (t.neLeaves : ℝ) / ((t.flatten.length : ℝ) * σx * σy) :=
  pearson_mtree_error_wide q hs Mx My εf hMx hMy hεf t h2 hbx hby hfirst σx σy κ' hσx hσy hvx hvy hκ0
    hκx hκy hsm

/-- **Standard model only** (no hypothesis on the first pairs; `L` non-empty chunks, `L ≤ n`):
`|pearson - C/√(T_x·T_y)| ≤ 48·n·(1 + κ')·u + 5·κ'²·u·L/n`. -/
theorem pearson_mtree_forward_error_std (q : RndSqrt r) (hs : SqrtIs q) (Mx My : ℝ) (hMx : 0 ≤ Mx)
    (hMy : 0 ≤ My) (t : MTree (RF2 r × RF2 r)) (h2 : 2 ≤ t.flatten.length)
    (hbx : ∀ p ∈ t.flatten, |p.1.val| ≤ Mx) (hby : ∀ p ∈ t.flatten, |p.2.val| ≤ My)
    (σx σy κ' : ℝ) (hσx : 0 < σx) (hσy : 0 < σy)
    (hvx : σx^2 = T (fsts (vals t.flatten)) / (t.flatten.length : ℝ))
    (hvy : σy^2 = T (snds (vals t.flatten)) / (t.flatten.length : ℝ))
    (hκ0 : 0 ≤ κ') (hκx : Mx ≤ κ' * σx) (hκy : My ≤ κ' * σy)
    (hsm : (t.flatten.length : ℝ) * r.u * (1 + κ') ≤ 1/160) :
    |(Covariance.evalTree t).pearson.val
        - Cxy (vals t.flatten) / Real.sqrt (T (fsts (vals t.flatten)) * T (snds (vals t.flatten)))|
      ≤ 48 * (t.flatten.length : ℝ) * (1 + κ') * r.u
        + 5 * κ'^2 * r.u * (t.neLeaves : ℝ) / (t.flatten.length : ℝ) := by
  have hu := r.u_nonneg
  have hn2 : (2:ℝ) ≤ (t.flatten.length : ℝ) := by exact_mod_cast h2
  have hnpos : (0:ℝ) < (t.flatten.length : ℝ) := by linarith
  have hL0 : (0:ℝ) ≤ (t.neLeaves : ℝ) := Nat.cast_nonneg _
  have hu64 : r.u ≤ 1/64 := by
    have h1 : 2 * r.u ≤ (t.flatten.length : ℝ) * r.u := mul_le_mul_of_nonneg_right hn2 hu
    have h2' : (t.flatten.length : ℝ) * r.u ≤ (t.flatten.length : ℝ) * r.u * (1 + κ') :=
      le_mul_of_one_le_right (by positivity) (by linarith)
    linarith
  have hg := gam3_le r.u hu hu64
  have hg0 := gam3_nonneg hu
  have h := pearson_mtree_error q hs Mx My (gam3 r.u * My) hMx hMy (by positivity) t h2 hbx hby
    (firstEps_std hby) σx σy κ' hσx hσy hvx hvy hκ0 hκx hκy hsm
  refine le_trans h ?_
  have hD : 0 < (t.flatten.length : ℝ) * σx * σy := by positivity
  have key : 3/2 * (gam3 r.u * My * Mx) * (t.neLeaves : ℝ) / ((t.flatten.length : ℝ) * σx * σy)
      ≤ 5 * κ'^2 * r.u * (t.neLeaves : ℝ) / (t.flatten.length : ℝ) := by
    rw [div_le_div_iff₀ hD hnpos]
    have h1 : My * Mx ≤ (κ' * σy) * (κ' * σx) := mul_le_mul hκy hκx hMx (by positivity)
    have h2' : gam3 r.u * (My * Mx) ≤ 49/16 * r.u * ((κ' * σy) * (κ' * σx)) :=
      mul_le_mul hg h1 (by positivity) (by positivity)
    have h3 : 0 ≤ (t.neLeaves : ℝ) * (t.flatten.length : ℝ) := by positivity
    have h4 : 0 ≤ r.u * ((κ' * σy) * (κ' * σx)) * ((t.neLeaves : ℝ) * (t.flatten.length : ℝ)) := by
      positivity
    calc 3/2 * (gam3 r.u * My * Mx) * (t.neLeaves : ℝ) * (t.flatten.length : ℝ)
        = 3/2 * (gam3 r.u * (My * Mx)) * ((t.neLeaves : ℝ) * (t.flatten.length : ℝ)) := by ring
      _ ≤ 3/2 * (49/16 * r.u * ((κ' * σy) * (κ' * σx)))
            * ((t.neLeaves : ℝ) * (t.flatten.length : ℝ)) := by gcongr
      _ ≤ 5 * κ'^2 * r.u * (t.neLeaves : ℝ) * ((t.flatten.length : ℝ) * σx * σy) := by nlinarith
  linarith

/-- **The envelope clause for `pearson`, every merge tree** (scale 1). `n ≥ 2` pairs, `|x| ≤ Mx`, `|y| ≤ My`,
`T_x, T_y > 0`, the first pair of every chunk exact, `σx = √(T_x/n)`, `σy = √(T_y/n)`,
`κ = 1 + max(Mx/σx, My/σy)`, `n·κ·u ≤ 1/160`:    `|pearson - ρ| ≤ 48·n·κ·u`. -/
theorem pearson_mtree_envelope_kappa (q : RndSqrt r) (hs : SqrtIs q) (Mx My : ℝ) (hMx : 0 ≤ Mx)
    (hMy : 0 ≤ My) (t : MTree (RF2 r × RF2 r)) (h2 : 2 ≤ t.flatten.length)
    (hbx : ∀ p ∈ t.flatten, |p.1.val| ≤ Mx) (hby : ∀ p ∈ t.flatten, |p.2.val| ≤ My)
    (hfirst : ChunksFirstExact t)
    (hposx : 0 < T (fsts (vals t.flatten))) (hposy : 0 < T (snds (vals t.flatten)))
    (hsm : (t.flatten.length : ℝ)
        * (1 + max (Mx / Real.sqrt (T (fsts (vals t.flatten)) / (t.flatten.length : ℝ)))
                   (My / Real.sqrt (T (snds (vals t.flatten)) / (t.flatten.length : ℝ)))) * r.u
        ≤ 1/160) :
    |(Covariance.evalTree t).pearson.val
        - Cxy (vals t.flatten) / Real.sqrt (T (fsts (vals t.flatten)) * T (snds (vals t.flatten)))|
      ≤ 48 * (t.flatten.length : ℝ)
          * (1 + max (Mx / Real.sqrt (T (fsts (vals t.flatten)) / (t.flatten.length : ℝ)))
                     (My / Real.sqrt (T (snds (vals t.flatten)) / (t.flatten.length : ℝ)))) * r.u := by
  have hn2 : (2:ℝ) ≤ (t.flatten.length : ℝ) := by exact_mod_cast h2
  have hvx : 0 < T (fsts (vals t.flatten)) / (t.flatten.length : ℝ) := div_pos hposx (by linarith)
  have hvy : 0 < T (snds (vals t.flatten)) / (t.flatten.length : ℝ) := div_pos hposy (by linarith)
  set σx := Real.sqrt (T (fsts (vals t.flatten)) / (t.flatten.length : ℝ)) with hσx
  set σy := Real.sqrt (T (snds (vals t.flatten)) / (t.flatten.length : ℝ)) with hσy
  have hσxpos : 0 < σx := Real.sqrt_pos.mpr hvx
  have hσypos : 0 < σy := Real.sqrt_pos.mpr hvy
  have hκ0 : 0 ≤ max (Mx / σx) (My / σy) := le_trans (div_nonneg hMx hσxpos.le) (le_max_left _ _)
  have hκx : Mx ≤ max (Mx / σx) (My / σy) * σx := by
    have := mul_le_mul_of_nonneg_right (le_max_left (Mx / σx) (My / σy)) hσxpos.le
    rwa [div_mul_cancel₀ _ hσxpos.ne'] at this
  have hκy : My ≤ max (Mx / σx) (My / σy) * σy := by
    have := mul_le_mul_of_nonneg_right (le_max_right (Mx / σx) (My / σy)) hσypos.le
    rwa [div_mul_cancel₀ _ hσypos.ne'] at this
  exact pearson_mtree_forward_error_exact q hs Mx My hMx hMy t h2 hbx hby hfirst σx σy _ hσxpos hσypos
    (Real.sq_sqrt hvx.le) (Real.sq_sqrt hvy.le) hκ0 hκx hκy (by linarith [hsm])

/-- **The same under the weaker smallness hypothesis `n·κ·u ≤ 1/64`:**  `|pearson - ρ| ≤ 60·n·κ·u`. -/
theorem pearson_mtree_envelope_kappa_wide (q : RndSqrt r) (hs : SqrtIs q) (Mx My : ℝ) (hMx : 0 ≤ Mx)
    (hMy : 0 ≤ My) (t : MTree (RF2 r × RF2 r)) (h2 : 2 ≤ t.flatten.length)
    (hbx : ∀ p ∈ t.flatten, |p.1.val| ≤ Mx) (hby : ∀ p ∈ t.flatten, |p.2.val| ≤ My)
    (hfirst : ChunksFirstExact t)
    (hposx : 0 < T (fsts (vals t.flatten))) (hposy : 0 < T (snds (vals t.flatten)))
    (hsm : (t.flatten.length : ℝ)
        * (1 + max (Mx / Real.sqrt (T (fsts (vals t.flatten)) / (t.flatten.length : ℝ)))
                   (My / Real.sqrt (T (snds (vals t.flatten)) / (t.flatten.length : ℝ)))) * r.u
        ≤ 1/64) :
    |(Covariance.evalTree t).pearson.val
        - Cxy (vals t.flatten) / Real.sqrt (T (fsts (vals t.flatten)) * T (snds (vals t.flatten)))|
      ≤ 60 * (t.flatten.length : ℝ)
          * (1 + max (Mx / Real.sqrt (T (fsts (vals t.flatten)) / (t.flatten.length : ℝ)))
                     (My / Real.sqrt (T (snds (vals t.flatten)) / (t.flatten.length : ℝ)))) * r.u := by
  have hn2 : (2:ℝ) ≤ (t.flatten.length : ℝ) := by exact_mod_cast h2
  have hvx : 0 < T (fsts (vals t.flatten)) / (t.flatten.length : ℝ) := div_pos hposx (by linarith)
  have hvy : 0 < T (snds (vals t.flatten)) / (t.flatten.length : ℝ) := div_pos hposy (by linarith)
  set σx := Real.sqrt (T (fsts (vals t.flatten)) / (t.flatten.length : ℝ)) with hσx
  set σy := Real.sqrt (T (snds (vals t.flatten)) / (t.flatten.length : ℝ)) with hσy
  have hσxpos : 0 < σx := Real.sqrt_pos.mpr hvx
  have hσypos : 0 < σy := Real.sqrt_pos.mpr hvy
  have hκ0 : 0 ≤ max (Mx / σx) (My / σy) := le_trans (div_nonneg hMx hσxpos.le) (le_max_left _ _)
  have hκx : Mx ≤ max (Mx / σx) (My / σy) * σx := by
    have := mul_le_mul_of_nonneg_right (le_max_left (Mx / σx) (My / σy)) hσxpos.le
    rwa [div_mul_cancel₀ _ hσxpos.ne'] at this
  have hκy : My ≤ max (Mx / σx) (My / σy) * σy := by
    have := mul_le_mul_of_nonneg_right (le_max_right (Mx / σx) (My / σy)) hσypos.le
    rwa [div_mul_cancel₀ _ hσypos.ne'] at this
  exact pearson_mtree_forward_error_exact_wide q hs Mx My hMx hMy t h2 hbx hby hfirst σx σy _ hσxpos
    hσypos (Real.sq_sqrt hvx.le) (Real.sq_sqrt hvy.le) hκ0 hκx hκy (by linarith [hsm])

/-- Consequence: under the hypotheses of `pearson_mtree_envelope_kappa`, `|pearson| ≤ 1 + 48·n·κ·u` (the exact
`ρ` lies in `[-1, 1]`). -/
theorem pearson_mtree_abs_le (q : RndSqrt r) (hs : SqrtIs q) (Mx My : ℝ) (hMx : 0 ≤ Mx)
    (hMy : 0 ≤ My) (t : MTree (RF2 r × RF2 r)) (h2 : 2 ≤ t.flatten.length)
    (hbx : ∀ p ∈ t.flatten, |p.1.val| ≤ Mx) (hby : ∀ p ∈ t.flatten, |p.2.val| ≤ My)
    (hfirst : ChunksFirstExact t)
    (hposx : 0 < T (fsts (vals t.flatten))) (hposy : 0 < T (snds (vals t.flatten)))
    (hsm : (t.flatten.length : ℝ)
        * (1 + max (Mx / Real.sqrt (T (fsts (vals t.flatten)) / (t.flatten.length : ℝ)))
                   (My / Real.sqrt (T (snds (vals t.flatten)) / (t.flatten.length : ℝ)))) * r.u
        ≤ 1/160) :
    |(Covariance.evalTree t).pearson.val|
      ≤ 1 + 48 * (t.flatten.length : ℝ)
          * (1 + max (Mx / Real.sqrt (T (fsts (vals t.flatten)) / (t.flatten.length : ℝ)))
                     (My / Real.sqrt (T (snds (vals t.flatten)) / (t.flatten.length : ℝ)))) * r.u := by
  have h := pearson_mtree_envelope_kappa q hs Mx My hMx hMy t h2 hbx hby hfirst hposx hposy hsm
  have hD : 0 < Real.sqrt (T (fsts (vals t.flatten)) * T (snds (vals t.flatten))) :=
    Real.sqrt_pos.mpr (mul_pos hposx hposy)
  have hρ : |Cxy (vals t.flatten)
      / Real.sqrt (T (fsts (vals t.flatten)) * T (snds (vals t.flatten)))| ≤ 1 := by
    rw [abs_div, abs_of_pos hD, div_le_one hD]
    refine le_trans (abs_Cxy_le_Gxy _) (Gxy_le _ _ hD.le ?_)
    rw [Real.sq_sqrt (mul_pos hposx hposy).le]
  have e : (Covariance.evalTree t).pearson.val
      = Cxy (vals t.flatten) / Real.sqrt (T (fsts (vals t.flatten)) * T (snds (vals t.flatten)))
        + ((Covariance.evalTree t).pearson.val
            - Cxy (vals t.flatten)
              / Real.sqrt (T (fsts (vals t.flatten)) * T (snds (vals t.flatten)))) := by ring
  rw [e]
  exact le_trans (abs_add_le _ _) (by linarith)

/-! ## Non-vacuity -/

open Props.C01c (awayRndR awaySqrt)

/-- ill-conditioned pairs (`x` has offset 1000) under the rounding `awayRndR` (never exact except at 0) in a
tree with a nested merge, an empty chunk in the middle, a one-element chunk and unequal chunk sizes; the first
`y` of each non-empty chunk is `0`, so that the first `y`-mean of every chunk is exact even under `awayRndR`.
Deviations: `x`: `-5, 1, 1, 3` (mean 1000), `y`: `-3, 3, 3, -3` (mean 3). -/
noncomputable def exTree : MTree (RF2 awayRndR × RF2 awayRndR) :=
  .node (.leaf [(⟨995⟩, ⟨0⟩), (⟨1001⟩, ⟨6⟩), (⟨1001⟩, ⟨6⟩)]) (.node (.leaf []) (.leaf [(⟨1003⟩, ⟨0⟩)]))

theorem exTree_spec :
    T (fsts (vals exTree.flatten)) = 36 ∧ T (snds (vals exTree.flatten)) = 36
    ∧ Cxy (vals exTree.flatten) = 12 := by
  refine ⟨?_, ?_, ?_⟩ <;>
    norm_num [exTree, MTree.flatten, vals, fsts, snds, T, Cxy, coSum, sumPow, mean]

theorem exTree_bounds :
    (∀ p ∈ exTree.flatten, |p.1.val| ≤ 1003) ∧ (∀ p ∈ exTree.flatten, |p.2.val| ≤ 6) := by
  constructor <;>
  · intro p hp
    simp only [exTree, MTree.flatten, List.nil_append, List.mem_append, List.mem_cons,
      List.not_mem_nil, or_false] at hp
    rcases hp with (rfl | rfl | rfl) | rfl <;> norm_num

theorem exTree_firstExact : ChunksFirstExact exTree := by
  intro ps hps
  rw [firstExact_iff]
  intro p hp
  simp only [exTree, MTree.chunks, List.cons_append, List.nil_append, List.mem_cons,
    List.not_mem_nil, or_false] at hps
  rcases hps with rfl | rfl | rfl
  · simp only [List.head?_cons, Option.some.injEq] at hp
    subst hp; norm_num [awayRndR]
  · simp at hp
  · simp only [List.head?_cons, Option.some.injEq] at hp
    subst hp; norm_num [awayRndR]

/-- the hypotheses of `pearson_mtree_forward_error_exact` are met by `exTree` with `Mx = 1003`, `My = 6`,
`σx = 3` (`T_x/n = 9`), `σy = 3` (`T_y/n = 9`), `κ' = 335`, `u = 2^-53`, and the conclusion is a concrete
statement about a computation in which no operation with a non-zero result is exact (three `add`s, a merge
with an empty state, a merge of two non-empty states, then a rounded product, a rounded square root and a
rounded division): `pearson` is within `48·4·336·2^-53` of `ρ = 12/√(36·36) = 1/3` -/
example :
    letI : FloatOps (RF2 awayRndR) := rf2SqrtFloatOps awayRndR awaySqrt
    |(Covariance.evalTree exTree).pearson.val - 1/3| ≤ 48 * 4 * (1 + 335) * (1/2^53) := by
  let _ : FloatOps (RF2 awayRndR) := rf2SqrtFloatOps awayRndR awaySqrt
  obtain ⟨hTx, hTy, hC⟩ := exTree_spec
  obtain ⟨hbx, hby⟩ := exTree_bounds
  have hl : (exTree.flatten.length : ℝ) = 4 := by norm_num [exTree, MTree.flatten]
  have hu : awayRndR.u = 1/2^53 := rfl
  have h := pearson_mtree_forward_error_exact awaySqrt (rf2SqrtFloatOps_sqrtIs _ _) 1003 6
    (by norm_num) (by norm_num) exTree (by simp [exTree, MTree.flatten]) hbx hby exTree_firstExact
    3 3 335 (by norm_num) (by norm_num) (by rw [hTx, hl]; norm_num) (by rw [hTy, hl]; norm_num)
    (by norm_num) (by norm_num) (by norm_num) (by rw [hl, hu]; norm_num)
  rw [hC, hTx, hTy, hl, hu] at h
  have hs : Real.sqrt (36 * 36) = 36 := by
    rw [show (36:ℝ) * 36 = 36^2 by norm_num]; exact Real.sqrt_sq (by norm_num)
  rw [hs, show (12:ℝ) / 36 = 1/3 by norm_num] at h
  exact h

/-- the standard-model form needs no hypothesis on the first pairs: the same tree with non-zero first `y`s
(`y + 5000`), `My = 5006`, `κ' = 1669`, two non-empty chunks:
`|pearson - 1/3| ≤ 48·4·1670·2^-53 + 5·1669²·2^-53·2/4` -/
example :
    letI : FloatOps (RF2 awayRndR) := rf2SqrtFloatOps awayRndR awaySqrt
    let t : MTree (RF2 awayRndR × RF2 awayRndR) :=
      .node (.leaf [(⟨995⟩, ⟨5000⟩), (⟨1001⟩, ⟨5006⟩), (⟨1001⟩, ⟨5006⟩)])
        (.node (.leaf []) (.leaf [(⟨1003⟩, ⟨5000⟩)]))
    |(Covariance.evalTree t).pearson.val - 1/3|
      ≤ 48 * 4 * (1 + 1669) * (1/2^53) + 5 * 1669^2 * (1/2^53) * 2 / 4 := by
  let _ : FloatOps (RF2 awayRndR) := rf2SqrtFloatOps awayRndR awaySqrt
  intro t
  have hTx : T (fsts (vals t.flatten)) = 36 := by
    norm_num [t, MTree.flatten, vals, fsts, T, sumPow, mean]
  have hTy : T (snds (vals t.flatten)) = 36 := by
    norm_num [t, MTree.flatten, vals, snds, T, sumPow, mean]
  have hC : Cxy (vals t.flatten) = 12 := by
    norm_num [t, MTree.flatten, vals, fsts, snds, Cxy, coSum, mean]
  have hbx : ∀ p ∈ t.flatten, |p.1.val| ≤ 1003 := by
    intro p hp
    simp only [t, MTree.flatten, List.nil_append, List.mem_append, List.mem_cons,
      List.not_mem_nil, or_false] at hp
    rcases hp with (rfl | rfl | rfl) | rfl <;> norm_num
  have hby : ∀ p ∈ t.flatten, |p.2.val| ≤ 5006 := by
    intro p hp
    simp only [t, MTree.flatten, List.nil_append, List.mem_append, List.mem_cons,
      List.not_mem_nil, or_false] at hp
    rcases hp with (rfl | rfl | rfl) | rfl <;> norm_num
  have hl : (t.flatten.length : ℝ) = 4 := by norm_num [t, MTree.flatten]
  have hL : (t.neLeaves : ℝ) = 2 := by norm_num [t, MTree.neLeaves]
  have hu : awayRndR.u = 1/2^53 := rfl
  have h := pearson_mtree_forward_error_std awaySqrt (rf2SqrtFloatOps_sqrtIs _ _) 1003 5006
    (by norm_num) (by norm_num) t (by simp [t, MTree.flatten]) hbx hby
    3 3 1669 (by norm_num) (by norm_num) (by rw [hTx, hl]; norm_num) (by rw [hTy, hl]; norm_num)
    (by norm_num) (by norm_num) (by norm_num) (by rw [hl, hu]; norm_num)
  rw [hC, hTx, hTy, hl, hL, hu] at h
  have hs : Real.sqrt (36 * 36) = 36 := by
    rw [show (36:ℝ) * 36 = 36^2 by norm_num]; exact Real.sqrt_sq (by norm_num)
  rw [hs, show (12:ℝ) / 36 = 1/3 by norm_num] at h
  exact h

end Props.C09e

#print axioms Props.C09e.pearson_mtree_computed
#print axioms Props.C09e.pearson_mtree_forward_error
#print axioms Props.C09e.pearson_mtree_forward_error_exact
#print axioms Props.C09e.pearson_mtree_forward_error_exact_wide
#print axioms Props.C09e.pearson_mtree_forward_error_wide
#print axioms Props.C09e.pearson_mtree_forward_error_std
#print axioms Props.C09e.pearson_mtree_envelope_kappa
#print axioms Props.C09e.pearson_mtree_envelope_kappa_wide
#print axioms Props.C09e.pearson_mtree_abs_le
