import AvgProofs.PearsonErr
import Props.C09b
import Props.C01c
import Mathlib.Tactic.NormNum

/-!
# C09 (second addendum) - forward error of `Covariance::pearson`, add-only streams

Carrier **R2** over ℝ (`RF2 r`: every `+ - * /` followed by a rounding with `|fl t - t| ≤ u·|t|`, counts
converted exactly) with a correctly rounded square root `q : RndSqrt r` (`|sqrtfl t - √t| ≤ u·√t`,
`AvgProofs/SqrtErr.lean`); `SqrtIs q` says the `FloatOps (RF2 r)` instance takes square roots with it.

What the code computes for `n ≥ 2` (`pearson_computed`):
`pearson = fl(sum_prod / sqrtfl(fl(sum_x_2 · sum_y_2)))`.
Exact value: `ρ = C/√(T_x·T_y)` (`C = Σ(x - mean x)(y - mean y)`, `T_x = Σ(x - mean x)²`, `T_y` likewise).

**Result** (`pearson_envelope_kappa`): `n ≥ 2` pairs with `|x| ≤ Mx`, `|y| ≤ My`, `T_x, T_y > 0`
(non-degenerate spreads), the `y`-mean after the first pair exact (`FirstExact`, true of IEEE arithmetic; see
`Props.C09b.first_pair_term_is_genuine` for why the standard model alone does not suffice),
`(n+28)·u ≤ 1/64`, `σx = √(T_x/n)`, `σy = √(T_y/n)`, `κ = 1 + max(Mx/σx, My/σy)` and `n·κ·u ≤ 1/32`:

    |pearson - ρ| ≤ 16·n·κ·u

- the envelope of DESIGN.md section 5 (`pearson`: scale 1, constant 16). `pearson_forward_error` is the
square-root-free parametrisation (`σx² = T_x/n`, `Mx ≤ κ'·σx`, ...), `pearson_abs_le` the consequence
`|pearson| ≤ 1 + 16·n·κ·u`.

How: `Props.C09b` gives `|sum_x_2 - T_x| ≤ ε·T_x`, `|sum_y_2 - T_y| ≤ ε·T_y`, `|sum_prod - C| ≤ εp·√(T_xT_y)` with
`ε = (109/20)x + (79/20)a + (15/4)a²`, `εp = (21/5)x + (79/40 + 21/5)a + (39/10)a²`, `x = n·u`, `a = n·u·(κ-1)`.
The rounded product lies between `(1-u)(1-ε)²` and `(1+u)(1+ε)²` times `T_xT_y`, so its rounded square root is
within `γ = ε + u + u(1+ε+u)` of `√(T_xT_y)` (`denominator_error`: the root of `(1±ε)²` is `1±ε` - the two
relative errors `ε` do not add up), and the quotient is within `(1+u)(εp+γ)/(1-γ) + u`
(`pearson_core`, using `|C| ≤ √(T_xT_y)`). The smallness hypothesis `n·κ·u ≤ 1/32` keeps `γ ≤ 0.21` and absorbs
the second-order terms: the total is at most `14.2·x + 13.2·a ≤ 16·(x + a) = 16·n·κ·u`.
Not covered: merge trees.
-/
open Avg MSpec VarSpec CovSpec CovErr

namespace Props.C09c
open Props.C09b (addP)

variable {r : Rnd2 ℝ} [FloatOps (RF2 r)]

/-- What `pearson` computes at R2 for `n ≥ 2`: `fl(sum_prod / sqrtfl(fl(sum_x_2·sum_y_2)))`. -/
theorem pearson_computed (q : RndSqrt r) (hs : SqrtIs q) (ps : List (RF2 r × RF2 r)) (h2 : 2 ≤ ps.length) :
    (ps.foldl addP Covariance.new).pearson.val
      = r.fl ((ps.foldl addP Covariance.new).sum_prod.val
          / q.sqrtfl (r.fl ((ps.foldl addP Covariance.new).sum_x_2.val
                            * (ps.foldl addP Covariance.new).sum_y_2.val))) :=
  pearson_val q hs ps h2

/-- The quotient step: `D > 0`, `|C| ≤ D`, `|Sp - C| ≤ εp·D`, `|Q - D| ≤ γ·D`, `γ < 1`:
`|fl(Sp/Q) - C/D| ≤ (1+u)(εp+γ)/(1-γ) + u`. -/
theorem quotient_error (r : Rnd2 ℝ) (Sp C Q D εp γ : ℝ) (hD : 0 < D) (hC : |C| ≤ D)
    (hSp : |Sp - C| ≤ εp * D) (hQ : |Q - D| ≤ γ * D) (hγ0 : 0 ≤ γ) (hγ1 : γ < 1) :
    |r.fl (Sp / Q) - C / D| ≤ (1 + r.u) * ((εp + γ) / (1 - γ)) + r.u :=
  pearson_core r Sp C Q D εp γ hD hC hSp hQ hγ0 hγ1

/-- The denominator: `|Sx - T_x| ≤ ε·T_x`, `|Sy - T_y| ≤ ε·T_y`, `ε + u ≤ 1`:
`|sqrtfl(fl(Sx·Sy)) - √(T_x·T_y)| ≤ (ε + u + u(1+ε+u))·√(T_x·T_y)`. -/
theorem denominator_error (r : Rnd2 ℝ) (q : RndSqrt r) (Sx Sy Tx Ty ε : ℝ) (hTx : 0 < Tx) (hTy : 0 < Ty)
    (hε0 : 0 ≤ ε) (hεu : ε + r.u ≤ 1) (hSx : |Sx - Tx| ≤ ε * Tx) (hSy : |Sy - Ty| ≤ ε * Ty) :
    |q.sqrtfl (r.fl (Sx * Sy)) - Real.sqrt (Tx * Ty)|
      ≤ (ε + r.u + r.u * (1 + ε + r.u)) * Real.sqrt (Tx * Ty) :=
  sqrt_prod_error r q Sx Sy Tx Ty ε hTx hTy hε0 hεu hSx hSy

/-- **`pearson`, square-root-free parametrisation.** `n ≥ 2` pairs, `|x| ≤ Mx`, `|y| ≤ My`, `FirstExact`,
`(n+28)·u ≤ 1/64`; `σx, σy > 0` with `σx² = T_x/n`, `σy² = T_y/n`; `κ' ≥ 0` with `Mx ≤ κ'·σx`, `My ≤ κ'·σy`;
`n·u·(1 + κ') ≤ 1/32`:   `|pearson - C/√(T_x·T_y)| ≤ 16·n·(1 + κ')·u`. -/
theorem pearson_forward_error (q : RndSqrt r) (hs : SqrtIs q) (Mx My : ℝ) (hMx : 0 ≤ Mx) (hMy : 0 ≤ My)
    (ps : List (RF2 r × RF2 r)) (h2 : 2 ≤ ps.length)
    (hbx : ∀ p ∈ ps, |p.1.val| ≤ Mx) (hby : ∀ p ∈ ps, |p.2.val| ≤ My)
    (hsmall : ((ps.length : ℝ) + 28) * r.u ≤ 1/64) (hfirst : FirstExact ps)
    (σx σy κ' : ℝ) (hσx : 0 < σx) (hσy : 0 < σy)
    (hvx : σx^2 = T (fsts (vals ps)) / (ps.length : ℝ)) (hvy : σy^2 = T (snds (vals ps)) / (ps.length : ℝ))
    (hκ0 : 0 ≤ κ') (hκx : Mx ≤ κ' * σx) (hκy : My ≤ κ' * σy)
    (hsm : (ps.length : ℝ) * r.u * (1 + κ') ≤ 1/32) :
    |(ps.foldl addP Covariance.new).pearson.val
        - Cxy (vals ps) / Real.sqrt (T (fsts (vals ps)) * T (snds (vals ps)))|
      ≤ 16 * (ps.length : ℝ) * (1 + κ') * r.u :=
  pearson_error q hs Mx My hMx hMy ps h2 hbx hby hsmall hfirst σx σy κ' hσx hσy hvx hvy hκ0 hκx hκy hsm

/-- **The envelope clause for `pearson`, in the words of DESIGN.md section 5** (scale 1, constant 16). `n ≥ 2`
pairs, `|x| ≤ Mx`, `|y| ≤ My`, `T_x, T_y > 0`, `FirstExact`, `(n+28)·u ≤ 1/64`, `σx = √(T_x/n)`, `σy = √(T_y/n)`,
`κ = 1 + max(Mx/σx, My/σy)`, `n·κ·u ≤ 1/32`:    `|pearson - ρ| ≤ 16·n·κ·u`. -/
theorem pearson_envelope_kappa (q : RndSqrt r) (hs : SqrtIs q) (Mx My : ℝ) (hMx : 0 ≤ Mx) (hMy : 0 ≤ My)
    (ps : List (RF2 r × RF2 r)) (h2 : 2 ≤ ps.length)
    (hbx : ∀ p ∈ ps, |p.1.val| ≤ Mx) (hby : ∀ p ∈ ps, |p.2.val| ≤ My)
    (hsmall : ((ps.length : ℝ) + 28) * r.u ≤ 1/64) (hfirst : FirstExact ps)
    (hposx : 0 < T (fsts (vals ps))) (hposy : 0 < T (snds (vals ps)))
    (hsm : (ps.length : ℝ)
        * (1 + max (Mx / Real.sqrt (T (fsts (vals ps)) / (ps.length : ℝ)))
                   (My / Real.sqrt (T (snds (vals ps)) / (ps.length : ℝ)))) * r.u ≤ 1/32) :
    |(ps.foldl addP Covariance.new).pearson.val
        - Cxy (vals ps) / Real.sqrt (T (fsts (vals ps)) * T (snds (vals ps)))|
      ≤ 16 * (ps.length : ℝ)
          * (1 + max (Mx / Real.sqrt (T (fsts (vals ps)) / (ps.length : ℝ)))
                     (My / Real.sqrt (T (snds (vals ps)) / (ps.length : ℝ)))) * r.u := by
  have hn2 : (2:ℝ) ≤ (ps.length : ℝ) := by exact_mod_cast h2
  have hvx : 0 < T (fsts (vals ps)) / (ps.length : ℝ) := div_pos hposx (by linarith)
  have hvy : 0 < T (snds (vals ps)) / (ps.length : ℝ) := div_pos hposy (by linarith)
  set σx := Real.sqrt (T (fsts (vals ps)) / (ps.length : ℝ)) with hσx
  set σy := Real.sqrt (T (snds (vals ps)) / (ps.length : ℝ)) with hσy
  have hσxpos : 0 < σx := Real.sqrt_pos.mpr hvx
  have hσypos : 0 < σy := Real.sqrt_pos.mpr hvy
  have hκ0 : 0 ≤ max (Mx / σx) (My / σy) := le_trans (div_nonneg hMx hσxpos.le) (le_max_left _ _)
  have hκx : Mx ≤ max (Mx / σx) (My / σy) * σx := by
    have := mul_le_mul_of_nonneg_right (le_max_left (Mx / σx) (My / σy)) hσxpos.le
    rwa [div_mul_cancel₀ _ hσxpos.ne'] at this
  have hκy : My ≤ max (Mx / σx) (My / σy) * σy := by
    have := mul_le_mul_of_nonneg_right (le_max_right (Mx / σx) (My / σy)) hσypos.le
    rwa [div_mul_cancel₀ _ hσypos.ne'] at this
  have h := pearson_error q hs Mx My hMx hMy ps h2 hbx hby hsmall hfirst σx σy _ hσxpos hσypos
    (Real.sq_sqrt hvx.le) (Real.sq_sqrt hvy.le) hκ0 hκx hκy (by linarith [hsm])
  exact h

/-- Consequence: under the same hypotheses `|pearson| ≤ 1 + 16·n·κ·u` (the exact `ρ` lies in `[-1, 1]`). -/
theorem pearson_abs_le (q : RndSqrt r) (hs : SqrtIs q) (Mx My : ℝ) (hMx : 0 ≤ Mx) (hMy : 0 ≤ My)
    (ps : List (RF2 r × RF2 r)) (h2 : 2 ≤ ps.length)
    (hbx : ∀ p ∈ ps, |p.1.val| ≤ Mx) (hby : ∀ p ∈ ps, |p.2.val| ≤ My)
    (hsmall : ((ps.length : ℝ) + 28) * r.u ≤ 1/64) (hfirst : FirstExact ps)
    (hposx : 0 < T (fsts (vals ps))) (hposy : 0 < T (snds (vals ps)))
    (hsm : (ps.length : ℝ)
        * (1 + max (Mx / Real.sqrt (T (fsts (vals ps)) / (ps.length : ℝ)))
                   (My / Real.sqrt (T (snds (vals ps)) / (ps.length : ℝ)))) * r.u ≤ 1/32) :
    |(ps.foldl addP Covariance.new).pearson.val|
      ≤ 1 + 16 * (ps.length : ℝ)
          * (1 + max (Mx / Real.sqrt (T (fsts (vals ps)) / (ps.length : ℝ)))
                     (My / Real.sqrt (T (snds (vals ps)) / (ps.length : ℝ)))) * r.u := by
  have h := pearson_envelope_kappa q hs Mx My hMx hMy ps h2 hbx hby hsmall hfirst hposx hposy hsm
  have hD : 0 < Real.sqrt (T (fsts (vals ps)) * T (snds (vals ps))) :=
    Real.sqrt_pos.mpr (mul_pos hposx hposy)
  have hρ : |Cxy (vals ps) / Real.sqrt (T (fsts (vals ps)) * T (snds (vals ps)))| ≤ 1 := by
    rw [abs_div, abs_of_pos hD, div_le_one hD]
    refine le_trans (abs_Cxy_le_Gxy _) (Gxy_le _ _ hD.le ?_)
    rw [Real.sq_sqrt (mul_pos hposx hposy).le]
  have e : (ps.foldl addP Covariance.new).pearson.val
      = Cxy (vals ps) / Real.sqrt (T (fsts (vals ps)) * T (snds (vals ps)))
        + ((ps.foldl addP Covariance.new).pearson.val
            - Cxy (vals ps) / Real.sqrt (T (fsts (vals ps)) * T (snds (vals ps)))) := by ring
  rw [e]
  exact le_trans (abs_add_le _ _) (by linarith)

/-! ## Non-vacuity -/

open Props.C01c (awayRndR awaySqrt)

/-- an ill-conditioned stream of pairs under the rounding `awayRndR` (never exact except at 0): `x` has offset
1000 and spread 1, the first `y` is `0` (so that the first `y`-mean is exact even under `awayRndR`) -/
noncomputable def exPairs : List (RF2 awayRndR × RF2 awayRndR) :=
  [(⟨1001⟩, ⟨0⟩), (⟨1003⟩, ⟨8⟩), (⟨1001⟩, ⟨2⟩), (⟨1003⟩, ⟨2⟩)]

theorem exPairs_spec :
    T (fsts (vals exPairs)) = 4 ∧ T (snds (vals exPairs)) = 36 ∧ Cxy (vals exPairs) = 8 := by
  refine ⟨?_, ?_, ?_⟩ <;> norm_num [exPairs, vals, fsts, snds, T, Cxy, coSum, sumPow, mean]

theorem exPairs_bounds :
    (∀ p ∈ exPairs, |p.1.val| ≤ 1003) ∧ (∀ p ∈ exPairs, |p.2.val| ≤ 8) := by
  constructor <;>
  · intro p hp
    simp only [exPairs, List.mem_cons, List.not_mem_nil, or_false] at hp
    rcases hp with rfl | rfl | rfl | rfl <;> norm_num

theorem exPairs_firstExact : FirstExact exPairs := by
  rw [firstExact_iff]
  intro p hp
  simp only [exPairs, List.head?_cons, Option.some.injEq] at hp
  subst hp
  norm_num [awayRndR]

/-- the hypotheses of `pearson_forward_error` are met by `exPairs` with `Mx = 1003`, `My = 8`, `σx = 1`
(`T_x/n = 1`), `σy = 3` (`T_y/n = 9`), `κ' = 1003`, `u = 2^-53`, and the conclusion is a concrete statement
about a computation in which no operation is exact: `pearson` is within `16·4·1004·2^-53` of
`ρ = 8/√(4·36) = 2/3` -/
example :
    letI : FloatOps (RF2 awayRndR) := rf2SqrtFloatOps awayRndR awaySqrt
    |(exPairs.foldl addP Covariance.new).pearson.val - 2/3| ≤ 16 * 4 * (1 + 1003) * (1/2^53) := by
  let _ : FloatOps (RF2 awayRndR) := rf2SqrtFloatOps awayRndR awaySqrt
  obtain ⟨hTx, hTy, hC⟩ := exPairs_spec
  obtain ⟨hbx, hby⟩ := exPairs_bounds
  have hl : (exPairs.length : ℝ) = 4 := by norm_num [exPairs]
  have hu : awayRndR.u = 1/2^53 := rfl
  have h := pearson_forward_error awaySqrt (rf2SqrtFloatOps_sqrtIs _ _) 1003 8 (by norm_num) (by norm_num)
    exPairs (by simp [exPairs]) hbx hby (by rw [hl, hu]; norm_num) exPairs_firstExact 1 3 1003
    (by norm_num) (by norm_num) (by rw [hTx, hl]; norm_num) (by rw [hTy, hl]; norm_num)
    (by norm_num) (by norm_num) (by norm_num) (by rw [hl, hu]; norm_num)
  rw [hC, hTx, hTy, hl, hu] at h
  have hs : Real.sqrt (4 * 36) = 12 := by
    rw [show (4:ℝ) * 36 = 12^2 by norm_num]; exact Real.sqrt_sq (by norm_num)
  rw [hs, show (8:ℝ) / 12 = 2/3 by norm_num] at h
  exact h

end Props.C09c

#print axioms Props.C09c.pearson_computed
#print axioms Props.C09c.quotient_error
#print axioms Props.C09c.denominator_error
#print axioms Props.C09c.pearson_forward_error
#print axioms Props.C09c.pearson_envelope_kappa
#print axioms Props.C09c.pearson_abs_le
