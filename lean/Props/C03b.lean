import AvgProofs.SkewErrEnv
import Props.C02b
import Mathlib.Analysis.Real.Sqrt
import Mathlib.Tactic.NormNum

/-!
# C03 (addendum) - forward error of the third-order sum `sum_3` of `Skewness`, all stream lengths

Part of the envelope clause of C03, *proved* for add-only streams: the state component `sum_3` of
`Skewness` (from which `skewness()` is computed) stays close to the exact `U = Σ(x - mean)³`.

Carrier **R2** (`RF2 r`, `AvgProofs/MeanErr2.lean`): an ordered field `F` in which every `+ - * /` is
followed by a rounding `r.fl` with `|fl t - t| ≤ u·|t|` (standard model of floating-point arithmetic: no
overflow, no underflow); conversions of counts are exact. Notation: `n` the number of observations,
`M ≥ max|x_i|`, `mean vs = Σx/n`, `T vs = Σ(x - mean)²` (`VarSpec.T`), `U vs = Σ(x - mean)³` (`SkewSpec.U`),
`d_i = x_i - mean(x_0..x_{i-1})` (`VarSpec.dev`), `T_i = T(x_0..x_{i-1})`, `c_i = i(i-1)/(i+1)²`
(`SkewSpec.cA`), `γ_j = (1+u)^j - 1`.

What `Skewness.add` computes for `sum_3` (`sum3_computed_update`; `k` the new count, `a` the computed mean
and `S2` the computed sum of squares *before* the observation):
`δ = fl(x - a)`, `δn = fl(δ/k)`, `A = fl(fl(fl(fl(δ·δn)·fl(k-1))·δn)·fl(k-2))`, `B = fl(fl(3·δn)·S2)`,
`S3' = fl(S3 + fl(A - B))`; then `Variance.add_inner` updates mean and `sum_2` (`inner_variance_bitwise`:
these are bit for bit those of `Variance`, so `Props.C01b` applies to them).
The exact quantity obeys (`sum3_exact_recurrence`)  `U_k = U_{k-1} + d³·(k-1)(k-2)/k² - 3·d·T_{k-1}/k`.
The two parts of the increment may be large and of opposite sign, and the rounded subtraction `A - B`
commits an error relative to `|A| + |B|`, so the natural scale of the rounding errors is not `|U|` but
`V3p = Σ_i ( |d_i|³·c_i + 3·|d_i|·T_i/(i+1) )`  (`V3p_def`; `|U| ≤ V3p`: `abs_U_le_V3p`).

Main results (`u` unit roundoff, `N = n + 10`, `R₀² ≥ n·T`, `S₀² ≥ T`; hypothesis `(n+28)·u ≤ 1/64`):

* `sum3_step_error` - one step, explicit in the error `e` of the mean and `D2` of `sum_2`.
* `sum3_forward_error_general` - the induction for arbitrary bounds `E_i`, `F_i` on the errors of the mean
  and of `sum_2` of the prefixes; no hypothesis on the data.
* `sum3_forward_error`:  `|sum_3 - U| ≤ 7·N·u·V3p + 11·N·u·M·T + 13·u·M·R₀² + 30·N²·u²·M²·R₀ + 16·N⁴·u³·M³`.
* `sum3_forward_error_closed`:  `V3p ≤ 2M·T + 3·T·S₀` (`V3p_closed_bound`) inserted:
  `≤ 25·N·u·M·T + 21·N·u·T·S₀ + 13·u·M·R₀² + 30·N²·u²·M²·R₀ + 16·N⁴·u³·M³`.
* `sum3_forward_error_sqrt` (ℝ): `≤ 7·N·u·V3p + 24·N·u·M·T + 30·N²·u²·M²·sqrt(n·T) + 16·N⁴·u³·M³`.
* `sum3_envelope`: if `T ≤ n·σ²` and `N·u·M ≤ σ` then `|sum_3 - U| ≤ 7·N·u·V3p + 70·N·u·(M·σ²)·N`, i.e.
  relative to the scale `N·σ³` the error is `70·N·u·(M/σ)`: **linear** in the conditioning `M/σ`.
* `V3p_le_V3`: `V3p ≤ 40·V3`, `V3 = Σ|x_i - mean|³ = n·ν_3` - the scale of the envelope of `skewness()` in
  DESIGN.md section 5 (by Hardy's and Copson's inequalities for the exponent 3, `hardy_cube`, `copson_cube`,
  proved here in any ordered field); `T_cube_le`: `T³ ≤ n·V3²` (so `n·σ³ ≤ V3`).
* `sum3_forward_error_V3`: `|sum_3 - U| ≤ 280·N·u·V3 + 11·N·u·M·T + 13·u·M·R₀² + 30·N²·u²·M²·R₀ + 16·N⁴·u³·M³`.
* `sum3_envelope_V3`, `sum3_envelope_kappa`: for `σ = sqrt(T/n) > 0`, `N·u·M ≤ σ`:
  `|sum_3 - U| ≤ N·u·V3·(280 + 70·(N/n)·(M/σ))`, and for `n ≥ 10`, `κ = 1 + M/σ`:
  **`|sum_3 - U| ≤ 280·N·κ·u·V3`** - the shape `C·n·κ·u·scale` of the envelope clause of C03, for the state
  component `sum_3` with its scale `n·ν_3` (the constant is that of the inequalities used, far from the
  measured one).

How: the error `e` of the mean perturbs `d³c` by `c(-3d²e + 3de² - e³)` and `3dT/k` by `-3eT/k`; the error
`D2` of `sum_2` perturbs the latter by `3(d - e)D2/k`. With `|e_i| ≲ u·M·i/2` and
`|D2_i| ≲ i·u·(5.45·T_i + 3.95·M·R₀)` (`Props.C01b`), the sums are bounded through
`Σ d_i²·i/(i+1) = T`, `Σ |d_i|·i/(i+1) ≤ sqrt(n·T)` (Cauchy-Schwarz) and
`Σ i·(3|d_i|T_i/(i+1)) ≤ n·VB`. The twelve (five) relative roundings of the two parts cost `γ12` (`γ5`)
*once* relative to `V3p`; the final addition costs `u·|U_k| ≤ u·V3p` per step.

Not covered (open): the accessor `skewness()` itself (square roots and a quotient on top of `sum_3` and
`sum_2`; the carrier R2 has no model of `sqrt`), merge trees, `sum_4`; sharp constants (40 in
`V3p ≤ 40·V3` is the product of the Hardy/Copson constants; for typical data `V3p ≈ 2·V3`).
-/
open Avg MSpec Finset VarSpec SkewSpec SkewErr

namespace Props.C03b

/-! ## bit-for-bit: the inner estimator; exact side -/

/-- Any carrier (floating point included), bit for bit: the `Variance` kept inside `Skewness` after adding
the observations one at a time is the `Variance` fed the same observations. Hence every statement of
`Props.C01b` about the running mean and `sum_2` holds for the components of `Skewness`. -/
theorem inner_variance_bitwise {α : Type} [Add α] [Sub α] [Mul α] [Div α] [NatCast α] (xs : List α) :
    (xs.foldl Skewness.add Skewness.new).avg = xs.foldl Variance.add Variance.new := by
  rw [Skewness.fold_avg]; rfl

variable {F : Type} [Field F] [LinearOrder F] [IsStrictOrderedRing F]

omit [LinearOrder F] [IsStrictOrderedRing F] in
/-- `U` is the exact sum of cubed deviations from the exact mean. -/
theorem U_def (vs : List F) : U vs = sumPow vs (mean vs) 3 := rfl

/-- In exact arithmetic `sum_3` *is* `U` (this is `Props.C03.skewness_fold`, via `kurtosis_add`). -/
theorem sum3_exact (vs : List F) : (vs.foldl Skewness.add Skewness.new).sum_3 = U vs := by
  rw [MSpec.skewness_fold]; rfl

/-- Exact recurrence of the third-order sum: one more observation `x` after `n` observations `vs` adds
`d³·n(n-1)/(n+1)² - 3·d·T(vs)/(n+1)`, `d = x - mean vs`. -/
theorem sum3_exact_recurrence (vs : List F) (x : F) :
    U (vs ++ [x]) = U vs + ((x - mean vs)^3 * ((vs.length : F) * ((vs.length : F) - 1)
        / ((vs.length : F) + 1)^2) - 3 * (x - mean vs) * T vs / ((vs.length : F) + 1)) :=
  U_snoc vs x

omit [IsStrictOrderedRing F] in
/-- The natural scale: the sum over the stream of the absolute values of the two parts of the exact
increments. -/
theorem V3p_def (vs : List F) :
    V3p vs = ∑ i ∈ range vs.length, |dev vs i|^3 * ((i : F) * ((i : F) - 1) / ((i : F) + 1)^2)
      + ∑ i ∈ range vs.length, 3 * |dev vs i| * T (vs.take i) / ((i : F) + 1) := rfl

/-- `|Σ(x - mean)³| ≤ V3p`, `0 ≤ V3p`, and `V3p` never decreases when an observation is added. -/
theorem abs_U_le_V3p (vs : List F) (x : F) :
    |U vs| ≤ V3p vs ∧ 0 ≤ V3p vs ∧ V3p vs ≤ V3p (vs ++ [x]) :=
  ⟨abs_U_le vs, V3p_nonneg vs, V3p_mono vs x⟩

/-- `V3p ≤ 2M·T + 3·T·S₀` for `|x_i| ≤ M` and any `S₀ ≥ 0` with `T ≤ S₀²` (over ℝ: `S₀ = sqrt T`). -/
theorem V3p_closed_bound (vs : List F) (M : F) (hM : 0 ≤ M) (hb : ∀ x ∈ vs, |x| ≤ M) (S₀ : F)
    (hS : 0 ≤ S₀) (hST : T vs ≤ S₀^2) : V3p vs ≤ 2 * M * T vs + 3 * T vs * S₀ :=
  V3p_le vs M hM hb S₀ hS hST

/-! ## one step -/

/-- What `Skewness.add` computes for `sum_3` at the carrier R2, operation by operation (twelve rounded
operations, two of them - `δ` and `δn` - shared with the update of the mean; `k - 1` and `k - 2` are rounded
subtractions of exactly converted counts, `3` is an exact conversion; `sum_2` is the value *before* the
observation). -/
theorem sum3_computed_update (r : Rnd2 F) (s : Skewness (RF2 r)) (x : RF2 r) :
    (s.add x).sum_3.val =
      r.fl (s.sum_3.val +
        r.fl (r.fl (r.fl (r.fl (r.fl (r.fl (x.val - s.avg.avg.avg.val)
                    * r.fl (r.fl (x.val - s.avg.avg.avg.val) / ((s.avg.avg.n + 1 : ℕ) : F)))
                  * r.fl (((s.avg.avg.n + 1 : ℕ) : F) - 1))
                * r.fl (r.fl (x.val - s.avg.avg.avg.val) / ((s.avg.avg.n + 1 : ℕ) : F)))
              * r.fl (((s.avg.avg.n + 1 : ℕ) : F) - 2))
          - r.fl (r.fl (3 * r.fl (r.fl (x.val - s.avg.avg.avg.val) / ((s.avg.avg.n + 1 : ℕ) : F)))
              * s.avg.sum_2.val))) :=
  sum3_add_val r s x

/-- The computed `A = fl(fl(fl(fl(δ·δn)·fl(k-1))·δn)·fl(k-2))` is within relative error `(1+u)^11 - 1` of
`(x-a)³(k-1)(k-2)/k²` (any `k`). -/
theorem incrementA_rounding_error (r : Rnd2 F) (x a k : F) :
    |r.fl (r.fl (r.fl (r.fl (r.fl (x - a) * r.fl (r.fl (x - a) / k)) * r.fl (k - 1))
          * r.fl (r.fl (x - a) / k)) * r.fl (k - 2))
        - (x - a)^3 * ((k - 1) * (k - 2) / k^2)|
      ≤ ((1 + r.u)^11 - 1) * |(x - a)^3 * ((k - 1) * (k - 2) / k^2)| :=
  skew_incrA_RE r.fl r.u r.u_nonneg r.err x a k

/-- The computed `B = fl(fl(3·δn)·S2)` is within relative error `(1+u)^4 - 1` of `3·((x-a)/k)·S2`. -/
theorem incrementB_rounding_error (r : Rnd2 F) (x a k S2 : F) :
    |r.fl (r.fl (3 * r.fl (r.fl (x - a) / k)) * S2) - 3 * ((x - a) / k) * S2|
      ≤ ((1 + r.u)^4 - 1) * |3 * ((x - a) / k) * S2| :=
  skew_incrB_RE r.fl r.u r.u_nonneg r.err x a k S2

/-- `(1+u)^12 - 1 ≤ 12.1·u` and `(1+u)^5 - 1 ≤ 5.1·u` for `u ≤ 1/1856`. -/
theorem twelve_and_five_roundings (u : F) (hu : 0 ≤ u) (h : u ≤ 1/1856) :
    (1 + u)^12 - 1 ≤ 121/10 * u ∧ (1 + u)^5 - 1 ≤ 51/10 * u :=
  ⟨g12_le u hu h, g5_le u hu h⟩

/-- **One step of the error recurrence.** `S3`, `S2`, `a`: computed third-order sum, sum of squares and
mean before the step; `Uv`, `Tv ≥ 0`, `μ`: their exact counterparts; `k > 0` with `c = (k-1)(k-2)/k² ≥ 0`
(true for every count `k ≥ 1`); `d = x - μ`, `e = a - μ`, `D2 = S2 - Tv`; exact increment `d³c - 3dTv/k`:
`|S3' - U'| ≤ (1+u)·(|S3 - Uv| + γ12·|d³c| + γ5·|3dTv/k| + (1+γ12)·c·(3d²|e| + 3|d|e² + |e|³)
              + (1+γ5)·(3/k)·(|d||D2| + |e|Tv + |e||D2|)) + u·|U'|`. -/
theorem sum3_step_error (r : Rnd2 F) (x a μ S2 Tv S3 Uv k : F) (hk : 0 < k)
    (hc : 0 ≤ (k - 1) * (k - 2) / k^2) (hT : 0 ≤ Tv) :
    |r.fl (S3 + r.fl (
        r.fl (r.fl (r.fl (r.fl (r.fl (x - a) * r.fl (r.fl (x - a) / k)) * r.fl (k - 1))
          * r.fl (r.fl (x - a) / k)) * r.fl (k - 2))
        - r.fl (r.fl (3 * r.fl (r.fl (x - a) / k)) * S2)))
      - (Uv + ((x - μ)^3 * ((k - 1) * (k - 2) / k^2) - 3 * (x - μ) * Tv / k))|
    ≤ (1 + r.u) * (|S3 - Uv| + ((1 + r.u)^12 - 1) * |(x - μ)^3 * ((k - 1) * (k - 2) / k^2)|
          + ((1 + r.u)^5 - 1) * |3 * (x - μ) * Tv / k|
          + (1 + ((1 + r.u)^12 - 1)) * ((k - 1) * (k - 2) / k^2
              * (3 * (x - μ)^2 * |a - μ| + 3 * |x - μ| * (a - μ)^2 + |a - μ|^3))
          + (1 + ((1 + r.u)^5 - 1)) * (3 / k
              * (|x - μ| * |S2 - Tv| + |a - μ| * Tv + |a - μ| * |S2 - Tv|)))
      + r.u * |Uv + ((x - μ)^3 * ((k - 1) * (k - 2) / k^2) - 3 * (x - μ) * Tv / k)| :=
  skew_step_error r.fl r.u r.u_nonneg r.err x a μ S2 Tv S3 Uv k hk hc hT

/-! ## all stream lengths -/

/-- **General form.** For every stream `xs`: if `E i ≥ 0` bounds the error of the running mean and
`F' i ≥ 0` the error of the computed `sum_2` after `i` observations (for every prefix of `xs`), then
`|sum_3 - U| ≤ (1+u)^n·( Σ_{i<n} [ γ12·|d_i|³c_i + γ5·3|d_i|T_i/(i+1)
     + (1+γ12)·c_i·(3d_i²E_i + 3|d_i|E_i² + E_i³) + (1+γ5)·(3/(i+1))·(|d_i|F'_i + E_i·T_i + E_i·F'_i) ]
     + n·u·V3p )`.  No bound on the data is needed here. -/
theorem sum3_forward_error_general (r : Rnd2 F) (E F' : ℕ → F) (hE0 : ∀ i, 0 ≤ E i)
    (hF0 : ∀ i, 0 ≤ F' i) (xs : List (RF2 r))
    (hE : ∀ ys, ys <+: xs →
      |(ys.foldl Mean.add Mean.new).avg.val - mean (ys.map RF2.val)| ≤ E ys.length)
    (hF : ∀ ys, ys <+: xs →
      |(ys.foldl Variance.add Variance.new).sum_2.val - T (ys.map RF2.val)| ≤ F' ys.length) :
    |(xs.foldl Skewness.add Skewness.new).sum_3.val - U (xs.map RF2.val)|
      ≤ (1 + r.u)^xs.length *
          (∑ i ∈ range (xs.map RF2.val).length,
              (((1 + r.u)^12 - 1) * (|dev (xs.map RF2.val) i|^3 * cA i)
                + ((1 + r.u)^5 - 1)
                    * (3 * |dev (xs.map RF2.val) i| * T ((xs.map RF2.val).take i) / ((i : F) + 1))
                + (1 + ((1 + r.u)^12 - 1)) * (cA i * (3 * (dev (xs.map RF2.val) i)^2 * E i
                    + 3 * |dev (xs.map RF2.val) i| * (E i)^2 + (E i)^3))
                + (1 + ((1 + r.u)^5 - 1)) * (3 / ((i : F) + 1)
                    * (|dev (xs.map RF2.val) i| * F' i + E i * T ((xs.map RF2.val).take i)
                        + E i * F' i)))
            + xs.length * r.u * V3p (xs.map RF2.val)) :=
  skew_fold_error_gen r E F' hE0 hF0 xs hE hF

/-- The hypotheses of the general form hold with `E i = (65/128)·u·M·(i + 37/4)` (`0` for `i = 0`) and
`F' i = (109/20)·i·u·T_i + (79/20)·i·u·M·R₀ + (15/4)·i³·u²·M²` when `|x_i| ≤ M`, `(n+28)·u ≤ 1/64` and
`n·T ≤ R₀²` (from `Props.C01b.mean_forward_error_sharp` and `Props.C01b.sum2_forward_error_sharp`). -/
theorem prefix_bounds (r : Rnd2 F) (M : F) (hM : 0 ≤ M) (xs : List (RF2 r))
    (hb : ∀ x ∈ xs, |x.val| ≤ M) (hsmall : ((xs.length : F) + 28) * r.u ≤ 1/64)
    (R₀ : F) (hR : 0 ≤ R₀) (hRT : (xs.length : F) * T (xs.map RF2.val) ≤ R₀^2) :
    (∀ ys, ys <+: xs →
      |(ys.foldl Mean.add Mean.new).avg.val - mean (ys.map RF2.val)|
        ≤ if ys.length = 0 then 0 else 65/128 * r.u * M * ((ys.length : F) + 37/4)) ∧
    (∀ ys, ys <+: xs →
      |(ys.foldl Variance.add Variance.new).sum_2.val - T (ys.map RF2.val)|
        ≤ (109/20 * r.u) * ys.length * T ((xs.map RF2.val).take ys.length)
          + (79/20 * r.u * M * R₀) * ys.length + (15/4 * r.u^2 * M^2) * (ys.length : F)^3) :=
  ⟨VarErr.mean_prefix_sharp r M hM xs hb hsmall, var_prefix_sharp r M hM xs hb hsmall R₀ hR hRT⟩

/-- **Forward error of `sum_3`.** Every stream of `n` observations with `|x_i| ≤ M` and
`(n+28)·u ≤ 1/64`; any `R₀ ≥ 0` with `n·T ≤ R₀²`; `N = n + 10`:
`|sum_3 - U| ≤ 7·N·u·V3p + 11·N·u·M·T + 13·u·M·R₀² + 30·N²·u²·M²·R₀ + 16·N⁴·u³·M³`. -/
theorem sum3_forward_error (r : Rnd2 F) (M : F) (hM : 0 ≤ M) (xs : List (RF2 r))
    (hb : ∀ x ∈ xs, |x.val| ≤ M) (hsmall : ((xs.length : F) + 28) * r.u ≤ 1/64)
    (R₀ : F) (hR : 0 ≤ R₀) (hRT : (xs.length : F) * T (xs.map RF2.val) ≤ R₀^2) :
    |(xs.foldl Skewness.add Skewness.new).sum_3.val - U (xs.map RF2.val)|
      ≤ 7 * ((xs.length : F) + 10) * r.u * V3p (xs.map RF2.val)
        + 11 * ((xs.length : F) + 10) * r.u * M * T (xs.map RF2.val)
        + 13 * r.u * M * R₀^2
        + 30 * ((xs.length : F) + 10)^2 * r.u^2 * M^2 * R₀
        + 16 * ((xs.length : F) + 10)^4 * r.u^3 * M^3 :=
  skew_fold_error_num r M hM xs hb hsmall R₀ hR hRT

/-- The same for streams of at least 10 observations, in terms of `n` alone:
`|sum_3 - U| ≤ 14·n·u·V3p + 22·n·u·M·T + 13·u·M·R₀² + 120·n²·u²·M²·R₀ + 256·n⁴·u³·M³`. -/
theorem sum3_forward_error_n (r : Rnd2 F) (M : F) (hM : 0 ≤ M) (xs : List (RF2 r))
    (h10 : 10 ≤ xs.length)
    (hb : ∀ x ∈ xs, |x.val| ≤ M) (hsmall : ((xs.length : F) + 28) * r.u ≤ 1/64)
    (R₀ : F) (hR : 0 ≤ R₀) (hRT : (xs.length : F) * T (xs.map RF2.val) ≤ R₀^2) :
    |(xs.foldl Skewness.add Skewness.new).sum_3.val - U (xs.map RF2.val)|
      ≤ 14 * xs.length * r.u * V3p (xs.map RF2.val)
        + 22 * xs.length * r.u * M * T (xs.map RF2.val)
        + 13 * r.u * M * R₀^2
        + 120 * (xs.length : F)^2 * r.u^2 * M^2 * R₀
        + 256 * (xs.length : F)^4 * r.u^3 * M^3 := by
  refine le_trans (skew_fold_error_num r M hM xs hb hsmall R₀ hR hRT) ?_
  have hu := r.u_nonneg
  have hn : (10 : F) ≤ xs.length := by exact_mod_cast h10
  have hN : (xs.length : F) + 10 ≤ 2 * xs.length := by linarith
  have hV := V3p_nonneg (xs.map RF2.val)
  have hT := T_nonneg (xs.map RF2.val)
  have h1 : 7 * ((xs.length : F) + 10) * r.u * V3p (xs.map RF2.val)
      ≤ 7 * (2 * xs.length) * r.u * V3p (xs.map RF2.val) := by gcongr
  have h2 : 11 * ((xs.length : F) + 10) * r.u * M * T (xs.map RF2.val)
      ≤ 11 * (2 * xs.length) * r.u * M * T (xs.map RF2.val) := by gcongr
  have h3 : 30 * ((xs.length : F) + 10)^2 * r.u^2 * M^2 * R₀
      ≤ 30 * (2 * xs.length)^2 * r.u^2 * M^2 * R₀ := by gcongr
  have h4 : 16 * ((xs.length : F) + 10)^4 * r.u^3 * M^3
      ≤ 16 * (2 * xs.length)^4 * r.u^3 * M^3 := by gcongr
  nlinarith

/-- **Fully closed form.** Moreover `S₀ ≥ 0` with `T ≤ S₀²`:
`|sum_3 - U| ≤ 25·N·u·M·T + 21·N·u·T·S₀ + 13·u·M·R₀² + 30·N²·u²·M²·R₀ + 16·N⁴·u³·M³`. -/
theorem sum3_forward_error_closed (r : Rnd2 F) (M : F) (hM : 0 ≤ M) (xs : List (RF2 r))
    (hb : ∀ x ∈ xs, |x.val| ≤ M) (hsmall : ((xs.length : F) + 28) * r.u ≤ 1/64)
    (S₀ : F) (hS : 0 ≤ S₀) (hST : T (xs.map RF2.val) ≤ S₀^2)
    (R₀ : F) (hR : 0 ≤ R₀) (hRT : (xs.length : F) * T (xs.map RF2.val) ≤ R₀^2) :
    |(xs.foldl Skewness.add Skewness.new).sum_3.val - U (xs.map RF2.val)|
      ≤ 25 * ((xs.length : F) + 10) * r.u * M * T (xs.map RF2.val)
        + 21 * ((xs.length : F) + 10) * r.u * T (xs.map RF2.val) * S₀
        + 13 * r.u * M * R₀^2
        + 30 * ((xs.length : F) + 10)^2 * r.u^2 * M^2 * R₀
        + 16 * ((xs.length : F) + 10)^4 * r.u^3 * M^3 :=
  skew_fold_error_closed r M hM xs hb hsmall S₀ hS hST R₀ hR hRT

/-- **Envelope form, linear in the conditioning.** If `σ ≥ 0` with `T ≤ n·σ²` (`σ` at least the
population standard deviation) and `N·u·M ≤ σ`, then
`|sum_3 - U| ≤ 7·N·u·V3p + 70·N²·u·M·σ²`  - that is `70·N·u·(M/σ)` relative to the scale `N·σ³`. -/
theorem sum3_envelope (r : Rnd2 F) (M : F) (hM : 0 ≤ M) (xs : List (RF2 r))
    (hb : ∀ x ∈ xs, |x.val| ≤ M) (hsmall : ((xs.length : F) + 28) * r.u ≤ 1/64)
    (σ : F) (hσ : 0 ≤ σ) (hvar : T (xs.map RF2.val) ≤ xs.length * σ^2)
    (hcond : ((xs.length : F) + 10) * r.u * M ≤ σ) :
    |(xs.foldl Skewness.add Skewness.new).sum_3.val - U (xs.map RF2.val)|
      ≤ 7 * ((xs.length : F) + 10) * r.u * V3p (xs.map RF2.val)
        + 70 * ((xs.length : F) + 10)^2 * r.u * M * σ^2 :=
  skew_envelope r M hM xs hb hsmall σ hσ hvar hcond

/-- Over ℝ with `R₀ = sqrt(n·T)`:
`|sum_3 - U| ≤ 7·N·u·V3p + 24·N·u·M·T + 30·N²·u²·M²·sqrt(n·T) + 16·N⁴·u³·M³`. -/
theorem sum3_forward_error_sqrt (r : Rnd2 ℝ) (M : ℝ) (hM : 0 ≤ M) (xs : List (RF2 r))
    (hb : ∀ x ∈ xs, |x.val| ≤ M) (hsmall : ((xs.length : ℝ) + 28) * r.u ≤ 1/64) :
    |(xs.foldl Skewness.add Skewness.new).sum_3.val - U (xs.map RF2.val)|
      ≤ 7 * ((xs.length : ℝ) + 10) * r.u * V3p (xs.map RF2.val)
        + 24 * ((xs.length : ℝ) + 10) * r.u * M * T (xs.map RF2.val)
        + 30 * ((xs.length : ℝ) + 10)^2 * r.u^2 * M^2
            * Real.sqrt (xs.length * T (xs.map RF2.val))
        + 16 * ((xs.length : ℝ) + 10)^4 * r.u^3 * M^3 := by
  have hnT : 0 ≤ (xs.length : ℝ) * T (xs.map RF2.val) :=
    mul_nonneg (Nat.cast_nonneg _) (T_nonneg _)
  have hsq := Real.sq_sqrt hnT
  have h := skew_fold_error_num r M hM xs hb hsmall _ (Real.sqrt_nonneg _) (le_of_eq hsq.symm)
  rw [hsq] at h
  refine le_trans h ?_
  have hu := r.u_nonneg
  have hn0 : (0 : ℝ) ≤ xs.length := Nat.cast_nonneg _
  have hT0 := T_nonneg (xs.map RF2.val)
  have : 13 * r.u * M * ((xs.length : ℝ) * T (xs.map RF2.val))
      ≤ 13 * ((xs.length : ℝ) + 10) * r.u * M * T (xs.map RF2.val) := by
    have : 0 ≤ r.u * M * T (xs.map RF2.val) := by positivity
    nlinarith
  linarith

/-! ## the scale of the envelope of DESIGN.md: `V3 = Σ|x - mean|³` -/

omit [IsStrictOrderedRing F] in
/-- `V3` is the sum of the absolute cubed deviations from the exact mean (`n` times `ν_3`). -/
theorem V3_def (vs : List F) : V3 vs = (vs.map (fun x => |x - mean vs|^3)).sum := rfl

/-- **Hardy's inequality for the exponent 3**, any ordered field: for `a_i ≥ 0`,
`Σ_{m<M} ((a_0 + … + a_m)/(m+1))³ ≤ (27/8)·Σ_{m<M} a_m³`. -/
theorem hardy_cube (a : ℕ → F) (ha : ∀ i, 0 ≤ a i) (M : ℕ) :
    ∑ m ∈ range M, ((∑ i ∈ range (m + 1), a i) / ((m + 1 : ℕ) : F))^3
      ≤ 27/8 * ∑ m ∈ range M, (a m)^3 :=
  hardy3 ha M

/-- **Copson's inequality for the exponent 3**, any ordered field: for `b_k ≥ 0`,
`Σ_{i<n} (Σ_{i<k<n} b_k/k)³ ≤ 27·Σ_{i<n} b_{i+1}³`. -/
theorem copson_cube (b : ℕ → F) (hb : ∀ k, 0 ≤ b k) (n : ℕ) :
    ∑ i ∈ range n, (∑ k ∈ Ico (i + 1) n, b k / (k : F))^3 ≤ 27 * ∑ i ∈ range n, (b (i + 1))^3 :=
  copson3 hb n

/-- The natural scale of the rounding errors is at most 40 times `Σ|x - mean|³`:
`VA ≤ (35/2)·V3`, `VB ≤ (45/2)·V3`, `V3p ≤ 40·V3`. No hypothesis on the data. -/
theorem V3p_le_V3 (vs : List F) :
    VA vs ≤ 35/2 * V3 vs ∧ VB vs ≤ 45/2 * V3 vs ∧ V3p vs ≤ 40 * V3 vs :=
  ⟨VA_le_V3 vs, VB_le_V3 vs, SkewErr.V3p_le_V3 vs⟩

/-- Power mean: `T³ ≤ n·V3²`; hence `n·σ³ ≤ V3` for every `σ` with `n·σ² ≤ T`. -/
theorem T_cube_le (vs : List F) :
    (T vs)^3 ≤ (vs.length : F) * (V3 vs)^2
      ∧ ∀ σ : F, (vs.length : F) * σ^2 ≤ T vs → (vs.length : F) * σ^3 ≤ V3 vs :=
  ⟨SkewErr.T_cube_le vs, fun σ h => sigma_cube_le vs σ h⟩

/-- **Forward error of `sum_3` in the scale `V3`.** `|x_i| ≤ M`, `(n+28)·u ≤ 1/64`, `n·T ≤ R₀²`:
`|sum_3 - U| ≤ 280·N·u·V3 + 11·N·u·M·T + 13·u·M·R₀² + 30·N²·u²·M²·R₀ + 16·N⁴·u³·M³`. -/
theorem sum3_forward_error_V3 (r : Rnd2 F) (M : F) (hM : 0 ≤ M) (xs : List (RF2 r))
    (hb : ∀ x ∈ xs, |x.val| ≤ M) (hsmall : ((xs.length : F) + 28) * r.u ≤ 1/64)
    (R₀ : F) (hR : 0 ≤ R₀) (hRT : (xs.length : F) * T (xs.map RF2.val) ≤ R₀^2) :
    |(xs.foldl Skewness.add Skewness.new).sum_3.val - U (xs.map RF2.val)|
      ≤ 280 * ((xs.length : F) + 10) * r.u * V3 (xs.map RF2.val)
        + 11 * ((xs.length : F) + 10) * r.u * M * T (xs.map RF2.val)
        + 13 * r.u * M * R₀^2
        + 30 * ((xs.length : F) + 10)^2 * r.u^2 * M^2 * R₀
        + 16 * ((xs.length : F) + 10)^4 * r.u^3 * M^3 :=
  skew_fold_error_V3 r M hM xs hb hsmall R₀ hR hRT

/-- **Envelope in the scale `V3 = n·ν_3`.** `n ≥ 1`, `σ > 0` with `n·σ² = T` (the population standard
deviation), `N·u·M ≤ σ`:  `|sum_3 - U| ≤ N·u·V3·(280 + 70·(N/n)·(M/σ))`. -/
theorem sum3_envelope_V3 (r : Rnd2 F) (M : F) (hM : 0 ≤ M) (xs : List (RF2 r)) (hne : xs ≠ [])
    (hb : ∀ x ∈ xs, |x.val| ≤ M) (hsmall : ((xs.length : F) + 28) * r.u ≤ 1/64)
    (σ : F) (hσ : 0 < σ) (hvar : (xs.length : F) * σ^2 = T (xs.map RF2.val))
    (hcond : ((xs.length : F) + 10) * r.u * M ≤ σ) :
    |(xs.foldl Skewness.add Skewness.new).sum_3.val - U (xs.map RF2.val)|
      ≤ ((xs.length : F) + 10) * r.u * V3 (xs.map RF2.val)
          * (280 + 70 * (((xs.length : F) + 10) / (xs.length : F)) * (M / σ)) :=
  skew_envelope_V3 r M hM xs hne hb hsmall σ hσ hvar hcond

/-- **The envelope clause of C03 for the state component `sum_3`, in the words of DESIGN.md section 5.**
Over ℝ, for `n ≥ 10` observations with `|x_i| ≤ M`, exact variance `var = T/n > 0`, `σ = sqrt(var)`,
`κ = 1 + M/σ`, `(n+28)·u ≤ 1/64` and `(n+10)·u·M ≤ σ`:
`|sum_3 - Σ(x - mean)³| ≤ 280·(n+10)·κ·u·Σ|x - mean|³`. -/
theorem sum3_envelope_kappa (r : Rnd2 ℝ) (M : ℝ) (hM : 0 ≤ M) (xs : List (RF2 r))
    (h10 : 10 ≤ xs.length) (hb : ∀ x ∈ xs, |x.val| ≤ M)
    (hsmall : ((xs.length : ℝ) + 28) * r.u ≤ 1/64)
    (hpos : 0 < T (xs.map RF2.val) / (xs.length : ℝ))
    (hcond : ((xs.length : ℝ) + 10) * r.u * M
      ≤ Real.sqrt (T (xs.map RF2.val) / (xs.length : ℝ))) :
    |(xs.foldl Skewness.add Skewness.new).sum_3.val - U (xs.map RF2.val)|
      ≤ 280 * ((xs.length : ℝ) + 10)
          * (1 + M / Real.sqrt (T (xs.map RF2.val) / (xs.length : ℝ))) * r.u
          * V3 (xs.map RF2.val) := by
  have hne : xs ≠ [] := by intro h; rw [h] at h10; simp at h10
  have hn10 : (10 : ℝ) ≤ xs.length := by exact_mod_cast h10
  have hnpos : (0 : ℝ) < xs.length := by linarith
  set v := T (xs.map RF2.val) / (xs.length : ℝ) with hv
  have hσpos : 0 < Real.sqrt v := Real.sqrt_pos.mpr hpos
  have hsq : Real.sqrt v ^ 2 = v := Real.sq_sqrt hpos.le
  have hvar : (xs.length : ℝ) * Real.sqrt v ^ 2 = T (xs.map RF2.val) := by
    rw [hsq, hv]; field_simp
  have h := skew_envelope_V3 r M hM xs hne hb hsmall (Real.sqrt v) hσpos hvar hcond
  refine le_trans h ?_
  have hu := r.u_nonneg
  have hV := V3_nonneg (xs.map RF2.val)
  have hq : ((xs.length : ℝ) + 10) / (xs.length : ℝ) ≤ 2 := by
    rw [div_le_iff₀ hnpos]; linarith
  have hMσ : 0 ≤ M / Real.sqrt v := by positivity
  have hc : 280 + 70 * (((xs.length : ℝ) + 10) / (xs.length : ℝ)) * (M / Real.sqrt v)
      ≤ 280 * (1 + M / Real.sqrt v) := by
    have : 70 * (((xs.length : ℝ) + 10) / (xs.length : ℝ)) * (M / Real.sqrt v)
        ≤ 70 * 2 * (M / Real.sqrt v) := by gcongr
    linarith
  calc ((xs.length : ℝ) + 10) * r.u * V3 (xs.map RF2.val)
        * (280 + 70 * (((xs.length : ℝ) + 10) / (xs.length : ℝ)) * (M / Real.sqrt v))
      ≤ ((xs.length : ℝ) + 10) * r.u * V3 (xs.map RF2.val) * (280 * (1 + M / Real.sqrt v)) := by
        gcongr
    _ = 280 * ((xs.length : ℝ) + 10) * (1 + M / Real.sqrt v) * r.u * V3 (xs.map RF2.val) := by
        ring

/-! ## Non-vacuity -/

/-- a short, strongly skewed stream with a large offset: deviations `-1, -3, -2, 6` from the mean 1002 -/
def exStream : List (RF2 Props.C02b.awayRnd) := [⟨1001⟩, ⟨999⟩, ⟨1000⟩, ⟨1008⟩]

theorem exStream_T : T (exStream.map RF2.val) = 50 := by
  norm_num [exStream, T, sumPow, mean]

theorem exStream_U : U (exStream.map RF2.val) = 180 := by
  norm_num [exStream, U, sumPow, mean]

/-- the scale: only the last observation contributes, `192 + 12` (while `U = 192 - 12`) -/
theorem exStream_V3p : V3p (exStream.map RF2.val) = 204 := by
  norm_num [exStream, V3p, VA, VB, incA, incB, cA, dev, T, sumPow, mean, Finset.sum_range_succ]

/-- `Σ|x - mean|³ = 1 + 27 + 8 + 216`; indeed `V3p = 204 ≤ 40·252` -/
theorem exStream_V3 : V3 (exStream.map RF2.val) = 252 := by
  norm_num [exStream, V3, mean, abs_of_nonneg, abs_of_neg]

/-- the hypotheses of `sum3_forward_error` and `sum3_forward_error_closed` are met by `exStream` with
`M = 1008`, `u = 2^-53`, `R₀ = 15` (`n·T = 200 ≤ 225`), `S₀ = 8` (`T = 50 ≤ 64`) -/
example : (∀ x ∈ exStream, |x.val| ≤ 1008)
    ∧ ((exStream.length : ℚ) + 28) * Props.C02b.awayRnd.u ≤ 1/64
    ∧ (exStream.length : ℚ) * T (exStream.map RF2.val) ≤ 15^2
    ∧ T (exStream.map RF2.val) ≤ 8^2 := by
  refine ⟨?_, ?_, ?_, ?_⟩
  · intro x hx
    simp only [exStream, List.mem_cons, List.not_mem_nil, or_false] at hx
    rcases hx with rfl | rfl | rfl | rfl <;> norm_num
  · norm_num [exStream, Props.C02b.awayRnd]
  · rw [exStream_T]; norm_num [exStream]
  · rw [exStream_T]; norm_num

/-- and the conclusion is a concrete statement about a computation with 72 rounded operations (18 per observation) under a
rounding that is never exact: the computed `sum_3` is within
`7·14·u·204 + 11·14·u·1008·50 + 13·u·1008·225 + …` (about `1.1·10^7·u ≈ 1.2·10^-9`) of the exact
`U = 180`. -/
example : |(exStream.foldl Skewness.add Skewness.new).sum_3.val - 180|
    ≤ 7 * 14 * (1/2^53) * 204 + 11 * 14 * (1/2^53) * 1008 * 50 + 13 * (1/2^53) * 1008 * 15^2
      + 30 * 14^2 * (1/2^53)^2 * 1008^2 * 15 + 16 * (14:ℚ)^4 * (1/2^53)^3 * 1008^3 := by
  have h := sum3_forward_error Props.C02b.awayRnd 1008 (by norm_num) exStream
    (by intro x hx
        simp only [exStream, List.mem_cons, List.not_mem_nil, or_false] at hx
        rcases hx with rfl | rfl | rfl | rfl <;> norm_num)
    (by norm_num [exStream, Props.C02b.awayRnd]) 15 (by norm_num)
    (by rw [exStream_T]; norm_num [exStream])
  rw [exStream_T, exStream_U, exStream_V3p] at h
  have hl : (exStream.length : ℚ) + 10 = 14 := by norm_num [exStream]
  have hu : Props.C02b.awayRnd.u = 1/2^53 := rfl
  rw [hl, hu] at h
  exact h

/-- the hypotheses of the general form are satisfiable non-trivially: for `exStream` they hold with the
`E`, `F'` of `prefix_bounds` -/
example : (∀ ys, ys <+: exStream →
      |(ys.foldl Mean.add Mean.new).avg.val - mean (ys.map RF2.val)|
        ≤ if ys.length = 0 then 0
          else 65/128 * Props.C02b.awayRnd.u * 1008 * ((ys.length : ℚ) + 37/4)) :=
  (prefix_bounds Props.C02b.awayRnd 1008 (by norm_num) exStream
    (by intro x hx
        simp only [exStream, List.mem_cons, List.not_mem_nil, or_false] at hx
        rcases hx with rfl | rfl | rfl | rfl <;> norm_num)
    (by norm_num [exStream, Props.C02b.awayRnd]) 15 (by norm_num)
    (by rw [exStream_T]; norm_num [exStream])).1

/-- a second skewed stream whose population standard deviation is rational: deviations `-1,-1,-1,-1,4`
from the mean 1000, `T = 20 = 5·2²`, `U = 60`, `V3 = 68` -/
def exStream2 : List (RF2 Props.C02b.awayRnd) := [⟨999⟩, ⟨999⟩, ⟨999⟩, ⟨999⟩, ⟨1004⟩]

theorem exStream2_vals : T (exStream2.map RF2.val) = 20 ∧ U (exStream2.map RF2.val) = 60
    ∧ V3 (exStream2.map RF2.val) = 68 := by
  refine ⟨?_, ?_, ?_⟩
  · norm_num [exStream2, T, sumPow, mean]
  · norm_num [exStream2, U, sumPow, mean]
  · norm_num [exStream2, V3, mean, abs_of_nonneg, abs_of_neg]

/-- the hypotheses of `sum3_envelope_V3` are met by `exStream2` with `M = 1004`, `σ = 2`, and the
conclusion bounds the error of a computation with 90 rounded operations by
`15·u·68·(280 + 70·3·502)` (about `1.1·10^8·u ≈ 1.2·10^-8`) around the exact `U = 60` -/
example : |(exStream2.foldl Skewness.add Skewness.new).sum_3.val - 60|
    ≤ 15 * (1/2^53) * 68 * (280 + 70 * (15 / 5) * (1004 / 2)) := by
  obtain ⟨hT, hU, hV⟩ := exStream2_vals
  have h := sum3_envelope_V3 Props.C02b.awayRnd 1004 (by norm_num) exStream2 (by simp [exStream2])
    (by intro x hx
        simp only [exStream2, List.mem_cons, List.not_mem_nil, or_false] at hx
        rcases hx with rfl | rfl | rfl | rfl | rfl <;> norm_num)
    (by norm_num [exStream2, Props.C02b.awayRnd]) 2 (by norm_num)
    (by rw [hT]; norm_num [exStream2])
    (by norm_num [exStream2, Props.C02b.awayRnd])
  rw [hU, hV] at h
  have hl : (exStream2.length : ℚ) = 5 := by norm_num [exStream2]
  have hu : Props.C02b.awayRnd.u = 1/2^53 := rfl
  rw [hl, hu] at h
  norm_num at h ⊢
  exact h

end Props.C03b

#print axioms Props.C03b.inner_variance_bitwise
#print axioms Props.C03b.U_def
#print axioms Props.C03b.sum3_exact
#print axioms Props.C03b.sum3_exact_recurrence
#print axioms Props.C03b.V3p_def
#print axioms Props.C03b.abs_U_le_V3p
#print axioms Props.C03b.V3p_closed_bound
#print axioms Props.C03b.sum3_computed_update
#print axioms Props.C03b.incrementA_rounding_error
#print axioms Props.C03b.incrementB_rounding_error
#print axioms Props.C03b.twelve_and_five_roundings
#print axioms Props.C03b.sum3_step_error
#print axioms Props.C03b.sum3_forward_error_general
#print axioms Props.C03b.prefix_bounds
#print axioms Props.C03b.sum3_forward_error
#print axioms Props.C03b.sum3_forward_error_n
#print axioms Props.C03b.sum3_forward_error_closed
#print axioms Props.C03b.sum3_envelope
#print axioms Props.C03b.sum3_forward_error_sqrt
#print axioms Props.C03b.V3_def
#print axioms Props.C03b.hardy_cube
#print axioms Props.C03b.copson_cube
#print axioms Props.C03b.V3p_le_V3
#print axioms Props.C03b.T_cube_le
#print axioms Props.C03b.sum3_forward_error_V3
#print axioms Props.C03b.sum3_envelope_V3
#print axioms Props.C03b.sum3_envelope_kappa
