import AvgProofs.RoundQ
import AvgProofs.RoundQExample
import AvgProofs.QuantileRound
import Props.C05

/-!
# C05b - `Quantile` follows the P² algorithm under ROUNDED arithmetic

`Props.C05.run_eq_psqRun_of_sorted` proves "model run = P² specification run" on every ordered
carrier with arbitrary arithmetic, with the sortedness of the marker heights after every prefix as a
hypothesis; `Props.C05.run_eq_psqRun` discharges that hypothesis in exact arithmetic. Here it is
discharged for floating-point-like arithmetic.

Carrier `RQ r` (`AvgProofs/RoundQ.lean`): values in an ordered field `K`; each of `+ - * /` is the
exact operation followed by the rounding `r.fl`; `r : RndQ K` is ANY monotone idempotent map with
relative error `|fl t - t| ≤ u |t|`, `0 ≤ u ≤ 1/4` (round-to-nearest, directed roundings, any
precision ≥ 2 bits, no underflow/overflow; `fl` need not be odd); integer casts exact (marker
positions and their differences are small integers); the order is the order of the values; the
`FloatOps (RQ r)` instance is arbitrary subject to `OrdLaws` (comparisons are the order's).
`Rep x` : `x` is representable, `r.fl x.val = x.val`. Observations are assumed representable (they
are `f64` values); every stored height is an observation or the result of a rounded operation.

`Sorted5`, `StrictIncr5` as in C05; `Rep5 q` : all five heights representable.
-/
open Avg Avg.Spec RQ
set_option linter.unusedSectionVars false

namespace Props.C05b

section rounded
variable {K : Type} [Field K] [LinearOrder K] [IsStrictOrderedRing K] {r : RndQ K}

/-- The rounded linear step in direction `d = sg = ±1` (four rounded operations: `q[j] - q[i]`,
`d * ·`, `· / (n[j] - n[i])`, `q[i] + ·`): if the neighbour `j` in that direction and marker `i` have
representable heights ordered as the direction says, and the position gap is at least 2 in modulus
(which is what the guards `n[i+1]-n[i] > 1`, `n[i-1]-n[i] < -1` give), the new height lies between
the two old heights. -/
theorem linear_between_rounded (s : Quantile (RQ r)) (i : Nat) (sg : Int) (hsg : sg = 1 ∨ sg = -1)
    (hn : 2 ≤ |s.n.get (if sg < 0 then i - 1 else i + 1) - s.n.get i|)
    (hdir : 0 ≤ sg * (s.n.get (if sg < 0 then i - 1 else i + 1) - s.n.get i))
    (hord : if sg < 0 then s.q.get (i-1) ≤ s.q.get i else s.q.get i ≤ s.q.get (i+1))
    (hri : Rep (s.q.get i)) (hrj : Rep (s.q.get (if sg < 0 then i - 1 else i + 1))) :
    min (s.q.get i) (s.q.get (if sg < 0 then i - 1 else i + 1)) ≤ s.linear i sg
    ∧ s.linear i sg ≤ max (s.q.get i) (s.q.get (if sg < 0 then i - 1 else i + 1)) :=
  Avg.linear_between_rounded s i sg hsg hn hdir hord hri hrj

variable [FloatOps (RQ r)] [OrdLaws (RQ r)]

/-- `move` in rounded arithmetic: the new height of marker `i` (the parabolic candidate if its
rounded value is strictly between the neighbours, else the rounded linear step) is representable
and, when the guard of the respective direction holds, lies between `q[i-1]` and `q[i+1]`. -/
theorem move_between_rounded (s : Quantile (RQ r)) (i : Nat) (hm : s.q.get (i-1) ≤ s.q.get i)
    (hq : s.q.get i ≤ s.q.get (i+1)) (hrm : Rep (s.q.get (i-1))) (hri : Rep (s.q.get i))
    (hrp : Rep (s.q.get (i+1))) :
    (2 ≤ s.n.get (i+1) - s.n.get i →
      s.q.get (i-1) ≤ s.moveVal i 1 ∧ s.moveVal i 1 ≤ s.q.get (i+1) ∧ Rep (s.moveVal i 1))
    ∧ (s.n.get (i-1) - s.n.get i ≤ -2 →
      s.q.get (i-1) ≤ s.moveVal i (-1) ∧ s.moveVal i (-1) ≤ s.q.get (i+1) ∧ Rep (s.moveVal i (-1))) := by
  constructor
  · intro hn
    have := moveVal_up_between_rounded s i hm hq hn hri hrp
    exact ⟨this.1, this.2, moveVal_rep s i 1⟩
  · intro hn
    have := moveVal_down_between_rounded s i hm hq hn hri hrm
    exact ⟨this.1, this.2, moveVal_rep s i (-1)⟩

/-- Box B.3 in rounded arithmetic keeps heights sorted, positions strictly increasing and heights
representable, for each of the three interior markers. -/
theorem adjust_sorted_rounded (s : Quantile (RQ r)) {i : Nat} (hi : i = 1 ∨ i = 2 ∨ i = 3)
    (hq : Sorted5 s.q) (hn : StrictIncr5 s.n) (hr : Rep5 s.q) :
    Sorted5 (s.adjust i).q ∧ StrictIncr5 (s.adjust i).n ∧ Rep5 (s.adjust i).q :=
  adjust_inv_rounded s hi hq hn hr

/-- One representable observation in the second phase keeps heights sorted, positions strictly
increasing and heights representable (rounded arithmetic). -/
theorem add_sorted_rounded (s : Quantile (RQ r)) (x : RQ r) (h5 : 5 ≤ s.n.a4) (hq : Sorted5 s.q)
    (hn : StrictIncr5 s.n) (hr : Rep5 s.q) (hx : Rep x) :
    Sorted5 (s.add x).q ∧ StrictIncr5 (s.add x).n ∧ Rep5 (s.add x).q :=
  add_inv_rounded s x h5 hq hn hr hx

/-- Rounded arithmetic, every `p` accepted by `new`, every stream of at least five representable
observations: after the stream the heights are sorted and representable and the positions strictly
increasing. -/
theorem run_sorted_rounded (p : RQ r) (s0 : Quantile (RQ r)) (h0 : Quantile.new p = .val s0)
    (xs : List (RQ r)) (hlen : 5 ≤ xs.length) (hrep : ∀ x ∈ xs, Rep x) :
    Sorted5 (xs.foldl Quantile.add s0).q ∧ StrictIncr5 (xs.foldl Quantile.add s0).n
    ∧ Rep5 (xs.foldl Quantile.add s0).q := by
  rw [new_val h0]
  obtain ⟨a, b, c, _⟩ := run_inv_rounded p xs hlen hrep
  exact ⟨a, b, c⟩

/-- Rounded arithmetic: for every rounding `r : RndQ K`, every `p` accepted by `new` and every stream
of at least five representable observations, the model's state after the stream - heights,
positions, desired positions, increments, count - IS the state of the P² algorithm (run with the
same rounded arithmetic) on the same stream. No sortedness side condition. -/
theorem run_eq_psqRun_rounded (p : RQ r) (s0 : Quantile (RQ r)) (h0 : Quantile.new p = .val s0)
    (xs : List (RQ r)) (hlen : 5 ≤ xs.length) (hrep : ∀ x ∈ xs, Rep x) :
    (xs.foldl Quantile.add s0).toPSq = psqRun p xs := by
  apply Props.C05.run_eq_psqRun_of_sorted p s0 h0 xs hlen
  intro k hk hk'
  exact (run_sorted_rounded p s0 h0 (xs.take k) (by simp; omega)
    (fun x hx => hrep x (List.mem_of_mem_take hx))).1

/-- ... in particular `quantile()` is the (rounded) height of P²'s middle marker. -/
theorem quantile_eq_psqRun_rounded (p : RQ r) (s0 : Quantile (RQ r)) (h0 : Quantile.new p = .val s0)
    (xs : List (RQ r)) (hlen : 5 ≤ xs.length) (hrep : ∀ x ∈ xs, Rep x) :
    (xs.foldl Quantile.add s0).quantile = (psqRun p xs).q.a2 := by
  have h := run_eq_psqRun_rounded p s0 h0 xs hlen hrep
  have hn := (Props.C05.n0_eq_one_run p s0 h0 xs).2
  have hq : (xs.foldl Quantile.add s0).q = (psqRun p xs).q := congrArg PSq.q h
  rw [← hq]
  exact quantile_large _ (by rw [hn]; exact_mod_cast hlen)

end rounded

/-! ## the hypotheses are satisfiable -/
section examples

/-- the laws of `RndQ` are satisfiable by a genuinely rounding map: `floorRnd` (all rationals below
4, only integers from 4 on, rounding down; `fl (9/2) = 4`) -/
example : ∃ r : RndQ ℚ, r.fl (9 / 2) ≠ 9 / 2 := ⟨floorRnd, floorRnd_nontrivial.2⟩

/-- ... and by exact arithmetic (`fl = id`, `u = 0`), so C05b contains C05's exact statement over ℚ. -/
example : ∃ r : RndQ ℚ, ∀ t, r.fl t = t := ⟨idRnd, fun _ => rfl⟩

/-- the carrier's division really rounds: 9 / 2 = 4 on `RQ floorRnd` -/
example : ((⟨9⟩ : RQ floorRnd) / ⟨2⟩).val = 4 := floorRnd_nontrivial.1

@[reducible] def rqOps : FloatOps (RQ floorRnd) := RQ.floatOps (fun x => ⌈x.val⌉)
attribute [local instance] rqOps
local instance : OrdLaws (RQ floorRnd) := RQ.floatOps_laws _

/-- the stream 12, 11, ..., 1 of representable numbers (integers) -/
def demo : List (RQ floorRnd) := (List.range 12).map (fun i => ⟨((12 - i : ℤ) : ℚ)⟩)

/-- `new (1/2)` succeeds on `RQ floorRnd`, the stream 12, 11, ..., 1 has at least five
observations and all of them are representable: the hypotheses of `run_eq_psqRun_rounded` hold, and
so does its conclusion. -/
example : ∃ s0, Quantile.new (⟨1/2⟩ : RQ floorRnd) = .val s0 ∧ 5 ≤ demo.length ∧ (∀ x ∈ demo, Rep x)
    ∧ (demo.foldl Quantile.add s0).toPSq = psqRun ⟨1/2⟩ demo := by
  have hnew : Quantile.new (⟨1/2⟩ : RQ floorRnd) = .val (Quantile.init ⟨1/2⟩) := by
    rw [new_eq]
    have : (fle ((0:Nat) : RQ floorRnd) ⟨1/2⟩ && fle ⟨1/2⟩ ((1:Nat) : RQ floorRnd)) = true := by
      simp only [Bool.and_eq_true, fle_iff, RQ.le_iff, RQ.natCast_val]; norm_num
    rw [if_pos this]
  have hlen : 5 ≤ demo.length := by simp [demo]
  have hrep : ∀ x ∈ demo, Rep x := by
    intro x hx
    simp only [demo, List.mem_map] at hx
    obtain ⟨i, _, rfl⟩ := hx
    exact floorRnd_rep_int _
  exact ⟨_, hnew, hlen, hrep, run_eq_psqRun_rounded _ _ hnew _ hlen hrep⟩

end examples

end Props.C05b

#print axioms Props.C05b.linear_between_rounded
#print axioms Props.C05b.move_between_rounded
#print axioms Props.C05b.adjust_sorted_rounded
#print axioms Props.C05b.add_sorted_rounded
#print axioms Props.C05b.run_sorted_rounded
#print axioms Props.C05b.run_eq_psqRun_rounded
#print axioms Props.C05b.quantile_eq_psqRun_rounded
