import AvgProofs.MomentsTree
import AvgProofs.MomentsFold

/-!
# C02 - `merge` is equivalent to having seen the concatenated data (Mean, Variance, Skewness, Kurtosis)

Carrier E (any field of characteristic 0): exact arithmetic. `MSpec.mean xs = Σx/n`,
`MSpec.sumPow xs c p = Σ (x-c)^p`; the canonical state of a sequence is
(n, mean, Σ(x-mean)², Σ(x-mean)³, Σ(x-mean)⁴) (`canonK`; `canonS`, `canonV`, `canonMean` are its
prefixes). `MTree` (`AvgProofs/MTree.lean`) is an arbitrary order-preserving binary merge tree whose
leaves are contiguous chunks (empty and one-element chunks allowed); `X.evalTree t` summarises each
leaf with `X.add` from `X.new` and combines with `X.merge` along the tree.

The `define_moments!` estimators are treated in C04 (same `MTree`). The forward-error envelope in
floating point is measured by the harness, not proved (DESIGN.md section 6, C02 "Partial").
-/
open Avg MSpec

namespace Props.C02
variable {K : Type} [Field K] [CharZero K]

/-! ## one merge -/

/-- Kurtosis: merging the exact summaries of two sequences (either may be empty) gives the exact
summary of their concatenation - count, mean and the second, third, fourth central sums. -/
theorem kurtosis_merge_canon (xs ys : List K) :
    (canonK xs).merge (canonK ys) = canonK (xs ++ ys) := kurtosis_merge xs ys

/-- Skewness: the same for (n, mean, Σ(x-μ)², Σ(x-μ)³). -/
theorem skewness_merge_canon (xs ys : List K) :
    (⟨⟨⟨mean xs, xs.length⟩, sumPow xs (mean xs) 2⟩, sumPow xs (mean xs) 3⟩ : Skewness K).merge
        ⟨⟨⟨mean ys, ys.length⟩, sumPow ys (mean ys) 2⟩, sumPow ys (mean ys) 3⟩
      = ⟨⟨⟨mean (xs ++ ys), (xs ++ ys).length⟩, sumPow (xs ++ ys) (mean (xs ++ ys)) 2⟩,
          sumPow (xs ++ ys) (mean (xs ++ ys)) 3⟩ := skewness_merge xs ys

/-- Variance: the same for (n, mean, Σ(x-μ)²). -/
theorem variance_merge_canon (xs ys : List K) :
    (⟨⟨mean xs, xs.length⟩, sumPow xs (mean xs) 2⟩ : Variance K).merge
        ⟨⟨mean ys, ys.length⟩, sumPow ys (mean ys) 2⟩
      = ⟨⟨mean (xs ++ ys), (xs ++ ys).length⟩, sumPow (xs ++ ys) (mean (xs ++ ys)) 2⟩ :=
  variance_merge xs ys

/-- Mean: the same for (n, mean). -/
theorem mean_merge_canon (xs ys : List K) :
    (⟨mean xs, xs.length⟩ : Mean K).merge ⟨mean ys, ys.length⟩
      = ⟨mean (xs ++ ys), (xs ++ ys).length⟩ := mean_merge xs ys

/-- Summarise two sequences independently (one observation at a time) and merge: exactly the state
of the single pass over the concatenation. All four estimators, all sequences (empty included). -/
theorem merge_fold (xs ys : List K) :
    (xs.foldl Mean.add Mean.new).merge (ys.foldl Mean.add Mean.new)
        = (xs ++ ys).foldl Mean.add Mean.new
    ∧ (xs.foldl Variance.add Variance.new).merge (ys.foldl Variance.add Variance.new)
        = (xs ++ ys).foldl Variance.add Variance.new
    ∧ (xs.foldl Skewness.add Skewness.new).merge (ys.foldl Skewness.add Skewness.new)
        = (xs ++ ys).foldl Skewness.add Skewness.new
    ∧ (xs.foldl Kurtosis.add Kurtosis.new).merge (ys.foldl Kurtosis.add Kurtosis.new)
        = (xs ++ ys).foldl Kurtosis.add Kurtosis.new := by
  refine ⟨?_, ?_, ?_, ?_⟩
  · rw [mean_fold, mean_fold, mean_fold, mean_merge]
  · rw [variance_fold, variance_fold, variance_fold, variance_merge]
  · rw [skewness_fold, skewness_fold, skewness_fold, skewness_merge]
  · rw [kurtosis_fold, kurtosis_fold, kurtosis_fold, kurtosis_merge]

/-! ## every merge tree -/

/-- Kurtosis: EVERY binary merge tree over EVERY cutting of a sequence into contiguous chunks
(any shape, unbalanced, empty leaves, one-element leaves) yields exactly the canonical state
(n, mean, Σ(x-μ)², Σ(x-μ)³, Σ(x-μ)⁴) of the whole sequence. -/
theorem mtree_eval_kurtosis (t : MTree K) :
    t.eval Kurtosis.new Kurtosis.add Kurtosis.merge = canonK t.flatten := kurtosis_mtree t

/-- Skewness: every merge tree yields (n, mean, Σ(x-μ)², Σ(x-μ)³) of the whole sequence. -/
theorem mtree_eval_skewness (t : MTree K) :
    t.eval Skewness.new Skewness.add Skewness.merge
      = ⟨⟨⟨mean t.flatten, t.flatten.length⟩, sumPow t.flatten (mean t.flatten) 2⟩,
          sumPow t.flatten (mean t.flatten) 3⟩ := skewness_mtree t

/-- Variance: every merge tree yields (n, mean, Σ(x-μ)²) of the whole sequence. -/
theorem mtree_eval_variance (t : MTree K) :
    t.eval Variance.new Variance.add Variance.merge
      = ⟨⟨mean t.flatten, t.flatten.length⟩, sumPow t.flatten (mean t.flatten) 2⟩ := variance_mtree t

/-- Mean: every merge tree yields (n, mean) of the whole sequence. -/
theorem mtree_eval_mean (t : MTree K) :
    t.eval Mean.new Mean.add Mean.merge = ⟨mean t.flatten, t.flatten.length⟩ := mean_mtree t

/-- The same, phrased over the chunks: whatever the composition `t.chunks` of the data into
`k = t.merges + 1 ≥ 1` contiguous chunks and whatever the bracketing, the result is the canonical
state of the concatenation of the chunks. -/
theorem mtree_eval_chunks (t : MTree K) :
    t.eval Kurtosis.new Kurtosis.add Kurtosis.merge = canonK t.chunks.flatten
    ∧ t.chunks.length = t.merges + 1 := by
  rw [MTree.flatten_chunks]; exact ⟨kurtosis_mtree t, MTree.length_chunks t⟩

/-- `len()` of the combined estimator is exactly the total number of observations. -/
theorem mtree_len (t : MTree K) :
    (t.eval Mean.new Mean.add Mean.merge).len = t.flatten.length
    ∧ (t.eval Variance.new Variance.add Variance.merge).len = t.flatten.length
    ∧ (t.eval Skewness.new Skewness.add Skewness.merge).len = t.flatten.length
    ∧ (t.eval Kurtosis.new Kurtosis.add Kurtosis.merge).len = t.flatten.length := by
  rw [mtree_eval_mean, mtree_eval_variance, mtree_eval_skewness, mtree_eval_kurtosis]
  exact ⟨rfl, rfl, rfl, rfl⟩

/-- Parallel = single pass: every merge tree gives exactly the state the one-at-a-time estimator
reaches on the whole sequence. -/
theorem mtree_eq_single_pass (t : MTree K) :
    t.eval Mean.new Mean.add Mean.merge = t.flatten.foldl Mean.add Mean.new
    ∧ t.eval Variance.new Variance.add Variance.merge = t.flatten.foldl Variance.add Variance.new
    ∧ t.eval Skewness.new Skewness.add Skewness.merge = t.flatten.foldl Skewness.add Skewness.new
    ∧ t.eval Kurtosis.new Kurtosis.add Kurtosis.merge = t.flatten.foldl Kurtosis.add Kurtosis.new := by
  refine ⟨?_, ?_, ?_, ?_⟩
  · rw [mean_fold]; exact mean_mtree t
  · rw [variance_fold]; exact variance_mtree t
  · rw [skewness_fold]; exact skewness_mtree t
  · rw [kurtosis_fold]; exact kurtosis_mtree t

/-- Two merge trees over the same data - different chunkings, different bracketings - give the
same state: results of different schedules are interchangeable. -/
theorem mtree_congr (t₁ t₂ : MTree K) (h : t₁.flatten = t₂.flatten) :
    t₁.eval Mean.new Mean.add Mean.merge = t₂.eval Mean.new Mean.add Mean.merge
    ∧ t₁.eval Variance.new Variance.add Variance.merge = t₂.eval Variance.new Variance.add Variance.merge
    ∧ t₁.eval Skewness.new Skewness.add Skewness.merge = t₂.eval Skewness.new Skewness.add Skewness.merge
    ∧ t₁.eval Kurtosis.new Kurtosis.add Kurtosis.merge = t₂.eval Kurtosis.new Kurtosis.add Kurtosis.merge := by
  refine ⟨?_, ?_, ?_, ?_⟩
  · rw [mtree_eval_mean, mtree_eval_mean, h]
  · rw [mtree_eval_variance, mtree_eval_variance, h]
  · rw [mtree_eval_skewness, mtree_eval_skewness, h]
  · rw [mtree_eval_kurtosis, mtree_eval_kurtosis, h]

/-- Hence every public statistic of the combined estimator equals that of the single-pass
estimator (shown on `Kurtosis`, which re-exports all of them). -/
theorem mtree_statistics [FloatOps K] (t : MTree K) :
    let p := t.eval Kurtosis.new Kurtosis.add Kurtosis.merge
    let s := t.flatten.foldl Kurtosis.add Kurtosis.new
    p.len = s.len ∧ p.mean = s.mean ∧ p.sampleVariance = s.sampleVariance
    ∧ p.populationVariance = s.populationVariance ∧ p.errorMean = s.errorMean
    ∧ p.skewness = s.skewness ∧ p.kurtosis = s.kurtosis := by
  intro p s
  have h : p = s := (mtree_eq_single_pass t).2.2.2
  rw [h]; exact ⟨rfl, rfl, rfl, rfl, rfl, rfl, rfl⟩

/-- Any carrier (floating point included), bit for bit: through any merge tree the `Skewness`
inside a `Kurtosis`, the `Variance` inside a `Skewness` and the `Mean` inside a `Variance` are
exactly what those estimator types compute on their own through the same tree. -/
theorem mtree_inner_bitwise {α : Type} [Add α] [Sub α] [Mul α] [Div α] [NatCast α] (t : MTree α) :
    (t.eval Kurtosis.new Kurtosis.add Kurtosis.merge).avg = t.eval Skewness.new Skewness.add Skewness.merge
    ∧ (t.eval Skewness.new Skewness.add Skewness.merge).avg = t.eval Variance.new Variance.add Variance.merge
    ∧ (t.eval Variance.new Variance.add Variance.merge).avg = t.eval Mean.new Mean.add Mean.merge :=
  ⟨Kurtosis.mtree_avg t, Skewness.mtree_avg t, Variance.mtree_avg t⟩

/-- non-vacuity: an unbalanced tree with an empty leaf in the middle and one-element leaves -/
example :
    (MTree.node (.node (.leaf [1]) (.leaf [])) (.node (.leaf [2, 3]) (.leaf [6])) : MTree ℚ).eval
        Variance.new Variance.add Variance.merge = ⟨⟨3, 4⟩, 14⟩ := by
  rw [mtree_eval_variance]; norm_num [MTree.flatten, mean, sumPow]

/-- `define_moments!` estimators of every order `N`: every binary merge tree over every chunking
yields exactly (count, mean, [Σ(x-mean)^p, p = 2..N]) of the whole sequence, hence the single-pass
estimator; `len()` is the total number of observations. -/
theorem mtree_eval_moments (N : Nat) (t : MTree K) :
    t.eval (Moments.new N) (Moments.add N) (Moments.merge N) = MSpec.canonM N t.flatten
    ∧ t.eval (Moments.new N) (Moments.add N) (Moments.merge N)
        = t.flatten.foldl (Moments.add N) (Moments.new N)
    ∧ (t.eval (Moments.new N) (Moments.add N) (Moments.merge N)).len = t.flatten.length := by
  have h : t.eval (Moments.new N) (Moments.add N) (Moments.merge N) = MSpec.canonM N t.flatten :=
    MSpec.moments_mtree N t
  refine ⟨h, ?_, ?_⟩
  · rw [h, MSpec.moments_fold]
  · rw [h]; rfl

end Props.C02

#print axioms Props.C02.kurtosis_merge_canon
#print axioms Props.C02.skewness_merge_canon
#print axioms Props.C02.variance_merge_canon
#print axioms Props.C02.mean_merge_canon
#print axioms Props.C02.merge_fold
#print axioms Props.C02.mtree_eval_kurtosis
#print axioms Props.C02.mtree_eval_skewness
#print axioms Props.C02.mtree_eval_variance
#print axioms Props.C02.mtree_eval_mean
#print axioms Props.C02.mtree_eval_chunks
#print axioms Props.C02.mtree_len
#print axioms Props.C02.mtree_eq_single_pass
#print axioms Props.C02.mtree_congr
#print axioms Props.C02.mtree_statistics
#print axioms Props.C02.mtree_inner_bitwise
#print axioms Props.C02.mtree_eval_moments
