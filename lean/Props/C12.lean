import AvgProofs.HistCarrier
import AvgProofs.HistConstruct
import AvgProofs.HistConstWidth

/-!
# C12 - histogram construction accepts exactly the valid edge lists

`from_ranges`: every statement of the first part holds for **every** `FloatOps` instance (any
`isNaN` predicate, any `lt`), because the implementation and the specification
`Spec.fromRangesSpec` make the same tests in the same order; "smaller than its predecessor" is the
implementation's test `range[i-1] > r`, i.e. `FloatOps.lt r prev`. Over a linear order
(`[OrdLawful K]`, the non-NaN values) the chain condition is sortedness.

`with_const_width`: exact arithmetic (ordered field) for the values of the edges; carrier R0
(`RF r`: any monotone rounding `fl` with `fl 0 = 0` applied after every operation, including the
integer-to-float casts) for the fact `find` needs: the computed edges are non-decreasing.
The "within a few ulps" part of the property is a standard-model (R2) statement and is not in this file.
-/
open Avg

namespace Props.C12

/-! ## `from_ranges`, every carrier -/
section any
variable {α : Type} [FloatOps α]

/-- **`from_ranges` equals its executable specification** for every number of bins `LEN ≥ 1`, every
input list and every `FloatOps` instance: same result, same error. On success the histogram is the
accepted edge list with `LEN` zero counts. -/
theorem fromRanges_eq_spec (LEN : Nat) (hLEN : 1 ≤ LEN) (l : List α) :
    Hist.fromRanges LEN l = (Spec.fromRangesSpec LEN l).map (fun r => ⟨r, List.replicate LEN 0⟩) :=
  fromRanges_eq_spec' LEN hLEN l

/-- **Success** exactly when the first `LEN+1` values exist, none of them is NaN and none is smaller
than its predecessor; then the edges are those `LEN+1` values unchanged and all counts are zero. -/
theorem fromRanges_ok_iff (LEN : Nat) (hLEN : 1 ≤ LEN) (l : List α) (h : Hist α) :
    Hist.fromRanges LEN l = .ok h ↔
      LEN + 1 ≤ l.length ∧ (∀ x ∈ l.take (LEN + 1), FloatOps.isNaN x = false) ∧
      List.IsChain (fun a b : α => FloatOps.lt b a = false) (l.take (LEN + 1)) ∧
      h = ⟨l.take (LEN + 1), List.replicate LEN 0⟩ := by
  rw [fromRanges_eq_go LEN hLEN l]
  cases hg : Spec.fromRangesSpec.go (LEN + 1) none l with
  | some e =>
    have : ¬ (LEN + 1 ≤ l.length ∧ GoodEdges none (l.take (LEN + 1))) := by
      rw [← go_none_iff, hg]; simp
    simp only [reduceCtorEq, false_iff]
    rintro ⟨h1, h2, h3, _⟩
    exact this ⟨h1, h2, by simpa using h3⟩
  | none =>
    obtain ⟨h1, h2, h3⟩ := (go_none_iff l (LEN + 1) none).mp hg
    simp only [Except.ok.injEq]
    constructor
    · intro e; exact ⟨h1, h2, by simpa using h3, e.symm⟩
    · rintro ⟨_, _, _, e⟩; exact e.symm

/-- Values after the first `LEN+1` are ignored (never looked at: they may be NaN or unsorted). -/
theorem fromRanges_extra_ignored (LEN : Nat) (hLEN : 1 ≤ LEN) (l : List α) :
    Hist.fromRanges LEN l = Hist.fromRanges LEN (l.take (LEN + 1)) := by
  rw [fromRanges_eq_go LEN hLEN, fromRanges_eq_go LEN hLEN, go_take, List.take_take, Nat.min_self]

/-- **`NotEnoughRanges`** exactly when the input has fewer than `LEN+1` values and no position offends
(no NaN, no descent): an earlier NaN or descent wins over the length error. -/
theorem fromRanges_notEnough_iff (LEN : Nat) (hLEN : 1 ≤ LEN) (l : List α) :
    Hist.fromRanges LEN l = .error .notEnoughRanges ↔
      l.length ≤ LEN ∧ (∀ x ∈ l, FloatOps.isNaN x = false) ∧
      List.IsChain (fun a b : α => FloatOps.lt b a = false) l := by
  rw [fromRanges_eq_go LEN hLEN l]
  have key := go_notEnough_iff l (LEN + 1) none
  cases hg : Spec.fromRangesSpec.go (LEN + 1) none l with
  | some e =>
    rw [hg] at key
    simp only [Except.error.injEq]
    rw [show (e = InvalidRangeError.notEnoughRanges) ↔ (some e = some InvalidRangeError.notEnoughRanges) by simp,
      key, GoodEdges]
    simp [Nat.lt_succ_iff]
  | none =>
    rw [hg] at key
    simp only [reduceCtorEq, false_iff] at key ⊢
    rintro ⟨h1, h2, h3⟩
    exact key ⟨by omega, h2, by simpa using h3⟩

/-- **The error is that of the first offending position** (NaN case): if the input is `pre ++ r :: rest`
with `pre` no longer than `LEN`, free of NaN and of descents, and `r` is NaN, the result is `NaN` -
whatever comes later and whether or not `r` is also smaller than its predecessor. -/
theorem fromRanges_first_nan (LEN : Nat) (hLEN : 1 ≤ LEN) (pre : List α) (r : α) (rest : List α)
    (hpre : pre.length ≤ LEN) (hnan : ∀ x ∈ pre, FloatOps.isNaN x = false)
    (hchain : List.IsChain (fun a b : α => FloatOps.lt b a = false) pre)
    (hr : FloatOps.isNaN r = true) :
    Hist.fromRanges LEN (pre ++ r :: rest) = .error .nan := by
  rw [fromRanges_eq_go LEN hLEN,
    go_first_offender pre (LEN + 1) none r rest (by omega) ⟨hnan, by simpa using hchain⟩ (Or.inl hr)]
  simp [hr]

/-- **The error is that of the first offending position** (descent case): after such a good prefix,
a value that is not NaN but is smaller than its predecessor gives `NotSorted`. -/
theorem fromRanges_first_notSorted (LEN : Nat) (hLEN : 1 ≤ LEN) (pre : List α) (r : α) (rest : List α)
    (hpre : pre.length ≤ LEN) (hnan : ∀ x ∈ pre, FloatOps.isNaN x = false)
    (hchain : List.IsChain (fun a b : α => FloatOps.lt b a = false) pre)
    (hr : FloatOps.isNaN r = false) (p : α) (hp : pre.getLast? = some p) (hlt : FloatOps.lt r p = true) :
    Hist.fromRanges LEN (pre ++ r :: rest) = .error .notSorted := by
  rw [fromRanges_eq_go LEN hLEN,
    go_first_offender pre (LEN + 1) none r rest (by omega) ⟨hnan, by simpa using hchain⟩
      (Or.inr ⟨p, by simpa using hp, hlt⟩)]
  simp [hr]

end any

/-! ## `from_ranges`, ordered carrier -/
section ord
variable {K : Type} [LinearOrder K] [FloatOps K] [OrdLawful K]

/-- Over the non-NaN values: success exactly when the first `LEN+1` values exist and are
non-decreasing (repeated values and infinite values are just elements of the order). -/
theorem fromRanges_ok_iff_sorted (LEN : Nat) (hLEN : 1 ≤ LEN) (l : List K) (h : Hist K) :
    Hist.fromRanges LEN l = .ok h ↔
      LEN + 1 ≤ l.length ∧ (l.take (LEN + 1)).Pairwise (· ≤ ·) ∧
      h = ⟨l.take (LEN + 1), List.replicate LEN 0⟩ := by
  rw [fromRanges_ok_iff LEN hLEN l h, ← goodEdges_none_iff_pairwise]
  simp [GoodEdges]

/-- Every histogram `from_ranges` returns has `LEN+1` sorted edges and `LEN` zero counts
(the precondition of the theorems of C06). -/
theorem fromRanges_ok_wellformed (LEN : Nat) (hLEN : 1 ≤ LEN) (l : List K) (h : Hist K)
    (hok : Hist.fromRanges LEN l = .ok h) :
    h.range.Pairwise (· ≤ ·) ∧ h.range.length = LEN + 1 ∧ h.bin = List.replicate LEN 0 := by
  obtain ⟨h1, h2, rfl⟩ := (fromRanges_ok_iff_sorted LEN hLEN l h).mp hok
  refine ⟨h2, ?_, rfl⟩
  simp only [List.length_take]; omega

end ord

/-! ## `with_const_width`, exact arithmetic -/
section exact
variable {F : Type} [Field F] [LinearOrder F] [IsStrictOrderedRing F]

/-- In exact arithmetic (`LEN ≥ 1`, `start ≤ end`): edge `i` is `start + (end-start)/LEN * i` for
`i = 0..LEN`, the edges are non-decreasing, the first is `start`, the last is `end`, and there are
`LEN` zero counts. -/
theorem withConstWidth_exact (LEN : Nat) (hLEN : 1 ≤ LEN) (s e : F) (hse : s ≤ e) :
    (Hist.withConstWidth LEN s e).range
        = (List.range (LEN + 1)).map (fun i : Nat => s + (e - s) / (LEN : F) * (i : F))
    ∧ (Hist.withConstWidth LEN s e).range.Pairwise (· ≤ ·)
    ∧ (Hist.withConstWidth LEN s e).range[0]? = some s
    ∧ (Hist.withConstWidth LEN s e).range[LEN]? = some e
    ∧ (Hist.withConstWidth LEN s e).range.length = LEN + 1
    ∧ (Hist.withConstWidth LEN s e).bin = List.replicate LEN 0 :=
  ⟨withConstWidth_range LEN s e, withConstWidth_sorted_exact LEN s e hse,
   withConstWidth_first_exact LEN s e, withConstWidth_last_exact LEN hLEN s e,
   by simp [withConstWidth_range], rfl⟩

end exact

/-! ## `with_const_width`, any monotone rounding -/
section r0
variable {F : Type} [Field F] [LinearOrder F] [IsStrictOrderedRing F] {r : Rnd F}

/-- The value of edge `i` (`i ≤ LEN`) as the code computes it, every operation and cast rounded:
`fl(start + fl(step * fl(i)))` with `step = fl(fl(end - start) / fl(LEN))`. -/
theorem withConstWidth_edge_rounded (LEN : Nat) (s e : RF r) (i : Nat) (hi : i ≤ LEN) :
    ∃ v, (Hist.withConstWidth LEN s e).range[i]? = some v ∧
      v.val = r.fl (s.val + r.fl (r.fl (r.fl (e.val - s.val) / r.fl (LEN : F)) * r.fl (i : F))) :=
  withConstWidth_edge_val LEN s e i hi

/-- **Under any monotone rounding** (`fl` monotone, `fl 0 = 0`; every IEEE rounding mode and
precision), for `start ≤ end` the `LEN+1` computed edges are non-decreasing. This is the
precondition `find` needs for histograms built by `with_const_width` in floating point. -/
theorem withConstWidth_sorted_rounded (LEN : Nat) (s e : RF r) (hse : s.val ≤ e.val) :
    (Hist.withConstWidth LEN s e).range.Pairwise (fun a b => a.val ≤ b.val)
    ∧ (Hist.withConstWidth LEN s e).range.length = LEN + 1
    ∧ (Hist.withConstWidth LEN s e).bin = List.replicate LEN 0 :=
  ⟨withConstWidth_sorted_r0 LEN s e hse, by simp [withConstWidth_range], rfl⟩

/-- Edge 0 is `fl(start + fl(step * fl 0)) = fl(start)`; when `start` is representable
(`fl start = start`, as every `f64` argument is) edge 0 is exactly `start`. -/
theorem withConstWidth_first_rounded (LEN : Nat) (s e : RF r) :
    (∃ v, (Hist.withConstWidth LEN s e).range[0]? = some v ∧ v.val = r.fl s.val)
    ∧ (r.fl s.val = s.val → (Hist.withConstWidth LEN s e).range[0]? = some s) :=
  ⟨withConstWidth_first_r0 LEN s e, withConstWidth_first_r0_repr LEN s e⟩

end r0

/-! ## non-vacuity -/
section examples

/-- a carrier with a NaN: `none` is NaN, comparisons with it are false -/
local instance optFloatOps : FloatOps (Option Int) where
  nan := none
  posInf := none
  negInf := none
  sqrt := id
  pow15 := id
  lt a b := match a, b with | some a, some b => decide (a < b) | _, _ => false
  eqb a b := match a, b with | some a, some b => decide (a = b) | _, _ => false
  isNaN a := a.isNone
  fmin a _ := a
  fmax a _ := a
  ceilInt _ := 0
  ordLt _ _ := false

/-- a valid list with a repeated edge and an ignored (even NaN) extra value -/
example : Hist.fromRanges 2 [some 0, some 1, some 1, none] = .ok ⟨[some (0:Int), some 1, some 1], [0, 0]⟩ := by
  rw [fromRanges_ok_iff 2 (by decide)]
  refine ⟨by decide, by decide, ?_, rfl⟩
  simp only [List.take_succ_cons, List.take_zero]
  repeat constructor

/-- both a descent (position 1) and a NaN (position 2): the first offending position wins -/
example : Hist.fromRanges 3 [some (1:Int), some 0, none, some 5] = .error .notSorted :=
  fromRanges_first_notSorted 3 (by decide) [some 1] (some 0) [none, some 5] (by decide) (by decide)
    (List.isChain_singleton _) rfl (some 1) rfl rfl

/-- a NaN before the list runs out: `NaN`, not `NotEnoughRanges` -/
example : Hist.fromRanges 3 [some (1:Int), none] = .error .nan :=
  fromRanges_first_nan 3 (by decide) [some 1] none [] (by decide) (by decide)
    (List.isChain_singleton _) rfl

/-- too short and clean: `NotEnoughRanges` -/
example : Hist.fromRanges 3 [some (1:Int), some 2] = .error .notEnoughRanges :=
  (fromRanges_notEnough_iff 3 (by decide) _).mpr ⟨by decide, by decide, by repeat constructor⟩

/-- the rounding hypotheses are satisfiable: the identity is a rounding on ℚ and `0 ≤ 1` -/
example : ∃ (r : Rnd ℚ) (s e : RF r), s.val ≤ e.val ∧ r.fl s.val = s.val :=
  ⟨⟨id, monotone_id, rfl⟩, ⟨0⟩, ⟨1⟩, by decide, rfl⟩

end examples

end Props.C12

#print axioms Props.C12.fromRanges_eq_spec
#print axioms Props.C12.fromRanges_ok_iff
#print axioms Props.C12.fromRanges_extra_ignored
#print axioms Props.C12.fromRanges_notEnough_iff
#print axioms Props.C12.fromRanges_first_nan
#print axioms Props.C12.fromRanges_first_notSorted
#print axioms Props.C12.fromRanges_ok_iff_sorted
#print axioms Props.C12.fromRanges_ok_wellformed
#print axioms Props.C12.withConstWidth_exact
#print axioms Props.C12.withConstWidth_edge_rounded
#print axioms Props.C12.withConstWidth_sorted_rounded
#print axioms Props.C12.withConstWidth_first_rounded
