import AvgModel.Serde
import AvgProofs.SerdeRT

/-!
# C18 - a serde round trip at any point is invisible to the rest of the computation

Carrier: O (any type `α` whatsoever for the numbers - no arithmetic is involved, so the statements
are "bit for bit"). `encode` is what `#[derive(Serialize)]` emits (every field, in declaration
order, no skipped or recomputed field), `decode` is what `#[derive(Deserialize)]` accepts.

`encode : State α → Tree α` is a pure Lean function of the state: it cannot modify the estimator
("serialising does not modify the estimator" is true by construction of the model, `&self` in Rust).

The theorems quantify over EVERY state `s` of the type (reachable or not, finite fields or not):
a restored copy is *equal* to the original, so every statistic read from it and every continuation
of the stream (further adds, merges, reads) gives the same result - `roundtrip_continue`.
What is trusted: that serde_json with `float_roundtrip` prints and parses the leaves losslessly
(finite fields), checked by the harness.
-/
open Avg Avg.Tree

namespace Props.C18
variable {α : Type}

/-! ## `decode (encode s) = some s` for every estimator type -/

/-- `Mean`: deserialising the serialised state gives back exactly the state (average and count). -/
theorem mean_roundtrip (s : Mean α) : Mean.decode s.encode = some s := by
  cases s; simp [Mean.encode, Mean.decode]

/-- `Variance` (= `MeanWithError`): the nested `Mean` and `sum_2` come back unchanged. -/
theorem variance_roundtrip (s : Variance α) : Variance.decode s.encode = some s := by
  cases s; simp [Variance.encode, Variance.decode, mean_roundtrip]

/-- `Skewness`: the nested `Variance` and `sum_3` come back unchanged. -/
theorem skewness_roundtrip (s : Skewness α) : Skewness.decode s.encode = some s := by
  cases s; simp [Skewness.encode, Skewness.decode, variance_roundtrip]

/-- `Kurtosis`: the nested `Skewness` and `sum_4` come back unchanged. -/
theorem kurtosis_roundtrip (s : Kurtosis α) : Kurtosis.decode s.encode = some s := by
  cases s; simp [Kurtosis.encode, Kurtosis.decode, skewness_roundtrip]

/-- `define_moments!` type of order `N` (its `m` array has `N - 1` entries): count, average and
the whole array of central moments come back unchanged, whatever `N`. -/
theorem moments_roundtrip (N : Nat) (s : Moments α) (h : s.m.length = N - 1) :
    Moments.decode N s.encode = some s := by
  cases s; simp only at h
  simp [Moments.encode, Moments.decode, getFltArr_fltArr _ _ h]

/-- `Min`: the current minimum comes back unchanged. -/
theorem min_roundtrip (s : Avg.Min α) : Min.decode s.encode = some s := by
  cases s; simp [Min.encode, Min.decode]

/-- `Max`: the current maximum comes back unchanged. -/
theorem max_roundtrip (s : Avg.Max α) : Max.decode s.encode = some s := by
  cases s; simp [Max.encode, Max.decode]

/-- `WeightedMean`: weight sum and weighted average come back unchanged. -/
theorem weighted_mean_roundtrip (s : WeightedMean α) : WeightedMean.decode s.encode = some s := by
  cases s; simp [WeightedMean.encode, WeightedMean.decode]

/-- `WeightedMeanWithError`: sum of squared weights, nested `WeightedMean` and nested `Variance`
come back unchanged. -/
theorem weighted_mean_with_error_roundtrip (s : WeightedMeanWithError α) :
    WeightedMeanWithError.decode s.encode = some s := by
  cases s
  simp [WeightedMeanWithError.encode, WeightedMeanWithError.decode, weighted_mean_roundtrip,
    variance_roundtrip]

/-- `Covariance`: the five floats and the count come back unchanged. -/
theorem covariance_roundtrip (s : Covariance α) : Covariance.decode s.encode = some s := by
  cases s; simp [Covariance.encode, Covariance.decode]

/-- `Quantile` (P²): the four 5-element arrays `q`, `n` (signed), `m`, `dm` come back unchanged -
in particular in the phase with fewer than 5 observations, where `n[4]` is the only counter. -/
theorem quantile_roundtrip (s : Quantile α) : Quantile.decode s.encode = some s := by
  cases s
  simp [Quantile.encode, Quantile.decode, getFltArr_fltArr _ _ (V5.length_toList _),
    getIntArr_intArr _ _ (V5.length_toList _), V5.ofList?_toList]

/-- `define_histogram!` type with `LEN` bins (`LEN + 1` edges): edges and counts come back
unchanged, whatever `LEN` (serde's `BigArray` for long arrays included: same sequence). -/
theorem hist_roundtrip (LEN : Nat) (h : Hist α) (hr : h.range.length = LEN + 1)
    (hb : h.bin.length = LEN) : Hist.decode LEN h.encode = some h := by
  cases h; simp only at hr hb
  simp [Hist.encode, Hist.decode, getFltArr_fltArr _ _ hr, getNatArr_natArr _ _ hb]

/-! ## continuing the stream on the restored copy -/

/-- **The round trip is invisible.** For any state type, if `decode (encode s) = some s` then
whatever is done afterwards with the restored copy - `run` stands for "continue the stream with
any further adds and merges (with any other estimators) and read any statistic or the whole final
state" - gives exactly the result of the uninterrupted computation, and deserialisation does not
fail. -/
theorem roundtrip_continue {σ β : Type} (encode : σ → Tree α) (decode : Tree α → Option σ)
    (s : σ) (h : decode (encode s) = some s) (run : σ → β) :
    (decode (encode s)).map run = some (run s) := by
  rw [h]; rfl

/-- `roundtrip_continue` for every estimator type at once: any continuation `run` of any state
gives the same result on the restored copy. -/
theorem roundtrip_continue_all {β : Type} :
    (∀ (s : Mean α) (run : Mean α → β), (Mean.decode s.encode).map run = some (run s)) ∧
    (∀ (s : Variance α) (run : Variance α → β), (Variance.decode s.encode).map run = some (run s)) ∧
    (∀ (s : Skewness α) (run : Skewness α → β), (Skewness.decode s.encode).map run = some (run s)) ∧
    (∀ (s : Kurtosis α) (run : Kurtosis α → β), (Kurtosis.decode s.encode).map run = some (run s)) ∧
    (∀ (N : Nat) (s : Moments α) (_ : s.m.length = N - 1) (run : Moments α → β),
        (Moments.decode N s.encode).map run = some (run s)) ∧
    (∀ (s : Avg.Min α) (run : Avg.Min α → β), (Min.decode s.encode).map run = some (run s)) ∧
    (∀ (s : Avg.Max α) (run : Avg.Max α → β), (Max.decode s.encode).map run = some (run s)) ∧
    (∀ (s : WeightedMean α) (run : WeightedMean α → β),
        (WeightedMean.decode s.encode).map run = some (run s)) ∧
    (∀ (s : WeightedMeanWithError α) (run : WeightedMeanWithError α → β),
        (WeightedMeanWithError.decode s.encode).map run = some (run s)) ∧
    (∀ (s : Covariance α) (run : Covariance α → β),
        (Covariance.decode s.encode).map run = some (run s)) ∧
    (∀ (s : Quantile α) (run : Quantile α → β), (Quantile.decode s.encode).map run = some (run s)) ∧
    (∀ (LEN : Nat) (h : Hist α) (_ : h.range.length = LEN + 1) (_ : h.bin.length = LEN)
        (run : Hist α → β), (Hist.decode LEN h.encode).map run = some (run h)) :=
  ⟨fun s run => roundtrip_continue _ _ s (mean_roundtrip s) run,
   fun s run => roundtrip_continue _ _ s (variance_roundtrip s) run,
   fun s run => roundtrip_continue _ _ s (skewness_roundtrip s) run,
   fun s run => roundtrip_continue _ _ s (kurtosis_roundtrip s) run,
   fun N s h run => roundtrip_continue _ _ s (moments_roundtrip N s h) run,
   fun s run => roundtrip_continue _ _ s (min_roundtrip s) run,
   fun s run => roundtrip_continue _ _ s (max_roundtrip s) run,
   fun s run => roundtrip_continue _ _ s (weighted_mean_roundtrip s) run,
   fun s run => roundtrip_continue _ _ s (weighted_mean_with_error_roundtrip s) run,
   fun s run => roundtrip_continue _ _ s (covariance_roundtrip s) run,
   fun s run => roundtrip_continue _ _ s (quantile_roundtrip s) run,
   fun LEN h hr hb run => roundtrip_continue _ _ h (hist_roundtrip LEN h hr hb) run⟩

/-- A concrete continuation: checkpoint a `Variance` after the stream `xs`, restore it, continue
with the stream `ys`, merge with another estimator `o`: the final state is that of the
uninterrupted computation (any carrier, so bit for bit). -/
theorem variance_checkpoint [Add α] [Sub α] [Mul α] [Div α] [NatCast α]
    (xs ys : List α) (o : Variance α) :
    (Variance.decode (xs.foldl Variance.add Variance.new).encode).map
        (fun r => (ys.foldl Variance.add r).merge o)
      = some (((xs ++ ys).foldl Variance.add Variance.new).merge o) := by
  rw [variance_roundtrip, List.foldl_append]; rfl

/-! ## `encode` loses nothing -/

/-- Generic: an encoder with a left inverse on a set of states is injective on that set - two
different states never serialise to the same tree. -/
theorem encode_injOn {σ : Type} (encode : σ → Tree α) (decode : Tree α → Option σ) (s t : σ)
    (hs : decode (encode s) = some s) (ht : decode (encode t) = some t)
    (h : encode s = encode t) : s = t := by
  rw [h, ht] at hs; exact (Option.some.inj hs).symm

/-- For every estimator type, `encode` is injective: the serialised form determines the state
(arrays of the declared length for the two macro-generated families). -/
theorem encode_injective :
    Function.Injective (Mean.encode (α := α)) ∧ Function.Injective (Variance.encode (α := α)) ∧
    Function.Injective (Skewness.encode (α := α)) ∧ Function.Injective (Kurtosis.encode (α := α)) ∧
    Function.Injective (Min.encode (α := α)) ∧ Function.Injective (Max.encode (α := α)) ∧
    Function.Injective (WeightedMean.encode (α := α)) ∧
    Function.Injective (WeightedMeanWithError.encode (α := α)) ∧
    Function.Injective (Covariance.encode (α := α)) ∧ Function.Injective (Quantile.encode (α := α)) ∧
    (∀ (N : Nat) (s t : Moments α), s.m.length = N - 1 → t.m.length = N - 1 →
        s.encode = t.encode → s = t) ∧
    (∀ (LEN : Nat) (s t : Hist α), s.range.length = LEN + 1 → s.bin.length = LEN →
        t.range.length = LEN + 1 → t.bin.length = LEN → s.encode = t.encode → s = t) :=
  ⟨fun s t => encode_injOn _ _ s t (mean_roundtrip s) (mean_roundtrip t),
   fun s t => encode_injOn _ _ s t (variance_roundtrip s) (variance_roundtrip t),
   fun s t => encode_injOn _ _ s t (skewness_roundtrip s) (skewness_roundtrip t),
   fun s t => encode_injOn _ _ s t (kurtosis_roundtrip s) (kurtosis_roundtrip t),
   fun s t => encode_injOn _ _ s t (min_roundtrip s) (min_roundtrip t),
   fun s t => encode_injOn _ _ s t (max_roundtrip s) (max_roundtrip t),
   fun s t => encode_injOn _ _ s t (weighted_mean_roundtrip s) (weighted_mean_roundtrip t),
   fun s t => encode_injOn _ _ s t (weighted_mean_with_error_roundtrip s)
     (weighted_mean_with_error_roundtrip t),
   fun s t => encode_injOn _ _ s t (covariance_roundtrip s) (covariance_roundtrip t),
   fun s t => encode_injOn _ _ s t (quantile_roundtrip s) (quantile_roundtrip t),
   fun N s t hs ht => encode_injOn _ _ s t (moments_roundtrip N s hs) (moments_roundtrip N t ht),
   fun LEN s t h1 h2 h3 h4 =>
     encode_injOn _ _ s t (hist_roundtrip LEN s h1 h2) (hist_roundtrip LEN t h3 h4)⟩

/-- The fixed-size array contract: a `define_moments!` state whose array has the wrong length for
the type being deserialised is rejected, not silently truncated or padded. -/
theorem moments_wrong_length_rejected (N : Nat) (s : Moments α) (h : s.m.length ≠ N - 1) :
    Moments.decode N s.encode = none := by
  cases s; simp only at h
  simp [Moments.encode, Moments.decode, getFltArr_fltArr_ne _ _ h]

/-- non-vacuity: a concrete non-trivial nested state (a `WeightedMeanWithError` after some
observations, integer carrier standing for the bit patterns) round-trips, and so does a 3-bin
histogram, which meets the length hypotheses. -/
example : WeightedMeanWithError.decode
    (WeightedMeanWithError.encode (⟨5, ⟨3, 7⟩, ⟨⟨2, 4⟩, 9⟩⟩ : WeightedMeanWithError Int))
      = some ⟨5, ⟨3, 7⟩, ⟨⟨2, 4⟩, 9⟩⟩ := weighted_mean_with_error_roundtrip _
example : Hist.decode 3 (Hist.encode (⟨[0, 1, 2, 3], [4, 0, 7]⟩ : Hist Int))
    = some ⟨[0, 1, 2, 3], [4, 0, 7]⟩ := hist_roundtrip 3 _ rfl rfl
example : Moments.decode 4 (Moments.encode (⟨6, 2, [1, 0, 5]⟩ : Moments Int))
    = some ⟨6, 2, [1, 0, 5]⟩ := moments_roundtrip 4 _ rfl

end Props.C18

#print axioms Props.C18.mean_roundtrip
#print axioms Props.C18.variance_roundtrip
#print axioms Props.C18.skewness_roundtrip
#print axioms Props.C18.kurtosis_roundtrip
#print axioms Props.C18.moments_roundtrip
#print axioms Props.C18.min_roundtrip
#print axioms Props.C18.max_roundtrip
#print axioms Props.C18.weighted_mean_roundtrip
#print axioms Props.C18.weighted_mean_with_error_roundtrip
#print axioms Props.C18.covariance_roundtrip
#print axioms Props.C18.quantile_roundtrip
#print axioms Props.C18.hist_roundtrip
#print axioms Props.C18.roundtrip_continue
#print axioms Props.C18.roundtrip_continue_all
#print axioms Props.C18.variance_checkpoint
#print axioms Props.C18.encode_injOn
#print axioms Props.C18.encode_injective
#print axioms Props.C18.moments_wrong_length_rejected
