import AvgProofs.NaNCarrier
import Mathlib.Order.Fin.Basic

/-!
# C14 - `Min` and `Max` return the exact extreme of everything seen, in any order

Carrier: O + order. Numbers are the elements of an arbitrary bounded linear order `K`
(`⊤` = `+∞`, `⊥` = `-∞`; finite values, both infinities; `-0.0` and `+0.0` are the same number),
extended with NaN: `Option K`, `none` = NaN. `f64::min`/`f64::max` are modelled as
`NaNCarrier.fmin`/`fmax` (the other operand if one is NaN) - this modelling of `f64::min/max` is the
assumption; everything else is the crate's code (`Min.add s x = ⟨fmin s.x x⟩`,
`Min.merge s o = s.add o.x`, `Min.new = ⟨+∞⟩`, `Min.fromValue v = ⟨v⟩`).

`minSpec xs` / `maxSpec xs` : the least / greatest non-NaN element of `xs`, `⊤` / `⊥` if there is none
(`(xs.filterMap id).foldr min ⊤`; characterised order-theoretically in `min_is_least`).
Histories: every `MTree` - every order-preserving merge tree over every chunking of the
observations, empty and single-element chunks included, any shape.
-/
open Avg NaNCarrier

namespace Props.C14
variable {K : Type} [LinearOrder K] [OrderTop K] [OrderBot K]

attribute [local instance] NaNCarrier.floatOps

/-! ## Min -/

/-- Sequential stream of any length, NaNs anywhere: the state after `add`ing the observations one
by one is exactly the smallest non-NaN observation (`+∞` if there is none). -/
theorem min_fold (xs : List (Option K)) :
    xs.foldl Min.add Min.new = ⟨some (minSpec xs)⟩ := by
  rw [show (Min.new : Avg.Min (Option K)) = ⟨some ⊤⟩ from rfl, foldl_min_add, min_eq_right le_top]

/-- **Every history.** Every merge tree over every chunking of the observations (any shape, empty
chunks in the middle included): `min()` is exactly the smallest non-NaN observation of the
flattened data, `+∞` if there is none. -/
theorem min_mtree (t : MTree (Option K)) :
    (t.eval Min.new Min.add Min.merge).min = some (minSpec t.flatten) := by
  have h : t.eval Min.new Min.add Min.merge = (⟨some (minSpec t.flatten)⟩ : Avg.Min (Option K)) :=
    MTree.eval_canon Min.new Min.add Min.merge (fun xs => ⟨some (minSpec xs)⟩) min_fold
      (fun xs ys => by
        rw [minSpec_append]; rfl) t
  rw [h]; rfl

/-- What "smallest non-NaN observation" means: the reported minimum is a number (never NaN), is
`≤` every non-NaN observation, and is itself one of the observations - or it is `+∞` and no
non-NaN value was observed. -/
theorem min_is_least (t : MTree (Option K)) :
    ∃ m : K, (t.eval Min.new Min.add Min.merge).min = some m
      ∧ (∀ v, some v ∈ t.flatten → m ≤ v)
      ∧ (some m ∈ t.flatten ∨ (m = ⊤ ∧ ∀ v, some v ∉ t.flatten)) :=
  ⟨minSpec t.flatten, min_mtree t, minSpec_le _, minSpec_mem _⟩

/-- **Order, chunking, merge order and NaNs are irrelevant.** Two histories whose non-NaN
observations are the same up to a permutation - whatever the arrival order, the chunking, the
shape of the merge trees, and the number and positions of NaN observations - report the same
minimum. -/
theorem min_invariant (t₁ t₂ : MTree (Option K))
    (h : (t₁.flatten.filter Option.isSome).Perm (t₂.flatten.filter Option.isSome)) :
    (t₁.eval Min.new Min.add Min.merge).min = (t₂.eval Min.new Min.add Min.merge).min := by
  rw [min_mtree, min_mtree, ← minSpec_filter t₁.flatten, ← minSpec_filter t₂.flatten,
    minSpec_perm h]

/-- Special case: any permutation of the observations, any two trees. -/
theorem min_perm (t₁ t₂ : MTree (Option K)) (h : t₁.flatten.Perm t₂.flatten) :
    (t₁.eval Min.new Min.add Min.merge).min = (t₂.eval Min.new Min.add Min.merge).min :=
  min_invariant t₁ t₂ (h.filter _)

/-- Special case: NaN observations are ignored - a stream with NaNs inserted at any positions
gives the minimum of the stream without them. -/
theorem min_nan_ignored (xs : List (Option K)) :
    (xs.foldl Min.add Min.new).min = ((xs.filter Option.isSome).foldl Min.add Min.new).min := by
  rw [min_fold, min_fold, minSpec_filter]

/-- `from_value(v)` for a non-NaN `v` IS the estimator that has seen `v` (equal states, hence the
same behaviour in every later history of adds and merges). -/
theorem min_from_value (v : K) :
    (Min.fromValue (some v) : Avg.Min (Option K)) = Min.new.add (some v) := by
  show (⟨some v⟩ : Avg.Min (Option K)) = ⟨some (min ⊤ v)⟩
  rw [min_eq_right le_top]

/-- ... in particular continuing it with `xs` gives the result of the stream `v :: xs` from `new`. -/
theorem min_from_value_fold (v : K) (xs : List (Option K)) :
    xs.foldl Min.add (Min.fromValue (some v)) = (some v :: xs).foldl Min.add Min.new := by
  rw [List.foldl_cons, min_from_value]

/-! ## Max -/

/-- Sequential stream: the state is exactly the largest non-NaN observation (`-∞` if none). -/
theorem max_fold (xs : List (Option K)) :
    xs.foldl Max.add Max.new = ⟨some (maxSpec xs)⟩ := by
  rw [show (Max.new : Avg.Max (Option K)) = ⟨some ⊥⟩ from rfl, foldl_max_add, max_eq_right bot_le]

/-- **Every history.** Every merge tree over every chunking: `max()` is exactly the largest
non-NaN observation of the flattened data, `-∞` if there is none. -/
theorem max_mtree (t : MTree (Option K)) :
    (t.eval Max.new Max.add Max.merge).max = some (maxSpec t.flatten) := by
  have h : t.eval Max.new Max.add Max.merge = (⟨some (maxSpec t.flatten)⟩ : Avg.Max (Option K)) :=
    MTree.eval_canon Max.new Max.add Max.merge (fun xs => ⟨some (maxSpec xs)⟩) max_fold
      (fun xs ys => by
        rw [maxSpec_append]; rfl) t
  rw [h]; rfl

/-- The reported maximum is a number, is `≥` every non-NaN observation, and is one of the
observations - or it is `-∞` and no non-NaN value was observed. -/
theorem max_is_greatest (t : MTree (Option K)) :
    ∃ m : K, (t.eval Max.new Max.add Max.merge).max = some m
      ∧ (∀ v, some v ∈ t.flatten → v ≤ m)
      ∧ (some m ∈ t.flatten ∨ (m = ⊥ ∧ ∀ v, some v ∉ t.flatten)) :=
  ⟨maxSpec t.flatten, max_mtree t, le_maxSpec _, maxSpec_mem _⟩

/-- Order, chunking, merge order and NaNs are irrelevant for `Max`. -/
theorem max_invariant (t₁ t₂ : MTree (Option K))
    (h : (t₁.flatten.filter Option.isSome).Perm (t₂.flatten.filter Option.isSome)) :
    (t₁.eval Max.new Max.add Max.merge).max = (t₂.eval Max.new Max.add Max.merge).max := by
  rw [max_mtree, max_mtree, ← maxSpec_filter t₁.flatten, ← maxSpec_filter t₂.flatten,
    maxSpec_perm h]

/-- Any permutation of the observations, any two trees. -/
theorem max_perm (t₁ t₂ : MTree (Option K)) (h : t₁.flatten.Perm t₂.flatten) :
    (t₁.eval Max.new Max.add Max.merge).max = (t₂.eval Max.new Max.add Max.merge).max :=
  max_invariant t₁ t₂ (h.filter _)

/-- NaN observations are ignored by `Max`. -/
theorem max_nan_ignored (xs : List (Option K)) :
    (xs.foldl Max.add Max.new).max = ((xs.filter Option.isSome).foldl Max.add Max.new).max := by
  rw [max_fold, max_fold, maxSpec_filter]

/-- `Max::from_value(v)` for a non-NaN `v` is the estimator that has seen `v`. -/
theorem max_from_value (v : K) :
    (Max.fromValue (some v) : Avg.Max (Option K)) = Max.new.add (some v) := by
  show (⟨some v⟩ : Avg.Max (Option K)) = ⟨some (max ⊥ v)⟩
  rw [max_eq_right bot_le]

theorem max_from_value_fold (v : K) (xs : List (Option K)) :
    xs.foldl Max.add (Max.fromValue (some v)) = (some v :: xs).foldl Max.add Max.new := by
  rw [List.foldl_cons, max_from_value]

/-- non-vacuity (numbers `Fin 7`: `0` = `-∞`, `6` = `+∞`): decreasing data with a NaN, an empty
chunk in the middle of the tree and a chunk holding only NaN. -/
example : ((MTree.node (MTree.node (MTree.leaf [some 5, none, some 3]) (MTree.leaf []))
      (MTree.node (MTree.leaf [none]) (MTree.leaf [some 2, some 4])) : MTree (Option (Fin 7))).eval
        Min.new Min.add Min.merge).min = some 2 := by
  rw [min_mtree]; decide
example : ((MTree.node (MTree.node (MTree.leaf [some 5, none, some 3]) (MTree.leaf []))
      (MTree.node (MTree.leaf [none]) (MTree.leaf [some 2, some 4])) : MTree (Option (Fin 7))).eval
        Max.new Max.add Max.merge).max = some 5 := by
  rw [max_mtree]; decide
/-- nothing but NaN: `+∞` -/
example : (([none, none] : List (Option (Fin 7))).foldl Min.add Min.new).min = some 6 := by
  rw [min_fold]; decide

end Props.C14

#print axioms Props.C14.min_fold
#print axioms Props.C14.min_mtree
#print axioms Props.C14.min_is_least
#print axioms Props.C14.min_invariant
#print axioms Props.C14.min_perm
#print axioms Props.C14.min_nan_ignored
#print axioms Props.C14.min_from_value
#print axioms Props.C14.min_from_value_fold
#print axioms Props.C14.max_fold
#print axioms Props.C14.max_mtree
#print axioms Props.C14.max_is_greatest
#print axioms Props.C14.max_invariant
#print axioms Props.C14.max_perm
#print axioms Props.C14.max_nan_ignored
#print axioms Props.C14.max_from_value
#print axioms Props.C14.max_from_value_fold
