import AvgProofs.MomentsCanon
import AvgProofs.Project
import AvgProofs.RealCarrier
import AvgProofs.Round
import AvgProofs.MeanErr2
import Mathlib.Data.List.Perm.Basic
import Mathlib.Algebra.BigOperators.Group.List.Lemmas

/-!
# C01 - streaming mean and variance equal the exact statistics of the data

Carriers: E (any field of characteristic 0; ℝ where `sqrt` appears) for the algebraic claims,
R0 (any monotone rounding) for the sign of `sum_2`, R2 (standard model of rounding) for the
forward error of the running mean. `MSpec.mean xs = Σx/n`, `MSpec.sumPow xs c p = Σ (x-c)^p`.
-/
open Avg MSpec

namespace Props.C01
variable {K : Type} [Field K] [CharZero K]

/-- Every stream, of any length: the state of `Variance` after adding the observations one at a
time is exactly (count, mean, Σ(x-mean)²). -/
theorem variance_fold (xs : List K) :
    xs.foldl Variance.add Variance.new = ⟨⟨mean xs, xs.length⟩, sumPow xs (mean xs) 2⟩ := by
  have h := congrArg (fun k => k.avg.avg) (kurtosis_fold xs)
  simp only [Kurtosis.fold_avg, Skewness.fold_avg] at h
  exact h

theorem mean_fold (xs : List K) :
    xs.foldl Mean.add Mean.new = ⟨mean xs, xs.length⟩ := by
  have h := congrArg (fun v => v.avg) (variance_fold xs)
  simp only [Variance.fold_avg] at h
  exact h

/-- `len()` is the number of observations -/
theorem len_exact (xs : List K) :
    (xs.foldl Variance.add Variance.new).len = xs.length ∧ (xs.foldl Mean.add Mean.new).len = xs.length := by
  rw [variance_fold, mean_fold]; exact ⟨rfl, rfl⟩

variable [FloatOps K]

theorem mean_eq (xs : List K) (h : xs ≠ []) :
    (xs.foldl Variance.add Variance.new).mean = xs.sum / xs.length
    ∧ (xs.foldl Mean.add Mean.new).mean = xs.sum / xs.length := by
  have : 0 < xs.length := List.length_pos_of_ne_nil h
  rw [variance_fold, mean_fold]
  simp [Variance.mean, Mean.mean, this, mean]

/-- population variance = (1/n) Σ (x - mean)² -/
theorem population_variance_eq (xs : List K) (h : xs ≠ []) :
    (xs.foldl Variance.add Variance.new).populationVariance = sumPow xs (mean xs) 2 / xs.length := by
  rw [variance_fold]
  simp [Variance.populationVariance, h]

/-- sample variance = (1/(n-1)) Σ (x - mean)², for n ≥ 2 -/
theorem sample_variance_eq (xs : List K) (h : 2 ≤ xs.length) :
    (xs.foldl Variance.add Variance.new).sampleVariance
      = sumPow xs (mean xs) 2 / ((xs.length - 1 : Nat) : K) := by
  rw [variance_fold]
  have : ¬ xs.length < 2 := by omega
  simp [Variance.sampleVariance, this]

/-- variance of the mean = sample variance / n, for n ≥ 2 -/
theorem variance_of_mean_eq (xs : List K) (h : 2 ≤ xs.length) :
    (xs.foldl Variance.add Variance.new).varianceOfMean
      = sumPow xs (mean xs) 2 / ((xs.length - 1 : Nat) : K) / xs.length := by
  rw [variance_fold]
  have h0 : ¬ xs.length = 0 := by omega
  have h1 : ¬ xs.length = 1 := by omega
  have h2 : ¬ xs.length < 2 := by omega
  simp [Variance.varianceOfMean, Variance.sampleVariance, h0, h1, h2]

/-- `error()` is the square root of that (over ℝ) -/
theorem error_eq (xs : List ℝ) (h : 2 ≤ xs.length) :
    (xs.foldl Variance.add Variance.new).error
      = Real.sqrt (sumPow xs (mean xs) 2 / ((xs.length - 1 : Nat) : ℝ) / xs.length) := by
  unfold Variance.error
  rw [variance_of_mean_eq xs h]
  rfl

omit [FloatOps K] in
/-- the order of the observations is irrelevant -/
theorem order_irrelevant (xs ys : List K) (h : xs.Perm ys) :
    xs.foldl Variance.add Variance.new = ys.foldl Variance.add Variance.new := by
  rw [variance_fold, variance_fold]
  have hm : mean xs = mean ys := by simp [mean, h.sum_eq, h.length_eq]
  have hs : sumPow xs (mean ys) 2 = sumPow ys (mean ys) 2 := by
    unfold sumPow; exact (h.map _).sum_eq
  rw [hm, hs, h.length_eq]

/-- Under *any* monotone rounding after every operation, whatever the data and their conditioning,
the running sum of squares never becomes negative (so no variance accessor is negative). -/
theorem sum2_nonneg_any_rounding {F : Type} [Field F] [LinearOrder F] [IsStrictOrderedRing F]
    (r : Rnd F) (xs : List (RF r)) : 0 ≤ (xs.foldl Variance.add Variance.new).sum_2.val :=
  variance_fold_nonneg xs

/-- Forward error of the running mean in the standard model of floating-point arithmetic
(`|fl t - t| ≤ u|t|` after every operation), for every stream with `|x_i| ≤ M`, of any length `n`
with `w + n·u ≤ 1/2`, `w = (2u+u²)(1+u)`:  `|avg_n - mean| ≤ 2(2w+u)·M·n`  (≈ 10.1·n·u·M, inside
the envelope constant 12 of DESIGN.md section 5). Counts are exact. -/
theorem mean_forward_error {F : Type} [Field F] [LinearOrder F] [IsStrictOrderedRing F]
    (r : Rnd2 F) (M : F) (hM : 0 ≤ M) (xs : List (RF2 r)) (hb : ∀ x ∈ xs, |x.val| ≤ M)
    (hsmall : (2*r.u + r.u^2) * (1 + r.u) + xs.length * r.u ≤ 1/2) :
    (xs.foldl Mean.add Mean.new).n = xs.length ∧
    |(xs.foldl Mean.add Mean.new).avg.val - meanK (xs.map RF2.val)|
      ≤ 2 * M * (2 * ((2*r.u + r.u^2) * (1 + r.u)) + r.u) * xs.length :=
  mean_fold_error r M hM xs hb hsmall

/-- The same bound holds for the mean kept inside `Variance` (it is updated by the same three
rounded operations). -/
theorem variance_mean_forward_error {F : Type} [Field F] [LinearOrder F] [IsStrictOrderedRing F]
    (r : Rnd2 F) (M : F) (hM : 0 ≤ M) (xs : List (RF2 r)) (hb : ∀ x ∈ xs, |x.val| ≤ M)
    (hsmall : (2*r.u + r.u^2) * (1 + r.u) + xs.length * r.u ≤ 1/2) :
    |(xs.foldl Variance.add Variance.new).avg.avg.val - meanK (xs.map RF2.val)|
      ≤ 2 * M * (2 * ((2*r.u + r.u^2) * (1 + r.u)) + r.u) * xs.length := by
  rw [Variance.fold_avg]
  exact (mean_fold_error r M hM xs hb hsmall).2

/-- non-vacuity: a concrete stream meets the hypotheses and the statement computes -/
example : ([1, 2, 3, 6] : List ℚ).foldl Variance.add Variance.new = ⟨⟨3, 4⟩, 14⟩ := by
  rw [variance_fold]; norm_num [mean, sumPow]

end Props.C01

#print axioms Props.C01.variance_fold
#print axioms Props.C01.mean_fold
#print axioms Props.C01.len_exact
#print axioms Props.C01.mean_eq
#print axioms Props.C01.population_variance_eq
#print axioms Props.C01.sample_variance_eq
#print axioms Props.C01.variance_of_mean_eq
#print axioms Props.C01.error_eq
#print axioms Props.C01.order_irrelevant
#print axioms Props.C01.sum2_nonneg_any_rounding
#print axioms Props.C01.mean_forward_error
#print axioms Props.C01.variance_mean_forward_error
