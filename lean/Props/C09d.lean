import AvgProofs.CovMergeErrAccess
import Props.C09b
import Mathlib.Analysis.Real.Sqrt
import Mathlib.Tactic.NormNum

/-!
# C09 (third addendum) - the forward-error bounds of `Covariance` hold for every merge tree

The envelope clause of C09 "however the estimator was built (add, collect/extend, or any merge tree over
contiguous chunks)": *proved* for every merge tree, for `sum_x_2`, `sum_y_2`, `sum_prod`, the four
variances and the two covariances (not `pearson`), with bounds of the same shape as those of
`Props.C09b` for add-only streams - linear in the conditioning.

Carrier **R2** (`RF2 r`, `AvgProofs/MeanErr2.lean`): an ordered field `F` in which every `+ - * /` is
followed by a rounding `r.fl` with `|fl t - t| ≤ u·|t|` (standard model: no overflow, no underflow);
conversions of counts are exact (`n < 2^53`). `MTree (α × α)` is an arbitrary order-preserving binary merge
tree over contiguous chunks of pairs (empty and one-element chunks allowed); `Covariance.evalTree t` folds
every leaf with `Covariance.add` from `Covariance.new` and combines the summaries with `Covariance.merge`
along the tree. Notation: `n` pairs, `vals` their exact values, `fsts`/`snds` the coordinates, `|x| ≤ Mx`,
`|y| ≤ My`, `T_x = Σ(x - mean x)²` (`VarSpec.T (fsts _)`), `T_y`, `C = Σ(x - mean x)(y - mean y)`
(`CovSpec.Cxy`), `L = t.neLeaves` the number of non-empty chunks.

**1. Projection (any carrier, bit for bit).** `Covariance.merge` computes `avg_x` with the text of
`Mean.merge` and `sum_x_2` with the text of `Variance.merge` (`delta_x*delta_x * len_self * len_other /
len_total`, inner sum first) - no operation order differs - so the triple `(avg_x, n, sum_x_2)` after any
merge tree of pairs is what `Variance` computes through the same tree over the first components
(`x_part_merge`, `x_part_mtree`; likewise `y`). Hence the bounds of `Props.C02c` hold for `sum_x_2`,
`sum_y_2`, `population_variance_x/y`, `sample_variance_x/y` (`sum_x_2_mtree_forward_error`, ...).

**2. `sum_prod`.** `Covariance.merge` computes `S' = fl(S_p + fl(S_q + c'))`,
`c' = fl(fl(fl(fl(δx·δy)·n_p)·n_q)/fl(n_p+n_q))`, `δx = fl(bx - ax)`, `δy = fl(by - ay)` from the *computed*
means (`sum_prod_computed_merge`; eight rounded operations). The exact quantity obeys
`C(ps++qs) = C ps + C qs + (μx_q-μx_p)(μy_q-μy_p)·n_p·n_q/(n_p+n_q)` (`sum_prod_exact_merge`). The cross term
has no sign: its rounding (`cross_term_rounding_error`, `η = (1+u)^6/(1-u) - 1 ≤ 7.5u`) is relative to its
absolute value. `GT t` = the sum of the absolute values of all exact increments along the tree
(`Gxy` at the leaves, `|Δμx|·|Δμy|·n_p·n_q/(n_p+n_q)` at the nodes) satisfies `|C| ≤ GT t` and
`GT t² ≤ T_x·T_y` for *every* tree (`abs_increments_tree`; Cauchy-Schwarz at every node).
Results (`Rxy ≥ sqrt(T_x T_y)`, `Rx ≥ sqrt(n T_x)`, `Ry ≥ sqrt(n T_y)`, stated square-root free; `n·u ≤ 1/64`):

* `sum_prod_mtree_forward_error`: with `ε ≥ |avg_y after the first pair - y_0|` for the first pair of
  every chunk, `|sum_prod - C| ≤ 5·n·u·Rxy + (17/2)·n·u·Mx·Ry + 16·n·u·My·Rx + 44·n³u²·Mx·My + (5/4)·ε·Mx·L`
  (add-only stream, `Props.C09b.sum_prod_forward_error`: `5, 7, 16, 38` and `12·u·Mx·My`).
* `sum_prod_mtree_forward_error_exact`: `ε = 0` when the first pair of every chunk is exact
  (`ChunksFirstExact`: `fl(0 + fl(fl(y_0 - 0)/1)) = y_0`, true of IEEE arithmetic) - the target form.
* `sum_prod_mtree_forward_error_std`: standard model only, `+ 4·u·Mx·My·L`.

**The term `u·Mx·My·L` is genuine in the standard model** (`first_pair_term_per_chunk_is_genuine`): every
non-empty chunk starts with a first pair, whose `y`-mean costs three roundings there
(`Props.C09b.first_pair_term_is_genuine`); merging two one-pair chunks `(1,1)`, `(1,1)` under `awayRnd` gives
`|sum_prod - C| ≥ 6u` while `C = T_x = T_y = 0` - twice the one-chunk error.

**3. Accessors of the merged state** (one more rounded division; `T_x/n ≤ σx²`, `T_y/n ≤ σy²`):
`population_covariance_mtree_forward_error`:
`7·n·u·σx·σy + 9·n·u·Mx·σy + 17·n·u·My·σx + 45·n²u²·Mx·My + (13/10)·ε·Mx·L/n`;
`sample_covariance_mtree_forward_error` (`σ² ≥ T/(n-1)`): `7, 18, 33, 90`, `(13/10)·ε·Mx·L/(n-1)`;
`_exact` variants without the last term.

How: (i) one-step state lemma (`sum_prod_merge_state_error`): the errors `e_x`, `e_y` of the differences of
the computed means perturb the cross term by `(e_x·Δμy + e_y·Δμx + e_x·e_y)·q`, linear in the *distances of
the chunk means*; (ii) the induction over the tree carries the square-root-free envelope
`GC = (19/4)·u·n·G + (2/5)·Λ₁·n·T_y + (2/5)·κ₁·n² + (3/4)·Λ₂·n·T_x + (3/4)·κ₂·n² + (2/5)·Bx·By·n³ + (6/5)·ε·Mx·L`
for *all* `Λ₁, κ₁, Λ₂, κ₂ ≥ 0` with `Bx² ≤ Λ₁·κ₁`, `By² ≤ Λ₂·κ₂` (`Bx`, `By` the per-observation budgets of the
two means, kept by every merge tree by `Props.C02b`), which is super-additive under merge with the same
parameters (`envelope_superadditive`: `n·G - n_p·G_p - n_q·G_q ≥ G + |K|` pays for the relative errors, AM-GM
against `n·(Δμy)²·q` and `κ₁·n_p·n_q` for `Bx·n·|Δμy|·q`, `n³ - n_p³ - n_q³ = 3·n_p·n_q·n` for `e_x·e_y`);
the leaves are the add-only bound of `Props.C09b` in its general form; the two rounded additions of a
merge cost `(1+u)²`, whence the leading factor `(1+u)^(2n) ≤ 32/31`; (iii) `Λ₁ = Bx·n/Ry`, `κ₁ = Bx·Ry/n`,
`Λ₂ = By·n/Rx`, `κ₂ = By·Rx/n` at the end (`Rx, Ry > 0`; the case `Rx·Ry = 0` by a limit).

Not covered: `pearson`.
-/
open Avg MSpec Finset VarSpec CovSpec CovErr CovMerge

namespace Props.C09d

/-! ## 1. projection: the x and y parts through `merge` and merge trees (any carrier) -/

section anycarrier
variable {α : Type} [Add α] [Sub α] [Mul α] [Div α] [NatCast α]

/-- Any carrier, bit for bit: the `(avg_x, n, sum_x_2)` part of `s.merge o` is `Variance.merge` of the
`(avg_x, n, sum_x_2)` parts of `s` and `o` (same expressions in the same order, same early returns). -/
theorem x_part_merge (s o : Covariance α) :
    (s.merge o).varXState = s.varXState.merge o.varXState :=
  Covariance.merge_varXState s o

/-- Likewise the `(avg_y, n, sum_y_2)` part. -/
theorem y_part_merge (s o : Covariance α) :
    (s.merge o).varYState = s.varYState.merge o.varYState :=
  Covariance.merge_varYState s o

/-- **Any carrier, bit for bit, every merge tree**: the fields `(avg_x, n, sum_x_2)` of `Covariance` after
any merge tree over pairs are the fields `(avg, n, sum_2)` of `Variance` after the same tree (same shape,
same chunks) over the first components. -/
theorem x_part_mtree (t : MTree (α × α)) :
    (Covariance.evalTree t).varXState = Variance.evalTree (t.map Prod.fst) :=
  Covariance.mtree_varXState t

/-- Likewise `(avg_y, n, sum_y_2)` and the second components. -/
theorem y_part_mtree (t : MTree (α × α)) :
    (Covariance.evalTree t).varYState = Variance.evalTree (t.map Prod.snd) :=
  Covariance.mtree_varYState t

/-- Any carrier: the count after any merge tree is the number of pairs. -/
theorem count_mtree (t : MTree (α × α)) : (Covariance.evalTree t).n = t.flatten.length :=
  Covariance.mtree_n t

omit [Add α] [Sub α] [Mul α] in
/-- Any carrier: the four variance accessors of `Covariance` are the accessors of `Variance` applied to
the x / y part (same guards, same division) - `Props.C09b.variance_accessors`, repeated for reference. -/
theorem variance_accessors [FloatOps α] (s : Covariance α) :
    s.populationVarianceX = s.varXState.populationVariance
    ∧ s.populationVarianceY = s.varYState.populationVariance
    ∧ s.sampleVarianceX = s.varXState.sampleVariance
    ∧ s.sampleVarianceY = s.varYState.sampleVariance :=
  ⟨rfl, rfl, rfl, rfl⟩

end anycarrier

variable {F : Type} [Field F] [LinearOrder F] [IsStrictOrderedRing F]

/-! ## the exact side -/

/-- **Exact merge identity of the co-moment.** For non-empty `ps`, `qs`:
`C(ps ++ qs) = C ps + C qs + (μx_q - μx_p)(μy_q - μy_p)·n_p·n_q/(n_p+n_q)` - the quantity `Covariance.merge`
approximates in `sum_prod`. -/
theorem sum_prod_exact_merge (ps qs : List (F × F)) (hp : ps ≠ []) (hq : qs ≠ []) :
    Cxy (ps ++ qs) = Cxy ps + Cxy qs
      + (mean (fsts qs) - mean (fsts ps)) * (mean (snds qs) - mean (snds ps))
        * ((ps.length : F) * (qs.length : F) / ((ps.length : F) + (qs.length : F))) :=
  Cxy_append ps qs hp hq

omit [IsStrictOrderedRing F] in
/-- `GT t`, the sum of the absolute values of the exact increments of the co-moment along the tree `t`:
`Gxy` (`Props.C09b.co_moment_le_abs_increments`) at a leaf, and at a node the sum over the two subtrees
plus `|μx_q - μx_p|·|μy_q - μy_p|·n_p·n_q/(n_p+n_q)`. -/
theorem abs_increments_tree_def (vs : List (F × F)) (l r : MTree (F × F)) :
    GT (.leaf vs) = Gxy vs
    ∧ GT (.node l r) = GT l + GT r
        + |mean (fsts r.flatten) - mean (fsts l.flatten)|
          * |mean (snds r.flatten) - mean (snds l.flatten)|
          * ((l.flatten.length : F) * (r.flatten.length : F)
              / ((l.flatten.length : F) + (r.flatten.length : F))) :=
  ⟨rfl, rfl⟩

/-- For every merge tree: the co-moment of the whole data is at most `GT t` in absolute value, and by
Cauchy-Schwarz at every node `GT t² ≤ T_x·T_y` of the whole data. -/
theorem abs_increments_tree (t : MTree (F × F)) :
    |Cxy t.flatten| ≤ GT t ∧ 0 ≤ GT t ∧ (GT t)^2 ≤ T (fsts t.flatten) * T (snds t.flatten) :=
  ⟨abs_Cxy_le_GT t, GT_nonneg t, GT_sq_le t⟩

/-! ## one merge -/

/-- What `Covariance.merge` computes for `sum_prod` of two non-empty states at the carrier R2, operation
by operation: eight rounded operations (six for the cross term, two additions). -/
theorem sum_prod_computed_merge (r : Rnd2 F) (s o : Covariance (RF2 r)) (hs : s.n ≠ 0) (ho : o.n ≠ 0) :
    (s.merge o).sum_prod.val
      = r.fl (s.sum_prod.val + r.fl (o.sum_prod.val +
          r.fl (r.fl (r.fl (r.fl (r.fl (o.avg_x.val - s.avg_x.val)
                                  * r.fl (o.avg_y.val - s.avg_y.val))
                            * (s.n : F))
                      * (o.n : F))
                / r.fl ((s.n : F) + (o.n : F))))) :=
  sum_prod_merge_val r s o hs ho

/-- **Rounding of the cross term.** With `δx = fl(bx - ax)`, `δy = fl(by - ay)` the computed
`fl(fl(fl(fl(δx·δy)·n_p)·n_q)/fl(n_p+n_q))` is within relative error `η = (1+u)^6/(1-u) - 1` of
`I = (bx - ax)(by - ay)·n_p·n_q/(n_p+n_q)`, relative to `|I|` (`u < 1`, `n_p, n_q > 0`); `η ≤ 7.5·u` for
`u ≤ 1/64` (`Props.C02c.cross_term_eta_le`). -/
theorem cross_term_rounding_error (r : Rnd2 F) (hu1 : r.u < 1) (ax bx ay by_ nx ny : F)
    (hnx : 0 < nx) (hny : 0 < ny) :
    let δx := r.fl (bx - ax)
    let δy := r.fl (by_ - ay)
    let I := (bx - ax) * (by_ - ay) * (nx * ny / (nx + ny))
    |r.fl (r.fl (r.fl (r.fl (δx * δy) * nx) * ny) / r.fl (nx + ny)) - I|
      ≤ ((1 + r.u)^6 / (1 - r.u) - 1) * |I| :=
  CovMerge.cross_term_error r.fl r.u r.u_nonneg hu1 r.err ax bx ay by_ nx ny hnx hny

/-- **One merge step (state lemma).** The `Covariance` states `s`, `o` hold the exact counts of the
non-empty chunks `ps`, `qs`; `εx`, `εy` bound the errors of the differences of their computed means. With
`q = n_p·n_q/(n_p+n_q)`, `K = (μx_q-μx_p)(μy_q-μy_p)·q`, `η = (1+u)^6/(1-u) - 1`:
`|sum_prod' - C(ps++qs)| ≤ (1+u)²·(|s.sum_prod - C ps| + |o.sum_prod - C qs| + η·|K|
     + (1+η)·(εx·|Δμy| + εy·|Δμx| + εx·εy)·q) + (1+u)·u·|C qs + K| + u·|C(ps++qs)|`. -/
theorem sum_prod_merge_state_error (r : Rnd2 F) (hu1 : r.u < 1) (s o : Covariance (RF2 r))
    (ps qs : List (F × F)) (hp : ps ≠ []) (hq : qs ≠ [])
    (hsn : s.n = ps.length) (hon : o.n = qs.length) (εx εy : F)
    (hεx : |(o.avg_x.val - s.avg_x.val) - (mean (fsts qs) - mean (fsts ps))| ≤ εx)
    (hεy : |(o.avg_y.val - s.avg_y.val) - (mean (snds qs) - mean (snds ps))| ≤ εy) :
    let q := (ps.length : F) * (qs.length : F) / ((ps.length : F) + (qs.length : F))
    let Kc := (mean (fsts qs) - mean (fsts ps)) * (mean (snds qs) - mean (snds ps)) * q
    let η := (1 + r.u)^6 / (1 - r.u) - 1
    |(s.merge o).sum_prod.val - Cxy (ps ++ qs)|
      ≤ (1 + r.u)^2 * (|s.sum_prod.val - Cxy ps| + |o.sum_prod.val - Cxy qs| + η * |Kc|
            + (1 + η) * ((εx * |mean (snds qs) - mean (snds ps)|
                + εy * |mean (fsts qs) - mean (fsts ps)| + εx * εy) * q))
        + (1 + r.u) * r.u * |Cxy qs + Kc| + r.u * |Cxy (ps ++ qs)| :=
  sum_prod_merge_error r hu1 s o ps qs hp hq hsn hon εx εy hεx hεy

omit [LinearOrder F] [IsStrictOrderedRing F] in
/-- the envelope, spelled out -/
theorem envelope_def (u Bx By Λ₁ κ₁ Λ₂ κ₂ E n G Tx Ty L : F) :
    GC u Bx By Λ₁ κ₁ Λ₂ κ₂ E n G Tx Ty L
      = 19/4 * u * n * G + 2/5 * Λ₁ * n * Ty + 2/5 * κ₁ * n^2 + 3/4 * Λ₂ * n * Tx + 3/4 * κ₂ * n^2
        + 2/5 * Bx * By * n^3 + 6/5 * E * L := rfl

/-- **Super-additivity of the envelope.** `Λ₁, κ₁, Λ₂, κ₂ ≥ 0`, `Bx² ≤ Λ₁·κ₁`, `By² ≤ Λ₂·κ₂`; `n₁, n₂ ≥ 1`,
`q·(n₁+n₂) = n₁·n₂`; `dx`, `dy` the differences of the exact means; a relative error `η ≤ 7.5u`,
`(1+η)² ≤ 32/25` of the cross term; errors `Bx·(n₁+n₂)`, `By·(n₁+n₂)` of the differences of the computed
means: `GC(1) + GC(2) + η·|K| + (1+η)·(Bx·n·|dy| + By·n·|dx| + Bx·n·By·n)·q + 2u·(G₁+G₂+|K|) ≤ GC(merged)`
with the same parameters on both sides. -/
theorem envelope_superadditive (u Bx By Λ₁ κ₁ Λ₂ κ₂ E η n1 n2 G1 G2 Tx1 Tx2 Ty1 Ty2 L1 L2 dx dy q : F)
    (hu : 0 ≤ u) (hBx : 0 ≤ Bx) (hBy : 0 ≤ By)
    (hΛ₁ : 0 ≤ Λ₁) (hκ₁ : 0 ≤ κ₁) (hΛ₂ : 0 ≤ Λ₂) (hκ₂ : 0 ≤ κ₂)
    (h1 : Bx^2 ≤ Λ₁ * κ₁) (h2 : By^2 ≤ Λ₂ * κ₂)
    (hη0 : 0 ≤ η) (hηu : η ≤ 15/2 * u) (hη2 : (1 + η)^2 ≤ 32/25)
    (hn1 : 1 ≤ n1) (hn2 : 1 ≤ n2) (hG1 : 0 ≤ G1) (hG2 : 0 ≤ G2)
    (hTx1 : 0 ≤ Tx1) (hTx2 : 0 ≤ Tx2) (hTy1 : 0 ≤ Ty1) (hTy2 : 0 ≤ Ty2)
    (hq0 : 0 ≤ q) (hq : q * (n1 + n2) = n1 * n2) :
    GC u Bx By Λ₁ κ₁ Λ₂ κ₂ E n1 G1 Tx1 Ty1 L1 + GC u Bx By Λ₁ κ₁ Λ₂ κ₂ E n2 G2 Tx2 Ty2 L2
        + η * (|dx| * |dy| * q)
        + (1 + η) * ((Bx * (n1 + n2) * |dy| + By * (n1 + n2) * |dx|
            + Bx * (n1 + n2) * (By * (n1 + n2))) * q)
        + 2 * u * (G1 + G2 + |dx| * |dy| * q)
      ≤ GC u Bx By Λ₁ κ₁ Λ₂ κ₂ E (n1 + n2) (G1 + G2 + |dx| * |dy| * q)
          (Tx1 + Tx2 + dx^2 * q) (Ty1 + Ty2 + dy^2 * q) (L1 + L2) :=
  superadd u Bx By Λ₁ κ₁ Λ₂ κ₂ E η n1 n2 G1 G2 Tx1 Tx2 Ty1 Ty2 L1 L2 dx dy q hu hBx hBy hΛ₁ hκ₁ hΛ₂ hκ₂
    h1 h2 hη0 hηu hη2 hn1 hn2 hG1 hG2 hTx1 hTx2 hTy1 hTy2 hq0 hq

/-! ## 2. `sum_prod` through every merge tree -/

/-- `FirstEps t ε`: `ε` bounds `|avg_y after the first pair - y_0|` for the first pair `(x_0, y_0)` of every
chunk of `t`; `ChunksFirstExact t`: every chunk is `FirstExact` (`Props.C09b.firstExact_def`). In the
standard model `ε = ((1+u)³ - 1)·My` always works. -/
theorem first_pair_hypotheses (r : Rnd2 F) (t : MTree (RF2 r × RF2 r)) (ε My : F) :
    (FirstEps t ε ↔ ∀ ps ∈ t.chunks, ∀ p, ps.head? = some p →
        |((Covariance.new : Covariance (RF2 r)).add p.1 p.2).avg_y.val - p.2.val| ≤ ε)
    ∧ (ChunksFirstExact t ↔ ∀ ps ∈ t.chunks, FirstExact ps)
    ∧ (ChunksFirstExact t → FirstEps t 0)
    ∧ ((∀ p ∈ t.flatten, |p.2.val| ≤ My) → FirstEps t (((1 + r.u)^3 - 1) * My)) :=
  ⟨Iff.rfl, Iff.rfl, firstEps_of_exact, fun h => firstEps_std h⟩

/-- **The invariant.** `u ≤ 1/64`; `Bx`, `By` per-observation budgets of the two means that every merge
tree keeps (`B ≥ 2M(2w+u)`, `w = (2u+u²)(1+u)`, `w + n·u ≤ 1/2`, `5u(M + B·n) ≤ B`, as in
`Props.C02b.mean_mtree_forward_error_gen`); any `Λ₁, κ₁, Λ₂, κ₂ ≥ 0` with `Bx² ≤ Λ₁·κ₁`, `By² ≤ Λ₂·κ₂`;
`ε` a first-pair bound for every chunk. For every merge tree over `n` pairs with `|x| ≤ Mx`, `|y| ≤ My`:
`|sum_prod - C| ≤ (1+u)^(2n)·GC(n, GT t, T_x, T_y, L)`. -/
theorem sum_prod_mtree_invariant (r : Rnd2 F) (Mx My Bx By Λ₁ κ₁ Λ₂ κ₂ ε : F) (hMx : 0 ≤ Mx)
    (hMy : 0 ≤ My) (hu64 : r.u ≤ 1/64)
    (hBx : 2 * Mx * (2 * ((2*r.u + r.u^2) * (1 + r.u)) + r.u) ≤ Bx)
    (hBy : 2 * My * (2 * ((2*r.u + r.u^2) * (1 + r.u)) + r.u) ≤ By)
    (hΛ₁ : 0 ≤ Λ₁) (hκ₁ : 0 ≤ κ₁) (hΛ₂ : 0 ≤ Λ₂) (hκ₂ : 0 ≤ κ₂)
    (h1 : Bx^2 ≤ Λ₁ * κ₁) (h2 : By^2 ≤ Λ₂ * κ₂) (hε : 0 ≤ ε) (t : MTree (RF2 r × RF2 r))
    (hbx : ∀ p ∈ t.flatten, |p.1.val| ≤ Mx) (hby : ∀ p ∈ t.flatten, |p.2.val| ≤ My)
    (hs1 : (2*r.u + r.u^2) * (1 + r.u) + (t.flatten.length : F) * r.u ≤ 1/2)
    (hs2x : 5 * r.u * (Mx + Bx * (t.flatten.length : F)) ≤ Bx)
    (hs2y : 5 * r.u * (My + By * (t.flatten.length : F)) ≤ By)
    (hfirst : FirstEps t ε) :
    |(Covariance.evalTree t).sum_prod.val - Cxy (vals t.flatten)|
      ≤ (1 + r.u)^(2 * t.flatten.length)
          * GC r.u Bx By Λ₁ κ₁ Λ₂ κ₂ (ε * Mx) (t.flatten.length : F) (GT (tvals t))
              (T (fsts (vals t.flatten))) (T (snds (vals t.flatten))) (t.neLeaves : F) :=
  cov_mtree_inv r Mx My Bx By Λ₁ κ₁ Λ₂ κ₂ ε hMx hMy hu64 hBx hBy hΛ₁ hκ₁ hΛ₂ hκ₂ h1 h2 hε t hbx hby hs1
    hs2x hs2y hfirst

/-- **Symbolic in the budgets `Bx`, `By` of the means.** Same hypotheses; `n ≥ 1`; any `Rxy ≥ 0`,
`Rx, Ry > 0` with `T_x·T_y ≤ Rxy²`, `n·T_x ≤ Rx²`, `n·T_y ≤ Ry²`:
`|sum_prod - C| ≤ (1+u)^(2n)·((19/4)·u·n·Rxy + (4/5)·Bx·n·Ry + (3/2)·By·n·Rx + (2/5)·Bx·By·n³ + (6/5)·ε·Mx·L)`. -/
theorem sum_prod_mtree_forward_error_symbolic (r : Rnd2 F) (Mx My Bx By ε : F) (hMx : 0 ≤ Mx)
    (hMy : 0 ≤ My) (hu64 : r.u ≤ 1/64)
    (hBx : 2 * Mx * (2 * ((2*r.u + r.u^2) * (1 + r.u)) + r.u) ≤ Bx)
    (hBy : 2 * My * (2 * ((2*r.u + r.u^2) * (1 + r.u)) + r.u) ≤ By) (hε : 0 ≤ ε)
    (t : MTree (RF2 r × RF2 r)) (hne : t.flatten ≠ [])
    (hbx : ∀ p ∈ t.flatten, |p.1.val| ≤ Mx) (hby : ∀ p ∈ t.flatten, |p.2.val| ≤ My)
    (hs1 : (2*r.u + r.u^2) * (1 + r.u) + (t.flatten.length : F) * r.u ≤ 1/2)
    (hs2x : 5 * r.u * (Mx + Bx * (t.flatten.length : F)) ≤ Bx)
    (hs2y : 5 * r.u * (My + By * (t.flatten.length : F)) ≤ By)
    (hfirst : FirstEps t ε)
    (Rxy Rx Ry : F) (hRxy : 0 ≤ Rxy) (hRx : 0 < Rx) (hRy : 0 < Ry)
    (hxy : T (fsts (vals t.flatten)) * T (snds (vals t.flatten)) ≤ Rxy^2)
    (hx : (t.flatten.length : F) * T (fsts (vals t.flatten)) ≤ Rx^2)
    (hy : (t.flatten.length : F) * T (snds (vals t.flatten)) ≤ Ry^2) :
    |(Covariance.evalTree t).sum_prod.val - Cxy (vals t.flatten)|
      ≤ (1 + r.u)^(2 * t.flatten.length)
          * (19/4 * r.u * (t.flatten.length : F) * Rxy + 4/5 * Bx * (t.flatten.length : F) * Ry
              + 3/2 * By * (t.flatten.length : F) * Rx + 2/5 * Bx * By * (t.flatten.length : F)^3
              + 6/5 * (ε * Mx) * (t.neLeaves : F)) :=
  cov_mtree_error_sym r Mx My Bx By ε hMx hMy hu64 hBx hBy hε t hne hbx hby hs1 hs2x hs2y hfirst
    Rxy Rx Ry hRxy hRx hRy hxy hx hy

/-- **`sum_prod`, every merge tree, any first-pair bound `ε`.** In the standard model of rounding with
unit roundoff `u`, for every merge tree `t` of pairs (any shape, any chunk sizes, empty and one-element
chunks included; leaves folded with `Covariance.add`, nodes merged with `Covariance.merge`) over `n` pairs
with `|x| ≤ Mx`, `|y| ≤ My` and `n·u ≤ 1/64`, `ε ≥ 0` with `|avg_y after the first pair - y_0| ≤ ε` for the
first pair of every chunk, `L` the number of non-empty chunks, any `Rxy, Rx, Ry ≥ 0` with
`T_x·T_y ≤ Rxy²`, `n·T_x ≤ Rx²`, `n·T_y ≤ Ry²`:
`|sum_prod - C| ≤ 5·n·u·Rxy + (17/2)·n·u·Mx·Ry + 16·n·u·My·Rx + 44·n³·u²·Mx·My + (5/4)·ε·Mx·L`. -/
theorem sum_prod_mtree_forward_error (r : Rnd2 F) (Mx My ε : F) (hMx : 0 ≤ Mx) (hMy : 0 ≤ My)
    (hε : 0 ≤ ε) (t : MTree (RF2 r × RF2 r))
    (hbx : ∀ p ∈ t.flatten, |p.1.val| ≤ Mx) (hby : ∀ p ∈ t.flatten, |p.2.val| ≤ My)
    (hsmall : (t.flatten.length : F) * r.u ≤ 1/64) (hfirst : FirstEps t ε)
    (Rxy Rx Ry : F) (hRxy : 0 ≤ Rxy) (hRx : 0 ≤ Rx) (hRy : 0 ≤ Ry)
    (hxy : T (fsts (vals t.flatten)) * T (snds (vals t.flatten)) ≤ Rxy^2)
    (hx : (t.flatten.length : F) * T (fsts (vals t.flatten)) ≤ Rx^2)
    (hy : (t.flatten.length : F) * T (snds (vals t.flatten)) ≤ Ry^2) :
    |(Covariance.evalTree t).sum_prod.val - Cxy (vals t.flatten)|
      ≤ 5 * (t.flatten.length : F) * r.u * Rxy + 17/2 * (t.flatten.length : F) * r.u * Mx * Ry
        + 16 * (t.flatten.length : F) * r.u * My * Rx
        + 44 * (t.flatten.length : F)^3 * r.u^2 * Mx * My + 5/4 * (ε * Mx) * (t.neLeaves : F) :=
  cov_mtree_error_lin r Mx My ε hMx hMy hε t hbx hby hsmall hfirst Rxy Rx Ry hRxy hRx hRy hxy hx hy

/-- **`sum_prod`, every merge tree, first pair of every chunk exact (the target form).**
`|sum_prod - C| ≤ 5·n·u·Rxy + (17/2)·n·u·Mx·Ry + 16·n·u·My·Rx + 44·n³·u²·Mx·My`. -/
theorem sum_prod_mtree_forward_error_exact (r : Rnd2 F) (Mx My : F) (hMx : 0 ≤ Mx) (hMy : 0 ≤ My)
    (t : MTree (RF2 r × RF2 r))
    (hbx : ∀ p ∈ t.flatten, |p.1.val| ≤ Mx) (hby : ∀ p ∈ t.flatten, |p.2.val| ≤ My)
    (hsmall : (t.flatten.length : F) * r.u ≤ 1/64) (hfirst : ChunksFirstExact t)
    (Rxy Rx Ry : F) (hRxy : 0 ≤ Rxy) (hRx : 0 ≤ Rx) (hRy : 0 ≤ Ry)
    (hxy : T (fsts (vals t.flatten)) * T (snds (vals t.flatten)) ≤ Rxy^2)
    (hx : (t.flatten.length : F) * T (fsts (vals t.flatten)) ≤ Rx^2)
    (hy : (t.flatten.length : F) * T (snds (vals t.flatten)) ≤ Ry^2) :
    |(Covariance.evalTree t).sum_prod.val - Cxy (vals t.flatten)|
      ≤ 5 * (t.flatten.length : F) * r.u * Rxy + 17/2 * (t.flatten.length : F) * r.u * Mx * Ry
        + 16 * (t.flatten.length : F) * r.u * My * Rx
        + 44 * (t.flatten.length : F)^3 * r.u^2 * Mx * My :=
  cov_mtree_error_exact r Mx My hMx hMy t hbx hby hsmall hfirst Rxy Rx Ry hRxy hRx hRy hxy hx hy

/-- **`sum_prod`, every merge tree, standard model only**: the same `+ 4·u·Mx·My·L`, `L` the number of
non-empty chunks. -/
theorem sum_prod_mtree_forward_error_std (r : Rnd2 F) (Mx My : F) (hMx : 0 ≤ Mx) (hMy : 0 ≤ My)
    (t : MTree (RF2 r × RF2 r))
    (hbx : ∀ p ∈ t.flatten, |p.1.val| ≤ Mx) (hby : ∀ p ∈ t.flatten, |p.2.val| ≤ My)
    (hsmall : (t.flatten.length : F) * r.u ≤ 1/64)
    (Rxy Rx Ry : F) (hRxy : 0 ≤ Rxy) (hRx : 0 ≤ Rx) (hRy : 0 ≤ Ry)
    (hxy : T (fsts (vals t.flatten)) * T (snds (vals t.flatten)) ≤ Rxy^2)
    (hx : (t.flatten.length : F) * T (fsts (vals t.flatten)) ≤ Rx^2)
    (hy : (t.flatten.length : F) * T (snds (vals t.flatten)) ≤ Ry^2) :
    |(Covariance.evalTree t).sum_prod.val - Cxy (vals t.flatten)|
      ≤ 5 * (t.flatten.length : F) * r.u * Rxy + 17/2 * (t.flatten.length : F) * r.u * Mx * Ry
        + 16 * (t.flatten.length : F) * r.u * My * Rx
        + 44 * (t.flatten.length : F)^3 * r.u^2 * Mx * My
        + 4 * r.u * Mx * My * (t.neLeaves : F) :=
  cov_mtree_error_std r Mx My hMx hMy t hbx hby hsmall Rxy Rx Ry hRxy hRx hRy hxy hx hy

/-- The number of non-empty chunks is at most the number of pairs and at most the number of chunks
(`= merges + 1`). -/
theorem nonempty_chunks_le {α : Type} (t : MTree α) :
    t.neLeaves ≤ t.flatten.length ∧ t.neLeaves ≤ t.merges + 1 := by
  refine ⟨MTree.neLeaves_le_length t, ?_⟩
  rw [← MTree.length_chunks]; exact MTree.neLeaves_le_chunks t

/-- The same over ℝ with square roots, first pair of every chunk exact:
`|sum_prod - C| ≤ 5·n·u·sqrt(T_x·T_y) + (17/2)·n·u·Mx·sqrt(n·T_y) + 16·n·u·My·sqrt(n·T_x) + 44·n³·u²·Mx·My`. -/
theorem sum_prod_mtree_forward_error_exact_sqrt (r : Rnd2 ℝ) (Mx My : ℝ) (hMx : 0 ≤ Mx)
    (hMy : 0 ≤ My) (t : MTree (RF2 r × RF2 r))
    (hbx : ∀ p ∈ t.flatten, |p.1.val| ≤ Mx) (hby : ∀ p ∈ t.flatten, |p.2.val| ≤ My)
    (hsmall : (t.flatten.length : ℝ) * r.u ≤ 1/64) (hfirst : ChunksFirstExact t) :
    |(Covariance.evalTree t).sum_prod.val - Cxy (vals t.flatten)|
      ≤ 5 * (t.flatten.length : ℝ) * r.u
            * Real.sqrt (T (fsts (vals t.flatten)) * T (snds (vals t.flatten)))
        + 17/2 * (t.flatten.length : ℝ) * r.u * Mx
            * Real.sqrt ((t.flatten.length : ℝ) * T (snds (vals t.flatten)))
        + 16 * (t.flatten.length : ℝ) * r.u * My
            * Real.sqrt ((t.flatten.length : ℝ) * T (fsts (vals t.flatten)))
        + 44 * (t.flatten.length : ℝ)^3 * r.u^2 * Mx * My :=
  cov_mtree_error_exact r Mx My hMx hMy t hbx hby hsmall hfirst _ _ _ (Real.sqrt_nonneg _)
    (Real.sqrt_nonneg _) (Real.sqrt_nonneg _)
    (le_of_eq (Real.sq_sqrt (mul_nonneg (T_nonneg _) (T_nonneg _))).symm)
    (le_of_eq (Real.sq_sqrt (mul_nonneg (Nat.cast_nonneg _) (T_nonneg _))).symm)
    (le_of_eq (Real.sq_sqrt (mul_nonneg (Nat.cast_nonneg _) (T_nonneg _))).symm)

/-! ## `sum_x_2`, `sum_y_2` and the four variances: the bounds of `Props.C02c`, transferred -/

/-- `sum_x_2` after every merge tree of pairs (`n·u ≤ 1/64`, `n·T_x ≤ R₀²`):
`|sum_x_2 - T_x| ≤ 10·n·u·T_x + 17·n·u·Mx·R₀ + 45·n³·u²·Mx²`. -/
theorem sum_x_2_mtree_forward_error (r : Rnd2 F) (M : F) (hM : 0 ≤ M) (t : MTree (RF2 r × RF2 r))
    (hb : ∀ p ∈ t.flatten, |p.1.val| ≤ M) (hsmall : (t.flatten.length : F) * r.u ≤ 1/64)
    (R₀ : F) (hR : 0 ≤ R₀) (hRT : (t.flatten.length : F) * T (fsts (vals t.flatten)) ≤ R₀^2) :
    |(Covariance.evalTree t).sum_x_2.val - T (fsts (vals t.flatten))|
      ≤ 10 * (t.flatten.length : F) * r.u * T (fsts (vals t.flatten))
        + 17 * (t.flatten.length : F) * r.u * M * R₀
        + 45 * (t.flatten.length : F)^3 * r.u^2 * M^2 :=
  sum_x_2_mtree_error_lin r M hM t hb hsmall R₀ hR hRT

/-- `sum_y_2` after every merge tree of pairs:
`|sum_y_2 - T_y| ≤ 10·n·u·T_y + 17·n·u·My·R₀ + 45·n³·u²·My²`. -/
theorem sum_y_2_mtree_forward_error (r : Rnd2 F) (M : F) (hM : 0 ≤ M) (t : MTree (RF2 r × RF2 r))
    (hb : ∀ p ∈ t.flatten, |p.2.val| ≤ M) (hsmall : (t.flatten.length : F) * r.u ≤ 1/64)
    (R₀ : F) (hR : 0 ≤ R₀) (hRT : (t.flatten.length : F) * T (snds (vals t.flatten)) ≤ R₀^2) :
    |(Covariance.evalTree t).sum_y_2.val - T (snds (vals t.flatten))|
      ≤ 10 * (t.flatten.length : F) * r.u * T (snds (vals t.flatten))
        + 17 * (t.flatten.length : F) * r.u * M * R₀
        + 45 * (t.flatten.length : F)^3 * r.u^2 * M^2 :=
  sum_y_2_mtree_error_lin r M hM t hb hsmall R₀ hR hRT

/-- **All of the state of `Covariance` through every merge tree, one statement** (first pair of every
chunk exact, `n·u ≤ 1/64`): the count is exact, the means are within `11·u·M·n` of the exact means
(`Props.C02b.covariance_mtree_means_forward_error`), `sum_x_2`, `sum_y_2` within
`10·n·u·T + 17·n·u·M·R + 45·n³·u²·M²`, and `sum_prod` within
`5·n·u·Rxy + (17/2)·n·u·Mx·Ry + 16·n·u·My·Rx + 44·n³·u²·Mx·My`. -/
theorem covariance_mtree_forward_error (r : Rnd2 F) (Mx My : F) (hMx : 0 ≤ Mx) (hMy : 0 ≤ My)
    (t : MTree (RF2 r × RF2 r))
    (hbx : ∀ p ∈ t.flatten, |p.1.val| ≤ Mx) (hby : ∀ p ∈ t.flatten, |p.2.val| ≤ My)
    (hsmall : (t.flatten.length : F) * r.u ≤ 1/64) (hfirst : ChunksFirstExact t)
    (Rxy Rx Ry : F) (hRxy : 0 ≤ Rxy) (hRx : 0 ≤ Rx) (hRy : 0 ≤ Ry)
    (hxy : T (fsts (vals t.flatten)) * T (snds (vals t.flatten)) ≤ Rxy^2)
    (hx : (t.flatten.length : F) * T (fsts (vals t.flatten)) ≤ Rx^2)
    (hy : (t.flatten.length : F) * T (snds (vals t.flatten)) ≤ Ry^2) :
    (Covariance.evalTree t).n = t.flatten.length
    ∧ |(Covariance.evalTree t).avg_x.val - mean (fsts (vals t.flatten))|
        ≤ 11 * r.u * Mx * (t.flatten.length : F)
    ∧ |(Covariance.evalTree t).avg_y.val - mean (snds (vals t.flatten))|
        ≤ 11 * r.u * My * (t.flatten.length : F)
    ∧ |(Covariance.evalTree t).sum_x_2.val - T (fsts (vals t.flatten))|
        ≤ 10 * (t.flatten.length : F) * r.u * T (fsts (vals t.flatten))
          + 17 * (t.flatten.length : F) * r.u * Mx * Rx
          + 45 * (t.flatten.length : F)^3 * r.u^2 * Mx^2
    ∧ |(Covariance.evalTree t).sum_y_2.val - T (snds (vals t.flatten))|
        ≤ 10 * (t.flatten.length : F) * r.u * T (snds (vals t.flatten))
          + 17 * (t.flatten.length : F) * r.u * My * Ry
          + 45 * (t.flatten.length : F)^3 * r.u^2 * My^2
    ∧ |(Covariance.evalTree t).sum_prod.val - Cxy (vals t.flatten)|
        ≤ 5 * (t.flatten.length : F) * r.u * Rxy + 17/2 * (t.flatten.length : F) * r.u * Mx * Ry
          + 16 * (t.flatten.length : F) * r.u * My * Rx
          + 44 * (t.flatten.length : F)^3 * r.u^2 * Mx * My := by
  obtain ⟨h1, h2, h3⟩ := cov_mtree_means_lin r Mx My hMx hMy t hbx hby hsmall
  exact ⟨h1, h2, h3, sum_x_2_mtree_error_lin r Mx hMx t hbx hsmall Rx hRx hx,
    sum_y_2_mtree_error_lin r My hMy t hby hsmall Ry hRy hy,
    cov_mtree_error_exact r Mx My hMx hMy t hbx hby hsmall hfirst Rxy Rx Ry hRxy hRx hRy hxy hx hy⟩

section access
variable {r : Rnd2 F} [FloatOps (RF2 r)]

/-- `population_variance_x` after every merge tree (`n ≥ 1`, `var_x = T_x/n ≤ σ²`): the accessor takes
its non-`nan` branch and `|population_variance_x - var_x| ≤ 12·n·u·var_x + 18·n·u·Mx·σ + 46·n²·u²·Mx²`. -/
theorem population_variance_x_mtree_forward_error (M : F) (hM : 0 ≤ M) (t : MTree (RF2 r × RF2 r))
    (hne : t.flatten ≠ [])
    (hb : ∀ p ∈ t.flatten, |p.1.val| ≤ M) (hsmall : (t.flatten.length : F) * r.u ≤ 1/64)
    (σ : F) (hσ : 0 ≤ σ) (hvar : T (fsts (vals t.flatten)) / (t.flatten.length : F) ≤ σ^2) :
    (Covariance.evalTree t).n ≠ 0
    ∧ |(Covariance.evalTree t).populationVarianceX.val
        - T (fsts (vals t.flatten)) / (t.flatten.length : F)|
      ≤ 12 * (t.flatten.length : F) * r.u * (T (fsts (vals t.flatten)) / (t.flatten.length : F))
        + 18 * (t.flatten.length : F) * r.u * M * σ + 46 * (t.flatten.length : F)^2 * r.u^2 * M^2 := by
  refine ⟨?_, popvar_x_mtree_error_lin M hM t hne hb hsmall σ hσ hvar⟩
  rw [Covariance.mtree_n]; exact fun h => hne (List.length_eq_zero_iff.mp h)

/-- `population_variance_y` after every merge tree: `12·n·u·var_y + 18·n·u·My·σ + 46·n²·u²·My²`. -/
theorem population_variance_y_mtree_forward_error (M : F) (hM : 0 ≤ M) (t : MTree (RF2 r × RF2 r))
    (hne : t.flatten ≠ [])
    (hb : ∀ p ∈ t.flatten, |p.2.val| ≤ M) (hsmall : (t.flatten.length : F) * r.u ≤ 1/64)
    (σ : F) (hσ : 0 ≤ σ) (hvar : T (snds (vals t.flatten)) / (t.flatten.length : F) ≤ σ^2) :
    |(Covariance.evalTree t).populationVarianceY.val
        - T (snds (vals t.flatten)) / (t.flatten.length : F)|
      ≤ 12 * (t.flatten.length : F) * r.u * (T (snds (vals t.flatten)) / (t.flatten.length : F))
        + 18 * (t.flatten.length : F) * r.u * M * σ + 46 * (t.flatten.length : F)^2 * r.u^2 * M^2 :=
  popvar_y_mtree_error_lin M hM t hne hb hsmall σ hσ hvar

/-- `sample_variance_x` after every merge tree (`n ≥ 2`, `s² = T_x/(n-1) ≤ σ²`): the accessor takes its
non-`nan` branch and `|sample_variance_x - s²| ≤ 12·n·u·s² + 35·n·u·Mx·σ + 92·n²·u²·Mx²`. -/
theorem sample_variance_x_mtree_forward_error (M : F) (hM : 0 ≤ M) (t : MTree (RF2 r × RF2 r))
    (h2 : 2 ≤ t.flatten.length)
    (hb : ∀ p ∈ t.flatten, |p.1.val| ≤ M) (hsmall : (t.flatten.length : F) * r.u ≤ 1/64)
    (σ : F) (hσ : 0 ≤ σ)
    (hvar : T (fsts (vals t.flatten)) / ((t.flatten.length - 1 : ℕ) : F) ≤ σ^2) :
    ¬ (Covariance.evalTree t).n < 2
    ∧ |(Covariance.evalTree t).sampleVarianceX.val
        - T (fsts (vals t.flatten)) / ((t.flatten.length - 1 : ℕ) : F)|
      ≤ 12 * (t.flatten.length : F) * r.u
            * (T (fsts (vals t.flatten)) / ((t.flatten.length - 1 : ℕ) : F))
        + 35 * (t.flatten.length : F) * r.u * M * σ + 92 * (t.flatten.length : F)^2 * r.u^2 * M^2 := by
  refine ⟨?_, samplevar_x_mtree_error_lin M hM t h2 hb hsmall σ hσ hvar⟩
  rw [Covariance.mtree_n]; omega

/-- `sample_variance_y` after every merge tree: `12·n·u·s² + 35·n·u·My·σ + 92·n²·u²·My²`. -/
theorem sample_variance_y_mtree_forward_error (M : F) (hM : 0 ≤ M) (t : MTree (RF2 r × RF2 r))
    (h2 : 2 ≤ t.flatten.length)
    (hb : ∀ p ∈ t.flatten, |p.2.val| ≤ M) (hsmall : (t.flatten.length : F) * r.u ≤ 1/64)
    (σ : F) (hσ : 0 ≤ σ)
    (hvar : T (snds (vals t.flatten)) / ((t.flatten.length - 1 : ℕ) : F) ≤ σ^2) :
    |(Covariance.evalTree t).sampleVarianceY.val
        - T (snds (vals t.flatten)) / ((t.flatten.length - 1 : ℕ) : F)|
      ≤ 12 * (t.flatten.length : F) * r.u
            * (T (snds (vals t.flatten)) / ((t.flatten.length - 1 : ℕ) : F))
        + 35 * (t.flatten.length : F) * r.u * M * σ + 92 * (t.flatten.length : F)^2 * r.u^2 * M^2 :=
  samplevar_y_mtree_error_lin M hM t h2 hb hsmall σ hσ hvar

/-! ## 3. the covariances of the merged state -/

/-- **Population covariance after every merge tree, any first-pair bound `ε`.** Whatever the
non-arithmetic operations of the carrier are, `n ≥ 1` pairs, `n·u ≤ 1/64`, `cov = C/n`, any `σx, σy ≥ 0` with
`T_x/n ≤ σx²`, `T_y/n ≤ σy²`: the accessor takes its non-`nan` branch and
`|population_covariance - cov| ≤ 7·n·u·σx·σy + 9·n·u·Mx·σy + 17·n·u·My·σx + 45·n²·u²·Mx·My
    + (13/10)·ε·Mx·L/n`. -/
theorem population_covariance_mtree_forward_error (Mx My ε : F) (hMx : 0 ≤ Mx) (hMy : 0 ≤ My)
    (hε : 0 ≤ ε) (t : MTree (RF2 r × RF2 r)) (hne : t.flatten ≠ [])
    (hbx : ∀ p ∈ t.flatten, |p.1.val| ≤ Mx) (hby : ∀ p ∈ t.flatten, |p.2.val| ≤ My)
    (hsmall : (t.flatten.length : F) * r.u ≤ 1/64) (hfirst : FirstEps t ε)
    (σx σy : F) (hσx : 0 ≤ σx) (hσy : 0 ≤ σy)
    (hvx : T (fsts (vals t.flatten)) / (t.flatten.length : F) ≤ σx^2)
    (hvy : T (snds (vals t.flatten)) / (t.flatten.length : F) ≤ σy^2) :
    ¬ (Covariance.evalTree t).n < 1
    ∧ |(Covariance.evalTree t).populationCovariance.val
        - Cxy (vals t.flatten) / (t.flatten.length : F)|
      ≤ 7 * (t.flatten.length : F) * r.u * σx * σy + 9 * (t.flatten.length : F) * r.u * Mx * σy
        + 17 * (t.flatten.length : F) * r.u * My * σx
        + 45 * (t.flatten.length : F)^2 * r.u^2 * Mx * My
        + 13/10 * (ε * Mx) * (t.neLeaves : F) / (t.flatten.length : F) := by
  refine ⟨?_, popcov_mtree_error Mx My ε hMx hMy hε t hne hbx hby hsmall hfirst σx σy hσx hσy hvx hvy⟩
  rw [Covariance.mtree_n]
  have := List.length_pos_of_ne_nil hne
  omega

/-- **Population covariance after every merge tree, first pair of every chunk exact.**
`|population_covariance - cov| ≤ 7·n·u·σx·σy + 9·n·u·Mx·σy + 17·n·u·My·σx + 45·n²·u²·Mx·My`. -/
theorem population_covariance_mtree_forward_error_exact (Mx My : F) (hMx : 0 ≤ Mx) (hMy : 0 ≤ My)
    (t : MTree (RF2 r × RF2 r)) (hne : t.flatten ≠ [])
    (hbx : ∀ p ∈ t.flatten, |p.1.val| ≤ Mx) (hby : ∀ p ∈ t.flatten, |p.2.val| ≤ My)
    (hsmall : (t.flatten.length : F) * r.u ≤ 1/64) (hfirst : ChunksFirstExact t)
    (σx σy : F) (hσx : 0 ≤ σx) (hσy : 0 ≤ σy)
    (hvx : T (fsts (vals t.flatten)) / (t.flatten.length : F) ≤ σx^2)
    (hvy : T (snds (vals t.flatten)) / (t.flatten.length : F) ≤ σy^2) :
    |(Covariance.evalTree t).populationCovariance.val
        - Cxy (vals t.flatten) / (t.flatten.length : F)|
      ≤ 7 * (t.flatten.length : F) * r.u * σx * σy + 9 * (t.flatten.length : F) * r.u * Mx * σy
        + 17 * (t.flatten.length : F) * r.u * My * σx
        + 45 * (t.flatten.length : F)^2 * r.u^2 * Mx * My := by
  have h := popcov_mtree_error Mx My 0 hMx hMy le_rfl t hne hbx hby hsmall (firstEps_of_exact hfirst)
    σx σy hσx hσy hvx hvy
  simpa using h

/-- **Sample covariance after every merge tree, any first-pair bound `ε`.** `n ≥ 2` pairs, `n·u ≤ 1/64`,
`cov = C/(n-1)`, `T_x/(n-1) ≤ σx²`, `T_y/(n-1) ≤ σy²`: the accessor takes its non-`nan` branch and
`|sample_covariance - cov| ≤ 7·n·u·σx·σy + 18·n·u·Mx·σy + 33·n·u·My·σx + 90·n²·u²·Mx·My
    + (13/10)·ε·Mx·L/(n-1)`. -/
theorem sample_covariance_mtree_forward_error (Mx My ε : F) (hMx : 0 ≤ Mx) (hMy : 0 ≤ My)
    (hε : 0 ≤ ε) (t : MTree (RF2 r × RF2 r)) (h2 : 2 ≤ t.flatten.length)
    (hbx : ∀ p ∈ t.flatten, |p.1.val| ≤ Mx) (hby : ∀ p ∈ t.flatten, |p.2.val| ≤ My)
    (hsmall : (t.flatten.length : F) * r.u ≤ 1/64) (hfirst : FirstEps t ε)
    (σx σy : F) (hσx : 0 ≤ σx) (hσy : 0 ≤ σy)
    (hvx : T (fsts (vals t.flatten)) / ((t.flatten.length - 1 : ℕ) : F) ≤ σx^2)
    (hvy : T (snds (vals t.flatten)) / ((t.flatten.length - 1 : ℕ) : F) ≤ σy^2) :
    ¬ (Covariance.evalTree t).n < 2
    ∧ |(Covariance.evalTree t).sampleCovariance.val
        - Cxy (vals t.flatten) / ((t.flatten.length - 1 : ℕ) : F)|
      ≤ 7 * (t.flatten.length : F) * r.u * σx * σy + 18 * (t.flatten.length : F) * r.u * Mx * σy
        + 33 * (t.flatten.length : F) * r.u * My * σx
        + 90 * (t.flatten.length : F)^2 * r.u^2 * Mx * My
        + 13/10 * (ε * Mx) * (t.neLeaves : F) / ((t.flatten.length - 1 : ℕ) : F) := by
  refine ⟨?_, samplecov_mtree_error Mx My ε hMx hMy hε t h2 hbx hby hsmall hfirst σx σy hσx hσy hvx hvy⟩
  rw [Covariance.mtree_n]; omega

/-- **Sample covariance after every merge tree, first pair of every chunk exact.**
`|sample_covariance - cov| ≤ 7·n·u·σx·σy + 18·n·u·Mx·σy + 33·n·u·My·σx + 90·n²·u²·Mx·My`. -/
theorem sample_covariance_mtree_forward_error_exact (Mx My : F) (hMx : 0 ≤ Mx) (hMy : 0 ≤ My)
    (t : MTree (RF2 r × RF2 r)) (h2 : 2 ≤ t.flatten.length)
    (hbx : ∀ p ∈ t.flatten, |p.1.val| ≤ Mx) (hby : ∀ p ∈ t.flatten, |p.2.val| ≤ My)
    (hsmall : (t.flatten.length : F) * r.u ≤ 1/64) (hfirst : ChunksFirstExact t)
    (σx σy : F) (hσx : 0 ≤ σx) (hσy : 0 ≤ σy)
    (hvx : T (fsts (vals t.flatten)) / ((t.flatten.length - 1 : ℕ) : F) ≤ σx^2)
    (hvy : T (snds (vals t.flatten)) / ((t.flatten.length - 1 : ℕ) : F) ≤ σy^2) :
    |(Covariance.evalTree t).sampleCovariance.val
        - Cxy (vals t.flatten) / ((t.flatten.length - 1 : ℕ) : F)|
      ≤ 7 * (t.flatten.length : F) * r.u * σx * σy + 18 * (t.flatten.length : F) * r.u * Mx * σy
        + 33 * (t.flatten.length : F) * r.u * My * σx
        + 90 * (t.flatten.length : F)^2 * r.u^2 * Mx * My := by
  have h := samplecov_mtree_error Mx My 0 hMx hMy le_rfl t h2 hbx hby hsmall (firstEps_of_exact hfirst)
    σx σy hσx hσy hvx hvy
  simpa using h

end access

/-! ## Non-vacuity -/

open Props.C02b (awayRnd)
open Props.C09b (intRnd)

/-- the ill-conditioned pairs of `Props.C09b.exPairs` (offsets 1000 and 5000, spreads 4) in a tree with a
nested merge, an empty chunk in the middle, a one-element chunk and unequal chunk sizes -/
def exTree (r : Rnd2 ℚ) : MTree (RF2 r × RF2 r) :=
  .node (.leaf [(⟨1001⟩, ⟨5007⟩), (⟨999⟩, ⟨5003⟩), (⟨1002⟩, ⟨5006⟩)])
    (.node (.leaf []) (.leaf [(⟨998⟩, ⟨5004⟩)]))

theorem exTree_spec (r : Rnd2 ℚ) :
    T (fsts (vals (exTree r).flatten)) = 10 ∧ T (snds (vals (exTree r).flatten)) = 10
    ∧ Cxy (vals (exTree r).flatten) = 8 := by
  refine ⟨?_, ?_, ?_⟩ <;>
    norm_num [exTree, MTree.flatten, vals, fsts, snds, T, Cxy, coSum, sumPow, mean]

theorem exTree_bounds (r : Rnd2 ℚ) :
    (∀ p ∈ (exTree r).flatten, |p.1.val| ≤ 1002) ∧ (∀ p ∈ (exTree r).flatten, |p.2.val| ≤ 5007) := by
  constructor <;>
  · intro p hp
    simp only [exTree, MTree.flatten, List.nil_append, List.mem_append, List.mem_cons,
      List.not_mem_nil, or_false] at hp
    rcases hp with (rfl | rfl | rfl) | rfl <;> norm_num

theorem exTree_counts (r : Rnd2 ℚ) :
    ((exTree r).flatten.length : ℚ) = 4 ∧ ((exTree r).neLeaves : ℚ) = 2 := by
  constructor <;> norm_num [exTree, MTree.flatten, MTree.neLeaves]

/-- the first pair of every chunk of `exTree` is exact under `intRnd` (the `y`s are integers) -/
theorem exTree_firstExact : ChunksFirstExact (exTree intRnd) := by
  intro ps hps
  rw [firstExact_iff]
  intro p hp
  simp only [exTree, MTree.chunks, List.cons_append, List.nil_append, List.mem_cons,
    List.not_mem_nil, or_false] at hps
  rcases hps with rfl | rfl | rfl
  · simp only [List.head?_cons, Option.some.injEq] at hp
    subst hp; norm_num [intRnd]
  · simp at hp
  · simp only [List.head?_cons, Option.some.injEq] at hp
    subst hp; norm_num [intRnd]

/-- the hypotheses of `sum_prod_mtree_forward_error_exact` are met by `exTree intRnd` with `Mx = 1002`,
`My = 5007`, `u = 2^-53`, `Rxy = 10`, `Rx = Ry = 7` (`n·T = 40 ≤ 49`), and the conclusion is a concrete
statement about a computation (leaves of 3, 0 and 1 pairs, one merge with an empty state, one merge of two
non-empty states: 8 rounded operations for `sum_prod` on top of 2·5 for the means): the computed `sum_prod`
is within about `2.5·10^6·u` of the exact `C = 8`; a bound quadratic in the offsets, `n²·u·Mx·My`, would be
`8·10^7·u`. -/
example : |(Covariance.evalTree (exTree intRnd)).sum_prod.val - 8|
    ≤ 5 * 4 * (1/2^53) * 10 + 17/2 * 4 * (1/2^53) * 1002 * 7 + 16 * 4 * (1/2^53) * 5007 * 7
      + 44 * (4:ℚ)^3 * (1/2^53)^2 * 1002 * 5007 := by
  obtain ⟨hTx, hTy, hC⟩ := exTree_spec intRnd
  obtain ⟨hbx, hby⟩ := exTree_bounds intRnd
  obtain ⟨hl, _⟩ := exTree_counts intRnd
  have hu : intRnd.u = 1/2^53 := rfl
  have h := sum_prod_mtree_forward_error_exact intRnd 1002 5007 (by norm_num) (by norm_num)
    (exTree intRnd) hbx hby (by rw [hl, hu]; norm_num) exTree_firstExact 10 7 7
    (by norm_num) (by norm_num) (by norm_num)
    (by rw [hTx, hTy]; norm_num) (by rw [hTx, hl]; norm_num) (by rw [hTy, hl]; norm_num)
  rw [hC, hl, hu] at h
  exact h

/-- under `awayRnd` (never exact) no first pair is exact; `sum_prod_mtree_forward_error_std` applies and
gives the same bound `+ 4·u·1002·5007·2` (two non-empty chunks) -/
example : |(Covariance.evalTree (exTree awayRnd)).sum_prod.val - 8|
    ≤ 5 * 4 * (1/2^53) * 10 + 17/2 * 4 * (1/2^53) * 1002 * 7 + 16 * 4 * (1/2^53) * 5007 * 7
      + 44 * (4:ℚ)^3 * (1/2^53)^2 * 1002 * 5007 + 4 * (1/2^53) * 1002 * 5007 * 2 := by
  obtain ⟨hTx, hTy, hC⟩ := exTree_spec awayRnd
  obtain ⟨hbx, hby⟩ := exTree_bounds awayRnd
  obtain ⟨hl, hL⟩ := exTree_counts awayRnd
  have hu : awayRnd.u = 1/2^53 := rfl
  have h := sum_prod_mtree_forward_error_std awayRnd 1002 5007 (by norm_num) (by norm_num)
    (exTree awayRnd) hbx hby (by rw [hl, hu]; norm_num) 10 7 7
    (by norm_num) (by norm_num) (by norm_num)
    (by rw [hTx, hTy]; norm_num) (by rw [hTx, hl]; norm_num) (by rw [hTy, hl]; norm_num)
  rw [hC, hl, hL, hu] at h
  exact h

/-- the hypotheses of `population_covariance_mtree_forward_error_exact` are met by `exTree intRnd` (any
`FloatOps` instance) with `σx = σy = 2` (`var = 10/4 ≤ 4`) -/
example [FloatOps (RF2 intRnd)] :
    |(Covariance.evalTree (exTree intRnd)).populationCovariance.val - 8 / 4|
      ≤ 7 * 4 * (1/2^53) * 2 * 2 + 9 * 4 * (1/2^53) * 1002 * 2 + 17 * 4 * (1/2^53) * 5007 * 2
        + 45 * (4:ℚ)^2 * (1/2^53)^2 * 1002 * 5007 := by
  obtain ⟨hTx, hTy, hC⟩ := exTree_spec intRnd
  obtain ⟨hbx, hby⟩ := exTree_bounds intRnd
  obtain ⟨hl, _⟩ := exTree_counts intRnd
  have hu : intRnd.u = 1/2^53 := rfl
  have h := population_covariance_mtree_forward_error_exact 1002 5007 (by norm_num) (by norm_num)
    (exTree intRnd) (by simp [exTree, MTree.flatten]) hbx hby (by rw [hl, hu]; norm_num)
    exTree_firstExact 2 2 (by norm_num) (by norm_num)
    (by rw [hTx, hl]; norm_num) (by rw [hTy, hl]; norm_num)
  rw [hC, hl, hu] at h
  exact h

/-- the hypotheses of `sum_x_2_mtree_forward_error` are met by `exTree awayRnd`: the computed `sum_x_2` is
within `10·4·u·10 + 17·4·u·1002·7 + 45·64·u²·1002²` of the exact `T_x = 10` -/
example : |(Covariance.evalTree (exTree awayRnd)).sum_x_2.val - 10|
    ≤ 10 * 4 * (1/2^53) * 10 + 17 * 4 * (1/2^53) * 1002 * 7 + 45 * (4:ℚ)^3 * (1/2^53)^2 * 1002^2 := by
  obtain ⟨hTx, _, _⟩ := exTree_spec awayRnd
  obtain ⟨hbx, _⟩ := exTree_bounds awayRnd
  obtain ⟨hl, _⟩ := exTree_counts awayRnd
  have hu : awayRnd.u = 1/2^53 := rfl
  have h := sum_x_2_mtree_forward_error awayRnd 1002 (by norm_num) (exTree awayRnd) hbx
    (by rw [hl, hu]; norm_num) 7 (by norm_num) (by rw [hTx, hl]; norm_num)
  rw [hTx, hl, hu] at h
  exact h

/-- **The term `u·Mx·My·L` cannot be dropped in the standard model: it grows with the number of
chunks.** Under `awayRnd` the tree of two one-pair chunks `(1, 1)`, `(1, 1)` gives
`sum_prod = -(1+u)⁵((1+u)³ - 1)(2+u)` (each leaf holds `-(1+u)⁴((1+u)³ - 1)`, `Props.C09b.first_pair_term_is_genuine`;
the computed means agree, so the cross term is `0`), hence `|sum_prod - C| ≥ 6u` while `C = T_x = T_y = 0`
and `L = 2`: every bound that vanishes with `T_x, T_y` up to `O(u²)` is false for this carrier, and the
first-order term is proportional to the number of non-empty chunks. -/
theorem first_pair_term_per_chunk_is_genuine :
    let t : MTree (RF2 awayRnd × RF2 awayRnd) := .node (.leaf [(⟨1⟩, ⟨1⟩)]) (.leaf [(⟨1⟩, ⟨1⟩)])
    Cxy (vals t.flatten) = 0 ∧ T (fsts (vals t.flatten)) = 0 ∧ T (snds (vals t.flatten)) = 0
    ∧ t.neLeaves = 2
    ∧ 6 * awayRnd.u ≤ |(Covariance.evalTree t).sum_prod.val - Cxy (vals t.flatten)| := by
  intro t
  have hC : Cxy (vals t.flatten) = 0 := by
    norm_num [t, MTree.flatten, vals, fsts, snds, Cxy, coSum, mean]
  refine ⟨hC, ?_, ?_, rfl, ?_⟩
  · norm_num [t, MTree.flatten, vals, fsts, T, sumPow, mean]
  · norm_num [t, MTree.flatten, vals, snds, T, sumPow, mean]
  · rw [hC, sub_zero]
    have hfl : ∀ t, awayRnd.fl t = t * (1 + 1/2^53) := fun _ => rfl
    have h0 : (Covariance.new : Covariance (RF2 awayRnd)).sum_prod.val = 0 :=
      (Nat.cast_zero : ((0 : ℕ) : ℚ) = 0)
    have h0x : (Covariance.new : Covariance (RF2 awayRnd)).avg_x.val = 0 :=
      (Nat.cast_zero : ((0 : ℕ) : ℚ) = 0)
    set s : Covariance (RF2 awayRnd) :=
      (Covariance.new : Covariance (RF2 awayRnd)).add ⟨1⟩ ⟨1⟩ with hs
    have hsp : s.sum_prod.val = -((1 + 1/2^53)^4 * ((1 + 1/2^53)^3 - 1)) := by
      rw [hs, sum_prod_add_val, first_avg_y_val, h0, h0x]
      simp only [hfl]
      ring
    have hax : s.avg_x.val = (1 + 1/2^53)^3 := by
      rw [hs, first_avg_x_val]; simp only [hfl]; ring
    have hay : s.avg_y.val = (1 + 1/2^53)^3 := by
      rw [hs, first_avg_y_val]; simp only [hfl]; ring
    have hn : s.n = 1 := rfl
    have hev : Covariance.evalTree t = s.merge s := rfl
    rw [hev, sum_prod_merge_val awayRnd s s (by rw [hn]; norm_num) (by rw [hn]; norm_num), hsp,
      hax, hay, hn]
    simp only [hfl]
    norm_num [awayRnd]

end Props.C09d

#print axioms Props.C09d.x_part_merge
#print axioms Props.C09d.y_part_merge
#print axioms Props.C09d.x_part_mtree
#print axioms Props.C09d.y_part_mtree
#print axioms Props.C09d.count_mtree
#print axioms Props.C09d.variance_accessors
#print axioms Props.C09d.sum_prod_exact_merge
#print axioms Props.C09d.abs_increments_tree_def
#print axioms Props.C09d.abs_increments_tree
#print axioms Props.C09d.sum_prod_computed_merge
#print axioms Props.C09d.cross_term_rounding_error
#print axioms Props.C09d.sum_prod_merge_state_error
#print axioms Props.C09d.envelope_def
#print axioms Props.C09d.envelope_superadditive
#print axioms Props.C09d.first_pair_hypotheses
#print axioms Props.C09d.sum_prod_mtree_invariant
#print axioms Props.C09d.sum_prod_mtree_forward_error_symbolic
#print axioms Props.C09d.sum_prod_mtree_forward_error
#print axioms Props.C09d.sum_prod_mtree_forward_error_exact
#print axioms Props.C09d.sum_prod_mtree_forward_error_std
#print axioms Props.C09d.nonempty_chunks_le
#print axioms Props.C09d.sum_prod_mtree_forward_error_exact_sqrt
#print axioms Props.C09d.sum_x_2_mtree_forward_error
#print axioms Props.C09d.sum_y_2_mtree_forward_error
#print axioms Props.C09d.covariance_mtree_forward_error
#print axioms Props.C09d.population_variance_x_mtree_forward_error
#print axioms Props.C09d.population_variance_y_mtree_forward_error
#print axioms Props.C09d.sample_variance_x_mtree_forward_error
#print axioms Props.C09d.sample_variance_y_mtree_forward_error
#print axioms Props.C09d.population_covariance_mtree_forward_error
#print axioms Props.C09d.population_covariance_mtree_forward_error_exact
#print axioms Props.C09d.sample_covariance_mtree_forward_error
#print axioms Props.C09d.sample_covariance_mtree_forward_error_exact
#print axioms Props.C09d.first_pair_term_per_chunk_is_genuine
