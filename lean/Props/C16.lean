import AvgProofs.Sentinel
import AvgProofs.ConstStream
import Mathlib.Algebra.Field.Rat
import Mathlib.Data.Nat.Cast.Defs

/-!
# C16 - empty, one-observation and constant samples follow the documented contract

Carrier: O. The sentinel table (first part) holds on ANY carrier, by unfolding, for EVERY state with the given
count (so in particular for `new()`, for an estimator after the stated number of adds, and for unreachable
states). The one-observation / constant-stream part holds on any carrier satisfying the explicit zero laws
`Avg.ZeroLaws` (AvgProofs/ConstStream.lean: `x-x=0`, `x-0=x`, `x+0=x`, `0+x=x`, `0*x=0`, `x*0=0`,
`0/n=0` for a positive count `n`, `x/1=x`, all with the `0`, `1` the model writes) plus `0 == 0` for the
`sum == 0` shortcuts of `skewness`/`kurtosis`. IEEE doubles satisfy these laws for finite operands up to the
sign of a zero result, and not when an operand is infinite (`x*x` overflowing); that restriction is a
hypothesis here, not a theorem.

`error()`/`error_mean()` are `sqrt(variance_of_mean())`: the theorems give the argument of `sqrt`
(`sqrt nan` for an empty estimator, `sqrt 0` for constant data); `sqrt` is a carrier operation.
-/
set_option linter.unusedSectionVars false
open Avg

namespace Props.C16
variable {α : Type} [Add α] [Sub α] [Mul α] [Div α] [NatCast α] [FloatOps α]

/-! ## Sentinel table: Mean, Variance, Skewness, Kurtosis -/

/-- `Mean` with no observation: `mean()` and `estimate()` are NaN. -/
theorem mean_empty (s : Mean α) (h : s.n = 0) : s.mean = nan ∧ s.estimate = nan :=
  ⟨Mean.mean_empty s h, Mean.estimate_empty s h⟩

/-- `Variance` with no observation: every statistic is NaN (`error` is `sqrt(NaN)`). -/
theorem variance_empty (s : Variance α) (h : s.avg.n = 0) :
    s.mean = nan ∧ s.sampleVariance = nan ∧ s.populationVariance = nan ∧ s.varianceOfMean = nan
    ∧ s.error = FloatOps.sqrt nan ∧ s.estimate = nan :=
  ⟨Variance.mean_empty s h, Variance.sampleVariance_lt2 s (by omega), Variance.populationVariance_empty s h,
   Variance.varianceOfMean_empty s h, Variance.error_empty s h, Variance.estimate_empty s h⟩

/-- `Variance` with one observation (any state with count 1): `sample_variance` is NaN, `variance_of_mean`
is exactly 0 and `error` is `sqrt(0)`, whatever the stored sums. -/
theorem variance_one (s : Variance α) (h : s.avg.n = 1) :
    s.sampleVariance = nan ∧ s.varianceOfMean = ((0:Nat):α) ∧ s.error = FloatOps.sqrt ((0:Nat):α) :=
  ⟨Variance.sampleVariance_lt2 s (by omega), Variance.varianceOfMean_one s h, Variance.error_one s h⟩

/-- `Skewness` with no observation: every statistic is NaN. -/
theorem skewness_empty (s : Skewness α) (h : s.avg.avg.n = 0) :
    s.mean = nan ∧ s.sampleVariance = nan ∧ s.populationVariance = nan ∧ s.errorMean = FloatOps.sqrt nan
    ∧ s.skewness = nan ∧ s.estimate = nan :=
  ⟨Skewness.mean_empty s h, Skewness.sampleVariance_lt2 s (by omega), Skewness.populationVariance_empty s h,
   Skewness.errorMean_empty s h, Skewness.skewness_empty s h, Skewness.estimate_empty s h⟩

/-- `Skewness` with one observation: `sample_variance` NaN, `error_mean` = `sqrt(0)`. -/
theorem skewness_one (s : Skewness α) (h : s.avg.avg.n = 1) :
    s.sampleVariance = nan ∧ s.errorMean = FloatOps.sqrt ((0:Nat):α) :=
  ⟨Skewness.sampleVariance_lt2 s (by omega), Skewness.errorMean_one s h⟩

/-- `Kurtosis` with no observation: every statistic is NaN. -/
theorem kurtosis_empty (s : Kurtosis α) (h : s.avg.avg.avg.n = 0) :
    s.mean = nan ∧ s.sampleVariance = nan ∧ s.populationVariance = nan ∧ s.errorMean = FloatOps.sqrt nan
    ∧ s.skewness = nan ∧ s.kurtosis = nan ∧ s.estimate = nan :=
  ⟨Kurtosis.mean_empty s h, Kurtosis.sampleVariance_lt2 s (by omega), Kurtosis.populationVariance_empty s h,
   Kurtosis.errorMean_empty s h, Kurtosis.skewness_empty s h, Kurtosis.kurtosis_empty s h,
   Kurtosis.estimate_empty s h⟩

/-- `Kurtosis` with one observation: `sample_variance` NaN, `error_mean` = `sqrt(0)`. -/
theorem kurtosis_one (s : Kurtosis α) (h : s.avg.avg.avg.n = 1) :
    s.sampleVariance = nan ∧ s.errorMean = FloatOps.sqrt ((0:Nat):α) :=
  ⟨Kurtosis.sampleVariance_lt2 s (by omega), Kurtosis.errorMean_one s h⟩

/-! ## Sentinel table: `define_moments!(_, N)` -/
section moments
variable [Neg α]

/-- `central_moment(0) = 1` and `central_moment(1) = 0` for every state and every `N`, and
`central_moment(p)` never panics for `p ≤ N` (it returns `m[p-2]/n`, or the sentinels). -/
theorem moments_central_always (N : Nat) (s : Moments α) :
    s.centralMoment N 0 = .val ((1:Nat):α) ∧ s.centralMoment N 1 = .val ((0:Nat):α)
    ∧ ∀ p, p ≤ N → s.centralMoment N p = .val (s.cmRaw p) :=
  ⟨Moments.centralMoment_val N s 0 (Or.inl (by omega)), Moments.centralMoment_val N s 1 (Or.inl (by omega)),
   fun p hp => Moments.centralMoment_val N s p (Or.inr (Or.inr hp))⟩

/-- `Moments N` with no observation: `mean` is NaN, `central_moment(p)` is NaN for every `p ≥ 2` (no panic, even
for `p > N`), the sample statistics are NaN. -/
theorem moments_empty (N : Nat) (s : Moments α) (h : s.n = 0) :
    s.mean = nan ∧ (∀ p, 2 ≤ p → s.centralMoment N p = .val nan) ∧ s.sampleVariance = nan
    ∧ s.sampleSkewness = nan ∧ s.sampleExcessKurtosis = nan :=
  ⟨Moments.mean_empty s h,
   fun p hp => by rw [Moments.centralMoment_val N s p (Or.inr (Or.inl h)), Moments.cmRaw_empty s h p hp],
   Moments.sampleVariance_lt2 s (by omega), Moments.sampleSkewness_empty s h,
   Moments.sampleExcessKurtosis_lt4 s (by omega)⟩

/-- `Moments N` with few observations: `sample_variance` NaN below 2, `sample_skewness` exactly 0 at 1,
`sample_excess_kurtosis` NaN below 4. -/
theorem moments_small (s : Moments α) :
    (s.n < 2 → s.sampleVariance = nan) ∧ (s.n = 1 → s.sampleSkewness = ((0:Nat):α))
    ∧ (s.n < 4 → s.sampleExcessKurtosis = nan) :=
  ⟨Moments.sampleVariance_lt2 s, Moments.sampleSkewness_one s, Moments.sampleExcessKurtosis_lt4 s⟩

/-- `standardized_moment(p)` for `p ≤ N`: it is `n`, `0`, `1` for `p = 0, 1, 2`, and it panics exactly in the
documented case - order `p ≥ 3` and a variance (`central_moment(2)`) that compares equal to 0. -/
theorem moments_standardized_panic_iff (N : Nat) (s : Moments α) (p : Nat) (hp : p ≤ N) :
    s.standardizedMoment N 0 = .val ((s.n : Nat) : α) ∧ s.standardizedMoment N 1 = .val ((0:Nat):α)
    ∧ s.standardizedMoment N 2 = .val ((1:Nat):α)
    ∧ (s.standardizedMoment N p = .panic ↔ (3 ≤ p ∧ FloatOps.eqb (s.cmRaw 2) ((0:Nat):α) = true)) := by
  refine ⟨rfl, rfl, rfl, ?_⟩
  match p, hp with
  | 0, _ => simp [Moments.standardizedMoment]
  | 1, _ => simp [Moments.standardizedMoment]
  | 2, _ => simp [Moments.standardizedMoment]
  | p+3, hp =>
    simp only [Moments.standardizedMoment]
    rw [Moments.centralMoment_val N s (p+3) (Or.inr (Or.inr hp))]
    cases FloatOps.eqb (s.cmRaw 2) ((0:Nat):α) <;> simp

end moments

/-! ## Sentinel table: Covariance, weighted means, Min/Max, Quantile -/

/-- `Covariance` with no observation: all nine statistics are NaN. -/
theorem covariance_empty (s : Covariance α) (h : s.n = 0) :
    s.meanX = nan ∧ s.meanY = nan ∧ s.populationCovariance = nan ∧ s.sampleCovariance = nan ∧ s.pearson = nan
    ∧ s.populationVarianceX = nan ∧ s.populationVarianceY = nan ∧ s.sampleVarianceX = nan
    ∧ s.sampleVarianceY = nan :=
  ⟨Covariance.meanX_empty s h, Covariance.meanY_empty s h, Covariance.populationCovariance_empty s h,
   Covariance.sampleCovariance_lt2 s (by omega), Covariance.pearson_lt2 s (by omega),
   Covariance.populationVarianceX_empty s h, Covariance.populationVarianceY_empty s h,
   Covariance.sampleVarianceX_lt2 s (by omega), Covariance.sampleVarianceY_lt2 s (by omega)⟩

/-- `Covariance` with fewer than two observations: sample covariance, Pearson correlation and the two sample
variances are NaN. -/
theorem covariance_lt2 (s : Covariance α) (h : s.n < 2) :
    s.sampleCovariance = nan ∧ s.pearson = nan ∧ s.sampleVarianceX = nan ∧ s.sampleVarianceY = nan :=
  ⟨Covariance.sampleCovariance_lt2 s h, Covariance.pearson_lt2 s h, Covariance.sampleVarianceX_lt2 s h,
   Covariance.sampleVarianceY_lt2 s h⟩

/-- `WeightedMean`: `mean()` is NaN whenever the weight sum compares equal to 0 (empty, all-zero weights,
cancelling weights); `sum_weights()` of `new()` is 0 and, given `0 == 0`, `new()` is empty with mean NaN. -/
theorem weightedMean_sentinels :
    (∀ s : WeightedMean α, FloatOps.eqb s.weight_sum ((0:Nat):α) = true → s.mean = nan)
    ∧ (WeightedMean.new : WeightedMean α).sumWeights = ((0:Nat):α)
    ∧ (FloatOps.eqb ((0:Nat):α) ((0:Nat):α) = true →
        (WeightedMean.new : WeightedMean α).isEmpty = true ∧ (WeightedMean.new : WeightedMean α).mean = nan) :=
  ⟨fun s h => WeightedMean.mean_empty s h, rfl, fun h => ⟨h, WeightedMean.mean_empty _ h⟩⟩

/-- `WeightedMeanWithError`: `weighted_mean()` and `variance_of_weighted_mean()` are NaN whenever the weight
sum compares equal to 0; `effective_len()` is 0 for every state without observations. -/
theorem wmwe_sentinels (s : WeightedMeanWithError α) :
    (FloatOps.eqb s.weighted_avg.weight_sum ((0:Nat):α) = true →
        s.weightedMean = nan ∧ s.varianceOfWeightedMean = nan ∧ s.error = FloatOps.sqrt nan)
    ∧ (s.unweighted_avg.avg.n = 0 → s.effectiveLen = ((0:Nat):α) ∧ s.unweightedMean = nan
        ∧ s.populationVariance = nan ∧ s.sampleVariance = nan)
    ∧ (s.unweighted_avg.avg.n < 2 → s.sampleVariance = nan) := by
  refine ⟨fun h => ⟨WeightedMeanWithError.weightedMean_empty s h,
      WeightedMeanWithError.varianceOfWeightedMean_empty s h, ?_⟩,
    fun h => ⟨WeightedMeanWithError.effectiveLen_empty s h, Variance.mean_empty _ h,
      Variance.populationVariance_empty _ h, Variance.sampleVariance_lt2 _ (by omega)⟩,
    fun h => Variance.sampleVariance_lt2 _ h⟩
  unfold WeightedMeanWithError.error
  rw [WeightedMeanWithError.varianceOfWeightedMean_empty s h]

/-- `WeightedMeanWithError::new()`: `len 0`, empty, `sum_weights = sum_weights_sq = effective_len = 0`. -/
theorem wmwe_new :
    let s : WeightedMeanWithError α := WeightedMeanWithError.new
    s.len = 0 ∧ s.isEmpty = true ∧ s.sumWeights = ((0:Nat):α) ∧ s.sumWeightsSq = ((0:Nat):α)
    ∧ s.effectiveLen = ((0:Nat):α) :=
  ⟨rfl, rfl, rfl, rfl, WeightedMeanWithError.effectiveLen_empty _ rfl⟩

/-- empty `Min` reports `+inf`, empty `Max` reports `-inf` (also through `estimate()`). -/
theorem minmax_new :
    (Min.new : Avg.Min α).min = FloatOps.posInf ∧ (Min.new : Avg.Min α).estimate = FloatOps.posInf
    ∧ (Max.new : Avg.Max α).max = FloatOps.negInf ∧ (Max.new : Avg.Max α).estimate = FloatOps.negInf :=
  ⟨rfl, rfl, rfl, rfl⟩

/-- `Quantile`: whenever `Quantile::new(p)` does not panic, `quantile()`, `estimate()` of the fresh estimator
are NaN, it is empty and `len` is 0; more generally `quantile()` is NaN for every state whose count is 0. -/
theorem quantile_empty [IntCast α] :
    (∀ (p : α) (s : Quantile α), Quantile.new p = .val s →
        s.quantile = nan ∧ s.estimate = nan ∧ s.len = 0 ∧ s.isEmpty = true)
    ∧ ∀ s : Quantile α, s.n.a4 = 0 → s.quantile = nan := by
  refine ⟨fun p s h => ?_, fun s h => Quantile.quantile_empty s (by omega)⟩
  unfold Quantile.new at h
  split at h
  · injection h with h
    subst h
    exact ⟨Quantile.quantile_empty _ (Int.le_refl 0), Quantile.quantile_empty _ (Int.le_refl 0), rfl, rfl⟩
  · exact absurd h (by simp)

/-! ## One observation and constant streams -/
section const
variable (L : ZeroLaws α)
include L

/-- `Mean`: after `k ≥ 1` adds of the same value `x` the state is `(x, k)`; `mean()` is exactly `x`. -/
theorem mean_const_stream (x : α) (k : Nat) (hk : k ≠ 0) :
    let s := (List.replicate k x).foldl Mean.add Mean.new
    s = ⟨x, k⟩ ∧ s.mean = x ∧ s.len = k := by
  intro s
  have hs : s = ⟨x, k⟩ := Mean.const_stream L x k hk
  have hpos : k > 0 := Nat.pos_of_ne_zero hk
  rw [hs]
  exact ⟨rfl, by simp [Mean.mean, hpos], rfl⟩

/-- `Variance`: after `k ≥ 1` adds of `x`: mean exactly `x`, `sum_2` exactly 0, hence `population_variance = 0`,
`variance_of_mean = 0`, `error = sqrt 0`, and `sample_variance = 0` for `k ≥ 2`. -/
theorem variance_const_stream (x : α) (k : Nat) (hk : k ≠ 0) :
    let s := (List.replicate k x).foldl Variance.add Variance.new
    s = ⟨⟨x, k⟩, ((0:Nat):α)⟩ ∧ s.mean = x ∧ s.populationVariance = ((0:Nat):α)
    ∧ s.varianceOfMean = ((0:Nat):α) ∧ s.error = FloatOps.sqrt ((0:Nat):α)
    ∧ (2 ≤ k → s.sampleVariance = ((0:Nat):α)) := by
  intro s
  have hs : s = ⟨⟨x, k⟩, ((0:Nat):α)⟩ := Variance.const_stream L x k hk
  have hpos : k > 0 := Nat.pos_of_ne_zero hk
  have hsv : 2 ≤ k → (⟨⟨x, k⟩, ((0:Nat):α)⟩ : Variance α).sampleVariance = ((0:Nat):α) := fun h2 => by
    have : ¬ k < 2 := by omega
    simp only [Variance.sampleVariance, this, if_false]
    exact L.zero_div (k - 1) (by omega)
  have hvm : (⟨⟨x, k⟩, ((0:Nat):α)⟩ : Variance α).varianceOfMean = ((0:Nat):α) := by
    unfold Variance.varianceOfMean
    by_cases h1 : k = 1
    · simp [h1]
    · rw [if_neg hk, if_neg h1, hsv (by omega)]
      exact L.zero_div k hk
  rw [hs]
  refine ⟨rfl, by simp [Variance.mean, Mean.mean, hpos], ?_, hvm, ?_, hsv⟩
  · simp only [Variance.populationVariance, hk, if_false]
    exact L.zero_div k hk
  · unfold Variance.error; rw [hvm]

/-- `Skewness`: after `k ≥ 1` adds of `x`: mean `x`, `sum_2 = sum_3 = 0`; `population_variance = 0`,
`error_mean = sqrt 0`, and, given `0 == 0`, `skewness() = 0` (not NaN). -/
theorem skewness_const_stream (h00 : FloatOps.eqb ((0:Nat):α) ((0:Nat):α) = true) (x : α) (k : Nat) (hk : k ≠ 0) :
    let s := (List.replicate k x).foldl Skewness.add Skewness.new
    s = ⟨⟨⟨x, k⟩, ((0:Nat):α)⟩, ((0:Nat):α)⟩ ∧ s.mean = x ∧ s.populationVariance = ((0:Nat):α)
    ∧ s.errorMean = FloatOps.sqrt ((0:Nat):α) ∧ s.skewness = ((0:Nat):α) ∧ s.estimate = ((0:Nat):α) := by
  intro s
  have hs : s = ⟨⟨⟨x, k⟩, ((0:Nat):α)⟩, ((0:Nat):α)⟩ := Skewness.const_stream L x k hk
  obtain ⟨hv, v1, v2, _, v4, _⟩ := variance_const_stream L x k hk
  have hsk : (⟨⟨⟨x, k⟩, ((0:Nat):α)⟩, ((0:Nat):α)⟩ : Skewness α).skewness = ((0:Nat):α) := by
    simp only [Skewness.skewness, hk, if_false, h00, if_true]
  rw [hs]
  rw [hv] at v1 v2 v4
  exact ⟨rfl, v1, v2, v4, hsk, hsk⟩

/-- `Kurtosis`: after `k ≥ 1` adds of `x`: mean `x`, `sum_2 = sum_3 = sum_4 = 0`; `population_variance = 0`,
`error_mean = sqrt 0`, and, given `0 == 0`, `skewness() = 0` and `kurtosis() = 0` (not NaN). -/
theorem kurtosis_const_stream (h00 : FloatOps.eqb ((0:Nat):α) ((0:Nat):α) = true) (x : α) (k : Nat) (hk : k ≠ 0) :
    let s := (List.replicate k x).foldl Kurtosis.add Kurtosis.new
    s = ⟨⟨⟨⟨x, k⟩, ((0:Nat):α)⟩, ((0:Nat):α)⟩, ((0:Nat):α)⟩ ∧ s.mean = x
    ∧ s.populationVariance = ((0:Nat):α) ∧ s.errorMean = FloatOps.sqrt ((0:Nat):α)
    ∧ s.skewness = ((0:Nat):α) ∧ s.kurtosis = ((0:Nat):α) ∧ s.estimate = ((0:Nat):α) := by
  intro s
  have hs : s = ⟨⟨⟨⟨x, k⟩, ((0:Nat):α)⟩, ((0:Nat):α)⟩, ((0:Nat):α)⟩ := Kurtosis.const_stream L x k hk
  obtain ⟨hv, v1, v2, v3, v4, _⟩ := skewness_const_stream L h00 x k hk
  have hk4 : (⟨⟨⟨⟨x, k⟩, ((0:Nat):α)⟩, ((0:Nat):α)⟩, ((0:Nat):α)⟩ : Kurtosis α).kurtosis = ((0:Nat):α) := by
    simp only [Kurtosis.kurtosis, hk, if_false, h00, if_true]
  rw [hs]
  rw [hv] at v1 v2 v3 v4
  exact ⟨rfl, v1, v2, v3, v4, hk4, hk4⟩

/-- One observation `x` (the case `k = 1`): `mean = x`, `population_variance = variance_of_mean = 0`,
`skewness = kurtosis = 0`, for `Variance` and `Kurtosis` (hence `Skewness`, `Mean`, by the same theorems). -/
theorem one_observation (h00 : FloatOps.eqb ((0:Nat):α) ((0:Nat):α) = true) (x : α) :
    (Variance.new.add x).mean = x ∧ (Variance.new.add x).populationVariance = ((0:Nat):α)
    ∧ (Variance.new.add x).varianceOfMean = ((0:Nat):α)
    ∧ (Kurtosis.new.add x).mean = x ∧ (Kurtosis.new.add x).populationVariance = ((0:Nat):α)
    ∧ (Kurtosis.new.add x).skewness = ((0:Nat):α) ∧ (Kurtosis.new.add x).kurtosis = ((0:Nat):α) := by
  obtain ⟨_, a1, a2, a3, _⟩ := variance_const_stream L x 1 (by omega)
  obtain ⟨_, b1, b2, _, b4, b5, _⟩ := kurtosis_const_stream L h00 x 1 (by omega)
  exact ⟨a1, a2, a3, b1, b2, b4, b5⟩

variable [Neg α]

/-- `Moments N`, every order `N`: after `k ≥ 1` adds of `x` the state is `(k, x, [0, ..., 0])`; `mean()` is
exactly `x` and `central_moment(p)` is exactly `0` for every `1 ≤ p ≤ N` (not NaN, no panic); `sample_variance`
is 0 for `k ≥ 2` (when `N ≥ 2`). The full loop argument is proved (`AvgProofs/ConstStream.lean`), nothing remains. -/
theorem moments_const_stream (N : Nat) (x : α) (k : Nat) (hk : k ≠ 0) :
    let s := (List.replicate k x).foldl (Moments.add N) (Moments.new N)
    s = ⟨k, x, List.replicate (N - 1) ((0:Nat):α)⟩ ∧ s.mean = x
    ∧ (∀ p, 1 ≤ p → p ≤ N → s.centralMoment N p = .val ((0:Nat):α))
    ∧ (2 ≤ k → 2 ≤ N → s.sampleVariance = ((0:Nat):α)) := by
  intro s
  have hs : s = ⟨k, x, List.replicate (N - 1) ((0:Nat):α)⟩ := Moments.const_stream L N x k hk
  have hpos : k > 0 := Nat.pos_of_ne_zero hk
  rw [hs]
  refine ⟨rfl, by simp [Moments.mean, hpos], fun p h1 hN => ?_, fun h2 hN => ?_⟩
  · rw [Moments.centralMoment_val N _ p (Or.inr (Or.inr hN))]
    match p, h1, hN with
    | 1, _, _ => rfl
    | p+2, _, hN =>
      simp only [Moments.cmRaw, hpos, if_true]
      rw [getD_replicate_lt _ _ _ _ (by omega)]
      exact congrArg _ (L.zero_div k hk)
  · have : ¬ k < 2 := by omega
    simp only [Moments.sampleVariance, this, if_false]
    rw [getD_replicate_lt _ _ _ _ (by omega)]
    exact L.zero_div (k - 1) (by omega)

end const

/-! ## non-vacuity: the laws are satisfiable, and the statements compute on `ℚ` -/

/-- a `FloatOps ℚ` for the examples (exact order; `sqrt`, `pow15` arbitrary with `sqrt 0 = 0`) -/
private instance ratFloatOps : FloatOps ℚ where
  nan := -1
  posInf := 1000000
  negInf := -1000000
  sqrt := fun x => x
  pow15 := fun x => x
  lt := fun a b => decide (a < b)
  eqb := fun a b => decide (a = b)
  isNaN := fun _ => false
  fmin := min
  fmax := max
  ceilInt := fun x => Rat.ceil x
  ordLt := fun a b => decide (a < b)

/-- `ℚ` satisfies the zero laws -/
theorem zeroLaws_rat : ZeroLaws ℚ :=
  ⟨fun x => by simp, fun x => by simp, fun x => by simp, fun x => by simp, fun x => by simp,
   fun x => by simp, fun n _ => by simp, fun x => by simp⟩

example : (([7/2, 7/2, 7/2] : List ℚ).foldl Kurtosis.add Kurtosis.new).kurtosis = 0
    ∧ (([7/2, 7/2, 7/2] : List ℚ).foldl Kurtosis.add Kurtosis.new).mean = 7/2
    ∧ (([7/2, 7/2, 7/2] : List ℚ).foldl (Moments.add 6) (Moments.new 6)).centralMoment 6 5 = .val 0 := by
  obtain ⟨_, h1, _, _, _, h5, _⟩ := kurtosis_const_stream zeroLaws_rat (by decide) (7/2 : ℚ) 3 (by omega)
  obtain ⟨_, _, h3, _⟩ := moments_const_stream zeroLaws_rat 6 (7/2 : ℚ) 3 (by omega)
  have h3' := h3 5 (by omega) (by omega)
  simp only [Nat.cast_zero] at h1 h5 h3'
  exact ⟨h5, h1, h3'⟩

/-- the sentinel statements apply to `new()` -/
example : (Variance.new : Variance ℚ).populationVariance = nan ∧ (Kurtosis.new : Kurtosis ℚ).kurtosis = nan :=
  ⟨(variance_empty _ rfl).2.2.1, (kurtosis_empty _ rfl).2.2.2.2.2.1⟩

end Props.C16

#print axioms Props.C16.mean_empty
#print axioms Props.C16.variance_empty
#print axioms Props.C16.variance_one
#print axioms Props.C16.skewness_empty
#print axioms Props.C16.skewness_one
#print axioms Props.C16.kurtosis_empty
#print axioms Props.C16.kurtosis_one
#print axioms Props.C16.moments_central_always
#print axioms Props.C16.moments_empty
#print axioms Props.C16.moments_small
#print axioms Props.C16.moments_standardized_panic_iff
#print axioms Props.C16.covariance_empty
#print axioms Props.C16.covariance_lt2
#print axioms Props.C16.weightedMean_sentinels
#print axioms Props.C16.wmwe_sentinels
#print axioms Props.C16.wmwe_new
#print axioms Props.C16.minmax_new
#print axioms Props.C16.quantile_empty
#print axioms Props.C16.mean_const_stream
#print axioms Props.C16.variance_const_stream
#print axioms Props.C16.skewness_const_stream
#print axioms Props.C16.kurtosis_const_stream
#print axioms Props.C16.one_observation
#print axioms Props.C16.moments_const_stream
#print axioms Props.C16.zeroLaws_rat
