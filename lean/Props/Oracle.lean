import AvgProofs.OracleCorrect

/-!
# Oracle - the exact oracle of the driver equals the textbook specification

`AvgModel/Drv/Oracle.lean` judges the recorded outputs of the Rust crate against exact statistics
computed in integer arithmetic: the data `x_i = X_i * s` (`X_i : ℤ`, common scale `s = 2^emin`) are kept
as `n`, `ΣX`, `D_i = n X_i - ΣX`, and `Σ (x_i - mean)^p = (Σ D_i^p) (s/n)^p`.
This file: those numbers are `MSpec.mean`, `MSpec.sumPow`, `MSpec.coSum` (the specifications the
property theorems C01.. are stated against) of the list of rationals `x_i`, over `ℚ` (= Lean's `Rat`).

Two levels.
* `exactOfInts X s` (every list of integers, every scale): what `mkExact` builds after decoding.
* `mkExact xs` itself: it is `decodeF` on every float followed by the pure function `exactOfPairs`
  (`mkExact_factor`, by `rfl`), and the rationals behind `exactOfPairs ds` are the values
  `m_i 2^(e_i)` that `toRat?` (the oracle's reading of a float) assigns to the floats.
  `Float` is opaque to the kernel: nothing is claimed about `decodeF` itself (that `(m, e)` are the
  significand and exponent of the IEEE bit pattern `Float.toBits` can only be checked at run time).
-/
open Avg Avg.Drv

namespace Props.Oracle

/-! ## helpers of the oracle -/

/-- `pow2Rat e = 2^e` for every integer `e`, negative exponents included. -/
theorem pow2Rat_zpow (e : Int) : pow2Rat e = (2 : ℚ) ^ e := pow2Rat_eq e

/-- `intPow a p = a^p`, `ratPow r p = r^p`, `ratAbs r = |r|`. -/
theorem helper_pows (a : Int) (r : ℚ) (p : Nat) :
    intPow a p = a ^ p ∧ ratPow r p = r ^ p ∧ ratAbs r = |r| :=
  ⟨intPow_eq a p, ratPow_eq r p, ratAbs_eq r⟩

/-! ## every list of integers, every scale -/

/-- **Mean.** For every non-empty list of integers `X` and every scale `s`, the `mean` of
`exactOfInts X s` is the arithmetic mean of the rationals `X_i * s`. -/
theorem exact_mean (X : List Int) (s : ℚ) (_hX : X ≠ []) :
    (exactOfInts X s).mean = MSpec.mean (X.map fun x : Int => (x : ℚ) * s) :=
  exactOfInts_mean X s

/-- **Length, scale, sum**: `n` is the number of data, `sumX * s` their sum. -/
theorem exact_n_sum (X : List Int) (s : ℚ) :
    (exactOfInts X s).n = (X.map fun x : Int => (x : ℚ) * s).length
    ∧ ((exactOfInts X s).sumX : ℚ) * (exactOfInts X s).s = (X.map fun x : Int => (x : ℚ) * s).sum := by
  refine ⟨by simp, ?_⟩
  rw [exactOfInts_sumX, exactOfInts_s]
  exact (ratsOf_sum X s).symm

/-- **Central power sums.** `sumPow p = Σ (x_i - mean)^p` for every `p` (every `X`, also the empty
list: both sides are then empty sums), with the mean of the specification as centre. -/
theorem exact_sumPow (X : List Int) (s : ℚ) (p : Nat) :
    (exactOfInts X s).sumPow p
      = MSpec.sumPow (X.map fun x : Int => (x : ℚ) * s) (MSpec.mean (X.map fun x : Int => (x : ℚ) * s)) p :=
  exactOfInts_sumPow X s p

/-- **Central moments.** `m p = Σ (x_i - mean)^p / n` for non-empty data. -/
theorem exact_m (X : List Int) (s : ℚ) (_hX : X ≠ []) (p : Nat) :
    (exactOfInts X s).m p
      = MSpec.sumPow (X.map fun x : Int => (x : ℚ) * s) (MSpec.mean (X.map fun x : Int => (x : ℚ) * s)) p
        / ((X.map fun x : Int => (x : ℚ) * s).length : ℚ) :=
  exactOfInts_m X s p

/-- **Absolute central power sums and moments** (used in the error envelopes): for a non-negative
scale, `sumAbsPow p = Σ |x_i - mean|^p` and, for non-empty data, `nu p` is that divided by `n`. -/
theorem exact_sumAbsPow (X : List Int) (s : ℚ) (hs : 0 ≤ s) (p : Nat) :
    (exactOfInts X s).sumAbsPow p
        = ((X.map fun x : Int => (x : ℚ) * s).map fun x =>
            |x - MSpec.mean (X.map fun x : Int => (x : ℚ) * s)| ^ p).sum
    ∧ (X ≠ [] → (exactOfInts X s).nu p
        = ((X.map fun x : Int => (x : ℚ) * s).map fun x =>
            |x - MSpec.mean (X.map fun x : Int => (x : ℚ) * s)| ^ p).sum
          / ((X.map fun x : Int => (x : ℚ) * s).length : ℚ)) :=
  ⟨exactOfInts_sumAbsPow X s hs p, fun _ => exactOfInts_nu X s hs p⟩

/-- **Largest magnitude.** For a non-negative scale `maxAbs` bounds every `|x_i|` and, for non-empty
data, is one of them. -/
theorem exact_maxAbs (X : List Int) (s : ℚ) (hs : 0 ≤ s) :
    (∀ q ∈ X.map (fun x : Int => (x : ℚ) * s), |q| ≤ (exactOfInts X s).maxAbs)
    ∧ (X ≠ [] → ∃ q ∈ X.map (fun x : Int => (x : ℚ) * s), |q| = (exactOfInts X s).maxAbs) :=
  exactOfInts_maxAbs X s hs

/-- **Cross sum.** For two integer lists of the same non-zero length (each with its own scale)
`crossSum` is `Σ (x_i - mean x)(y_i - mean y)` over the pairs `(x_i, y_i)`; the coordinates of the
paired list are the two data sets. -/
theorem exact_crossSum (X Y : List Int) (s t : ℚ) (_hX : X ≠ []) (hlen : X.length = Y.length) :
    let xs := X.map fun x : Int => (x : ℚ) * s
    let ys := Y.map fun y : Int => (y : ℚ) * t
    crossSum (exactOfInts X s) (exactOfInts Y t) = MSpec.coSum (xs.zip ys) (MSpec.mean xs) (MSpec.mean ys)
    ∧ MSpec.fsts (xs.zip ys) = xs ∧ MSpec.snds (xs.zip ys) = ys := by
  intro xs ys
  refine ⟨exactOfInts_crossSum X Y s t, ?_, ?_⟩
  · exact List.map_fst_zip (by simp [xs, ys, hlen])
  · exact List.map_snd_zip (by simp [xs, ys, hlen])

/-! ## `mkExact` -/

/-- **`mkExact` is decoding followed by a pure function**: it fails exactly when some float does not
decode (NaN or infinite), and otherwise returns `exactOfPairs` of the decoded pairs `(m_i, e_i)`,
which is `exactOfInts` of the integers `m_i 2^(e_i - emin)` with the scale `2^emin`. -/
theorem mkExact_factor (xs : List Float) :
    mkExact xs = (xs.mapM decodeF).map exactOfPairs
    ∧ ∀ ds, exactOfPairs ds = exactOfInts (scaledInts ds) (pow2Rat (eminOf ds)) :=
  ⟨mkExact_eq xs, fun _ => rfl⟩

/-- **The scaling loses nothing**: `emin` is a lower bound of the exponents, so every
`X_i * 2^emin` is exactly the value `m_i 2^(e_i)` of the decoded pair. -/
theorem scaled_values (ds : List (Int × Int)) :
    (∀ d ∈ ds, eminOf ds ≤ d.2)
    ∧ (scaledInts ds).map (fun x : Int => (x : ℚ) * pow2Rat (eminOf ds))
        = ds.map fun d => (d.1 : ℚ) * (2 : ℚ) ^ d.2 := by
  refine ⟨eminOf_le ds, ?_⟩
  have := ratsOf_scaledInts ds
  rw [ratsOf] at this
  rw [this]
  apply List.map_congr_left
  intro d _
  rw [valOf, pow2Rat_eq]

/-- **`mkExact` computes the textbook statistics of the rationals the floats stand for.**
Whenever `mkExact xs` succeeds on a non-empty list, the oracle's reading `toRat?` of every float
succeeds too, giving rationals `qs` (one per float, each `m 2^e` for the decoded `(m, e)`), and:
`n` is their number, `mean` their mean, `sumPow p` / `sumAbsPow p` the sums of `(q - mean)^p` /
`|q - mean|^p`, `m p` and `nu p` those divided by `n`, and `maxAbs` the largest `|q|`. -/
theorem mkExact_correct (xs : List Float) (hxs : xs ≠ []) (E : Exact) (h : mkExact xs = some E) :
    ∃ qs : List ℚ, xs.mapM toRat? = some qs ∧ qs.length = xs.length ∧ E.n = xs.length
      ∧ E.mean = MSpec.mean qs
      ∧ (∀ p, E.sumPow p = MSpec.sumPow qs (MSpec.mean qs) p)
      ∧ (∀ p, E.m p = MSpec.sumPow qs (MSpec.mean qs) p / (qs.length : ℚ))
      ∧ (∀ p, E.sumAbsPow p = (qs.map fun q => |q - MSpec.mean qs| ^ p).sum)
      ∧ (∀ p, E.nu p = (qs.map fun q => |q - MSpec.mean qs| ^ p).sum / (qs.length : ℚ))
      ∧ (∀ q ∈ qs, |q| ≤ E.maxAbs) ∧ (∃ q ∈ qs, |q| = E.maxAbs) := by
  obtain ⟨ds, _, rfl, hq, hlen⟩ := mkExact_some xs E h
  have hs : (0 : ℚ) ≤ pow2Rat (eminOf ds) := (pow2Rat_pos _).le
  have hne : scaledInts ds ≠ [] := by
    have : ds ≠ [] := by intro h0; rw [h0] at hlen; exact hxs (List.length_eq_zero_iff.mp hlen.symm)
    simpa [scaledInts] using this
  have hmax := exactOfInts_maxAbs (scaledInts ds) _ hs
  refine ⟨ds.map valOf, hq, by simpa using hlen, by simp [exactOfPairs, scaledInts, hlen], ?_, ?_, ?_,
    ?_, ?_, ?_, ?_⟩
  · rw [← ratsOf_scaledInts]; exact exactOfInts_mean _ _
  · intro p; rw [← ratsOf_scaledInts]; exact exactOfInts_sumPow _ _ p
  · intro p; rw [← ratsOf_scaledInts]; exact exactOfInts_m _ _ p
  · intro p; rw [← ratsOf_scaledInts]; exact exactOfInts_sumAbsPow _ _ hs p
  · intro p; rw [← ratsOf_scaledInts]; exact exactOfInts_nu _ _ hs p
  · rw [← ratsOf_scaledInts]; exact hmax.1
  · rw [← ratsOf_scaledInts]; exact hmax.2 hne

/-- **The cross sum of two float lists of the same length** is `Σ (x_i - mean x)(y_i - mean y)` of
the rationals the floats stand for. -/
theorem mkExact_crossSum (xs ys : List Float) (hlen : xs.length = ys.length) (Ex Ey : Exact)
    (hx : mkExact xs = some Ex) (hy : mkExact ys = some Ey) :
    ∃ qx qy : List ℚ, xs.mapM toRat? = some qx ∧ ys.mapM toRat? = some qy
      ∧ MSpec.fsts (qx.zip qy) = qx ∧ MSpec.snds (qx.zip qy) = qy
      ∧ crossSum Ex Ey = MSpec.coSum (qx.zip qy) (MSpec.mean qx) (MSpec.mean qy) := by
  obtain ⟨dx, _, rfl, hqx, hlx⟩ := mkExact_some xs Ex hx
  obtain ⟨dy, _, rfl, hqy, hly⟩ := mkExact_some ys Ey hy
  have hl : (dx.map valOf).length = (dy.map valOf).length := by simp [hlx, hly, hlen]
  refine ⟨dx.map valOf, dy.map valOf, hqx, hqy, List.map_fst_zip (by omega), List.map_snd_zip (by omega), ?_⟩
  rw [← ratsOf_scaledInts, ← ratsOf_scaledInts]
  exact exactOfInts_crossSum _ _ _ _

/-! ## non-vacuity -/

/-- a concrete data set: `X = [1, -2, 4]`, `s = 1/4`, i.e. `0.25, -0.5, 1`: mean `1/4`,
`Σ (x - mean)² = 9/8`, `Σ (x - mean)³ = 0`, largest magnitude `1` -/
example : (exactOfInts [1, -2, 4] (1/4)).mean = 1/4 ∧ (exactOfInts [1, -2, 4] (1/4)).sumPow 2 = 9/8
    ∧ (exactOfInts [1, -2, 4] (1/4)).sumPow 3 = 0 ∧ (exactOfInts [1, -2, 4] (1/4)).maxAbs = 1 := by
  refine ⟨?_, ?_, ?_, ?_⟩
  · rw [exactOfInts_mean]; norm_num [ratsOf, MSpec.mean]
  · rw [exactOfInts_sumPow]; norm_num [ratsOf, MSpec.mean, MSpec.sumPow]
  · rw [exactOfInts_sumPow]; norm_num [ratsOf, MSpec.mean, MSpec.sumPow]
  · norm_num [exactOfInts]

/-- decoded pairs with different exponents: `3·2^1, -1·2^-2, 5·2^0` have `emin = -2`,
`X = [24, -1, 20]` -/
example : eminOf [(3, 1), (-1, -2), (5, 0)] = -2 ∧ scaledInts [(3, 1), (-1, -2), (5, 0)] = [24, -1, 20] := by
  decide

/-- `mkExact` succeeds on the empty list (for a non-empty list the hypothesis `mkExact xs = some E`
holds at run time for every list of finite floats, but `Float.toBits` is opaque to the kernel) -/
example : ∃ E, mkExact [] = some E := ⟨_, rfl⟩

end Props.Oracle

#print axioms Props.Oracle.pow2Rat_zpow
#print axioms Props.Oracle.helper_pows
#print axioms Props.Oracle.exact_mean
#print axioms Props.Oracle.exact_n_sum
#print axioms Props.Oracle.exact_sumPow
#print axioms Props.Oracle.exact_m
#print axioms Props.Oracle.exact_sumAbsPow
#print axioms Props.Oracle.exact_maxAbs
#print axioms Props.Oracle.exact_crossSum
#print axioms Props.Oracle.mkExact_factor
#print axioms Props.Oracle.scaled_values
#print axioms Props.Oracle.mkExact_correct
#print axioms Props.Oracle.mkExact_crossSum
