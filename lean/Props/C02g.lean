import AvgProofs.AccMergeErrTree
import Props.C02f
import Props.C03d
import Props.C03e
import Mathlib.Tactic.NormNum

/-!
# C02 (sixth addendum) - the ACCESSORS `skewness()` and `kurtosis()` on the state produced by EVERY merge tree

`Props.C02c`, `Props.C02e`, `Props.C02f` bound the state components `sum_2`, `sum_3`, `sum_4` after any merge tree;
`Props.C03d`, `Props.C03e` analyse the arithmetic of the accessors for add-only streams. Here both are combined:
forward-error bounds of `skewness()` (of `Skewness` and of `Kurtosis`) and `kurtosis()` evaluated on
`Skewness.evalTree t` / `Kurtosis.evalTree t` for every merge tree `t`.

Carrier **R2** (`RF2 r`): every `+ - * /` is followed by a rounding `r.fl` with `|fl t - t| ≤ u·|t|` (standard model:
no overflow, no underflow), counts are converted exactly. `kurtosis()` needs no square root and is treated over any
ordered field `F`; `skewness()` is treated over ℝ with a correctly rounded square root `RndSqrt r`
(`|sqrtfl t - √t| ≤ u·√t`, as IEEE-754 `sqrt`; `SqrtIs q`: the instance takes square roots with `q.sqrtfl`).
`ValEqb r`: the `==` of the instance compares values.

Notation: `n ≥ 1` observations `|x_i| ≤ M` in a merge tree `t` of height `h` (`SkewMerge.height`), `T = Σ(x-mean)²`,
`U = Σ(x-mean)³`, `Q = Σ(x-mean)⁴`, `V3 = Σ|x-mean|³`, `σ > 0` the population standard deviation (`n·σ² = T`; over ℝ
`σ = √(T/n)`), `k = M/σ`, `κ = 1 + k`; exact skewness `g = (U/n)/σ³`, exact excess kurtosis `G - 3`, `G = n·Q/T² = m₄/σ⁴`;
`V3T` (`Props.C02e`), `V3S`, `V4T` (`Props.C02f`) the scales of the tree.

**Why absolute errors.** After a merge tree the bound of `sum_3` is relative to the scale `V3T` of the tree, not to
`U` (which vanishes for symmetric data): it is an *absolute* error `δ₃`. The accessor lemma of `Props.C03d`
(`skewness_accessor_error_sharp`) is already stated for any state, with `|sum_3 - U| ≤ ε₃·V`, `V ≥ |U|`, but its bound
is proportional to `V`: the error of `sum_2` and the accessor's own roundings are charged to `V` too. Here they are
separated (`skewness_accessor_error_abs`, any non-empty state, **both branches** of the `sum_3 == 0` shortcut):

`|skewness() - √n·U/√(T³)| ≤ (√n/√(T³))·(δ₃·A + |U|·(A - 1))`, `A = (1+u)³/((1-ε₂)√(1-ε₂)(1-u)²)`,

`A ≤ 1053/1000`, `A - 1 ≤ (8/5)·ε₂ + (53/10)·u` for `ε₂ ≤ 1/32`, `u ≤ 1/1856` (`skewness_accessor_error_abs_numerals`).
Likewise for `kurtosis()` (`kurtosis_accessor_error_abs`, from the general-scale lemmas of `Props.C03e` with `V = Q`,
`ε₄ = δ₄/Q`): `|kurtosis() - (G-3)| ≤ 2·n·δ₄/T² + G·((211/100)·ε₂ + (26/5)·u)`, both branches.

**Stored sums after any tree, in the form needed** (`(n+28)·u ≤ 1/64`, `n·u·M ≤ σ`):
`sum2_mtree_relative_error`: `|sum_2 - T| ≤ n·u·(10 + 62k)·T`;
`sum3_mtree_absolute_error`: `|sum_3 - U| ≤ n·u·(16·V3T + 2526·k·n·σ³)`;
`sum4_mtree_absolute_error`: `|sum_4 - Q| ≤ n·u·(32·V4T + 154·k·σ·V3S + 108276·k·n·σ⁴)`;
`count_mtree_exact` (any carrier): the counts are exact.

**Main results** (hypotheses `(n+28)·u ≤ 1/64` and `n·u·(10 + 62k) ≤ 1/32`, i.e. `ε₂ ≤ 1/32`, unless stated):

* **`skewness_mtree_accessor_error`** (ℝ, `σ = √(T/n)`; `_sigma`: any `σ > 0` with `n·σ² = T`): whichever branch,
  `|skewness() - g| ≤ n·u·( 17·(V3T/n)/σ³ + 2660·k + (22 + 100·k)·|g| )`.
* `skewness_mtree_accessor_envelope`: `≤ n·u·(5462 + 170·h + 2760·k)·ν₃/σ³`, `ν₃ = V3/n`; hence
  `skewness_mtree_accessor_envelope_kappa`: `≤ (5462 + 170·h)·n·κ·u·ν₃/σ³` - the shape `C·n·κ·u·scale` of the envelope
  clause, with `C = 5462 + 170·h` growing linearly in the height (`Props.C02e.V3T_le_V3_height`; a constant
  independent of the tree is impossible by way of `V3T`, `Props.C02e.V3T_not_le_V3`).
* **`kurtosis_mtree_accessor_error`** (any ordered field): under the single smallness hypothesis
  `ε₄ := n·u·(32·(257840 + 3555h + 55h²) + (157556 + 1540h)·k) < 1` (the relative error of `sum_4`,
  `Props.C02f.sum4_mtree_relative_error`; it implies all the other side conditions),
  `|kurtosis() - (G - 3)| ≤ n·u·(8259156 + 113874·h + 1762·h² + (157838 + 1542·h)·k)·G`; the shortcut `sum_4 == 0` is
  not taken (`kurtosis_mtree_shortcut_not_taken`). `kurtosis_mtree_accessor_error_kappa`: over ℝ with `σ = √(T/n)` and
  `G = (Q/n)/(T/n)²`; `kurtosis_mtree_accessor_envelope_kappa`: `≤ (8259156 + 113874·h + 1762·h²)·n·κ·u·G`.
* `kurtosis_mtree_accessor_error_scales` (any ordered field, **both branches live**, no hypothesis on `ε₄`):
  `|kurtosis() - (G - 3)| ≤ n·u·( 64·(V4T/n)/σ⁴ + 308·k·(V3S/n)/σ³ + 216552·k + (27 + 131·k)·G )`.
* `kurtosis_skewness_mtree_accessor_error`, `kurtosis_skewness_mtree_accessor_envelope`: `Kurtosis::skewness()`
  delegates to the inner `Skewness`, which after any tree is bit for bit `Skewness.evalTree t`
  (`Props.C02f.inner_skewness_bitwise`): the same two bounds.

Constants: `17 = ⌈16·1.053⌉`, `2660 = ⌈2526·1.053⌉` (`Props.C02e.sum3_mtree_envelope`), `22 + 100k ≥ 1.6·(10 + 62k) + 5.3`;
`5462 = 17·320 + 22`, `170 = 17·10`, `2760 = 2660 + 100`; for kurtosis `1.001·ε₄ + 2.003·ε₂ + 5.001·u`
(`kurtosis_factor_numerals_mid`).

**Not covered**: zero spread (`T = 0`); a bound of `kurtosis()` linear in the height (the scale `V4T` is only known to
be at most quadratic, `Props.C02f.V4T_le_Q_height`); sharp numerals; overflow/underflow; `sample_skewness`,
`sample_kurtosis`, `standardized_moment` of `define_moments!`.
-/
open Avg MSpec VarSpec SkewSpec KurtSpec SkewErr SkewMerge KurtMerge

namespace Props.C02g
variable {F : Type} [Field F] [LinearOrder F] [IsStrictOrderedRing F]

/-! ## the accessors on any state, absolute errors of the stored sums -/

section state_skew
variable {r : Rnd2 ℝ} [FloatOps (RF2 r)]

/-- **`skewness()` on any non-empty state, absolute error of `sum_3`, both branches.** If the stored `sum_2`
approximates `T > 0` with `|sum_2 - T| ≤ ε₂·T` (`0 ≤ ε₂ < 1`), the stored `sum_3` approximates `U` with
`|sum_3 - U| ≤ δ₃`, and `u < 1`, then with `A = (1+u)³/((1-ε₂)√(1-ε₂)(1-u)²)`
`|skewness() - √n·U/√(T³)| ≤ (√n/√(T³))·(δ₃·A + |U|·(A - 1))`:
the error of `sum_3` is amplified by `A ≈ 1`; only the exact value is multiplied by the relative perturbation
`A - 1 ≈ (3/2)·ε₂ + 5·u`. In the shortcut branch (`sum_3 = 0`, result `0`) `|U| ≤ δ₃`. -/
theorem skewness_accessor_error_abs (q : RndSqrt r) (hs : SqrtIs q) (heq : ValEqb r)
    (s : Skewness (RF2 r)) (hn : s.avg.avg.n ≠ 0) (T U ε₂ δ₃ : ℝ) (hT : 0 < T) (hε₂ : 0 ≤ ε₂)
    (hε₂1 : ε₂ < 1) (hu1 : r.u < 1) (hS : |s.avg.sum_2.val - T| ≤ ε₂ * T)
    (hS3 : |s.sum_3.val - U| ≤ δ₃) :
    |s.skewness.val - Real.sqrt (s.avg.avg.n : ℝ) * U / Real.sqrt (T * T * T)|
      ≤ Real.sqrt (s.avg.avg.n : ℝ) / Real.sqrt (T * T * T)
          * (δ₃ * ((1 + r.u)^3 / ((1 - ε₂) * Real.sqrt (1 - ε₂) * ((1 - r.u) * (1 - r.u))))
              + |U| * ((1 + r.u)^3 / ((1 - ε₂) * Real.sqrt (1 - ε₂) * ((1 - r.u) * (1 - r.u))) - 1)) :=
  AccMerge.skewness_error_abs q hs heq s hn T U ε₂ δ₃ hT hε₂ hε₂1 hu1 hS hS3

/-- **The same with numerals** (`ε₂ ≤ 1/32`, `u ≤ 1/1856`):
`|skewness() - √n·U/√(T³)| ≤ (√n/√(T³))·( (1053/1000)·δ₃ + |U|·((8/5)·ε₂ + (53/10)·u) )`. -/
theorem skewness_accessor_error_abs_numerals (q : RndSqrt r) (hs : SqrtIs q) (heq : ValEqb r)
    (s : Skewness (RF2 r)) (hn : s.avg.avg.n ≠ 0) (T U ε₂ δ₃ : ℝ) (hT : 0 < T) (hε₂ : 0 ≤ ε₂)
    (hε₂' : ε₂ ≤ 1/32) (hu' : r.u ≤ 1/1856) (hS : |s.avg.sum_2.val - T| ≤ ε₂ * T)
    (hS3 : |s.sum_3.val - U| ≤ δ₃) :
    |s.skewness.val - Real.sqrt (s.avg.avg.n : ℝ) * U / Real.sqrt (T * T * T)|
      ≤ Real.sqrt (s.avg.avg.n : ℝ) / Real.sqrt (T * T * T)
          * (1053/1000 * δ₃ + |U| * (8/5 * ε₂ + 53/10 * r.u)) :=
  AccMerge.skewness_error_abs_small q hs heq s hn T U ε₂ δ₃ hT hε₂ hε₂' hu' hS hS3

end state_skew

/-- The amplification factor `A = (1+u)³/((1-ε₂)√(1-ε₂)(1-u)²)` for `0 ≤ ε₂ ≤ 1/32`, `0 ≤ u ≤ 1/1856`:
`1 ≤ A ≤ 1053/1000` and `A - 1 ≤ (8/5)·ε₂ + (53/10)·u`. -/
theorem skewness_amplification_numerals (u ε₂ : ℝ) (hu : 0 ≤ u) (hu' : u ≤ 1/1856) (hε₂ : 0 ≤ ε₂)
    (hε₂' : ε₂ ≤ 1/32) :
    1 ≤ (1 + u)^3 / ((1 - ε₂) * Real.sqrt (1 - ε₂) * ((1 - u) * (1 - u)))
    ∧ (1 + u)^3 / ((1 - ε₂) * Real.sqrt (1 - ε₂) * ((1 - u) * (1 - u))) - 1 ≤ 8/5 * ε₂ + 53/10 * u
    ∧ (1 + u)^3 / ((1 - ε₂) * Real.sqrt (1 - ε₂) * ((1 - u) * (1 - u))) ≤ 1053/1000 :=
  AccMerge.skew_amp_small u ε₂ hu hu' hε₂ hε₂'

section state_kurt
variable {r : Rnd2 F} [FloatOps (RF2 r)]

/-- **`kurtosis()` on any non-empty state, absolute error of `sum_4`, both branches.** If `|sum_2 - T| ≤ ε₂·T`
(`T > 0`, `0 ≤ ε₂ ≤ 1/32`), `|sum_4 - Q| ≤ δ₄`, `T² ≤ n·Q` (true of every sample), `u ≤ 1/1856`, then with `G = n·Q/T²`
`|kurtosis() - (G - 3)| ≤ 2·(n·δ₄/T²) + G·((211/100)·ε₂ + (26/5)·u)`.
(The factor `2` is the price of the shortcut branch `sum_4 == 0`, where `0` is returned and
`|0 - (G - 3)| ≤ 2·G ≤ 2·n·δ₄/T²`; the long branch alone has `107/100`.) -/
theorem kurtosis_accessor_error_abs (heq : ValEqb r) (s : Kurtosis (RF2 r)) (hn : s.avg.avg.avg.n ≠ 0)
    (T Q ε₂ δ₄ : F) (hT : 0 < T) (hTQ : T * T ≤ (s.avg.avg.avg.n : F) * Q) (hε₂ : 0 ≤ ε₂)
    (hε₂' : ε₂ ≤ 1/32) (hu' : r.u ≤ 1/1856)
    (hS : |s.avg.avg.sum_2.val - T| ≤ ε₂ * T) (hS4 : |s.sum_4.val - Q| ≤ δ₄) :
    |s.kurtosis.val - ((s.avg.avg.avg.n : F) * Q / (T * T) - 3)|
      ≤ 2 * ((s.avg.avg.avg.n : F) * δ₄ / (T * T))
        + (s.avg.avg.avg.n : F) * Q / (T * T) * (211/100 * ε₂ + 26/5 * r.u) :=
  AccMerge.kurtosis_error_abs heq s hn T Q ε₂ δ₄ hT hTQ hε₂ hε₂' hu' hS hS4

end state_kurt

/-- Numerals for the factor of `Props.C03e.kurtosis_accessor_error_scale` in the range met after a merge tree
(`ε₂ ≤ 1/2048`, `u ≤ 2^-21`, `ε₄ ≥ 0`):
`(1+u)·((1+ε₄)(1+u)²/((1-ε₂)²(1-u)) - 1) + 2u ≤ (1001/1000)·ε₄ + (2003/1000)·ε₂ + (5001/1000)·u`. -/
theorem kurtosis_factor_numerals_mid (u ε₂ ε₄ : F) (hu : 0 ≤ u) (hu' : u ≤ 1/2097152) (hε₂ : 0 ≤ ε₂)
    (hε₂' : ε₂ ≤ 1/2048) (hε₄ : 0 ≤ ε₄) :
    (1 + u) * ((1 + ε₄) * (1 + u)^2 / ((1 - ε₂)^2 * (1 - u)) - 1) + 2 * u
      ≤ 1001/1000 * ε₄ + 2003/1000 * ε₂ + 5001/1000 * u :=
  AccMerge.kurt_factor_le_mid u ε₂ ε₄ hu hu' hε₂ hε₂' hε₄

/-! ## the stored sums after any merge tree, in the form the accessors need -/

/-- Any carrier, bit for bit: the counts inside `Skewness` and `Kurtosis` after any merge tree are the number of
observations (so both accessors leave their `nan` branch exactly when the tree holds an observation). -/
theorem count_mtree_exact {α : Type} [Add α] [Sub α] [Mul α] [Div α] [NatCast α] (t : MTree α) :
    (Skewness.evalTree t).avg.avg.n = t.flatten.length
    ∧ (Kurtosis.evalTree t).avg.avg.avg.n = t.flatten.length :=
  ⟨Skewness.mtree_n t, Kurtosis.mtree_n t⟩

/-- **`sum_2` after any merge tree, relative form** (from `Props.C02c.sum2_mtree_forward_error` with `R₀ = n·σ`):
`|x| ≤ M`, `n·u ≤ 1/64`, `σ > 0` with `n·σ² = T`, `n·u·M ≤ σ`:  `|sum_2 - T| ≤ n·u·(10 + 62·(M/σ))·T`. -/
theorem sum2_mtree_relative_error (r : Rnd2 F) (M : F) (hM : 0 ≤ M) (t : MTree (RF2 r))
    (hb : ∀ x ∈ t.flatten, |x.val| ≤ M) (hnu : (t.flatten.length : F) * r.u ≤ 1/64)
    (σ : F) (hσ : 0 < σ) (hvar : (t.flatten.length : F) * σ^2 = T (t.flatten.map RF2.val))
    (hcond : (t.flatten.length : F) * r.u * M ≤ σ) :
    |(Variance.evalTree t).sum_2.val - T (t.flatten.map RF2.val)|
      ≤ (t.flatten.length : F) * r.u * (10 + 62 * (M / σ)) * T (t.flatten.map RF2.val) :=
  AccMerge.sum2_mtree_rel r M hM t hb hnu σ hσ hvar hcond

/-- **`sum_3` after any merge tree, absolute form** (`Props.C02e.sum3_mtree_envelope` rewritten):
`(n+28)·u ≤ 1/64`, `σ > 0` with `n·σ² = T`, `n·u·M ≤ σ`:  `|sum_3 - U| ≤ n·u·(16·V3T + 2526·(M/σ)·(n·σ³))`. -/
theorem sum3_mtree_absolute_error (r : Rnd2 F) (M : F) (hM : 0 ≤ M) (t : MTree (RF2 r))
    (hb : ∀ x ∈ t.flatten, |x.val| ≤ M) (hsmall : ((t.flatten.length : F) + 28) * r.u ≤ 1/64)
    (σ : F) (hσ : 0 < σ) (hvar : (t.flatten.length : F) * σ^2 = T (t.flatten.map RF2.val))
    (hcond : (t.flatten.length : F) * r.u * M ≤ σ) :
    |(Skewness.evalTree t).sum_3.val - U (t.flatten.map RF2.val)|
      ≤ (t.flatten.length : F) * r.u
          * (16 * V3T (t.map RF2.val) + 2526 * (M / σ) * ((t.flatten.length : F) * σ^3)) :=
  AccMerge.sum3_mtree_abs r M hM t hb hsmall σ hσ hvar hcond

/-- **`sum_4` after any merge tree, absolute form in the scales of the tree** (`Props.C02f.sum4_mtree_envelope`
rewritten): `|sum_4 - Q| ≤ n·u·(32·V4T + 154·(M/σ)·(σ·V3S) + 108276·(M/σ)·(n·σ⁴))`. -/
theorem sum4_mtree_absolute_error (r : Rnd2 F) (M : F) (hM : 0 ≤ M) (t : MTree (RF2 r))
    (hb : ∀ x ∈ t.flatten, |x.val| ≤ M) (hsmall : ((t.flatten.length : F) + 28) * r.u ≤ 1/64)
    (σ : F) (hσ : 0 < σ) (hvar : (t.flatten.length : F) * σ^2 = T (t.flatten.map RF2.val))
    (hcond : (t.flatten.length : F) * r.u * M ≤ σ) :
    |(Kurtosis.evalTree t).sum_4.val - Q (t.flatten.map RF2.val)|
      ≤ (t.flatten.length : F) * r.u
          * (32 * V4T (t.map RF2.val) + 154 * (M / σ) * (σ * V3S (t.map RF2.val))
              + 108276 * (M / σ) * ((t.flatten.length : F) * σ^4)) :=
  AccMerge.sum4_mtree_abs r M hM t hb hsmall σ hσ hvar hcond

/-! ## `skewness()` after every merge tree -/

section skew
variable {r : Rnd2 ℝ} [FloatOps (RF2 r)]

/-- **`skewness()` after any merge tree, any `σ > 0` with `n·σ² = T`.** Over ℝ, standard model of rounding with a
correctly rounded square root; every merge tree `t` over `n ≥ 1` observations with `|x| ≤ M`; `(n+28)·u ≤ 1/64`,
`n·u·(10 + 62·(M/σ)) ≤ 1/32`; `g = (U/n)/σ³`. Whichever branch the accessor takes,
`|skewness() - g| ≤ n·u·( 17·(V3T/n)/σ³ + 2660·(M/σ) + (22 + 100·(M/σ))·|g| )`. -/
theorem skewness_mtree_accessor_error_sigma (q : RndSqrt r) (hs : SqrtIs q) (heq : ValEqb r) (M : ℝ)
    (hM : 0 ≤ M) (t : MTree (RF2 r)) (hne : t.flatten ≠ []) (hb : ∀ x ∈ t.flatten, |x.val| ≤ M)
    (hsmall : ((t.flatten.length : ℝ) + 28) * r.u ≤ 1/64)
    (σ : ℝ) (hσ : 0 < σ) (hvar : (t.flatten.length : ℝ) * σ^2 = T (t.flatten.map RF2.val))
    (hε₂ : (t.flatten.length : ℝ) * r.u * (10 + 62 * (M / σ)) ≤ 1/32) :
    |(Skewness.evalTree t).skewness.val - U (t.flatten.map RF2.val) / (t.flatten.length : ℝ) / σ^3|
      ≤ (t.flatten.length : ℝ) * r.u
          * (17 * (V3T (t.map RF2.val) / (t.flatten.length : ℝ) / σ^3) + 2660 * (M / σ)
              + (22 + 100 * (M / σ)) * |U (t.flatten.map RF2.val) / (t.flatten.length : ℝ) / σ^3|) :=
  AccMerge.skew_mtree_accessor q hs heq M hM t hne hb hsmall σ hσ hvar hε₂

/-- from `0 < T/n`: the tree is not empty, and `σ = √(T/n)` is positive with `n·σ² = T` -/
theorem sigma_facts (vs : List ℝ) (hpos : 0 < T vs / (vs.length : ℝ)) :
    vs ≠ [] ∧ 0 < Real.sqrt (T vs / (vs.length : ℝ))
    ∧ (vs.length : ℝ) * Real.sqrt (T vs / (vs.length : ℝ))^2 = T vs := by
  have hnpos : (0 : ℝ) < vs.length := by
    by_contra h
    rw [not_lt] at h
    have h0 : (vs.length : ℝ) = 0 := le_antisymm h (Nat.cast_nonneg _)
    rw [h0, div_zero] at hpos
    exact lt_irrefl _ hpos
  refine ⟨?_, Real.sqrt_pos.mpr hpos, ?_⟩
  · intro h; rw [h] at hnpos; simp at hnpos
  · rw [Real.sq_sqrt hpos.le]; field_simp

/-- **`skewness()` after EVERY merge tree** (the envelope clause of C02 for the accessor, in the scale of the tree).
Over ℝ, standard model of rounding with unit roundoff `u` and a correctly rounded square root; every merge tree `t`
(any shape, any chunk sizes, empty and one-element chunks included; leaves folded with `Skewness.add`, nodes merged
with `Skewness.merge`) over `n` observations with `|x| ≤ M`, non-degenerate spread `var = T/n > 0`, `σ = √var`;
`(n+28)·u ≤ 1/64` and `n·u·(10 + 62·(M/σ)) ≤ 1/32`. With `g = (U/n)/σ³ = m₃/σ³` the exact skewness and `V3T` the scale
of the tree (`Props.C02e.V3T_def`), whichever branch of the `sum_3 == 0` shortcut the accessor takes,
`|skewness() - g| ≤ n·u·( 17·(V3T/n)/σ³ + 2660·(M/σ) + (22 + 100·(M/σ))·|g| )`. -/
theorem skewness_mtree_accessor_error (q : RndSqrt r) (hs : SqrtIs q) (heq : ValEqb r) (M : ℝ)
    (hM : 0 ≤ M) (t : MTree (RF2 r)) (hb : ∀ x ∈ t.flatten, |x.val| ≤ M)
    (hsmall : ((t.flatten.length : ℝ) + 28) * r.u ≤ 1/64)
    (hpos : 0 < T (t.flatten.map RF2.val) / (t.flatten.length : ℝ))
    (hε₂ : (t.flatten.length : ℝ) * r.u
        * (10 + 62 * (M / Real.sqrt (T (t.flatten.map RF2.val) / (t.flatten.length : ℝ)))) ≤ 1/32) :
    |(Skewness.evalTree t).skewness.val
        - U (t.flatten.map RF2.val) / (t.flatten.length : ℝ)
            / (Real.sqrt (T (t.flatten.map RF2.val) / (t.flatten.length : ℝ)))^3|
      ≤ (t.flatten.length : ℝ) * r.u
          * (17 * (V3T (t.map RF2.val) / (t.flatten.length : ℝ)
                / (Real.sqrt (T (t.flatten.map RF2.val) / (t.flatten.length : ℝ)))^3)
              + 2660 * (M / Real.sqrt (T (t.flatten.map RF2.val) / (t.flatten.length : ℝ)))
              + (22 + 100 * (M / Real.sqrt (T (t.flatten.map RF2.val) / (t.flatten.length : ℝ))))
                * |U (t.flatten.map RF2.val) / (t.flatten.length : ℝ)
                    / (Real.sqrt (T (t.flatten.map RF2.val) / (t.flatten.length : ℝ)))^3|) := by
  have hl : ((t.flatten.map RF2.val).length : ℝ) = (t.flatten.length : ℝ) := by simp
  obtain ⟨hne, hσ, hvar⟩ := sigma_facts (t.flatten.map RF2.val) (by rw [hl]; exact hpos)
  rw [hl] at hσ hvar
  exact skewness_mtree_accessor_error_sigma q hs heq M hM t (by simpa using hne) hb hsmall _ hσ hvar hε₂

/-- **Envelope form in the height of the tree, any `σ > 0` with `n·σ² = T`.** Same hypotheses; `h = height t`,
`ν₃ = V3/n` the third absolute central moment:
`|skewness() - (U/n)/σ³| ≤ n·u·(5462 + 170·h + 2760·(M/σ))·ν₃/σ³`. -/
theorem skewness_mtree_accessor_envelope (q : RndSqrt r) (hs : SqrtIs q) (heq : ValEqb r) (M : ℝ)
    (hM : 0 ≤ M) (t : MTree (RF2 r)) (hne : t.flatten ≠ []) (hb : ∀ x ∈ t.flatten, |x.val| ≤ M)
    (hsmall : ((t.flatten.length : ℝ) + 28) * r.u ≤ 1/64)
    (σ : ℝ) (hσ : 0 < σ) (hvar : (t.flatten.length : ℝ) * σ^2 = T (t.flatten.map RF2.val))
    (hε₂ : (t.flatten.length : ℝ) * r.u * (10 + 62 * (M / σ)) ≤ 1/32) :
    |(Skewness.evalTree t).skewness.val - U (t.flatten.map RF2.val) / (t.flatten.length : ℝ) / σ^3|
      ≤ (t.flatten.length : ℝ) * r.u * (5462 + 170 * (height t : ℝ) + 2760 * (M / σ))
          * (V3 (t.flatten.map RF2.val) / (t.flatten.length : ℝ) / σ^3) :=
  AccMerge.skew_mtree_accessor_env q hs heq M hM t hne hb hsmall σ hσ hvar hε₂

/-- **The envelope clause for `skewness()` after every merge tree, in the words of DESIGN.md section 5.** Over ℝ;
`n` observations `|x| ≤ M` in a merge tree of height `h`; `var = T/n > 0`, `σ = √var`, `κ = 1 + M/σ`;
`(n+28)·u ≤ 1/64`, `n·u·(10 + 62·(M/σ)) ≤ 1/32`. Whichever branch the accessor takes,
`|skewness() - m₃/σ³| ≤ (5462 + 170·h)·n·κ·u·ν₃/σ³`. -/
theorem skewness_mtree_accessor_envelope_kappa (q : RndSqrt r) (hs : SqrtIs q) (heq : ValEqb r) (M : ℝ)
    (hM : 0 ≤ M) (t : MTree (RF2 r)) (hb : ∀ x ∈ t.flatten, |x.val| ≤ M)
    (hsmall : ((t.flatten.length : ℝ) + 28) * r.u ≤ 1/64)
    (hpos : 0 < T (t.flatten.map RF2.val) / (t.flatten.length : ℝ))
    (hε₂ : (t.flatten.length : ℝ) * r.u
        * (10 + 62 * (M / Real.sqrt (T (t.flatten.map RF2.val) / (t.flatten.length : ℝ)))) ≤ 1/32) :
    |(Skewness.evalTree t).skewness.val
        - U (t.flatten.map RF2.val) / (t.flatten.length : ℝ)
            / (Real.sqrt (T (t.flatten.map RF2.val) / (t.flatten.length : ℝ)))^3|
      ≤ (5462 + 170 * (height t : ℝ)) * (t.flatten.length : ℝ)
          * (1 + M / Real.sqrt (T (t.flatten.map RF2.val) / (t.flatten.length : ℝ))) * r.u
          * (V3 (t.flatten.map RF2.val) / (t.flatten.length : ℝ)
              / (Real.sqrt (T (t.flatten.map RF2.val) / (t.flatten.length : ℝ)))^3) := by
  have hl : ((t.flatten.map RF2.val).length : ℝ) = (t.flatten.length : ℝ) := by simp
  obtain ⟨hne, hσ, hvar⟩ := sigma_facts (t.flatten.map RF2.val) (by rw [hl]; exact hpos)
  rw [hl] at hσ hvar
  have hne' : t.flatten ≠ [] := by simpa using hne
  refine le_trans
    (skewness_mtree_accessor_envelope q hs heq M hM t hne' hb hsmall _ hσ hvar hε₂) ?_
  set σ := Real.sqrt (T (t.flatten.map RF2.val) / (t.flatten.length : ℝ)) with hσdef
  have hu := r.u_nonneg
  have hk0 : 0 ≤ M / σ := div_nonneg hM hσ.le
  have hh0 : (0 : ℝ) ≤ (height t : ℝ) := Nat.cast_nonneg _
  have hn0 : (0 : ℝ) ≤ (t.flatten.length : ℝ) := Nat.cast_nonneg _
  have hρ : 0 ≤ V3 (t.flatten.map RF2.val) / (t.flatten.length : ℝ) / σ^3 := by
    have := V3_nonneg (t.flatten.map RF2.val)
    positivity
  have h1 : (t.flatten.length : ℝ) * r.u * (5462 + 170 * (height t : ℝ) + 2760 * (M / σ))
      ≤ (5462 + 170 * (height t : ℝ)) * (t.flatten.length : ℝ) * (1 + M / σ) * r.u := by
    have hx : 0 ≤ (t.flatten.length : ℝ) * r.u := mul_nonneg hn0 hu
    have h2 : 2760 * (M / σ) ≤ (5462 + 170 * (height t : ℝ)) * (M / σ) :=
      mul_le_mul_of_nonneg_right (by linarith) hk0
    calc (t.flatten.length : ℝ) * r.u * (5462 + 170 * (height t : ℝ) + 2760 * (M / σ))
        ≤ (t.flatten.length : ℝ) * r.u
            * (5462 + 170 * (height t : ℝ) + (5462 + 170 * (height t : ℝ)) * (M / σ)) :=
          mul_le_mul_of_nonneg_left (by linarith) hx
      _ = _ := by ring
  exact mul_le_mul_of_nonneg_right h1 hρ

/-- **`Kurtosis::skewness()` after every merge tree**: it delegates to the inner `Skewness`, which after any tree is
bit for bit `Skewness.evalTree t` (`Props.C02f.inner_skewness_bitwise`). Same hypotheses and bound as
`skewness_mtree_accessor_error`:
`|skewness() - g| ≤ n·u·( 17·(V3T/n)/σ³ + 2660·(M/σ) + (22 + 100·(M/σ))·|g| )`, `σ = √(T/n)`, `g = (U/n)/σ³`. -/
theorem kurtosis_skewness_mtree_accessor_error (q : RndSqrt r) (hs : SqrtIs q) (heq : ValEqb r) (M : ℝ)
    (hM : 0 ≤ M) (t : MTree (RF2 r)) (hb : ∀ x ∈ t.flatten, |x.val| ≤ M)
    (hsmall : ((t.flatten.length : ℝ) + 28) * r.u ≤ 1/64)
    (hpos : 0 < T (t.flatten.map RF2.val) / (t.flatten.length : ℝ))
    (hε₂ : (t.flatten.length : ℝ) * r.u
        * (10 + 62 * (M / Real.sqrt (T (t.flatten.map RF2.val) / (t.flatten.length : ℝ)))) ≤ 1/32) :
    |(Kurtosis.evalTree t).skewness.val
        - U (t.flatten.map RF2.val) / (t.flatten.length : ℝ)
            / (Real.sqrt (T (t.flatten.map RF2.val) / (t.flatten.length : ℝ)))^3|
      ≤ (t.flatten.length : ℝ) * r.u
          * (17 * (V3T (t.map RF2.val) / (t.flatten.length : ℝ)
                / (Real.sqrt (T (t.flatten.map RF2.val) / (t.flatten.length : ℝ)))^3)
              + 2660 * (M / Real.sqrt (T (t.flatten.map RF2.val) / (t.flatten.length : ℝ)))
              + (22 + 100 * (M / Real.sqrt (T (t.flatten.map RF2.val) / (t.flatten.length : ℝ))))
                * |U (t.flatten.map RF2.val) / (t.flatten.length : ℝ)
                    / (Real.sqrt (T (t.flatten.map RF2.val) / (t.flatten.length : ℝ)))^3|) := by
  show |((Kurtosis.evalTree t).avg.skewness).val - _| ≤ _
  rw [Props.C02f.inner_skewness_bitwise]
  exact skewness_mtree_accessor_error q hs heq M hM t hb hsmall hpos hε₂

/-- **`Kurtosis::skewness()` after every merge tree, envelope form**: same hypotheses and bound as
`skewness_mtree_accessor_envelope_kappa`: `|skewness() - m₃/σ³| ≤ (5462 + 170·h)·n·κ·u·ν₃/σ³`. -/
theorem kurtosis_skewness_mtree_accessor_envelope (q : RndSqrt r) (hs : SqrtIs q) (heq : ValEqb r) (M : ℝ)
    (hM : 0 ≤ M) (t : MTree (RF2 r)) (hb : ∀ x ∈ t.flatten, |x.val| ≤ M)
    (hsmall : ((t.flatten.length : ℝ) + 28) * r.u ≤ 1/64)
    (hpos : 0 < T (t.flatten.map RF2.val) / (t.flatten.length : ℝ))
    (hε₂ : (t.flatten.length : ℝ) * r.u
        * (10 + 62 * (M / Real.sqrt (T (t.flatten.map RF2.val) / (t.flatten.length : ℝ)))) ≤ 1/32) :
    |(Kurtosis.evalTree t).skewness.val
        - U (t.flatten.map RF2.val) / (t.flatten.length : ℝ)
            / (Real.sqrt (T (t.flatten.map RF2.val) / (t.flatten.length : ℝ)))^3|
      ≤ (5462 + 170 * (height t : ℝ)) * (t.flatten.length : ℝ)
          * (1 + M / Real.sqrt (T (t.flatten.map RF2.val) / (t.flatten.length : ℝ))) * r.u
          * (V3 (t.flatten.map RF2.val) / (t.flatten.length : ℝ)
              / (Real.sqrt (T (t.flatten.map RF2.val) / (t.flatten.length : ℝ)))^3) := by
  show |((Kurtosis.evalTree t).avg.skewness).val - _| ≤ _
  rw [Props.C02f.inner_skewness_bitwise]
  exact skewness_mtree_accessor_envelope_kappa q hs heq M hM t hb hsmall hpos hε₂

end skew

/-! ## `kurtosis()` after every merge tree -/

section kurt
variable {r : Rnd2 F} [FloatOps (RF2 r)]

/-- **`kurtosis()` after EVERY merge tree** (the envelope clause of C02 for the accessor). Any ordered field,
standard model of rounding with unit roundoff `u`; every merge tree `t` of height `h` (any shape, any chunk sizes,
empty and one-element chunks included; leaves folded with `Kurtosis.add`, nodes merged with `Kurtosis.merge`) over
`n ≥ 1` observations with `|x| ≤ M`; `σ > 0` the population standard deviation (`n·σ² = T`, so `T > 0`), and the single
smallness hypothesis `n·u·(32·(257840 + 3555h + 55h²) + (157556 + 1540h)·(M/σ)) < 1` (the relative error of `sum_4`
of `Props.C02f.sum4_mtree_relative_error` is below one; it implies `(n+28)·u ≤ 1/64`, `n·u·M ≤ σ` and
`n·u·(10 + 62·(M/σ)) ≤ 1/2048`). With `G = n·Q/T² = m₄/σ⁴`:
`|kurtosis() - (G - 3)| ≤ n·u·(8259156 + 113874·h + 1762·h² + (157838 + 1542·h)·(M/σ))·G`. -/
theorem kurtosis_mtree_accessor_error (heq : ValEqb r) (M : F) (hM : 0 ≤ M) (t : MTree (RF2 r))
    (hne : t.flatten ≠ []) (hb : ∀ x ∈ t.flatten, |x.val| ≤ M)
    (σ : F) (hσ : 0 < σ) (hvar : (t.flatten.length : F) * σ^2 = T (t.flatten.map RF2.val))
    (hε₄ : (t.flatten.length : F) * r.u
        * (32 * (257840 + 3555 * (height t : F) + 55 * (height t : F)^2)
            + (157556 + 1540 * (height t : F)) * (M / σ)) < 1) :
    |(Kurtosis.evalTree t).kurtosis.val
        - ((t.flatten.length : F) * Q (t.flatten.map RF2.val)
            / (T (t.flatten.map RF2.val) * T (t.flatten.map RF2.val)) - 3)|
      ≤ (t.flatten.length : F) * r.u
          * (8259156 + 113874 * (height t : F) + 1762 * (height t : F)^2
              + (157838 + 1542 * (height t : F)) * (M / σ))
          * ((t.flatten.length : F) * Q (t.flatten.map RF2.val)
              / (T (t.flatten.map RF2.val) * T (t.flatten.map RF2.val))) :=
  (AccMerge.kurt_mtree_accessor_rel heq M hM t hne hb σ hσ hvar hε₄).2

omit [FloatOps (RF2 r)] in
/-- Under the hypotheses of `kurtosis_mtree_accessor_error` the stored `sum_4` is not `0`: the shortcut of
`kurtosis()` is not taken (`Q > 0` whenever `T > 0`, and the relative error of `sum_4` is below one). -/
theorem kurtosis_mtree_shortcut_not_taken (M : F) (hM : 0 ≤ M) (t : MTree (RF2 r))
    (hne : t.flatten ≠ []) (hb : ∀ x ∈ t.flatten, |x.val| ≤ M)
    (σ : F) (hσ : 0 < σ) (hvar : (t.flatten.length : F) * σ^2 = T (t.flatten.map RF2.val))
    (hε₄ : (t.flatten.length : F) * r.u
        * (32 * (257840 + 3555 * (height t : F) + 55 * (height t : F)^2)
            + (157556 + 1540 * (height t : F)) * (M / σ)) < 1) :
    (Kurtosis.evalTree t).sum_4.val ≠ 0 :=
  letI : FloatOps (RF2 r) := rf2FloatOps r
  (AccMerge.kurt_mtree_accessor_rel (rf2FloatOps_valEqb r) M hM t hne hb σ hσ hvar hε₄).1

/-- **Envelope form**: same hypotheses, `κ = 1 + M/σ`:
`|kurtosis() - (G - 3)| ≤ (8259156 + 113874·h + 1762·h²)·n·κ·u·G` - the shape `C·n·κ·u·scale` of the envelope clause with
`C` quadratic in the height of the tree (`Props.C02f.V4T_le_Q_height`). -/
theorem kurtosis_mtree_accessor_envelope_kappa (heq : ValEqb r) (M : F) (hM : 0 ≤ M) (t : MTree (RF2 r))
    (hne : t.flatten ≠ []) (hb : ∀ x ∈ t.flatten, |x.val| ≤ M)
    (σ : F) (hσ : 0 < σ) (hvar : (t.flatten.length : F) * σ^2 = T (t.flatten.map RF2.val))
    (hε₄ : (t.flatten.length : F) * r.u
        * (32 * (257840 + 3555 * (height t : F) + 55 * (height t : F)^2)
            + (157556 + 1540 * (height t : F)) * (M / σ)) < 1) :
    |(Kurtosis.evalTree t).kurtosis.val
        - ((t.flatten.length : F) * Q (t.flatten.map RF2.val)
            / (T (t.flatten.map RF2.val) * T (t.flatten.map RF2.val)) - 3)|
      ≤ (8259156 + 113874 * (height t : F) + 1762 * (height t : F)^2) * (t.flatten.length : F)
          * (1 + M / σ) * r.u
          * ((t.flatten.length : F) * Q (t.flatten.map RF2.val)
              / (T (t.flatten.map RF2.val) * T (t.flatten.map RF2.val))) := by
  refine le_trans (kurtosis_mtree_accessor_error heq M hM t hne hb σ hσ hvar hε₄) ?_
  have hu := r.u_nonneg
  have hk0 : 0 ≤ M / σ := div_nonneg hM hσ.le
  have hh0 : (0 : F) ≤ (height t : F) := Nat.cast_nonneg _
  have hn0 : (0 : F) ≤ (t.flatten.length : F) := Nat.cast_nonneg _
  have hTpos : 0 < T (t.flatten.map RF2.val) := by
    rw [← hvar]
    have : (0 : F) < (t.flatten.length : F) := by exact_mod_cast List.length_pos_of_ne_nil hne
    positivity
  have hG : 0 ≤ (t.flatten.length : F) * Q (t.flatten.map RF2.val)
      / (T (t.flatten.map RF2.val) * T (t.flatten.map RF2.val)) := by
    have := Q_nonneg (t.flatten.map RF2.val)
    positivity
  have hx : 0 ≤ (t.flatten.length : F) * r.u := mul_nonneg hn0 hu
  have h1 : (t.flatten.length : F) * r.u
        * (8259156 + 113874 * (height t : F) + 1762 * (height t : F)^2
            + (157838 + 1542 * (height t : F)) * (M / σ))
      ≤ (8259156 + 113874 * (height t : F) + 1762 * (height t : F)^2) * (t.flatten.length : F)
          * (1 + M / σ) * r.u := by
    have h2 : (157838 + 1542 * (height t : F)) * (M / σ)
        ≤ (8259156 + 113874 * (height t : F) + 1762 * (height t : F)^2) * (M / σ) :=
      mul_le_mul_of_nonneg_right (by nlinarith [sq_nonneg (height t : F)]) hk0
    calc (t.flatten.length : F) * r.u
          * (8259156 + 113874 * (height t : F) + 1762 * (height t : F)^2
              + (157838 + 1542 * (height t : F)) * (M / σ))
        ≤ (t.flatten.length : F) * r.u
            * (8259156 + 113874 * (height t : F) + 1762 * (height t : F)^2
              + (8259156 + 113874 * (height t : F) + 1762 * (height t : F)^2) * (M / σ)) :=
          mul_le_mul_of_nonneg_left (by linarith) hx
      _ = _ := by ring
  exact mul_le_mul_of_nonneg_right h1 hG

/-- **`kurtosis()` after every merge tree, in the scales of the tree; both branches of the shortcut live.** Any
ordered field; `n ≥ 1` observations `|x| ≤ M`, `(n+28)·u ≤ 1/64`, `σ > 0` with `n·σ² = T`,
`n·u·(10 + 62·(M/σ)) ≤ 1/32`; no hypothesis on the size of the error of `sum_4`. With `G = n·Q/T²` and `V4T`, `V3S` the
scales of the tree (`Props.C02f.scales_def`):
`|kurtosis() - (G - 3)| ≤ n·u·( 64·(V4T/n)/σ⁴ + 308·(M/σ)·(V3S/n)/σ³ + 216552·(M/σ) + (27 + 131·(M/σ))·G )`. -/
theorem kurtosis_mtree_accessor_error_scales (heq : ValEqb r) (M : F) (hM : 0 ≤ M) (t : MTree (RF2 r))
    (hne : t.flatten ≠ []) (hb : ∀ x ∈ t.flatten, |x.val| ≤ M)
    (hsmall : ((t.flatten.length : F) + 28) * r.u ≤ 1/64)
    (σ : F) (hσ : 0 < σ) (hvar : (t.flatten.length : F) * σ^2 = T (t.flatten.map RF2.val))
    (hε₂ : (t.flatten.length : F) * r.u * (10 + 62 * (M / σ)) ≤ 1/32) :
    |(Kurtosis.evalTree t).kurtosis.val
        - ((t.flatten.length : F) * Q (t.flatten.map RF2.val)
            / (T (t.flatten.map RF2.val) * T (t.flatten.map RF2.val)) - 3)|
      ≤ (t.flatten.length : F) * r.u
          * (64 * (V4T (t.map RF2.val) / (t.flatten.length : F) / σ^4)
              + 308 * (M / σ) * (V3S (t.map RF2.val) / (t.flatten.length : F) / σ^3)
              + 216552 * (M / σ)
              + (27 + 131 * (M / σ)) * ((t.flatten.length : F) * Q (t.flatten.map RF2.val)
                  / (T (t.flatten.map RF2.val) * T (t.flatten.map RF2.val)))) :=
  AccMerge.kurt_mtree_accessor_scales heq M hM t hne hb hsmall σ hσ hvar hε₂

end kurt

/-- **`kurtosis()` after every merge tree, in the words of DESIGN.md section 5.** Over ℝ; `n` observations `|x| ≤ M`
in a merge tree of height `h`; exact variance `var = T/n > 0`, `σ = √var`; the single smallness hypothesis
`n·u·(32·(257840 + 3555h + 55h²) + (157556 + 1540h)·(M/σ)) < 1`. Then
`|kurtosis() - ((Q/n)/var² - 3)| ≤ n·u·(8259156 + 113874·h + 1762·h² + (157838 + 1542·h)·(M/σ))·(Q/n)/var²`,
`Q/n = m₄` the exact fourth central moment, `(Q/n)/var² = m₄/σ⁴ ≥ 1`. -/
theorem kurtosis_mtree_accessor_error_kappa {r : Rnd2 ℝ} [FloatOps (RF2 r)] (heq : ValEqb r) (M : ℝ)
    (hM : 0 ≤ M) (t : MTree (RF2 r)) (hb : ∀ x ∈ t.flatten, |x.val| ≤ M)
    (hpos : 0 < T (t.flatten.map RF2.val) / (t.flatten.length : ℝ))
    (hε₄ : (t.flatten.length : ℝ) * r.u
        * (32 * (257840 + 3555 * (height t : ℝ) + 55 * (height t : ℝ)^2)
            + (157556 + 1540 * (height t : ℝ))
              * (M / Real.sqrt (T (t.flatten.map RF2.val) / (t.flatten.length : ℝ)))) < 1) :
    |(Kurtosis.evalTree t).kurtosis.val
        - (Q (t.flatten.map RF2.val) / (t.flatten.length : ℝ)
            / (T (t.flatten.map RF2.val) / (t.flatten.length : ℝ))^2 - 3)|
      ≤ (t.flatten.length : ℝ) * r.u
          * (8259156 + 113874 * (height t : ℝ) + 1762 * (height t : ℝ)^2
              + (157838 + 1542 * (height t : ℝ))
                * (M / Real.sqrt (T (t.flatten.map RF2.val) / (t.flatten.length : ℝ))))
          * (Q (t.flatten.map RF2.val) / (t.flatten.length : ℝ)
              / (T (t.flatten.map RF2.val) / (t.flatten.length : ℝ))^2) := by
  have hl : ((t.flatten.map RF2.val).length : ℝ) = (t.flatten.length : ℝ) := by simp
  obtain ⟨hne, hσ, hvar⟩ := sigma_facts (t.flatten.map RF2.val) (by rw [hl]; exact hpos)
  rw [hl] at hσ hvar
  have hne' : t.flatten ≠ [] := by simpa using hne
  have hnpos : (0 : ℝ) < (t.flatten.length : ℝ) := by exact_mod_cast List.length_pos_of_ne_nil hne'
  have hTpos : 0 < T (t.flatten.map RF2.val) := by rw [← hvar]; positivity
  have h := kurtosis_mtree_accessor_error heq M hM t hne' hb _ hσ hvar hε₄
  rw [Props.C03e.kurtosis_exact_value (t.flatten.length : ℝ) (T (t.flatten.map RF2.val))
    (Q (t.flatten.map RF2.val)) hnpos.ne' hTpos.ne'] at h
  exact h

/-! ## Non-vacuity -/

/-- the data of `Props.C02e.exTree` over ℝ: ill-conditioned (offset 1000; deviations `-2, -4, 0, 6` from the mean
1003), skewed, in a tree with a nested merge, an empty chunk in the middle, a one-element chunk and unequal chunk
sizes; the rounding `Props.C01c.awayRndR` and the square root `Props.C01c.awaySqrt` are never exact -/
noncomputable def exTreeR : MTree (RF2 Props.C01c.awayRndR) :=
  .node (.leaf [⟨1001⟩, ⟨999⟩, ⟨1003⟩]) (.node (.leaf []) (.leaf [⟨1009⟩]))

theorem exTreeR_vals : T (exTreeR.flatten.map RF2.val) = 56 ∧ U (exTreeR.flatten.map RF2.val) = 144
    ∧ Q (exTreeR.flatten.map RF2.val) = 1568 ∧ V3 (exTreeR.flatten.map RF2.val) = 288
    ∧ (exTreeR.flatten.length : ℝ) = 4 ∧ height exTreeR = 2 := by
  refine ⟨?_, ?_, ?_, ?_, ?_, rfl⟩
  · norm_num [exTreeR, MTree.flatten, T, sumPow, mean]
  · norm_num [exTreeR, MTree.flatten, U, sumPow, mean]
  · norm_num [exTreeR, MTree.flatten, Q, sumPow, mean]
  · norm_num [exTreeR, MTree.flatten, V3, mean, abs_of_nonneg, abs_of_neg]
  · norm_num [exTreeR, MTree.flatten]

/-- the scale of the tree, as in `Props.C02e.exTree_V3T`: `V3p = 12` for the first chunk, `Pa + Qa = 192 + 48` at the
root, nothing for the empty and the one-element chunk -/
theorem exTreeR_V3T : V3T (exTreeR.map RF2.val) = 252 := by
  have h1 : V3p ([1001, 999, 1003] : List ℝ) = 12 := by
    norm_num [V3p, VA, VB, incA, incB, cA, dev, T, sumPow, mean, Finset.sum_range_succ]
  have h2 : V3p ([1009] : List ℝ) = 0 := by
    norm_num [V3p, VA, VB, incA, incB, cA, dev, T, sumPow, mean, Finset.sum_range_succ]
  have h3 : V3p ([] : List ℝ) = 0 := V3p_nil
  have h4 : absJ ([] : List ℝ) [1009] = 0 := absJ_nil_left _
  have h5 : absJ ([1001, 999, 1003] : List ℝ) [1009] = 240 := by
    norm_num [absJ, absP, absQ, w3a, mixH, T, sumPow, mean]
  simp only [exTreeR, MTree.map, V3T, MTree.flatten, List.map_cons, List.map_nil, List.nil_append, h1, h2,
    h3, h4, h5]
  norm_num

theorem three_le_sqrt_fourteen : (3 : ℝ) ≤ Real.sqrt 14 := Real.le_sqrt_of_sq_le (by norm_num)

theorem exTreeR_bound : ∀ x ∈ exTreeR.flatten, |x.val| ≤ 1009 := by
  intro x hx
  simp only [exTreeR, MTree.flatten, List.nil_append, List.mem_append, List.mem_cons,
    List.not_mem_nil, or_false] at hx
  rcases hx with (rfl | rfl | rfl) | rfl <;> norm_num

/-- the hypotheses of `skewness_mtree_accessor_error`, `skewness_mtree_accessor_envelope_kappa` and
`kurtosis_mtree_accessor_error_kappa` are met by `exTreeR` with `M = 1009`, `u = 2^-53`, the instance
`rf2SqrtFloatOps awayRndR awaySqrt`: `T/n = 14`, `σ = √14 ≥ 3`, `M/σ ≤ 337`, height `2` -/
example : @SqrtIs Props.C01c.awayRndR Props.C01c.awaySqrt
      (rf2SqrtFloatOps Props.C01c.awayRndR Props.C01c.awaySqrt)
    ∧ @ValEqb ℝ _ _ _ Props.C01c.awayRndR (rf2SqrtFloatOps Props.C01c.awayRndR Props.C01c.awaySqrt)
    ∧ (∀ x ∈ exTreeR.flatten, |x.val| ≤ 1009)
    ∧ ((exTreeR.flatten.length : ℝ) + 28) * Props.C01c.awayRndR.u ≤ 1/64
    ∧ 0 < T (exTreeR.flatten.map RF2.val) / (exTreeR.flatten.length : ℝ)
    ∧ (exTreeR.flatten.length : ℝ) * Props.C01c.awayRndR.u
        * (10 + 62 * (1009 / Real.sqrt (T (exTreeR.flatten.map RF2.val) / (exTreeR.flatten.length : ℝ))))
        ≤ 1/32
    ∧ (exTreeR.flatten.length : ℝ) * Props.C01c.awayRndR.u
        * (32 * (257840 + 3555 * (height exTreeR : ℝ) + 55 * (height exTreeR : ℝ)^2)
            + (157556 + 1540 * (height exTreeR : ℝ))
              * (1009 / Real.sqrt (T (exTreeR.flatten.map RF2.val) / (exTreeR.flatten.length : ℝ)))) < 1 := by
  obtain ⟨hT, _, _, _, hl, hh⟩ := exTreeR_vals
  have hu : Props.C01c.awayRndR.u = 1/2^53 := rfl
  have h3 := three_le_sqrt_fourteen
  have hq : T (exTreeR.flatten.map RF2.val) / (exTreeR.flatten.length : ℝ) = 14 := by
    rw [hT, hl]; norm_num
  have hk : 1009 / Real.sqrt 14 ≤ 337 := by
    rw [div_le_iff₀ (by linarith)]; linarith
  have hk0 : 0 ≤ 1009 / Real.sqrt 14 := by positivity
  refine ⟨rf2SqrtFloatOps_sqrtIs _ _, rf2SqrtFloatOps_valEqb _ _, exTreeR_bound, ?_, ?_, ?_, ?_⟩
  · rw [hl, hu]; norm_num
  · rw [hq]; norm_num
  · rw [hq, hl, hu]; norm_num; nlinarith
  · rw [hq, hl, hu, hh]; norm_num; nlinarith

/-- and the conclusion of `skewness_mtree_accessor_error_sigma` is a concrete statement about a computation under a
rounding that is never exact (104 rounded operations for the state, then two rounded square roots and four rounded
operations): `skewness()` is within
`4·2^-53·(17·(252/4)/(√14)³ + 2660·(1009/√14) + (22 + 100·(1009/√14))·|(144/4)/(√14)³|)` (about `2.9·10^6·u ≈ 3.3·10^-10`)
of the exact skewness `(144/4)/(√14)³ ≈ 0.687` -/
example :
    letI : FloatOps (RF2 Props.C01c.awayRndR) :=
      rf2SqrtFloatOps Props.C01c.awayRndR Props.C01c.awaySqrt
    |(Skewness.evalTree exTreeR).skewness.val - 144 / 4 / (Real.sqrt 14)^3|
      ≤ 4 * (1/2^53) * (17 * (252 / 4 / (Real.sqrt 14)^3) + 2660 * (1009 / Real.sqrt 14)
          + (22 + 100 * (1009 / Real.sqrt 14)) * |144 / 4 / (Real.sqrt 14)^3|) := by
  let _ : FloatOps (RF2 Props.C01c.awayRndR) :=
    rf2SqrtFloatOps Props.C01c.awayRndR Props.C01c.awaySqrt
  obtain ⟨hT, hU, _, _, hl, _⟩ := exTreeR_vals
  have hu : Props.C01c.awayRndR.u = 1/2^53 := rfl
  have h3 := three_le_sqrt_fourteen
  have hk : 1009 / Real.sqrt 14 ≤ 337 := by
    rw [div_le_iff₀ (by linarith)]; linarith
  have hk0 : 0 ≤ 1009 / Real.sqrt 14 := by positivity
  have h := skewness_mtree_accessor_error_sigma Props.C01c.awaySqrt (rf2SqrtFloatOps_sqrtIs _ _)
    (rf2SqrtFloatOps_valEqb _ _) 1009 (by norm_num) exTreeR (by simp [exTreeR, MTree.flatten])
    exTreeR_bound (by rw [hl, hu]; norm_num) (Real.sqrt 14) (by linarith)
    (by rw [hT, hl, Real.sq_sqrt (by norm_num)]; norm_num)
    (by rw [hl, hu]; norm_num; nlinarith)
  rw [hU, exTreeR_V3T, hl, hu] at h
  exact h

/-- and the conclusion of `kurtosis_mtree_accessor_error_kappa` for `exTreeR` (`Q/n = 392`, `var = 14`,
`m₄/σ⁴ = 2`, height `2`): `kurtosis()` is within `4·2^-53·(8259156 + 113874·2 + 1762·4 + (157838 + 1542·2)·(1009/√14))·2` of
the exact excess kurtosis `2 - 3 = -1` -/
example :
    letI : FloatOps (RF2 Props.C01c.awayRndR) :=
      rf2SqrtFloatOps Props.C01c.awayRndR Props.C01c.awaySqrt
    |(Kurtosis.evalTree exTreeR).kurtosis.val - (1568 / 4 / (14:ℝ)^2 - 3)|
      ≤ 4 * (1/2^53) * (8259156 + 113874 * 2 + 1762 * (2:ℝ)^2 + (157838 + 1542 * 2) * (1009 / Real.sqrt 14))
          * (1568 / 4 / (14:ℝ)^2) := by
  let _ : FloatOps (RF2 Props.C01c.awayRndR) :=
    rf2SqrtFloatOps Props.C01c.awayRndR Props.C01c.awaySqrt
  obtain ⟨hT, _, hQ, _, hl, hh⟩ := exTreeR_vals
  have hu : Props.C01c.awayRndR.u = 1/2^53 := rfl
  have h3 := three_le_sqrt_fourteen
  have hq : T (exTreeR.flatten.map RF2.val) / (exTreeR.flatten.length : ℝ) = 14 := by
    rw [hT, hl]; norm_num
  have hk : 1009 / Real.sqrt 14 ≤ 337 := by
    rw [div_le_iff₀ (by linarith)]; linarith
  have hk0 : 0 ≤ 1009 / Real.sqrt 14 := by positivity
  have h := kurtosis_mtree_accessor_error_kappa (rf2SqrtFloatOps_valEqb _ _) 1009 (by norm_num) exTreeR
    exTreeR_bound (by rw [hq]; norm_num)
    (by rw [hq, hl, hu, hh]; norm_num; nlinarith)
  rw [hq, hQ, hl, hu, hh] at h
  norm_num at h ⊢
  exact h

/-- a tree over ℚ whose population standard deviation is rational: deviations `5, -3, -1, -1` from the mean 1000
(`T = 36 = 4·3²`, `σ = 3`, `U = 96`, `Q = 708`, `G = 4·708/36² = 59/27`), same shape as `Props.C02e.exTree` (nested
merge, empty chunk, one-element chunk); the rounding `Props.C02b.awayRnd` is never exact -/
def exTreeQ : MTree (RF2 Props.C02b.awayRnd) :=
  .node (.leaf [⟨1005⟩, ⟨997⟩, ⟨999⟩]) (.node (.leaf []) (.leaf [⟨999⟩]))

theorem exTreeQ_vals : T (exTreeQ.flatten.map RF2.val) = 36 ∧ Q (exTreeQ.flatten.map RF2.val) = 708
    ∧ (exTreeQ.flatten.length : ℚ) = 4 ∧ height exTreeQ = 2 := by
  refine ⟨?_, ?_, ?_, rfl⟩
  · norm_num [exTreeQ, MTree.flatten, T, sumPow, mean]
  · norm_num [exTreeQ, MTree.flatten, Q, sumPow, mean]
  · norm_num [exTreeQ, MTree.flatten]

theorem exTreeQ_bound : ∀ x ∈ exTreeQ.flatten, |x.val| ≤ 1005 := by
  intro x hx
  simp only [exTreeQ, MTree.flatten, List.nil_append, List.mem_append, List.mem_cons,
    List.not_mem_nil, or_false] at hx
  rcases hx with (rfl | rfl | rfl) | rfl <;> norm_num

/-- the hypotheses of `kurtosis_mtree_accessor_error` and of `kurtosis_mtree_accessor_error_scales` are met by
`exTreeQ` with `M = 1005`, `σ = 3`, `u = 2^-53`, the instance `rf2FloatOps awayRnd` -/
example : @ValEqb ℚ _ _ _ Props.C02b.awayRnd (rf2FloatOps Props.C02b.awayRnd)
    ∧ exTreeQ.flatten ≠ [] ∧ (∀ x ∈ exTreeQ.flatten, |x.val| ≤ 1005)
    ∧ ((exTreeQ.flatten.length : ℚ) + 28) * Props.C02b.awayRnd.u ≤ 1/64
    ∧ (exTreeQ.flatten.length : ℚ) * 3^2 = T (exTreeQ.flatten.map RF2.val)
    ∧ (exTreeQ.flatten.length : ℚ) * Props.C02b.awayRnd.u * (10 + 62 * (1005 / 3)) ≤ 1/32
    ∧ (exTreeQ.flatten.length : ℚ) * Props.C02b.awayRnd.u
        * (32 * (257840 + 3555 * (height exTreeQ : ℚ) + 55 * (height exTreeQ : ℚ)^2)
            + (157556 + 1540 * (height exTreeQ : ℚ)) * (1005 / 3)) < 1 := by
  obtain ⟨hT, _, hl, hh⟩ := exTreeQ_vals
  have hu : Props.C02b.awayRnd.u = 1/2^53 := rfl
  refine ⟨rf2FloatOps_valEqb _, by simp [exTreeQ, MTree.flatten], exTreeQ_bound, ?_, ?_, ?_, ?_⟩
  · rw [hl, hu]; norm_num
  · rw [hT, hl]; norm_num
  · rw [hl, hu]; norm_num
  · rw [hl, hu, hh]; norm_num

/-- and the conclusion of `kurtosis_mtree_accessor_error`: a statement about a computation under a rounding that is
never exact (the state: 31 rounded operations per `add`, 63 in the one merge of two non-empty states; then four more):
`kurtosis()` is within `4·2^-53·(8259156 + 113874·2 + 1762·4 + (157838 + 1542·2)·335)·(59/27)` (about `5.4·10^8·u ≈ 6·10^-8`)
of the exact excess kurtosis `59/27 - 3 = -22/27` -/
example :
    letI : FloatOps (RF2 Props.C02b.awayRnd) := rf2FloatOps Props.C02b.awayRnd
    |(Kurtosis.evalTree exTreeQ).kurtosis.val - (-22/27)|
      ≤ 4 * (1/2^53) * (8259156 + 113874 * 2 + 1762 * 4 + (157838 + 1542 * 2) * 335) * (59/27) := by
  let _ : FloatOps (RF2 Props.C02b.awayRnd) := rf2FloatOps Props.C02b.awayRnd
  obtain ⟨hT, hQ, hl, hh⟩ := exTreeQ_vals
  have hu : Props.C02b.awayRnd.u = 1/2^53 := rfl
  have h := kurtosis_mtree_accessor_error (rf2FloatOps_valEqb _) 1005 (by norm_num) exTreeQ
    (by simp [exTreeQ, MTree.flatten]) exTreeQ_bound 3 (by norm_num)
    (by rw [hT, hl]; norm_num) (by rw [hl, hu, hh]; norm_num)
  rw [hT, hQ, hl, hu, hh] at h
  norm_num at h ⊢
  exact h

/-- the state lemmas with a live shortcut are not vacuous either: a `Skewness` state whose stored `sum_3` is `0`
although `U = 1` (`n = 4`, `sum_2 = T = 4`, `δ₃ = 1`, `ε₂ = 0`): the accessor returns `0`, and the bound of
`skewness_accessor_error_abs_numerals` holds with `|0 - √4·1/√64| = 1/4 ≤ (√4/√64)·(1.053 + 5.3u)`. -/
example :
    letI : FloatOps (RF2 Props.C01c.awayRndR) :=
      rf2SqrtFloatOps Props.C01c.awayRndR Props.C01c.awaySqrt
    let s : Skewness (RF2 Props.C01c.awayRndR) := ⟨⟨⟨⟨0⟩, 4⟩, ⟨4⟩⟩, ⟨0⟩⟩
    s.skewness.val = 0 ∧
    |s.skewness.val - Real.sqrt ((4:ℕ):ℝ) * 1 / Real.sqrt (4 * 4 * 4)|
      ≤ Real.sqrt ((4:ℕ):ℝ) / Real.sqrt (4 * 4 * 4)
          * (1053/1000 * 1 + |(1:ℝ)| * (8/5 * 0 + 53/10 * Props.C01c.awayRndR.u)) := by
  let _ : FloatOps (RF2 Props.C01c.awayRndR) :=
    rf2SqrtFloatOps Props.C01c.awayRndR Props.C01c.awaySqrt
  intro s
  have hu : Props.C01c.awayRndR.u = 1/2^53 := rfl
  refine ⟨?_, ?_⟩
  · have := Props.C03d.skewness_computed Props.C01c.awaySqrt (rf2SqrtFloatOps_sqrtIs _ _)
      (rf2SqrtFloatOps_valEqb _ _) s (by decide)
    rw [this, if_pos rfl]
  · exact skewness_accessor_error_abs_numerals Props.C01c.awaySqrt (rf2SqrtFloatOps_sqrtIs _ _)
      (rf2SqrtFloatOps_valEqb _ _) s (by decide) 4 1 0 1 (by norm_num) le_rfl (by norm_num)
      (by rw [hu]; norm_num) (by show |(4:ℝ) - 4| ≤ 0 * 4; norm_num)
      (by show |(0:ℝ) - 1| ≤ 1; norm_num)

/-- and `kurtosis_accessor_error_abs` with a live shortcut: a `Kurtosis` state whose stored `sum_4` is `0` although
`Q = 2` (`n = 2`, `sum_2 = T = 2`, `G = 1`, `δ₄ = 2`, `ε₂ = 0`): the accessor returns `0`, and
`|0 - (1 - 3)| = 2 ≤ 2·(2·2/4) + 1·(26/5)·u`. -/
example :
    letI : FloatOps (RF2 Props.C02b.awayRnd) := rf2FloatOps Props.C02b.awayRnd
    let s : Kurtosis (RF2 Props.C02b.awayRnd) := ⟨⟨⟨⟨⟨0⟩, 2⟩, ⟨2⟩⟩, ⟨0⟩⟩, ⟨0⟩⟩
    |s.kurtosis.val - (((2:ℕ):ℚ) * 2 / (2 * 2) - 3)|
      ≤ 2 * (((2:ℕ):ℚ) * 2 / (2 * 2))
        + ((2:ℕ):ℚ) * 2 / (2 * 2) * (211/100 * 0 + 26/5 * Props.C02b.awayRnd.u) := by
  let _ : FloatOps (RF2 Props.C02b.awayRnd) := rf2FloatOps Props.C02b.awayRnd
  intro s
  have hu : Props.C02b.awayRnd.u = 1/2^53 := rfl
  exact kurtosis_accessor_error_abs (rf2FloatOps_valEqb _) s (by decide) 2 2 0 2 (by norm_num)
    (by norm_num) le_rfl (by norm_num) (by rw [hu]; norm_num)
    (by show |(2:ℚ) - 2| ≤ 0 * 2; norm_num) (by show |(0:ℚ) - 2| ≤ 2; norm_num)

end Props.C02g

#print axioms Props.C02g.skewness_accessor_error_abs
#print axioms Props.C02g.skewness_accessor_error_abs_numerals
#print axioms Props.C02g.skewness_amplification_numerals
#print axioms Props.C02g.kurtosis_accessor_error_abs
#print axioms Props.C02g.kurtosis_factor_numerals_mid
#print axioms Props.C02g.count_mtree_exact
#print axioms Props.C02g.sum2_mtree_relative_error
#print axioms Props.C02g.sum3_mtree_absolute_error
#print axioms Props.C02g.sum4_mtree_absolute_error
#print axioms Props.C02g.skewness_mtree_accessor_error_sigma
#print axioms Props.C02g.skewness_mtree_accessor_error
#print axioms Props.C02g.skewness_mtree_accessor_envelope
#print axioms Props.C02g.skewness_mtree_accessor_envelope_kappa
#print axioms Props.C02g.kurtosis_skewness_mtree_accessor_error
#print axioms Props.C02g.kurtosis_skewness_mtree_accessor_envelope
#print axioms Props.C02g.kurtosis_mtree_accessor_error
#print axioms Props.C02g.kurtosis_mtree_shortcut_not_taken
#print axioms Props.C02g.kurtosis_mtree_accessor_envelope_kappa
#print axioms Props.C02g.kurtosis_mtree_accessor_error_scales
#print axioms Props.C02g.kurtosis_mtree_accessor_error_kappa
