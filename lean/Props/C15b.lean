import AvgProofs.RoundQ
import AvgProofs.RoundQExample
import AvgProofs.QuantileRound
import Props.C05
import Props.C15

/-!
# C15b - `Quantile` estimates stay inside the data range under ROUNDED arithmetic

`Props.C15.quantile_range_of_sorted` proves the range claim on every ordered carrier with arbitrary
arithmetic under the hypothesis that the marker heights are sorted once five observations are in;
`Props.C15.quantile_range` discharges it in exact arithmetic. Here it is discharged for the
floating-point-like carrier `RQ r` of `AvgProofs/RoundQ.lean`: each `+ - * /` is followed by a
rounding `r.fl`, ANY monotone idempotent map with relative error `u ≤ 1/4`; integer casts exact; the
order is the order of the values; any `FloatOps (RQ r)` whose comparisons are the order's.
`Rep x` : `x` is representable (`r.fl x.val = x.val`); observations are representable by hypothesis.
-/
open Avg Avg.Spec RQ
set_option linter.unusedSectionVars false

namespace Props.C15b

section rounded
variable {K : Type} [Field K] [LinearOrder K] [IsStrictOrderedRing K] {r : RndQ K}
variable [FloatOps (RQ r)] [OrdLaws (RQ r)]

/-- Rounded arithmetic: after every stream of at least five representable observations the marker
state is well formed - heights non-decreasing and representable, positions strictly increasing from
1 to the count, first and last height the minimum and maximum of the observations. -/
theorem wellformed_run_rounded (p : RQ r) (s0 : Quantile (RQ r)) (h0 : Quantile.new p = .val s0)
    (xs : List (RQ r)) (h5 : 5 ≤ xs.length) (hrep : ∀ x ∈ xs, Rep x) :
    Sorted5 (xs.foldl Quantile.add s0).q
    ∧ StrictIncr5 (xs.foldl Quantile.add s0).n
    ∧ Rep5 (xs.foldl Quantile.add s0).q
    ∧ (xs.foldl Quantile.add s0).n.a0 = 1 ∧ (xs.foldl Quantile.add s0).n.a4 = xs.length
    ∧ IsMinOf (xs.foldl Quantile.add s0).q.a0 xs ∧ IsMaxOf (xs.foldl Quantile.add s0).q.a4 xs := by
  obtain ⟨emin, emax⟩ := Props.C15.extremes_run p s0 h0 xs h5
  obtain ⟨n0, n4⟩ := Props.C05.n0_eq_one_run p s0 h0 xs
  rw [new_val h0] at emin emax n0 n4 ⊢
  obtain ⟨iq, inn, ir, _⟩ := run_inv_rounded p xs h5 hrep
  exact ⟨iq, inn, ir, n0, n4, emin, emax⟩

/-- Rounded arithmetic, every rounding `r : RndQ K`, every `p` accepted by `new`, every non-empty
stream of representable observations of any length: `quantile()` lies in every interval that
contains the observations, i.e. between the smallest and the largest observation. -/
theorem quantile_range_rounded (p : RQ r) (s0 : Quantile (RQ r)) (h0 : Quantile.new p = .val s0)
    (xs : List (RQ r)) (hne : xs ≠ []) (hrep : ∀ x ∈ xs, Rep x)
    (lo hi : RQ r) (hb : ∀ x ∈ xs, lo ≤ x ∧ x ≤ hi) :
    lo ≤ (xs.foldl Quantile.add s0).quantile ∧ (xs.foldl Quantile.add s0).quantile ≤ hi :=
  Props.C15.quantile_range_of_sorted p s0 h0 xs hne
    (fun h5 => (wellformed_run_rounded p s0 h0 xs h5 hrep).1) lo hi hb

/-- ... with the bounds taken to be the stream's own minimum and maximum (which exist). -/
theorem quantile_between_min_max_rounded (p : RQ r) (s0 : Quantile (RQ r))
    (h0 : Quantile.new p = .val s0) (xs : List (RQ r)) (hrep : ∀ x ∈ xs, Rep x)
    (lo hi : RQ r) (hlo : IsMinOf lo xs) (hhi : IsMaxOf hi xs) :
    lo ≤ (xs.foldl Quantile.add s0).quantile ∧ (xs.foldl Quantile.add s0).quantile ≤ hi :=
  quantile_range_rounded p s0 h0 xs (List.ne_nil_of_mem hlo.1) hrep lo hi
    (fun x hx => ⟨hlo.2 x hx, hhi.2 x hx⟩)

end rounded

/-! ## the hypotheses are satisfiable -/
section examples

@[reducible] def rqOps : FloatOps (RQ floorRnd) := RQ.floatOps (fun x => ⌈x.val⌉)
attribute [local instance] rqOps
local instance : OrdLaws (RQ floorRnd) := RQ.floatOps_laws _

/-- the stream 12, 3, 7, 7, 1, 30, 2 (integers are representable under `floorRnd`) -/
def demo : List (RQ floorRnd) := ([12, 3, 7, 7, 1, 30, 2] : List ℤ).map (fun n : ℤ => ⟨(n : ℚ)⟩)

/-- the non-trivial rounding `floorRnd` (integers only from 4 on, `fl (9/2) = 4`): `new (3/10)`
succeeds, the stream 12, 3, 7, 7, 1, 30, 2 is non-empty, representable and inside [1, 30]; hence
so is the estimate. -/
example : ∃ s0, Quantile.new (⟨3/10⟩ : RQ floorRnd) = .val s0 ∧
    demo ≠ [] ∧ (∀ x ∈ demo, Rep x) ∧ (∀ x ∈ demo, (⟨1⟩ : RQ floorRnd) ≤ x ∧ x ≤ ⟨30⟩)
    ∧ (⟨1⟩ : RQ floorRnd) ≤ (demo.foldl Quantile.add s0).quantile
    ∧ (demo.foldl Quantile.add s0).quantile ≤ ⟨30⟩ := by
  have hnew : Quantile.new (⟨3/10⟩ : RQ floorRnd) = .val (Quantile.init ⟨3/10⟩) := by
    rw [new_eq]
    have : (fle ((0:Nat) : RQ floorRnd) ⟨3/10⟩ && fle ⟨3/10⟩ ((1:Nat) : RQ floorRnd)) = true := by
      simp only [Bool.and_eq_true, fle_iff, RQ.le_iff, RQ.natCast_val]; norm_num
    rw [if_pos this]
  refine ⟨_, hnew, ?_⟩
  have hne : demo ≠ [] := by simp [demo]
  have hrep : ∀ x ∈ demo, Rep x := by
    intro x hx
    simp only [demo, List.mem_map] at hx
    obtain ⟨i, _, rfl⟩ := hx
    exact floorRnd_rep_int i
  have hb : ∀ x ∈ demo, (⟨1⟩ : RQ floorRnd) ≤ x ∧ x ≤ ⟨30⟩ := by
    intro x hx
    simp only [demo, List.mem_map] at hx
    obtain ⟨i, hi, rfl⟩ := hx
    have hi' : 1 ≤ i ∧ i ≤ 30 := by
      simp only [List.mem_cons, List.not_mem_nil, or_false] at hi
      omega
    simp only [RQ.le_iff]
    exact ⟨by exact_mod_cast hi'.1, by exact_mod_cast hi'.2⟩
  have := quantile_range_rounded _ _ hnew demo hne hrep ⟨1⟩ ⟨30⟩ hb
  exact ⟨hne, hrep, hb, this.1, this.2⟩

end examples

end Props.C15b

#print axioms Props.C15b.wellformed_run_rounded
#print axioms Props.C15b.quantile_range_rounded
#print axioms Props.C15b.quantile_between_min_max_rounded
