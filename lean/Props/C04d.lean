import AvgProofs.MomNErrEnv
import Props.C10b
import Mathlib.Analysis.Real.Sqrt
import Mathlib.Tactic.NormNum

/-!
# C04 (addendum) - the third-order entry `m[1]` of `define_moments!(T, N)` in floating point, every `N ≥ 3`;
# `central_moment(3)` and `sample_skewness` after an add-only stream

Carrier **R2** (`RF2 r`, `AvgProofs/MeanErr2.lean`): an ordered field `F` in which every `+ - * /` is followed
by a rounding `r.fl` with `|fl t - t| ≤ u·|t|` (standard model: no overflow, no underflow); conversions of
counts are exact; unary minus is exact (`NegExact r`, as IEEE negation; `RF2.instNeg` is such an instance).
Notation: `n` observations, `M ≥ max|x_i|`, `mean`, `T = Σ(x - mean)²`, `U = Σ(x - mean)³` (`SkewSpec.U`),
`V3 = Σ|x - mean|³` (`SkewErr.V3`), `d_i = x_i - mean(x_0..x_{i-1})`, `T_i = T(x_0..x_{i-1})`,
`γ_j = (1+u)^j - 1`, `L = n + 10`, `Moments.m0 s = s.m[0]`, `Moments.m1 s = s.m[1]`.

## What `Moments.add N` does to `m[1]` (read off the model)
It is the iteration `p = 3` of the outer loop; the inner loop `for k in 1..2` runs once (binomial `C(3,1) = 3`,
`coeff = 1·factor_coeff`). With `k` the new count, `over_n = 1/k`, `delta = x - avg`, and `m0`, `m1` the entries
BEFORE the observation (`m1_bitwise_update`, any carrier, the same for every `N ≥ 3`:
`m0_m1_independent_of_order`):
`m1' = (m1 + (term1·f1·f1 + term2·f2·f2)·(delta·delta·delta)) + (3·m0)·(1·((-delta)·over_n))`,
`term1 = (k-1)·(-over_n)`, `f1 = -over_n`, `term2 = f2 = (k-1)·over_n`.
At R2 (`moments_m1_computed`): `on = fl(1/k)`, `km = fl(k-1)`, `δ = fl(x-a)`, `w = fl(km·on)`,
`t1 = fl(fl(fl(km·(-on))·(-on))·(-on))`, `t2 = fl(fl(w·w)·w)`, `cd = fl(fl(δ·δ)·δ)`,
`P = fl(fl(t1 + t2)·cd)`, `Q = fl(fl(3·m0)·fl(1·fl((-δ)·on)))`, `m1' = fl(fl(m1 + P) + Q)`.
In exact arithmetic this is the recurrence of `Skewness.sum_3` (`U_k = U_{k-1} + d³(k-1)(k-2)/k² - 3dT_{k-1}/k`,
`Props.C03b.sum3_exact_recurrence`), but the operations differ from `Skewness.add` in three ways that matter:
1. the coefficient `c = (k-1)(k-2)/k²` of `δ³` is assembled as the rounded SUM of `t1 ≈ -(k-1)/k³ < 0` and
   `t2 ≈ (k-1)³/k³ > 0`: its error is relative to `cab = (k-1)/k³ + (k-1)³/k³`, not to `c`
   (`coefficient_rounding_error`); for `k = 2` the exact `c` is `0` but the computed one is not (in the model);
   hence the scale `V3m = Σ|d_i|³·cM_i + Σ 3|d_i|T_i/(i+1)` with `cM_i = (i+i³)/(i+1)³ ≥ c_i` (`V3m_def`);
2. the two parts of the increment are added to `m1` one after the other (two rounded additions per observation
   instead of a rounded difference and one addition): the accumulated factor is `(1+u)^(2n)`;
3. more roundings: `P` eighteen (`Skewness`: twelve), `Q` six (five).

## Results
* `moments_m1_step_error` - one step, explicit in the error `e` of the mean and `D2` of `m[0]`.
* `moments_m1_forward_error_general` - the induction for arbitrary bounds `E_i`, `F_i` on the errors of the
  mean and of `m[0]` of the prefixes; no hypothesis on the data:
  `|m[1] - U| ≤ (1+u)^(2n)·Σ_i[…] + ((1+u)^(2n) - 1)·V3m`.
* `moments_m1_forward_error` (`(n+28)·u ≤ 1/64`, `n·T ≤ R₀²`):
  `|m[1] - U| ≤ 10·L·u·V3m + 11·L·u·M·T + 13·u·M·R₀² + 30·L²·u²·M²·R₀ + 16·L⁴·u³·M³`;
  `…_closed` (`V3m ≤ 2M·T + 3·T·S₀`), `…_V3` (`V3m ≤ 40·V3`).
* `moments_m1_envelope`: `T ≤ n·σ²`, `L·u·M ≤ σ` ⟹ `≤ 10·L·u·V3m + 70·L²·u·M·σ²`;
  `moments_m1_envelope_V3`, `moments_m1_envelope_kappa` (ℝ, `σ = sqrt(T/n) > 0`, `κ = 1 + M/σ`, `n ≥ 3`):
  **`|m[1] - U| ≤ 400·L·κ·u·V3`**.
* `central_moment3_forward_error`, `central_moment3_envelope_kappa`:
  **`|central_moment(3) - U/n| ≤ 401·L·κ·u·V3/n`**.
* `sample_skewness_stream_forward_error`: `Props.C10b.sample_skewness_stream_partial` with
  `δ₃ = 401·L·κ·u·V3/n` - no hypothesis on the computed quantities is left;
  `sample_skewness_stream_envelope`: `≤ A/m₂^(3/2)·(V3/n)·((16/15)·ρ + 442·L·κ·u)`.

Not covered: `m[p-2]`, `p ≥ 4`; merge trees; sharp constants (40 in `V3m ≤ 40·V3` is the product of the
Hardy/Copson constants).
-/
open Avg MSpec Finset VarSpec SkewSpec SkewErr MomNErr MomVarErr

namespace Props.C04d

/-! ## bit for bit: what `add` does to `m[1]` -/

/-- Any carrier (floating point included), every order `N ≥ 3`, bit for bit: `Moments.add N` replaces the
third-order entry by
`(m1 + (term1·f1·f1 + term2·f2·f2)·(δ·δ·δ)) + (3·m0)·(1·((-δ)·(1/k)))`, `k` the new count, `δ = x - avg`,
`term1 = (k-1)·(-(1/k))`, `f1 = -(1/k)`, `term2 = f2 = (k-1)·(1/k)`, `m0`, `m1` the entries before the
observation; every operation is that of the carrier in exactly this association (whatever default the entry
is read with: the list has at least two entries). -/
theorem m1_bitwise_update {α : Type} [Add α] [Sub α] [Mul α] [Div α] [Neg α] [NatCast α]
    (N : Nat) (hN : 3 ≤ N) (s : Moments α) (x d : α) :
    (Moments.add N s x).m.getD 1 d =
      (s.m1 + ((((s.n + 1 : Nat) : α) - ((1:Nat):α)) * (-(((1:Nat):α) / ((s.n + 1 : Nat) : α)))
                  * (-(((1:Nat):α) / ((s.n + 1 : Nat) : α)))
                  * (-(((1:Nat):α) / ((s.n + 1 : Nat) : α)))
                + ((((s.n + 1 : Nat) : α) - ((1:Nat):α)) * (((1:Nat):α) / ((s.n + 1 : Nat) : α)))
                  * ((((s.n + 1 : Nat) : α) - ((1:Nat):α)) * (((1:Nat):α) / ((s.n + 1 : Nat) : α)))
                  * ((((s.n + 1 : Nat) : α) - ((1:Nat):α)) * (((1:Nat):α) / ((s.n + 1 : Nat) : α))))
              * ((x - s.avg) * (x - s.avg) * (x - s.avg)))
        + ((3:Nat):α) * s.m0
            * (((1:Nat):α) * ((-(x - s.avg)) * (((1:Nat):α) / ((s.n + 1 : Nat) : α)))) :=
  Moments.add_m1 N hN s x d

/-- Any carrier, bit for bit: the entries `m[0]`, `m[1]` after an `add` do not depend on the order `N`
beyond `N ≥ 3` (two states with the same count, mean, `m[0]`, `m[1]`, possibly of different orders). -/
theorem m0_m1_independent_of_order {α : Type} [Add α] [Sub α] [Mul α] [Div α] [Neg α] [NatCast α]
    (N N' : Nat) (hN : 3 ≤ N) (hN' : 3 ≤ N') (s s' : Moments α) (x d : α)
    (hn : s.n = s'.n) (ha : s.avg = s'.avg) (h0 : s.m0 = s'.m0) (h1 : s.m1 = s'.m1) :
    (Moments.add N s x).m.getD 0 d = (Moments.add N' s' x).m.getD 0 d
    ∧ (Moments.add N s x).m.getD 1 d = (Moments.add N' s' x).m.getD 1 d :=
  Moments.add_m01_indep N N' hN hN' s s' x d hn ha h0 h1

/-- Any carrier, bit for bit: after the same add-only stream, `define_moments!(T, N)` and `define_moments!(T, N')`
(`N, N' ≥ 3`) hold the same count, mean, `m[0]` and `m[1]`. Hence every statement below about `m[1]` is about
one and the same floating-point number, whatever the order. -/
theorem m0_m1_stream_independent_of_order {α : Type} [Add α] [Sub α] [Mul α] [Div α] [Neg α] [NatCast α]
    (N N' : Nat) (hN : 3 ≤ N) (hN' : 3 ≤ N') (xs : List α) :
    (xs.foldl (Moments.add N) (Moments.new N)).n = (xs.foldl (Moments.add N') (Moments.new N')).n
    ∧ (xs.foldl (Moments.add N) (Moments.new N)).avg = (xs.foldl (Moments.add N') (Moments.new N')).avg
    ∧ (xs.foldl (Moments.add N) (Moments.new N)).m0 = (xs.foldl (Moments.add N') (Moments.new N')).m0
    ∧ (xs.foldl (Moments.add N) (Moments.new N)).m1
        = (xs.foldl (Moments.add N') (Moments.new N')).m1 :=
  Moments.fold_m01_indep N N' hN hN' xs

variable {F : Type} [Field F] [LinearOrder F] [IsStrictOrderedRing F]

/-- In exact arithmetic (any ordered field) `m[1]` of a `define_moments!(T, N)`, `N ≥ 3`, *is*
`U = Σ(x - mean)³` (from `Props.C04.moments_fold`). -/
theorem m1_exact (N : Nat) (hN : 3 ≤ N) (vs : List F) :
    (vs.foldl (Moments.add N) (Moments.new N)).m1 = U vs := by
  rw [MSpec.moments_fold]
  show ((List.range (N - 1)).map (fun j => sumPow vs (mean vs) (j + 2))).getD 1 ((0:ℕ):F) = _
  rw [MSpec.getD_map_range (N - 1) _ 1 (by omega)]
  rfl

/-- **What `Moments.add N` computes for `m[1]` at R2** (exact negation, every `N ≥ 3`), rounding by rounding:
with `k` the new count, `a` the mean, `m0`, `m1` the entries before the observation, `on = fl(1/k)`,
`km = fl(k-1)`, `δ = fl(x-a)`:
`m1' = fl( fl(m1 + fl(fl(t1 + t2)·fl(fl(δ·δ)·δ))) + fl(fl(3·m0)·fl(1·fl((-δ)·on))) )`,
`t1 = fl(fl(fl(km·(-on))·(-on))·(-on))`, `t2 = fl(fl(fl(km·on)·fl(km·on))·fl(km·on))`. Nineteen distinct
rounded values per observation enter `m[1]` (eight of them - `δ`, `on`, `km`, `fl(km·(-on))`,
`fl(fl(km·(-on))·(-on))`, `fl(km·on)`, `fl(fl(km·on)·fl(km·on))`, `fl(δ·δ)` - also occur in the updates of the
mean and of `m[0]`; the code evaluates `k - 1` three times and `(k-1)·over_n` twice, with the same results). -/
theorem moments_m1_computed (r : Rnd2 F) [Neg (RF2 r)] (hneg : NegExact r) (N : Nat) (hN : 3 ≤ N)
    (s : Moments (RF2 r)) (x : RF2 r) :
    (Moments.add N s x).m1.val =
      r.fl (r.fl (s.m1.val +
          r.fl (r.fl (r.fl (r.fl (r.fl (r.fl (((s.n + 1 : ℕ) : F) - 1) * -(r.fl (1 / ((s.n + 1 : ℕ) : F))))
                          * -(r.fl (1 / ((s.n + 1 : ℕ) : F))))
                        * -(r.fl (1 / ((s.n + 1 : ℕ) : F))))
                    + r.fl (r.fl (r.fl (r.fl (((s.n + 1 : ℕ) : F) - 1) * r.fl (1 / ((s.n + 1 : ℕ) : F)))
                          * r.fl (r.fl (((s.n + 1 : ℕ) : F) - 1) * r.fl (1 / ((s.n + 1 : ℕ) : F))))
                        * r.fl (r.fl (((s.n + 1 : ℕ) : F) - 1) * r.fl (1 / ((s.n + 1 : ℕ) : F)))))
                * r.fl (r.fl (r.fl (x.val - s.avg.val) * r.fl (x.val - s.avg.val))
                    * r.fl (x.val - s.avg.val))))
        + r.fl (r.fl (3 * s.m0.val)
            * r.fl (1 * r.fl (-(r.fl (x.val - s.avg.val)) * r.fl (1 / ((s.n + 1 : ℕ) : F)))))) :=
  moments_m1_add_val r hneg N hN s x

/-! ## one step -/

/-- The computed coefficient of `δ³`, `fl(t1 + t2)`, against `c = (k-1)(k-2)/k²` (any real `k ≥ 1`):
`|fl(t1+t2) - c| ≤ γ12·cab`, `cab = (k-1)/k³ + (k-1)³/k³`, and `|c| ≤ cab`. The error is relative to the sum of
the absolute values of the two parts, of opposite sign (`t1`: seven roundings, `t2`: eleven, the sum one more). -/
theorem coefficient_rounding_error (r : Rnd2 F) (k : F) (hk : 1 ≤ k) :
    |r.fl (r.fl (r.fl (r.fl (r.fl (k - 1) * -(r.fl (1 / k))) * -(r.fl (1 / k))) * -(r.fl (1 / k)))
          + r.fl (r.fl (r.fl (r.fl (k - 1) * r.fl (1 / k)) * r.fl (r.fl (k - 1) * r.fl (1 / k)))
              * r.fl (r.fl (k - 1) * r.fl (1 / k))))
        - (k - 1) * (k - 2) / k^2|
      ≤ ((1 + r.u)^12 - 1) * ((k - 1) / k^3 + (k - 1)^3 / k^3)
    ∧ |(k - 1) * (k - 2) / k^2| ≤ (k - 1) / k^3 + (k - 1)^3 / k^3 :=
  coef_DE r.fl r.u r.u_nonneg r.err k hk

/-- The exact value of the coefficient: `-(k-1)/k³ + (k-1)³/k³ = (k-1)(k-2)/k²` (`k ≠ 0`), and for the count
`k = i + 1`: `c = i(i-1)/(i+1)² = cA i`, `cab = (i+i³)/(i+1)³ = cM i ≥ cA i`, `cM i ≤ i/(i+1) ≤ 1`. -/
theorem coefficient_exact_value {L : Type} [Field L] (k : L) (hk : k ≠ 0) (i : ℕ) :
    ((k - 1) * -(1 / k) * -(1 / k) * -(1 / k)
        + (k - 1) * (1 / k) * ((k - 1) * (1 / k)) * ((k - 1) * (1 / k)) = (k - 1) * (k - 2) / k^2)
    ∧ (cab ((i : F) + 1) = cM i ∧ (cA i : F) ≤ cM i ∧ (cM i : F) ≤ (i : F) / ((i : F) + 1)
        ∧ (cM i : F) ≤ 1) := by
  refine ⟨?_, cab_succ i, cA_le_cM i, cM_le_ratio i, cM_le_one i⟩
  field_simp
  ring

/-- The computed `P = fl(fl(t1 + t2)·fl(fl(δ·δ)·δ))` is within `γ18·cab·|x-a|³` of `c·(x-a)³`
(eighteen roundings: twelve in the coefficient, five in the cube, the product). -/
theorem incrementP_rounding_error (r : Rnd2 F) (x a k : F) (hk : 1 ≤ k) :
    |r.fl (r.fl (r.fl (r.fl (r.fl (r.fl (k - 1) * -(r.fl (1 / k))) * -(r.fl (1 / k))) * -(r.fl (1 / k)))
              + r.fl (r.fl (r.fl (r.fl (k - 1) * r.fl (1 / k)) * r.fl (r.fl (k - 1) * r.fl (1 / k)))
                  * r.fl (r.fl (k - 1) * r.fl (1 / k))))
          * r.fl (r.fl (r.fl (x - a) * r.fl (x - a)) * r.fl (x - a)))
        - (k - 1) * (k - 2) / k^2 * (x - a)^3|
      ≤ ((1 + r.u)^18 - 1) * (((k - 1) / k^3 + (k - 1)^3 / k^3) * |x - a|^3) :=
  (incrP_DE r.fl r.u r.u_nonneg r.err x a k hk).1

/-- The computed `Q = fl(fl(3·m0)·fl(1·fl((-δ)·on)))` is within relative error `γ6` of `-3·((x-a)/k)·m0`
(`m0` the computed entry, an input; the multiplication by `1` is a rounded operation of the model). -/
theorem incrementQ_rounding_error (r : Rnd2 F) (x a k m0 : F) :
    |r.fl (r.fl (3 * m0) * r.fl (1 * r.fl (-(r.fl (x - a)) * r.fl (1 / k))))
        - -(3 * ((x - a) / k) * m0)|
      ≤ ((1 + r.u)^6 - 1) * |-(3 * ((x - a) / k) * m0)| :=
  incrQ_RE r.fl r.u r.u_nonneg r.err x a k m0

/-- `(1+u)^18 - 1 ≤ 18.2·u` and `(1+u)^6 - 1 ≤ 6.1·u` for `u ≤ 1/1856`. -/
theorem eighteen_and_six_roundings (u : F) (hu : 0 ≤ u) (h : u ≤ 1/1856) :
    (1 + u)^18 - 1 ≤ 91/5 * u ∧ (1 + u)^6 - 1 ≤ 61/10 * u :=
  ⟨g18_le u hu h, g6_le u hu h⟩

/-- **One step of the error recurrence of `m[1]`.** `m1`, `m0`, `a`: computed third-order entry, second-order
entry and mean before the step; `Uv`, `Tv ≥ 0`, `μ`: their exact counterparts; `k ≥ 1` the new count;
`d = x - μ`, `e = a - μ`, `D2 = m0 - Tv`, `c = (k-1)(k-2)/k²`, `cab = (k-1)/k³ + (k-1)³/k³`,
exact increment `d³c - 3dTv/k`:
`|m1' - U'| ≤ (1+u)·( (1+u)·(|m1 - Uv| + γ18·|d|³cab + (1+γ18)·cab·(3d²|e| + 3|d|e² + |e|³))
     + u·|Uv + d³c| + γ6·|3dTv/k| + (1+γ6)·(3/k)·(|d||D2| + |e|Tv + |e||D2|) ) + u·|U'|`. -/
theorem moments_m1_step_error (r : Rnd2 F) (x a μ m0 Tv m1 Uv k : F) (hk : 1 ≤ k) (hT : 0 ≤ Tv) :
    |r.fl (r.fl (m1 +
          r.fl (r.fl (r.fl (r.fl (r.fl (r.fl (k - 1) * -(r.fl (1 / k))) * -(r.fl (1 / k)))
                  * -(r.fl (1 / k)))
                + r.fl (r.fl (r.fl (r.fl (k - 1) * r.fl (1 / k)) * r.fl (r.fl (k - 1) * r.fl (1 / k)))
                    * r.fl (r.fl (k - 1) * r.fl (1 / k))))
            * r.fl (r.fl (r.fl (x - a) * r.fl (x - a)) * r.fl (x - a))))
        + r.fl (r.fl (3 * m0) * r.fl (1 * r.fl (-(r.fl (x - a)) * r.fl (1 / k)))))
      - (Uv + ((x - μ)^3 * ((k - 1) * (k - 2) / k^2) - 3 * (x - μ) * Tv / k))|
    ≤ (1 + r.u) * ((1 + r.u) * (|m1 - Uv|
            + ((1 + r.u)^18 - 1) * (|x - μ|^3 * ((k - 1) / k^3 + (k - 1)^3 / k^3))
            + (1 + ((1 + r.u)^18 - 1)) * (((k - 1) / k^3 + (k - 1)^3 / k^3)
                * (3 * (x - μ)^2 * |a - μ| + 3 * |x - μ| * (a - μ)^2 + |a - μ|^3)))
          + r.u * |Uv + (x - μ)^3 * ((k - 1) * (k - 2) / k^2)|
          + ((1 + r.u)^6 - 1) * |3 * (x - μ) * Tv / k|
          + (1 + ((1 + r.u)^6 - 1)) * (3 / k
              * (|x - μ| * |m0 - Tv| + |a - μ| * Tv + |a - μ| * |m0 - Tv|)))
      + r.u * |Uv + ((x - μ)^3 * ((k - 1) * (k - 2) / k^2) - 3 * (x - μ) * Tv / k)| :=
  mom3_step_error r.fl r.u r.u_nonneg r.err x a μ m0 Tv m1 Uv k hk hT

/-! ## the scale -/

omit [IsStrictOrderedRing F] in
/-- The natural scale of the rounding errors of `m[1]`: the sum over the stream of `|d_i|³·(i+i³)/(i+1)³`
(the two parts of the coefficient taken in absolute value) and of `3·|d_i|·T_i/(i+1)`. -/
theorem V3m_def (vs : List F) :
    V3m vs = ∑ i ∈ range vs.length, |dev vs i|^3 * (((i : F) + (i : F)^3) / ((i : F) + 1)^3)
      + ∑ i ∈ range vs.length, 3 * |dev vs i| * T (vs.take i) / ((i : F) + 1) := rfl

/-- `|U| ≤ V3p ≤ V3m`, `V3m` never decreases when an observation is added, `V3m ≤ 40·V3` (no hypothesis on
the data), `|U| ≤ V3`, and `V3m ≤ 2M·T + 3·T·S₀` for `|x_i| ≤ M`, `T ≤ S₀²`. -/
theorem V3m_facts (vs : List F) (x : F) :
    |U vs| ≤ V3p vs ∧ V3p vs ≤ V3m vs ∧ V3m vs ≤ V3m (vs ++ [x]) ∧ V3m vs ≤ 40 * V3 vs
    ∧ |U vs| ≤ V3 vs
    ∧ ∀ M S₀ : F, 0 ≤ M → (∀ y ∈ vs, |y| ≤ M) → 0 ≤ S₀ → T vs ≤ S₀^2 →
        V3m vs ≤ 2 * M * T vs + 3 * T vs * S₀ :=
  ⟨abs_U_le vs, V3p_le_V3m vs, V3m_mono vs x, V3m_le_V3 vs, abs_U_le_V3 vs,
    fun M S₀ hM hb hS hST => V3m_le vs M hM hb S₀ hS hST⟩

/-! ## all stream lengths, every order -/

section fold
variable {r : Rnd2 F} [Neg (RF2 r)]

/-- **General form.** Every order `N ≥ 3`, every stream `xs`: if `E i ≥ 0` bounds the error of the running
mean (bit for bit that of `Mean`) and `F' i ≥ 0` the error of the computed `m[0]` after `i` observations (for
every prefix of `xs`), then
`|m[1] - U| ≤ (1+u)^(2n)·Σ_{i<n} [ γ18·|d_i|³cM_i + γ6·3|d_i|T_i/(i+1)
     + (1+γ18)·cM_i·(3d_i²E_i + 3|d_i|E_i² + E_i³) + (1+γ6)·(3/(i+1))·(|d_i|F'_i + E_i·T_i + E_i·F'_i) ]
     + ((1+u)^(2n) - 1)·V3m`.  No bound on the data is needed here. -/
theorem moments_m1_forward_error_general (hneg : NegExact r) (N : Nat) (hN : 3 ≤ N) (E F' : ℕ → F)
    (hE0 : ∀ i, 0 ≤ E i) (hF0 : ∀ i, 0 ≤ F' i) (xs : List (RF2 r))
    (hE : ∀ ys, ys <+: xs →
      |(ys.foldl Mean.add Mean.new).avg.val - mean (ys.map RF2.val)| ≤ E ys.length)
    (hF : ∀ ys, ys <+: xs →
      |(ys.foldl (Moments.add N) (Moments.new N)).m0.val - T (ys.map RF2.val)| ≤ F' ys.length) :
    |(xs.foldl (Moments.add N) (Moments.new N)).m1.val - U (xs.map RF2.val)|
      ≤ (1 + r.u)^(2 * xs.length) *
          (∑ i ∈ range (xs.map RF2.val).length,
              (((1 + r.u)^18 - 1) * (|dev (xs.map RF2.val) i|^3 * cM i)
                + ((1 + r.u)^6 - 1)
                    * (3 * |dev (xs.map RF2.val) i| * T ((xs.map RF2.val).take i) / ((i : F) + 1))
                + (1 + ((1 + r.u)^18 - 1)) * (cM i * (3 * (dev (xs.map RF2.val) i)^2 * E i
                    + 3 * |dev (xs.map RF2.val) i| * (E i)^2 + (E i)^3))
                + (1 + ((1 + r.u)^6 - 1)) * (3 / ((i : F) + 1)
                    * (|dev (xs.map RF2.val) i| * F' i + E i * T ((xs.map RF2.val).take i)
                        + E i * F' i))))
        + ((1 + r.u)^(2 * xs.length) - 1) * V3m (xs.map RF2.val) :=
  mom3_fold_error_gen hneg N hN E F' hE0 hF0 xs hE hF

/-- The hypotheses of the general form hold with `E i = (65/128)·u·M·(i + 37/4)` (`0` for `i = 0`) and
`F' i = (29/4)·i·u·T_i + (99/25)·i·u·M·R₀ + (15/4)·i³·u²·M²` when `|x_i| ≤ M`, `(n+28)·u ≤ 1/64` and
`n·T ≤ R₀²` (from `Props.C01b.mean_forward_error_sharp` and `Props.C04c.moments_m0_forward_error`). -/
theorem prefix_bounds (hneg : NegExact r) (N : Nat) (hN : 2 ≤ N) (M : F) (hM : 0 ≤ M)
    (xs : List (RF2 r))
    (hb : ∀ x ∈ xs, |x.val| ≤ M) (hsmall : ((xs.length : F) + 28) * r.u ≤ 1/64)
    (R₀ : F) (hR : 0 ≤ R₀) (hRT : (xs.length : F) * T (xs.map RF2.val) ≤ R₀^2) :
    (∀ ys, ys <+: xs →
      |(ys.foldl Mean.add Mean.new).avg.val - mean (ys.map RF2.val)|
        ≤ if ys.length = 0 then 0 else 65/128 * r.u * M * ((ys.length : F) + 37/4)) ∧
    (∀ ys, ys <+: xs →
      |(ys.foldl (Moments.add N) (Moments.new N)).m0.val - T (ys.map RF2.val)|
        ≤ (29/4 * r.u) * ys.length * T ((xs.map RF2.val).take ys.length)
          + (99/25 * r.u * M * R₀) * ys.length + (15/4 * r.u^2 * M^2) * (ys.length : F)^3) :=
  ⟨VarErr.mean_prefix_sharp r M hM xs hb hsmall, m0_prefix_sharp hneg N hN M hM xs hb hsmall R₀ hR hRT⟩

/-- **Forward error of `m[1]`.** Every order `N ≥ 3`, every stream of `n` observations with `|x_i| ≤ M` and
`(n+28)·u ≤ 1/64`; any `R₀ ≥ 0` with `n·T ≤ R₀²`; `L = n + 10`:
`|m[1] - U| ≤ 10·L·u·V3m + 11·L·u·M·T + 13·u·M·R₀² + 30·L²·u²·M²·R₀ + 16·L⁴·u³·M³`. -/
theorem moments_m1_forward_error (hneg : NegExact r) (N : Nat) (hN : 3 ≤ N) (M : F) (hM : 0 ≤ M)
    (xs : List (RF2 r)) (hb : ∀ x ∈ xs, |x.val| ≤ M)
    (hsmall : ((xs.length : F) + 28) * r.u ≤ 1/64)
    (R₀ : F) (hR : 0 ≤ R₀) (hRT : (xs.length : F) * T (xs.map RF2.val) ≤ R₀^2) :
    |(xs.foldl (Moments.add N) (Moments.new N)).m1.val - U (xs.map RF2.val)|
      ≤ 10 * ((xs.length : F) + 10) * r.u * V3m (xs.map RF2.val)
        + 11 * ((xs.length : F) + 10) * r.u * M * T (xs.map RF2.val)
        + 13 * r.u * M * R₀^2
        + 30 * ((xs.length : F) + 10)^2 * r.u^2 * M^2 * R₀
        + 16 * ((xs.length : F) + 10)^4 * r.u^3 * M^3 :=
  mom3_fold_error_num hneg N hN M hM xs hb hsmall R₀ hR hRT

/-- **Fully closed form.** Moreover `S₀ ≥ 0` with `T ≤ S₀²`:
`|m[1] - U| ≤ 31·L·u·M·T + 30·L·u·T·S₀ + 13·u·M·R₀² + 30·L²·u²·M²·R₀ + 16·L⁴·u³·M³`. -/
theorem moments_m1_forward_error_closed (hneg : NegExact r) (N : Nat) (hN : 3 ≤ N) (M : F) (hM : 0 ≤ M)
    (xs : List (RF2 r)) (hb : ∀ x ∈ xs, |x.val| ≤ M)
    (hsmall : ((xs.length : F) + 28) * r.u ≤ 1/64)
    (S₀ : F) (hS : 0 ≤ S₀) (hST : T (xs.map RF2.val) ≤ S₀^2)
    (R₀ : F) (hR : 0 ≤ R₀) (hRT : (xs.length : F) * T (xs.map RF2.val) ≤ R₀^2) :
    |(xs.foldl (Moments.add N) (Moments.new N)).m1.val - U (xs.map RF2.val)|
      ≤ 31 * ((xs.length : F) + 10) * r.u * M * T (xs.map RF2.val)
        + 30 * ((xs.length : F) + 10) * r.u * T (xs.map RF2.val) * S₀
        + 13 * r.u * M * R₀^2
        + 30 * ((xs.length : F) + 10)^2 * r.u^2 * M^2 * R₀
        + 16 * ((xs.length : F) + 10)^4 * r.u^3 * M^3 :=
  mom3_fold_error_closed hneg N hN M hM xs hb hsmall S₀ hS hST R₀ hR hRT

/-- **In the scale `V3 = Σ|x - mean|³`.**
`|m[1] - U| ≤ 400·L·u·V3 + 11·L·u·M·T + 13·u·M·R₀² + 30·L²·u²·M²·R₀ + 16·L⁴·u³·M³`. -/
theorem moments_m1_forward_error_V3 (hneg : NegExact r) (N : Nat) (hN : 3 ≤ N) (M : F) (hM : 0 ≤ M)
    (xs : List (RF2 r)) (hb : ∀ x ∈ xs, |x.val| ≤ M)
    (hsmall : ((xs.length : F) + 28) * r.u ≤ 1/64)
    (R₀ : F) (hR : 0 ≤ R₀) (hRT : (xs.length : F) * T (xs.map RF2.val) ≤ R₀^2) :
    |(xs.foldl (Moments.add N) (Moments.new N)).m1.val - U (xs.map RF2.val)|
      ≤ 400 * ((xs.length : F) + 10) * r.u * V3 (xs.map RF2.val)
        + 11 * ((xs.length : F) + 10) * r.u * M * T (xs.map RF2.val)
        + 13 * r.u * M * R₀^2
        + 30 * ((xs.length : F) + 10)^2 * r.u^2 * M^2 * R₀
        + 16 * ((xs.length : F) + 10)^4 * r.u^3 * M^3 :=
  mom3_fold_error_V3 hneg N hN M hM xs hb hsmall R₀ hR hRT

/-- **Envelope form, linear in the conditioning.** If `σ ≥ 0` with `T ≤ n·σ²` and `L·u·M ≤ σ`, then
`|m[1] - U| ≤ 10·L·u·V3m + 70·L²·u·M·σ²` - that is `70·L·u·(M/σ)` relative to the scale `L·σ³`. -/
theorem moments_m1_envelope (hneg : NegExact r) (N : Nat) (hN : 3 ≤ N) (M : F) (hM : 0 ≤ M)
    (xs : List (RF2 r)) (hb : ∀ x ∈ xs, |x.val| ≤ M)
    (hsmall : ((xs.length : F) + 28) * r.u ≤ 1/64)
    (σ : F) (hσ : 0 ≤ σ) (hvar : T (xs.map RF2.val) ≤ xs.length * σ^2)
    (hcond : ((xs.length : F) + 10) * r.u * M ≤ σ) :
    |(xs.foldl (Moments.add N) (Moments.new N)).m1.val - U (xs.map RF2.val)|
      ≤ 10 * ((xs.length : F) + 10) * r.u * V3m (xs.map RF2.val)
        + 70 * ((xs.length : F) + 10)^2 * r.u * M * σ^2 :=
  mom3_envelope hneg N hN M hM xs hb hsmall σ hσ hvar hcond

/-- **Envelope in the scale `V3 = n·ν_3`.** `n ≥ 1`, `σ > 0` with `n·σ² = T`, `L·u·M ≤ σ`:
`|m[1] - U| ≤ L·u·V3·(400 + 70·(L/n)·(M/σ))`; for `n ≥ 3` this is `≤ 400·L·u·V3·(1 + M/σ)`. -/
theorem moments_m1_envelope_V3 (hneg : NegExact r) (N : Nat) (hN : 3 ≤ N) (M : F) (hM : 0 ≤ M)
    (xs : List (RF2 r)) (hne : xs ≠ []) (hb : ∀ x ∈ xs, |x.val| ≤ M)
    (hsmall : ((xs.length : F) + 28) * r.u ≤ 1/64)
    (σ : F) (hσ : 0 < σ) (hvar : (xs.length : F) * σ^2 = T (xs.map RF2.val))
    (hcond : ((xs.length : F) + 10) * r.u * M ≤ σ) :
    |(xs.foldl (Moments.add N) (Moments.new N)).m1.val - U (xs.map RF2.val)|
        ≤ ((xs.length : F) + 10) * r.u * V3 (xs.map RF2.val)
            * (400 + 70 * (((xs.length : F) + 10) / (xs.length : F)) * (M / σ))
    ∧ (3 ≤ xs.length →
        |(xs.foldl (Moments.add N) (Moments.new N)).m1.val - U (xs.map RF2.val)|
          ≤ 400 * ((xs.length : F) + 10) * r.u * V3 (xs.map RF2.val) * (1 + M / σ)) :=
  ⟨mom3_envelope_V3 hneg N hN M hM xs hne hb hsmall σ hσ hvar hcond,
    fun h3 => mom3_envelope_lin hneg N hN M hM xs h3 hb hsmall σ hσ hvar hcond⟩

/-! ## `central_moment(3)` -/
variable [FloatOps (RF2 r)]

omit [Neg (RF2 r)] in
/-- `central_moment(3)` never panics for `N ≥ 3` (the index `p - 2 = 1` is inside the array). -/
theorem central_moment3_no_panic (N : Nat) (hN : 3 ≤ N) (s : Moments (RF2 r)) :
    s.centralMoment N 3 = .val (s.cmRaw 3) :=
  central_moment3_eq N hN s

/-- What `central_moment(3)` computes at R2 for a non-empty stream: `fl(m[1]/n)`, one more rounding. -/
theorem central_moment3_computed (N : Nat) (hN : 3 ≤ N) (xs : List (RF2 r)) (hne : xs ≠ []) :
    ((xs.foldl (Moments.add N) (Moments.new N)).cmRaw 3).val
      = r.fl ((xs.foldl (Moments.add N) (Moments.new N)).m1.val / (xs.length : F)) :=
  cm3_val N hN xs hne

/-- **`central_moment(3)`.** Whatever the non-arithmetic operations of the carrier are, for every order
`N ≥ 3`, `n ≥ 1` observations with `|x_i| ≤ M`, `(n+28)·u ≤ 1/64`, `n·T ≤ R₀²`, `L = n + 10`:
`|central_moment(3) - U/n| ≤ (11·L·u·V3m + 12·L·u·M·T + 14·u·M·R₀² + 31·L²·u²·M²·R₀ + 17·L⁴·u³·M³)/n`. -/
theorem central_moment3_forward_error (hneg : NegExact r) (N : Nat) (hN : 3 ≤ N) (M : F) (hM : 0 ≤ M)
    (xs : List (RF2 r)) (hne : xs ≠ [])
    (hb : ∀ x ∈ xs, |x.val| ≤ M) (hsmall : ((xs.length : F) + 28) * r.u ≤ 1/64)
    (R₀ : F) (hR : 0 ≤ R₀) (hRT : (xs.length : F) * T (xs.map RF2.val) ≤ R₀^2) :
    |((xs.foldl (Moments.add N) (Moments.new N)).cmRaw 3).val - U (xs.map RF2.val) / (xs.length : F)|
      ≤ (11 * ((xs.length : F) + 10) * r.u * V3m (xs.map RF2.val)
        + 12 * ((xs.length : F) + 10) * r.u * M * T (xs.map RF2.val)
        + 14 * r.u * M * R₀^2
        + 31 * ((xs.length : F) + 10)^2 * r.u^2 * M^2 * R₀
        + 17 * ((xs.length : F) + 10)^4 * r.u^3 * M^3) / (xs.length : F) :=
  cm3_error_num hneg N hN M hM xs hne hb hsmall R₀ hR hRT

/-- **`central_moment(3)` inside an envelope linear in the conditioning** (any ordered field). `N ≥ 3`,
`n ≥ 3`, `σ > 0` with `n·σ² = T`, `L·u·M ≤ σ`:
`|central_moment(3) - U/n| ≤ 401·L·u·(V3/n)·(1 + M/σ)`. -/
theorem central_moment3_envelope (hneg : NegExact r) (N : Nat) (hN : 3 ≤ N) (M : F) (hM : 0 ≤ M)
    (xs : List (RF2 r)) (h3 : 3 ≤ xs.length)
    (hb : ∀ x ∈ xs, |x.val| ≤ M) (hsmall : ((xs.length : F) + 28) * r.u ≤ 1/64)
    (σ : F) (hσ : 0 < σ) (hvar : (xs.length : F) * σ^2 = T (xs.map RF2.val))
    (hcond : ((xs.length : F) + 10) * r.u * M ≤ σ) :
    |((xs.foldl (Moments.add N) (Moments.new N)).cmRaw 3).val - U (xs.map RF2.val) / (xs.length : F)|
      ≤ 401 * ((xs.length : F) + 10) * r.u * (V3 (xs.map RF2.val) / (xs.length : F)) * (1 + M / σ) :=
  cm3_envelope_lin hneg N hN M hM xs h3 hb hsmall σ hσ hvar hcond

end fold

/-! ## over ℝ: `σ = sqrt(T/n)`, `κ = 1 + M/σ` -/

section real
variable {r : Rnd2 ℝ} [Neg (RF2 r)]

/-- `n·sqrt(T/n)² = T` for a non-empty stream -/
private theorem n_mul_sq_sqrt (vs : List ℝ) (n : ℝ) (hn : 0 < n) (hpos : 0 < T vs / n) :
    n * Real.sqrt (T vs / n) ^ 2 = T vs := by
  rw [Real.sq_sqrt hpos.le]; field_simp

/-- **The envelope clause for the state component `m[1]`, in the words of DESIGN.md section 5.** Over ℝ, every
order `N ≥ 3`, `n ≥ 3` observations with `|x_i| ≤ M`, exact variance `var = T/n > 0`, `σ = sqrt(var)`,
`κ = 1 + M/σ`, `(n+28)·u ≤ 1/64` and `(n+10)·u·M ≤ σ`:
`|m[1] - Σ(x - mean)³| ≤ 400·(n+10)·κ·u·Σ|x - mean|³`. -/
theorem moments_m1_envelope_kappa (hneg : NegExact r) (N : Nat) (hN : 3 ≤ N) (M : ℝ) (hM : 0 ≤ M)
    (xs : List (RF2 r)) (h3 : 3 ≤ xs.length) (hb : ∀ x ∈ xs, |x.val| ≤ M)
    (hsmall : ((xs.length : ℝ) + 28) * r.u ≤ 1/64)
    (hpos : 0 < T (xs.map RF2.val) / (xs.length : ℝ))
    (hcond : ((xs.length : ℝ) + 10) * r.u * M
      ≤ Real.sqrt (T (xs.map RF2.val) / (xs.length : ℝ))) :
    |(xs.foldl (Moments.add N) (Moments.new N)).m1.val - U (xs.map RF2.val)|
      ≤ 400 * ((xs.length : ℝ) + 10)
          * (1 + M / Real.sqrt (T (xs.map RF2.val) / (xs.length : ℝ))) * r.u
          * V3 (xs.map RF2.val) := by
  have hn3 : (3 : ℝ) ≤ xs.length := by exact_mod_cast h3
  have hσpos : 0 < Real.sqrt (T (xs.map RF2.val) / (xs.length : ℝ)) := Real.sqrt_pos.mpr hpos
  have h := mom3_envelope_lin hneg N hN M hM xs h3 hb hsmall _ hσpos
    (n_mul_sq_sqrt _ _ (by linarith) hpos) hcond
  refine le_trans h (le_of_eq ?_)
  ring

variable [FloatOps (RF2 r)]

/-- **The envelope clause of C04 for `central_moment(3)`.** Same hypotheses:
`|central_moment(3) - U/n| ≤ 401·(n+10)·κ·u·(V3/n)`  (`V3/n = ν_3`, the third absolute central moment). -/
theorem central_moment3_envelope_kappa (hneg : NegExact r) (N : Nat) (hN : 3 ≤ N) (M : ℝ) (hM : 0 ≤ M)
    (xs : List (RF2 r)) (h3 : 3 ≤ xs.length) (hb : ∀ x ∈ xs, |x.val| ≤ M)
    (hsmall : ((xs.length : ℝ) + 28) * r.u ≤ 1/64)
    (hpos : 0 < T (xs.map RF2.val) / (xs.length : ℝ))
    (hcond : ((xs.length : ℝ) + 10) * r.u * M
      ≤ Real.sqrt (T (xs.map RF2.val) / (xs.length : ℝ))) :
    |((xs.foldl (Moments.add N) (Moments.new N)).cmRaw 3).val - U (xs.map RF2.val) / (xs.length : ℝ)|
      ≤ 401 * ((xs.length : ℝ) + 10)
          * (1 + M / Real.sqrt (T (xs.map RF2.val) / (xs.length : ℝ))) * r.u
          * (V3 (xs.map RF2.val) / (xs.length : ℝ)) := by
  have hn3 : (3 : ℝ) ≤ xs.length := by exact_mod_cast h3
  have hσpos : 0 < Real.sqrt (T (xs.map RF2.val) / (xs.length : ℝ)) := Real.sqrt_pos.mpr hpos
  have h := cm3_envelope_lin hneg N hN M hM xs h3 hb hsmall _ hσpos
    (n_mul_sq_sqrt _ _ (by linarith) hpos) hcond
  refine le_trans h (le_of_eq ?_)
  ring

/-- **`sample_skewness` after an add-only stream, fully instantiated** (replaces
`Props.C10b.sample_skewness_stream_partial`: no hypothesis on computed quantities is left).
`define_moments!(T, N)`, `N ≥ 3`, `sqrt` rounded with `u` (`RndSqrt`), `powf(·,1.5)` with accuracy `ρ`
(`RndPow15`), exact negation; `n ≥ 3` observations `|x_i| ≤ M`, `(n+28)·u ≤ 1/64`, exact moments
`m₂ = T/n > 0`, `m₃ = U/n`, `ν₃ = V3/n`, `σ = √m₂`, `κ = 1 + M/σ`, `(n+10)·u·M ≤ σ`,
`6u + ρ + 12·n·κ·u ≤ 1/16`. With `A = √(n(n-1))/(n-2)`:
`|sample_skewness - A·m₃/m₂^(3/2)|
   ≤ A/m₂^(3/2)·( |m₃|·((32/5)u + (16/15)ρ + (64/5)·n·κ·u) + (16/15)·401·(n+10)·κ·u·ν₃ )`. -/
theorem sample_skewness_stream_forward_error (hneg : NegExact r)
    (q : RndSqrt r) (hs : SqrtIs q) (p : RndPow15 r) (hp : Pow15Is p) (N : Nat) (hN : 3 ≤ N)
    (M : ℝ) (hM : 0 ≤ M) (xs : List (RF2 r)) (h3 : 3 ≤ xs.length) (hb : ∀ x ∈ xs, |x.val| ≤ M)
    (hsmall : ((xs.length : ℝ) + 28) * r.u ≤ 1/64)
    (hpos : 0 < T (xs.map RF2.val) / (xs.length : ℝ))
    (hcond : ((xs.length : ℝ) + 10) * r.u * M
      ≤ Real.sqrt (T (xs.map RF2.val) / (xs.length : ℝ)))
    (hsm : 6 * r.u + p.ρ + 3/2 * (8 * xs.length
            * (1 + M / Real.sqrt (T (xs.map RF2.val) / (xs.length : ℝ))) * r.u) ≤ 1/16) :
    |(xs.foldl (Moments.add N) (Moments.new N)).sampleSkewness.val
        - Real.sqrt ((xs.length : ℝ) * ((xs.length : ℝ) - 1)) / ((xs.length : ℝ) - 2)
            * (U (xs.map RF2.val) / (xs.length : ℝ))
            / (T (xs.map RF2.val) / (xs.length : ℝ)) ^ ((3:ℝ)/2)|
      ≤ Real.sqrt ((xs.length : ℝ) * ((xs.length : ℝ) - 1)) / ((xs.length : ℝ) - 2)
            / (T (xs.map RF2.val) / (xs.length : ℝ)) ^ ((3:ℝ)/2)
          * (|U (xs.map RF2.val) / (xs.length : ℝ)|
                * (32/5 * r.u + 16/15 * p.ρ + 8/5 * (8 * xs.length
                    * (1 + M / Real.sqrt (T (xs.map RF2.val) / (xs.length : ℝ))) * r.u))
              + 16/15 * (401 * ((xs.length : ℝ) + 10)
                  * (1 + M / Real.sqrt (T (xs.map RF2.val) / (xs.length : ℝ))) * r.u
                  * (V3 (xs.map RF2.val) / (xs.length : ℝ)))) := by
  have hu := r.u_nonneg
  have hn0 : (0 : ℝ) ≤ xs.length := Nat.cast_nonneg _
  have hcond' : (xs.length : ℝ) * r.u * M
      ≤ Real.sqrt (T (xs.map RF2.val) / (xs.length : ℝ)) := by
    refine le_trans ?_ hcond
    have : 0 ≤ r.u * M := by positivity
    nlinarith
  exact Props.C10b.sample_skewness_stream_partial hneg q hs p hp N hN M hM xs h3 hb hsmall hpos hcond' _
    (central_moment3_envelope_kappa hneg N hN M hM xs h3 hb hsmall hpos hcond) hsm

/-- **`sample_skewness` inside an envelope `C·n·κ·u` relative to `A·ν₃/σ³`.** Same hypotheses; since
`|m₃| ≤ ν₃`:
`|sample_skewness - A·m₃/m₂^(3/2)| ≤ A/m₂^(3/2)·ν₃·((16/15)·ρ + 442·(n+10)·κ·u)`. -/
theorem sample_skewness_stream_envelope (hneg : NegExact r)
    (q : RndSqrt r) (hs : SqrtIs q) (p : RndPow15 r) (hp : Pow15Is p) (N : Nat) (hN : 3 ≤ N)
    (M : ℝ) (hM : 0 ≤ M) (xs : List (RF2 r)) (h3 : 3 ≤ xs.length) (hb : ∀ x ∈ xs, |x.val| ≤ M)
    (hsmall : ((xs.length : ℝ) + 28) * r.u ≤ 1/64)
    (hpos : 0 < T (xs.map RF2.val) / (xs.length : ℝ))
    (hcond : ((xs.length : ℝ) + 10) * r.u * M
      ≤ Real.sqrt (T (xs.map RF2.val) / (xs.length : ℝ)))
    (hsm : 6 * r.u + p.ρ + 3/2 * (8 * xs.length
            * (1 + M / Real.sqrt (T (xs.map RF2.val) / (xs.length : ℝ))) * r.u) ≤ 1/16) :
    |(xs.foldl (Moments.add N) (Moments.new N)).sampleSkewness.val
        - Real.sqrt ((xs.length : ℝ) * ((xs.length : ℝ) - 1)) / ((xs.length : ℝ) - 2)
            * (U (xs.map RF2.val) / (xs.length : ℝ))
            / (T (xs.map RF2.val) / (xs.length : ℝ)) ^ ((3:ℝ)/2)|
      ≤ Real.sqrt ((xs.length : ℝ) * ((xs.length : ℝ) - 1)) / ((xs.length : ℝ) - 2)
            / (T (xs.map RF2.val) / (xs.length : ℝ)) ^ ((3:ℝ)/2)
          * (V3 (xs.map RF2.val) / (xs.length : ℝ)
              * (16/15 * p.ρ + 442 * ((xs.length : ℝ) + 10)
                  * (1 + M / Real.sqrt (T (xs.map RF2.val) / (xs.length : ℝ))) * r.u)) := by
  have hu := r.u_nonneg
  have hρ := p.ρ_nonneg
  have hn3 : (3 : ℝ) ≤ xs.length := by exact_mod_cast h3
  have hnpos : (0 : ℝ) < xs.length := by linarith
  refine le_trans (sample_skewness_stream_forward_error hneg q hs p hp N hN M hM xs h3 hb hsmall hpos
    hcond hsm) ?_
  have hσpos : 0 < Real.sqrt (T (xs.map RF2.val) / (xs.length : ℝ)) := Real.sqrt_pos.mpr hpos
  set n : ℝ := (xs.length : ℝ) with hn
  set κ := 1 + M / Real.sqrt (T (xs.map RF2.val) / n) with hκ
  have hκ1 : 1 ≤ κ := by
    have : 0 ≤ M / Real.sqrt (T (xs.map RF2.val) / n) := by positivity
    linarith
  set ν := V3 (xs.map RF2.val) / n with hν
  have hν0 : 0 ≤ ν := div_nonneg (V3_nonneg _) hnpos.le
  have hm3 : |U (xs.map RF2.val) / n| ≤ ν := by
    rw [abs_div, abs_of_pos hnpos]
    exact div_le_div_of_nonneg_right (abs_U_le_V3 _) hnpos.le
  have hw : 0 ≤ Real.sqrt (n * (n - 1)) / (n - 2) / (T (xs.map RF2.val) / n) ^ ((3:ℝ)/2) :=
    div_nonneg (div_nonneg (Real.sqrt_nonneg _) (by linarith)) (Real.rpow_pos_of_pos hpos _).le
  apply mul_le_mul_of_nonneg_left _ hw
  set a := (n + 10) * κ * r.u with ha
  have ha0 : 0 ≤ a := by positivity
  have h13 : 13 * r.u ≤ a := by
    have : 13 ≤ (n + 10) * κ := by nlinarith
    calc 13 * r.u ≤ (n + 10) * κ * r.u := by gcongr
      _ = a := rfl
  have hnk : n * κ * r.u ≤ a := by
    have : n * κ ≤ (n + 10) * κ := by nlinarith
    calc n * κ * r.u ≤ (n + 10) * κ * r.u := by gcongr
      _ = a := rfl
  have hX0 : 0 ≤ 32/5 * r.u + 16/15 * p.ρ + 8/5 * (8 * n * κ * r.u) := by positivity
  have h1 : |U (xs.map RF2.val) / n| * (32/5 * r.u + 16/15 * p.ρ + 8/5 * (8 * n * κ * r.u))
      ≤ ν * (32/5 * r.u + 16/15 * p.ρ + 8/5 * (8 * n * κ * r.u)) :=
    mul_le_mul_of_nonneg_right hm3 hX0
  have h2 : 32/5 * r.u + 16/15 * p.ρ + 8/5 * (8 * n * κ * r.u) + 16/15 * (401 * a)
      ≤ 16/15 * p.ρ + 442 * a := by
    have : 8/5 * (8 * n * κ * r.u) = 64/5 * (n * κ * r.u) := by ring
    rw [this]; linarith
  have h3' := mul_le_mul_of_nonneg_left h2 hν0
  have e1 : 16/15 * (401 * (n + 10) * κ * r.u * ν) = ν * (16/15 * (401 * a)) := by rw [ha]; ring
  have e2 : ν * (16/15 * p.ρ + 442 * (n + 10) * κ * r.u) = ν * (16/15 * p.ρ + 442 * a) := by
    rw [ha]; ring
  rw [e1, e2]
  linarith

end real

/-! ## Non-vacuity -/

/-- the ill-conditioned, positively skewed stream of `Props.C10b` (offset 1000; deviations `-3, -1, -1, 5`;
`T = 36`, `U = 96`, `σ² = 9`); the rounding `Props.C02b.awayRnd` is never exact (always away from zero by the
full `u = 2^-53`), the negation `RF2.instNeg` is the exact sign flip -/
def exStream : List (RF2 Props.C02b.awayRnd) := [⟨997⟩, ⟨999⟩, ⟨999⟩, ⟨1005⟩]

/-- the exact sums of `exStream`: `T = 9+1+1+25`, `U = -27-1-1+125`, `V3 = 27+1+1+125` -/
theorem exStream_vals : T (exStream.map RF2.val) = 36 ∧ U (exStream.map RF2.val) = 96
    ∧ V3 (exStream.map RF2.val) = 154 := by
  refine ⟨?_, ?_, ?_⟩
  · norm_num [exStream, T, sumPow, mean]
  · norm_num [exStream, U, sumPow, mean]
  · norm_num [exStream, V3, mean, abs_of_nonneg, abs_of_neg]

/-- the scale: `2 + 10/27 + 1250/9` from the cubes (the second observation contributes `|d_1|³/4 = 2` although
its exact increment vanishes) and `2 + 40/3` from the `d·T` parts -/
theorem exStream_V3m : V3m (exStream.map RF2.val) = 4228/27 := by
  norm_num [exStream, V3m, VAM, VB, incAM, incB, cM, dev, T, sumPow, mean, Finset.sum_range_succ]

/-- every observation of `exStream` is at most `1005` in absolute value -/
theorem exStream_bound : ∀ x ∈ exStream, |x.val| ≤ 1005 := by
  intro x hx
  simp only [exStream, List.mem_cons, List.not_mem_nil, or_false] at hx
  rcases hx with rfl | rfl | rfl | rfl <;> norm_num

/-- the hypotheses of `moments_m1_forward_error`, `moments_m1_envelope_V3` and `central_moment3_envelope` are
met by `exStream` with `M = 1005`, `u = 2^-53`, `R₀ = 12` (`n·T = 144`), `σ = 3` (`n·σ² = 36 = T`,
`(n+10)·u·M = 14070·2^-53 ≤ 3`) -/
example : NegExact Props.C02b.awayRnd ∧ 3 ≤ exStream.length ∧ (∀ x ∈ exStream, |x.val| ≤ 1005)
    ∧ ((exStream.length : ℚ) + 28) * Props.C02b.awayRnd.u ≤ 1/64
    ∧ (exStream.length : ℚ) * T (exStream.map RF2.val) ≤ 12^2
    ∧ (exStream.length : ℚ) * 3^2 = T (exStream.map RF2.val)
    ∧ ((exStream.length : ℚ) + 10) * Props.C02b.awayRnd.u * 1005 ≤ 3 := by
  refine ⟨RF2.instNeg_negExact _, by simp [exStream], exStream_bound, ?_, ?_, ?_, ?_⟩
  · norm_num [exStream, Props.C02b.awayRnd]
  · rw [exStream_vals.1]; norm_num [exStream]
  · rw [exStream_vals.1]; norm_num [exStream]
  · norm_num [exStream, Props.C02b.awayRnd]

/-- and the conclusion is a concrete statement about a computation none of whose rounded operations is exact
(nineteen rounded values per observation enter `m[1]`, on top of those of the mean and of `m[0]`): `m[1]` of `define_moments!(f64, 4)` after the four observations is within
`10·14·u·(4228/27) + 11·14·u·1005·36 + 13·u·1005·144 + …` (about `7.5·10^6·u ≈ 8·10^-10`) of the exact
`U = 96` -/
example : |(exStream.foldl (Moments.add 4) (Moments.new 4)).m1.val - 96|
    ≤ 10 * 14 * (1/2^53) * (4228/27) + 11 * 14 * (1/2^53) * 1005 * 36 + 13 * (1/2^53) * 1005 * 12^2
      + 30 * 14^2 * (1/2^53)^2 * 1005^2 * 12 + 16 * (14:ℚ)^4 * (1/2^53)^3 * 1005^3 := by
  have h := moments_m1_forward_error (RF2.instNeg_negExact Props.C02b.awayRnd) 4 (by norm_num)
    1005 (by norm_num) exStream exStream_bound
    (by norm_num [exStream, Props.C02b.awayRnd]) 12 (by norm_num)
    (by rw [exStream_vals.1]; norm_num [exStream])
  rw [exStream_vals.1, exStream_vals.2.1, exStream_V3m] at h
  have hl : (exStream.length : ℚ) + 10 = 14 := by norm_num [exStream]
  have hu : Props.C02b.awayRnd.u = 1/2^53 := rfl
  rw [hl, hu] at h
  exact h

/-- `central_moment(3)` of `define_moments!(f64, 3)` and of `define_moments!(f64, 6)` after `exStream` is
within `401·14·u·(154/4)·(1 + 1005/3)` (about `7.3·10^7·u ≈ 8·10^-9`) of the exact `m₃ = 96/4 = 24` -/
example :
    letI : FloatOps (RF2 Props.C02b.awayRnd) := rf2FloatOps Props.C02b.awayRnd
    |((exStream.foldl (Moments.add 3) (Moments.new 3)).cmRaw 3).val - 24|
        ≤ 401 * 14 * (1/2^53) * (154/4) * (1 + 1005/3)
    ∧ |((exStream.foldl (Moments.add 6) (Moments.new 6)).cmRaw 3).val - 24|
        ≤ 401 * 14 * (1/2^53) * (154/4) * (1 + 1005/3) := by
  let _ : FloatOps (RF2 Props.C02b.awayRnd) := rf2FloatOps Props.C02b.awayRnd
  obtain ⟨hT, hU, hV⟩ := exStream_vals
  have hl : (exStream.length : ℚ) = 4 := by norm_num [exStream]
  have hu : Props.C02b.awayRnd.u = 1/2^53 := rfl
  have key : ∀ N, 3 ≤ N →
      |((exStream.foldl (Moments.add N) (Moments.new N)).cmRaw 3).val - 24|
        ≤ 401 * 14 * (1/2^53) * (154/4) * (1 + 1005/3) := by
    intro N hN
    have h := central_moment3_envelope (RF2.instNeg_negExact Props.C02b.awayRnd) N hN 1005
      (by norm_num) exStream (by simp [exStream]) exStream_bound
      (by rw [hl, hu]; norm_num) 3 (by norm_num) (by rw [hT, hl]; norm_num)
      (by rw [hl, hu]; norm_num)
    rw [hU, hV, hl, hu] at h
    norm_num at h ⊢
    exact h
  exact ⟨key 3 (le_refl 3), key 6 (by norm_num)⟩

/-- the same stream over ℝ (rounding `awayRndR`, `sqrt` `awaySqrt`, `powf` `awayPow`, none of them ever exact)
meets ALL hypotheses of `sample_skewness_stream_forward_error` with `N = 4`, `M = 1005` (`T/n = 9`, `σ = 3`,
`κ = 336`) -/
example :
    let xs : List (RF2 Props.C01c.awayRndR) := [⟨997⟩, ⟨999⟩, ⟨999⟩, ⟨1005⟩]
    NegExact Props.C01c.awayRndR
    ∧ @SqrtIs _ Props.C01c.awaySqrt Props.C10b.exOps ∧ @Pow15Is _ Props.C10b.awayPow Props.C10b.exOps
    ∧ 3 ≤ xs.length ∧ (∀ x ∈ xs, |x.val| ≤ 1005)
    ∧ ((xs.length : ℝ) + 28) * Props.C01c.awayRndR.u ≤ 1/64
    ∧ 0 < T (xs.map RF2.val) / (xs.length : ℝ)
    ∧ ((xs.length : ℝ) + 10) * Props.C01c.awayRndR.u * 1005
        ≤ Real.sqrt (T (xs.map RF2.val) / (xs.length : ℝ))
    ∧ 6 * Props.C01c.awayRndR.u + Props.C10b.awayPow.ρ + 3/2 * (8 * xs.length
        * (1 + 1005 / Real.sqrt (T (xs.map RF2.val) / (xs.length : ℝ))) * Props.C01c.awayRndR.u)
          ≤ 1/16 := by
  intro xs
  have hT : T (xs.map RF2.val) = 36 := by norm_num [xs, T, sumPow, mean]
  have hl : (xs.length : ℝ) = 4 := by norm_num [xs]
  have hu : Props.C01c.awayRndR.u = 1/2^53 := rfl
  have hs : Real.sqrt (36 / 4) = 3 := by
    rw [show (36:ℝ) / 4 = 3 ^ 2 by norm_num]; exact Real.sqrt_sq (by norm_num)
  refine ⟨RF2.instNeg_negExact _, rf2SqrtPowFloatOps_sqrtIs _ _ _, rf2SqrtPowFloatOps_pow15Is _ _ _,
    by simp [xs], ?_, ?_, ?_, ?_, ?_⟩
  · intro x hx
    simp only [xs, List.mem_cons, List.not_mem_nil, or_false] at hx
    rcases hx with rfl | rfl | rfl | rfl <;> norm_num
  · rw [hl, hu]; norm_num
  · rw [hT, hl]; norm_num
  · rw [hT, hl, hu, hs]; norm_num
  · rw [hT, hl, hu, hs]; norm_num [Props.C10b.awayPow]

end Props.C04d

#print axioms Props.C04d.m1_bitwise_update
#print axioms Props.C04d.m0_m1_independent_of_order
#print axioms Props.C04d.m0_m1_stream_independent_of_order
#print axioms Props.C04d.m1_exact
#print axioms Props.C04d.moments_m1_computed
#print axioms Props.C04d.coefficient_rounding_error
#print axioms Props.C04d.coefficient_exact_value
#print axioms Props.C04d.incrementP_rounding_error
#print axioms Props.C04d.incrementQ_rounding_error
#print axioms Props.C04d.eighteen_and_six_roundings
#print axioms Props.C04d.moments_m1_step_error
#print axioms Props.C04d.V3m_def
#print axioms Props.C04d.V3m_facts
#print axioms Props.C04d.moments_m1_forward_error_general
#print axioms Props.C04d.prefix_bounds
#print axioms Props.C04d.moments_m1_forward_error
#print axioms Props.C04d.moments_m1_forward_error_closed
#print axioms Props.C04d.moments_m1_forward_error_V3
#print axioms Props.C04d.moments_m1_envelope
#print axioms Props.C04d.moments_m1_envelope_V3
#print axioms Props.C04d.central_moment3_no_panic
#print axioms Props.C04d.central_moment3_computed
#print axioms Props.C04d.central_moment3_forward_error
#print axioms Props.C04d.central_moment3_envelope
#print axioms Props.C04d.moments_m1_envelope_kappa
#print axioms Props.C04d.central_moment3_envelope_kappa
#print axioms Props.C04d.sample_skewness_stream_forward_error
#print axioms Props.C04d.sample_skewness_stream_envelope
