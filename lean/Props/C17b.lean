import AvgProofs.MeanMergeErr
import AvgProofs.MeanMergeTransfer
import AvgProofs.MomentsTree
import AvgProofs.EffLen
import Mathlib.Tactic.NormNum

/-!
# C17 (addendum) - in floating point, means stay within the data range up to `11·n·u·max|x|`

Carrier **R2** (`RF2 r`: every `+ - * /` is followed by a rounding with `|fl t - t| ≤ u|t|` - no
overflow, no underflow - and counts are converted exactly). Histories: every merge tree `MTree` over
every chunking of the data (any shape, empty and one-element chunks included).

If all `n ≥ 1` observations lie in `[lo, hi]` and have `|x| ≤ M`, and `n·u ≤ 1/64`, then
`lo - 11·n·u·M ≤ mean() ≤ hi + 11·n·u·M` for `Mean`, `Variance`, `Skewness`, `Kurtosis`, and for
`mean_x()`, `mean_y()` of `Covariance`. (`11 ≤ 12`, the envelope constant of DESIGN.md section 5;
for `u = 2^-53` the hypothesis allows `n ≤ 2^47`.) `FloatOps (RF2 r)` is an arbitrary instance: `nan` only
occurs in the guarded branch `n = 0`, which the hypothesis `t.flatten ≠ []` excludes exactly as the
Rust code does.

Derived from `Props.C02b.mean_mtree_forward_error` and the exact fact that the arithmetic mean lies in
the hull of the data (`mean_mem_range`). Not covered here: the weighted means and `define_moments!`
(different program text for the mean update).
-/
open Avg MSpec

namespace Props.C17b
variable {F : Type} [Field F] [LinearOrder F] [IsStrictOrderedRing F] {r : Rnd2 F}

/-- **Mean, every merge tree.** All `n ≥ 1` observations in `[lo, hi]` with `|x| ≤ M`, `n·u ≤ 1/64`:
the stored mean lies in `[lo - 11·n·u·M, hi + 11·n·u·M]`. -/
theorem mean_mtree_avg_in_range (r : Rnd2 F) (M lo hi : F) (hM : 0 ≤ M) (t : MTree (RF2 r))
    (hne : t.flatten ≠ []) (hb : ∀ x ∈ t.flatten, |x.val| ≤ M)
    (hr : ∀ x ∈ t.flatten, lo ≤ x.val ∧ x.val ≤ hi)
    (hsmall : (t.flatten.length : F) * r.u ≤ 1/64) :
    lo - 11 * (t.flatten.length : F) * r.u * M ≤ (Mean.evalTree t).avg.val ∧
    (Mean.evalTree t).avg.val ≤ hi + 11 * (t.flatten.length : F) * r.u * M := by
  have he := (mean_mtree_error r M hM t hb hsmall).2
  have hm : lo ≤ meanK (t.flatten.map RF2.val) ∧ meanK (t.flatten.map RF2.val) ≤ hi :=
    mean_mem_range (t.flatten.map RF2.val) (by simpa using hne) (by
      intro x hx; rw [List.mem_map] at hx; obtain ⟨z, hz, rfl⟩ := hx; exact hr z hz)
  have hc : 11 * r.u * M * (t.flatten.length : F) = 11 * (t.flatten.length : F) * r.u * M := by ring
  rw [hc] at he
  obtain ⟨h1, h2⟩ := abs_le.mp he
  constructor <;> linarith [hm.1, hm.2]

/-- The same for what `mean()` returns (the guard `n > 0` holds because the count is exact). -/
theorem mean_mtree_in_range [FloatOps (RF2 r)] (M lo hi : F) (hM : 0 ≤ M) (t : MTree (RF2 r))
    (hne : t.flatten ≠ []) (hb : ∀ x ∈ t.flatten, |x.val| ≤ M)
    (hr : ∀ x ∈ t.flatten, lo ≤ x.val ∧ x.val ≤ hi)
    (hsmall : (t.flatten.length : F) * r.u ≤ 1/64) :
    lo - 11 * (t.flatten.length : F) * r.u * M ≤ (Mean.evalTree t).mean.val ∧
    (Mean.evalTree t).mean.val ≤ hi + 11 * (t.flatten.length : F) * r.u * M := by
  have hn : 0 < (Mean.evalTree t).n := by
    rw [(mean_mtree_error r M hM t hb hsmall).1]; exact List.length_pos_of_ne_nil hne
  have : (Mean.evalTree t).mean = (Mean.evalTree t).avg := by
    simp only [Mean.mean, gt_iff_lt, hn, if_true]
  rw [this]
  exact mean_mtree_avg_in_range r M lo hi hM t hne hb hr hsmall

/-- With `M = max |lo| |hi|` (no separate magnitude bound needed), in the form `C·n·u·max|x|` of the
property with `C = 12`. -/
theorem mean_mtree_in_hull [FloatOps (RF2 r)] (lo hi : F) (t : MTree (RF2 r))
    (hne : t.flatten ≠ []) (hr : ∀ x ∈ t.flatten, lo ≤ x.val ∧ x.val ≤ hi)
    (hsmall : (t.flatten.length : F) * r.u ≤ 1/64) :
    lo - 12 * (t.flatten.length : F) * r.u * max |lo| |hi| ≤ (Mean.evalTree t).mean.val ∧
    (Mean.evalTree t).mean.val ≤ hi + 12 * (t.flatten.length : F) * r.u * max |lo| |hi| := by
  have hM : 0 ≤ max |lo| |hi| := le_trans (abs_nonneg lo) (le_max_left _ _)
  obtain ⟨h1, h2⟩ := mean_mtree_in_range (max |lo| |hi|) lo hi hM t hne
    (fun x hx => abs_le_max_abs_abs (hr x hx).1 (hr x hx).2) hr hsmall
  have h : 0 ≤ (t.flatten.length : F) * r.u * max |lo| |hi| :=
    mul_nonneg (mul_nonneg (Nat.cast_nonneg _) r.u_nonneg) hM
  constructor <;> linarith

/-- `Variance` (= `MeanWithError`): the same for its `mean()`. -/
theorem variance_mtree_mean_in_range [FloatOps (RF2 r)] (M lo hi : F) (hM : 0 ≤ M) (t : MTree (RF2 r))
    (hne : t.flatten ≠ []) (hb : ∀ x ∈ t.flatten, |x.val| ≤ M)
    (hr : ∀ x ∈ t.flatten, lo ≤ x.val ∧ x.val ≤ hi)
    (hsmall : (t.flatten.length : F) * r.u ≤ 1/64) :
    lo - 11 * (t.flatten.length : F) * r.u * M ≤ (Variance.evalTree t).mean.val ∧
    (Variance.evalTree t).mean.val ≤ hi + 11 * (t.flatten.length : F) * r.u * M := by
  rw [Variance.mean, Variance.mtree_avg]
  exact mean_mtree_in_range M lo hi hM t hne hb hr hsmall

/-- `Skewness`: the same. -/
theorem skewness_mtree_mean_in_range [FloatOps (RF2 r)] (M lo hi : F) (hM : 0 ≤ M) (t : MTree (RF2 r))
    (hne : t.flatten ≠ []) (hb : ∀ x ∈ t.flatten, |x.val| ≤ M)
    (hr : ∀ x ∈ t.flatten, lo ≤ x.val ∧ x.val ≤ hi)
    (hsmall : (t.flatten.length : F) * r.u ≤ 1/64) :
    lo - 11 * (t.flatten.length : F) * r.u * M ≤ (Skewness.evalTree t).mean.val ∧
    (Skewness.evalTree t).mean.val ≤ hi + 11 * (t.flatten.length : F) * r.u * M := by
  rw [Skewness.mean, Skewness.mtree_avg]
  exact variance_mtree_mean_in_range M lo hi hM t hne hb hr hsmall

/-- `Kurtosis`: the same. -/
theorem kurtosis_mtree_mean_in_range [FloatOps (RF2 r)] (M lo hi : F) (hM : 0 ≤ M) (t : MTree (RF2 r))
    (hne : t.flatten ≠ []) (hb : ∀ x ∈ t.flatten, |x.val| ≤ M)
    (hr : ∀ x ∈ t.flatten, lo ≤ x.val ∧ x.val ≤ hi)
    (hsmall : (t.flatten.length : F) * r.u ≤ 1/64) :
    lo - 11 * (t.flatten.length : F) * r.u * M ≤ (Kurtosis.evalTree t).mean.val ∧
    (Kurtosis.evalTree t).mean.val ≤ hi + 11 * (t.flatten.length : F) * r.u * M := by
  rw [Kurtosis.mean, Kurtosis.mtree_avg]
  exact skewness_mtree_mean_in_range M lo hi hM t hne hb hr hsmall

/-- `Covariance`: for every merge tree over `n ≥ 1` pairs with `x ∈ [lox, hix]`, `|x| ≤ Mx`,
`y ∈ [loy, hiy]`, `|y| ≤ My` and `n·u ≤ 1/64`: `mean_x()` lies in `[lox - 11·n·u·Mx, hix + 11·n·u·Mx]`
and `mean_y()` in `[loy - 11·n·u·My, hiy + 11·n·u·My]`. -/
theorem covariance_mtree_means_in_range [FloatOps (RF2 r)] (Mx My lox hix loy hiy : F)
    (hMx : 0 ≤ Mx) (hMy : 0 ≤ My) (t : MTree (RF2 r × RF2 r)) (hne : t.flatten ≠ [])
    (hb : ∀ p ∈ t.flatten, |p.1.val| ≤ Mx ∧ |p.2.val| ≤ My)
    (hr : ∀ p ∈ t.flatten, (lox ≤ p.1.val ∧ p.1.val ≤ hix) ∧ (loy ≤ p.2.val ∧ p.2.val ≤ hiy))
    (hsmall : (t.flatten.length : F) * r.u ≤ 1/64) :
    (lox - 11 * (t.flatten.length : F) * r.u * Mx ≤ (Covariance.evalTree t).meanX.val ∧
      (Covariance.evalTree t).meanX.val ≤ hix + 11 * (t.flatten.length : F) * r.u * Mx) ∧
    (loy - 11 * (t.flatten.length : F) * r.u * My ≤ (Covariance.evalTree t).meanY.val ∧
      (Covariance.evalTree t).meanY.val ≤ hiy + 11 * (t.flatten.length : F) * r.u * My) := by
  have hnex : (t.map Prod.fst).flatten ≠ [] := by rw [MTree.flatten_map]; simpa using hne
  have hney : (t.map Prod.snd).flatten ≠ [] := by rw [MTree.flatten_map]; simpa using hne
  have hx := mean_mtree_in_range Mx lox hix hMx (t.map Prod.fst) hnex
    (by rw [MTree.flatten_map]; intro x hx; rw [List.mem_map] at hx
        obtain ⟨p, hp, rfl⟩ := hx; exact (hb p hp).1)
    (by rw [MTree.flatten_map]; intro x hx; rw [List.mem_map] at hx
        obtain ⟨p, hp, rfl⟩ := hx; exact (hr p hp).1)
    (by rw [MTree.flatten_map, List.length_map]; exact hsmall)
  have hy := mean_mtree_in_range My loy hiy hMy (t.map Prod.snd) hney
    (by rw [MTree.flatten_map]; intro x hx; rw [List.mem_map] at hx
        obtain ⟨p, hp, rfl⟩ := hx; exact (hb p hp).2)
    (by rw [MTree.flatten_map]; intro x hx; rw [List.mem_map] at hx
        obtain ⟨p, hp, rfl⟩ := hx; exact (hr p hp).2)
    (by rw [MTree.flatten_map, List.length_map]; exact hsmall)
  simp only [Mean.evalTree] at hx hy
  rw [← Covariance.mtree_meanXState, MTree.flatten_map, List.length_map] at hx
  rw [← Covariance.mtree_meanYState, MTree.flatten_map, List.length_map] at hy
  exact ⟨hx, hy⟩

/-! ## Non-vacuity -/

/-- a rounding that is never exact (except at 0): always moves away from zero by the full relative
amount `u = 2^-53` -/
def awayRnd : Rnd2 ℚ :=
  ⟨fun t => t * (1 + 1/2^53), 1/2^53, by norm_num, fun t => by
    have : t * (1 + 1/2^53) - t = (1/2^53) * t := by ring
    rw [this, abs_mul, abs_of_pos (by norm_num : (0:ℚ) < 1/2^53)]⟩

/-- a tree with a nested merge, an empty chunk in the middle and unequal chunk sizes; data in `[-6, 3]` -/
def exTree : MTree (RF2 awayRnd) :=
  .node (.leaf [⟨1⟩, ⟨2⟩, ⟨-6⟩]) (.node (.leaf []) (.leaf [⟨3⟩]))

/-- the hypotheses are met by `exTree` with `lo = -6`, `hi = 3`, `M = 6`, `u = 2^-53` -/
example : exTree.flatten ≠ [] ∧ (∀ x ∈ exTree.flatten, |x.val| ≤ 6)
    ∧ (∀ x ∈ exTree.flatten, -6 ≤ x.val ∧ x.val ≤ 3)
    ∧ (exTree.flatten.length : ℚ) * awayRnd.u ≤ 1/64 := by
  refine ⟨by simp [exTree, MTree.flatten], ?_, ?_, by norm_num [exTree, MTree.flatten, awayRnd]⟩
  · intro x hx
    simp only [exTree, MTree.flatten, List.nil_append, List.mem_append, List.mem_cons,
      List.not_mem_nil, or_false] at hx
    rcases hx with (rfl | rfl | rfl) | rfl <;> norm_num
  · intro x hx
    simp only [exTree, MTree.flatten, List.nil_append, List.mem_append, List.mem_cons,
      List.not_mem_nil, or_false] at hx
    rcases hx with (rfl | rfl | rfl) | rfl <;> norm_num

end Props.C17b

#print axioms Props.C17b.mean_mtree_avg_in_range
#print axioms Props.C17b.mean_mtree_in_range
#print axioms Props.C17b.mean_mtree_in_hull
#print axioms Props.C17b.variance_mtree_mean_in_range
#print axioms Props.C17b.skewness_mtree_mean_in_range
#print axioms Props.C17b.kurtosis_mtree_mean_in_range
#print axioms Props.C17b.covariance_mtree_means_in_range
