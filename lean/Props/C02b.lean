import AvgProofs.MeanMergeErr
import AvgProofs.MeanMergeTransfer
import AvgProofs.MomentsTree
import Mathlib.Tactic.NormNum

/-!
# C02 (addendum) - the forward-error bound of the mean holds for every merge tree

Carrier **R2** (`RF2 r`, `AvgProofs/MeanErr2.lean`): an ordered field `F` in which every `+ - * /` is
followed by a rounding `r.fl` with `|fl t - t| ≤ u |t|` (standard model of floating-point arithmetic:
no overflow, no underflow); conversions of counts are exact (`n < 2^53`). `meanK xs = Σx/n` is the exact
mean. `MTree` is an arbitrary order-preserving binary merge tree over contiguous chunks (empty and
one-element chunks allowed); `t.eval new add merge` summarises each chunk with `add` from `new` and
combines the summaries with `merge` along the tree.

`Mean.merge` is `(n_a·a + n_b·b)/(n_a + n_b)`: five rounded operations at this carrier (two products,
their sum, the sum of the two exactly converted counts, the quotient), early returns when a count is 0.

Result: for every tree over `n` observations with `|x| ≤ M` and `n·u ≤ 1/64`,
`|avg - mean| ≤ 11·u·M·n` (inside the envelope `12·n·u·M` of DESIGN.md section 5), and even
`≤ 2(2w+u)·M·n`, `w = (2u+u²)(1+u)`, the constant proved for add-only streams in
`Props.C01.mean_forward_error`. The same for the mean kept inside `Variance`, `Skewness`, `Kurtosis`
and for `avg_x`, `avg_y` of `Covariance` (same program text). Only the *mean* is covered: the
forward-error envelopes of the higher moments through merge trees remain measured by the harness.
-/
open Avg

namespace Props.C02b
variable {F : Type} [Field F] [LinearOrder F] [IsStrictOrderedRing F]

/-! ## one merge -/

/-- The five roundings of `Mean.merge`: for `|a|, |b| ≤ A`, positive `na`, `nb` and unit roundoff
`u < 1`, the computed `fl(fl(fl(na·a) + fl(nb·b)) / fl(na + nb))` differs from the exactly computed
`(na·a + nb·b)/(na + nb)` by at most `A·u·(4 + 3u + u²)/(1 - u)` (`≤ 5·u·A` when `u ≤ 1/9`). -/
theorem merge_rounding_error (r : Rnd2 F) (hu1 : r.u < 1) (A a b na nb : F) (hna : 0 < na) (hnb : 0 < nb)
    (ha : |a| ≤ A) (hb : |b| ≤ A) :
    |r.fl (r.fl (r.fl (na * a) + r.fl (nb * b)) / r.fl (na + nb)) - (na * a + nb * b) / (na + nb)|
      ≤ A * r.u * (4 + 3*r.u + r.u^2) / (1 - r.u) :=
  merge_round_error r.fl r.u r.u_nonneg hu1 r.err A a b na nb hna hnb ha hb

/-- One merge step keeps a budget of `B` per observation. If the `Mean` states `a`, `b` hold the exact
counts of the chunks `xs`, `ys` (all `|x| ≤ M`; either chunk may be empty) and their `avg` is within
`B·|xs|`, `B·|ys|` of the exact means of the chunks, then - provided `u ≤ 1/9` and `5u(M + B·n) ≤ B` for
the total count `n` - `a.merge b` holds the exact count `n` and its `avg` is within `B·n` of the exact
mean of `xs ++ ys`. -/
theorem mean_merge_forward_error (r : Rnd2 F) (M B : F) (hM : 0 ≤ M) (hB : 0 ≤ B) (hu : r.u ≤ 1/9)
    (a b : Mean (RF2 r)) (xs ys : List F)
    (hxs : ∀ x ∈ xs, |x| ≤ M) (hys : ∀ y ∈ ys, |y| ≤ M)
    (han : a.n = xs.length) (hbn : b.n = ys.length)
    (hae : |a.avg.val - meanK xs| ≤ B * (xs.length : F))
    (hbe : |b.avg.val - meanK ys| ≤ B * (ys.length : F))
    (hsmall : 5 * r.u * (M + B * ((xs ++ ys).length : F)) ≤ B) :
    (a.merge b).n = (xs ++ ys).length ∧
    |(a.merge b).avg.val - meanK (xs ++ ys)| ≤ B * ((xs ++ ys).length : F) :=
  mean_merge_error r M B hM hB hu a b xs ys hxs hys han hbn hae hbe hsmall

/-! ## every merge tree -/

/-- **Mean, every merge tree.** In the standard model of rounding with unit roundoff `u`, for every
merge tree `t` (any shape, any chunk sizes, empty and one-element chunks included) over `n`
observations with `|x| ≤ M` and `n·u ≤ 1/64`: the count is exact and `|avg - Σx/n| ≤ 11·u·M·n`. -/
theorem mean_mtree_forward_error (r : Rnd2 F) (M : F) (hM : 0 ≤ M) (t : MTree (RF2 r))
    (hb : ∀ x ∈ t.flatten, |x.val| ≤ M) (hsmall : (t.flatten.length : F) * r.u ≤ 1/64) :
    (Mean.evalTree t).n = t.flatten.length ∧
    |(Mean.evalTree t).avg.val - meanK (t.flatten.map RF2.val)| ≤ 11 * r.u * M * (t.flatten.length : F) :=
  mean_mtree_error r M hM t hb hsmall

/-- The same in the form of the envelope of DESIGN.md section 5: `|avg - mean| ≤ 12·n·u·M`. -/
theorem mean_mtree_forward_error_envelope (r : Rnd2 F) (M : F) (hM : 0 ≤ M) (t : MTree (RF2 r))
    (hb : ∀ x ∈ t.flatten, |x.val| ≤ M) (hsmall : (t.flatten.length : F) * r.u ≤ 1/64) :
    |(Mean.evalTree t).avg.val - meanK (t.flatten.map RF2.val)| ≤ 12 * (t.flatten.length : F) * r.u * M := by
  refine le_trans (mean_mtree_error r M hM t hb hsmall).2 ?_
  have h : 0 ≤ (t.flatten.length : F) * r.u * M :=
    mul_nonneg (mul_nonneg (Nat.cast_nonneg _) r.u_nonneg) hM
  linarith

/-- **Merging costs nothing in the constant.** Under `n·u ≤ 1/64` the bound `2(2w+u)·M·n`,
`w = (2u+u²)(1+u)`, proved for add-only streams (`Props.C01.mean_forward_error`) holds for every merge
tree. -/
theorem mean_mtree_forward_error_same_const (r : Rnd2 F) (M : F) (hM : 0 ≤ M) (t : MTree (RF2 r))
    (hb : ∀ x ∈ t.flatten, |x.val| ≤ M) (hsmall : (t.flatten.length : F) * r.u ≤ 1/64) :
    |(Mean.evalTree t).avg.val - meanK (t.flatten.map RF2.val)|
      ≤ 2 * M * (2 * ((2*r.u + r.u^2) * (1 + r.u)) + r.u) * (t.flatten.length : F) :=
  (mean_mtree_error_same_const r M hM t hb hsmall).2

/-- General form: any per-observation budget `B ≥ 2M(2w+u)`, `w = (2u+u²)(1+u)`, with `u ≤ 1/9`,
`w + n·u ≤ 1/2` and `5u(M + B·n) ≤ B`, is kept by every merge tree over `n` observations. -/
theorem mean_mtree_forward_error_gen (r : Rnd2 F) (M B : F) (hM : 0 ≤ M) (hu : r.u ≤ 1/9)
    (hB : 2 * M * (2 * ((2*r.u + r.u^2) * (1 + r.u)) + r.u) ≤ B) (t : MTree (RF2 r))
    (hb : ∀ x ∈ t.flatten, |x.val| ≤ M)
    (hs1 : (2*r.u + r.u^2) * (1 + r.u) + (t.flatten.length : F) * r.u ≤ 1/2)
    (hs2 : 5 * r.u * (M + B * (t.flatten.length : F)) ≤ B) :
    (Mean.evalTree t).n = t.flatten.length ∧
    |(Mean.evalTree t).avg.val - meanK (t.flatten.map RF2.val)| ≤ B * (t.flatten.length : F) :=
  mean_mtree_error_gen r M B hM hu hB t hb hs1 hs2

/-! ## the mean inside the other estimators -/

/-- `Variance` (= `MeanWithError`): its inner mean through any merge tree obeys the same bound (it is
computed by the text of `Mean.add` / `Mean.merge`). -/
theorem variance_mtree_mean_forward_error (r : Rnd2 F) (M : F) (hM : 0 ≤ M) (t : MTree (RF2 r))
    (hb : ∀ x ∈ t.flatten, |x.val| ≤ M) (hsmall : (t.flatten.length : F) * r.u ≤ 1/64) :
    (Variance.evalTree t).avg.n = t.flatten.length ∧
    |(Variance.evalTree t).avg.avg.val - meanK (t.flatten.map RF2.val)|
      ≤ 11 * r.u * M * (t.flatten.length : F) := by
  rw [Variance.mtree_avg]; exact mean_mtree_error r M hM t hb hsmall

/-- `Skewness`: the same. -/
theorem skewness_mtree_mean_forward_error (r : Rnd2 F) (M : F) (hM : 0 ≤ M) (t : MTree (RF2 r))
    (hb : ∀ x ∈ t.flatten, |x.val| ≤ M) (hsmall : (t.flatten.length : F) * r.u ≤ 1/64) :
    (Skewness.evalTree t).avg.avg.n = t.flatten.length ∧
    |(Skewness.evalTree t).avg.avg.avg.val - meanK (t.flatten.map RF2.val)|
      ≤ 11 * r.u * M * (t.flatten.length : F) := by
  rw [Skewness.mtree_avg]; exact variance_mtree_mean_forward_error r M hM t hb hsmall

/-- `Kurtosis`: the same. -/
theorem kurtosis_mtree_mean_forward_error (r : Rnd2 F) (M : F) (hM : 0 ≤ M) (t : MTree (RF2 r))
    (hb : ∀ x ∈ t.flatten, |x.val| ≤ M) (hsmall : (t.flatten.length : F) * r.u ≤ 1/64) :
    (Kurtosis.evalTree t).avg.avg.avg.n = t.flatten.length ∧
    |(Kurtosis.evalTree t).avg.avg.avg.avg.val - meanK (t.flatten.map RF2.val)|
      ≤ 11 * r.u * M * (t.flatten.length : F) := by
  rw [Kurtosis.mtree_avg]; exact skewness_mtree_mean_forward_error r M hM t hb hsmall

/-- `Covariance`: for every merge tree over `n` pairs with `|x| ≤ Mx`, `|y| ≤ My` and `n·u ≤ 1/64`, the
count is exact, `|avg_x - Σx/n| ≤ 11·u·Mx·n` and `|avg_y - Σy/n| ≤ 11·u·My·n`. -/
theorem covariance_mtree_means_forward_error (r : Rnd2 F) (Mx My : F) (hMx : 0 ≤ Mx) (hMy : 0 ≤ My)
    (t : MTree (RF2 r × RF2 r)) (hb : ∀ p ∈ t.flatten, |p.1.val| ≤ Mx ∧ |p.2.val| ≤ My)
    (hsmall : (t.flatten.length : F) * r.u ≤ 1/64) :
    (Covariance.evalTree t).n = t.flatten.length ∧
    |(Covariance.evalTree t).avg_x.val - meanK (t.flatten.map (fun p => p.1.val))|
      ≤ 11 * r.u * Mx * (t.flatten.length : F) ∧
    |(Covariance.evalTree t).avg_y.val - meanK (t.flatten.map (fun p => p.2.val))|
      ≤ 11 * r.u * My * (t.flatten.length : F) := by
  have hx := mean_mtree_error r Mx hMx (t.map Prod.fst)
    (by rw [MTree.flatten_map]; intro x hx; rw [List.mem_map] at hx
        obtain ⟨p, hp, rfl⟩ := hx; exact (hb p hp).1)
    (by rw [MTree.flatten_map, List.length_map]; exact hsmall)
  have hy := mean_mtree_error r My hMy (t.map Prod.snd)
    (by rw [MTree.flatten_map]; intro x hx; rw [List.mem_map] at hx
        obtain ⟨p, hp, rfl⟩ := hx; exact (hb p hp).2)
    (by rw [MTree.flatten_map, List.length_map]; exact hsmall)
  rw [← Covariance.mtree_meanXState, MTree.flatten_map, List.length_map, List.map_map] at hx
  rw [← Covariance.mtree_meanYState, MTree.flatten_map, List.length_map, List.map_map] at hy
  exact ⟨hx.1, hx.2, hy.2⟩

/-! ## Non-vacuity -/

/-- a rounding that is never exact (except at 0): always moves away from zero by the full relative
amount `u = 2^-53` -/
def awayRnd : Rnd2 ℚ :=
  ⟨fun t => t * (1 + 1/2^53), 1/2^53, by norm_num, fun t => by
    have : t * (1 + 1/2^53) - t = (1/2^53) * t := by ring
    rw [this, abs_mul, abs_of_pos (by norm_num : (0:ℚ) < 1/2^53)]⟩

/-- exact arithmetic is a rounding for every `u ≥ 0` -/
def idRnd (u : F) (hu : 0 ≤ u) : Rnd2 F :=
  ⟨id, u, hu, fun t => by simp only [id, sub_self, abs_zero]; exact mul_nonneg hu (abs_nonneg t)⟩

/-- a tree with a nested merge, an empty chunk in the middle and unequal chunk sizes -/
def exTree : MTree (RF2 awayRnd) :=
  .node (.leaf [⟨1⟩, ⟨2⟩, ⟨-6⟩]) (.node (.leaf []) (.leaf [⟨3⟩]))

/-- the hypotheses of the tree theorems are met by `exTree` with `M = 6`, `u = 2^-53` -/
example : (∀ x ∈ exTree.flatten, |x.val| ≤ 6) ∧ (exTree.flatten.length : ℚ) * awayRnd.u ≤ 1/64 := by
  constructor
  · intro x hx
    simp only [exTree, MTree.flatten, List.nil_append, List.mem_append, List.mem_cons,
      List.not_mem_nil, or_false] at hx
    rcases hx with (rfl | rfl | rfl) | rfl <;> norm_num
  · norm_num [exTree, MTree.flatten, awayRnd]

/-- and the conclusion is a concrete statement about a computation with 17 rounded operations (3 per
`add`, 5 in the one merge of two non-empty states) under a rounding that is not the identity: the
result is within `11·2^-53·6·4` of the exact mean `0` -/
example : |(Mean.evalTree exTree).avg.val - 0| ≤ 11 * (1/2^53) * 6 * 4 := by
  have h := (mean_mtree_forward_error awayRnd 6 (by norm_num) exTree
    (by intro x hx
        simp only [exTree, MTree.flatten, List.nil_append, List.mem_append,
          List.mem_cons, List.not_mem_nil, or_false] at hx
        rcases hx with (rfl | rfl | rfl) | rfl <;> norm_num)
    (by norm_num [exTree, MTree.flatten, awayRnd])).2
  have hm : meanK (exTree.flatten.map RF2.val) = 0 := by
    norm_num [exTree, MTree.flatten, meanK]
  have hl : (exTree.flatten.length : ℚ) = 4 := by norm_num [exTree, MTree.flatten]
  rw [hm, hl] at h
  exact h

end Props.C02b

#print axioms Props.C02b.merge_rounding_error
#print axioms Props.C02b.mean_merge_forward_error
#print axioms Props.C02b.mean_mtree_forward_error
#print axioms Props.C02b.mean_mtree_forward_error_envelope
#print axioms Props.C02b.mean_mtree_forward_error_same_const
#print axioms Props.C02b.mean_mtree_forward_error_gen
#print axioms Props.C02b.variance_mtree_mean_forward_error
#print axioms Props.C02b.skewness_mtree_mean_forward_error
#print axioms Props.C02b.kurtosis_mtree_mean_forward_error
#print axioms Props.C02b.covariance_mtree_means_forward_error
