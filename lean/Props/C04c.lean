import AvgProofs.MomentsVarErr
import Props.C02b
import Mathlib.Analysis.Real.Sqrt
import Mathlib.Tactic.NormNum

/-!
# C04 (addendum) - `central_moment(2)` of `define_moments!(T, N)` in floating point, every order `N ≥ 2`

The envelope clause of C04 for the second central moment, *proved* for add-only streams.

Carrier **R2** (`RF2 r`, `AvgProofs/MeanErr2.lean`): an ordered field `F` in which every `+ - * /` is
followed by a rounding `r.fl` with `|fl t - t| ≤ u·|t|` (standard model: no overflow, no underflow);
conversions of counts are exact. Unary minus is exact (`NegExact r`: the `Neg (RF2 r)` instance flips the
sign of the value, as IEEE negation does; `RF2.instNeg` is such an instance). Notation: `n` observations,
`M ≥ max|x_i|`, `mean vs = Σx/n`, `T vs = Σ(x - mean)²` (`VarSpec.T`), `var = T/n`,
`Moments.m0 s = s.m[0]` the second-order entry.

What `Moments.add N` does to `m[0]` (`m0_bitwise_update`, any carrier; it is the iteration `p = 2` of the
outer loop, whose inner loop `for k in 1..(p-1)` is empty): with `k` the new count (exact conversion),
`over_n = 1/k`, `delta = x - avg`,
`m0' = m0 + ((k-1)·(-over_n)·(-over_n) + ((k-1)·over_n)·((k-1)·over_n))·(delta·delta)`.
At R2 (`moments_m0_computed_update`) these are eleven distinct rounded values per observation (`k - 1` is a
rounded subtraction of exactly converted counts, evaluated three times; `term2` and `factor2` are the same
expression evaluated twice, with the same result). The exact value of the increment is `δ²·[(k-1)/k² + (k-1)²/k²] = δ²·(k-1)/k`, that of Welford's
update used by `Variance` - but here `δ = x - a` is not divided by `k` first and the factor `(k-1)/k` is
assembled from two non-negative parts, one of them a product of two *negative* numbers.

Results:
* `moments_increment_rounding_error`: the computed increment is within relative error `γ = (1+u)^12 - 1` of
  `(x-a)²(k-1)/k` (`twelve_roundings`: `γ ≤ 12.04·u` for `u ≤ 1/1856`, `≤ 13.2·u` for `u ≤ 1/64`).
* `sum_of_squares_fold_error_general`: the induction of `Props.C01b.sum2_forward_error_general`, restated and
  proved for an *abstract* rounded sum-of-squares fold with any increment error `γ ≥ 0`
  (`SqFold.IsSqFold`); `variance_is_instance` (`γ = (1+u)^8 - 1`), `moments_is_instance` (`γ = (1+u)^12 - 1`).
* `moments_m0_forward_error_general`: any bounds `E_i` on the error of the running mean (which is bit for bit
  that of `Mean`, `Props.C04b.moments_mean_is_mean`).
* `moments_m0_forward_error`: `(n+28)·u ≤ 1/64`, `n·T ≤ R₀²` ⟹
  `|m[0] - T| ≤ (29/4)·n·u·T + (99/25)·n·u·M·R₀ + (15/4)·n³·u²·M²`  (`…_int`: `8, 4, 4`);
  `moments_m0_forward_error_A`: `n·u ≤ 1/64` ⟹ `15·n·u·T + 15·n·u·M·R₀ + 44·n³·u²·M²`.
* `central_moment2_forward_error`: `|central_moment(2) - var| ≤ 8·n·u·var + 4·n·u·M·σ + 4·n²·u²·M²`;
  `central_moment2_envelope`: `≤ 8·n·u·(var + M·σ)` when `n·u·M ≤ σ`;
  `central_moment2_envelope_kappa` (ℝ, `σ = sqrt var`, `κ = 1 + M/σ`): **`≤ 8·n·κ·u·var`** - the envelope of
  DESIGN.md section 5 for `central_moment(2)` (scale `ν_2 = var`, constant `2·p² = 8`).
* `moments_sample_variance_forward_error`: `8·n·u·s² + 8·n·u·M·σ + 8·n²·u²·M²`.

Not covered: the entries `m[p-2]`, `p ≥ 3` (their updates read the lower entries), merge trees.
-/
open Avg MSpec Finset VarSpec VarErr SqFold MomVarErr

namespace Props.C04c

/-! ## bit for bit: what `add` does to `m[0]` -/

/-- Any carrier (floating point included), every order `N ≥ 2`, bit for bit: `Moments.add N` replaces the
second-order entry by
`m0 + ((k-1)·(-(1/k))·(-(1/k)) + ((k-1)·(1/k))·((k-1)·(1/k)))·((x-avg)·(x-avg))`,
`k` the new count, every operation being that of the carrier in exactly this association (whatever default
the entry is read with: the list is not empty). -/
theorem m0_bitwise_update {α : Type} [Add α] [Sub α] [Mul α] [Div α] [Neg α] [NatCast α]
    (N : Nat) (hN : 2 ≤ N) (s : Moments α) (x d : α) :
    (Moments.add N s x).m.getD 0 d =
      s.m0 + ((((s.n + 1 : Nat) : α) - ((1:Nat):α)) * (-(((1:Nat):α) / ((s.n + 1 : Nat) : α)))
                * (-(((1:Nat):α) / ((s.n + 1 : Nat) : α)))
              + ((((s.n + 1 : Nat) : α) - ((1:Nat):α)) * (((1:Nat):α) / ((s.n + 1 : Nat) : α)))
                * ((((s.n + 1 : Nat) : α) - ((1:Nat):α)) * (((1:Nat):α) / ((s.n + 1 : Nat) : α))))
            * ((x - s.avg) * (x - s.avg)) :=
  Moments.add_m0 N hN s x d

variable {F : Type} [Field F] [LinearOrder F] [IsStrictOrderedRing F]

/-- What `Moments.add N` computes for `m[0]` at the carrier R2 with exact negation, rounding by rounding:
with `k` the new count, `a` the mean before the observation, `on = fl(1/k)`, `km = fl(k-1)`, `δ = fl(x-a)`,
`m0' = fl(m0 + fl(fl(fl(fl(km·(-on))·(-on)) + fl(fl(km·on)·fl(km·on)))·fl(δ·δ)))`. -/
theorem moments_m0_computed_update (r : Rnd2 F) [Neg (RF2 r)] (hneg : NegExact r) (N : Nat)
    (hN : 2 ≤ N) (s : Moments (RF2 r)) (x : RF2 r) :
    (Moments.add N s x).m0.val =
      r.fl (s.m0.val +
        r.fl (r.fl (r.fl (r.fl (r.fl (((s.n + 1 : ℕ) : F) - 1) * -(r.fl (1 / ((s.n + 1 : ℕ) : F))))
                      * -(r.fl (1 / ((s.n + 1 : ℕ) : F))))
                  + r.fl (r.fl (r.fl (((s.n + 1 : ℕ) : F) - 1) * r.fl (1 / ((s.n + 1 : ℕ) : F)))
                      * r.fl (r.fl (((s.n + 1 : ℕ) : F) - 1) * r.fl (1 / ((s.n + 1 : ℕ) : F)))))
              * r.fl (r.fl (x.val - s.avg.val) * r.fl (x.val - s.avg.val)))) :=
  moments_m0_add_val r hneg N hN s x

/-- The computed increment is within relative error `(1+u)^12 - 1` of `I = (x-a)²·(k-1)/k`, and `I ≥ 0`
(any real `k ≥ 1`). The count of roundings: `term1·factor1 ≈ (k-1)/k²` five (it is a product of two
non-positive numbers), `term2·factor2 ≈ (k-1)²/k²` seven, their rounded sum - both exact parts are
non-negative - eight, `δ·δ` three, the final product one more. -/
theorem moments_increment_rounding_error (r : Rnd2 F) (x a k : F) (hk : 1 ≤ k) :
    0 ≤ (x - a)^2 * ((k - 1) / k) ∧
    |r.fl (r.fl (r.fl (r.fl (r.fl (k - 1) * -(r.fl (1 / k))) * -(r.fl (1 / k)))
            + r.fl (r.fl (r.fl (k - 1) * r.fl (1 / k)) * r.fl (r.fl (k - 1) * r.fl (1 / k))))
          * r.fl (r.fl (x - a) * r.fl (x - a)))
        - (x - a)^2 * ((k - 1) / k)|
      ≤ ((1 + r.u)^12 - 1) * ((x - a)^2 * ((k - 1) / k)) :=
  moments_incr_error r.fl r.u r.u_nonneg r.err x a k hk

/-- The exact value of the increment is that of Welford's update:
`δ²·[(k-1)/k² + (k-1)²/k²] = δ²·(k-1)/k` (`k ≠ 0`). -/
theorem increment_exact_value {L : Type} [Field L] (δ k : L) (hk : k ≠ 0) :
    ((k - 1) * -(1 / k) * -(1 / k) + (k - 1) * (1 / k) * ((k - 1) * (1 / k))) * (δ * δ)
      = δ^2 * ((k - 1) / k) := by
  field_simp
  ring

/-- `(1+u)^12 - 1 ≤ 12.04·u` for `u ≤ 1/1856`, and `≤ 13.2·u` for `u ≤ 1/64`. -/
theorem twelve_roundings (u : F) (hu : 0 ≤ u) :
    (u ≤ 1/1856 → (1 + u)^12 - 1 ≤ 301/25 * u) ∧ (u ≤ 1/64 → (1 + u)^12 - 1 ≤ 66/5 * u) :=
  ⟨gam12_le_sharp u hu, gam12_le u hu⟩

/-! ## the abstract induction -/

/-- **The induction of `Props.C01b.sum2_forward_error_general` for an abstract accumulator.** Let `Sf`, `af`
be any functions of the stream so far (read through `val`) such that `Sf [] = 0` and every step inside `xs`
has the form `Sf (ys ++ [x]) = fl(Sf ys + p)` with `|p - I| ≤ γ·I`, `I = (x - af ys)²·|ys|/(|ys|+1)`
(`IsSqFold r γ val Sf af xs`), `γ ≥ 0`. If `E i ≥ 0` bounds `|af ys - mean ys|` for the prefixes of length
`i`, then
`|Sf xs - T| ≤ (1+u)^n·((γ + n·u)·T + (1+γ)·Σ_{i<n}(2·E_i·|dev_i| + E_i²)·i/(i+1))`. -/
theorem sum_of_squares_fold_error_general (r : Rnd2 F) (γ : F) (hγ : 0 ≤ γ) {β : Type} (val : β → F)
    (Sf af : List β → F) (E : ℕ → F) (hE0 : ∀ i, 0 ≤ E i) (xs : List β)
    (hF : IsSqFold r γ val Sf af xs)
    (hE : ∀ ys, ys <+: xs → |af ys - mean (ys.map val)| ≤ E ys.length) :
    |Sf xs - T (xs.map val)|
      ≤ (1 + r.u)^xs.length *
          ((γ + xs.length * r.u) * T (xs.map val)
            + (1 + γ) * ∑ i ∈ range (xs.map val).length,
                (2 * E i * |dev (xs.map val) i| + (E i)^2) * ((i : F) / ((i : F) + 1))) :=
  sq_fold_error_gen r γ hγ val Sf af E hE0 xs hF hE

/-- The same after Cauchy-Schwarz (square-root free): for every `R ≥ 0` with `(Σ_{i<n} E_i²)·T ≤ R²`,
`|Sf xs - T| ≤ (1+u)^n·((γ + n·u)·T + (1+γ)·(2R + Σ_{i<n} E_i²))`. -/
theorem sum_of_squares_fold_error_general_cs (r : Rnd2 F) (γ : F) (hγ : 0 ≤ γ) {β : Type}
    (val : β → F) (Sf af : List β → F) (E : ℕ → F) (hE0 : ∀ i, 0 ≤ E i) (xs : List β)
    (hF : IsSqFold r γ val Sf af xs)
    (hE : ∀ ys, ys <+: xs → |af ys - mean (ys.map val)| ≤ E ys.length)
    (R : F) (hR : 0 ≤ R) (hRT : (∑ i ∈ range xs.length, (E i)^2) * T (xs.map val) ≤ R^2) :
    |Sf xs - T (xs.map val)|
      ≤ (1 + r.u)^xs.length *
          ((γ + xs.length * r.u) * T (xs.map val)
            + (1 + γ) * (2 * R + ∑ i ∈ range xs.length, (E i)^2)) :=
  sq_fold_error_cs r γ hγ val Sf af E hE0 xs hF hE R hR hRT

/-- `Variance.add` is an instance of the abstract fold, with `γ = (1+u)^8 - 1` (so
`Props.C01b.sum2_forward_error_general` is a corollary of the abstract induction). -/
theorem variance_is_instance (r : Rnd2 F) (xs : List (RF2 r)) :
    IsSqFold r ((1 + r.u)^8 - 1) RF2.val
      (fun ys => (ys.foldl Variance.add Variance.new).sum_2.val)
      (fun ys => (ys.foldl Mean.add Mean.new).avg.val) xs :=
  variance_is_sqFold r xs

/-- `Moments.add N` (`N ≥ 2`, exact negation) is an instance of the abstract fold, with
`γ = (1+u)^12 - 1`: accumulator `m[0]`, running mean `avg`. -/
theorem moments_is_instance (r : Rnd2 F) [Neg (RF2 r)] (hneg : NegExact r) (N : Nat) (hN : 2 ≤ N)
    (xs : List (RF2 r)) :
    IsSqFold r ((1 + r.u)^12 - 1) RF2.val
      (fun ys => (ys.foldl (Moments.add N) (Moments.new N)).m0.val)
      (fun ys => (ys.foldl (Moments.add N) (Moments.new N)).avg.val) xs :=
  moments_is_sqFold hneg N hN xs

/-! ## `m[0]`, all stream lengths, every order -/

section fold
variable {r : Rnd2 F} [Neg (RF2 r)]

/-- **General form.** Every order `N ≥ 2`, every stream `xs`: if `E i ≥ 0` bounds the error of the running
mean after `i` observations (for every prefix of `xs`; the mean of `define_moments!` is bit for bit that of
`Mean`), then with `γ = (1+u)^12 - 1`
`|m[0] - T| ≤ (1+u)^n·((γ + n·u)·T + (1+γ)·Σ_{i<n}(2·E_i·|dev_i| + E_i²)·i/(i+1))`. No bound on the data. -/
theorem moments_m0_forward_error_general (hneg : NegExact r) (N : Nat) (hN : 2 ≤ N) (E : ℕ → F)
    (hE0 : ∀ i, 0 ≤ E i) (xs : List (RF2 r))
    (hE : ∀ ys, ys <+: xs →
      |(ys.foldl Mean.add Mean.new).avg.val - mean (ys.map RF2.val)| ≤ E ys.length) :
    |(xs.foldl (Moments.add N) (Moments.new N)).m0.val - T (xs.map RF2.val)|
      ≤ (1 + r.u)^xs.length *
          ((((1 + r.u)^12 - 1) + xs.length * r.u) * T (xs.map RF2.val)
            + (1 + ((1 + r.u)^12 - 1)) *
              ∑ i ∈ range (xs.map RF2.val).length,
                (2 * E i * |dev (xs.map RF2.val) i| + (E i)^2) * ((i : F) / ((i : F) + 1))) :=
  moments_m0_error_gen hneg N hN E hE0 xs hE

/-- **Forward error of `m[0]`, linear in the conditioning.** Every order `N ≥ 2`, every stream of `n`
observations with `|x_i| ≤ M` and `(n+28)·u ≤ 1/64`; any `R₀ ≥ 0` with `n·T ≤ R₀²` (over ℝ:
`R₀ = sqrt(n·T) = n·σ`):
`|m[0] - T| ≤ (29/4)·n·u·T + (99/25)·n·u·M·R₀ + (15/4)·n³·u²·M²`. -/
theorem moments_m0_forward_error (hneg : NegExact r) (N : Nat) (hN : 2 ≤ N) (M : F) (hM : 0 ≤ M)
    (xs : List (RF2 r)) (hb : ∀ x ∈ xs, |x.val| ≤ M)
    (hsmall : ((xs.length : F) + 28) * r.u ≤ 1/64)
    (R₀ : F) (hR : 0 ≤ R₀) (hRT : (xs.length : F) * T (xs.map RF2.val) ≤ R₀^2) :
    |(xs.foldl (Moments.add N) (Moments.new N)).m0.val - T (xs.map RF2.val)|
      ≤ 29/4 * xs.length * r.u * T (xs.map RF2.val) + 99/25 * xs.length * r.u * M * R₀
        + 15/4 * (xs.length : F)^3 * r.u^2 * M^2 :=
  moments_m0_error_sharp_num hneg N hN M hM xs hb hsmall R₀ hR hRT

/-- The same with integer constants: `|m[0] - T| ≤ 8·n·u·T + 4·n·u·M·R₀ + 4·n³·u²·M²`. -/
theorem moments_m0_forward_error_int (hneg : NegExact r) (N : Nat) (hN : 2 ≤ N) (M : F) (hM : 0 ≤ M)
    (xs : List (RF2 r)) (hb : ∀ x ∈ xs, |x.val| ≤ M)
    (hsmall : ((xs.length : F) + 28) * r.u ≤ 1/64)
    (R₀ : F) (hR : 0 ≤ R₀) (hRT : (xs.length : F) * T (xs.map RF2.val) ≤ R₀^2) :
    |(xs.foldl (Moments.add N) (Moments.new N)).m0.val - T (xs.map RF2.val)|
      ≤ 8 * xs.length * r.u * T (xs.map RF2.val) + 4 * xs.length * r.u * M * R₀
        + 4 * (xs.length : F)^3 * r.u^2 * M^2 := by
  refine le_trans (moments_m0_error_sharp_num hneg N hN M hM xs hb hsmall R₀ hR hRT) ?_
  have hu := r.u_nonneg
  have hn : (0 : F) ≤ xs.length := Nat.cast_nonneg _
  have a1 : 0 ≤ (xs.length : F) * r.u * T (xs.map RF2.val) :=
    mul_nonneg (mul_nonneg hn hu) (T_nonneg _)
  have a2 : 0 ≤ (xs.length : F) * r.u * M * R₀ := by positivity
  have a3 : 0 ≤ (xs.length : F)^3 * r.u^2 * M^2 := by positivity
  linarith

/-- Under the weaker hypothesis `n·u ≤ 1/64`:
`|m[0] - T| ≤ 15·n·u·T + 15·n·u·M·R₀ + 44·n³·u²·M²`. -/
theorem moments_m0_forward_error_A (hneg : NegExact r) (N : Nat) (hN : 2 ≤ N) (M : F) (hM : 0 ≤ M)
    (xs : List (RF2 r)) (hb : ∀ x ∈ xs, |x.val| ≤ M) (hsmall : (xs.length : F) * r.u ≤ 1/64)
    (R₀ : F) (hR : 0 ≤ R₀) (hRT : (xs.length : F) * T (xs.map RF2.val) ≤ R₀^2) :
    |(xs.foldl (Moments.add N) (Moments.new N)).m0.val - T (xs.map RF2.val)|
      ≤ 15 * xs.length * r.u * T (xs.map RF2.val) + 15 * xs.length * r.u * M * R₀
        + 44 * (xs.length : F)^3 * r.u^2 * M^2 :=
  moments_m0_error_lin hneg N hN M hM xs hb hsmall R₀ hR hRT

/-! ## the accessors -/
variable [FloatOps (RF2 r)]

omit [Neg (RF2 r)] in
/-- `central_moment(2)` never panics for `N ≥ 2` (the index `p - 2 = 0` is inside the array). -/
theorem central_moment2_no_panic (N : Nat) (hN : 2 ≤ N) (s : Moments (RF2 r)) :
    s.centralMoment N 2 = .val (s.cmRaw 2) :=
  central_moment2_eq N hN s

/-- What `central_moment(2)` computes at R2 for a non-empty stream: `fl(m[0]/n)`, one more rounding. -/
theorem central_moment2_computed (N : Nat) (hN : 2 ≤ N) (xs : List (RF2 r)) (hne : xs ≠ []) :
    ((xs.foldl (Moments.add N) (Moments.new N)).cmRaw 2).val
      = r.fl ((xs.foldl (Moments.add N) (Moments.new N)).m0.val / (xs.length : F)) :=
  cm2_val N hN xs hne

/-- **`central_moment(2)`.** Whatever the non-arithmetic operations of the carrier are, for every order
`N ≥ 2`, `n ≥ 1` observations with `|x_i| ≤ M`, `(n+28)·u ≤ 1/64`, `var = T/n` and any `σ ≥ 0` with
`var ≤ σ²`:  `|central_moment(2) - var| ≤ 8·n·u·var + 4·n·u·M·σ + 4·n²·u²·M²`. -/
theorem central_moment2_forward_error (hneg : NegExact r) (N : Nat) (hN : 2 ≤ N) (M : F) (hM : 0 ≤ M)
    (xs : List (RF2 r)) (hne : xs ≠ [])
    (hb : ∀ x ∈ xs, |x.val| ≤ M) (hsmall : ((xs.length : F) + 28) * r.u ≤ 1/64)
    (σ : F) (hσ : 0 ≤ σ) (hvar : T (xs.map RF2.val) / (xs.length : F) ≤ σ^2) :
    |((xs.foldl (Moments.add N) (Moments.new N)).cmRaw 2).val - T (xs.map RF2.val) / (xs.length : F)|
      ≤ 8 * xs.length * r.u * (T (xs.map RF2.val) / (xs.length : F))
        + 4 * xs.length * r.u * M * σ + 4 * (xs.length : F)^2 * r.u^2 * M^2 :=
  cm2_error_sharp hneg N hN M hM xs hne hb hsmall σ hσ hvar

/-- **`central_moment(2)` inside the envelope of DESIGN.md section 5.** If moreover `n·u·M ≤ σ`, then
`|central_moment(2) - var| ≤ 8·n·u·(var + M·σ)`. -/
theorem central_moment2_envelope (hneg : NegExact r) (N : Nat) (hN : 2 ≤ N) (M : F) (hM : 0 ≤ M)
    (xs : List (RF2 r)) (hne : xs ≠ [])
    (hb : ∀ x ∈ xs, |x.val| ≤ M) (hsmall : ((xs.length : F) + 28) * r.u ≤ 1/64)
    (σ : F) (hσ : 0 ≤ σ) (hvar : T (xs.map RF2.val) / (xs.length : F) ≤ σ^2)
    (hcond : (xs.length : F) * r.u * M ≤ σ) :
    |((xs.foldl (Moments.add N) (Moments.new N)).cmRaw 2).val - T (xs.map RF2.val) / (xs.length : F)|
      ≤ 8 * xs.length * r.u * (T (xs.map RF2.val) / (xs.length : F) + M * σ) :=
  cm2_error_envelope hneg N hN M hM xs hne hb hsmall σ hσ hvar hcond

/-- What `sample_variance` of `define_moments!` computes at R2 for `n ≥ 2`: `fl(m[0]/(n-1))`. -/
theorem moments_sample_variance_computed (N : Nat) (hN : 2 ≤ N) (xs : List (RF2 r))
    (h2 : 2 ≤ xs.length) :
    (xs.foldl (Moments.add N) (Moments.new N)).sampleVariance.val
      = r.fl ((xs.foldl (Moments.add N) (Moments.new N)).m0.val / ((xs.length - 1 : ℕ) : F)) :=
  moments_samplevar_val N hN xs h2

/-- **`sample_variance` of `define_moments!`.** `N ≥ 2`, `n ≥ 2`, `|x_i| ≤ M`, `(n+28)·u ≤ 1/64`,
`s² = T/(n-1)`, any `σ ≥ 0` with `s² ≤ σ²`:
`|sample_variance - s²| ≤ 8·n·u·s² + 8·n·u·M·σ + 8·n²·u²·M²`. -/
theorem moments_sample_variance_forward_error (hneg : NegExact r) (N : Nat) (hN : 2 ≤ N) (M : F)
    (hM : 0 ≤ M) (xs : List (RF2 r)) (h2 : 2 ≤ xs.length)
    (hb : ∀ x ∈ xs, |x.val| ≤ M) (hsmall : ((xs.length : F) + 28) * r.u ≤ 1/64)
    (σ : F) (hσ : 0 ≤ σ) (hvar : T (xs.map RF2.val) / ((xs.length - 1 : ℕ) : F) ≤ σ^2) :
    |(xs.foldl (Moments.add N) (Moments.new N)).sampleVariance.val
        - T (xs.map RF2.val) / ((xs.length - 1 : ℕ) : F)|
      ≤ 8 * xs.length * r.u * (T (xs.map RF2.val) / ((xs.length - 1 : ℕ) : F))
        + 8 * xs.length * r.u * M * σ + 8 * (xs.length : F)^2 * r.u^2 * M^2 :=
  moments_samplevar_error_sharp hneg N hN M hM xs h2 hb hsmall σ hσ hvar

end fold

/-- **The envelope clause of C04 for `central_moment(2)`, in the words of DESIGN.md section 5.** Over ℝ, for
every order `N ≥ 2` and `n ≥ 1` observations with `|x_i| ≤ M`, exact variance `var > 0`, `σ = sqrt(var)`,
`κ = 1 + M/σ`, `(n+28)·u ≤ 1/64` and `n·u·M ≤ σ`:   `|central_moment(2) - var| ≤ 8·n·κ·u·var`
(scale `ν_2 = var`, constant `2·p² = 8`). -/
theorem central_moment2_envelope_kappa {r : Rnd2 ℝ} [Neg (RF2 r)] [FloatOps (RF2 r)]
    (hneg : NegExact r) (N : Nat) (hN : 2 ≤ N) (M : ℝ) (hM : 0 ≤ M)
    (xs : List (RF2 r)) (hne : xs ≠ []) (hb : ∀ x ∈ xs, |x.val| ≤ M)
    (hsmall : ((xs.length : ℝ) + 28) * r.u ≤ 1/64)
    (hpos : 0 < T (xs.map RF2.val) / (xs.length : ℝ))
    (hcond : (xs.length : ℝ) * r.u * M ≤ Real.sqrt (T (xs.map RF2.val) / (xs.length : ℝ))) :
    |((xs.foldl (Moments.add N) (Moments.new N)).cmRaw 2).val - T (xs.map RF2.val) / (xs.length : ℝ)|
      ≤ 8 * xs.length * (1 + M / Real.sqrt (T (xs.map RF2.val) / (xs.length : ℝ))) * r.u
          * (T (xs.map RF2.val) / (xs.length : ℝ)) := by
  set v := T (xs.map RF2.val) / (xs.length : ℝ) with hv
  have hσpos : 0 < Real.sqrt v := Real.sqrt_pos.mpr hpos
  have hsq : Real.sqrt v ^ 2 = v := Real.sq_sqrt hpos.le
  have h := cm2_error_envelope hneg N hN M hM xs hne hb hsmall (Real.sqrt v) hσpos.le
    (le_of_eq hsq.symm) hcond
  refine le_trans h (le_of_eq ?_)
  have : (1 + M / Real.sqrt v) * v = v + M * Real.sqrt v := by
    have hne' : Real.sqrt v ≠ 0 := hσpos.ne'
    field_simp
    nlinarith [hsq]
  calc 8 * (xs.length : ℝ) * r.u * (v + M * Real.sqrt v)
      = 8 * (xs.length : ℝ) * r.u * ((1 + M / Real.sqrt v) * v) := by rw [this]
    _ = 8 * (xs.length : ℝ) * (1 + M / Real.sqrt v) * r.u * v := by ring

/-! ## Non-vacuity -/

/-- an ill-conditioned stream: offset 1000, spread 4; the rounding `Props.C02b.awayRnd` is never exact
(always away from zero by the full `u = 2^-53`), the negation `RF2.instNeg` is the exact sign flip -/
def exStream : List (RF2 Props.C02b.awayRnd) := [⟨1001⟩, ⟨999⟩, ⟨1002⟩, ⟨998⟩]

theorem exStream_T : T (exStream.map RF2.val) = 10 := by
  norm_num [exStream, T, sumPow, mean]

/-- the hypotheses of `moments_m0_forward_error` and `central_moment2_envelope` are met by `exStream`
(`N = 4`, say) with `M = 1002`, `u = 2^-53`, `R₀ = 7` (`n·T = 40 ≤ 49`), `σ = 2` (`var = 5/2 ≤ 4`,
`n·u·M = 4008·2^-53 ≤ 2`) -/
example : NegExact Props.C02b.awayRnd ∧ (∀ x ∈ exStream, |x.val| ≤ 1002)
    ∧ ((exStream.length : ℚ) + 28) * Props.C02b.awayRnd.u ≤ 1/64
    ∧ (exStream.length : ℚ) * T (exStream.map RF2.val) ≤ 7^2
    ∧ T (exStream.map RF2.val) / (exStream.length : ℚ) ≤ 2^2
    ∧ (exStream.length : ℚ) * Props.C02b.awayRnd.u * 1002 ≤ 2 := by
  refine ⟨RF2.instNeg_negExact _, ?_, ?_, ?_, ?_, ?_⟩
  · intro x hx
    simp only [exStream, List.mem_cons, List.not_mem_nil, or_false] at hx
    rcases hx with rfl | rfl | rfl | rfl <;> norm_num
  · norm_num [exStream, Props.C02b.awayRnd]
  · rw [exStream_T]; norm_num [exStream]
  · rw [exStream_T]; norm_num [exStream]
  · norm_num [exStream, Props.C02b.awayRnd]

/-- and the conclusion is a concrete statement about a computation under a rounding that is never exact:
`m[0]` of `define_moments!(f64, 4)` after the four observations is within
`8·4·u·10 + 4·4·u·1002·7 + 4·64·u²·1002²` of the exact `T = 10` -/
example : |(exStream.foldl (Moments.add 4) (Moments.new 4)).m0.val - 10|
    ≤ 8 * 4 * (1/2^53) * 10 + 4 * 4 * (1/2^53) * 1002 * 7 + 4 * (4:ℚ)^3 * (1/2^53)^2 * 1002^2 := by
  have h := moments_m0_forward_error_int (RF2.instNeg_negExact Props.C02b.awayRnd) 4 (by norm_num)
    1002 (by norm_num) exStream
    (by intro x hx
        simp only [exStream, List.mem_cons, List.not_mem_nil, or_false] at hx
        rcases hx with rfl | rfl | rfl | rfl <;> norm_num)
    (by norm_num [exStream, Props.C02b.awayRnd]) 7 (by norm_num)
    (by rw [exStream_T]; norm_num [exStream])
  rw [exStream_T] at h
  have hl : (exStream.length : ℚ) = 4 := by norm_num [exStream]
  have hu : Props.C02b.awayRnd.u = 1/2^53 := rfl
  rw [hl, hu] at h
  exact h

end Props.C04c

#print axioms Props.C04c.m0_bitwise_update
#print axioms Props.C04c.moments_m0_computed_update
#print axioms Props.C04c.moments_increment_rounding_error
#print axioms Props.C04c.increment_exact_value
#print axioms Props.C04c.twelve_roundings
#print axioms Props.C04c.sum_of_squares_fold_error_general
#print axioms Props.C04c.sum_of_squares_fold_error_general_cs
#print axioms Props.C04c.variance_is_instance
#print axioms Props.C04c.moments_is_instance
#print axioms Props.C04c.moments_m0_forward_error_general
#print axioms Props.C04c.moments_m0_forward_error
#print axioms Props.C04c.moments_m0_forward_error_int
#print axioms Props.C04c.moments_m0_forward_error_A
#print axioms Props.C04c.central_moment2_no_panic
#print axioms Props.C04c.central_moment2_computed
#print axioms Props.C04c.central_moment2_forward_error
#print axioms Props.C04c.central_moment2_envelope
#print axioms Props.C04c.moments_sample_variance_computed
#print axioms Props.C04c.moments_sample_variance_forward_error
#print axioms Props.C04c.central_moment2_envelope_kappa
