import AvgProofs.MomentsMeanErr
import AvgProofs.WeightedMeanErr
import AvgProofs.EffLen
import Mathlib.Tactic.NormNum

/-!
# C17 (second addendum) - in floating point the mean of `define_moments!` and the weighted means stay
within the range of the contributing observations up to `C·n·u·max|x|`

Carrier **R2** (`RF2 r`: every `+ - * /` is followed by a rounding with `|fl t - t| ≤ u|t|` - no
overflow, no underflow - and counts are converted exactly). Histories: every merge tree `MTree` over
every chunking of the data (any shape, empty and one-element chunks included). This closes the two
cases left open by `Props.C17b` ("not covered here: the weighted means and `define_moments!`").

* `define_moments!(T, N)`, every order `N`: if all `n ≥ 1` observations lie in `[lo, hi]` and have
  `|x| ≤ M`, and `n·u ≤ 1/64`, then `lo - 11·n·u·M ≤ mean() ≤ hi + 11·n·u·M` - the same constant as for
  `Mean`, `Variance`, ... in `Props.C17b`; hull form with `12·n·u·max(|lo|,|hi|)`.
* `WeightedMean::mean`, `WeightedMeanWithError::weighted_mean`: weights `≥ 0` with positive sum, the
  observations *with positive weight* in `[lo, hi]` and `|x| ≤ M` (zero-weight samples unrestricted),
  `n·u ≤ 1/64`: `lo - 8·n·u·M ≤ mean() ≤ hi + 8·n·u·M`; hull form with `8·n·u·max(|lo|,|hi|)`.
  (`n` counts all observations, zero weights included: each one still rounds the weight sum once.)

`FloatOps (RF2 r)`: arbitrary for `define_moments!` (`nan` only occurs in the guarded branch `n = 0`);
for the weighted means any instance whose `==` compares the values (`ValEqb r`).

Derived from `Props.C04b.moments_mean_mtree_forward_error`, `Props.C08b.weighted_mean_mtree_forward_error`
and the exact facts `mean_mem_range`, `weighted_mean_mem_range`.
-/
open Avg MSpec

namespace Props.C17c
variable {F : Type} [Field F] [LinearOrder F] [IsStrictOrderedRing F] {r : Rnd2 F}

/-! ## `define_moments!` -/

/-- **`define_moments!`, every order, every merge tree.** All `n ≥ 1` observations in `[lo, hi]` with
`|x| ≤ M`, `n·u ≤ 1/64`: the stored mean lies in `[lo - 11·n·u·M, hi + 11·n·u·M]`. -/
theorem moments_mtree_avg_in_range (r : Rnd2 F) [Neg (RF2 r)] (N : Nat) (M lo hi : F) (hM : 0 ≤ M)
    (t : MTree (RF2 r)) (hne : t.flatten ≠ []) (hb : ∀ x ∈ t.flatten, |x.val| ≤ M)
    (hr : ∀ x ∈ t.flatten, lo ≤ x.val ∧ x.val ≤ hi)
    (hsmall : (t.flatten.length : F) * r.u ≤ 1/64) :
    lo - 11 * (t.flatten.length : F) * r.u * M ≤ (Moments.evalTree N t).avg.val ∧
    (Moments.evalTree N t).avg.val ≤ hi + 11 * (t.flatten.length : F) * r.u * M := by
  have he := (moments_mean_mtree_error r N M hM t hb hsmall).2
  have hm : lo ≤ meanK (t.flatten.map RF2.val) ∧ meanK (t.flatten.map RF2.val) ≤ hi :=
    mean_mem_range (t.flatten.map RF2.val) (by simpa using hne) (by
      intro x hx; rw [List.mem_map] at hx; obtain ⟨z, hz, rfl⟩ := hx; exact hr z hz)
  have hc : 11 * r.u * M * (t.flatten.length : F) = 11 * (t.flatten.length : F) * r.u * M := by ring
  rw [hc] at he
  obtain ⟨h1, h2⟩ := abs_le.mp he
  constructor <;> linarith [hm.1, hm.2]

/-- The same for what `mean()` returns (the guard `n > 0` holds because the count is exact). -/
theorem moments_mtree_mean_in_range [Neg (RF2 r)] [FloatOps (RF2 r)] (N : Nat) (M lo hi : F)
    (hM : 0 ≤ M) (t : MTree (RF2 r)) (hne : t.flatten ≠ []) (hb : ∀ x ∈ t.flatten, |x.val| ≤ M)
    (hr : ∀ x ∈ t.flatten, lo ≤ x.val ∧ x.val ≤ hi)
    (hsmall : (t.flatten.length : F) * r.u ≤ 1/64) :
    lo - 11 * (t.flatten.length : F) * r.u * M ≤ (Moments.evalTree N t).mean.val ∧
    (Moments.evalTree N t).mean.val ≤ hi + 11 * (t.flatten.length : F) * r.u * M := by
  have hn : 0 < (Moments.evalTree N t).n := by
    rw [(moments_mean_mtree_error r N M hM t hb hsmall).1]; exact List.length_pos_of_ne_nil hne
  have : (Moments.evalTree N t).mean = (Moments.evalTree N t).avg := by
    simp only [Moments.mean, gt_iff_lt, hn, if_true]
  rw [this]
  exact moments_mtree_avg_in_range r N M lo hi hM t hne hb hr hsmall

/-- With `M = max |lo| |hi|` (no separate magnitude bound needed), in the form `C·n·u·max|x|` of the
property with `C = 12`. -/
theorem moments_mtree_mean_in_hull [Neg (RF2 r)] [FloatOps (RF2 r)] (N : Nat) (lo hi : F)
    (t : MTree (RF2 r)) (hne : t.flatten ≠ []) (hr : ∀ x ∈ t.flatten, lo ≤ x.val ∧ x.val ≤ hi)
    (hsmall : (t.flatten.length : F) * r.u ≤ 1/64) :
    lo - 12 * (t.flatten.length : F) * r.u * max |lo| |hi| ≤ (Moments.evalTree N t).mean.val ∧
    (Moments.evalTree N t).mean.val ≤ hi + 12 * (t.flatten.length : F) * r.u * max |lo| |hi| := by
  have hM : 0 ≤ max |lo| |hi| := le_trans (abs_nonneg lo) (le_max_left _ _)
  obtain ⟨h1, h2⟩ := moments_mtree_mean_in_range N (max |lo| |hi|) lo hi hM t hne
    (fun x hx => abs_le_max_abs_abs (hr x hx).1 (hr x hx).2) hr hsmall
  have h : 0 ≤ (t.flatten.length : F) * r.u * max |lo| |hi| :=
    mul_nonneg (mul_nonneg (Nat.cast_nonneg _) r.u_nonneg) hM
  constructor <;> linarith

/-! ## weighted means -/

/-- the exact weighted mean lies in the hull of the observations with positive weight -/
theorem exact_weighted_mean_in_range {lo hi : F} (ps : List (RF2 r × RF2 r))
    (hw : ∀ p ∈ ps, 0 ≤ p.2.val) (hr : ∀ p ∈ ps, 0 < p.2.val → lo ≤ p.1.val ∧ p.1.val ≤ hi)
    (hpos : 0 < W (pairVals ps)) :
    lo ≤ WX (pairVals ps) / W (pairVals ps) ∧ WX (pairVals ps) / W (pairVals ps) ≤ hi := by
  have := weighted_mean_mem_range (lo := lo) (hi := hi) (pairVals ps) (by
    intro q hq
    rw [pairVals, List.mem_map] at hq
    obtain ⟨p, hp, rfl⟩ := hq
    exact ⟨hw p hp, hr p hp⟩) hpos
  exact this

/-- **`WeightedMean`, every merge tree.** Weights `≥ 0` with positive sum; the observations with
positive weight lie in `[lo, hi]` and have `|x| ≤ M`; `n·u ≤ 1/64` for the number `n` of all
observations: `lo - 8·n·u·M ≤ mean() ≤ hi + 8·n·u·M`. -/
theorem weighted_mean_mtree_in_range [FloatOps (RF2 r)] (heq : ValEqb r) (M lo hi : F) (hM : 0 ≤ M)
    (t : MTree (RF2 r × RF2 r)) (hobs : ∀ p ∈ t.flatten, WObs M (p.1.val, p.2.val))
    (hr : ∀ p ∈ t.flatten, 0 < p.2.val → lo ≤ p.1.val ∧ p.1.val ≤ hi)
    (hsmall : (t.flatten.length : F) * r.u ≤ 1/64) (hpos : 0 < W (pairVals t.flatten)) :
    lo - 8 * (t.flatten.length : F) * r.u * M ≤ (WeightedMean.evalTree t).mean.val ∧
    (WeightedMean.evalTree t).mean.val ≤ hi + 8 * (t.flatten.length : F) * r.u * M := by
  obtain ⟨h1, _, h3⟩ := wmean_mtree_error heq hM t hobs hsmall hpos
  rw [WeightedMean.mean_of_pos heq _ h1]
  have hm := exact_weighted_mean_in_range t.flatten (fun p hp => (hobs p hp).1) hr hpos
  have hc : 8 * r.u * M * (t.flatten.length : F) = 8 * (t.flatten.length : F) * r.u * M := by ring
  rw [hc] at h3
  obtain ⟨e1, e2⟩ := abs_le.mp h3
  constructor <;> linarith [hm.1, hm.2]

/-- With `M = max |lo| |hi|` (no separate magnitude bound): weights `≥ 0` with positive sum, the
observations with positive weight in `[lo, hi]`, `n·u ≤ 1/64`:
`lo - 8·n·u·max(|lo|,|hi|) ≤ mean() ≤ hi + 8·n·u·max(|lo|,|hi|)`. -/
theorem weighted_mean_mtree_in_hull [FloatOps (RF2 r)] (heq : ValEqb r) (lo hi : F)
    (t : MTree (RF2 r × RF2 r)) (hw : ∀ p ∈ t.flatten, 0 ≤ p.2.val)
    (hr : ∀ p ∈ t.flatten, 0 < p.2.val → lo ≤ p.1.val ∧ p.1.val ≤ hi)
    (hsmall : (t.flatten.length : F) * r.u ≤ 1/64) (hpos : 0 < W (pairVals t.flatten)) :
    lo - 8 * (t.flatten.length : F) * r.u * max |lo| |hi| ≤ (WeightedMean.evalTree t).mean.val ∧
    (WeightedMean.evalTree t).mean.val ≤ hi + 8 * (t.flatten.length : F) * r.u * max |lo| |hi| := by
  have hM : 0 ≤ max |lo| |hi| := le_trans (abs_nonneg lo) (le_max_left _ _)
  exact weighted_mean_mtree_in_range heq (max |lo| |hi|) lo hi hM t
    (fun p hp => ⟨hw p hp, fun h => abs_le_max_abs_abs (hr p hp h).1 (hr p hp h).2⟩) hr hsmall hpos

/-- **`WeightedMeanWithError`, every merge tree**: the same for its `weighted_mean()`. -/
theorem wmwe_weighted_mean_mtree_in_range [FloatOps (RF2 r)] (heq : ValEqb r) (M lo hi : F) (hM : 0 ≤ M)
    (t : MTree (RF2 r × RF2 r)) (hobs : ∀ p ∈ t.flatten, WObs M (p.1.val, p.2.val))
    (hr : ∀ p ∈ t.flatten, 0 < p.2.val → lo ≤ p.1.val ∧ p.1.val ≤ hi)
    (hsmall : (t.flatten.length : F) * r.u ≤ 1/64) (hpos : 0 < W (pairVals t.flatten)) :
    lo - 8 * (t.flatten.length : F) * r.u * M ≤ (WeightedMeanWithError.evalTree t).weightedMean.val ∧
    (WeightedMeanWithError.evalTree t).weightedMean.val ≤ hi + 8 * (t.flatten.length : F) * r.u * M := by
  unfold WeightedMeanWithError.weightedMean
  rw [WeightedMeanWithError.mtree_weighted_avg]
  exact weighted_mean_mtree_in_range heq M lo hi hM t hobs hr hsmall hpos

/-- `WeightedMeanWithError`, hull form. -/
theorem wmwe_weighted_mean_mtree_in_hull [FloatOps (RF2 r)] (heq : ValEqb r) (lo hi : F)
    (t : MTree (RF2 r × RF2 r)) (hw : ∀ p ∈ t.flatten, 0 ≤ p.2.val)
    (hr : ∀ p ∈ t.flatten, 0 < p.2.val → lo ≤ p.1.val ∧ p.1.val ≤ hi)
    (hsmall : (t.flatten.length : F) * r.u ≤ 1/64) (hpos : 0 < W (pairVals t.flatten)) :
    lo - 8 * (t.flatten.length : F) * r.u * max |lo| |hi|
      ≤ (WeightedMeanWithError.evalTree t).weightedMean.val ∧
    (WeightedMeanWithError.evalTree t).weightedMean.val
      ≤ hi + 8 * (t.flatten.length : F) * r.u * max |lo| |hi| := by
  unfold WeightedMeanWithError.weightedMean
  rw [WeightedMeanWithError.mtree_weighted_avg]
  exact weighted_mean_mtree_in_hull heq lo hi t hw hr hsmall hpos

/-! ## Non-vacuity -/

/-- a rounding that is never exact (except at 0): always moves away from zero by the full relative
amount `u = 2^-53` -/
def awayRnd : Rnd2 ℚ :=
  ⟨fun t => t * (1 + 1/2^53), 1/2^53, by norm_num, fun t => by
    have : t * (1 + 1/2^53) - t = (1/2^53) * t := by ring
    rw [this, abs_mul, abs_of_pos (by norm_num : (0:ℚ) < 1/2^53)]⟩

/-- a tree with a nested merge, an empty chunk in the middle and unequal chunk sizes; data in `[-6, 3]` -/
def exTree : MTree (RF2 awayRnd) :=
  .node (.leaf [⟨1⟩, ⟨2⟩, ⟨-6⟩]) (.node (.leaf []) (.leaf [⟨3⟩]))

/-- `define_moments!`: the hypotheses are met by `exTree` with `lo = -6`, `hi = 3`, `M = 6`, `u = 2^-53` -/
example : exTree.flatten ≠ [] ∧ (∀ x ∈ exTree.flatten, |x.val| ≤ 6)
    ∧ (∀ x ∈ exTree.flatten, -6 ≤ x.val ∧ x.val ≤ 3)
    ∧ (exTree.flatten.length : ℚ) * awayRnd.u ≤ 1/64 := by
  refine ⟨by simp [exTree, MTree.flatten], ?_, ?_, by norm_num [exTree, MTree.flatten, awayRnd]⟩
  · intro x hx
    simp only [exTree, MTree.flatten, List.nil_append, List.mem_append, List.mem_cons,
      List.not_mem_nil, or_false] at hx
    rcases hx with (rfl | rfl | rfl) | rfl <;> norm_num
  · intro x hx
    simp only [exTree, MTree.flatten, List.nil_append, List.mem_append, List.mem_cons,
      List.not_mem_nil, or_false] at hx
    rcases hx with (rfl | rfl | rfl) | rfl <;> norm_num

/-- weighted observations: a leading zero-weight observation whose sample `1000` is far outside
`[lo, hi] = [-6, 3]`, an empty chunk, a non-integer weight -/
def exWTree : MTree (RF2 awayRnd × RF2 awayRnd) :=
  .node (.leaf [(⟨1000⟩, ⟨0⟩), (⟨1⟩, ⟨2⟩), (⟨-6⟩, ⟨1⟩)]) (.node (.leaf []) (.leaf [(⟨3⟩, ⟨1/2⟩)]))

/-- weighted means: the hypotheses of the hull form are met by `exWTree` with `lo = -6`, `hi = 3`,
`u = 2^-53`, with the `FloatOps` instance `rf2FloatOps` (comparisons of the values) -/
example : @ValEqb ℚ _ _ _ awayRnd (rf2FloatOps awayRnd) ∧ (∀ p ∈ exWTree.flatten, 0 ≤ p.2.val)
    ∧ (∀ p ∈ exWTree.flatten, 0 < p.2.val → -6 ≤ p.1.val ∧ p.1.val ≤ 3)
    ∧ (exWTree.flatten.length : ℚ) * awayRnd.u ≤ 1/64 ∧ 0 < W (pairVals exWTree.flatten) := by
  refine ⟨rf2FloatOps_valEqb awayRnd, ?_, ?_, by norm_num [exWTree, MTree.flatten, awayRnd],
    by norm_num [exWTree, MTree.flatten, pairVals, W]⟩
  · intro p hp
    simp only [exWTree, MTree.flatten, List.nil_append, List.mem_append, List.mem_cons,
      List.not_mem_nil, or_false] at hp
    rcases hp with (rfl | rfl | rfl) | rfl <;> norm_num
  · intro p hp
    simp only [exWTree, MTree.flatten, List.nil_append, List.mem_append, List.mem_cons,
      List.not_mem_nil, or_false] at hp
    rcases hp with (rfl | rfl | rfl) | rfl <;> norm_num

end Props.C17c

#print axioms Props.C17c.moments_mtree_avg_in_range
#print axioms Props.C17c.moments_mtree_mean_in_range
#print axioms Props.C17c.moments_mtree_mean_in_hull
#print axioms Props.C17c.exact_weighted_mean_in_range
#print axioms Props.C17c.weighted_mean_mtree_in_range
#print axioms Props.C17c.weighted_mean_mtree_in_hull
#print axioms Props.C17c.wmwe_weighted_mean_mtree_in_range
#print axioms Props.C17c.wmwe_weighted_mean_mtree_in_hull
