import AvgProofs.HistCarrier
import AvgProofs.HistAdd
import AvgProofs.HistMerge
import Mathlib.Tactic.Ring
import Mathlib.Algebra.Field.Basic

/-!
# C13 - histogram merge, `+=`, `*=`, reset and views are exact bin-wise operations

All statements hold for every carrier (`FloatOps` instance, arbitrary arithmetic) unless a section
says otherwise; counts are natural numbers (`u64` overflow is outside the model). The model's
`merge`/`addAssign` are pure functions returning the new left operand, so "neither operand is
modified when the assertion fails" is the fact that the result is `.panic` (no new state exists)
and the right operand is never an output at all.
-/
open Avg

namespace Props.C13

/-! ## merge and `+=` -/
section any
variable {α : Type} [FloatOps α]

/-- `+=` and `merge` are the same function. -/
theorem addAssign_eq_merge (a b : Hist α) : a.addAssign b = a.merge b := rfl

/-- What the edge assertion checks: `==` on the two edges at every common position. -/
theorem sameRanges_iff (a b : Hist α) :
    a.sameRanges b = true ↔
      ∀ (i : Nat) (x y : α), a.range[i]? = some x → b.range[i]? = some y → FloatOps.eqb x y = true :=
  Avg.sameRanges_iff a b

/-- Edges equal: the result keeps the edges and its counts are the bin-wise sums; with the same
number of bins on both sides (always so in Rust) nothing is truncated and every count is
`a.bin[j] + b.bin[j]`. -/
theorem merge_same (a b : Hist α) (hs : a.sameRanges b = true) (hl : a.bin.length = b.bin.length) :
    a.merge b = .val ⟨a.range, List.zipWith (· + ·) a.bin b.bin⟩
    ∧ (List.zipWith (· + ·) a.bin b.bin).length = a.bin.length
    ∧ ∀ j, (List.zipWith (· + ·) a.bin b.bin).getD j 0 = a.bin.getD j 0 + b.bin.getD j 0 :=
  ⟨merge_of_same a b hs, by simp [hl], zipWith_add_getD a.bin b.bin hl⟩

/-- Edges different: both `merge` and `+=` panic (the assertion precedes any mutation). -/
theorem merge_mismatch (a b : Hist α) (hs : a.sameRanges b = false) :
    a.merge b = .panic ∧ a.addAssign b = .panic :=
  ⟨merge_of_not_same a b hs, merge_of_not_same a b hs⟩

/-- ... and these are the only two cases: `merge` panics exactly when the assertion fails. -/
theorem merge_panic_iff (a b : Hist α) : a.merge b = .panic ↔ a.sameRanges b = false := by
  cases hs : a.sameRanges b with
  | true => simp [merge_of_same a b hs]
  | false => simp [merge_of_not_same a b hs]

/-- The total of a merge is the sum of the totals. -/
theorem merge_total (a b : Hist α) (hs : a.sameRanges b = true) (hl : a.bin.length = b.bin.length)
    (m : Hist α) (hm : a.merge b = .val m) : m.total = a.total + b.total := by
  rw [merge_of_same a b hs] at hm
  cases hm
  rw [total_eq_sum, total_eq_sum, total_eq_sum]
  exact sum_zipWith_add a.bin b.bin hl

/-- Commutative on the counts: when the assertion holds both ways round, `a.merge(b)` and
`b.merge(a)` have the same counts (each keeps its own left operand's edges, which are `==`). -/
theorem merge_comm_counts (a b : Hist α) (hab : a.sameRanges b = true) (hba : b.sameRanges a = true) :
    ∃ m m', a.merge b = .val m ∧ b.merge a = .val m' ∧ m.bin = m'.bin
      ∧ m.range = a.range ∧ m'.range = b.range :=
  ⟨_, _, merge_of_same a b hab, merge_of_same b a hba, zipWith_add_comm a.bin b.bin, rfl, rfl⟩

/-- Associative: when the three edge assertions hold, `(a.merge b).merge c = a.merge (b.merge c)`. -/
theorem merge_assoc (a b c : Hist α) (hab : a.sameRanges b = true) (hbc : b.sameRanges c = true)
    (hac : a.sameRanges c = true) :
    ∃ ab bc abc, a.merge b = .val ab ∧ b.merge c = .val bc ∧ ab.merge c = .val abc
      ∧ a.merge bc = .val abc := by
  have e1 : (⟨a.range, List.zipWith (· + ·) a.bin b.bin⟩ : Hist α).sameRanges c = true :=
    (sameRanges_congr _ a c c rfl rfl).trans hac
  have e2 : a.sameRanges (⟨b.range, List.zipWith (· + ·) b.bin c.bin⟩ : Hist α) = true :=
    (sameRanges_congr a a _ b rfl rfl).trans hab
  refine ⟨⟨a.range, List.zipWith (· + ·) a.bin b.bin⟩, ⟨b.range, List.zipWith (· + ·) b.bin c.bin⟩,
    ⟨a.range, List.zipWith (· + ·) (List.zipWith (· + ·) a.bin b.bin) c.bin⟩,
    merge_of_same a b hab, merge_of_same b c hbc, merge_of_same _ c e1, ?_⟩
  rw [merge_of_same a _ e2]
  simp only [zipWith_add_assoc]

/-- **Merging = histogram of the concatenated samples.** For any histogram `h` whose edges satisfy
`e == e` (no NaN edge): the histogram after `xs`, merged with the histogram obtained by counting
`ys` from zero over the same edges, is the histogram after `xs ++ ys`. Rejected samples are ignored
on both sides. -/
theorem merge_addAll (h : Hist α) (hs : h.sameRanges h = true) (xs ys : List α) :
    (h.addAll xs).merge (h.reset.addAll ys) = .val (h.addAll (xs ++ ys)) :=
  Avg.merge_addAll h hs xs ys

/-- In particular, starting from zero counts: `hist(xs).merge(hist(ys)) = hist(xs ++ ys)`, and each
count of it is the number of samples of `xs ++ ys` that `find` maps to that bin. -/
theorem merge_is_histogram_of_concatenation (h0 : Hist α) (n : Nat) (hz : h0.bin = List.replicate n 0)
    (hs : h0.sameRanges h0 = true) (xs ys : List α) :
    (h0.addAll xs).merge (h0.addAll ys) = .val (h0.addAll (xs ++ ys))
    ∧ ∀ j, j < n → (h0.addAll (xs ++ ys)).bin.getD j 0
        = (xs ++ ys).countP (fun x => decide (h0.find x = .ok j)) := by
  constructor
  · have := Avg.merge_addAll h0 hs xs ys
    rwa [reset_of_zero h0 n hz] at this
  · intro j hj
    rw [addAll_getD, hz]
    simp [List.getD_eq_getElem?_getD, hj]

end any

section ord
variable {K : Type} [LinearOrder K] [FloatOps K] [OrdLawful K]

/-- Over the non-NaN values the assertion says: the two edge lists agree on their common prefix
(`zip` stops at the shorter list) ... -/
theorem sameRanges_iff_prefix (a b : Hist K) :
    a.sameRanges b = true ↔ a.range.take b.range.length = b.range.take a.range.length :=
  sameRanges_iff_take a b

/-- ... which for edge lists of equal length - the only case the Rust types allow - is equality. -/
theorem sameRanges_iff_eq (a b : Hist K) (hl : a.range.length = b.range.length) :
    a.sameRanges b = true ↔ a.range = b.range :=
  Avg.sameRanges_iff_eq a b hl

/-- `merge` is commutative (same value or both panic) for histograms with the same number of edges
and bins... -/
theorem merge_comm (a b : Hist K) (hl : a.range.length = b.range.length) : a.merge b = b.merge a := by
  by_cases he : a.range = b.range
  · rw [merge_of_same a b ((Avg.sameRanges_iff_eq a b hl).mpr he),
      merge_of_same b a ((Avg.sameRanges_iff_eq b a hl.symm).mpr he.symm), he, zipWith_add_comm]
  · have h1 : a.sameRanges b = false := by
      rw [← Bool.not_eq_true, Avg.sameRanges_iff_eq a b hl]; exact he
    have h2 : b.sameRanges a = false := by
      rw [← Bool.not_eq_true, Avg.sameRanges_iff_eq b a hl.symm]; exact fun e => he e.symm
    rw [merge_of_not_same a b h1, merge_of_not_same b a h2]

/-- ... and associative for three histograms over the same edges. -/
theorem merge_assoc_same_edges (a b c : Hist K) (hab : a.range = b.range) (hbc : b.range = c.range) :
    ∃ ab bc abc, a.merge b = .val ab ∧ b.merge c = .val bc ∧ ab.merge c = .val abc
      ∧ a.merge bc = .val abc
      ∧ abc = ⟨a.range, List.zipWith (· + ·) (List.zipWith (· + ·) a.bin b.bin) c.bin⟩ := by
  have s1 := (Avg.sameRanges_iff_eq a b (by rw [hab])).mpr hab
  have s2 := (Avg.sameRanges_iff_eq b c (by rw [hbc])).mpr hbc
  have s3 := (Avg.sameRanges_iff_eq a c (by rw [hab, hbc])).mpr (hab.trans hbc)
  have e1 : (⟨a.range, List.zipWith (· + ·) a.bin b.bin⟩ : Hist K).sameRanges c = true :=
    (sameRanges_congr _ a c c rfl rfl).trans s3
  have e2 : a.sameRanges (⟨b.range, List.zipWith (· + ·) b.bin c.bin⟩ : Hist K) = true :=
    (sameRanges_congr a a _ b rfl rfl).trans s1
  refine ⟨⟨a.range, List.zipWith (· + ·) a.bin b.bin⟩, ⟨b.range, List.zipWith (· + ·) b.bin c.bin⟩,
    ⟨a.range, List.zipWith (· + ·) (List.zipWith (· + ·) a.bin b.bin) c.bin⟩,
    merge_of_same a b s1, merge_of_same b c s2, merge_of_same _ c e1, ?_, rfl⟩
  rw [merge_of_same a _ e2]
  simp only [zipWith_add_assoc]

/-- Over the non-NaN values every histogram may be merged with histograms over its own edges. -/
theorem merge_concatenation_ord (h0 : Hist K) (n : Nat) (hz : h0.bin = List.replicate n 0)
    (xs ys : List K) : (h0.addAll xs).merge (h0.addAll ys) = .val (h0.addAll (xs ++ ys)) :=
  (merge_is_histogram_of_concatenation h0 n hz (sameRanges_self h0) xs ys).1

end ord

/-! ## `*=`, reset, iteration -/
section simple
variable {α : Type}

/-- `*= k` multiplies every count by `k` and keeps the edges. -/
theorem mulAssign_spec (a : Hist α) (k : Nat) :
    (a.mulAssign k).range = a.range ∧ (a.mulAssign k).bin.length = a.bin.length
    ∧ ∀ j, j < a.bin.length → (a.mulAssign k).bin.getD j 0 = a.bin.getD j 0 * k := by
  refine ⟨rfl, by simp [Hist.mulAssign], ?_⟩
  intro j hj
  simp [Hist.mulAssign, List.getD_eq_getElem?_getD, hj]

/-- `reset` zeroes every count and keeps the edges and the number of bins (so the histogram can be
reused: `find` is unchanged by `find_congr`). -/
theorem reset_spec (a : Hist α) :
    a.reset.range = a.range ∧ a.reset.bin = List.replicate a.bin.length 0
    ∧ a.reset.bin.length = a.bin.length ∧ a.reset.total = 0 := by
  refine ⟨rfl, rfl, by simp [Hist.reset], ?_⟩
  rw [total_eq_sum]; simp [Hist.reset]

variable [FloatOps α]

/-- `find` after `reset` is `find` before. -/
theorem reset_find (a : Hist α) (x : α) : a.reset.find x = a.find x :=
  find_congr a.reset a rfl (by simp [Hist.reset]) x

/-- `iter()` yields exactly `LEN` items; item `i` is `((range[i], range[i+1]), bin[i])`, all three
in-bounds array reads when there are `LEN+1` edges (the `getD` defaults of the model are not used). -/
theorem iter_spec (h : Hist α) (hl : h.range.length = h.bin.length + 1) :
    h.iter.length = h.bin.length ∧
    ∀ (i : Nat) (hi : i < h.bin.length),
      h.iter[i]? = some ((h.range[i]'(by omega), h.range[i+1]'(by omega)), h.bin[i]) :=
  ⟨iter_length h, fun i hi => iter_getElem? h hl i hi⟩

end simple

/-! ## derived views -/
section views
variable {α : Type} [Add α] [Sub α] [Mul α] [Div α] [NatCast α] [FloatOps α]

/-- The views are `iter()` mapped with `upper - lower`, `0.5 * (lower + upper)` (the constant being
`1/2` computed in the carrier), `count / (upper - lower)` and the multinomial variance. -/
theorem views_are_maps (h : Hist α) :
    h.widths = h.iter.map (fun p => p.1.2 - p.1.1)
    ∧ h.centers = h.iter.map (fun p => ((1:Nat):α) / ((2:Nat):α) * (p.1.1 + p.1.2))
    ∧ h.normalizedBins = h.iter.map (fun p => ((p.2 : Nat) : α) / (p.1.2 - p.1.1))
    ∧ h.variances = h.iter.map
        (fun p => multinomialVariance ((p.2 : Nat) : α) (((1:Nat):α) / ((h.total : Nat) : α))) :=
  ⟨rfl, rfl, rfl, rfl⟩

/-- Entry `i` of each view in terms of the edges and counts (`LEN+1` edges, `i < LEN`). -/
theorem views_getElem (h : Hist α) (hl : h.range.length = h.bin.length + 1) (i : Nat)
    (hi : i < h.bin.length) :
    h.widths[i]? = some (h.range[i+1]'(by omega) - h.range[i]'(by omega))
    ∧ h.centers[i]? = some (((1:Nat):α) / ((2:Nat):α) * (h.range[i]'(by omega) + h.range[i+1]'(by omega)))
    ∧ h.normalizedBins[i]? = some (((h.bin[i] : Nat) : α) / (h.range[i+1]'(by omega) - h.range[i]'(by omega)))
    ∧ h.variances[i]? = some (((h.bin[i] : Nat) : α)
        * (((1:Nat):α) - ((h.bin[i] : Nat) : α) * (((1:Nat):α) / ((h.total : Nat) : α)))) := by
  have := iter_getElem? h hl i hi
  simp [Hist.widths, Hist.centers, Hist.normalizedBins, Hist.variances, List.getElem?_map, this,
    multinomialVariance]

/-- Each view has one entry per bin. -/
theorem views_length (h : Hist α) :
    h.widths.length = h.bin.length ∧ h.centers.length = h.bin.length
    ∧ h.normalizedBins.length = h.bin.length ∧ h.variances.length = h.bin.length := by
  simp [Hist.widths, Hist.centers, Hist.normalizedBins, Hist.variances, iter_length]

omit [Add α] in
/-- `variance(i)` and `variances()` agree: `variance(i)` is entry `i` of `variances()` for `i < LEN`
(the same expression, so bit for bit on any carrier) and an index panic for `i ≥ LEN`. -/
theorem variance_eq_variances (h : Hist α) (i : Nat) :
    h.variance i = match h.variances[i]? with
      | some v => .val v
      | none => .panic :=
  Avg.variance_eq_variances h i

end views

section field
variable {F : Type} [Field F]

/-- In a field of characteristic ≠ 2 the centre constant is one half: the centre is `(lower+upper)/2`. -/
theorem center_field (a b : F) : ((1:Nat):F) / ((2:Nat):F) * (a + b) = (a + b) / 2 := by
  push_cast; ring

end field

/-! ## non-vacuity -/
section examples
local instance : FloatOps Int := histFloatOps 0
local instance : OrdLawful Int := histFloatOps_lawful 0

/-- two histograms over the edges `0,1,1,2` -/
example : (⟨[0, 1, 1, 2], [1, 0, 2]⟩ : Hist Int).merge ⟨[0, 1, 1, 2], [3, 0, 4]⟩
    = .val ⟨[0, 1, 1, 2], [4, 0, 6]⟩ :=
  (merge_same (⟨[0, 1, 1, 2], [1, 0, 2]⟩ : Hist Int) ⟨[0, 1, 1, 2], [3, 0, 4]⟩
    ((sameRanges_iff_eq _ _ rfl).mpr rfl) rfl).1

/-- different edges: panic -/
example : (⟨[0, 1, 1, 2], [1, 0, 2]⟩ : Hist Int).merge ⟨[0, 1, 2, 2], [3, 0, 4]⟩ = .panic :=
  (merge_panic_iff _ _).mpr (by
    rw [← Bool.not_eq_true,
      sameRanges_iff_eq (⟨[0, 1, 1, 2], [1, 0, 2]⟩ : Hist Int) ⟨[0, 1, 2, 2], [3, 0, 4]⟩ rfl]; decide)

end examples

end Props.C13

#print axioms Props.C13.addAssign_eq_merge
#print axioms Props.C13.sameRanges_iff
#print axioms Props.C13.merge_same
#print axioms Props.C13.merge_mismatch
#print axioms Props.C13.merge_panic_iff
#print axioms Props.C13.merge_total
#print axioms Props.C13.merge_comm_counts
#print axioms Props.C13.merge_assoc
#print axioms Props.C13.merge_addAll
#print axioms Props.C13.merge_is_histogram_of_concatenation
#print axioms Props.C13.sameRanges_iff_prefix
#print axioms Props.C13.sameRanges_iff_eq
#print axioms Props.C13.merge_comm
#print axioms Props.C13.merge_assoc_same_edges
#print axioms Props.C13.merge_concatenation_ord
#print axioms Props.C13.mulAssign_spec
#print axioms Props.C13.reset_spec
#print axioms Props.C13.reset_find
#print axioms Props.C13.iter_spec
#print axioms Props.C13.views_are_maps
#print axioms Props.C13.views_getElem
#print axioms Props.C13.views_length
#print axioms Props.C13.variance_eq_variances
#print axioms Props.C13.center_field
