import AvgProofs.VarErrAccess
import Mathlib.Analysis.Real.Sqrt
import Mathlib.Tactic.NormNum

/-!
# C01 (addendum) - forward error of the variance, all stream lengths, linear in the conditioning

The envelope clause of C01 for the variance family, *proved* for add-only streams.

Carrier **R2** (`RF2 r`, `AvgProofs/MeanErr2.lean`): an ordered field `F` in which every `+ - * /` is
followed by a rounding `r.fl` with `|fl t - t| ≤ u·|t|` (standard model of floating-point arithmetic: no
overflow, no underflow); conversions of counts are exact (`n < 2^53`). Notation: `n` the number of
observations, `M ≥ max|x_i|`, `mean vs = Σx/n`, `T vs = Σ(x - mean)²` (`VarSpec.T`; by
`Props.C01.variance_fold` this is what `sum_2` holds in exact arithmetic), `var = T/n`.

What `Variance.add` computes for `sum_2` (seven rounded operations per observation, two of them shared
with the update of the mean, `sum2_computed_update`):
`S_k = fl(S_{k-1} + fl(fl(fl(δ·δ)·k)·fl(k-1)))`, `δ = fl(fl(x_k - a)/k)`, `a` the computed mean before the
step. Note that `k - 1` is itself a rounded subtraction of two exactly converted counts; it is treated as
rounded. The exact quantity obeys `T_k = T_{k-1} + (x_k - mean_{k-1})²·(k-1)/k` (`sum2_exact_recurrence`).

Main results (`u` the unit roundoff, `R₀ = sqrt(n·T) = n·σ`, `σ = sqrt(var)`):

* `sum2_forward_error`:  `n·u ≤ 1/64` ⟹ `|sum_2 - T| ≤ 10·n·u·T + 14·n·u·M·R₀ + 41·n³·u²·M²`.
* `sum2_forward_error_sharp_int`:  `(n+28)·u ≤ 1/64` ⟹ `|sum_2 - T| ≤ 6·n·u·T + 4·n·u·M·R₀ + 4·n³·u²·M²`
  (`sum2_forward_error_sharp`: `109/20, 79/20, 15/4`; `sum2_forward_error_sharp_symbolic`: symbolic in `u`,
  first-order coefficients `1` and `1/√3` for large `n`).
* `population_variance_forward_error`:  `|population_variance - var| ≤ 6·n·u·var + 4·n·u·M·σ + 4·n²·u²·M²`,
  and `≤ 8·n·κ·u·var`, `κ = 1 + M/σ`, when `n·u·M ≤ σ` (`population_variance_envelope`): the bound is
  **linear** in the conditioning `κ`, and sits inside the checked envelope of DESIGN.md section 5
  (constant 8). The second-order term `n²u²M²` is genuine in the worst case (it is the square of the error
  `≈ n·u·M/2` of the running mean) and is stated, not hidden.
* `sample_variance_forward_error`: `6·n·u·s² + 8·n·u·M·σ + 8·n²·u²·M²`.

How: the error of the computed mean `e = a - mean_{k-1}` perturbs the increment by
`(-2e(x_k - mean_{k-1}) + e²)(k-1)/k`, which involves the *deviation* `x_k - mean_{k-1}`, not `x_k`; the sum
of `|e_{k-1}|·|x_k - mean_{k-1}|·(k-1)/k` is bounded by Cauchy-Schwarz against
`Σ (x_k - mean_{k-1})²(k-1)/k = T`. The eight roundings of the increment cost `γ = (1+u)^8 - 1` *once*
(relative to `T`, not `n` times), the final addition costs `u·T_k` per step.

Not covered: merge trees (only the mean is proved there, `Props.C02b`), `variance_of_mean`/`error`
(two more roundings and a square root), higher moments.
-/
open Avg MSpec Finset VarSpec VarErr

namespace Props.C01b

/-! ## the count is exact; the exact recurrence; signs -/

/-- Any carrier: the count kept by `Variance` after adding the observations one at a time is the number
of observations (no arithmetic of the carrier is involved). -/
theorem count_exact {α : Type} [Add α] [Sub α] [Mul α] [Div α] [NatCast α] (xs : List α) :
    (xs.foldl Variance.add Variance.new).avg.n = xs.length :=
  Variance.fold_n_ve xs

variable {F : Type} [Field F] [LinearOrder F] [IsStrictOrderedRing F]

omit [LinearOrder F] [IsStrictOrderedRing F] in
/-- `T` is the exact sum of squared deviations from the exact mean. -/
theorem T_def (vs : List F) : T vs = sumPow vs (mean vs) 2 := rfl

/-- Exact recurrence of the sum of squares: one more observation `x` after `n` observations `vs` adds
`(x - mean vs)²·n/(n+1)`. -/
theorem sum2_exact_recurrence (vs : List F) (x : F) :
    T (vs ++ [x]) = T vs + (x - mean vs)^2 * ((vs.length : F) / ((vs.length : F) + 1)) :=
  T_snoc vs x

/-- The exact increment is non-negative, so the exact sum of squares is non-negative and never
decreases when an observation is added. -/
theorem sum2_exact_signs (vs : List F) (x : F) :
    0 ≤ (x - mean vs)^2 * ((vs.length : F) / ((vs.length : F) + 1)) ∧ 0 ≤ T vs ∧ T vs ≤ T (vs ++ [x]) :=
  ⟨incr_nonneg vs x, T_nonneg vs, T_mono vs x⟩

/-- The exact sum of squares is the sum of the exact increments:
`T = Σ_{i<n} (x_i - mean(x_0..x_{i-1}))²·i/(i+1)`. -/
theorem sum2_exact_as_sum (vs : List F) :
    T vs = ∑ i ∈ range vs.length, (dev vs i)^2 * ((i : F) / ((i : F) + 1)) :=
  T_eq_sum vs

/-! ## one step -/

/-- What `Variance.add` computes for `sum_2` at the carrier R2, operation by operation (seven rounded
operations, `δ` is computed once and used twice; `k - 1` is a rounded subtraction of exactly converted
counts). -/
theorem sum2_computed_update (r : Rnd2 F) (s : Variance (RF2 r)) (x : RF2 r) :
    (s.add x).sum_2.val =
      r.fl (s.sum_2.val +
        r.fl (r.fl (r.fl (r.fl (r.fl (x.val - s.avg.avg.val) / ((s.avg.n + 1 : ℕ) : F))
                    * r.fl (r.fl (x.val - s.avg.avg.val) / ((s.avg.n + 1 : ℕ) : F)))
                * ((s.avg.n + 1 : ℕ) : F))
              * r.fl (((s.avg.n + 1 : ℕ) : F) - 1))) :=
  sum2_add_val r s x

/-- The computed increment `fl(fl(fl(δ·δ)·k)·fl(k-1))`, `δ = fl(fl(x-a)/k)`, is within relative error
`(1+u)^8 - 1` of `I = (x-a)²(k-1)/k`, and `I ≥ 0` (for any real `k ≥ 1`). -/
theorem increment_rounding_error (r : Rnd2 F) (x a k : F) (hk : 1 ≤ k) :
    0 ≤ (x - a)^2 * ((k - 1) / k) ∧
    |r.fl (r.fl (r.fl (r.fl (r.fl (x - a) / k) * r.fl (r.fl (x - a) / k)) * k) * r.fl (k - 1))
        - (x - a)^2 * ((k - 1) / k)|
      ≤ ((1 + r.u)^8 - 1) * ((x - a)^2 * ((k - 1) / k)) :=
  var_incr_error r.fl r.u r.u_nonneg r.err x a k hk

/-- `(1+u)^8 - 1 ≤ 8.5·u` for `u ≤ 1/64`. -/
theorem eight_roundings (u : F) (hu : 0 ≤ u) (h : u ≤ 1/64) : (1 + u)^8 - 1 ≤ 17/2 * u :=
  gam_le u hu h

/-- One step of the error recurrence. `S`, `a`: computed sum of squares and mean before the step;
`T ≥ 0`, `μ`: their exact counterparts; `J = (x-μ)²(k-1)/k` the exact increment; `γ = (1+u)^8 - 1`:
`|S' - (T+J)| ≤ (1+u)·(|S-T| + γ·J + (1+γ)·(2|a-μ||x-μ| + (a-μ)²)(k-1)/k) + u·(T+J)`. -/
theorem sum2_step_error (r : Rnd2 F) (x a μ S Tk k : F) (hk : 1 ≤ k) (hT : 0 ≤ Tk) :
    |r.fl (S + r.fl (r.fl (r.fl (r.fl (r.fl (x - a) / k) * r.fl (r.fl (x - a) / k)) * k) * r.fl (k - 1)))
        - (Tk + (x - μ)^2 * ((k - 1) / k))|
      ≤ (1 + r.u) * (|S - Tk| + ((1 + r.u)^8 - 1) * ((x - μ)^2 * ((k - 1) / k))
            + (1 + ((1 + r.u)^8 - 1)) * ((2 * |a - μ| * |x - μ| + (a - μ)^2) * ((k - 1) / k)))
        + r.u * (Tk + (x - μ)^2 * ((k - 1) / k)) :=
  var_step_error r.fl r.u r.u_nonneg r.err x a μ S Tk k hk hT

/-! ## all stream lengths -/

/-- **General form, before Cauchy-Schwarz.** For every stream `xs`: if `E i ≥ 0` bounds the error of the
running mean after `i` observations (for every prefix of `xs`), then with `γ = (1+u)^8 - 1`
`|sum_2 - T| ≤ (1+u)^n·((γ + n·u)·T + (1+γ)·Σ_{i<n} (2·E_i·|dev_i| + E_i²)·i/(i+1))`,
`dev_i = x_i - mean(x_0..x_{i-1})`. No bound on the data is needed here. -/
theorem sum2_forward_error_general (r : Rnd2 F) (E : ℕ → F) (hE0 : ∀ i, 0 ≤ E i) (xs : List (RF2 r))
    (hE : ∀ ys, ys <+: xs →
      |(ys.foldl Mean.add Mean.new).avg.val - mean (ys.map RF2.val)| ≤ E ys.length) :
    |(xs.foldl Variance.add Variance.new).sum_2.val - T (xs.map RF2.val)|
      ≤ (1 + r.u)^xs.length *
          ((((1 + r.u)^8 - 1) + xs.length * r.u) * T (xs.map RF2.val)
            + (1 + ((1 + r.u)^8 - 1)) *
              ∑ i ∈ range (xs.map RF2.val).length,
                (2 * E i * |dev (xs.map RF2.val) i| + (E i)^2) * ((i : F) / ((i : F) + 1))) :=
  var_fold_error_gen r E hE0 xs hE

/-- **General form, after Cauchy-Schwarz** (square-root free): for every `R ≥ 0` with
`(Σ_{i<n} E_i²)·T ≤ R²`:  `|sum_2 - T| ≤ (1+u)^n·((γ + n·u)·T + (1+γ)·(2R + Σ_{i<n} E_i²))`. -/
theorem sum2_forward_error_general_cs (r : Rnd2 F) (E : ℕ → F) (hE0 : ∀ i, 0 ≤ E i)
    (xs : List (RF2 r))
    (hE : ∀ ys, ys <+: xs →
      |(ys.foldl Mean.add Mean.new).avg.val - mean (ys.map RF2.val)| ≤ E ys.length)
    (R : F) (hR : 0 ≤ R) (hRT : (∑ i ∈ range xs.length, (E i)^2) * T (xs.map RF2.val) ≤ R^2) :
    |(xs.foldl Variance.add Variance.new).sum_2.val - T (xs.map RF2.val)|
      ≤ (1 + r.u)^xs.length *
          ((((1 + r.u)^8 - 1) + xs.length * r.u) * T (xs.map RF2.val)
            + (1 + ((1 + r.u)^8 - 1)) * (2 * R + ∑ i ∈ range xs.length, (E i)^2)) :=
  var_fold_error_cs r E hE0 xs hE R hR hRT

/-- **Forward error of `sum_2`, linear in the conditioning (form A).** Every stream of `n` observations
with `|x_i| ≤ M` and `n·u ≤ 1/64`; any `R₀ ≥ 0` with `n·T ≤ R₀²`:
`|sum_2 - T| ≤ 10·n·u·T + 14·n·u·M·R₀ + 41·n³·u²·M²`. -/
theorem sum2_forward_error (r : Rnd2 F) (M : F) (hM : 0 ≤ M) (xs : List (RF2 r))
    (hb : ∀ x ∈ xs, |x.val| ≤ M) (hsmall : (xs.length : F) * r.u ≤ 1/64)
    (R₀ : F) (hR : 0 ≤ R₀) (hRT : (xs.length : F) * T (xs.map RF2.val) ≤ R₀^2) :
    |(xs.foldl Variance.add Variance.new).sum_2.val - T (xs.map RF2.val)|
      ≤ 10 * xs.length * r.u * T (xs.map RF2.val) + 14 * xs.length * r.u * M * R₀
        + 41 * (xs.length : F)^3 * r.u^2 * M^2 :=
  var_fold_error_lin r M hM xs hb hsmall R₀ hR hRT

/-- The same over ℝ with `R₀ = sqrt(n·T)`:
`|sum_2 - T| ≤ 10·n·u·T + 14·n·u·M·sqrt(n·T) + 41·n³·u²·M²`. -/
theorem sum2_forward_error_sqrt (r : Rnd2 ℝ) (M : ℝ) (hM : 0 ≤ M) (xs : List (RF2 r))
    (hb : ∀ x ∈ xs, |x.val| ≤ M) (hsmall : (xs.length : ℝ) * r.u ≤ 1/64) :
    |(xs.foldl Variance.add Variance.new).sum_2.val - T (xs.map RF2.val)|
      ≤ 10 * xs.length * r.u * T (xs.map RF2.val)
        + 14 * xs.length * r.u * M * Real.sqrt (xs.length * T (xs.map RF2.val))
        + 41 * (xs.length : ℝ)^3 * r.u^2 * M^2 :=
  var_fold_error_lin r M hM xs hb hsmall _ (Real.sqrt_nonneg _)
    (le_of_eq (Real.sq_sqrt (mul_nonneg (Nat.cast_nonneg _) (T_nonneg _))).symm)

/-- Sharper bound for the running mean used below (first-order sharp: `≈ u·M·n/2`): for
`(n+28)·u ≤ 1/64`, `|avg_n - mean| ≤ (65/128)·u·M·(n + 37/4)`. -/
theorem mean_forward_error_sharp (r : Rnd2 F) (M : F) (hM : 0 ≤ M) (xs : List (RF2 r))
    (hb : ∀ x ∈ xs, |x.val| ≤ M) (hsmall : ((xs.length : F) + 28) * r.u ≤ 1/64) :
    |(xs.foldl Mean.add Mean.new).avg.val - meanK (xs.map RF2.val)|
      ≤ 65/128 * r.u * M * ((xs.length : F) + 37/4) :=
  mean_fold_error_sharp r M hM xs hb hsmall

/-- **Sharp symbolic form.** `n ≥ 1`, `(n+28)·u ≤ 1/64`, `β = (65/128)·u·M`,
`Q = n³/3 + 35n²/4 + 3671n/48 - 1369/16` (`= Σ_{1≤i<n}(i+37/4)²`), any `R ≥ 0` with `β²·Q·T ≤ R²`:
`|sum_2 - T| ≤ (1+u)^n·((γ + n·u)·T + (1+γ)·(2R + β²·Q))`. To first order and for large `n` this is
`n·u·T + (1/√3)·n·u·M·sqrt(n·T)`. -/
theorem sum2_forward_error_sharp_symbolic (r : Rnd2 F) (M : F) (hM : 0 ≤ M) (xs : List (RF2 r))
    (hne : xs ≠ []) (hb : ∀ x ∈ xs, |x.val| ≤ M) (hsmall : ((xs.length : F) + 28) * r.u ≤ 1/64)
    (R : F) (hR : 0 ≤ R)
    (hRT : (65/128 * r.u * M)^2
        * ((xs.length : F)^3 / 3 + 35/4 * (xs.length : F)^2 + 3671/48 * (xs.length : F) - 1369/16)
        * T (xs.map RF2.val) ≤ R^2) :
    |(xs.foldl Variance.add Variance.new).sum_2.val - T (xs.map RF2.val)|
      ≤ (1 + r.u)^xs.length *
          ((((1 + r.u)^8 - 1) + xs.length * r.u) * T (xs.map RF2.val)
            + (1 + ((1 + r.u)^8 - 1)) * (2 * R + (65/128 * r.u * M)^2
              * ((xs.length : F)^3 / 3 + 35/4 * (xs.length : F)^2 + 3671/48 * (xs.length : F)
                  - 1369/16))) :=
  var_fold_error_sharp r M hM xs hne hb hsmall R hR hRT

/-- **Forward error of `sum_2`, sharper numerals.** `|x_i| ≤ M`, `(n+28)·u ≤ 1/64`, `n·T ≤ R₀²`:
`|sum_2 - T| ≤ (109/20)·n·u·T + (79/20)·n·u·M·R₀ + (15/4)·n³·u²·M²`
(hence `≤ 6·n·u·T + 4·n·u·M·R₀ + 4·n³·u²·M²`, see `sum2_forward_error_sharp_int`). -/
theorem sum2_forward_error_sharp (r : Rnd2 F) (M : F) (hM : 0 ≤ M) (xs : List (RF2 r))
    (hb : ∀ x ∈ xs, |x.val| ≤ M) (hsmall : ((xs.length : F) + 28) * r.u ≤ 1/64)
    (R₀ : F) (hR : 0 ≤ R₀) (hRT : (xs.length : F) * T (xs.map RF2.val) ≤ R₀^2) :
    |(xs.foldl Variance.add Variance.new).sum_2.val - T (xs.map RF2.val)|
      ≤ 109/20 * xs.length * r.u * T (xs.map RF2.val) + 79/20 * xs.length * r.u * M * R₀
        + 15/4 * (xs.length : F)^3 * r.u^2 * M^2 :=
  var_fold_error_sharp_num r M hM xs hb hsmall R₀ hR hRT

/-- The same with integer constants: `|sum_2 - T| ≤ 6·n·u·T + 4·n·u·M·R₀ + 4·n³·u²·M²`. -/
theorem sum2_forward_error_sharp_int (r : Rnd2 F) (M : F) (hM : 0 ≤ M) (xs : List (RF2 r))
    (hb : ∀ x ∈ xs, |x.val| ≤ M) (hsmall : ((xs.length : F) + 28) * r.u ≤ 1/64)
    (R₀ : F) (hR : 0 ≤ R₀) (hRT : (xs.length : F) * T (xs.map RF2.val) ≤ R₀^2) :
    |(xs.foldl Variance.add Variance.new).sum_2.val - T (xs.map RF2.val)|
      ≤ 6 * xs.length * r.u * T (xs.map RF2.val) + 4 * xs.length * r.u * M * R₀
        + 4 * (xs.length : F)^3 * r.u^2 * M^2 := by
  refine le_trans (var_fold_error_sharp_num r M hM xs hb hsmall R₀ hR hRT) ?_
  have hu := r.u_nonneg
  have hn : (0 : F) ≤ xs.length := Nat.cast_nonneg _
  have a1 : 0 ≤ (xs.length : F) * r.u * T (xs.map RF2.val) :=
    mul_nonneg (mul_nonneg hn hu) (T_nonneg _)
  have a2 : 0 ≤ (xs.length : F) * r.u * M * R₀ := by positivity
  have a3 : 0 ≤ (xs.length : F)^3 * r.u^2 * M^2 := by positivity
  linarith

/-! ## the accessors -/

section access
variable {r : Rnd2 F} [FloatOps (RF2 r)]

/-- **Population variance.** Whatever the non-arithmetic operations of the carrier are, for `n ≥ 1`
observations with `|x_i| ≤ M`, `(n+28)·u ≤ 1/64`, `var = T/n` and any `σ ≥ 0` with `var ≤ σ²`:
`|population_variance - var| ≤ 6·n·u·var + 4·n·u·M·σ + 4·n²·u²·M²`. -/
theorem population_variance_forward_error (M : F) (hM : 0 ≤ M) (xs : List (RF2 r)) (hne : xs ≠ [])
    (hb : ∀ x ∈ xs, |x.val| ≤ M) (hsmall : ((xs.length : F) + 28) * r.u ≤ 1/64)
    (σ : F) (hσ : 0 ≤ σ) (hvar : T (xs.map RF2.val) / (xs.length : F) ≤ σ^2) :
    |(xs.foldl Variance.add Variance.new).populationVariance.val
        - T (xs.map RF2.val) / (xs.length : F)|
      ≤ 6 * xs.length * r.u * (T (xs.map RF2.val) / (xs.length : F))
        + 4 * xs.length * r.u * M * σ + 4 * (xs.length : F)^2 * r.u^2 * M^2 :=
  popvar_error_sharp M hM xs hne hb hsmall σ hσ hvar

/-- **Population variance inside the envelope of DESIGN.md section 5.** If moreover `n·u·M ≤ σ`, then
`|population_variance - var| ≤ 8·n·u·(var + M·σ)`. -/
theorem population_variance_envelope (M : F) (hM : 0 ≤ M) (xs : List (RF2 r)) (hne : xs ≠ [])
    (hb : ∀ x ∈ xs, |x.val| ≤ M) (hsmall : ((xs.length : F) + 28) * r.u ≤ 1/64)
    (σ : F) (hσ : 0 ≤ σ) (hvar : T (xs.map RF2.val) / (xs.length : F) ≤ σ^2)
    (hcond : (xs.length : F) * r.u * M ≤ σ) :
    |(xs.foldl Variance.add Variance.new).populationVariance.val
        - T (xs.map RF2.val) / (xs.length : F)|
      ≤ 8 * xs.length * r.u * (T (xs.map RF2.val) / (xs.length : F) + M * σ) :=
  popvar_error_envelope M hM xs hne hb hsmall σ hσ hvar hcond

/-- Population variance under the weaker hypothesis `n·u ≤ 1/64` (constants of form A):
`|population_variance - var| ≤ 12·n·u·var + 15·n·u·M·σ + 42·n²·u²·M²`. -/
theorem population_variance_forward_error_A (M : F) (hM : 0 ≤ M) (xs : List (RF2 r)) (hne : xs ≠ [])
    (hb : ∀ x ∈ xs, |x.val| ≤ M) (hsmall : (xs.length : F) * r.u ≤ 1/64)
    (σ : F) (hσ : 0 ≤ σ) (hvar : T (xs.map RF2.val) / (xs.length : F) ≤ σ^2) :
    |(xs.foldl Variance.add Variance.new).populationVariance.val
        - T (xs.map RF2.val) / (xs.length : F)|
      ≤ 12 * xs.length * r.u * (T (xs.map RF2.val) / (xs.length : F))
        + 15 * xs.length * r.u * M * σ + 42 * (xs.length : F)^2 * r.u^2 * M^2 :=
  popvar_error_lin M hM xs hne hb hsmall σ hσ hvar

/-- **Sample variance.** `n ≥ 2`, `|x_i| ≤ M`, `(n+28)·u ≤ 1/64`, `s² = T/(n-1)`, any `σ ≥ 0` with
`s² ≤ σ²`:  `|sample_variance - s²| ≤ 6·n·u·s² + 8·n·u·M·σ + 8·n²·u²·M²`. -/
theorem sample_variance_forward_error (M : F) (hM : 0 ≤ M) (xs : List (RF2 r)) (h2 : 2 ≤ xs.length)
    (hb : ∀ x ∈ xs, |x.val| ≤ M) (hsmall : ((xs.length : F) + 28) * r.u ≤ 1/64)
    (σ : F) (hσ : 0 ≤ σ) (hvar : T (xs.map RF2.val) / ((xs.length - 1 : ℕ) : F) ≤ σ^2) :
    |(xs.foldl Variance.add Variance.new).sampleVariance.val
        - T (xs.map RF2.val) / ((xs.length - 1 : ℕ) : F)|
      ≤ 6 * xs.length * r.u * (T (xs.map RF2.val) / ((xs.length - 1 : ℕ) : F))
        + 8 * xs.length * r.u * M * σ + 8 * (xs.length : F)^2 * r.u^2 * M^2 :=
  samplevar_error_sharp M hM xs h2 hb hsmall σ hσ hvar

end access

/-- **The envelope clause of C01 for `population_variance`, in the words of DESIGN.md section 5.** Over ℝ,
for `n ≥ 1` observations with `|x_i| ≤ M`, exact variance `var > 0`, `σ = sqrt(var)`, `κ = 1 + M/σ`,
`(n+28)·u ≤ 1/64` and `n·u·M ≤ σ`:   `|population_variance - var| ≤ 8·n·κ·u·var`. -/
theorem population_variance_envelope_kappa {r : Rnd2 ℝ} [FloatOps (RF2 r)] (M : ℝ) (hM : 0 ≤ M)
    (xs : List (RF2 r)) (hne : xs ≠ []) (hb : ∀ x ∈ xs, |x.val| ≤ M)
    (hsmall : ((xs.length : ℝ) + 28) * r.u ≤ 1/64)
    (hpos : 0 < T (xs.map RF2.val) / (xs.length : ℝ))
    (hcond : (xs.length : ℝ) * r.u * M ≤ Real.sqrt (T (xs.map RF2.val) / (xs.length : ℝ))) :
    |(xs.foldl Variance.add Variance.new).populationVariance.val
        - T (xs.map RF2.val) / (xs.length : ℝ)|
      ≤ 8 * xs.length * (1 + M / Real.sqrt (T (xs.map RF2.val) / (xs.length : ℝ))) * r.u
          * (T (xs.map RF2.val) / (xs.length : ℝ)) := by
  set v := T (xs.map RF2.val) / (xs.length : ℝ) with hv
  have hσpos : 0 < Real.sqrt v := Real.sqrt_pos.mpr hpos
  have hsq : Real.sqrt v ^ 2 = v := Real.sq_sqrt hpos.le
  have h := popvar_error_envelope M hM xs hne hb hsmall (Real.sqrt v) hσpos.le (le_of_eq hsq.symm) hcond
  refine le_trans h (le_of_eq ?_)
  have : (1 + M / Real.sqrt v) * v = v + M * Real.sqrt v := by
    have hne' : Real.sqrt v ≠ 0 := hσpos.ne'
    field_simp
    nlinarith [hsq]
  calc 8 * (xs.length : ℝ) * r.u * (v + M * Real.sqrt v)
      = 8 * (xs.length : ℝ) * r.u * ((1 + M / Real.sqrt v) * v) := by rw [this]
    _ = 8 * (xs.length : ℝ) * (1 + M / Real.sqrt v) * r.u * v := by ring

/-! ## Non-vacuity -/

/-- a rounding that is never exact (except at 0): always moves away from zero by the full relative
amount `u = 2^-53` -/
def awayRnd : Rnd2 ℚ :=
  ⟨fun t => t * (1 + 1/2^53), 1/2^53, by norm_num, fun t => by
    have : t * (1 + 1/2^53) - t = (1/2^53) * t := by ring
    rw [this, abs_mul, abs_of_pos (by norm_num : (0:ℚ) < 1/2^53)]⟩

/-- an ill-conditioned stream: offset 1000, spread 4 -/
def exStream : List (RF2 awayRnd) := [⟨1001⟩, ⟨999⟩, ⟨1002⟩, ⟨998⟩]

theorem exStream_T : T (exStream.map RF2.val) = 10 := by
  norm_num [exStream, T, sumPow, mean]

/-- the hypotheses of `sum2_forward_error` and `sum2_forward_error_sharp` are met by `exStream` with
`M = 1002`, `u = 2^-53`, `R₀ = 7` (`n·T = 40 ≤ 49`) -/
example : (∀ x ∈ exStream, |x.val| ≤ 1002) ∧ ((exStream.length : ℚ) + 28) * awayRnd.u ≤ 1/64
    ∧ (exStream.length : ℚ) * awayRnd.u ≤ 1/64
    ∧ (exStream.length : ℚ) * T (exStream.map RF2.val) ≤ 7^2 := by
  refine ⟨?_, ?_, ?_, ?_⟩
  · intro x hx
    simp only [exStream, List.mem_cons, List.not_mem_nil, or_false] at hx
    rcases hx with rfl | rfl | rfl | rfl <;> norm_num
  · norm_num [exStream, awayRnd]
  · norm_num [exStream, awayRnd]
  · rw [exStream_T]; norm_num [exStream]

/-- and the conclusion is a concrete statement about a computation with 32 rounded operations under a
rounding that is never exact: the computed `sum_2` is within
`6·4·u·10 + 4·4·u·1002·7 + 4·64·u²·1002²` (about `1.1·10^5·u`) of the exact `T = 10`; the naive bound
quadratic in `M` would be of the order `n²·u·M² ≈ 1.6·10^7·u`. -/
example : |(exStream.foldl Variance.add Variance.new).sum_2.val - 10|
    ≤ 6 * 4 * (1/2^53) * 10 + 4 * 4 * (1/2^53) * 1002 * 7 + 4 * (4:ℚ)^3 * (1/2^53)^2 * 1002^2 := by
  have h := sum2_forward_error_sharp_int awayRnd 1002 (by norm_num) exStream
    (by intro x hx
        simp only [exStream, List.mem_cons, List.not_mem_nil, or_false] at hx
        rcases hx with rfl | rfl | rfl | rfl <;> norm_num)
    (by norm_num [exStream, awayRnd]) 7 (by norm_num)
    (by rw [exStream_T]; norm_num [exStream])
  rw [exStream_T] at h
  have hl : (exStream.length : ℚ) = 4 := by norm_num [exStream]
  have hu : awayRnd.u = 1/2^53 := rfl
  rw [hl, hu] at h
  exact h

end Props.C01b

#print axioms Props.C01b.count_exact
#print axioms Props.C01b.T_def
#print axioms Props.C01b.sum2_exact_recurrence
#print axioms Props.C01b.sum2_exact_signs
#print axioms Props.C01b.sum2_exact_as_sum
#print axioms Props.C01b.sum2_computed_update
#print axioms Props.C01b.increment_rounding_error
#print axioms Props.C01b.eight_roundings
#print axioms Props.C01b.sum2_step_error
#print axioms Props.C01b.sum2_forward_error_general
#print axioms Props.C01b.sum2_forward_error_general_cs
#print axioms Props.C01b.sum2_forward_error
#print axioms Props.C01b.sum2_forward_error_sqrt
#print axioms Props.C01b.mean_forward_error_sharp
#print axioms Props.C01b.sum2_forward_error_sharp_symbolic
#print axioms Props.C01b.sum2_forward_error_sharp
#print axioms Props.C01b.sum2_forward_error_sharp_int
#print axioms Props.C01b.population_variance_forward_error
#print axioms Props.C01b.population_variance_envelope
#print axioms Props.C01b.population_variance_forward_error_A
#print axioms Props.C01b.sample_variance_forward_error
#print axioms Props.C01b.population_variance_envelope_kappa
