import AvgProofs.CovErrAccess
import Mathlib.Analysis.Real.Sqrt

/-!
# The two instances of the first-pair bound `ε`, and the envelope of `population_covariance`

* `ε = 0` when the `y`-mean after the first pair is the `y` of that pair (`FirstExact`; true of IEEE
  arithmetic where `y - 0`, `y/1`, `0 + y` are exact; not a consequence of the standard model).
* `ε = γ₃·My ≤ (49/16)·u·My` always (`first_y_error`).
* `popcov_error_envelope`: with `ε = 0` and `4·n·u·Mx ≤ σx` or `4·n·u·My ≤ σy`,
  `|population_covariance - cov| ≤ 8·n·u·(σx·σy + max(Mx·σy, My·σx))`.
-/
open Avg MSpec Finset VarSpec CovSpec VarErr

namespace CovErr
variable {K : Type} [Field K] [LinearOrder K] [IsStrictOrderedRing K]

/-- the `y`-mean after the first pair of the stream is the `y` of that pair (exactly) -/
def FirstExact {r : Rnd2 K} (ps : List (RF2 r × RF2 r)) : Prop :=
  ∀ p, ps.head? = some p → ((Covariance.new : Covariance (RF2 r)).add p.1 p.2).avg_y.val = p.2.val

/-- `FirstExact` in terms of the rounding: `fl(0 + fl(fl(y₀ - 0)/1)) = y₀` -/
theorem firstExact_iff {r : Rnd2 K} (ps : List (RF2 r × RF2 r)) :
    FirstExact ps ↔ ∀ p, ps.head? = some p → r.fl (0 + r.fl (r.fl (p.2.val - 0) / 1)) = p.2.val := by
  unfold FirstExact
  constructor
  · intro h p hp; rw [← first_avg_y_val r p.1 p.2]; exact h p hp
  · intro h p hp; rw [first_avg_y_val r p.1 p.2]; exact h p hp

theorem h1_of_firstExact {r : Rnd2 K} {ps : List (RF2 r × RF2 r)} (h : FirstExact ps) :
    ∀ p, ps.head? = some p →
      |((Covariance.new : Covariance (RF2 r)).add p.1 p.2).avg_y.val - p.2.val| ≤ 0 := by
  intro p hp
  rw [h p hp]; simp

theorem h1_std {r : Rnd2 K} {ps : List (RF2 r × RF2 r)} {My : K}
    (hby : ∀ p ∈ ps, |p.2.val| ≤ My) :
    ∀ p, ps.head? = some p →
      |((Covariance.new : Covariance (RF2 r)).add p.1 p.2).avg_y.val - p.2.val| ≤ gam3 r.u * My := by
  intro p hp
  have hmem : p ∈ ps := List.mem_of_mem_head? hp
  have hg := gam3_nonneg r.u_nonneg
  calc _ ≤ gam3 r.u * |p.2.val| := first_y_error r p.1 p.2
    _ ≤ gam3 r.u * My := by gcongr; exact hby p hmem

/-- **`sum_prod`, first pair exact**: `(21/5)·n·u·Rxy + (79/40)·n·u·Mx·Ry + (21/5)·n·u·My·Rx
+ (39/10)·n³·u²·Mx·My`. -/
theorem cov_fold_error_sharp_exact (r : Rnd2 K) (Mx My : K) (hMx : 0 ≤ Mx) (hMy : 0 ≤ My)
    (ps : List (RF2 r × RF2 r))
    (hbx : ∀ p ∈ ps, |p.1.val| ≤ Mx) (hby : ∀ p ∈ ps, |p.2.val| ≤ My)
    (hsmall : ((ps.length : K) + 28) * r.u ≤ 1/64) (hfirst : FirstExact ps)
    (Rxy Rx Ry : K) (hRxy : 0 ≤ Rxy) (hRx : 0 ≤ Rx) (hRy : 0 ≤ Ry)
    (hxy : T (fsts (vals ps)) * T (snds (vals ps)) ≤ Rxy^2)
    (hx : (ps.length : K) * T (fsts (vals ps)) ≤ Rx^2)
    (hy : (ps.length : K) * T (snds (vals ps)) ≤ Ry^2) :
    |(ps.foldl (fun (s : Covariance (RF2 r)) p => s.add p.1 p.2) Covariance.new).sum_prod.val
        - Cxy (vals ps)|
      ≤ 21/5 * ps.length * r.u * Rxy + 79/40 * ps.length * r.u * Mx * Ry
        + 21/5 * ps.length * r.u * My * Rx + 39/10 * (ps.length : K)^3 * r.u^2 * Mx * My := by
  have h := cov_fold_error_sharp_num r Mx My hMx hMy ps hbx hby hsmall 0 (le_refl _)
    (h1_of_firstExact hfirst) Rxy Rx Ry hRxy hRx hRy hxy hx hy
  simpa using h

/-- **`sum_prod`, standard model only**: the same `+ (13/4)·u·Mx·My`. -/
theorem cov_fold_error_sharp_std (r : Rnd2 K) (Mx My : K) (hMx : 0 ≤ Mx) (hMy : 0 ≤ My)
    (ps : List (RF2 r × RF2 r))
    (hbx : ∀ p ∈ ps, |p.1.val| ≤ Mx) (hby : ∀ p ∈ ps, |p.2.val| ≤ My)
    (hsmall : ((ps.length : K) + 28) * r.u ≤ 1/64)
    (Rxy Rx Ry : K) (hRxy : 0 ≤ Rxy) (hRx : 0 ≤ Rx) (hRy : 0 ≤ Ry)
    (hxy : T (fsts (vals ps)) * T (snds (vals ps)) ≤ Rxy^2)
    (hx : (ps.length : K) * T (fsts (vals ps)) ≤ Rx^2)
    (hy : (ps.length : K) * T (snds (vals ps)) ≤ Ry^2) :
    |(ps.foldl (fun (s : Covariance (RF2 r)) p => s.add p.1 p.2) Covariance.new).sum_prod.val
        - Cxy (vals ps)|
      ≤ 21/5 * ps.length * r.u * Rxy + 79/40 * ps.length * r.u * Mx * Ry
        + 21/5 * ps.length * r.u * My * Rx + 39/10 * (ps.length : K)^3 * r.u^2 * Mx * My
        + 13/4 * r.u * Mx * My := by
  have hu := r.u_nonneg
  have hg := gam3_nonneg hu
  have hn0 : (0 : K) ≤ ps.length := Nat.cast_nonneg _
  have hu64 : r.u ≤ 1/64 := by nlinarith
  have h := cov_fold_error_sharp_num r Mx My hMx hMy ps hbx hby hsmall (gam3 r.u * My)
    (by positivity) (h1_std hby) Rxy Rx Ry hRxy hRx hRy hxy hx hy
  refine le_trans h ?_
  have hγ := gam3_le r.u hu hu64
  have : 21/20 * (gam3 r.u * My) * Mx ≤ 13/4 * r.u * Mx * My := by
    have h0 : 0 ≤ r.u * Mx * My := by positivity
    calc 21/20 * (gam3 r.u * My) * Mx ≤ 21/20 * ((49/16 * r.u) * My) * Mx := by gcongr
      _ ≤ 13/4 * r.u * Mx * My := by nlinarith
  linarith

section access
variable {r : Rnd2 K} [FloatOps (RF2 r)]

/-- **Population covariance, first pair exact.** -/
theorem popcov_error_sharp_exact (Mx My : K) (hMx : 0 ≤ Mx) (hMy : 0 ≤ My)
    (ps : List (RF2 r × RF2 r)) (hne : ps ≠ [])
    (hbx : ∀ p ∈ ps, |p.1.val| ≤ Mx) (hby : ∀ p ∈ ps, |p.2.val| ≤ My)
    (hsmall : ((ps.length : K) + 28) * r.u ≤ 1/64) (hfirst : FirstExact ps)
    (σx σy : K) (hσx : 0 ≤ σx) (hσy : 0 ≤ σy)
    (hvx : T (fsts (vals ps)) / (ps.length : K) ≤ σx^2)
    (hvy : T (snds (vals ps)) / (ps.length : K) ≤ σy^2) :
    |(ps.foldl (fun (s : Covariance (RF2 r)) p => s.add p.1 p.2)
          Covariance.new).populationCovariance.val - Cxy (vals ps) / (ps.length : K)|
      ≤ 21/4 * ps.length * r.u * σx * σy + 2 * ps.length * r.u * Mx * σy
        + 17/4 * ps.length * r.u * My * σx + 4 * (ps.length : K)^2 * r.u^2 * Mx * My := by
  have h := popcov_error_sharp Mx My hMx hMy ps hne hbx hby hsmall 0 (le_refl _)
    (h1_of_firstExact hfirst) σx σy hσx hσy hvx hvy
  simpa using h

/-- **Population covariance, standard model only**: the same `+ (7/2)·u·Mx·My/n`. -/
theorem popcov_error_sharp_std (Mx My : K) (hMx : 0 ≤ Mx) (hMy : 0 ≤ My)
    (ps : List (RF2 r × RF2 r)) (hne : ps ≠ [])
    (hbx : ∀ p ∈ ps, |p.1.val| ≤ Mx) (hby : ∀ p ∈ ps, |p.2.val| ≤ My)
    (hsmall : ((ps.length : K) + 28) * r.u ≤ 1/64)
    (σx σy : K) (hσx : 0 ≤ σx) (hσy : 0 ≤ σy)
    (hvx : T (fsts (vals ps)) / (ps.length : K) ≤ σx^2)
    (hvy : T (snds (vals ps)) / (ps.length : K) ≤ σy^2) :
    |(ps.foldl (fun (s : Covariance (RF2 r)) p => s.add p.1 p.2)
          Covariance.new).populationCovariance.val - Cxy (vals ps) / (ps.length : K)|
      ≤ 21/4 * ps.length * r.u * σx * σy + 2 * ps.length * r.u * Mx * σy
        + 17/4 * ps.length * r.u * My * σx + 4 * (ps.length : K)^2 * r.u^2 * Mx * My
        + 7/2 * r.u * Mx * My / (ps.length : K) := by
  have hu := r.u_nonneg
  have hg := gam3_nonneg hu
  have hnat : 1 ≤ ps.length := List.length_pos_of_ne_nil hne
  have hnpos : (0 : K) < ps.length := by exact_mod_cast hnat
  have hu64 : r.u ≤ 1/64 := by nlinarith
  have h := popcov_error_sharp Mx My hMx hMy ps hne hbx hby hsmall (gam3 r.u * My)
    (by positivity) (h1_std hby) σx σy hσx hσy hvx hvy
  refine le_trans h ?_
  have hγ := gam3_le r.u hu hu64
  have : 11/10 * (gam3 r.u * My) * Mx / (ps.length : K) ≤ 7/2 * r.u * Mx * My / (ps.length : K) := by
    have h0 : 0 ≤ r.u * Mx * My := by positivity
    gcongr ?_ / _
    calc 11/10 * (gam3 r.u * My) * Mx ≤ 11/10 * ((49/16 * r.u) * My) * Mx := by gcongr
      _ ≤ 7/2 * r.u * Mx * My := by nlinarith
  linarith

/-- **Sample covariance, first pair exact.** -/
theorem samplecov_error_sharp_exact (Mx My : K) (hMx : 0 ≤ Mx) (hMy : 0 ≤ My)
    (ps : List (RF2 r × RF2 r)) (h2 : 2 ≤ ps.length)
    (hbx : ∀ p ∈ ps, |p.1.val| ≤ Mx) (hby : ∀ p ∈ ps, |p.2.val| ≤ My)
    (hsmall : ((ps.length : K) + 28) * r.u ≤ 1/64) (hfirst : FirstExact ps)
    (σx σy : K) (hσx : 0 ≤ σx) (hσy : 0 ≤ σy)
    (hvx : T (fsts (vals ps)) / ((ps.length - 1 : ℕ) : K) ≤ σx^2)
    (hvy : T (snds (vals ps)) / ((ps.length - 1 : ℕ) : K) ≤ σy^2) :
    |(ps.foldl (fun (s : Covariance (RF2 r)) p => s.add p.1 p.2)
          Covariance.new).sampleCovariance.val - Cxy (vals ps) / ((ps.length - 1 : ℕ) : K)|
      ≤ 21/4 * ps.length * r.u * σx * σy + 4 * ps.length * r.u * Mx * σy
        + 17/2 * ps.length * r.u * My * σx + 8 * (ps.length : K)^2 * r.u^2 * Mx * My := by
  have h := samplecov_error_sharp Mx My hMx hMy ps h2 hbx hby hsmall 0 (le_refl _)
    (h1_of_firstExact hfirst) σx σy hσx hσy hvx hvy
  simpa using h

/-- **Sample covariance, standard model only**: the same `+ (7/2)·u·Mx·My/(n-1)`. -/
theorem samplecov_error_sharp_std (Mx My : K) (hMx : 0 ≤ Mx) (hMy : 0 ≤ My)
    (ps : List (RF2 r × RF2 r)) (h2 : 2 ≤ ps.length)
    (hbx : ∀ p ∈ ps, |p.1.val| ≤ Mx) (hby : ∀ p ∈ ps, |p.2.val| ≤ My)
    (hsmall : ((ps.length : K) + 28) * r.u ≤ 1/64)
    (σx σy : K) (hσx : 0 ≤ σx) (hσy : 0 ≤ σy)
    (hvx : T (fsts (vals ps)) / ((ps.length - 1 : ℕ) : K) ≤ σx^2)
    (hvy : T (snds (vals ps)) / ((ps.length - 1 : ℕ) : K) ≤ σy^2) :
    |(ps.foldl (fun (s : Covariance (RF2 r)) p => s.add p.1 p.2)
          Covariance.new).sampleCovariance.val - Cxy (vals ps) / ((ps.length - 1 : ℕ) : K)|
      ≤ 21/4 * ps.length * r.u * σx * σy + 4 * ps.length * r.u * Mx * σy
        + 17/2 * ps.length * r.u * My * σx + 8 * (ps.length : K)^2 * r.u^2 * Mx * My
        + 7/2 * r.u * Mx * My / ((ps.length - 1 : ℕ) : K) := by
  have hu := r.u_nonneg
  have hg := gam3_nonneg hu
  have hmpos : (0 : K) < ((ps.length - 1 : ℕ) : K) := by
    have : 0 < ps.length - 1 := by omega
    exact_mod_cast this
  have hn0 : (0 : K) ≤ ps.length := Nat.cast_nonneg _
  have hu64 : r.u ≤ 1/64 := by nlinarith
  have h := samplecov_error_sharp Mx My hMx hMy ps h2 hbx hby hsmall (gam3 r.u * My)
    (by positivity) (h1_std hby) σx σy hσx hσy hvx hvy
  refine le_trans h ?_
  have hγ := gam3_le r.u hu hu64
  have : 11/10 * (gam3 r.u * My) * Mx / ((ps.length - 1 : ℕ) : K)
      ≤ 7/2 * r.u * Mx * My / ((ps.length - 1 : ℕ) : K) := by
    have h0 : 0 ≤ r.u * Mx * My := by positivity
    gcongr ?_ / _
    calc 11/10 * (gam3 r.u * My) * Mx ≤ 11/10 * ((49/16 * r.u) * My) * Mx := by gcongr
      _ ≤ 7/2 * r.u * Mx * My := by nlinarith
  linarith

/-- **Population covariance inside the envelope of DESIGN.md section 5.** First pair exact, and
`4·n·u·Mx ≤ σx` or `4·n·u·My ≤ σy` (the second-order term is dominated):
`|population_covariance - cov| ≤ 8·n·u·(σx·σy + max(Mx·σy, My·σx))`; with `σx² = var_x`, `σy² = var_y`
this is `8·n·κ·u·sqrt(S_xx·S_yy)/n`, `κ = 1 + max(Mx/σx, My/σy)`. -/
theorem popcov_error_envelope (Mx My : K) (hMx : 0 ≤ Mx) (hMy : 0 ≤ My)
    (ps : List (RF2 r × RF2 r)) (hne : ps ≠ [])
    (hbx : ∀ p ∈ ps, |p.1.val| ≤ Mx) (hby : ∀ p ∈ ps, |p.2.val| ≤ My)
    (hsmall : ((ps.length : K) + 28) * r.u ≤ 1/64) (hfirst : FirstExact ps)
    (σx σy : K) (hσx : 0 ≤ σx) (hσy : 0 ≤ σy)
    (hvx : T (fsts (vals ps)) / (ps.length : K) ≤ σx^2)
    (hvy : T (snds (vals ps)) / (ps.length : K) ≤ σy^2)
    (hcond : 4 * (ps.length : K) * r.u * Mx ≤ σx ∨ 4 * (ps.length : K) * r.u * My ≤ σy) :
    |(ps.foldl (fun (s : Covariance (RF2 r)) p => s.add p.1 p.2)
          Covariance.new).populationCovariance.val - Cxy (vals ps) / (ps.length : K)|
      ≤ 8 * ps.length * r.u * (σx * σy + max (Mx * σy) (My * σx)) := by
  have hu := r.u_nonneg
  refine le_trans (popcov_error_sharp_exact Mx My hMx hMy ps hne hbx hby hsmall hfirst σx σy hσx hσy
    hvx hvy) ?_
  have hn0 : (0 : K) ≤ ps.length := Nat.cast_nonneg _
  set n : K := (ps.length : K)
  set m := max (Mx * σy) (My * σx) with hm
  have hm1 : Mx * σy ≤ m := le_max_left _ _
  have hm2 : My * σx ≤ m := le_max_right _ _
  have hnu : 0 ≤ n * r.u := by positivity
  have h1 : n * r.u * (Mx * σy) ≤ n * r.u * m := by gcongr
  have h2 : n * r.u * (My * σx) ≤ n * r.u * m := by gcongr
  have h0 : 0 ≤ n * r.u * (σx * σy) := by positivity
  have h4 : 4 * n^2 * r.u^2 * Mx * My ≤ n * r.u * m := by
    rcases hcond with hc | hc
    · calc 4 * n^2 * r.u^2 * Mx * My = (4 * n * r.u * Mx) * (n * r.u * My) := by ring
        _ ≤ σx * (n * r.u * My) := by gcongr
        _ = n * r.u * (My * σx) := by ring
        _ ≤ n * r.u * m := h2
    · calc 4 * n^2 * r.u^2 * Mx * My = (4 * n * r.u * My) * (n * r.u * Mx) := by ring
        _ ≤ σy * (n * r.u * Mx) := by gcongr
        _ = n * r.u * (Mx * σy) := by ring
        _ ≤ n * r.u * m := h1
  have hm0 : 0 ≤ n * r.u * m := by
    have : 0 ≤ Mx * σy := by positivity
    have : 0 ≤ m := le_trans this hm1
    positivity
  linarith

end access

/-- **The envelope clause of C09 for `population_covariance`, in the words of DESIGN.md section 5.**
Over ℝ, `n ≥ 1` pairs with `|x_i| ≤ Mx`, `|y_i| ≤ My`, exact variances `var_x, var_y > 0`,
`σx = sqrt(var_x)`, `σy = sqrt(var_y)`, `κ = 1 + max(Mx/σx, My/σy)`, `(n+28)·u ≤ 1/64`, first pair
exact, `4·n·u·Mx ≤ σx` or `4·n·u·My ≤ σy`:
`|population_covariance - cov| ≤ 8·n·κ·u·sqrt(S_xx·S_yy)/n`. -/
theorem popcov_envelope_kappa {r : Rnd2 ℝ} [FloatOps (RF2 r)] (Mx My : ℝ) (hMx : 0 ≤ Mx)
    (hMy : 0 ≤ My) (ps : List (RF2 r × RF2 r)) (hne : ps ≠ [])
    (hbx : ∀ p ∈ ps, |p.1.val| ≤ Mx) (hby : ∀ p ∈ ps, |p.2.val| ≤ My)
    (hsmall : ((ps.length : ℝ) + 28) * r.u ≤ 1/64) (hfirst : FirstExact ps)
    (hposx : 0 < T (fsts (vals ps)) / (ps.length : ℝ))
    (hposy : 0 < T (snds (vals ps)) / (ps.length : ℝ))
    (hcond : 4 * (ps.length : ℝ) * r.u * Mx ≤ Real.sqrt (T (fsts (vals ps)) / (ps.length : ℝ))
      ∨ 4 * (ps.length : ℝ) * r.u * My ≤ Real.sqrt (T (snds (vals ps)) / (ps.length : ℝ))) :
    |(ps.foldl (fun (s : Covariance (RF2 r)) p => s.add p.1 p.2)
          Covariance.new).populationCovariance.val - Cxy (vals ps) / (ps.length : ℝ)|
      ≤ 8 * ps.length
          * (1 + max (Mx / Real.sqrt (T (fsts (vals ps)) / (ps.length : ℝ)))
                     (My / Real.sqrt (T (snds (vals ps)) / (ps.length : ℝ)))) * r.u
          * (Real.sqrt (T (fsts (vals ps)) * T (snds (vals ps))) / (ps.length : ℝ)) := by
  have hnat : 1 ≤ ps.length := List.length_pos_of_ne_nil hne
  have hnpos : (0 : ℝ) < ps.length := by exact_mod_cast hnat
  set n : ℝ := (ps.length : ℝ) with hn
  set vx := T (fsts (vals ps)) / n with hvx
  set vy := T (snds (vals ps)) / n with hvy
  have hσx : 0 < Real.sqrt vx := Real.sqrt_pos.mpr hposx
  have hσy : 0 < Real.sqrt vy := Real.sqrt_pos.mpr hposy
  have hsqx : Real.sqrt vx ^ 2 = vx := Real.sq_sqrt hposx.le
  have hsqy : Real.sqrt vy ^ 2 = vy := Real.sq_sqrt hposy.le
  have h := popcov_error_envelope Mx My hMx hMy ps hne hbx hby hsmall hfirst (Real.sqrt vx)
    (Real.sqrt vy) hσx.le hσy.le (le_of_eq hsqx.symm) (le_of_eq hsqy.symm) hcond
  refine le_trans h (le_of_eq ?_)
  -- sqrt(Tx·Ty)/n = σx·σy
  have hTx : T (fsts (vals ps)) = n * vx := by rw [hvx]; field_simp
  have hTy : T (snds (vals ps)) = n * vy := by rw [hvy]; field_simp
  have hscale : Real.sqrt (T (fsts (vals ps)) * T (snds (vals ps))) / n
      = Real.sqrt vx * Real.sqrt vy := by
    have : T (fsts (vals ps)) * T (snds (vals ps)) = (n * (Real.sqrt vx * Real.sqrt vy))^2 := by
      rw [hTx, hTy, mul_pow, mul_pow, hsqx, hsqy]; ring
    rw [this, Real.sqrt_sq (by positivity)]
    field_simp
  rw [hscale]
  have hmax : max (Mx / Real.sqrt vx) (My / Real.sqrt vy) * (Real.sqrt vx * Real.sqrt vy)
      = max (Mx * Real.sqrt vy) (My * Real.sqrt vx) := by
    rw [max_mul_of_nonneg _ _ (by positivity)]
    congr 1 <;> field_simp
  calc 8 * n * r.u * (Real.sqrt vx * Real.sqrt vy + max (Mx * Real.sqrt vy) (My * Real.sqrt vx))
      = 8 * n * r.u * (Real.sqrt vx * Real.sqrt vy
          + max (Mx / Real.sqrt vx) (My / Real.sqrt vy) * (Real.sqrt vx * Real.sqrt vy)) := by
        rw [hmax]
    _ = _ := by ring

end CovErr

#print axioms CovErr.cov_fold_error_sharp_exact
#print axioms CovErr.cov_fold_error_sharp_std
#print axioms CovErr.popcov_error_envelope
#print axioms CovErr.popcov_envelope_kappa
