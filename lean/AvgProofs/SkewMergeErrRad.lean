import AvgProofs.SkewMergeErrV3
import AvgProofs.CovCanon
import Mathlib.Algebra.Order.Archimedean.Basic

/-!
# The scale `V3T` is not bounded by a constant times `V3 = Σ|x - mean|³`

`SkewMerge.rad k c`: the balanced merge tree with one-element leaves over the `2^k` values `c + ε_1 + … + ε_k`
(`ε_j = ±1`, leaves in lexicographic order). By induction (`rad_facts`): `n = 2^k`, mean `c`,
`T = k·2^k`, `U = 0`, `Σ(x-c)⁴ = 2^k·(3k² - 2k)`, and - every node at depth `j` merging two chunks of equal
size with `|δ| = 2` - `V3T = 3·2^k·k(k-1)/2`. By Cauchy-Schwarz `V3² ≤ T·Σ(x-c)⁴ ≤ 3·k³·4^k`. Hence
`(V3T/V3)² ≥ (3/4)·(k-1)²/k`, unbounded:

`SkewMerge.V3T_not_le_V3`: in an Archimedean ordered field, for every `C` there is a merge tree `t` with
`C·V3(t.flatten) < V3T t`. (For add-only streams, i.e. left combs, `V3T = V3p ≤ 40·V3`.)
-/
open Avg MSpec Finset VarSpec SkewSpec SkewErr

namespace SkewMerge
variable {K : Type} [Field K] [LinearOrder K] [IsStrictOrderedRing K]

/-- balanced tree with one-element leaves over `c + ε_1 + … + ε_k`, `ε_j = ±1` -/
def rad : ℕ → K → MTree K
  | 0, c => .leaf [c]
  | k + 1, c => .node (rad k (c + 1)) (rad k (c - 1))

/-- Cauchy-Schwarz: `(Σ|x - c|³)² ≤ Σ(x - c)²·Σ(x - c)⁴` -/
theorem V3c_sq_le (vs : List K) (c : K) : (V3c vs c)^2 ≤ sumPow vs c 2 * sumPow vs c 4 := by
  have h := coSum_sq_le (vs.map (fun x => (|x - c|, (x - c)^2))) 0 0
  have e1 : coSum (vs.map (fun x => (|x - c|, (x - c)^2))) 0 0 = V3c vs c := by
    unfold coSum V3c
    rw [List.map_map]
    congr 1
    apply List.map_congr_left
    intro x _
    simp only [Function.comp, sub_zero]
    rw [← sq_abs (x - c)]; ring
  have e2 : sumPow (fsts (vs.map (fun x => (|x - c|, (x - c)^2)))) 0 2 = sumPow vs c 2 := by
    unfold sumPow fsts
    rw [List.map_map, List.map_map]
    congr 1
    apply List.map_congr_left
    intro x _
    simp only [Function.comp, sub_zero, sq_abs]
  have e3 : sumPow (snds (vs.map (fun x => (|x - c|, (x - c)^2)))) 0 2 = sumPow vs c 4 := by
    unfold sumPow snds
    rw [List.map_map, List.map_map]
    congr 1
    apply List.map_congr_left
    intro x _
    simp only [Function.comp, sub_zero]
    ring
  rw [e1, e2, e3] at h
  exact h

/-- the exact statistics of `rad k c` -/
theorem rad_facts (k : ℕ) : ∀ c : K,
    (rad k c).flatten.length = 2^k ∧ mean (rad k c).flatten = c
    ∧ T (rad k c).flatten = (k : K) * 2^k ∧ U (rad k c).flatten = 0
    ∧ sumPow (rad k c).flatten c 4 = 2^k * (3 * (k : K)^2 - 2 * (k : K))
    ∧ V3T (rad k c) = 3 * 2^k * (k : K) * ((k : K) - 1) / 2 := by
  induction k with
  | zero =>
    intro c
    refine ⟨rfl, ?_, ?_, ?_, ?_, ?_⟩
    · simp [rad, mean]
    · simp [rad, T, mean]
    · simp [rad, U, mean]
    · simp [rad]
    · simp [rad, V3T, V3p, VA, VB, incA, incB, cA, T_nil]
  | succ k ih =>
    intro c
    obtain ⟨hl1, hl2, hl3, hl4, hl5, hl6⟩ := ih (c + 1)
    obtain ⟨hr1, hr2, hr3, hr4, hr5, hr6⟩ := ih (c - 1)
    set l := (rad k (c + 1)).flatten with hl
    set r := (rad k (c - 1)).flatten with hr
    have hfl : (rad (k + 1) c).flatten = l ++ r := rfl
    have hm0 : (0 : K) < 2^k := by positivity
    have hlK : (l.length : K) = 2^k := by rw [hl1]; push_cast; rfl
    have hrK : (r.length : K) = 2^k := by rw [hr1]; push_cast; rfl
    have hlne : l ≠ [] := by
      intro h; rw [h] at hl1
      exact (pow_pos (by norm_num : (0 : ℕ) < 2) k).ne hl1
    have hrne : r ≠ [] := by
      intro h; rw [h] at hr1
      exact (pow_pos (by norm_num : (0 : ℕ) < 2) k).ne hr1
    have hmean : mean (l ++ r) = c := by
      rw [mean_append l r hlne hrne, hl2, hr2, hlK, hrK]; field_simp; ring
    rw [hfl]
    refine ⟨?_, hmean, ?_, ?_, ?_, ?_⟩
    · rw [List.length_append, hl1, hr1]; ring
    · rw [T_append l r hlne hrne, hl3, hr3, hl2, hr2]
      unfold mergeW
      rw [hlK, hrK]; push_cast; field_simp; ring
    · rw [U_append, hl4, hr4]
      unfold crossP crossQ w3
      rw [hlK, hrK, hl3, hr3]; ring
    · have e4l := shift4 l c (c + 1)
      have e4r := shift4 r c (c - 1)
      have hU_l : sumPow l (c + 1) 3 = 0 := by
        have := hl4; unfold U at this; rw [hl2] at this; exact this
      have hU_r : sumPow r (c - 1) 3 = 0 := by
        have := hr4; unfold U at this; rw [hr2] at this; exact this
      have hT_l : sumPow l (c + 1) 2 = (k : K) * 2^k := by
        have := hl3; unfold T at this; rw [hl2] at this; exact this
      have hT_r : sumPow r (c - 1) 2 = (k : K) * 2^k := by
        have := hr3; unfold T at this; rw [hr2] at this; exact this
      have h1_l : sumPow l (c + 1) 1 = 0 := by
        have := sumPow_one_mean l; rw [hl2] at this; exact this
      have h1_r : sumPow r (c - 1) 1 = 0 := by
        have := sumPow_one_mean r; rw [hr2] at this; exact this
      rw [sumPow_append, e4l, e4r, hU_l, hU_r, hT_l, hT_r, h1_l, h1_r, sumPow_zero, sumPow_zero, hl5,
        hr5, hlK, hrK]
      push_cast; ring
    · show V3T (.node (rad k (c + 1)) (rad k (c - 1))) = _
      rw [V3T_node, hl6, hr6, ← hl, ← hr]
      unfold absJ absP absQ w3a mixH
      rw [hlK, hrK, hl3, hr3, hl2, hr2]
      have hδ : |c - 1 - (c + 1)| = (2 : K) := by
        have : c - 1 - (c + 1) = -2 := by ring
        rw [this, abs_neg, abs_two]
      rw [hδ, sub_self, abs_zero]
      push_cast; field_simp; ring

/-- `V3² ≤ 3·k³·4^k` for `rad k c` -/
theorem rad_V3_sq_le (k : ℕ) (c : K) :
    (V3 (rad k c).flatten)^2 ≤ 3 * (k : K)^3 * 4^k := by
  obtain ⟨_, h2, h3, _, h5, _⟩ := rad_facts k c
  have hcs := V3c_sq_le (rad k c).flatten c
  have hV : V3 (rad k c).flatten = V3c (rad k c).flatten c := by rw [V3_eq_V3c, h2]
  have hT : sumPow (rad k c).flatten c 2 = (k : K) * 2^k := by
    have := h3; unfold T at this; rw [h2] at this; exact this
  rw [hV]
  refine le_trans hcs ?_
  rw [hT, h5]
  have hk0 : (0 : K) ≤ k := Nat.cast_nonneg _
  have h4 : (4 : K)^k = 2^k * 2^k := by
    rw [← mul_pow]; norm_num
  rw [h4]
  have hp : (0 : K) ≤ 2^k * 2^k := by positivity
  have : (k : K) * (3 * (k : K)^2 - 2 * (k : K)) ≤ 3 * (k : K)^3 := by nlinarith [mul_nonneg hk0 hk0]
  calc (k : K) * 2^k * (2^k * (3 * (k : K)^2 - 2 * (k : K)))
      = ((k : K) * (3 * (k : K)^2 - 2 * (k : K))) * (2^k * 2^k) := by ring
    _ ≤ (3 * (k : K)^3) * (2^k * 2^k) := by gcongr
    _ = 3 * (k : K)^3 * (2^k * 2^k) := by ring

/-- **No universal constant.** In an Archimedean ordered field (`ℚ`, `ℝ`), for every `C` there is a merge tree
(balanced, one-element leaves) whose scale `V3T` exceeds `C·Σ|x - mean|³`. -/
theorem V3T_not_le_V3 [Archimedean K] (C : K) : ∃ t : MTree K, C * V3 t.flatten < V3T t := by
  obtain ⟨N, hN⟩ := exists_nat_ge (4/3 * C^2)
  refine ⟨rad (N + 3) 0, ?_⟩
  obtain ⟨_, _, _, _, _, h6⟩ := rad_facts (N + 3) (0 : K)
  have hV3 := rad_V3_sq_le (N + 3) (0 : K)
  have hV0 := V3_nonneg (rad (N + 3) (0 : K)).flatten
  set k : K := ((N + 3 : ℕ) : K) with hk
  have hkN : k = (N : K) + 3 := by rw [hk]; push_cast; ring
  have hN0 : (0 : K) ≤ N := Nat.cast_nonneg _
  have hk3 : 3 ≤ k := by linarith
  have hp : (0 : K) < 2^(N + 3) := by positivity
  have hVT0 : 0 < V3T (rad (N + 3) (0 : K)) := by
    rw [h6]
    have h1 : 0 < k - 1 := by linarith
    have hk0 : 0 < k := by linarith
    exact div_pos (mul_pos (mul_pos (mul_pos (by norm_num) hp) hk0) h1) (by norm_num)
  rcases le_or_gt C 0 with hC | hC
  · have : C * V3 (rad (N + 3) (0 : K)).flatten ≤ 0 := mul_nonpos_of_nonpos_of_nonneg hC hV0
    linarith
  · refine lt_of_pow_lt_pow_left₀ 2 hVT0.le ?_
    rw [mul_pow, h6]
    have h4 : (4 : K)^(N + 3) = 2^(N + 3) * 2^(N + 3) := by
      rw [← mul_pow]; norm_num
    -- `(4/3)·C²·k < (k-1)²`
    have key : 4/3 * C^2 * k < (k - 1)^2 := by
      have h1 : 4/3 * C^2 * k ≤ (N : K) * k := by gcongr
      have h2 : (N : K) * k < (k - 1)^2 := by rw [hkN]; nlinarith
      linarith
    have hC2 : 0 ≤ C^2 := sq_nonneg C
    calc C^2 * (V3 (rad (N + 3) (0 : K)).flatten)^2 ≤ C^2 * (3 * k^3 * 4^(N + 3)) := by gcongr
      _ = (9/4 * k^2 * (2^(N + 3) * 2^(N + 3))) * (4/3 * C^2 * k) := by rw [h4]; ring
      _ < (9/4 * k^2 * (2^(N + 3) * 2^(N + 3))) * (k - 1)^2 := by
          have : 0 < 9/4 * k^2 * ((2 : K)^(N + 3) * 2^(N + 3)) := by positivity
          gcongr
      _ = (3 * 2^(N + 3) * k * (k - 1) / 2)^2 := by ring

end SkewMerge

#print axioms SkewMerge.rad_facts
#print axioms SkewMerge.V3T_not_le_V3
