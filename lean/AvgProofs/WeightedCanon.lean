import AvgModel.Weighted
import AvgProofs.MomentsCanon
import AvgProofs.Project
import AvgProofs.RealCarrier
import AvgProofs.MTree

/-!
# Canonical states of `WeightedMean` and `WeightedMeanWithError`

Streams of pairs `(x, w)` = (sample, weight). `W ps = Σw`, `WX ps = Σ w·x`, `W2 ps = Σ w²`.
`canonW ps = ⟨Σw, Σwx/Σw⟩` (average `0` while `Σw = 0`, as `new` has it).
The carrier is an ordered field with a `FloatOps` whose `eqb` is exact equality (`ExactEqb`).
-/
open Avg

/-- `FloatOps.eqb` is exact equality (true of IEEE `==` away from NaN and signed zeros; true of
the exact carriers) -/
class ExactEqb (K : Type) [FloatOps K] : Prop where
  eqb_iff : ∀ a b : K, FloatOps.eqb a b = true ↔ a = b

instance : ExactEqb ℝ := ⟨fun a b => by
  show decide (a = b) = true ↔ a = b
  exact decide_eq_true_iff⟩

/-- exact reading of the comparisons over any ordered field (`sqrt`, `pow15`, `ceilInt` are fillers:
use `ℝ` where they matter) -/
@[reducible] def fieldFloatOps (K : Type) [Field K] [LinearOrder K] : FloatOps K where
  nan := 0
  posInf := 0
  negInf := 0
  sqrt := id
  pow15 := id
  lt := fun a b => decide (a < b)
  eqb := fun a b => decide (a = b)
  isNaN := fun _ => false
  fmin := min
  fmax := max
  ceilInt := fun _ => 0
  ordLt := fun a b => decide (a < b)

theorem fieldFloatOps_exact (K : Type) [Field K] [LinearOrder K] : @ExactEqb K (fieldFloatOps K) :=
  @ExactEqb.mk K (fieldFloatOps K) (fun a b => by
    show decide (a = b) = true ↔ a = b
    exact decide_eq_true_iff)

namespace Avg
variable {α : Type} [Add α] [Sub α] [Mul α] [Div α] [NatCast α] [FloatOps α]

/-- one pair `(sample, weight)` -/
abbrev WeightedMean.addP (s : WeightedMean α) (p : α × α) : WeightedMean α := s.add p.1 p.2
abbrev WeightedMeanWithError.addP (s : WeightedMeanWithError α) (p : α × α) :
    WeightedMeanWithError α := s.add p.1 p.2

/-! projections of the `WeightedMeanWithError` fold (any carrier) -/
theorem WeightedMeanWithError.fold_weighted_avg (ps : List (α × α)) (s : WeightedMeanWithError α) :
    (ps.foldl WeightedMeanWithError.addP s).weighted_avg
      = ps.foldl WeightedMean.addP s.weighted_avg := by
  induction ps generalizing s with
  | nil => rfl
  | cons p ps ih => rw [List.foldl_cons, ih]; rfl

theorem WeightedMeanWithError.fold_unweighted_avg (ps : List (α × α)) (s : WeightedMeanWithError α) :
    (ps.foldl WeightedMeanWithError.addP s).unweighted_avg
      = (ps.map Prod.fst).foldl Variance.add s.unweighted_avg := by
  induction ps generalizing s with
  | nil => rfl
  | cons p ps ih => rw [List.foldl_cons, ih]; rfl

theorem WeightedMeanWithError.fold_weight_sum_sq (ps : List (α × α)) (s : WeightedMeanWithError α) :
    (ps.foldl WeightedMeanWithError.addP s).weight_sum_sq
      = ps.foldl (fun a p => a + p.2 * p.2) s.weight_sum_sq := by
  induction ps generalizing s with
  | nil => rfl
  | cons p ps ih => rw [List.foldl_cons, ih]; rfl

end Avg

namespace MSpec
variable {K : Type} [Field K]

/-- Σ w -/
def W (ps : List (K × K)) : K := (ps.map Prod.snd).sum
/-- Σ w·x -/
def WX (ps : List (K × K)) : K := (ps.map fun p => p.2 * p.1).sum
/-- Σ w² -/
def W2 (ps : List (K × K)) : K := (ps.map fun p => p.2 * p.2).sum

@[simp] theorem W_nil : W ([] : List (K × K)) = 0 := by simp [W]
@[simp] theorem WX_nil : WX ([] : List (K × K)) = 0 := by simp [WX]
@[simp] theorem W2_nil : W2 ([] : List (K × K)) = 0 := by simp [W2]
@[simp] theorem W_cons (p : K × K) (ps) : W (p :: ps) = p.2 + W ps := by simp [W]
@[simp] theorem WX_cons (p : K × K) (ps) : WX (p :: ps) = p.2 * p.1 + WX ps := by simp [WX]
@[simp] theorem W2_cons (p : K × K) (ps) : W2 (p :: ps) = p.2 * p.2 + W2 ps := by simp [W2]
theorem W_append (ps qs : List (K × K)) : W (ps ++ qs) = W ps + W qs := by simp [W]
theorem WX_append (ps qs : List (K × K)) : WX (ps ++ qs) = WX ps + WX qs := by simp [WX]
theorem W2_append (ps qs : List (K × K)) : W2 (ps ++ qs) = W2 ps + W2 qs := by simp [W2]

/-- all weights are `≥ 0` -/
def NonnegW [LE K] (ps : List (K × K)) : Prop := ∀ p ∈ ps, 0 ≤ p.2

section ordered
variable [LinearOrder K] [IsStrictOrderedRing K]

omit [IsStrictOrderedRing K] in
theorem NonnegW.append {ps qs : List (K × K)} (hp : NonnegW ps) (hq : NonnegW qs) : NonnegW (ps ++ qs) := by
  intro p h; rcases List.mem_append.1 h with h | h
  · exact hp p h
  · exact hq p h

omit [IsStrictOrderedRing K] in
theorem NonnegW.left {ps qs : List (K × K)} (h : NonnegW (ps ++ qs)) : NonnegW ps :=
  fun p hp => h p (List.mem_append_left _ hp)
omit [IsStrictOrderedRing K] in
theorem NonnegW.right {ps qs : List (K × K)} (h : NonnegW (ps ++ qs)) : NonnegW qs :=
  fun p hp => h p (List.mem_append_right _ hp)

theorem W_nonneg {ps : List (K × K)} (h : NonnegW ps) : 0 ≤ W ps := by
  induction ps with
  | nil => simp
  | cons p ps ih =>
    rw [W_cons]
    exact add_nonneg (h p List.mem_cons_self) (ih fun q hq => h q (List.mem_cons_of_mem _ hq))

/-- non-negative weights with sum zero are all zero, so `Σwx = 0` and `Σw² = 0` too -/
theorem W_eq_zero {ps : List (K × K)} (h : NonnegW ps) (h0 : W ps = 0) : WX ps = 0 ∧ W2 ps = 0 := by
  induction ps with
  | nil => simp
  | cons p ps ih =>
    have hp := h p List.mem_cons_self
    have hps : NonnegW ps := fun q hq => h q (List.mem_cons_of_mem _ hq)
    have hW := W_nonneg hps
    rw [W_cons] at h0
    have hp0 : p.2 = 0 := by linarith
    have hW0 : W ps = 0 := by linarith
    obtain ⟨i1, i2⟩ := ih hps hW0
    rw [WX_cons, W2_cons, i1, i2, hp0]; simp

theorem W2_nonneg (ps : List (K × K)) : 0 ≤ W2 ps := by
  induction ps with
  | nil => simp
  | cons p ps ih => rw [W2_cons]; exact add_nonneg (mul_self_nonneg _) ih

/-- a positive total weight makes `Σw²` positive -/
theorem W2_pos {ps : List (K × K)} (h0 : W ps ≠ 0) : 0 < W2 ps := by
  induction ps with
  | nil => simp at h0
  | cons p ps ih =>
    rw [W2_cons]
    by_cases hp : p.2 = 0
    · rw [W_cons, hp, zero_add] at h0
      rw [hp]; simpa using ih h0
    · exact add_pos_of_pos_of_nonneg (mul_self_pos.mpr hp) (W2_nonneg ps)

/-- `⟨Σw, Σwx/Σw⟩`, with the average still `0` while `Σw = 0` -/
def canonW (ps : List (K × K)) : WeightedMean K :=
  ⟨W ps, if W ps = 0 then 0 else WX ps / W ps⟩

/-- `⟨Σw², canonW, (mean x, n, Σ(x-mean)²)⟩` -/
def canonWE (ps : List (K × K)) : WeightedMeanWithError K :=
  ⟨W2 ps, canonW ps, canonV (ps.map Prod.fst)⟩

variable [FloatOps K] [ExactEqb K]

theorem eqb_zero_true {a : K} (h : a = 0) : FloatOps.eqb a ((0:Nat):K) = true := by
  rw [ExactEqb.eqb_iff]; simpa using h
theorem eqb_zero_false {a : K} (h : a ≠ 0) : FloatOps.eqb a ((0:Nat):K) = false := by
  rw [Bool.eq_false_iff]; intro h'; rw [ExactEqb.eqb_iff] at h'; exact h (by simpa using h')

omit [LinearOrder K] [IsStrictOrderedRing K] in
theorem WeightedMean_isEmpty_iff (s : WeightedMean K) : s.isEmpty = true ↔ s.weight_sum = 0 := by
  unfold WeightedMean.isEmpty; rw [ExactEqb.eqb_iff]; simp

omit [FloatOps K] [ExactEqb K] in
theorem canonW_nil : canonW ([] : List (K × K)) = WeightedMean.new := by
  simp [canonW, WeightedMean.new]

theorem wmean_add (ps : List (K × K)) (hps : NonnegW ps) (x w : K) (hw : 0 ≤ w) :
    (canonW ps).add x w = canonW (ps ++ [(x, w)]) := by
  have hW := W_nonneg hps
  have hW' : W (ps ++ [(x, w)]) = W ps + w := by simp [W_append]
  have hWX' : WX (ps ++ [(x, w)]) = WX ps + w * x := by simp [WX_append]
  unfold WeightedMean.add canonW
  rw [hW', hWX']
  by_cases h0 : W ps + w = 0
  · have hw0 : w = 0 := by linarith
    have hW0 : W ps = 0 := by linarith
    simp only [eqb_zero_true (a := (0:K)) rfl, if_true, h0]
    simp only [hW0, if_true]
  · simp only [eqb_zero_false h0, h0, if_false, Bool.false_eq_true]
    congr 1
    by_cases hW0 : W ps = 0
    · have hWX0 := (W_eq_zero hps hW0).1
      have hw0 : w ≠ 0 := by rw [hW0, zero_add] at h0; exact h0
      rw [if_pos hW0, hW0, hWX0]; field_simp; ring
    · rw [if_neg hW0]; field_simp; ring

theorem wmean_fold (ps : List (K × K)) (hps : NonnegW ps) :
    ps.foldl WeightedMean.addP WeightedMean.new = canonW ps := by
  induction ps using List.reverseRecOn with
  | nil => simp [canonW_nil]
  | append_singleton ps p ih =>
    rw [List.foldl_append, ih hps.left]
    exact wmean_add ps hps.left p.1 p.2 (hps p (by simp))

theorem wmean_merge (ps qs : List (K × K)) (hps : NonnegW ps) (hqs : NonnegW qs) :
    (canonW ps).merge (canonW qs) = canonW (ps ++ qs) := by
  have hWp := W_nonneg hps
  have hWq := W_nonneg hqs
  unfold WeightedMean.merge
  by_cases hq : W qs = 0
  · have e : (canonW qs).isEmpty = true := (WeightedMean_isEmpty_iff _).2 hq
    rw [if_pos e]
    simp only [canonW, W_append, WX_append, hq, (W_eq_zero hqs hq).1, add_zero]
  have e : ¬ (canonW qs).isEmpty = true := fun h => hq ((WeightedMean_isEmpty_iff _).1 h)
  rw [if_neg e]
  by_cases hp : W ps = 0
  · have e' : (canonW ps).isEmpty = true := (WeightedMean_isEmpty_iff _).2 hp
    rw [if_pos e']
    simp only [canonW, W_append, WX_append, hp, (W_eq_zero hps hp).1, zero_add]
  have e' : ¬ (canonW ps).isEmpty = true := fun h => hp ((WeightedMean_isEmpty_iff _).1 h)
  rw [if_neg e']
  have hpq : W ps + W qs ≠ 0 := by
    have : 0 < W ps := lt_of_le_of_ne hWp (Ne.symm hp)
    have : 0 < W ps + W qs := by linarith
    exact this.ne'
  simp only [canonW, W_append, WX_append, hp, hq, hpq, if_false]
  congr 1
  field_simp

theorem wmean_mtree (t : MTree (K × K)) (h : NonnegW t.flatten) :
    t.eval WeightedMean.new WeightedMean.addP WeightedMean.merge = canonW t.flatten := by
  induction t with
  | leaf xs => exact wmean_fold xs h
  | node l r ihl ihr =>
    rw [MTree.eval_node, ihl h.left, ihr h.right, MTree.flatten_node, wmean_merge _ _ h.left h.right]

/-! ## WeightedMeanWithError -/

omit [LinearOrder K] [IsStrictOrderedRing K] [FloatOps K] [ExactEqb K] in
theorem variance_add [CharZero K] (xs : List K) (x : K) : (canonV xs).add x = canonV (xs ++ [x]) := by
  show ((canonK xs).add x).avg.avg = _
  rw [kurtosis_add]; rfl

omit [LinearOrder K] [IsStrictOrderedRing K] [FloatOps K] [ExactEqb K] in
theorem variance_merge [CharZero K] (xs ys : List K) :
    (canonV xs).merge (canonV ys) = canonV (xs ++ ys) := by
  unfold canonV
  rw [← Skewness.merge_avg, ← Kurtosis.merge_avg, kurtosis_merge]

omit [FloatOps K] [ExactEqb K] in
theorem canonWE_nil : canonWE ([] : List (K × K)) = WeightedMeanWithError.new := by
  simp only [canonWE, WeightedMeanWithError.new, canonW_nil, W2_nil, List.map_nil, canonV, canonK_nil]
  simp [Kurtosis.new, Skewness.new]

theorem wmwe_add (ps : List (K × K)) (hps : NonnegW ps) (x w : K) (hw : 0 ≤ w) :
    (canonWE ps).add x w = canonWE (ps ++ [(x, w)]) := by
  unfold WeightedMeanWithError.add canonWE
  simp only [wmean_add ps hps x w hw, variance_add, W2_append, W2_cons, W2_nil, add_zero,
    List.map_append, List.map_cons, List.map_nil]

theorem wmwe_fold (ps : List (K × K)) (hps : NonnegW ps) :
    ps.foldl WeightedMeanWithError.addP WeightedMeanWithError.new = canonWE ps := by
  induction ps using List.reverseRecOn with
  | nil => simp [canonWE_nil]
  | append_singleton ps p ih =>
    rw [List.foldl_append, ih hps.left]
    exact wmwe_add ps hps.left p.1 p.2 (hps p (by simp))

theorem wmwe_merge (ps qs : List (K × K)) (hps : NonnegW ps) (hqs : NonnegW qs) :
    (canonWE ps).merge (canonWE qs) = canonWE (ps ++ qs) := by
  unfold WeightedMeanWithError.merge canonWE
  simp only [wmean_merge ps qs hps hqs, variance_merge, W2_append, List.map_append]

theorem wmwe_mtree (t : MTree (K × K)) (h : NonnegW t.flatten) :
    t.eval WeightedMeanWithError.new WeightedMeanWithError.addP WeightedMeanWithError.merge
      = canonWE t.flatten := by
  induction t with
  | leaf xs => exact wmwe_fold xs h
  | node l r ihl ihr =>
    rw [MTree.eval_node, ihl h.left, ihr h.right, MTree.flatten_node, wmwe_merge _ _ h.left h.right]

end ordered
end MSpec
