import AvgProofs.PearsonErr
import AvgProofs.CovMergeErrAccess

/-!
# Forward error of `Covariance.pearson` through every merge tree

Over ℝ, rounding `r : Rnd2 ℝ`, rounded square root `q : RndSqrt r`; `t : MTree (RF2 r × RF2 r)` any merge tree
of pairs.

* `pearson_mtree_val`: `pearson = fl(sum_prod / sqrtfl(fl(sum_x_2·sum_y_2)))` for `n ≥ 2` (count exact on any
  carrier, `Covariance.mtree_n`).
* `pearson_mtree_numerals` / `pearson_mtree_numerals_wide`: with `x = n·u`, `a = n·u·κ'`, `2u ≤ x`,
  `ε = 10x + 17a + 45a²`, `εp = 5x + (17/2+16)a + 44a² + δ` (the numerals of `CovMerge.cov_mtree_error_lin`,
  `VarMerge.var_mtree_error_lin`; `δ ≥ 0` the first-pair term), `γ = ε + u + u(1+ε+u)`:
  `x + a ≤ 1/160` ⟹ `(1+u)(εp+γ)/(1-γ) + u ≤ 48(x+a) + (113/100)δ`;
  `x + a ≤ 1/64` ⟹ `≤ 60(x+a) + (7/5)δ`.
* `pearson_mtree_error_gen`: the accessor after any tree, symbolic in the factor `(1+u)(εp+γ)/(1-γ) + u`;
  `pearson_mtree_error`, `pearson_mtree_error_wide`: numerals inserted.
-/
open Avg MSpec Finset VarSpec CovSpec CovErr CovMerge
set_option linter.unusedSectionVars false

/-- numerals, `x + a ≤ 1/160`: the total is at most `48·(x + a) + (113/100)·δ` -/
theorem pearson_mtree_numerals (u x a δ : ℝ) (hu0 : 0 ≤ u) (hux : 2 * u ≤ x) (ha0 : 0 ≤ a)
    (hxa : x + a ≤ 1/160) (hδ : 0 ≤ δ) :
    let ε := 10 * x + 17 * a + 45 * a^2
    let εp := 5 * x + (17/2 + 16) * a + 44 * a^2 + δ
    let γ := ε + u + u * (1 + ε + u)
    0 ≤ ε ∧ ε + u ≤ 1 ∧ 0 ≤ γ ∧ γ < 1
      ∧ (1 + u) * ((εp + γ) / (1 - γ)) + u ≤ 48 * (x + a) + 113/100 * δ := by
  intro ε εp γ
  have hx0 : 0 ≤ x := by linarith
  have ha160 : a ≤ 1/160 := by linarith
  have hu320 : u ≤ 1/320 := by linarith
  have ha2 : a^2 ≤ a * (1/160) := by rw [sq]; exact mul_le_mul_of_nonneg_left ha160 ha0
  have ha20 : 0 ≤ a^2 := sq_nonneg a
  have hε0 : 0 ≤ ε := by positivity
  have hε : ε ≤ 10 * x + 1729/100 * a := by simp only [ε]; linarith
  have hε9 : ε ≤ 109/1000 := by linarith
  have huε : u * (1 + ε + u) ≤ u * (1 + 109/1000 + 1/320) :=
    mul_le_mul_of_nonneg_left (by linarith) hu0
  have hγ0 : 0 ≤ γ := by positivity
  have hγ : γ ≤ 1106/100 * x + 1729/100 * a := by simp only [γ]; linarith
  have hγ11 : γ ≤ 109/1000 := by linarith
  have hεp0 : 0 ≤ εp := by positivity
  have hsum : εp + γ ≤ 1606/100 * x + 4207/100 * a + δ := by simp only [εp]; linarith
  refine ⟨hε0, by linarith, hγ0, by linarith, ?_⟩
  have h1γ : 0 < 1 - γ := by linarith
  have hZ0 : 0 ≤ εp + γ := by linarith
  have hfrac : (1 + u) * ((εp + γ) / (1 - γ)) ≤ 113/100 * (εp + γ) := by
    rw [← mul_div_assoc, div_le_iff₀ h1γ]
    have : (1 + u) ≤ 113/100 * (1 - γ) := by linarith
    calc (1 + u) * (εp + γ) ≤ (113/100 * (1 - γ)) * (εp + γ) := mul_le_mul_of_nonneg_right this hZ0
      _ = _ := by ring
  linarith

/-- numerals, `x + a ≤ 1/64`: the total is at most `60·(x + a) + (7/5)·δ` -/
theorem pearson_mtree_numerals_wide (u x a δ : ℝ) (hu0 : 0 ≤ u) (hux : 2 * u ≤ x) (ha0 : 0 ≤ a)
    (hxa : x + a ≤ 1/64) (hδ : 0 ≤ δ) :
    let ε := 10 * x + 17 * a + 45 * a^2
    let εp := 5 * x + (17/2 + 16) * a + 44 * a^2 + δ
    let γ := ε + u + u * (1 + ε + u)
    0 ≤ ε ∧ ε + u ≤ 1 ∧ 0 ≤ γ ∧ γ < 1
      ∧ (1 + u) * ((εp + γ) / (1 - γ)) + u ≤ 60 * (x + a) + 7/5 * δ := by
  intro ε εp γ
  have hx0 : 0 ≤ x := by linarith
  have ha64 : a ≤ 1/64 := by linarith
  have hu128 : u ≤ 1/128 := by linarith
  have ha2 : a^2 ≤ a * (1/64) := by rw [sq]; exact mul_le_mul_of_nonneg_left ha64 ha0
  have ha20 : 0 ≤ a^2 := sq_nonneg a
  have hε0 : 0 ≤ ε := by positivity
  have hε : ε ≤ 10 * x + 17704/1000 * a := by simp only [ε]; linarith
  have hε9 : ε ≤ 2767/10000 := by linarith
  have huε : u * (1 + ε + u) ≤ u * (1 + 2767/10000 + 1/128) :=
    mul_le_mul_of_nonneg_left (by linarith) hu0
  have hγ0 : 0 ≤ γ := by positivity
  have hγ : γ ≤ 11143/1000 * x + 17704/1000 * a := by simp only [γ]; linarith
  have hγ11 : γ ≤ 2767/10000 := by linarith
  have hεp0 : 0 ≤ εp := by positivity
  have hsum : εp + γ ≤ 16143/1000 * x + 42892/1000 * a + δ := by simp only [εp]; linarith
  refine ⟨hε0, by linarith, hγ0, by linarith, ?_⟩
  have h1γ : 0 < 1 - γ := by linarith
  have hZ0 : 0 ≤ εp + γ := by linarith
  have hfrac : (1 + u) * ((εp + γ) / (1 - γ)) ≤ 1394/1000 * (εp + γ) := by
    rw [← mul_div_assoc, div_le_iff₀ h1γ]
    have : (1 + u) ≤ 1394/1000 * (1 - γ) := by linarith
    calc (1 + u) * (εp + γ) ≤ (1394/1000 * (1 - γ)) * (εp + γ) := mul_le_mul_of_nonneg_right this hZ0
      _ = _ := by ring
  linarith

section model
variable {r : Rnd2 ℝ} [FloatOps (RF2 r)]

/-- what `pearson` computes after any merge tree over `n ≥ 2` pairs when the instance takes square roots
with `q.sqrtfl` -/
theorem pearson_mtree_val (q : RndSqrt r) (hs : SqrtIs q) (t : MTree (RF2 r × RF2 r))
    (h2 : 2 ≤ t.flatten.length) :
    (Covariance.evalTree t).pearson.val
      = r.fl ((Covariance.evalTree t).sum_prod.val
          / q.sqrtfl (r.fl ((Covariance.evalTree t).sum_x_2.val
                            * (Covariance.evalTree t).sum_y_2.val))) := by
  have hn := Covariance.mtree_n t
  unfold Covariance.pearson
  rw [hn, if_neg (by omega)]
  set S := Covariance.evalTree t
  show r.fl (S.sum_prod.val / (FloatOps.sqrt (S.sum_x_2 * S.sum_y_2)).val) = _
  rw [hs]
  rfl

/-- **`pearson`, every merge tree, symbolic in the factor.** `n ≥ 2` pairs, `|x| ≤ Mx`, `|y| ≤ My`,
`n·u ≤ 1/64`, `εf` a first-pair bound for every chunk, `L` the number of non-empty chunks; `σx, σy > 0` with
`σx² = T_x/n`, `σy² = T_y/n`; `κ' ≥ 0` with `Mx ≤ κ'·σx`, `My ≤ κ'·σy`; `x = n·u`, `a = n·u·κ'`,
`ε = 10x + 17a + 45a²`, `εp = 5x + (17/2+16)a + 44a² + (5/4)·εf·Mx·L/(n·σx·σy)`, `γ = ε + u + u(1+ε+u)`;
if `ε + u ≤ 1` and `γ < 1` then `|pearson - C/√(T_x·T_y)| ≤ (1+u)(εp+γ)/(1-γ) + u`. -/
theorem pearson_mtree_error_gen (q : RndSqrt r) (hs : SqrtIs q) (Mx My εf : ℝ) (hMx : 0 ≤ Mx)
    (hMy : 0 ≤ My) (hεf : 0 ≤ εf) (t : MTree (RF2 r × RF2 r)) (h2 : 2 ≤ t.flatten.length)
    (hbx : ∀ p ∈ t.flatten, |p.1.val| ≤ Mx) (hby : ∀ p ∈ t.flatten, |p.2.val| ≤ My)
    (hsmall : (t.flatten.length : ℝ) * r.u ≤ 1/64) (hfirst : FirstEps t εf)
    (σx σy κ' : ℝ) (hσx : 0 < σx) (hσy : 0 < σy)
    (hvx : σx^2 = T (fsts (vals t.flatten)) / (t.flatten.length : ℝ))
    (hvy : σy^2 = T (snds (vals t.flatten)) / (t.flatten.length : ℝ))
    (hκ0 : 0 ≤ κ') (hκx : Mx ≤ κ' * σx) (hκy : My ≤ κ' * σy)
    (hεu : 10 * ((t.flatten.length : ℝ) * r.u) + 17 * ((t.flatten.length : ℝ) * r.u * κ')
        + 45 * ((t.flatten.length : ℝ) * r.u * κ')^2 + r.u ≤ 1)
    (hγ1 : (10 * ((t.flatten.length : ℝ) * r.u) + 17 * ((t.flatten.length : ℝ) * r.u * κ')
          + 45 * ((t.flatten.length : ℝ) * r.u * κ')^2) + r.u
        + r.u * (1 + (10 * ((t.flatten.length : ℝ) * r.u) + 17 * ((t.flatten.length : ℝ) * r.u * κ')
          + 45 * ((t.flatten.length : ℝ) * r.u * κ')^2) + r.u) < 1) :
    |(Covariance.evalTree t).pearson.val
        - Cxy (vals t.flatten) / Real.sqrt (T (fsts (vals t.flatten)) * T (snds (vals t.flatten)))|
      ≤ (1 + r.u) * (((5 * ((t.flatten.length : ℝ) * r.u)
              + (17/2 + 16) * ((t.flatten.length : ℝ) * r.u * κ')
              + 44 * ((t.flatten.length : ℝ) * r.u * κ')^2
              + 5/4 * (εf * Mx) * (t.neLeaves : ℝ) / ((t.flatten.length : ℝ) * σx * σy))
            + ((10 * ((t.flatten.length : ℝ) * r.u) + 17 * ((t.flatten.length : ℝ) * r.u * κ')
                + 45 * ((t.flatten.length : ℝ) * r.u * κ')^2) + r.u
              + r.u * (1 + (10 * ((t.flatten.length : ℝ) * r.u)
                + 17 * ((t.flatten.length : ℝ) * r.u * κ')
                + 45 * ((t.flatten.length : ℝ) * r.u * κ')^2) + r.u)))
          / (1 - ((10 * ((t.flatten.length : ℝ) * r.u) + 17 * ((t.flatten.length : ℝ) * r.u * κ')
                + 45 * ((t.flatten.length : ℝ) * r.u * κ')^2) + r.u
              + r.u * (1 + (10 * ((t.flatten.length : ℝ) * r.u)
                + 17 * ((t.flatten.length : ℝ) * r.u * κ')
                + 45 * ((t.flatten.length : ℝ) * r.u * κ')^2) + r.u)))) + r.u := by
  have hu := r.u_nonneg
  have hn2 : (2:ℝ) ≤ (t.flatten.length : ℝ) := by exact_mod_cast h2
  set n : ℝ := (t.flatten.length : ℝ) with hn
  have hnpos : 0 < n := by linarith
  set Tx := T (fsts (vals t.flatten)) with hTx
  set Ty := T (snds (vals t.flatten)) with hTy
  have eTx : Tx = n * σx^2 := by rw [hvx]; field_simp
  have eTy : Ty = n * σy^2 := by rw [hvy]; field_simp
  have hTxpos : 0 < Tx := by rw [eTx]; positivity
  have hTypos : 0 < Ty := by rw [eTy]; positivity
  set D := n * σx * σy with hD
  have hDpos : 0 < D := by positivity
  have hTT : Tx * Ty = D^2 := by rw [eTx, eTy, hD]; ring
  have hsqrt : Real.sqrt (Tx * Ty) = D := by rw [hTT]; exact Real.sqrt_sq hDpos.le
  set x := n * r.u with hx
  set a := n * r.u * κ' with ha
  have hx0 : 0 ≤ x := by positivity
  have ha0 : 0 ≤ a := by positivity
  set ε := 10 * x + 17 * a + 45 * a^2 with hεdef
  set δ := 5/4 * (εf * Mx) * (t.neLeaves : ℝ) / D with hδdef
  have hL0 : (0:ℝ) ≤ (t.neLeaves : ℝ) := Nat.cast_nonneg _
  have hδ0 : 0 ≤ δ := by positivity
  set εp := 5 * x + (17/2 + 16) * a + 44 * a^2 + δ with hεpdef
  have hε0 : 0 ≤ ε := by positivity
  have hγ0 : 0 ≤ ε + r.u + r.u * (1 + ε + r.u) := by positivity
  -- the three accumulators
  have hSx := sum_x_2_mtree_error_lin r Mx hMx t hbx hsmall (n * σx) (by positivity)
    (by rw [← hTx, eTx]; apply le_of_eq; ring)
  have hSy := sum_y_2_mtree_error_lin r My hMy t hby hsmall (n * σy) (by positivity)
    (by rw [← hTy, eTy]; apply le_of_eq; ring)
  have hSp := cov_mtree_error_lin r Mx My εf hMx hMy hεf t hbx hby hsmall hfirst D (n * σx) (n * σy)
    hDpos.le (by positivity) (by positivity) (le_of_eq hTT)
    (by rw [← hTx, eTx]; apply le_of_eq; ring) (by rw [← hTy, eTy]; apply le_of_eq; ring)
  set S := Covariance.evalTree t with hS
  rw [← hn, ← hTx] at hSx
  rw [← hn, ← hTy] at hSy
  rw [← hn] at hSp
  have hSx' : |S.sum_x_2.val - Tx| ≤ ε * Tx := by
    refine le_trans hSx ?_
    have t1 : n * r.u * Mx * (n * σx) ≤ a * Tx := by
      rw [ha, eTx]
      calc n * r.u * Mx * (n * σx) ≤ n * r.u * (κ' * σx) * (n * σx) := by gcongr
        _ = _ := by ring
    have t2 : n^3 * r.u^2 * Mx^2 ≤ a^2 * Tx := by
      rw [ha, eTx]
      have : Mx^2 ≤ (κ' * σx)^2 := by gcongr
      calc n^3 * r.u^2 * Mx^2 ≤ n^3 * r.u^2 * (κ' * σx)^2 := by gcongr
        _ = _ := by ring
    rw [hεdef, hx]
    linarith
  have hSy' : |S.sum_y_2.val - Ty| ≤ ε * Ty := by
    refine le_trans hSy ?_
    have t1 : n * r.u * My * (n * σy) ≤ a * Ty := by
      rw [ha, eTy]
      calc n * r.u * My * (n * σy) ≤ n * r.u * (κ' * σy) * (n * σy) := by gcongr
        _ = _ := by ring
    have t2 : n^3 * r.u^2 * My^2 ≤ a^2 * Ty := by
      rw [ha, eTy]
      have : My^2 ≤ (κ' * σy)^2 := by gcongr
      calc n^3 * r.u^2 * My^2 ≤ n^3 * r.u^2 * (κ' * σy)^2 := by gcongr
        _ = _ := by ring
    rw [hεdef, hx]
    linarith
  have hSp' : |S.sum_prod.val - Cxy (vals t.flatten)| ≤ εp * D := by
    refine le_trans hSp ?_
    have t1 : n * r.u * Mx * (n * σy) ≤ a * D := by
      rw [ha, hD]
      calc n * r.u * Mx * (n * σy) ≤ n * r.u * (κ' * σx) * (n * σy) := by gcongr
        _ = _ := by ring
    have t2 : n * r.u * My * (n * σx) ≤ a * D := by
      rw [ha, hD]
      calc n * r.u * My * (n * σx) ≤ n * r.u * (κ' * σy) * (n * σx) := by gcongr
        _ = _ := by ring
    have t3 : n^3 * r.u^2 * Mx * My ≤ a^2 * D := by
      rw [ha, hD]
      calc n^3 * r.u^2 * Mx * My ≤ n^3 * r.u^2 * (κ' * σx) * (κ' * σy) := by gcongr
        _ = _ := by ring
    have t4 : 5/4 * (εf * Mx) * (t.neLeaves : ℝ) = δ * D := by
      rw [hδdef]; field_simp
    rw [hεpdef, hx]
    linarith
  have hC : |Cxy (vals t.flatten)| ≤ D :=
    (abs_Cxy_le_of_var (vals t.flatten) n σx σy hnpos hσx.le hσy.le (le_of_eq hvx.symm)
      (le_of_eq hvy.symm)).2
  have hQ := sqrt_prod_error r q S.sum_x_2.val S.sum_y_2.val Tx Ty ε hTxpos hTypos hε0 hεu hSx' hSy'
  rw [hsqrt] at hQ ⊢
  rw [pearson_mtree_val q hs t h2]
  exact pearson_core r S.sum_prod.val (Cxy (vals t.flatten)) _ D εp _ hDpos hC hSp' hQ hγ0 hγ1

/-- **`pearson`, every merge tree.** `n ≥ 2` pairs, `|x| ≤ Mx`, `|y| ≤ My`, `εf` a first-pair bound for every
chunk, `L` the number of non-empty chunks; `σx² = T_x/n`, `σy² = T_y/n`; `Mx ≤ κ'·σx`, `My ≤ κ'·σy`;
`n·u·(1 + κ') ≤ 1/160`:
`|pearson - C/√(T_x·T_y)| ≤ 48·n·(1 + κ')·u + (3/2)·εf·Mx·L/(n·σx·σy)`. -/
theorem pearson_mtree_error (q : RndSqrt r) (hs : SqrtIs q) (Mx My εf : ℝ) (hMx : 0 ≤ Mx)
    (hMy : 0 ≤ My) (hεf : 0 ≤ εf) (t : MTree (RF2 r × RF2 r)) (h2 : 2 ≤ t.flatten.length)
    (hbx : ∀ p ∈ t.flatten, |p.1.val| ≤ Mx) (hby : ∀ p ∈ t.flatten, |p.2.val| ≤ My)
    (hfirst : FirstEps t εf)
    (σx σy κ' : ℝ) (hσx : 0 < σx) (hσy : 0 < σy)
    (hvx : σx^2 = T (fsts (vals t.flatten)) / (t.flatten.length : ℝ))
    (hvy : σy^2 = T (snds (vals t.flatten)) / (t.flatten.length : ℝ))
    (hκ0 : 0 ≤ κ') (hκx : Mx ≤ κ' * σx) (hκy : My ≤ κ' * σy)
    (hsm : (t.flatten.length : ℝ) * r.u * (1 + κ') ≤ 1/160) :
    |(Covariance.evalTree t).pearson.val
        - Cxy (vals t.flatten) / Real.sqrt (T (fsts (vals t.flatten)) * T (snds (vals t.flatten)))|
      ≤ 48 * (t.flatten.length : ℝ) * (1 + κ') * r.u
        + 3/2 * (εf * Mx) * (t.neLeaves : ℝ) / ((t.flatten.length : ℝ) * σx * σy) := by
  have hu := r.u_nonneg
  have hn2 : (2:ℝ) ≤ (t.flatten.length : ℝ) := by exact_mod_cast h2
  have hx0 : 0 ≤ (t.flatten.length : ℝ) * r.u := by positivity
  have ha0 : 0 ≤ (t.flatten.length : ℝ) * r.u * κ' := by positivity
  have hxa : (t.flatten.length : ℝ) * r.u + (t.flatten.length : ℝ) * r.u * κ' ≤ 1/160 := by
    linarith
  have hux : 2 * r.u ≤ (t.flatten.length : ℝ) * r.u := mul_le_mul_of_nonneg_right hn2 hu
  have hL0 : (0:ℝ) ≤ (t.neLeaves : ℝ) := Nat.cast_nonneg _
  have hD : 0 < (t.flatten.length : ℝ) * σx * σy := by positivity
  have hδ0 : 0 ≤ 5/4 * (εf * Mx) * (t.neLeaves : ℝ) / ((t.flatten.length : ℝ) * σx * σy) := by
    positivity
  obtain ⟨_, hεu, _, hγ1, hnum⟩ := pearson_mtree_numerals r.u _ _ _ hu hux ha0 hxa hδ0
  have h := pearson_mtree_error_gen q hs Mx My εf hMx hMy hεf t h2 hbx hby (by linarith) hfirst
    σx σy κ' hσx hσy hvx hvy hκ0 hκx hκy hεu hγ1
  refine le_trans h (le_trans hnum ?_)
  have hE0 : 0 ≤ (εf * Mx) * (t.neLeaves : ℝ) / ((t.flatten.length : ℝ) * σx * σy) := by positivity
  have e1 : 5/4 * (εf * Mx) * (t.neLeaves : ℝ) / ((t.flatten.length : ℝ) * σx * σy)
      = 5/4 * ((εf * Mx) * (t.neLeaves : ℝ) / ((t.flatten.length : ℝ) * σx * σy)) := by ring
  have e2 : 3/2 * (εf * Mx) * (t.neLeaves : ℝ) / ((t.flatten.length : ℝ) * σx * σy)
      = 3/2 * ((εf * Mx) * (t.neLeaves : ℝ) / ((t.flatten.length : ℝ) * σx * σy)) := by ring
  rw [e1, e2]
  nlinarith

/-- **`pearson`, every merge tree, weaker smallness hypothesis** `n·u·(1 + κ') ≤ 1/64`:
`|pearson - C/√(T_x·T_y)| ≤ 60·n·(1 + κ')·u + (7/4)·εf·Mx·L/(n·σx·σy)`. -/
theorem pearson_mtree_error_wide (q : RndSqrt r) (hs : SqrtIs q) (Mx My εf : ℝ) (hMx : 0 ≤ Mx)
    (hMy : 0 ≤ My) (hεf : 0 ≤ εf) (t : MTree (RF2 r × RF2 r)) (h2 : 2 ≤ t.flatten.length)
    (hbx : ∀ p ∈ t.flatten, |p.1.val| ≤ Mx) (hby : ∀ p ∈ t.flatten, |p.2.val| ≤ My)
    (hfirst : FirstEps t εf)
    (σx σy κ' : ℝ) (hσx : 0 < σx) (hσy : 0 < σy)
    (hvx : σx^2 = T (fsts (vals t.flatten)) / (t.flatten.length : ℝ))
    (hvy : σy^2 = T (snds (vals t.flatten)) / (t.flatten.length : ℝ))
    (hκ0 : 0 ≤ κ') (hκx : Mx ≤ κ' * σx) (hκy : My ≤ κ' * σy)
    (hsm : (t.flatten.length : ℝ) * r.u * (1 + κ') ≤ 1/64) :
    |(Covariance.evalTree t).pearson.val
        - Cxy (vals t.flatten) / Real.sqrt (T (fsts (vals t.flatten)) * T (snds (vals t.flatten)))|
      ≤ 60 * (t.flatten.length : ℝ) * (1 + κ') * r.u
        + 7/4 * (εf * Mx) * (t.neLeaves : ℝ) / ((t.flatten.length : ℝ) * σx * σy) := by
  have hu := r.u_nonneg
  have hn2 : (2:ℝ) ≤ (t.flatten.length : ℝ) := by exact_mod_cast h2
  have hx0 : 0 ≤ (t.flatten.length : ℝ) * r.u := by positivity
  have ha0 : 0 ≤ (t.flatten.length : ℝ) * r.u * κ' := by positivity
  have hxa : (t.flatten.length : ℝ) * r.u + (t.flatten.length : ℝ) * r.u * κ' ≤ 1/64 := by
    linarith
  have hux : 2 * r.u ≤ (t.flatten.length : ℝ) * r.u := mul_le_mul_of_nonneg_right hn2 hu
  have hL0 : (0:ℝ) ≤ (t.neLeaves : ℝ) := Nat.cast_nonneg _
  have hD : 0 < (t.flatten.length : ℝ) * σx * σy := by positivity
  have hδ0 : 0 ≤ 5/4 * (εf * Mx) * (t.neLeaves : ℝ) / ((t.flatten.length : ℝ) * σx * σy) := by
    positivity
  obtain ⟨_, hεu, _, hγ1, hnum⟩ := pearson_mtree_numerals_wide r.u _ _ _ hu hux ha0 hxa hδ0
  have h := pearson_mtree_error_gen q hs Mx My εf hMx hMy hεf t h2 hbx hby (by linarith) hfirst
    σx σy κ' hσx hσy hvx hvy hκ0 hκx hκy hεu hγ1
  refine le_trans h (le_trans hnum ?_)
  have hE0 : 0 ≤ (εf * Mx) * (t.neLeaves : ℝ) / ((t.flatten.length : ℝ) * σx * σy) := by positivity
  have e1 : 5/4 * (εf * Mx) * (t.neLeaves : ℝ) / ((t.flatten.length : ℝ) * σx * σy)
      = 5/4 * ((εf * Mx) * (t.neLeaves : ℝ) / ((t.flatten.length : ℝ) * σx * σy)) := by ring
  have e2 : 7/4 * (εf * Mx) * (t.neLeaves : ℝ) / ((t.flatten.length : ℝ) * σx * σy)
      = 7/4 * ((εf * Mx) * (t.neLeaves : ℝ) / ((t.flatten.length : ℝ) * σx * σy)) := by ring
  rw [e1, e2]
  nlinarith

end model

#print axioms pearson_mtree_numerals
#print axioms pearson_mtree_numerals_wide
#print axioms pearson_mtree_val
#print axioms pearson_mtree_error_gen
#print axioms pearson_mtree_error
#print axioms pearson_mtree_error_wide
