import AvgProofs.WeightedSumsErr
import AvgProofs.EffLen
import AvgModel.Histogram

/-!
# Histogram bin variance `k·(1 - k·(1/N))` under rounding (carrier `RF2 r`)

`multinomialVariance n n_tot_inv = n * (1 - n * n_tot_inv)` with `n_tot_inv = 1 / total`: four rounded
operations, `v = fl(k·fl(1 - fl(k·fl(1/N))))`; the counts `k`, `N` and the literal `1` are converted exactly.

* `p = fl(k·fl(1/N))` lies between `(1-u)²·k/N` and `(1+u)²·k/N`; it can **exceed 1** when `k = N`, so the
  computed variance can be negative: `v ≥ -(2u+u²)(1+u)²·k` (`≥ -3·u·N` for `u ≤ 1/64`), and nothing better
  holds in the standard model (`k = N`, every rounding upwards).
* `v ≤ (N/4)·((1+u)/(1-u))²`: the maximum of `k·(1 - (1-u)²·k/N)·(1+u)²` over real `k`. Hence
  `v ≤ (N/4)(1 + 4u + 9u²) ≤ (N/4)(1 + 5u)` for `u ≤ 1/64`. The clause `(N/4)(1 + 4u)` is *not* provable in
  the standard model: for `N = 2`, `k = 1` and roundings `fl(1/2) = (1-u)/2`, `fl(1·.) = (1-u)·.`, then twice
  upwards, `v = (N/4)·(1 + 2u - u²)(1+u)² = (N/4)(1 + 4u + 4u² - u⁴)` (`AvgProofs`: `HistVarLower`).
-/
open Avg
set_option linter.unusedSectionVars false
variable {K : Type} [Field K] [LinearOrder K] [IsStrictOrderedRing K]

/-- one rounding, by sign: `x ≥ 0 → (1-u)x ≤ fl x ≤ (1+u)x`, `x ≤ 0 → (1+u)x ≤ fl x ≤ (1-u)x` -/
theorem fl_sign_bounds (fl : K → K) (u : K) (hfl : ∀ t, |fl t - t| ≤ u * |t|) (x : K) :
    (0 ≤ x → (1 - u) * x ≤ fl x ∧ fl x ≤ (1 + u) * x) ∧
    (x ≤ 0 → (1 + u) * x ≤ fl x ∧ fl x ≤ (1 - u) * x) := by
  have e := hfl x
  constructor
  · intro hx
    rw [abs_of_nonneg hx] at e
    obtain ⟨e1, e2⟩ := abs_le.mp e
    constructor <;> linarith
  · intro hx
    rw [abs_of_nonpos hx] at e
    obtain ⟨e1, e2⟩ := abs_le.mp e
    constructor <;> linarith

/-- **Bin variance under rounding, real counts.** `0 ≤ k ≤ N`, `N > 0`, `u ≤ 1`:
`-(2u+u²)(1+u)²·k ≤ fl(k·fl(1 - fl(k·fl(1/N)))) ≤ (N/4)·(1+u)²/(1-u)²` (for the upper bound `u < 1`). -/
theorem multinomial_rounded_bounds (fl : K → K) (u : K) (hu0 : 0 ≤ u) (hu1 : u < 1)
    (hfl : ∀ t, |fl t - t| ≤ u * |t|) (k N : K) (hk0 : 0 ≤ k) (hkN : k ≤ N) (hN : 0 < N) :
    -((2 * u + u^2) * (1 + u)^2 * k) ≤ fl (k * fl (1 - fl (k * fl (1 / N)))) ∧
    fl (k * fl (1 - fl (k * fl (1 / N)))) ≤ N / 4 * ((1 + u)^2 / (1 - u)^2) := by
  have h1u : 0 < 1 - u := by linarith
  have hinv0 : (0:K) ≤ 1 / N := by positivity
  -- p = fl(k·fl(1/N))
  have hI := (MB.refl (1 / N)).round fl u hu0 hu1.le hfl zero_le_one hinv0
  have hkI := ((MB.refl k).mul hI zero_le_one (by linarith) hk0 hinv0).round fl u hu0 hu1.le hfl
    (by nlinarith) (mul_nonneg hk0 hinv0)
  have hq : k * (1 / N) = k / N := by ring
  rw [hq] at hkI
  obtain ⟨hp1, hp2⟩ := hkI
  have hq0 : 0 ≤ k / N := div_nonneg hk0 hN.le
  have hq1 : k / N ≤ 1 := by rw [div_le_one hN]; exact hkN
  set p := fl (k * fl (1 / N)) with hp
  have hp1' : (1 - u)^2 * (k / N) ≤ p := by linarith [hp1, (by ring : 1 * (1 * (1 - u)) * (1 - u) * (k / N) = (1 - u)^2 * (k / N))]
  have hp2' : p ≤ (1 + u)^2 * (k / N) := by linarith [hp2, (by ring : 1 * (1 * (1 + u)) * (1 + u) * (k / N) = (1 + u)^2 * (k / N))]
  set t := 1 - p with ht
  obtain ⟨dpos, dneg⟩ := fl_sign_bounds fl u hfl t
  set d := fl t with hd
  obtain ⟨wpos, wneg⟩ := fl_sign_bounds fl u hfl (k * d)
  have h1pu : 0 < 1 + u := by linarith
  rcases le_total 0 t with htn | htn
  · -- the usual case `p ≤ 1`
    obtain ⟨d1, d2⟩ := dpos htn
    have hd0 : 0 ≤ d := le_trans (mul_nonneg h1u.le htn) d1
    have hw0 : 0 ≤ k * d := mul_nonneg hk0 hd0
    obtain ⟨w1, w2⟩ := wpos hw0
    constructor
    · have : 0 ≤ (2 * u + u^2) * (1 + u)^2 * k := by positivity
      have := mul_nonneg h1u.le hw0
      linarith
    · -- v ≤ (1+u)² k t ≤ (1+u)² k (1 - c k/N), c = (1-u)²
      have hc : 0 < (1 - u)^2 := by positivity
      have hkt : k * t ≤ N / (4 * (1 - u)^2) := by
        have h1 : k * t ≤ k * (1 - (1 - u)^2 * (k / N)) := by
          apply mul_le_mul_of_nonneg_left _ hk0; linarith
        refine le_trans h1 ?_
        rw [le_div_iff₀ (by positivity)]
        have e : k * (1 - (1 - u)^2 * (k / N)) * (4 * (1 - u)^2)
            = (4 * (1 - u)^2 * k * N - 4 * ((1 - u)^2)^2 * k^2) / N := by
          field_simp
        rw [e, div_le_iff₀ hN]
        nlinarith [sq_nonneg (N - 2 * (1 - u)^2 * k)]
      calc fl (k * d) ≤ (1 + u) * (k * d) := w2
        _ ≤ (1 + u) * (k * ((1 + u) * t)) := by gcongr
        _ = (1 + u)^2 * (k * t) := by ring
        _ ≤ (1 + u)^2 * (N / (4 * (1 - u)^2)) := by gcongr
        _ = _ := by field_simp
  · -- `p > 1`: only possible within `(2u+u²)` of `1`
    obtain ⟨d1, d2⟩ := dneg htn
    have hd0 : d ≤ 0 := le_trans d2 (mul_nonpos_of_nonneg_of_nonpos h1u.le htn)
    have hw0 : k * d ≤ 0 := mul_nonpos_of_nonneg_of_nonpos hk0 hd0
    obtain ⟨w1, w2⟩ := wneg hw0
    constructor
    · have htl : -(2 * u + u^2) ≤ t := by
        have : p ≤ (1 + u)^2 := le_trans hp2' (by nlinarith [sq_nonneg (1 + u)])
        rw [ht]; nlinarith
      calc -((2 * u + u^2) * (1 + u)^2 * k) = (1 + u) * (k * ((1 + u) * -(2 * u + u^2))) := by ring
        _ ≤ (1 + u) * (k * ((1 + u) * t)) := by gcongr
        _ ≤ (1 + u) * (k * d) := by gcongr
        _ ≤ fl (k * d) := w1
    · have : 0 ≤ N / 4 * ((1 + u)^2 / (1 - u)^2) := by positivity
      have := mul_nonpos_of_nonneg_of_nonpos h1u.le hw0
      linarith

/-- numerals for `u ≤ 1/64`: `(2u+u²)(1+u)² ≤ 3u`, `((1+u)/(1-u))² ≤ 1 + 4u + 9u² ≤ 1 + 5u` -/
theorem multinomial_numerals (u : K) (hu0 : 0 ≤ u) (hu : u ≤ 1/64) :
    (2 * u + u^2) * (1 + u)^2 ≤ 3 * u ∧ (1 + u)^2 / (1 - u)^2 ≤ 1 + 4 * u + 9 * u^2
    ∧ 1 + 4 * u + 9 * u^2 ≤ 1 + 5 * u := by
  have h1u : 0 < 1 - u := by linarith
  refine ⟨?_, ?_, by nlinarith⟩
  · have h1 : (1 + u)^2 ≤ 17/16 := by nlinarith
    have h2 : 2 * u + u^2 ≤ 129/64 * u := by nlinarith
    calc (2 * u + u^2) * (1 + u)^2 ≤ (129/64 * u) * (17/16) := by gcongr
      _ ≤ 3 * u := by nlinarith
  · rw [div_le_iff₀ (by positivity)]
    have e : (1 + 4 * u + 9 * u^2) * (1 - u)^2 - (1 + u)^2
        = u^2 * (1 - 14 * u + 9 * u^2) := by ring
    have : 0 ≤ u^2 * (1 - 14 * u + 9 * u^2) := by
      apply mul_nonneg (sq_nonneg _); nlinarith [sq_nonneg u]
    linarith

/-! ## the model at the carrier `RF2 r` -/

section model
variable {r : Rnd2 K}

/-- what `multinomialVariance` computes for exactly converted counts `k`, `N` -/
theorem multinomialVariance_val (k N : ℕ) :
    (multinomialVariance ((k : ℕ) : RF2 r) (((1:ℕ) : RF2 r) / ((N : ℕ) : RF2 r))).val
      = r.fl ((k : K) * r.fl (1 - r.fl ((k : K) * r.fl (1 / (N : K))))) := by
  have h1 : ((1:ℕ) : K) = 1 := Nat.cast_one
  show r.fl ((k : K) * r.fl (((1:ℕ) : K) - r.fl ((k : K) * r.fl (((1:ℕ) : K) / (N : K))))) = _
  rw [h1]

/-- **Bin variance under rounding.** Counts `0 ≤ k ≤ N`, `N ≥ 1`, `u < 1`:
`-(2u+u²)(1+u)²·k ≤ variance ≤ (N/4)·(1+u)²/(1-u)²`. -/
theorem multinomialVariance_rounded (hu1 : r.u < 1) (k N : ℕ) (hN : 0 < N) (hk : k ≤ N) :
    -((2 * r.u + r.u^2) * (1 + r.u)^2 * (k : K))
      ≤ (multinomialVariance ((k : ℕ) : RF2 r) (((1:ℕ) : RF2 r) / ((N : ℕ) : RF2 r))).val ∧
    (multinomialVariance ((k : ℕ) : RF2 r) (((1:ℕ) : RF2 r) / ((N : ℕ) : RF2 r))).val
      ≤ (N : K) / 4 * ((1 + r.u)^2 / (1 - r.u)^2) := by
  rw [multinomialVariance_val]
  exact multinomial_rounded_bounds r.fl r.u r.u_nonneg hu1 r.err (k : K) (N : K) (Nat.cast_nonneg _)
    (by exact_mod_cast hk) (by exact_mod_cast hN)

/-- the same with numerals, `u ≤ 1/64`: `-3·u·N ≤ variance ≤ (N/4)(1 + 4u + 9u²) ≤ (N/4)(1 + 5u)` -/
theorem multinomialVariance_rounded_num (hu : r.u ≤ 1/64) (k N : ℕ) (hN : 0 < N) (hk : k ≤ N) :
    -(3 * r.u * (N : K))
      ≤ (multinomialVariance ((k : ℕ) : RF2 r) (((1:ℕ) : RF2 r) / ((N : ℕ) : RF2 r))).val ∧
    (multinomialVariance ((k : ℕ) : RF2 r) (((1:ℕ) : RF2 r) / ((N : ℕ) : RF2 r))).val
      ≤ (N : K) / 4 * (1 + 4 * r.u + 9 * r.u^2) ∧
    (multinomialVariance ((k : ℕ) : RF2 r) (((1:ℕ) : RF2 r) / ((N : ℕ) : RF2 r))).val
      ≤ (N : K) / 4 * (1 + 5 * r.u) := by
  have hu0 := r.u_nonneg
  obtain ⟨h1, h2⟩ := multinomialVariance_rounded (show r.u < 1 by linarith) k N hN hk
  obtain ⟨n1, n2, n3⟩ := multinomial_numerals r.u hu0 hu
  have hk0 : (0:K) ≤ (k : K) := Nat.cast_nonneg _
  have hkN : (k : K) ≤ (N : K) := by exact_mod_cast hk
  have hN0 : (0:K) ≤ (N : K) / 4 := by positivity
  have hup : (multinomialVariance ((k : ℕ) : RF2 r) (((1:ℕ) : RF2 r) / ((N : ℕ) : RF2 r))).val
      ≤ (N : K) / 4 * (1 + 4 * r.u + 9 * r.u^2) :=
    le_trans h2 (mul_le_mul_of_nonneg_left n2 hN0)
  refine ⟨le_trans ?_ h1, hup, le_trans hup (mul_le_mul_of_nonneg_left n3 hN0)⟩
  rw [neg_le_neg_iff]
  calc (2 * r.u + r.u^2) * (1 + r.u)^2 * (k : K) ≤ (3 * r.u) * (N : K) := by
        apply mul_le_mul n1 hkN hk0 (by positivity)

end model
