import AvgProofs.SqFoldErrNum
import AvgProofs.MomentsVarErrStep
import AvgProofs.VarErrLin

/-!
# Forward error of the second-order entry `m[0]` of `define_moments!(T, N)`, every order `N ≥ 2`

The fold of `Moments.add N` at the carrier `RF2 r` (negation exact) is a rounded sum-of-squares fold in the
sense of `SqFold.IsSqFold` with increment error `γ = (1+u)^12 - 1` (`moments_is_sqFold`): the accumulator is
`m[0]`, the running mean is the `avg` field, which is bit for bit that of `Mean` (`Moments.fold_meanState`).
Hence the abstract induction applies:

* `moments_m0_error_gen` - any bounds `E_i` on the error of the running mean;
* `moments_m0_error_sharp_num` - `(n+28)·u ≤ 1/64`: `(29/4)·n·u·T + (99/25)·n·u·M·R₀ + (15/4)·n³·u²·M²`;
* `moments_m0_error_lin` - `n·u ≤ 1/64`: `15·n·u·T + 15·n·u·M·R₀ + 44·n³·u²·M²`;
* `cm2_val`, `central_moment2_eq`, `moments_samplevar_val` - what the accessors compute;
* `cm2_error_sharp`: `|central_moment(2) - var| ≤ 8·n·u·var + 4·n·u·M·σ + 4·n²·u²·M²`;
  `cm2_error_envelope`: `≤ 8·n·u·(var + M·σ)` when `n·u·M ≤ σ`;
* `moments_samplevar_error_sharp`: `8·n·u·s² + 8·n·u·M·σ + 8·n²·u²·M²`.
-/
open Avg MSpec Finset VarSpec VarErr SqFold

namespace MomVarErr
variable {K : Type} [Field K] [LinearOrder K] [IsStrictOrderedRing K]

/-- the relative error of the computed increment of `m[0]` (twelve roundings) -/
def gam12 (u : K) : K := (1 + u)^12 - 1

theorem gam12_nonneg {u : K} (hu : 0 ≤ u) : 0 ≤ gam12 u := by
  have := RE.one_le_pow hu 12
  unfold gam12; linarith

section fold
variable {r : Rnd2 K} [Neg (RF2 r)]

/-- the state of `define_moments!(T, N)` after adding the observations one at a time -/
abbrev mfold (N : Nat) (xs : List (RF2 r)) : Moments (RF2 r) :=
  xs.foldl (Moments.add N) (Moments.new N)

/-- the `avg` field is bit for bit the running mean of `Mean` -/
theorem mfold_avg (N : Nat) (xs : List (RF2 r)) :
    (mfold N xs).avg = (xs.foldl Mean.add Mean.new).avg := by
  have h := Moments.fold_meanState N xs (Moments.new N : Moments (RF2 r))
  rw [Moments.new_meanState] at h
  exact congrArg Mean.avg h

theorem mfold_n (N : Nat) (xs : List (RF2 r)) : (mfold N xs).n = xs.length :=
  MSpec.momN_fold_new_n N xs

/-- **The fold of `Moments.add N` is a rounded sum-of-squares fold** (`N ≥ 2`, negation exact) with
increment error `(1+u)^12 - 1`: accumulator `m[0]`, running mean `avg`. -/
theorem moments_is_sqFold (hneg : NegExact r) (N : Nat) (hN : 2 ≤ N) (xs : List (RF2 r)) :
    IsSqFold r (gam12 r.u) RF2.val
      (fun ys => (mfold N ys).m0.val) (fun ys => (mfold N ys).avg.val) xs := by
  refine ⟨?_, ?_⟩
  · show (Moments.new N : Moments (RF2 r)).m0.val = 0
    rw [Moments.new_m0]
    exact (Nat.cast_zero : ((0 : ℕ) : K) = 0)
  intro ys x _
  have hu := r.u_nonneg
  set s := mfold N ys with hs
  have hn : s.n = ys.length := mfold_n N ys
  have hk : (1 : K) ≤ (ys.length : K) + 1 := by
    have : (0 : K) ≤ ys.length := Nat.cast_nonneg _
    linarith
  obtain ⟨_, hp⟩ := moments_incr_error r.fl r.u hu r.err x.val s.avg.val ((ys.length : K) + 1) hk
  refine ⟨r.fl (r.fl (r.fl (r.fl (r.fl ((ys.length : K) + 1 - 1) * -(r.fl (1 / ((ys.length : K) + 1))))
                      * -(r.fl (1 / ((ys.length : K) + 1))))
                  + r.fl (r.fl (r.fl ((ys.length : K) + 1 - 1) * r.fl (1 / ((ys.length : K) + 1)))
                      * r.fl (r.fl ((ys.length : K) + 1 - 1) * r.fl (1 / ((ys.length : K) + 1)))))
              * r.fl (r.fl (x.val - s.avg.val) * r.fl (x.val - s.avg.val))), ?_, ?_⟩
  · show (mfold N (ys ++ [x])).m0.val = _
    unfold mfold
    rw [List.foldl_append, List.foldl_cons, List.foldl_nil]
    show (Moments.add N s x).m0.val = _
    rw [moments_m0_add_val r hneg N hN, hn]
    push_cast
    rfl
  · have e : ((ys.length : K) + 1 - 1) / ((ys.length : K) + 1)
        = (ys.length : K) / ((ys.length : K) + 1) := by rw [add_sub_cancel_right]
    rw [e] at hp
    exact hp

/-- **General form.** For every stream `xs` and every order `N ≥ 2`: if `E i ≥ 0` bounds the error of the
running mean after `i` observations (every prefix of `xs`), then with `γ = (1+u)^12 - 1`
`|m[0] - T| ≤ (1+u)^n·((γ + n·u)·T + (1+γ)·Σ_{i<n}(2·E_i·|dev_i| + E_i²)·i/(i+1))`. -/
theorem moments_m0_error_gen (hneg : NegExact r) (N : Nat) (hN : 2 ≤ N) (E : ℕ → K)
    (hE0 : ∀ i, 0 ≤ E i) (xs : List (RF2 r))
    (hE : ∀ ys, ys <+: xs →
      |(ys.foldl Mean.add Mean.new).avg.val - mean (ys.map RF2.val)| ≤ E ys.length) :
    |(mfold N xs).m0.val - T (xs.map RF2.val)|
      ≤ (1 + r.u)^xs.length *
          ((gam12 r.u + xs.length * r.u) * T (xs.map RF2.val)
            + (1 + gam12 r.u) * crossSum E (xs.map RF2.val)) :=
  sq_fold_error_gen r (gam12 r.u) (gam12_nonneg r.u_nonneg) RF2.val _ _ E hE0 xs
    (moments_is_sqFold hneg N hN xs) (fun ys hys => by
      show |(mfold N ys).avg.val - _| ≤ _
      rw [mfold_avg]; exact hE ys hys)

/-- **Sharp numerals.** Every order `N ≥ 2`, every stream with `|x_i| ≤ M`, `(n+28)·u ≤ 1/64`, any `R₀ ≥ 0`
with `n·T ≤ R₀²`:  `|m[0] - T| ≤ (29/4)·n·u·T + (99/25)·n·u·M·R₀ + (15/4)·n³·u²·M²`. -/
theorem moments_m0_error_sharp_num (hneg : NegExact r) (N : Nat) (hN : 2 ≤ N) (M : K) (hM : 0 ≤ M)
    (xs : List (RF2 r)) (hb : ∀ x ∈ xs, |x.val| ≤ M)
    (hsmall : ((xs.length : K) + 28) * r.u ≤ 1/64)
    (R₀ : K) (hR : 0 ≤ R₀) (hRT : (xs.length : K) * T (xs.map RF2.val) ≤ R₀^2) :
    |(mfold N xs).m0.val - T (xs.map RF2.val)|
      ≤ 29/4 * xs.length * r.u * T (xs.map RF2.val) + 99/25 * xs.length * r.u * M * R₀
        + 15/4 * (xs.length : K)^3 * r.u^2 * M^2 := by
  have hu := r.u_nonneg
  by_cases hnil : xs = []
  · subst hnil
    have h0 : (mfold N ([] : List (RF2 r))).m0.val = 0 := (moments_is_sqFold hneg N hN []).1
    rw [h0]; simp [T_nil]
  have hn1 : (1 : K) ≤ xs.length := by exact_mod_cast List.length_pos_of_ne_nil hnil
  have hu1856 : r.u ≤ 1/1856 := by nlinarith
  exact sq_fold_error_sharp_num r (gam12 r.u) (gam12_nonneg hu) (gam12_le_sharp r.u hu hu1856)
    RF2.val _ _ M hM xs (moments_is_sqFold hneg N hN xs)
    (fun ys hys => by
      show |(mfold N ys).avg.val - _| ≤ _
      rw [mfold_avg]; exact mean_prefix_sharp r M hM xs hb hsmall ys hys)
    hsmall R₀ hR hRT

/-- **Numerals under `n·u ≤ 1/64` only.**
`|m[0] - T| ≤ 15·n·u·T + 15·n·u·M·R₀ + 44·n³·u²·M²`. -/
theorem moments_m0_error_lin (hneg : NegExact r) (N : Nat) (hN : 2 ≤ N) (M : K) (hM : 0 ≤ M)
    (xs : List (RF2 r)) (hb : ∀ x ∈ xs, |x.val| ≤ M) (hsmall : (xs.length : K) * r.u ≤ 1/64)
    (R₀ : K) (hR : 0 ≤ R₀) (hRT : (xs.length : K) * T (xs.map RF2.val) ≤ R₀^2) :
    |(mfold N xs).m0.val - T (xs.map RF2.val)|
      ≤ 15 * xs.length * r.u * T (xs.map RF2.val) + 15 * xs.length * r.u * M * R₀
        + 44 * (xs.length : K)^3 * r.u^2 * M^2 := by
  have hu := r.u_nonneg
  by_cases hnil : xs = []
  · subst hnil
    have h0 : (mfold N ([] : List (RF2 r))).m0.val = 0 := (moments_is_sqFold hneg N hN []).1
    rw [h0]; simp [T_nil]
  have hn1 : (1 : K) ≤ xs.length := by exact_mod_cast List.length_pos_of_ne_nil hnil
  have hu64 : r.u ≤ 1/64 := by nlinarith
  have hw : (2*r.u + r.u^2) * (1 + r.u) ≤ 33/16 * r.u := by nlinarith
  exact sq_fold_error_lin_num r (gam12 r.u) (gam12_nonneg hu) (gam12_le r.u hu hu64)
    RF2.val _ _ M hM xs (moments_is_sqFold hneg N hN xs)
    (fun ys hys => by
      show |(mfold N ys).avg.val - _| ≤ _
      rw [mfold_avg]
      have hlen : (ys.length : K) ≤ xs.length := by exact_mod_cast hys.length_le
      exact (mean_fold_error r M hM ys (fun y hy => hb y (hys.subset hy)) (by nlinarith)).2)
    hsmall R₀ hR hRT

/-! ## the accessors -/
variable [FloatOps (RF2 r)]

/-- after at least one `add` (`N ≥ 2`) the entry read by the accessors (`m[0]`, default `nan`) is `m0` -/
theorem mfold_getD_nan (N : Nat) (hN : 2 ≤ N) (xs : List (RF2 r)) (hne : xs ≠ []) :
    (mfold N xs).m.getD 0 nan = (mfold N xs).m0 := by
  obtain ⟨ys, x, rfl⟩ : ∃ ys x, xs = ys ++ [x] := by
    induction xs using List.reverseRecOn with
    | nil => exact absurd rfl hne
    | append_singleton ys x _ => exact ⟨ys, x, rfl⟩
  unfold mfold
  rw [List.foldl_append, List.foldl_cons, List.foldl_nil]
  exact Moments.add_getD_m0 N hN _ x _

omit [Neg (RF2 r)] in
/-- `central_moment(2)` does not panic for `N ≥ 2` and returns `m[0]/n` -/
theorem central_moment2_eq (N : Nat) (hN : 2 ≤ N) (s : Moments (RF2 r)) :
    s.centralMoment N 2 = .val (s.cmRaw 2) := by
  unfold Moments.centralMoment
  rw [if_pos (Or.inr (Or.inr hN))]

/-- what `central_moment(2)` computes at `RF2 r` for a non-empty stream: `fl(m[0]/n)` -/
theorem cm2_val (N : Nat) (hN : 2 ≤ N) (xs : List (RF2 r)) (hne : xs ≠ []) :
    ((mfold N xs).cmRaw 2).val = r.fl ((mfold N xs).m0.val / (xs.length : K)) := by
  have hn := mfold_n (r := r) N xs
  have h0 : 0 < xs.length := List.length_pos_of_ne_nil hne
  have h : (mfold N xs).cmRaw 2
      = if (mfold N xs).n > 0 then (mfold N xs).m.getD 0 nan / (((mfold N xs).n : ℕ) : RF2 r)
        else nan := rfl
  rw [h, hn, if_pos h0, mfold_getD_nan N hN xs hne]
  rfl

/-- what `sample_variance` computes at `RF2 r` for `n ≥ 2`: `fl(m[0]/(n-1))`, `n - 1` an exact count -/
theorem moments_samplevar_val (N : Nat) (hN : 2 ≤ N) (xs : List (RF2 r)) (h2 : 2 ≤ xs.length) :
    (mfold N xs).sampleVariance.val = r.fl ((mfold N xs).m0.val / ((xs.length - 1 : ℕ) : K)) := by
  have hn := mfold_n (r := r) N xs
  have hne : xs ≠ [] := by intro h; rw [h] at h2; simp at h2
  unfold Moments.sampleVariance
  rw [hn, if_neg (by omega), mfold_getD_nan N hN xs hne]
  rfl

/-- **`central_moment(2)`, sharp numerals.** `N ≥ 2`, `n ≥ 1`, `|x_i| ≤ M`, `(n+28)·u ≤ 1/64`, `var = T/n`,
any `σ ≥ 0` with `var ≤ σ²`:
`|central_moment(2) - var| ≤ 8·n·u·var + 4·n·u·M·σ + 4·n²·u²·M²`. -/
theorem cm2_error_sharp (hneg : NegExact r) (N : Nat) (hN : 2 ≤ N) (M : K) (hM : 0 ≤ M)
    (xs : List (RF2 r)) (hne : xs ≠ [])
    (hb : ∀ x ∈ xs, |x.val| ≤ M) (hsmall : ((xs.length : K) + 28) * r.u ≤ 1/64)
    (σ : K) (hσ : 0 ≤ σ) (hvar : T (xs.map RF2.val) / (xs.length : K) ≤ σ^2) :
    |((mfold N xs).cmRaw 2).val - T (xs.map RF2.val) / (xs.length : K)|
      ≤ 8 * xs.length * r.u * (T (xs.map RF2.val) / (xs.length : K))
        + 4 * xs.length * r.u * M * σ + 4 * (xs.length : K)^2 * r.u^2 * M^2 := by
  have hu := r.u_nonneg
  have hnat : 1 ≤ xs.length := List.length_pos_of_ne_nil hne
  have hn1 : (1 : K) ≤ xs.length := by exact_mod_cast hnat
  have hn2 : (2 : K) ≤ xs.length ∨ T (xs.map RF2.val) = 0 := by
    rcases Nat.eq_or_lt_of_le hnat with h | h
    · right
      obtain ⟨x, hx⟩ := List.length_eq_one_iff.mp h.symm
      rw [hx]; exact T_singleton _
    · left; exact_mod_cast h
  rw [cm2_val N hN xs hne]
  set n : K := (xs.length : K) with hn
  have hnpos : 0 < n := by linarith
  set Tn := T (xs.map RF2.val) with hTn
  have hT0 : 0 ≤ Tn := T_nonneg _
  have hu1856 : r.u ≤ 1/1856 := by nlinarith
  have hTle : Tn ≤ n * σ^2 := by rwa [div_le_iff₀ hnpos, mul_comm] at hvar
  have hd := moments_m0_error_sharp_num hneg N hN M hM xs hb hsmall (n * σ) (by positivity)
    (by rw [mul_pow]; nlinarith)
  refine le_trans (div_round_error r _ Tn n hnpos hT0) ?_
  rw [div_le_iff₀ hnpos]
  set D := |(mfold N xs).m0.val - Tn| with hD
  have e1 : (8 * n * r.u * (Tn / n) + 4 * n * r.u * M * σ + 4 * n^2 * r.u^2 * M^2) * n
      = 8 * n * r.u * Tn + 4 * n^2 * r.u * M * σ + 4 * n^3 * r.u^2 * M^2 := by
    field_simp
  rw [e1]
  have a2 : 0 ≤ n^2 * r.u * M * σ := by positivity
  have a3 : 0 ≤ n^3 * r.u^2 * M^2 := by positivity
  have hD' : (1 + r.u) * D ≤ (1 + 1/1856) * (29/4 * n * r.u * Tn + 99/25 * n * r.u * M * (n * σ)
        + 15/4 * n^3 * r.u^2 * M^2) := by
    have : 0 ≤ D := abs_nonneg _
    gcongr
  have t1 : (1 + 1/1856) * (29/4 * n * r.u * Tn) + r.u * Tn ≤ 8 * n * r.u * Tn := by
    rcases hn2 with h2 | h0
    · have : 0 ≤ r.u * Tn := by positivity
      nlinarith
    · rw [h0]; simp
  nlinarith

/-- **Inside the design envelope.** If moreover `n·u·M ≤ σ`, then
`|central_moment(2) - var| ≤ 8·n·u·(var + M·σ)`; with `σ² = var` this is `8·n·κ·u·var`, `κ = 1 + M/σ`. -/
theorem cm2_error_envelope (hneg : NegExact r) (N : Nat) (hN : 2 ≤ N) (M : K) (hM : 0 ≤ M)
    (xs : List (RF2 r)) (hne : xs ≠ [])
    (hb : ∀ x ∈ xs, |x.val| ≤ M) (hsmall : ((xs.length : K) + 28) * r.u ≤ 1/64)
    (σ : K) (hσ : 0 ≤ σ) (hvar : T (xs.map RF2.val) / (xs.length : K) ≤ σ^2)
    (hcond : (xs.length : K) * r.u * M ≤ σ) :
    |((mfold N xs).cmRaw 2).val - T (xs.map RF2.val) / (xs.length : K)|
      ≤ 8 * xs.length * r.u * (T (xs.map RF2.val) / (xs.length : K) + M * σ) := by
  have hu := r.u_nonneg
  refine le_trans (cm2_error_sharp hneg N hN M hM xs hne hb hsmall σ hσ hvar) ?_
  have hn0 : (0 : K) ≤ xs.length := Nat.cast_nonneg _
  set n : K := (xs.length : K)
  set v := T (xs.map RF2.val) / n
  have h2 : 4 * n^2 * r.u^2 * M^2 ≤ 4 * n * r.u * M * σ := by
    have : 0 ≤ n * r.u * M := by positivity
    calc 4 * n^2 * r.u^2 * M^2 = 4 * (n * r.u * M) * (n * r.u * M) := by ring
      _ ≤ 4 * (n * r.u * M) * σ := by gcongr
      _ = 4 * n * r.u * M * σ := by ring
  linarith

/-- **`sample_variance` of `define_moments!`, sharp numerals.** `N ≥ 2`, `n ≥ 2`, `|x_i| ≤ M`,
`(n+28)·u ≤ 1/64`, `s² = T/(n-1)`, any `σ ≥ 0` with `s² ≤ σ²`:
`|sample_variance - s²| ≤ 8·n·u·s² + 8·n·u·M·σ + 8·n²·u²·M²`. -/
theorem moments_samplevar_error_sharp (hneg : NegExact r) (N : Nat) (hN : 2 ≤ N) (M : K) (hM : 0 ≤ M)
    (xs : List (RF2 r)) (h2 : 2 ≤ xs.length)
    (hb : ∀ x ∈ xs, |x.val| ≤ M) (hsmall : ((xs.length : K) + 28) * r.u ≤ 1/64)
    (σ : K) (hσ : 0 ≤ σ) (hvar : T (xs.map RF2.val) / ((xs.length - 1 : ℕ) : K) ≤ σ^2) :
    |(mfold N xs).sampleVariance.val - T (xs.map RF2.val) / ((xs.length - 1 : ℕ) : K)|
      ≤ 8 * xs.length * r.u * (T (xs.map RF2.val) / ((xs.length - 1 : ℕ) : K))
        + 8 * xs.length * r.u * M * σ + 8 * (xs.length : K)^2 * r.u^2 * M^2 := by
  have hu := r.u_nonneg
  have hn2 : (2 : K) ≤ xs.length := by exact_mod_cast h2
  rw [moments_samplevar_val N hN xs h2]
  have hm : ((xs.length - 1 : ℕ) : K) = (xs.length : K) - 1 := by
    rw [Nat.cast_sub (by omega)]; simp
  rw [hm] at hvar ⊢
  set n : K := (xs.length : K) with hn
  have hmpos : 0 < n - 1 := by linarith
  set Tn := T (xs.map RF2.val) with hTn
  have hT0 : 0 ≤ Tn := T_nonneg _
  have hu1856 : r.u ≤ 1/1856 := by nlinarith
  have hTle : Tn ≤ (n - 1) * σ^2 := by rwa [div_le_iff₀ hmpos, mul_comm] at hvar
  have hσ2 : 0 ≤ σ^2 := sq_nonneg σ
  have hd := moments_m0_error_sharp_num hneg N hN M hM xs hb hsmall (n * σ) (by positivity)
    (by rw [mul_pow]; nlinarith)
  refine le_trans (div_round_error r _ Tn (n - 1) hmpos hT0) ?_
  rw [div_le_iff₀ hmpos]
  set D := |(mfold N xs).m0.val - Tn| with hD
  have e1 : (8 * n * r.u * (Tn / (n - 1)) + 8 * n * r.u * M * σ + 8 * n^2 * r.u^2 * M^2) * (n - 1)
      = 8 * n * r.u * Tn + 8 * n * r.u * M * σ * (n - 1) + 8 * n^2 * r.u^2 * M^2 * (n - 1) := by
    field_simp
  rw [e1]
  have a1 : 0 ≤ r.u * Tn := by positivity
  have a2 : 0 ≤ n * r.u * M * σ := by positivity
  have a3 : 0 ≤ n^2 * r.u^2 * M^2 := by positivity
  have hD' : (1 + r.u) * D ≤ (1 + 1/1856) * (29/4 * n * r.u * Tn + 99/25 * n * r.u * M * (n * σ)
        + 15/4 * n^3 * r.u^2 * M^2) := by
    have : 0 ≤ D := abs_nonneg _
    gcongr
  have b2 : n * r.u * M * σ * n ≤ 2 * (n * r.u * M * σ * (n - 1)) := by nlinarith
  have b3 : n^2 * r.u^2 * M^2 * n ≤ 2 * (n^2 * r.u^2 * M^2 * (n - 1)) := by nlinarith
  have t1 : (1 + 1/1856) * (29/4 * n * r.u * Tn) + r.u * Tn ≤ 8 * n * r.u * Tn := by nlinarith
  have c2 : 0 ≤ n * r.u * M * σ * (n - 1) := by positivity
  have c3 : 0 ≤ n^2 * r.u^2 * M^2 * (n - 1) := by positivity
  linarith

end fold
end MomVarErr

#print axioms MomVarErr.moments_is_sqFold
#print axioms MomVarErr.moments_m0_error_gen
#print axioms MomVarErr.moments_m0_error_sharp_num
#print axioms MomVarErr.moments_m0_error_lin
#print axioms MomVarErr.cm2_error_sharp
#print axioms MomVarErr.cm2_error_envelope
#print axioms MomVarErr.moments_samplevar_error_sharp
