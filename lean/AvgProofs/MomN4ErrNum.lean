import AvgProofs.MomN4ErrSum
import AvgProofs.MomN4ErrNumArith

/-!
# Forward error of `m[2]` of `define_moments!`, all stream lengths: numerals

The general induction `mom4_fold_error_gen` with
* `E = Esharp β`, `β = (65/128)·u·M` (the mean of `define_moments!` is bit for bit that of `Mean`),
* `F i = (29/4)·i·u·T_i + (99/25)·i·u·M·R₀ + (15/4)·i³·u²·M²` (`moments_m0_error_sharp_num` for the prefix of
  length `i`),
* `H i = 10(i+10)·u·V3m_i + 11(i+10)·u·M·T_i + 13·u·M·R₀·W_i + 30(i+10)²u²M²R₀ + 16(i+10)⁴u³M³`
  (`mom3_fold_error_num_W` for the prefix of length `i`; `0` for `i = 0`),
the sums bounded by `errSumG_le`, `(1+u)^(3n) ≤ 64/61`, `(1+u)^(3n) - 1 ≤ (192/61)·n·u`, and the numerals
worked out.

`mom4_fold_error_num`: `N ≥ 4`, `|x_i| ≤ M`, `(n+28)·u ≤ 1/64`, `n·T ≤ R₀²`, `L = n + 10`:

`|m[2] - Q| ≤ 11·L·u·(V4p + VD4m) + (9/4)·L·u·M·VR + 29·L·u·M·V3m + 234·u·M·R₀·T
     + 1550·L·u²·M²·R₀² + 136·L²·u²·M²·T + 2570·L³·u³·M³·R₀ + 975·L⁵·u⁴·M⁴`.
-/
open Avg MSpec Finset VarSpec SkewSpec KurtSpec VarErr SkewErr KurtErr MomNErr MomVarErr

namespace MomN4Err
variable {K : Type} [Field K] [LinearOrder K] [IsStrictOrderedRing K]

section fold
variable {r : Rnd2 K} [Neg (RF2 r)]

/-- **Forward error of `m[2]`, numerals.** -/
theorem mom4_fold_error_num (hneg : NegExact r) (N : Nat) (hN : 4 ≤ N) (M : K) (hM : 0 ≤ M)
    (xs : List (RF2 r))
    (hb : ∀ x ∈ xs, |x.val| ≤ M) (hsmall : ((xs.length : K) + 28) * r.u ≤ 1/64)
    (R₀ : K) (hR : 0 ≤ R₀) (hRT : (xs.length : K) * T (xs.map RF2.val) ≤ R₀^2) :
    |(mfold N xs).m2.val - Q (xs.map RF2.val)|
      ≤ 11 * ((xs.length : K) + 10) * r.u * (V4p (xs.map RF2.val) + VD4m (xs.map RF2.val))
        + 9/4 * ((xs.length : K) + 10) * r.u * M * VR (xs.map RF2.val)
        + 29 * ((xs.length : K) + 10) * r.u * M * V3m (xs.map RF2.val)
        + 234 * r.u * M * R₀ * T (xs.map RF2.val)
        + 1550 * ((xs.length : K) + 10) * r.u^2 * M^2 * R₀^2
        + 136 * ((xs.length : K) + 10)^2 * r.u^2 * M^2 * T (xs.map RF2.val)
        + 2570 * ((xs.length : K) + 10)^3 * r.u^3 * M^3 * R₀
        + 975 * ((xs.length : K) + 10)^5 * r.u^4 * M^4 := by
  have hu := r.u_nonneg
  have hn0 : (0 : K) ≤ xs.length := Nat.cast_nonneg _
  have hlen : (xs.map RF2.val).length = xs.length := by simp
  have hβ : 0 ≤ 65/128 * r.u * M := by positivity
  by_cases hnil : xs = []
  · subst hnil
    rw [mfold_new_m2]
    simp only [List.map_nil, Q_nil, sub_self, abs_zero, List.length_nil, Nat.cast_zero, zero_add]
    have := V4p_nonneg ([] : List K)
    have := VD4m_nonneg ([] : List K)
    have := VR_nonneg ([] : List K)
    have := V3m_nonneg ([] : List K)
    have := T_nonneg ([] : List K)
    positivity
  have hn1 : (1 : K) ≤ xs.length := by
    exact_mod_cast List.length_pos_of_ne_nil hnil
  have hu1856 : r.u ≤ 1/1856 := by nlinarith
  have hnu : (xs.length : K) * r.u ≤ 1/64 := by nlinarith
  have hgen := mom4_fold_error_gen hneg N hN (Esharp (65/128 * r.u * M))
    (FsharpM r.u M R₀ (xs.map RF2.val)) (HsharpM r.u M R₀ (xs.map RF2.val))
    (Esharp_nonneg hβ) (FsharpM_nonneg hu hM hR _) (HsharpM_nonneg hu hM hR _) xs
    (mean_prefix_sharp r M hM xs hb hsmall)
    (m0_prefix_sharp hneg N (by omega) M hM xs hb hsmall R₀ hR hRT)
    (m1_prefix_W hneg N (by omega) M hM xs hb hsmall R₀ hR hRT)
  refine le_trans hgen ?_
  have hsum := errSumG_le (g r.u 24) (g r.u 10) (g r.u 6) (g_nonneg hu 24) (g_nonneg hu 10)
    (g_nonneg hu 6) (Esharp (65/128 * r.u * M)) (FsharpM r.u M R₀ (xs.map RF2.val))
    (HsharpM r.u M R₀ (xs.map RF2.val)) (xs.map RF2.val)
    ((xs.length : K) + 10) R₀ (65/128 * r.u * M * ((xs.length : K) + 37/4))
    (41/8 * (65/128 * r.u * M)) (29/4 * r.u) (99/25 * r.u * M * R₀) (15/4 * r.u^2 * M^2)
    (10 * r.u) (11 * r.u * M) (13 * r.u * M * R₀)
    (330 * ((xs.length : K) + 10) * r.u^2 * M^2 * R₀ + 176 * ((xs.length : K) + 10)^3 * r.u^3 * M^3)
    (Esharp_nonneg hβ) (by positivity)
    (fun i hi => Esharp_le_max hβ xs.length i (by rwa [hlen] at hi))
    (fun i _ => Esharp_le_lin hβ i) (FsharpM_nonneg hu hM hR _) (fun i _ => le_refl _)
    (HsharpM_nonneg hu hM hR _)
    (fun i hi => HsharpM_le r.u M R₀ hu hM hR _ i _ (by
      rw [hlen] at hi
      have : (i : K) ≤ xs.length := by exact_mod_cast hi.le
      linarith))
    (by positivity) (by positivity) (by positivity) (by positivity) (by positivity) (by positivity)
    (by positivity) (by positivity) (by positivity) hR (by rw [hlen]; exact hRT)
  rw [hlen] at hsum
  have hP0 : 0 ≤ (1 + r.u)^(3 * xs.length) := by positivity
  obtain ⟨hP, hP1⟩ := lead3_le r.u hu xs.length hnu
  have hV4 : V4p (xs.map RF2.val)
      = VA4 (xs.map RF2.val) + VB4 (xs.map RF2.val) + VC4 (xs.map RF2.val) := rfl
  have hVB3 : VB (xs.map RF2.val) ≤ V3m (xs.map RF2.val) := by
    unfold V3m; linarith [VAM_nonneg (xs.map RF2.val)]
  have hfin := num_arithM4 ((1 + r.u)^(3 * xs.length)) (g r.u 24) (g r.u 10) (g r.u 6) r.u M
    (xs.length : K)
    (T (xs.map RF2.val)) R₀ (VA4 (xs.map RF2.val)) (VB4 (xs.map RF2.val)) (VC4 (xs.map RF2.val))
    (VD4m (xs.map RF2.val)) (VR (xs.map RF2.val)) (VB (xs.map RF2.val)) (V3m (xs.map RF2.val))
    _ _ _ _ _ _ _ _ _ _ rfl rfl rfl rfl rfl rfl rfl rfl rfl rfl
    hu hM hn0 (T_nonneg _) hR (VA4_nonneg _) (VB4_nonneg _) (VC4_nonneg _) (VD4m_nonneg _)
    (VR_nonneg _) (VB_nonneg _) hVB3 (g_nonneg hu 24) (g_nonneg hu 10) (g_nonneg hu 6) hP0 hP hP1
    (g24_le r.u hu hu1856) (g10_le r.u hu hu1856) (g6_le r.u hu hu1856) hu1856 hnu
  refine le_trans (add_le_add (mul_le_mul_of_nonneg_left hsum hP0) (le_refl _)) ?_
  rw [hV4]
  refine le_trans hfin (le_of_eq ?_)
  ring

end fold
end MomN4Err

#print axioms MomN4Err.mom4_fold_error_num
