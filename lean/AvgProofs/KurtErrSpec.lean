import AvgProofs.SkewErrSpec

/-!
# Exact side of the error analysis of the fourth-order sum `sum_4` of `Kurtosis.add`

`KurtSpec.Q vs = Σ (x - mean vs)⁴` and its exact recurrence (`n = |vs|`, `d = x - mean vs`,
`T vs = Σ (x - mean vs)²`, `U vs = Σ (x - mean vs)³`):

`Q (vs ++ [x]) = Q vs + d⁴·n(n²-n+1)/(n+1)³ + 6·d²·T vs/(n+1)² - 4·d·U vs/(n+1)`

(with the new count `k = n + 1` the coefficient of `d⁴` is `(k-1)(k²-3k+3)/k³`).

The three terms of the increment can be large and the last one of either sign, so the natural scale of
the rounding analysis is the sum of their absolute values over the stream,
`V4p vs = Σ_{i<n} ( d_i⁴·i(i²-i+1)/(i+1)³ + 6·d_i²·T_i/(i+1)² + 4·|d_i|·|U_i|/(i+1) )`,
`T_i`, `U_i` the sums of the prefix `x_0..x_{i-1}`; `0 ≤ Q vs ≤ V4p vs`, `V4p` is monotone under `snoc`.
-/
open Avg MSpec Finset VarSpec SkewSpec

namespace KurtSpec
variable {K : Type} [Field K] [LinearOrder K] [IsStrictOrderedRing K]

/-- exact sum of fourth powers of the deviations from the exact mean -/
def Q (vs : List K) : K := sumPow vs (mean vs) 4

/-- the coefficient `i(i²-i+1)/(i+1)³` of `d⁴` in the exact increment (`i` observations before);
with `k = i + 1` this is `(k-1)(k²-3k+3)/k³` -/
def cQ (i : ℕ) : K := (i : K) * ((i : K)^2 - (i : K) + 1) / ((i : K) + 1)^3

theorem Q_nil : Q ([] : List K) = 0 := by simp [Q]

theorem poly_pos (i : ℕ) : (0 : K) < (i : K)^2 - (i : K) + 1 := by
  have : (0 : K) ≤ i := Nat.cast_nonneg i
  nlinarith [sq_nonneg ((i : K) - 1)]

theorem cQ_nonneg (i : ℕ) : (0 : K) ≤ cQ i := by
  unfold cQ
  have hi : (0 : K) ≤ i := Nat.cast_nonneg i
  have hp := (poly_pos (K := K) i).le
  positivity

omit [LinearOrder K] [IsStrictOrderedRing K] in
theorem cQ_zero : (cQ 0 : K) = 0 := by simp [cQ]

/-- `cQ i ≤ i/(i+1)` -/
theorem cQ_le_ratio (i : ℕ) : (cQ i : K) ≤ (i : K) / ((i : K) + 1) := by
  unfold cQ
  have hi : (0 : K) ≤ i := Nat.cast_nonneg i
  have hp : (0 : K) < (i : K) + 1 := by linarith
  rw [div_le_div_iff₀ (by positivity) hp]
  have h3 : 0 ≤ (i : K)^3 := by positivity
  have h2 : 0 ≤ (i : K)^2 := by positivity
  nlinarith

theorem cQ_le_one (i : ℕ) : (cQ i : K) ≤ 1 :=
  le_trans (cQ_le_ratio i) (ratio_le_one i)

/-- `i/(i+1) ≤ 4·cQ i` (equality for `i = 1`) -/
theorem ratio_le_cQ (i : ℕ) : (i : K) / ((i : K) + 1) ≤ 4 * cQ i := by
  unfold cQ
  have hi : (0 : K) ≤ i := Nat.cast_nonneg i
  have hp : (0 : K) < (i : K) + 1 := by linarith
  rw [← mul_div_assoc, div_le_div_iff₀ hp (by positivity)]
  have h : 4 * ((i : K) * ((i : K)^2 - (i : K) + 1)) * ((i : K) + 1) - (i : K) * ((i : K) + 1)^3
      = 3 * (i : K) * ((i : K) + 1) * ((i : K) - 1)^2 := by ring
  have : 0 ≤ 3 * (i : K) * ((i : K) + 1) * ((i : K) - 1)^2 := by positivity
  linarith

/-- **Exact recurrence** of the fourth-order sum (the quantity `Kurtosis.add` approximates). -/
theorem Q_snoc (vs : List K) (x : K) :
    Q (vs ++ [x]) = Q vs + ((x - mean vs)^4 * cQ vs.length
      + 6 * (x - mean vs)^2 * T vs / ((vs.length : K) + 1)^2
      - 4 * (x - mean vs) * U vs / ((vs.length : K) + 1)) := by
  have hn : ((vs.length : K) + 1) ≠ 0 := by positivity
  have hmean := mean_snoc vs x
  have e1 := sumPow_one_mean vs
  have e0 := sumPow_zero vs (mean vs)
  have e4 := shift4 vs (mean (vs ++ [x])) (mean vs)
  rw [e1, e0] at e4
  unfold Q T U cQ
  rw [sumPow_append, e4, ← hmean]
  simp only [sumPow_cons, sumPow_nil, Nat.cast_add, Nat.cast_one]
  field_simp
  ring

theorem sumPow_four_nonneg (vs : List K) (c : K) : 0 ≤ sumPow vs c 4 := by
  unfold sumPow
  apply List.sum_nonneg
  intro y hy
  rw [List.mem_map] at hy
  obtain ⟨z, _, rfl⟩ := hy
  positivity

/-- `Σ(x - mean)⁴ ≥ 0` -/
theorem Q_nonneg (vs : List K) : 0 ≤ Q vs := sumPow_four_nonneg vs _

omit [LinearOrder K] [IsStrictOrderedRing K] in
/-- sums over the observations of a function of the index, the deviation and the second- and
third-order sums of the predecessors: one more observation -/
theorem sum_pref2_snoc (f : ℕ → K → K → K → K) (vs : List K) (x : K) :
    ∑ i ∈ range (vs ++ [x]).length,
        f i (dev (vs ++ [x]) i) (T ((vs ++ [x]).take i)) (U ((vs ++ [x]).take i))
      = ∑ i ∈ range vs.length, f i (dev vs i) (T (vs.take i)) (U (vs.take i))
        + f vs.length (x - mean vs) (T vs) (U vs) := by
  rw [List.length_append, List.length_singleton, sum_range_succ, dev_snoc_len]
  congr 1
  · apply sum_congr rfl
    intro i hi
    have hi' := mem_range.mp hi
    rw [dev_snoc_lt vs x hi', List.take_append_of_le_length (le_of_lt hi')]
  · rw [List.take_left']
    rfl

/-- the `d⁴` part of the exact increment (non-negative) -/
def incA4 (i : ℕ) (d : K) : K := d^4 * cQ i
/-- the `d²·T` part of the exact increment (non-negative) -/
def incB4 (i : ℕ) (d Ti : K) : K := 6 * d^2 * Ti / ((i : K) + 1)^2
/-- absolute value of the `d·U` part of the exact increment -/
def incC4 (i : ℕ) (d Ui : K) : K := 4 * |d| * |Ui| / ((i : K) + 1)

theorem incA4_nonneg (i : ℕ) (d : K) : 0 ≤ incA4 i d :=
  mul_nonneg (by positivity) (cQ_nonneg i)

theorem incB4_nonneg (i : ℕ) (d Ti : K) (hT : 0 ≤ Ti) : 0 ≤ incB4 i d Ti := by
  unfold incB4; positivity

theorem incC4_nonneg (i : ℕ) (d Ui : K) : 0 ≤ incC4 i d Ui := by
  unfold incC4; positivity

/-- `Σ d_i⁴·i(i²-i+1)/(i+1)³` -/
def VA4 (vs : List K) : K := ∑ i ∈ range vs.length, incA4 i (dev vs i)
/-- `Σ 6·d_i²·T_i/(i+1)²` -/
def VB4 (vs : List K) : K := ∑ i ∈ range vs.length, incB4 i (dev vs i) (T (vs.take i))
/-- `Σ 4·|d_i|·|U_i|/(i+1)` -/
def VC4 (vs : List K) : K := ∑ i ∈ range vs.length, incC4 i (dev vs i) (U (vs.take i))
/-- the sum of the absolute values of the three parts of the exact increments of `Q`: the natural
scale of the rounding errors of `sum_4` -/
def V4p (vs : List K) : K := VA4 vs + VB4 vs + VC4 vs

omit [LinearOrder K] [IsStrictOrderedRing K] in
theorem VA4_snoc (vs : List K) (x : K) : VA4 (vs ++ [x]) = VA4 vs + incA4 vs.length (x - mean vs) :=
  sum_dev_snoc (fun i d => incA4 i d) vs x

omit [LinearOrder K] [IsStrictOrderedRing K] in
theorem VB4_snoc (vs : List K) (x : K) :
    VB4 (vs ++ [x]) = VB4 vs + incB4 vs.length (x - mean vs) (T vs) :=
  sum_pref_snoc (fun i d t => incB4 i d t) vs x

omit [IsStrictOrderedRing K] in
theorem VC4_snoc (vs : List K) (x : K) :
    VC4 (vs ++ [x]) = VC4 vs + incC4 vs.length (x - mean vs) (U vs) :=
  sum_pref2_snoc (fun i d _ w => incC4 i d w) vs x

omit [IsStrictOrderedRing K] in
theorem V4p_snoc (vs : List K) (x : K) :
    V4p (vs ++ [x]) = V4p vs + (incA4 vs.length (x - mean vs) + incB4 vs.length (x - mean vs) (T vs)
      + incC4 vs.length (x - mean vs) (U vs)) := by
  unfold V4p; rw [VA4_snoc, VB4_snoc, VC4_snoc]; ring

theorem VA4_nonneg (vs : List K) : 0 ≤ VA4 vs :=
  sum_nonneg (fun i _ => incA4_nonneg i _)

theorem VB4_nonneg (vs : List K) : 0 ≤ VB4 vs :=
  sum_nonneg (fun i _ => incB4_nonneg i _ _ (T_nonneg _))

theorem VC4_nonneg (vs : List K) : 0 ≤ VC4 vs :=
  sum_nonneg (fun i _ => incC4_nonneg i _ _)

theorem V4p_nonneg (vs : List K) : 0 ≤ V4p vs :=
  add_nonneg (add_nonneg (VA4_nonneg vs) (VB4_nonneg vs)) (VC4_nonneg vs)

theorem V4p_mono (vs : List K) (x : K) : V4p vs ≤ V4p (vs ++ [x]) := by
  rw [V4p_snoc]
  have := incA4_nonneg vs.length (x - mean vs)
  have := incB4_nonneg vs.length (x - mean vs) (T vs) (T_nonneg vs)
  have := incC4_nonneg vs.length (x - mean vs) (U vs)
  linarith

/-- the exact increment is at most the sum of the absolute values of its three parts -/
theorem abs_incr4_le (vs : List K) (x : K) :
    |(x - mean vs)^4 * cQ vs.length + 6 * (x - mean vs)^2 * T vs / ((vs.length : K) + 1)^2
        - 4 * (x - mean vs) * U vs / ((vs.length : K) + 1)|
      ≤ incA4 vs.length (x - mean vs) + incB4 vs.length (x - mean vs) (T vs)
        + incC4 vs.length (x - mean vs) (U vs) := by
  have hp : (0 : K) < (vs.length : K) + 1 := by positivity
  have hA := incA4_nonneg vs.length (x - mean vs)
  have hB := incB4_nonneg vs.length (x - mean vs) (T vs) (T_nonneg vs)
  refine le_trans (abs_sub _ _) ?_
  have h1 : |(x - mean vs)^4 * cQ vs.length + 6 * (x - mean vs)^2 * T vs / ((vs.length : K) + 1)^2|
      = incA4 vs.length (x - mean vs) + incB4 vs.length (x - mean vs) (T vs) := by
    unfold incA4 incB4 at *
    exact abs_of_nonneg (add_nonneg hA hB)
  have h2 : |4 * (x - mean vs) * U vs / ((vs.length : K) + 1)|
      = incC4 vs.length (x - mean vs) (U vs) := by
    unfold incC4
    rw [abs_div, abs_mul, abs_mul, abs_of_pos hp, abs_of_pos (by norm_num : (0:K) < 4)]
  rw [h1, h2]

/-- `Σ(x - mean)⁴ ≤ V4p` -/
theorem abs_Q_le (vs : List K) : |Q vs| ≤ V4p vs := by
  induction vs using List.reverseRecOn with
  | nil => simp [Q_nil, V4p, VA4, VB4, VC4]
  | append_singleton vs x ih =>
    rw [Q_snoc, V4p_snoc]
    exact le_trans (abs_add_le _ _) (add_le_add ih (abs_incr4_le vs x))

theorem Q_le_V4p (vs : List K) : Q vs ≤ V4p vs := le_trans (le_abs_self _) (abs_Q_le vs)

/-- `V4p` of a prefix is at most `V4p` of the whole stream -/
theorem V4p_take_le (vs : List K) (i : ℕ) : V4p (vs.take i) ≤ V4p vs := by
  induction vs using List.reverseRecOn with
  | nil => simp
  | append_singleton vs x ih =>
    rcases Nat.lt_or_ge vs.length i with h | h
    · rw [List.take_of_length_le (by simp; omega)]
    · rw [List.take_append_of_le_length h]
      exact le_trans ih (V4p_mono vs x)

end KurtSpec

#print axioms KurtSpec.Q_snoc
#print axioms KurtSpec.abs_Q_le
