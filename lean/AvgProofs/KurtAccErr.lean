import AvgProofs.WeightedMeanErr
import Mathlib.Tactic.FieldSimp
import Mathlib.Tactic.Ring
import Mathlib.Tactic.Linarith
import Mathlib.Tactic.Positivity
import Mathlib.Tactic.GCongr

/-!
# The accessor `Kurtosis.kurtosis` under the standard model of rounding

For a non-empty state `kurtosis()` returns `0` when `sum_4 == 0` and otherwise

`fl( fl( fl(n·sum_4) / fl(sum_2·sum_2) ) - 3 )`   (`kurtosis_val`),

four rounded operations on top of the stored `sum_2`, `sum_4`; no square root. The exact value is
`g₂ = n·Q/T² - 3` (`= m₄/m₂² - 3`). Everything here is over an arbitrary ordered field `K`.

* `fl_between`, `inv_add_inv_ge_two`, `quot_round_error_sharp` - the tools of `AvgProofs/SkewAccSharp.lean`,
  re-proved over any ordered field;
* `num_error` - the numerator `fl(c·S4)` against `c·Q`, errors relative to `c·V`, `V ≥ |Q|`;
* `sq_between` - two-sided enclosure of the denominator `fl(S·S)` when `|S - T| ≤ ε₂·T`;
* `kurt_quot` - `|fl(fl(c·S4)/fl(S·S)) - c·Q/T²| ≤ (c·V/T²)·φ`,
  `φ = (1+ε₄)(1+u)²/((1-ε₂)²(1-u)) - 1`  (first order `ε₄ + 2·ε₂ + 3·u`);
* `sub_round` - the final subtraction rounds relative to the *result*:
  `|fl(q - 3) - (G - 3)| ≤ (1+u)·|q - G| + u·|G - 3|`;
* `kurt_main` - the long branch: `≤ (1+u)·φ·(c·V/T²) + u·|g₂|`;
* `abs_sub_three_le` - `|G - 3| ≤ 2·G` for `G ≥ 1`;
* `kurt_shortcut` - the shortcut branch (`S4 = 0`) for a general scale `V`: `|0 - g₂| ≤ 2·ε₄·(c·V/T²)`;
* `kurt_core` - both branches for `V = Q`, `ε₄ < 1` (then the shortcut cannot be taken: `S4 = 0` would give
  `Q ≤ ε₄·Q`), `kurt_core_scale`: `≤ (c·Q/T²)·((1+u)·φ + 2u)` using `c·Q/T² ≥ 1`;
* `kurt_factor_le` - numerals for `(1+u)·φ + 2u`;
* `kurtosis_val`, `kurtosis_error_gen`, `kurtosis_error_scale`, `kurtosis_error_long` - the accessor on a
  `Kurtosis (RF2 r)` state.
-/
open Avg
set_option linter.unusedSectionVars false

namespace KurtAcc
variable {K : Type} [Field K] [LinearOrder K] [IsStrictOrderedRing K]

/-- a rounded non-negative number lies between `(1-u)·t` and `(1+u)·t` -/
theorem fl_between (r : Rnd2 K) {t : K} (ht : 0 ≤ t) :
    (1 - r.u) * t ≤ r.fl t ∧ r.fl t ≤ (1 + r.u) * t := by
  have e := r.err t
  rw [abs_of_nonneg ht] at e
  have := abs_le.mp e
  constructor <;> linarith [this.1, this.2]

/-- `1/L + 1/H ≥ 2` for positive `L`, `H` with `L·H ≤ 1` -/
theorem inv_add_inv_ge_two (L H : K) (hL : 0 < L) (hH : 0 < H) (hLH : L * H ≤ 1) :
    2 ≤ 1 / L + 1 / H := by
  have hp : 0 < L * H := mul_pos hL hH
  have key : 2 * (L * H) ≤ L + H := by
    by_contra hcon
    rw [not_le] at hcon
    have h1 : (L + H)^2 < (2 * (L * H))^2 := by
      have : 0 < L + H := by linarith
      nlinarith
    have h2 : (2 * (L * H))^2 ≤ 4 * (L * H) := by nlinarith
    nlinarith [sq_nonneg (L - H)]
  rw [div_add_div _ _ hL.ne' hH.ne', le_div_iff₀ hp]
  linarith

/-- **A rounded quotient, two-sided enclosure of the denominator** (any ordered field). `D₀ ≤ ℓ·D'`,
`h·D' ≤ D₀`, `ℓ + h ≥ 2`; `|N₀| ≤ B`, `|N' - N₀| ≤ a·B`, `|N'| ≤ (1+a)·B`:
`|fl(N'/D') - N₀/D₀| ≤ (B/D₀)·((1+a)(1+u)·ℓ - 1)`. -/
theorem quot_round_error_sharp (r : Rnd2 K) (N' N₀ D' D₀ B a ℓ h : K) (hD₀ : 0 < D₀) (hD' : 0 < D')
    (ha : 0 ≤ a) (hℓ : D₀ ≤ ℓ * D') (hh : h * D' ≤ D₀) (hℓh : 2 ≤ ℓ + h)
    (hN₀ : |N₀| ≤ B) (hN : |N' - N₀| ≤ a * B) (hN' : |N'| ≤ (1 + a) * B) :
    |r.fl (N' / D') - N₀ / D₀| ≤ B / D₀ * ((1 + a) * (1 + r.u) * ℓ - 1) := by
  have hu := r.u_nonneg
  have hB : 0 ≤ B := le_trans (abs_nonneg _) hN₀
  set t := D₀ / D' with ht
  have ht0 : 0 < t := div_pos hD₀ hD'
  have htℓ : t ≤ ℓ := by rw [ht, div_le_iff₀ hD']; exact hℓ
  have hth : h ≤ t := by rw [ht, le_div_iff₀ hD']; exact hh
  have hX : N' / D' = N' * t / D₀ := by rw [ht]; field_simp
  have e : r.fl (N' / D') - N₀ / D₀
      = ((r.fl (N' / D') - N' / D') * D₀ + (N' - N₀) * t + N₀ * (t - 1)) / D₀ := by
    rw [hX]; field_simp; ring
  have h1 : |(r.fl (N' / D') - N' / D') * D₀| ≤ r.u * ((1 + a) * B) * t := by
    rw [abs_mul, abs_of_pos hD₀]
    have := r.err (N' / D')
    rw [hX, abs_div, abs_mul, abs_of_pos hD₀, abs_of_pos ht0] at this
    rw [hX]
    calc |r.fl (N' * t / D₀) - N' * t / D₀| * D₀ ≤ (r.u * (|N'| * t / D₀)) * D₀ := by gcongr
      _ = r.u * |N'| * t := by field_simp
      _ ≤ r.u * ((1 + a) * B) * t := by gcongr
  have h2 : |(N' - N₀) * t| ≤ a * B * t := by
    rw [abs_mul, abs_of_pos ht0]; gcongr
  have h3 : |N₀ * (t - 1)| ≤ B * |t - 1| := by
    rw [abs_mul]; gcongr
  have hc1 : 1 ≤ (1 + a) * (1 + r.u) := by nlinarith [mul_nonneg ha hu]
  have hscal : (r.u * (1 + a) + a) * t + |t - 1| ≤ (1 + a) * (1 + r.u) * ℓ - 1 := by
    set c := (1 + a) * (1 + r.u) with hc
    have hc' : r.u * (1 + a) + a = c - 1 := by rw [hc]; ring
    rw [hc']
    rcases le_total 1 t with h1t | h1t
    · rw [abs_of_nonneg (by linarith)]
      have : c * t ≤ c * ℓ := by gcongr
      linarith
    · rw [abs_of_nonpos (by linarith)]
      have : (c - 1) * (ℓ - t) ≥ 0 := mul_nonneg (by linarith) (by linarith)
      nlinarith
  have hnum : |(r.fl (N' / D') - N' / D') * D₀ + (N' - N₀) * t + N₀ * (t - 1)|
      ≤ B * ((1 + a) * (1 + r.u) * ℓ - 1) := by
    calc _ ≤ |(r.fl (N' / D') - N' / D') * D₀| + |(N' - N₀) * t| + |N₀ * (t - 1)| := by
          refine le_trans (abs_add_le _ _) ?_
          gcongr
          exact abs_add_le _ _
      _ ≤ r.u * ((1 + a) * B) * t + a * B * t + B * |t - 1| := by linarith
      _ = B * ((r.u * (1 + a) + a) * t + |t - 1|) := by ring
      _ ≤ B * ((1 + a) * (1 + r.u) * ℓ - 1) := by gcongr
  rw [e, abs_div, abs_of_pos hD₀]
  calc _ ≤ B * ((1 + a) * (1 + r.u) * ℓ - 1) / D₀ := by gcongr
    _ = B / D₀ * ((1 + a) * (1 + r.u) * ℓ - 1) := by ring

/-! ## numerator, denominator, quotient -/

/-- the numerator `fl(c·S4)`, `c ≥ 0` an exact count: `|S4 - Q| ≤ ε₄·V`, `|Q| ≤ V`; errors relative to `c·V` -/
theorem num_error (r : Rnd2 K) (c Q V S4 ε₄ : K) (hc : 0 ≤ c) (hQV : |Q| ≤ V)
    (hS4 : |S4 - Q| ≤ ε₄ * V) :
    |r.fl (c * S4) - c * Q| ≤ ((1 + ε₄) * (1 + r.u) - 1) * (c * V)
      ∧ |r.fl (c * S4)| ≤ (1 + ε₄) * (1 + r.u) * (c * V) := by
  have hu := r.u_nonneg
  have hS4b : |S4| ≤ (1 + ε₄) * V := by
    have : S4 = Q + (S4 - Q) := by ring
    rw [this]
    calc |Q + (S4 - Q)| ≤ |Q| + |S4 - Q| := abs_add_le _ _
      _ ≤ V + ε₄ * V := add_le_add hQV hS4
      _ = (1 + ε₄) * V := by ring
  have hp : |c * S4 - c * Q| ≤ ε₄ * (c * V) := by
    have e : c * S4 - c * Q = c * (S4 - Q) := by ring
    rw [e, abs_mul, abs_of_nonneg hc]
    calc c * |S4 - Q| ≤ c * (ε₄ * V) := by gcongr
      _ = ε₄ * (c * V) := by ring
  have hpb : |c * S4| ≤ (1 + ε₄) * (c * V) := by
    rw [abs_mul, abs_of_nonneg hc]
    calc c * |S4| ≤ c * ((1 + ε₄) * V) := by gcongr
      _ = (1 + ε₄) * (c * V) := by ring
  have hfl : |r.fl (c * S4) - c * S4| ≤ r.u * ((1 + ε₄) * (c * V)) :=
    le_trans (r.err _) (by gcongr)
  constructor
  · have e : r.fl (c * S4) - c * Q = (r.fl (c * S4) - c * S4) + (c * S4 - c * Q) := by ring
    rw [e]
    calc _ ≤ |r.fl (c * S4) - c * S4| + |c * S4 - c * Q| := abs_add_le _ _
      _ ≤ r.u * ((1 + ε₄) * (c * V)) + ε₄ * (c * V) := add_le_add hfl hp
      _ = ((1 + ε₄) * (1 + r.u) - 1) * (c * V) := by ring
  · have e : r.fl (c * S4) = (r.fl (c * S4) - c * S4) + c * S4 := by ring
    rw [e]
    calc _ ≤ |r.fl (c * S4) - c * S4| + |c * S4| := abs_add_le _ _
      _ ≤ r.u * ((1 + ε₄) * (c * V)) + (1 + ε₄) * (c * V) := add_le_add hfl hpb
      _ = (1 + ε₄) * (1 + r.u) * (c * V) := by ring

/-- **Two-sided enclosure of the denominator** `fl(S·S)` when `|S - T| ≤ ε₂·T`, `0 ≤ ε₂ ≤ 1`, `u ≤ 1`,
`T > 0`. -/
theorem sq_between (r : Rnd2 K) (S T ε₂ : K) (hT : 0 < T) (hε : 0 ≤ ε₂) (hε1 : ε₂ ≤ 1)
    (hu1 : r.u ≤ 1) (hS : |S - T| ≤ ε₂ * T) :
    (T * T) * ((1 - ε₂) * (1 - ε₂) * (1 - r.u)) ≤ r.fl (S * S)
    ∧ r.fl (S * S) ≤ (T * T) * ((1 + ε₂) * (1 + ε₂) * (1 + r.u)) := by
  have hu := r.u_nonneg
  have h1u : 0 ≤ 1 - r.u := by linarith
  have h1e : 0 ≤ 1 - ε₂ := by linarith
  obtain ⟨hSl, hSu⟩ := abs_le.mp hS
  have hSlo : (1 - ε₂) * T ≤ S := by linarith
  have hShi : S ≤ (1 + ε₂) * T := by linarith
  have hlo0 : 0 ≤ (1 - ε₂) * T := by positivity
  have hS0 : 0 ≤ S := le_trans hlo0 hSlo
  have hSSlo : ((1 - ε₂) * T) * ((1 - ε₂) * T) ≤ S * S := mul_le_mul hSlo hSlo hlo0 hS0
  have hSShi : S * S ≤ ((1 + ε₂) * T) * ((1 + ε₂) * T) :=
    mul_le_mul hShi hShi hS0 (by positivity)
  obtain ⟨hl, hh⟩ := fl_between r (mul_self_nonneg S)
  constructor
  · refine le_trans (le_of_eq ?_) (le_trans (mul_le_mul_of_nonneg_left hSSlo h1u) hl)
    ring
  · refine le_trans (le_trans hh (mul_le_mul_of_nonneg_left hSShi (by linarith))) (le_of_eq ?_)
    ring

/-- **The rounded quotient** `fl(fl(c·S4)/fl(S·S))` against `c·Q/T²`: `c ≥ 0`, `T > 0`, `|Q| ≤ V`,
`|S - T| ≤ ε₂·T` with `0 ≤ ε₂ < 1`, `|S4 - Q| ≤ ε₄·V`, `u < 1`:
`|fl(fl(c·S4)/fl(S·S)) - c·Q/T²| ≤ (c·V/T²)·((1+ε₄)(1+u)²/((1-ε₂)²(1-u)) - 1)`. -/
theorem kurt_quot (r : Rnd2 K) (c T Q V S S4 ε₂ ε₄ : K) (hc : 0 ≤ c) (hT : 0 < T)
    (hQV : |Q| ≤ V) (hε₂ : 0 ≤ ε₂) (hε₂1 : ε₂ < 1) (hε₄ : 0 ≤ ε₄) (hu1 : r.u < 1)
    (hS : |S - T| ≤ ε₂ * T) (hS4 : |S4 - Q| ≤ ε₄ * V) :
    |r.fl (r.fl (c * S4) / r.fl (S * S)) - c * Q / (T * T)|
      ≤ c * V / (T * T) * ((1 + ε₄) * (1 + r.u)^2 / ((1 - ε₂)^2 * (1 - r.u)) - 1) := by
  have hu := r.u_nonneg
  have hV : 0 ≤ V := le_trans (abs_nonneg _) hQV
  have hD₀ : 0 < T * T := mul_pos hT hT
  have h1e : 0 < 1 - ε₂ := by linarith
  have h1u : 0 < 1 - r.u := by linarith
  set L := (1 - ε₂) * (1 - ε₂) * (1 - r.u) with hL
  set H := (1 + ε₂) * (1 + ε₂) * (1 + r.u) with hH
  have hLpos : 0 < L := by positivity
  have hHpos : 0 < H := by positivity
  have hLH : L * H ≤ 1 := by
    have e : L * H = ((1 - ε₂) * (1 + ε₂)) * ((1 - ε₂) * (1 + ε₂)) * ((1 - r.u) * (1 + r.u)) := by
      rw [hL, hH]; ring
    have h1 : (1 - ε₂) * (1 + ε₂) ≤ 1 := by nlinarith
    have h0 : 0 ≤ (1 - ε₂) * (1 + ε₂) := by nlinarith
    have h2 : (1 - r.u) * (1 + r.u) ≤ 1 := by nlinarith
    have h3 : 0 ≤ (1 - r.u) * (1 + r.u) := by nlinarith
    rw [e]
    calc _ ≤ (1 * 1) * 1 := mul_le_mul (mul_le_mul h1 h1 h0 (by norm_num)) h2 h3 (by norm_num)
      _ = 1 := by ring
  obtain ⟨hDlo, hDhi⟩ := sq_between r S T ε₂ hT hε₂ hε₂1.le hu1.le hS
  set D' := r.fl (S * S) with hD'
  have hD'pos : 0 < D' := lt_of_lt_of_le (by positivity) hDlo
  have hℓ : T * T ≤ (1 / L) * D' := by
    rw [one_div, ← div_eq_inv_mul, le_div_iff₀ hLpos]; exact hDlo
  have hh : (1 / H) * D' ≤ T * T := by
    rw [one_div, ← div_eq_inv_mul, div_le_iff₀ hHpos]; exact hDhi
  have hℓh := inv_add_inv_ge_two L H hLpos hHpos hLH
  obtain ⟨hN, hN'⟩ := num_error r c Q V S4 ε₄ hc hQV hS4
  set a := (1 + ε₄) * (1 + r.u) - 1 with hadef
  have ha : 0 ≤ a := by
    have : 1 ≤ (1 + ε₄) * (1 + r.u) := one_le_mul_of_one_le_of_one_le (by linarith) (by linarith)
    rw [hadef]; linarith
  have hN'' : |r.fl (c * S4)| ≤ (1 + a) * (c * V) := by
    rw [hadef]; refine le_trans hN' (le_of_eq ?_); ring
  have hN₀ : |c * Q| ≤ c * V := by
    rw [abs_mul, abs_of_nonneg hc]; exact mul_le_mul_of_nonneg_left hQV hc
  have hq := quot_round_error_sharp r _ (c * Q) D' (T * T) (c * V) a (1 / L) (1 / H) hD₀ hD'pos ha
    hℓ hh hℓh hN₀ hN hN''
  refine le_trans hq (le_of_eq ?_)
  rw [hadef, hL]
  field_simp
  ring

/-- the final subtraction: its rounding error is relative to the *result* `q - 3`, hence
`|fl(q - 3) - (G - 3)| ≤ (1+u)·|q - G| + u·|G - 3|` -/
theorem sub_round (r : Rnd2 K) (q G : K) :
    |r.fl (q - 3) - (G - 3)| ≤ (1 + r.u) * |q - G| + r.u * |G - 3| := by
  have hu := r.u_nonneg
  have h1 : |q - 3| ≤ |q - G| + |G - 3| := by
    have : q - 3 = (q - G) + (G - 3) := by ring
    rw [this]; exact abs_add_le _ _
  have e : r.fl (q - 3) - (G - 3) = (r.fl (q - 3) - (q - 3)) + (q - G) := by ring
  rw [e]
  calc _ ≤ |r.fl (q - 3) - (q - 3)| + |q - G| := abs_add_le _ _
    _ ≤ r.u * (|q - G| + |G - 3|) + |q - G| := by
        have := le_trans (r.err (q - 3)) (mul_le_mul_of_nonneg_left h1 hu)
        linarith
    _ = _ := by ring

/-- **The long branch of `kurtosis()`, real numbers only, general scale.** With `G = c·Q/T²` and
`φ = (1+ε₄)(1+u)²/((1-ε₂)²(1-u)) - 1`:
`|fl(fl(fl(c·S4)/fl(S·S)) - 3) - (G - 3)| ≤ (1+u)·φ·(c·V/T²) + u·|G - 3|`. -/
theorem kurt_main (r : Rnd2 K) (c T Q V S S4 ε₂ ε₄ : K) (hc : 0 ≤ c) (hT : 0 < T)
    (hQV : |Q| ≤ V) (hε₂ : 0 ≤ ε₂) (hε₂1 : ε₂ < 1) (hε₄ : 0 ≤ ε₄) (hu1 : r.u < 1)
    (hS : |S - T| ≤ ε₂ * T) (hS4 : |S4 - Q| ≤ ε₄ * V) :
    |r.fl (r.fl (r.fl (c * S4) / r.fl (S * S)) - 3) - (c * Q / (T * T) - 3)|
      ≤ (1 + r.u) * (c * V / (T * T) * ((1 + ε₄) * (1 + r.u)^2 / ((1 - ε₂)^2 * (1 - r.u)) - 1))
        + r.u * |c * Q / (T * T) - 3| := by
  have hu := r.u_nonneg
  have hq := kurt_quot r c T Q V S S4 ε₂ ε₄ hc hT hQV hε₂ hε₂1 hε₄ hu1 hS hS4
  refine le_trans (sub_round r _ _) ?_
  have : (1 + r.u) * |r.fl (r.fl (c * S4) / r.fl (S * S)) - c * Q / (T * T)|
      ≤ (1 + r.u) * (c * V / (T * T)
          * ((1 + ε₄) * (1 + r.u)^2 / ((1 - ε₂)^2 * (1 - r.u)) - 1)) :=
    mul_le_mul_of_nonneg_left hq (by linarith)
  linarith

/-- `|G - 3| ≤ 2·G` for `G ≥ 1` -/
theorem abs_sub_three_le (G : K) (hG : 1 ≤ G) : |G - 3| ≤ 2 * G := by
  rw [abs_le]; constructor <;> linarith

/-- `ε₄ ≤ φ`, the factor of the quotient -/
theorem le_phi (u ε₂ ε₄ : K) (hu : 0 ≤ u) (hu1 : u < 1) (hε₂ : 0 ≤ ε₂) (hε₂1 : ε₂ < 1)
    (hε₄ : 0 ≤ ε₄) : ε₄ ≤ (1 + ε₄) * (1 + u)^2 / ((1 - ε₂)^2 * (1 - u)) - 1 := by
  have h1e : 0 < 1 - ε₂ := by linarith
  have h1u : 0 < 1 - u := by linarith
  have hpos : 0 < (1 - ε₂)^2 * (1 - u) := by positivity
  have hle : (1 - ε₂)^2 * (1 - u) ≤ 1 := by
    have h1 : (1 - ε₂)^2 ≤ 1 := by nlinarith
    calc (1 - ε₂)^2 * (1 - u) ≤ 1 * 1 := mul_le_mul h1 (by linarith) h1u.le (by norm_num)
      _ = 1 := by ring
  have h2 : (1:K) ≤ (1 + u)^2 := one_le_pow₀ (by linarith)
  have h3 : 1 + ε₄ ≤ (1 + ε₄) * (1 + u)^2 := le_mul_of_one_le_right (by linarith) h2
  have h4 : (1 + ε₄) * (1 + u)^2 ≤ (1 + ε₄) * (1 + u)^2 / ((1 - ε₂)^2 * (1 - u)) := by
    rw [le_div_iff₀ hpos]
    exact mul_le_of_le_one_right (by positivity) hle
  linarith

/-- **The shortcut branch, general scale.** If the stored `S4` is `0` while `|S4 - Q| ≤ ε₄·V`, and the exact
scale `G = c·Q/T² ≥ 1` (`T² ≤ c·Q`, always true of a sample), then the value returned, `0`, satisfies
`|0 - (G - 3)| ≤ 2·ε₄·(c·V/T²)`. -/
theorem kurt_shortcut (c T Q V ε₄ : K) (hc : 0 ≤ c) (hT : 0 < T) (hTQ : T * T ≤ c * Q)
    (hS4 : |(0:K) - Q| ≤ ε₄ * V) :
    |(0:K) - (c * Q / (T * T) - 3)| ≤ 2 * ε₄ * (c * V / (T * T)) := by
  have hD₀ : 0 < T * T := mul_pos hT hT
  have hG : 1 ≤ c * Q / (T * T) := by rw [le_div_iff₀ hD₀]; linarith
  have hQ : Q ≤ ε₄ * V := by
    rw [zero_sub, abs_neg] at hS4; exact le_trans (le_abs_self _) hS4
  have h1 : c * Q / (T * T) ≤ ε₄ * (c * V / (T * T)) := by
    calc c * Q / (T * T) ≤ c * (ε₄ * V) / (T * T) := by gcongr
      _ = ε₄ * (c * V / (T * T)) := by ring
  rw [zero_sub, abs_neg]
  have := abs_sub_three_le _ hG
  linarith

/-- **Both branches of `kurtosis()`, real numbers only, relative bound on `sum_4`.** `c ≥ 0` (the count),
`T > 0`, `T² ≤ c·Q` (so `G = c·Q/T² ≥ 1`); the stored `S`, `S4` with `|S - T| ≤ ε₂·T`, `|S4 - Q| ≤ ε₄·Q`,
`0 ≤ ε₂ < 1`, `0 ≤ ε₄ < 1`, `u < 1`. The value returned - `0` if `S4 = 0` (impossible here: it would give
`Q ≤ ε₄·Q`), else `fl(fl(fl(c·S4)/fl(S·S)) - 3)` - is within `(1+u)·φ·G + u·|G - 3|` of `G - 3`. -/
theorem kurt_core (r : Rnd2 K) (c T Q S S4 ε₂ ε₄ : K) (hc : 0 ≤ c) (hT : 0 < T)
    (hTQ : T * T ≤ c * Q) (hε₂ : 0 ≤ ε₂) (hε₂1 : ε₂ < 1) (hε₄ : 0 ≤ ε₄) (hε₄1 : ε₄ < 1)
    (hu1 : r.u < 1) (hS : |S - T| ≤ ε₂ * T) (hS4 : |S4 - Q| ≤ ε₄ * Q) :
    |(if S4 = 0 then 0 else r.fl (r.fl (r.fl (c * S4) / r.fl (S * S)) - 3))
        - (c * Q / (T * T) - 3)|
      ≤ (1 + r.u) * (c * Q / (T * T) * ((1 + ε₄) * (1 + r.u)^2 / ((1 - ε₂)^2 * (1 - r.u)) - 1))
        + r.u * |c * Q / (T * T) - 3| := by
  have hD₀ : 0 < T * T := mul_pos hT hT
  have hcQ : 0 < c * Q := lt_of_lt_of_le hD₀ hTQ
  have hQ : 0 < Q := by
    by_contra h
    rw [not_lt] at h
    have := mul_nonpos_of_nonneg_of_nonpos hc h
    linarith
  split_ifs with h0
  · exfalso
    rw [h0, zero_sub, abs_neg, abs_of_pos hQ] at hS4
    nlinarith
  · exact kurt_main r c T Q Q S S4 ε₂ ε₄ hc hT (le_of_eq (abs_of_pos hQ)) hε₂ hε₂1 hε₄ hu1 hS hS4

/-- the same against the scale alone: `≤ G·((1+u)·φ + 2u)`, `G = c·Q/T² ≥ 1` -/
theorem kurt_core_scale (r : Rnd2 K) (c T Q S S4 ε₂ ε₄ : K) (hc : 0 ≤ c) (hT : 0 < T)
    (hTQ : T * T ≤ c * Q) (hε₂ : 0 ≤ ε₂) (hε₂1 : ε₂ < 1) (hε₄ : 0 ≤ ε₄) (hε₄1 : ε₄ < 1)
    (hu1 : r.u < 1) (hS : |S - T| ≤ ε₂ * T) (hS4 : |S4 - Q| ≤ ε₄ * Q) :
    |(if S4 = 0 then 0 else r.fl (r.fl (r.fl (c * S4) / r.fl (S * S)) - 3))
        - (c * Q / (T * T) - 3)|
      ≤ c * Q / (T * T)
          * ((1 + r.u) * ((1 + ε₄) * (1 + r.u)^2 / ((1 - ε₂)^2 * (1 - r.u)) - 1) + 2 * r.u) := by
  have hu := r.u_nonneg
  have hD₀ : 0 < T * T := mul_pos hT hT
  have hG : 1 ≤ c * Q / (T * T) := by rw [le_div_iff₀ hD₀]; linarith
  refine le_trans (kurt_core r c T Q S S4 ε₂ ε₄ hc hT hTQ hε₂ hε₂1 hε₄ hε₄1 hu1 hS hS4) ?_
  have := mul_le_mul_of_nonneg_left (abs_sub_three_le _ hG) hu
  refine le_trans (add_le_add_right this _) (le_of_eq ?_)
  ring

/-! ## numerals -/

/-- **Numerals for the factor.** If `1/(1-ε₂)² ≤ 1 + b·ε₂` and `(1+u)²/(1-u) ≤ 1 + p·u` on the ranges
`ε₂ ≤ e`, `u ≤ w`, then
`(1+u)·φ + 2u ≤ A·ε₄ + (1+w)(1+p·w)·b·ε₂ + ((1+w)·p + 2)·u`,  `A = (1+w)(1+b·e)(1+p·w)`. -/
theorem kurt_factor_aux (u ε₂ ε₄ b p e w : K) (hu : 0 ≤ u) (huw : u ≤ w) (hw1 : w < 1) (hε₂ : 0 ≤ ε₂)
    (hε₂e : ε₂ ≤ e) (he1 : e < 1) (hε₄ : 0 ≤ ε₄) (hb : 0 ≤ b) (hp : 0 ≤ p)
    (hinv : 1 ≤ (1 + b * ε₂) * (1 - ε₂)^2) (hup : (1 + u)^2 ≤ (1 + p * u) * (1 - u)) :
    (1 + u) * ((1 + ε₄) * (1 + u)^2 / ((1 - ε₂)^2 * (1 - u)) - 1) + 2 * u
      ≤ (1 + w) * (1 + b * e) * (1 + p * w) * ε₄
        + (1 + w) * (1 + p * w) * b * ε₂ + ((1 + w) * p + 2) * u := by
  have h1e : 0 < 1 - ε₂ := by linarith
  have h1u : 0 < 1 - u := by linarith
  have hw0 : 0 ≤ w := le_trans hu huw
  have he0 : 0 ≤ e := le_trans hε₂ hε₂e
  have hpos : 0 < (1 - ε₂)^2 * (1 - u) := by positivity
  set Y := (1 + u)^2 / ((1 - ε₂)^2 * (1 - u)) with hY
  have hY0 : 0 ≤ Y := by positivity
  have hYle : Y ≤ (1 + b * ε₂) * (1 + p * u) := by
    rw [hY, div_le_iff₀ hpos]
    have h0 : 0 ≤ (1 + p * u) * (1 - u) := le_trans (by positivity) hup
    calc (1 + u)^2 ≤ 1 * ((1 + p * u) * (1 - u)) := by rw [one_mul]; exact hup
      _ ≤ ((1 + b * ε₂) * (1 - ε₂)^2) * ((1 + p * u) * (1 - u)) := by gcongr
      _ = (1 + b * ε₂) * (1 + p * u) * ((1 - ε₂)^2 * (1 - u)) := by ring
  have e1 : (1 + ε₄) * (1 + u)^2 / ((1 - ε₂)^2 * (1 - u)) = (1 + ε₄) * Y := by
    rw [hY, mul_div_assoc]
  rw [e1]
  have hbε : b * ε₂ ≤ b * e := mul_le_mul_of_nonneg_left hε₂e hb
  have hpu : p * u ≤ p * w := mul_le_mul_of_nonneg_left huw hp
  have hbε0 : 0 ≤ b * ε₂ := mul_nonneg hb hε₂
  have hpu0 : 0 ≤ p * u := mul_nonneg hp hu
  -- Y ≤ Ymax
  have hYmax : Y ≤ (1 + b * e) * (1 + p * w) :=
    le_trans hYle (mul_le_mul (by linarith) (by linarith) (by linarith) (by linarith))
  -- Y - 1 ≤ (1 + p w) b ε₂ + p u
  have hY1 : Y - 1 ≤ (1 + p * w) * b * ε₂ + p * u := by
    have : (1 + b * ε₂) * (1 + p * u) = 1 + (1 + p * u) * (b * ε₂) + p * u := by ring
    have h2 : (1 + p * u) * (b * ε₂) ≤ (1 + p * w) * (b * ε₂) :=
      mul_le_mul_of_nonneg_right (by linarith) hbε0
    nlinarith
  -- assemble
  have hA : (1 + u) * (ε₄ * Y) ≤ (1 + w) * (1 + b * e) * (1 + p * w) * ε₄ := by
    calc (1 + u) * (ε₄ * Y) ≤ (1 + w) * (ε₄ * ((1 + b * e) * (1 + p * w))) := by
          apply mul_le_mul (by linarith) (mul_le_mul_of_nonneg_left hYmax hε₄) (by positivity)
            (by linarith)
      _ = _ := by ring
  have hB0 : 0 ≤ (1 + p * w) * b * ε₂ + p * u := by positivity
  have hB : (1 + u) * (Y - 1) ≤ (1 + w) * ((1 + p * w) * b * ε₂ + p * u) := by
    calc (1 + u) * (Y - 1) ≤ (1 + u) * ((1 + p * w) * b * ε₂ + p * u) :=
          mul_le_mul_of_nonneg_left hY1 (by linarith)
      _ ≤ (1 + w) * ((1 + p * w) * b * ε₂ + p * u) :=
          mul_le_mul_of_nonneg_right (by linarith) hB0
  have e2 : (1 + u) * ((1 + ε₄) * Y - 1) + 2 * u = (1 + u) * (ε₄ * Y) + (1 + u) * (Y - 1) + 2 * u := by
    ring
  rw [e2]
  have e3 : (1 + w) * ((1 + p * w) * b * ε₂ + p * u)
      = (1 + w) * (1 + p * w) * b * ε₂ + (1 + w) * p * u := by ring
  linarith

/-- `1 ≤ (1 + b·ε)(1-ε)²` when `b·(1-ε)² ≥ 2 - ε` (e.g. `b = 2 + 4·e` for `ε ≤ e ≤ 1/4`) -/
theorem inv_sq_le (ε b : K) (h0 : 0 ≤ ε) (hb : 2 - ε ≤ b * (1 - ε)^2) :
    1 ≤ (1 + b * ε) * (1 - ε)^2 := by
  have : (1 + b * ε) * (1 - ε)^2 - 1 = ε * (b * (1 - ε)^2 - (2 - ε)) := by ring
  nlinarith [mul_nonneg h0 (sub_nonneg.mpr hb)]

/-- `(1+u)² ≤ (1 + p·u)(1-u)` when `3 + u ≤ p·(1-u)` -/
theorem u_part_le (u p : K) (h0 : 0 ≤ u) (hp : 3 + u ≤ p * (1 - u)) :
    (1 + u)^2 ≤ (1 + p * u) * (1 - u) := by
  have : (1 + p * u) * (1 - u) - (1 + u)^2 = u * (p * (1 - u) - (3 + u)) := by ring
  nlinarith [mul_nonneg h0 (sub_nonneg.mpr hp)]

/-- **Numerals, moderate range**: `ε₂ ≤ 1/32`, `u ≤ 1/1856`:
`(1+u)·φ + 2u ≤ (107/100)·ε₄ + (211/100)·ε₂ + (26/5)·u`. -/
theorem kurt_factor_le (u ε₂ ε₄ : K) (hu : 0 ≤ u) (hu' : u ≤ 1/1856) (hε₂ : 0 ≤ ε₂)
    (hε₂' : ε₂ ≤ 1/32) (hε₄ : 0 ≤ ε₄) :
    (1 + u) * ((1 + ε₄) * (1 + u)^2 / ((1 - ε₂)^2 * (1 - u)) - 1) + 2 * u
      ≤ 107/100 * ε₄ + 211/100 * ε₂ + 26/5 * u := by
  have h := kurt_factor_aux u ε₂ ε₄ (21/10) (301/100) (1/32) (1/1856) hu hu' (by norm_num) hε₂ hε₂'
    (by norm_num) hε₄ (by norm_num) (by norm_num)
    (inv_sq_le ε₂ _ hε₂ (by nlinarith)) (u_part_le u _ hu (by nlinarith))
  refine le_trans h ?_
  have a1 : (1 + 1/1856 : K) * (1 + 21/10 * (1/32)) * (1 + 301/100 * (1/1856)) ≤ 107/100 := by
    norm_num
  have a2 : (1 + 1/1856 : K) * (1 + 301/100 * (1/1856)) * (21/10) ≤ 211/100 := by norm_num
  have a3 : ((1 + 1/1856 : K) * (301/100) + 2) ≤ 26/5 := by norm_num
  have := mul_le_mul_of_nonneg_right a1 hε₄
  have := mul_le_mul_of_nonneg_right a2 hε₂
  have := mul_le_mul_of_nonneg_right a3 hu
  linarith

/-- **Numerals, small range**: `ε₂ ≤ 1/16384`, `u ≤ 1/2^21`:
`(1+u)·φ + 2u ≤ (1 + 1/8000)·ε₄ + (2001/1000)·ε₂ + (5001/1000)·u`. -/
theorem kurt_factor_le_tiny (u ε₂ ε₄ : K) (hu : 0 ≤ u) (hu' : u ≤ 1/2097152) (hε₂ : 0 ≤ ε₂)
    (hε₂' : ε₂ ≤ 1/16384) (hε₄ : 0 ≤ ε₄) :
    (1 + u) * ((1 + ε₄) * (1 + u)^2 / ((1 - ε₂)^2 * (1 - u)) - 1) + 2 * u
      ≤ 8001/8000 * ε₄ + 2001/1000 * ε₂ + 5001/1000 * u := by
  have h := kurt_factor_aux u ε₂ ε₄ (20003/10000) (30001/10000) (1/16384) (1/2097152) hu hu'
    (by norm_num) hε₂ hε₂' (by norm_num) hε₄ (by norm_num) (by norm_num)
    (inv_sq_le ε₂ _ hε₂ (by nlinarith)) (u_part_le u _ hu (by nlinarith))
  refine le_trans h ?_
  have a1 : (1 + 1/2097152 : K) * (1 + 20003/10000 * (1/16384)) * (1 + 30001/10000 * (1/2097152))
      ≤ 8001/8000 := by norm_num
  have a2 : (1 + 1/2097152 : K) * (1 + 30001/10000 * (1/2097152)) * (20003/10000) ≤ 2001/1000 := by
    norm_num
  have a3 : ((1 + 1/2097152 : K) * (30001/10000) + 2) ≤ 5001/1000 := by norm_num
  have := mul_le_mul_of_nonneg_right a1 hε₄
  have := mul_le_mul_of_nonneg_right a2 hε₂
  have := mul_le_mul_of_nonneg_right a3 hu
  linarith

/-! ## the accessor on a state -/

section state
variable {r : Rnd2 K} [FloatOps (RF2 r)]

/-- **What `kurtosis()` computes at `RF2 r`** for a non-empty state when `==` compares values: `0` if
`sum_4 = 0`, else `fl(fl(fl(n·sum_4)/fl(sum_2·sum_2)) - 3)` (`n` and `3` converted exactly). -/
theorem kurtosis_val (heq : ValEqb r) (s : Kurtosis (RF2 r)) (hn : s.avg.avg.avg.n ≠ 0) :
    s.kurtosis.val =
      if s.sum_4.val = 0 then 0
      else r.fl (r.fl (r.fl ((s.avg.avg.avg.n : K) * s.sum_4.val)
              / r.fl (s.avg.avg.sum_2.val * s.avg.avg.sum_2.val)) - 3) := by
  have h0 : ((0:Nat) : RF2 r).val = 0 := (Nat.cast_zero : ((0 : ℕ) : K) = 0)
  have h3 : ((3:Nat) : RF2 r).val = 3 := (Nat.cast_ofNat : ((3 : ℕ) : K) = 3)
  unfold Kurtosis.kurtosis
  rw [if_neg hn]
  by_cases h : s.sum_4.val = 0
  · have : FloatOps.eqb s.sum_4 ((0:Nat) : RF2 r) = true := (heq _ _).mpr (by rw [h, h0])
    rw [if_pos this, if_pos h, h0]
  · have : ¬ FloatOps.eqb s.sum_4 ((0:Nat) : RF2 r) = true := by
      intro hc; exact h (by rw [(heq _ _).mp hc, h0])
    rw [if_neg this, if_neg h]
    show r.fl (r.fl (r.fl ((s.avg.avg.avg.n : K) * s.sum_4.val)
        / r.fl (s.avg.avg.sum_2.val * s.avg.avg.sum_2.val)) - ((3:Nat) : RF2 r).val) = _
    rw [h3]

/-- **The accessor on a state, both branches, relative bound on `sum_4`.** A non-empty state whose `sum_2`,
`sum_4` approximate `T > 0` and `Q` with `|sum_2 - T| ≤ ε₂·T`, `|sum_4 - Q| ≤ ε₄·Q` (`0 ≤ ε₂, ε₄ < 1`),
`T² ≤ n·Q`, `u < 1`; `G = n·Q/T²`, `φ = (1+ε₄)(1+u)²/((1-ε₂)²(1-u)) - 1`:
`|kurtosis() - (G - 3)| ≤ (1+u)·φ·G + u·|G - 3|`. -/
theorem kurtosis_error_gen (heq : ValEqb r) (s : Kurtosis (RF2 r)) (hn : s.avg.avg.avg.n ≠ 0)
    (T Q ε₂ ε₄ : K) (hT : 0 < T) (hTQ : T * T ≤ (s.avg.avg.avg.n : K) * Q) (hε₂ : 0 ≤ ε₂)
    (hε₂1 : ε₂ < 1) (hε₄ : 0 ≤ ε₄) (hε₄1 : ε₄ < 1) (hu1 : r.u < 1)
    (hS : |s.avg.avg.sum_2.val - T| ≤ ε₂ * T) (hS4 : |s.sum_4.val - Q| ≤ ε₄ * Q) :
    |s.kurtosis.val - ((s.avg.avg.avg.n : K) * Q / (T * T) - 3)|
      ≤ (1 + r.u) * ((s.avg.avg.avg.n : K) * Q / (T * T)
            * ((1 + ε₄) * (1 + r.u)^2 / ((1 - ε₂)^2 * (1 - r.u)) - 1))
        + r.u * |(s.avg.avg.avg.n : K) * Q / (T * T) - 3| := by
  rw [kurtosis_val heq s hn]
  exact kurt_core r _ T Q _ _ ε₂ ε₄ (Nat.cast_nonneg _) hT hTQ hε₂ hε₂1 hε₄ hε₄1 hu1 hS hS4

/-- the same against the scale `G = n·Q/T² ≥ 1` alone: `≤ G·((1+u)·φ + 2u)` -/
theorem kurtosis_error_scale (heq : ValEqb r) (s : Kurtosis (RF2 r)) (hn : s.avg.avg.avg.n ≠ 0)
    (T Q ε₂ ε₄ : K) (hT : 0 < T) (hTQ : T * T ≤ (s.avg.avg.avg.n : K) * Q) (hε₂ : 0 ≤ ε₂)
    (hε₂1 : ε₂ < 1) (hε₄ : 0 ≤ ε₄) (hε₄1 : ε₄ < 1) (hu1 : r.u < 1)
    (hS : |s.avg.avg.sum_2.val - T| ≤ ε₂ * T) (hS4 : |s.sum_4.val - Q| ≤ ε₄ * Q) :
    |s.kurtosis.val - ((s.avg.avg.avg.n : K) * Q / (T * T) - 3)|
      ≤ (s.avg.avg.avg.n : K) * Q / (T * T)
          * ((1 + r.u) * ((1 + ε₄) * (1 + r.u)^2 / ((1 - ε₂)^2 * (1 - r.u)) - 1) + 2 * r.u) := by
  rw [kurtosis_val heq s hn]
  exact kurt_core_scale r _ T Q _ _ ε₂ ε₄ (Nat.cast_nonneg _) hT hTQ hε₂ hε₂1 hε₄ hε₄1 hu1 hS hS4

/-- **The long branch on a state, general scale `V ≥ |Q|`** (`sum_4 ≠ 0`, no hypothesis on `ε₄` beyond
`ε₄ ≥ 0`): `|kurtosis() - (G - 3)| ≤ (1+u)·φ·(n·V/T²) + u·|G - 3|`. -/
theorem kurtosis_error_long (heq : ValEqb r) (s : Kurtosis (RF2 r)) (hn : s.avg.avg.avg.n ≠ 0)
    (h4 : s.sum_4.val ≠ 0) (T Q V ε₂ ε₄ : K) (hT : 0 < T) (hQV : |Q| ≤ V) (hε₂ : 0 ≤ ε₂)
    (hε₂1 : ε₂ < 1) (hε₄ : 0 ≤ ε₄) (hu1 : r.u < 1)
    (hS : |s.avg.avg.sum_2.val - T| ≤ ε₂ * T) (hS4 : |s.sum_4.val - Q| ≤ ε₄ * V) :
    |s.kurtosis.val - ((s.avg.avg.avg.n : K) * Q / (T * T) - 3)|
      ≤ (1 + r.u) * ((s.avg.avg.avg.n : K) * V / (T * T)
            * ((1 + ε₄) * (1 + r.u)^2 / ((1 - ε₂)^2 * (1 - r.u)) - 1))
        + r.u * |(s.avg.avg.avg.n : K) * Q / (T * T) - 3| := by
  rw [kurtosis_val heq s hn, if_neg h4]
  exact kurt_main r _ T Q V _ _ ε₂ ε₄ (Nat.cast_nonneg _) hT hQV hε₂ hε₂1 hε₄ hu1 hS hS4

/-- **The shortcut branch on a state, general scale**: `sum_4 = 0` ⟹ `kurtosis() = 0` and
`|0 - (G - 3)| ≤ 2·ε₄·(n·V/T²)` when `|sum_4 - Q| ≤ ε₄·V` and `T² ≤ n·Q`. -/
theorem kurtosis_error_shortcut (heq : ValEqb r) (s : Kurtosis (RF2 r)) (hn : s.avg.avg.avg.n ≠ 0)
    (h4 : s.sum_4.val = 0) (T Q V ε₄ : K) (hT : 0 < T)
    (hTQ : T * T ≤ (s.avg.avg.avg.n : K) * Q) (hS4 : |s.sum_4.val - Q| ≤ ε₄ * V) :
    s.kurtosis.val = 0 ∧
    |s.kurtosis.val - ((s.avg.avg.avg.n : K) * Q / (T * T) - 3)|
      ≤ 2 * ε₄ * ((s.avg.avg.avg.n : K) * V / (T * T)) := by
  have hv : s.kurtosis.val = 0 := by rw [kurtosis_val heq s hn, if_pos h4]
  refine ⟨hv, ?_⟩
  rw [hv]
  rw [h4] at hS4
  exact kurt_shortcut _ T Q V ε₄ (Nat.cast_nonneg _) hT hTQ hS4

end state

end KurtAcc

#print axioms KurtAcc.quot_round_error_sharp
#print axioms KurtAcc.kurt_quot
#print axioms KurtAcc.kurt_main
#print axioms KurtAcc.kurt_shortcut
#print axioms KurtAcc.kurt_core
#print axioms KurtAcc.kurt_core_scale
#print axioms KurtAcc.kurt_factor_le
#print axioms KurtAcc.kurt_factor_le_tiny
#print axioms KurtAcc.kurtosis_val
#print axioms KurtAcc.kurtosis_error_gen
#print axioms KurtAcc.kurtosis_error_scale
#print axioms KurtAcc.kurtosis_error_long
#print axioms KurtAcc.kurtosis_error_shortcut
