import AvgProofs.VarErrSpec
import AvgProofs.CovCanon

/-!
# Exact side of the error analysis of `Variance.merge`

`VarSpec.T_append`: for non-empty `xs`, `ys`
`T (xs ++ ys) = T xs + T ys + (mean ys - mean xs)²·(n_x·n_y/(n_x+n_y))` - the quantity
`Variance.merge` approximates - with a non-negative cross term, hence `T xs + T ys ≤ T (xs ++ ys)` and
`(mean ys - mean xs)²·n_x·n_y/(n_x+n_y) ≤ T (xs ++ ys)`.
-/
open Avg MSpec

namespace VarSpec
variable {K : Type} [Field K] [LinearOrder K] [IsStrictOrderedRing K]

/-- the weight `n_x·n_y/(n_x+n_y)` of the squared difference of the means -/
def mergeW (xs ys : List K) : K := (xs.length : K) * (ys.length : K) / ((xs.length : K) + (ys.length : K))

theorem mergeW_nonneg (xs ys : List K) : 0 ≤ mergeW xs ys := by
  unfold mergeW; positivity

/-- `q·(n_x+n_y) = n_x·n_y` -/
theorem mergeW_mul (xs ys : List K) (hx : xs ≠ []) :
    mergeW xs ys * ((xs.length : K) + (ys.length : K)) = (xs.length : K) * (ys.length : K) := by
  have h1 : (0 : K) < xs.length := by exact_mod_cast List.length_pos_of_ne_nil hx
  have h2 : (0 : K) ≤ ys.length := Nat.cast_nonneg _
  have h3 : (xs.length : K) + (ys.length : K) ≠ 0 := by positivity
  unfold mergeW; field_simp

/-- **Exact merge identity** of the sum of squared deviations (the quantity `Variance.merge`
approximates): `T(xs ++ ys) = T xs + T ys + (μ_y - μ_x)²·n_x·n_y/(n_x+n_y)`. -/
theorem T_append (xs ys : List K) (hx : xs ≠ []) (hy : ys ≠ []) :
    T (xs ++ ys) = T xs + T ys + (mean ys - mean xs)^2 * mergeW xs ys := by
  have h := sum2_append xs ys hx hy
  unfold T mergeW
  rw [← h]
  ring

/-- the exact cross term is non-negative -/
theorem cross_nonneg (xs ys : List K) : 0 ≤ (mean ys - mean xs)^2 * mergeW xs ys :=
  mul_nonneg (sq_nonneg _) (mergeW_nonneg xs ys)

/-- `T` is super-additive under concatenation -/
theorem T_append_ge (xs ys : List K) (hx : xs ≠ []) (hy : ys ≠ []) : T xs + T ys ≤ T (xs ++ ys) := by
  rw [T_append xs ys hx hy]; linarith [cross_nonneg xs ys]

/-- the exact cross term is at most `T` of the concatenation -/
theorem cross_le_T (xs ys : List K) (hx : xs ≠ []) (hy : ys ≠ []) :
    (mean ys - mean xs)^2 * mergeW xs ys ≤ T (xs ++ ys) := by
  rw [T_append xs ys hx hy]; linarith [T_nonneg xs, T_nonneg ys]

end VarSpec

#print axioms VarSpec.T_append
