import AvgProofs.MeanErr
import Mathlib.Algebra.BigOperators.Group.List.Basic
import Mathlib.Algebra.Order.BigOperators.Group.List

open Avg
variable {K : Type} [Field K] [LinearOrder K] [IsStrictOrderedRing K]

/-- Standard model of rounding (no underflow/overflow): relative error at most u. -/
structure Rnd2 (K : Type) [Field K] [LinearOrder K] [IsStrictOrderedRing K] where
  fl : K → K
  u : K
  u_nonneg : 0 ≤ u
  err : ∀ t, |fl t - t| ≤ u * |t|

/-- Carrier: every arithmetic operation is rounded; integer counts are exact (n < 2^53). -/
structure RF2 (r : Rnd2 K) where
  val : K

namespace RF2
variable {r : Rnd2 K}
instance : Add (RF2 r) := ⟨fun a b => ⟨r.fl (a.val + b.val)⟩⟩
instance : Sub (RF2 r) := ⟨fun a b => ⟨r.fl (a.val - b.val)⟩⟩
instance : Mul (RF2 r) := ⟨fun a b => ⟨r.fl (a.val * b.val)⟩⟩
instance : Div (RF2 r) := ⟨fun a b => ⟨r.fl (a.val / b.val)⟩⟩
instance : NatCast (RF2 r) := ⟨fun n => ⟨(n : K)⟩⟩
end RF2

def meanK (xs : List K) : K := xs.sum / (xs.length : K)

theorem abs_sum_le (xs : List K) (M : K) (h : ∀ x ∈ xs, |x| ≤ M) : |xs.sum| ≤ xs.length * M := by
  induction xs with
  | nil => simp
  | cons x xs ih =>
    have hx := h x (by simp)
    have := ih (fun y hy => h y (by simp [hy]))
    simp only [List.sum_cons, List.length_cons, Nat.cast_add, Nat.cast_one]
    calc |x + xs.sum| ≤ |x| + |xs.sum| := abs_add_le _ _
      _ ≤ M + xs.length * M := by linarith
      _ = (xs.length + 1) * M := by ring

theorem abs_mean_le (xs : List K) (M : K) (hM : 0 ≤ M) (h : ∀ x ∈ xs, |x| ≤ M) : |meanK xs| ≤ M := by
  unfold meanK
  by_cases hn : xs = []
  · subst hn; simpa
  · have hpos : (0:K) < xs.length := by
      exact_mod_cast List.length_pos_of_ne_nil hn
    rw [abs_div, abs_of_pos hpos, div_le_iff₀ hpos]
    have := abs_sum_le xs M h
    linarith

theorem meanK_snoc (xs : List K) (x : K) :
    meanK (xs ++ [x]) = meanK xs + (x - meanK xs) / ((xs.length + 1 : Nat) : K) := by
  have hn : ((xs.length + 1 : Nat) : K) ≠ 0 := Nat.cast_ne_zero.mpr (Nat.succ_ne_zero _)
  unfold meanK
  by_cases h : xs = []
  · subst h; simp
  · have h1 : (xs.length : K) ≠ 0 := by simp [h]
    simp only [List.sum_append, List.length_append, List.sum_cons, List.sum_nil, List.length_cons,
      List.length_nil, Nat.cast_add, Nat.cast_one, add_zero, zero_add] at *
    field_simp
    ring

/-- Forward error of Welford's running mean, all stream lengths:
    |avg_n - mean| ≤ 2(2w+u)·M·n  as long as  w + n·u ≤ 1/2,  w = (2u+u²)(1+u). -/
theorem mean_fold_error (r : Rnd2 K) (M : K) (hM : 0 ≤ M) :
    ∀ (xs : List (RF2 r)), (∀ x ∈ xs, |x.val| ≤ M) →
      (2*r.u + r.u^2) * (1 + r.u) + xs.length * r.u ≤ 1/2 →
      ((xs.foldl Mean.add Mean.new).n = xs.length) ∧
      |(xs.foldl Mean.add Mean.new).avg.val - meanK (xs.map RF2.val)|
        ≤ 2 * M * (2 * ((2*r.u + r.u^2) * (1 + r.u)) + r.u) * xs.length := by
  intro xs
  induction xs using List.reverseRecOn with
  | nil => intro _ _; simp [Mean.new, meanK]; exact (Nat.cast_zero : ((0:Nat):K) = 0)
  | append_singleton xs x ih =>
    intro hb hsmall
    have hu := r.u_nonneg
    set w := (2*r.u + r.u^2) * (1 + r.u) with hw
    have hw0 : 0 ≤ w := by positivity
    have hb' : ∀ y ∈ xs, |y.val| ≤ M := fun y hy => hb y (by simp [hy])
    have hlen : ((xs ++ [x]).length : K) = xs.length + 1 := by simp
    have hsmall' : w + xs.length * r.u ≤ 1/2 := by
      rw [hlen] at hsmall; nlinarith
    obtain ⟨hn, he⟩ := ih hb' hsmall'
    rw [List.foldl_append, List.foldl_cons, List.foldl_nil]
    set s := xs.foldl Mean.add Mean.new with hs
    refine ⟨by simp [Mean.add, hn], ?_⟩
    rw [List.map_append, List.map_cons, List.map_nil, meanK_snoc, List.length_map]
    set μ := meanK (xs.map RF2.val) with hμ
    set k : K := ((xs.length + 1 : Nat) : K) with hk
    have hk1 : (1:K) ≤ k := by simp [hk]
    have hkpos : 0 < k := lt_of_lt_of_le one_pos hk1
    have hμb : |μ| ≤ M := abs_mean_le _ M hM (by
      intro y hy; rw [List.mem_map] at hy; obtain ⟨z, hz, rfl⟩ := hy; exact hb' z hz)
    have hxb : |x.val| ≤ M := hb x (by simp)
    have step := welford_step_error r.fl r.u hu r.err M hM s.avg.val μ x.val k hk1 hxb hμb
    simp only at step
    have havg : (s.add x).avg.val = r.fl (s.avg.val + r.fl (r.fl (x.val - s.avg.val) / k)) := by
      simp only [Mean.add, hn, hk]; rfl
    rw [havg]
    refine le_trans step ?_
    set B := 2 * M * (2 * w + r.u) with hB
    have hB0 : 0 ≤ B := by positivity
    have hkm : (xs.length : K) = k - 1 := by simp [hk]
    rw [hkm] at he hsmall'
    rw [hlen, hkm]
    set e := |s.avg.val - μ| with he'
    have he0 : 0 ≤ e := abs_nonneg _
    have hk0 : 0 ≤ k - 1 := by linarith
    have hinv : 0 ≤ 1/k := by positivity
    have hinv1 : 1/k ≤ 1 := by rw [div_le_one hkpos]; exact hk1
    -- three pieces
    have t1 : e * (1 - 1/k) ≤ B * (k - 1) := by
      calc e * (1 - 1/k) ≤ e * 1 := by gcongr; linarith
        _ = e := mul_one e
        _ ≤ B * (k-1) := he
    have hcoef : (k - 1) * (w / k + r.u) ≤ 1/2 := by
      have : (k - 1) * (w / k) ≤ w := by
        rw [← mul_div_assoc, div_le_iff₀ hkpos]; nlinarith
      nlinarith
    have t2 : e * (w / k + r.u) ≤ B / 2 := by
      have h0 : 0 ≤ w / k + r.u := by positivity
      calc e * (w / k + r.u) ≤ (B * (k-1)) * (w / k + r.u) := by gcongr
        _ = B * ((k-1) * (w / k + r.u)) := by ring
        _ ≤ B * (1/2) := by gcongr
        _ = B / 2 := by ring
    have t3 : M * (2 * w / k + r.u) ≤ B / 2 := by
      have : 2 * w / k ≤ 2 * w := by
        rw [div_le_iff₀ hkpos]; nlinarith
      calc M * (2 * w / k + r.u) ≤ M * (2 * w + r.u) := by gcongr
        _ = B / 2 := by simp only [hB]; ring
    have split : e * (1 - 1/k) + w * (2*M + e) / k + r.u * (M + e)
        = e * (1 - 1/k) + e * (w / k + r.u) + M * (2 * w / k + r.u) := by
      field_simp; ring
    rw [split]
    calc _ ≤ B * (k - 1) + B / 2 + B / 2 := by linarith
      _ = B * (k - 1 + 1) := by ring

#print axioms mean_fold_error
