import AvgProofs.CovErr
import AvgProofs.VarErrLin

/-!
# Numerical form of the forward-error bound of `sum_prod`, hypothesis `n·u ≤ 1/64` only

`cov_fold_error_lin`: standard model of rounding with unit roundoff `u`; every add-only stream of `n` pairs
with `|x_i| ≤ Mx`, `|y_i| ≤ My`, `n·u ≤ 1/64`; `C = Σ(x - mean x)(y - mean y)`, `T_x = Σ(x - mean x)²`,
`T_y` likewise; any `Rxy, Rx, Ry ≥ 0` with `T_x·T_y ≤ Rxy²`, `n·T_x ≤ Rx²`, `n·T_y ≤ Ry²`:

`|sum_prod - C| ≤ 5·n·u·Rxy + 7·n·u·Mx·Ry + 16·n·u·My·Rx + 38·n³·u²·Mx·My + 12·u·Mx·My`.

The last term is genuine in the standard model: it is the error `≈ 3u·|y_0|` of the `y`-mean of the
*first* pair (three roundings, each exact in IEEE arithmetic but not known to be in the model), times `|x_0|`.
-/
open Avg MSpec Finset VarSpec CovSpec

namespace CovErr
variable {K : Type} [Field K] [LinearOrder K] [IsStrictOrderedRing K]

/-- three roundings cost at most `(49/16)·u` relative, for `u ≤ 1/64` -/
theorem gam3_le (u : K) (hu : 0 ≤ u) (h : u ≤ 1/64) : gam3 u ≤ 49/16 * u := by
  unfold gam3
  have h2 : u^2 ≤ u / 64 := by nlinarith
  have h3 : u^3 ≤ u / 4096 := by
    have : u^3 = u^2 * u := by ring
    rw [this]; nlinarith
  have : (1 + u)^3 - 1 = 3 * u + 3 * u^2 + u^3 := by ring
  rw [this]; linarith

theorem Bm_le (u M : K) (hu : 0 ≤ u) (hM : 0 ≤ M) (h : u ≤ 1/64) : Bm u M ≤ 41/4 * u * M :=
  VarErr.B_le u M hu hM h

/-- the last algebraic step: the symbolic bound with the numerical estimates of its coefficients -/
theorem lin_arith_cov (P γ Bx By u Mx My n Rxy Rx Ry : K) (hu : 0 ≤ u) (hMx : 0 ≤ Mx)
    (hMy : 0 ≤ My) (hn : 1 ≤ n) (hRxy : 0 ≤ Rxy) (hRx : 0 ≤ Rx) (hRy : 0 ≤ Ry)
    (hBx0 : 0 ≤ Bx) (hBy0 : 0 ≤ By) (hP0 : 0 ≤ P)
    (hP : P ≤ 33/32) (hγ : γ ≤ 49/16 * u) (hBx : Bx ≤ 41/4 * u * Mx) (hBy : By ≤ 41/4 * u * My)
    (hu64 : u ≤ 1/64) :
    P * ((γ + n * u) * Rxy + (1 + γ) * (Bx * n * Ry * (37/64) + By * n * Rx * (17/12) + By * Mx
          + Bx * By * (n^3 / 3)))
      ≤ 5 * n * u * Rxy + 7 * n * u * Mx * Ry + 16 * n * u * My * Rx + 38 * n^3 * u^2 * Mx * My
        + 12 * u * Mx * My := by
  have hn0 : 0 ≤ n := by linarith
  have h1γ : 1 + γ ≤ 1073/1024 := by linarith
  have huMx : 0 ≤ u * Mx := by positivity
  have huMy : 0 ≤ u * My := by positivity
  have t1 : (γ + n * u) * Rxy ≤ (65/16 * (n * u)) * Rxy := by
    have : u ≤ n * u := by nlinarith
    gcongr; linarith
  have t2 : (1 + γ) * (Bx * n * Ry * (37/64) + By * n * Rx * (17/12) + By * Mx + Bx * By * (n^3 / 3))
      ≤ 1073/1024 * ((41/4 * u * Mx) * n * Ry * (37/64) + (41/4 * u * My) * n * Rx * (17/12)
          + (41/4 * u * My) * Mx + (41/4 * u * Mx) * (41/4 * u * My) * (n^3 / 3)) := by
    gcongr
  have hnonneg : 0 ≤ (65/16 * (n * u)) * Rxy
      + 1073/1024 * ((41/4 * u * Mx) * n * Ry * (37/64) + (41/4 * u * My) * n * Rx * (17/12)
          + (41/4 * u * My) * Mx + (41/4 * u * Mx) * (41/4 * u * My) * (n^3 / 3)) := by
    positivity
  calc P * ((γ + n * u) * Rxy + (1 + γ) * (Bx * n * Ry * (37/64) + By * n * Rx * (17/12) + By * Mx
          + Bx * By * (n^3 / 3)))
      ≤ P * ((65/16 * (n * u)) * Rxy
          + 1073/1024 * ((41/4 * u * Mx) * n * Ry * (37/64) + (41/4 * u * My) * n * Rx * (17/12)
            + (41/4 * u * My) * Mx + (41/4 * u * Mx) * (41/4 * u * My) * (n^3 / 3))) := by
        gcongr
    _ ≤ 33/32 * ((65/16 * (n * u)) * Rxy
          + 1073/1024 * ((41/4 * u * Mx) * n * Ry * (37/64) + (41/4 * u * My) * n * Rx * (17/12)
            + (41/4 * u * My) * Mx + (41/4 * u * Mx) * (41/4 * u * My) * (n^3 / 3))) := by
        gcongr
    _ ≤ 5 * n * u * Rxy + 7 * n * u * Mx * Ry + 16 * n * u * My * Rx + 38 * n^3 * u^2 * Mx * My
        + 12 * u * Mx * My := by
        have a1 : 0 ≤ n * u * Rxy := by positivity
        have a2 : 0 ≤ n * u * Mx * Ry := by positivity
        have a3 : 0 ≤ n * u * My * Rx := by positivity
        have a4 : 0 ≤ n^3 * u^2 * Mx * My := by positivity
        have a5 : 0 ≤ u * Mx * My := by positivity
        nlinarith

/-- **Forward error of `sum_prod`, linear in the conditioning (form A).** -/
theorem cov_fold_error_lin (r : Rnd2 K) (Mx My : K) (hMx : 0 ≤ Mx) (hMy : 0 ≤ My)
    (ps : List (RF2 r × RF2 r))
    (hbx : ∀ p ∈ ps, |p.1.val| ≤ Mx) (hby : ∀ p ∈ ps, |p.2.val| ≤ My)
    (hsmall : (ps.length : K) * r.u ≤ 1/64)
    (Rxy Rx Ry : K) (hRxy : 0 ≤ Rxy) (hRx : 0 ≤ Rx) (hRy : 0 ≤ Ry)
    (hxy : T (fsts (vals ps)) * T (snds (vals ps)) ≤ Rxy^2)
    (hx : (ps.length : K) * T (fsts (vals ps)) ≤ Rx^2)
    (hy : (ps.length : K) * T (snds (vals ps)) ≤ Ry^2) :
    |(ps.foldl (fun (s : Covariance (RF2 r)) p => s.add p.1 p.2) Covariance.new).sum_prod.val
        - Cxy (vals ps)|
      ≤ 5 * ps.length * r.u * Rxy + 7 * ps.length * r.u * Mx * Ry + 16 * ps.length * r.u * My * Rx
        + 38 * (ps.length : K)^3 * r.u^2 * Mx * My + 12 * r.u * Mx * My := by
  have hu := r.u_nonneg
  by_cases hnil : ps = []
  · subst hnil
    have h0 : (Covariance.new : Covariance (RF2 r)).sum_prod.val = 0 :=
      (Nat.cast_zero : ((0 : ℕ) : K) = 0)
    have : 0 ≤ 12 * r.u * Mx * My := by positivity
    simpa [h0, vals, Cxy_nil] using this
  have hn1 : (1 : K) ≤ ps.length := by
    exact_mod_cast List.length_pos_of_ne_nil hnil
  set n : K := (ps.length : K) with hn
  have hn0 : 0 ≤ n := by linarith
  have hu64 : r.u ≤ 1/64 := by nlinarith
  set Tx := T (fsts (vals ps)) with hTx
  set Ty := T (snds (vals ps)) with hTy
  have hTx0 : 0 ≤ Tx := T_nonneg _
  have hTy0 : 0 ≤ Ty := T_nonneg _
  set Bx := Bm r.u Mx with hBx
  set By := Bm r.u My with hBy
  have hBx0 : 0 ≤ Bx := Bm_nonneg hu hMx
  have hBy0 : 0 ≤ By := Bm_nonneg hu hMy
  have hw : (2*r.u + r.u^2) * (1 + r.u) ≤ 33/16 * r.u := by nlinarith
  have hsm : (2*r.u + r.u^2) * (1 + r.u) + n * r.u ≤ 1/2 := by linarith
  have hA : Bx^2 * (n^3 / 3) * Ty ≤ (Bx * n * Ry * (37/64))^2 := by
    have h1 : Bx^2 * (n^3 / 3) * Ty = (Bx^2 * n^2 / 3) * (n * Ty) := by ring
    have h2 : (Bx * n * Ry * (37/64))^2 = (Bx^2 * n^2 * (1369/4096)) * Ry^2 := by ring
    rw [h1, h2]
    have h3 : Bx^2 * n^2 / 3 ≤ Bx^2 * n^2 * (1369/4096) := by
      have : 0 ≤ Bx^2 * n^2 := by positivity
      linarith
    have h4 : 0 ≤ n * Ty := by positivity
    calc (Bx^2 * n^2 / 3) * (n * Ty) ≤ (Bx^2 * n^2 * (1369/4096)) * (n * Ty) := by gcongr
      _ ≤ (Bx^2 * n^2 * (1369/4096)) * Ry^2 := by gcongr
  have hB : By^2 * (2 * n^3) * Tx ≤ (By * n * Rx * (17/12))^2 := by
    have h1 : By^2 * (2 * n^3) * Tx = (By^2 * n^2 * 2) * (n * Tx) := by ring
    have h2 : (By * n * Rx * (17/12))^2 = (By^2 * n^2 * (289/144)) * Rx^2 := by ring
    rw [h1, h2]
    have h3 : By^2 * n^2 * 2 ≤ By^2 * n^2 * (289/144) := by
      have : 0 ≤ By^2 * n^2 := by positivity
      linarith
    have h4 : 0 ≤ n * Tx := by positivity
    calc (By^2 * n^2 * 2) * (n * Tx) ≤ (By^2 * n^2 * (289/144)) * (n * Tx) := by gcongr
      _ ≤ (By^2 * n^2 * (289/144)) * Rx^2 := by gcongr
  have main := cov_fold_error_B r Mx My hMx hMy ps hbx hby hsm Rxy (Bx * n * Ry * (37/64))
    (By * n * Rx * (17/12)) hRxy (by positivity) (by positivity) hxy hA hB
  refine le_trans main ?_
  have hP : (1 + r.u)^ps.length ≤ 33/32 := by
    have := VarErr.one_add_pow_le r.u hu ps.length (by linarith)
    linarith
  exact lin_arith_cov _ _ Bx By r.u Mx My n Rxy Rx Ry hu hMx hMy hn1 hRxy hRx hRy hBx0 hBy0
    (by positivity) hP (gam3_le r.u hu hu64) (Bm_le r.u Mx hu hMx hu64)
    (Bm_le r.u My hu hMy hu64) hu64

/-- One exactly-divided-then-rounded accessor of a signed quantity: for `m > 0`,
`|fl(S/m) - C/m| ≤ ((1+u)·|S - C| + u·|C|)/m`. -/
theorem div_round_error_abs (r : Rnd2 K) (S C m : K) (hm : 0 < m) :
    |r.fl (S / m) - C / m| ≤ ((1 + r.u) * |S - C| + r.u * |C|) / m := by
  have hu := r.u_nonneg
  have h := r.err (S / m)
  have h1 : |S / m| ≤ (|C| + |S - C|) / m := by
    rw [abs_div, abs_of_pos hm]
    gcongr
    have : S = C + (S - C) := by ring
    calc |S| = |C + (S - C)| := by rw [← this]
      _ ≤ |C| + |S - C| := abs_add_le _ _
  have h2 : |S / m - C / m| = |S - C| / m := by
    rw [← sub_div, abs_div, abs_of_pos hm]
  have : r.fl (S / m) - C / m = (r.fl (S / m) - S / m) + (S / m - C / m) := by ring
  rw [this]
  calc |(r.fl (S / m) - S / m) + (S / m - C / m)|
      ≤ |r.fl (S / m) - S / m| + |S / m - C / m| := abs_add_le _ _
    _ ≤ r.u * ((|C| + |S - C|) / m) + |S - C| / m := by
        rw [h2]
        have : r.u * |S / m| ≤ r.u * ((|C| + |S - C|) / m) := by gcongr
        linarith
    _ = ((1 + r.u) * |S - C| + r.u * |C|) / m := by ring

end CovErr

#print axioms CovErr.cov_fold_error_lin
