import AvgProofs.SkewMergeErrArith
import AvgProofs.SkewMergeErrRel
import AvgProofs.SkewErrFold
import AvgProofs.VarMergeErrLin

/-!
# The leaf case of the merge-tree induction for `sum_3`: add-only chunks in the square-root-free form

An `add` of one observation to a state over `i ≥ 1` observations has the same error structure as a merge with a
one-element chunk (`n_y = 1`, `T_y = 0`, scale `0`): the weight of `d³` is `cA i = i(i-1)/(i+1)² ≤ i/(i+1)`,
`Qa = 3|d|T/(i+1)`, the relative errors are `γ12 ≤ γ15`, `γ5 ≤ γ8`, and there is one rounded addition instead of
three. Hence the same super-additivity lemma (`SkewMerge.superadd3`) carries the same envelope through a chunk:

`SkewMerge.leaf_inv3`: `|sum_3 - U| ≤ (1+u)^(3m)·G3(m, V3p, T)` for every add-only chunk of `m` observations,
for every `Λ, κ ≥ 0` with `B² ≤ Λ·κ`.
-/
open Avg MSpec Finset VarSpec SkewSpec SkewErr VarErr

namespace SkewMerge
variable {K : Type} [Field K] [LinearOrder K] [IsStrictOrderedRing K]

/-- the contribution of one `add` in the form of one merge with a one-element chunk -/
theorem stepTerm_eq (u B F : K) (i : ℕ) (dd Tv : K) :
    stepTerm u (fun _ => B * ((i : K) + 1)) (fun _ => F) i dd Tv
      = g u 12 * (|dd|^3 * cA i) + g u 5 * incB i dd Tv
        + (1 + g u 12) * (cA i * (3 * |dd|^2 * (B * ((i : K) + 1)) + 3 * |dd| * (B * ((i : K) + 1))^2
            + (B * ((i : K) + 1))^3))
        + (1 + g u 5) * (3 * B * ((i : K) * 0 + 1 * Tv)
            + 3 / ((i : K) + 1) * ((|dd| + B * ((i : K) + 1)) * ((i : K) * 0 + 1 * F))) := by
  have hp : ((i : K) + 1) ≠ 0 := by positivity
  unfold stepTerm incA
  rw [sq_abs]
  field_simp
  ring

/-- the error of the sum of squares of an add-only chunk in the form needed by `zt_bound` -/
theorem leaf_D2 (r : Rnd2 K) (M B : K) (hM : 0 ≤ M) (hu64 : r.u ≤ 1/64)
    (hB : 2 * M * (2 * ((2*r.u + r.u^2) * (1 + r.u)) + r.u) ≤ B) (xs : List (RF2 r))
    (hb : ∀ x ∈ xs, |x.val| ≤ M) (hnu : (xs.length : K) * r.u ≤ 1/64)
    (hs1 : (2*r.u + r.u^2) * (1 + r.u) + xs.length * r.u ≤ 1/2) :
    ∀ Λ κ : K, 0 ≤ Λ → 0 ≤ κ → B^2 ≤ Λ * κ →
      |(xs.foldl Variance.add Variance.new).sum_2.val - T (xs.map RF2.val)|
        ≤ 32/31 * VarMerge.G r.u B Λ κ (xs.length : K) (T (xs.map RF2.val)) := by
  intro Λ κ hΛ hκ hΛκ
  have hu := r.u_nonneg
  have h := VarMerge.leaf_inv r M B Λ κ hM hu64 hB hΛ hκ hΛκ xs hb hs1
  refine le_trans h ?_
  have hG := VarMerge.G_nonneg r.u B Λ κ (xs.length : K) (T (xs.map RF2.val)) hu hΛ hκ
    (Nat.cast_nonneg _) (T_nonneg _)
  have := VarMerge.lead_le r.u hu xs.length hnu
  gcongr

/-- **The leaf case.** `B ≥ 2M(2w+u)` the per-observation budget of the running mean, `u ≤ 1/1856`,
`m·u ≤ 1/64`; any `Λ, κ ≥ 0` with `B² ≤ Λ·κ`:  `|sum_3 - U| ≤ (1+u)^(3m)·G3(m, V3p, T)`. -/
theorem leaf_inv3 (r : Rnd2 K) (M B Λ κ : K) (hM : 0 ≤ M) (hu' : r.u ≤ 1/1856)
    (hB : 2 * M * (2 * ((2*r.u + r.u^2) * (1 + r.u)) + r.u) ≤ B)
    (hΛ : 0 ≤ Λ) (hκ : 0 ≤ κ) (hΛκ : B^2 ≤ Λ * κ) :
    ∀ xs : List (RF2 r), (∀ x ∈ xs, |x.val| ≤ M) → (xs.length : K) * r.u ≤ 1/64 →
      |(xs.foldl Skewness.add Skewness.new).sum_3.val - U (xs.map RF2.val)|
        ≤ (1 + r.u)^(3 * xs.length)
            * G3 r.u B Λ κ (xs.length : K) (V3p (xs.map RF2.val)) (T (xs.map RF2.val)) := by
  have hu := r.u_nonneg
  have hu64 : r.u ≤ 1/64 := by linarith
  have hB0 : 0 ≤ B := le_trans (by positivity) hB
  have hw3 : (2*r.u + r.u^2) * (1 + r.u) ≤ 3 * r.u := by nlinarith
  intro xs
  induction xs using List.reverseRecOn with
  | nil =>
    intro _ _
    have h0 : (Skewness.new : Skewness (RF2 r)).sum_3.val = 0 :=
      (Nat.cast_zero : ((0 : ℕ) : K) = 0)
    simp [h0, U_nil, G3]
  | append_singleton xs x ih =>
    intro hb hnu
    have hb' : ∀ y ∈ xs, |y.val| ≤ M := fun y hy => hb y (by simp [hy])
    have hlen : ((xs ++ [x]).length : K) = (xs.length : K) + 1 := by simp
    rw [hlen] at hnu
    have hn0 : (0 : K) ≤ xs.length := Nat.cast_nonneg _
    have hnu' : (xs.length : K) * r.u ≤ 1/64 := by nlinarith
    have hs1 : (2*r.u + r.u^2) * (1 + r.u) + xs.length * r.u ≤ 1/2 := by linarith
    have ih' := ih hb' hnu'
    obtain ⟨_, hmean⟩ := mean_fold_error r M hM xs hb' hs1
    have hD2 := leaf_D2 r M B hM hu64 hB xs hb' hnu' hs1
    rw [List.foldl_append, List.foldl_cons, List.foldl_nil, List.map_append, List.map_cons,
      List.map_nil, List.length_append, List.length_singleton]
    set s := xs.foldl Skewness.add Skewness.new with hs
    set vs := xs.map RF2.val with hvs
    have hvl : vs.length = xs.length := by simp [hvs]
    have hsv : s.avg = xs.foldl Variance.add Variance.new := by
      rw [hs, Skewness.fold_avg]; rfl
    have hn : s.avg.avg.n = xs.length := by rw [hsv]; exact Variance.fold_n_ve xs
    have havg : s.avg.avg.avg = (xs.foldl Mean.add Mean.new).avg := by
      rw [hsv, Variance.fold_avg]; rfl
    rw [← havg] at hmean
    rw [← hsv] at hD2
    have hmean' : |s.avg.avg.avg.val - mean vs| ≤ B * (xs.length : K) := by
      refine le_trans hmean ?_
      gcongr
    rw [sum3_add_val, hn, U_snoc, V3p_snoc, T_snoc, hvl]
    push_cast
    set d := x.val - mean vs with hd
    rcases Nat.eq_zero_or_pos xs.length with h0 | hpos
    · -- the first observation of the chunk: no error at all
      have hxs : xs = [] := List.length_eq_zero_iff.mp h0
      have he : |s.avg.avg.avg.val - mean vs| ≤ (fun _ : ℕ => (0 : K)) xs.length := by
        rw [h0, Nat.cast_zero, mul_zero] at hmean'; exact hmean'
      have hDz : |s.avg.sum_2.val - T vs| ≤ (fun _ : ℕ => (0 : K)) xs.length := by
        have := hD2 1 (B^2) (by norm_num) (by positivity) (by rw [one_mul])
        rw [h0] at this
        simpa [VarMerge.G] using this
      have step := skew_step_bd r (fun _ => 0) (fun _ => 0) xs.length x.val s.avg.avg.avg.val
        (mean vs) s.avg.sum_2.val (T vs) s.sum_3.val (U vs) (T_nonneg vs) he hDz
      simp only at step
      have hTv : T vs = 0 := by rw [hvs, hxs]; simp [T_nil]
      have hUv : U vs = 0 := by rw [hvs, hxs]; simp [U_nil]
      have hS3 : s.sum_3.val = 0 := by
        rw [hs, hxs]; exact (Nat.cast_zero : ((0 : ℕ) : K) = 0)
      have hc0 : (cA 0 : K) = 0 := by simp [cA]
      rw [← hd] at step
      rw [h0, hTv, hUv, hS3] at step
      simp only [stepTerm, incA, incB, hc0, Nat.cast_zero] at step
      rw [h0, hTv, hUv, hS3]
      simp only [hc0, Nat.cast_zero]
      refine le_trans step ?_
      have hG := G3_nonneg r.u B Λ κ ((0 : K) + 1) (V3p vs + (incA 0 d + incB 0 d 0))
        (0 + d^2 * (0 / (0 + 1))) hu hB0 hΛ hκ (by norm_num)
        (by have := V3p_nonneg vs; have := incA_nonneg 0 d
            have := incB_nonneg 0 d (0 : K) le_rfl; linarith) (by simp)
      have hP : (0 : K) ≤ (1 + r.u)^(3 * (0 + 1)) := by positivity
      have : (0 : K) ≤ (1 + r.u)^(3 * (0 + 1)) * G3 r.u B Λ κ ((0 : K) + 1)
          (V3p vs + (incA 0 d + incB 0 d 0)) (0 + d^2 * (0 / (0 + 1))) := mul_nonneg hP hG
      refine le_trans (le_of_eq ?_) this
      simp
    · -- `i ≥ 1` observations before: one merge with a one-element chunk
      have hi1 : (1 : K) ≤ xs.length := by exact_mod_cast hpos
      set i := xs.length with hi
      have he : |s.avg.avg.avg.val - mean vs| ≤ (fun _ : ℕ => B * ((i : K) + 1)) i := by
        refine le_trans hmean' ?_
        show B * (i : K) ≤ B * ((i : K) + 1)
        gcongr; linarith
      have hDz : |s.avg.sum_2.val - T vs| ≤ (fun _ : ℕ => |s.avg.sum_2.val - T vs|) i := le_rfl
      have step := skew_step_bd r (fun _ => B * ((i : K) + 1)) (fun _ => |s.avg.sum_2.val - T vs|)
        i x.val s.avg.avg.avg.val (mean vs) s.avg.sum_2.val (T vs) s.sum_3.val (U vs) (T_nonneg vs)
        he hDz
      simp only at step
      rw [stepTerm_eq] at step
      refine le_trans step ?_
      -- the data of the abstract step
      have hg12 : g r.u 12 ≤ 76/5 * r.u := le_trans (g_mono hu (by norm_num)) (g15_le r.u hu hu')
      have hg5 : g r.u 5 ≤ 81/10 * r.u := le_trans (g_mono hu (by norm_num)) (g8_le r.u hu hu')
      have hip : (0 : K) < (i : K) + 1 := by positivity
      have hZt := zt_bound r.u B (32/31) (i : K) 1 (T vs) 0 |s.avg.sum_2.val - T vs| 0
        (|d| + B * ((i : K) + 1)) hu hB0 (by norm_num) (by linarith) one_pos (T_nonneg vs) le_rfl
        (by positivity) hD2
        (fun Λ' κ' hΛ' hκ' _ => by
          have := VarMerge.G_nonneg r.u B Λ' κ' 1 0 hu hΛ' hκ' zero_le_one le_rfl
          positivity)
      have hsup := superadd3 r.u B Λ κ (g r.u 12) (g r.u 5) (32/31) (i : K) 1 (T vs) 0 (V3p vs) 0
        |d| ((i : K) * 1 / ((i : K) + 1)) (cA i) (incB i d (T vs))
        (3 / ((i : K) + 1) * ((|d| + B * ((i : K) + 1)) * ((i : K) * 0 + 1 * |s.avg.sum_2.val - T vs|)))
        hu hu' hB0 hΛ hκ hΛκ (g_nonneg hu 12) hg12 (g_nonneg hu 5) hg5 (by norm_num) le_rfl
        hi1 le_rfl hnu (T_nonneg vs) le_rfl (V3p_nonneg vs) le_rfl (abs_nonneg d)
        (by positivity) (by field_simp) (cA_nonneg i)
        (by rw [mul_one]; exact cA_le_ratio i)
        (incB_nonneg i d (T vs) (T_nonneg vs))
        (by unfold incB; field_simp; ring)
        hZt
      -- the scale and the sum of squares of the longer chunk
      have hV' : V3p vs + 0 + (|d|^3 * cA i + incB i d (T vs))
          = V3p vs + (incA i d + incB i d (T vs)) := by unfold incA; ring
      have hT' : T vs + 0 + |d|^2 * ((i : K) * 1 / ((i : K) + 1))
          = T vs + d^2 * ((i : K) / ((i : K) + 1)) := by rw [sq_abs, mul_one]; ring
      rw [hV', hT'] at hsup
      set V' := V3p vs + (incA i d + incB i d (T vs)) with hV'def
      set T' := T vs + d^2 * ((i : K) / ((i : K) + 1)) with hT'def
      have hV'0 : 0 ≤ V' := by
        have := V3p_nonneg vs; have := incA_nonneg i d
        have := incB_nonneg i d (T vs) (T_nonneg vs); rw [hV'def]; linarith
      have hU' : |U vs + (d^3 * cA i - 3 * d * T vs / ((i : K) + 1))| ≤ V' := by
        have h1 := abs_U_le vs
        have h2 := abs_incr_le vs x.val
        rw [hvl] at h2
        refine le_trans (abs_add_le _ _) ?_
        rw [hV'def]; linarith
      set X := g r.u 12 * (|d|^3 * cA i) + g r.u 5 * incB i d (T vs)
        + (1 + g r.u 12) * (cA i * (3 * |d|^2 * (B * ((i : K) + 1)) + 3 * |d| * (B * ((i : K) + 1))^2
            + (B * ((i : K) + 1))^3))
        + (1 + g r.u 5) * (3 * B * ((i : K) * 0 + 1 * T vs)
            + 3 / ((i : K) + 1) * ((|d| + B * ((i : K) + 1))
                * ((i : K) * 0 + 1 * |s.avg.sum_2.val - T vs|))) with hX
      have hX0 : 0 ≤ X := by
        have := g_nonneg hu 12
        have := g_nonneg hu 5
        have := cA_nonneg (K := K) i
        have := incB_nonneg i d (T vs) (T_nonneg vs)
        have := T_nonneg vs
        rw [hX]; positivity
      have hGy : (0 : K) ≤ (1 + r.u)^(3 * 1) * G3 r.u B Λ κ ((1 : ℕ) : K) 0 0 :=
        mul_nonneg (by positivity)
          (G3_nonneg _ _ _ _ _ _ _ hu hB0 hΛ hκ (Nat.cast_nonneg _) le_rfl le_rfl)
      have hsup' : G3 r.u B Λ κ (i : K) (V3p vs) (T vs) + G3 r.u B Λ κ ((1 : ℕ) : K) 0 0 + X
          + 3 * r.u * V' ≤ G3 r.u B Λ κ ((i : K) + ((1 : ℕ) : K)) V' T' := by
        rw [Nat.cast_one]; exact hsup
      have hfin := node_arith3 r.u B Λ κ (V3p vs) 0 (T vs) 0 V' T' |s.sum_3.val - U vs| 0 X 0 0
        |U vs + (d^3 * cA i - 3 * d * T vs / ((i : K) + 1))| i 1 hpos le_rfl hu hB0 hΛ hκ
        (V3p_nonneg vs) le_rfl (T_nonneg vs) le_rfl hX0 hV'0 hV'0 hV'0 hU' ih' hGy hsup'
      rw [Nat.cast_one] at hfin
      refine le_trans ?_ hfin
      have h1le : (1 : K) ≤ 1 + r.u := by linarith
      have hE0 : 0 ≤ |s.sum_3.val - U vs| + X := by positivity
      have p1 : (1 + r.u) ≤ (1 + r.u)^3 := by
        calc (1 + r.u) = (1 + r.u)^1 := (pow_one _).symm
          _ ≤ (1 + r.u)^3 := pow_le_pow_right₀ h1le (by norm_num)
      have := mul_le_mul_of_nonneg_right p1 hE0
      have e : (1 + r.u)^3 * (|s.sum_3.val - U vs| + 0 + X) + r.u * (1 + r.u)^2 * 0
          + r.u * (1 + r.u) * 0 + r.u * |U vs + (d^3 * cA i - 3 * d * T vs / ((i : K) + 1))|
          = (1 + r.u)^3 * (|s.sum_3.val - U vs| + X)
            + r.u * |U vs + (d^3 * cA i - 3 * d * T vs / ((i : K) + 1))| := by ring
      rw [e]
      linarith

end SkewMerge

#print axioms SkewMerge.leaf_inv3
