import AvgProofs.WeightedMergeErrSums

/-!
# Why the number of empty chunks enters the bound of `sum_weights_sq`

`WeightedMeanWithError.merge` computes `weight_sum_sq = self.weight_sum_sq + other.weight_sum_sq` with no
early return for an empty operand. In the standard model of rounding `fl(a + 0)` need not be `a`, so every
merge with an empty chunk may cost one rounding. `emptyChain p k` is the tree
`((…((leaf [p]) ⊔ leaf []) ⊔ leaf []) …) ⊔ leaf []` with `k` empty chunks; under a rounding that always moves
away from zero by the full `u` (`fl t = t·(1+u)`) its `weight_sum_sq` is exactly `w²·(1+u)^(k+2)`:
one observation, error at least `(k+2)·u·w²`.

(IEEE arithmetic has `fl(a + 0) = a`; there an empty operand costs nothing. The standard model does not
know that.)
-/
open Avg MSpec
set_option linter.unusedSectionVars false

variable {K : Type} [Field K] [LinearOrder K] [IsStrictOrderedRing K]

namespace WMergeErr
variable {r : Rnd2 K}

/-- one observation merged with `k` empty chunks, one after the other -/
def emptyChain (p : RF2 r × RF2 r) : ℕ → MTree (RF2 r × RF2 r)
  | 0 => .leaf [p]
  | k + 1 => .node (emptyChain p k) (.leaf [])

theorem emptyChain_flatten (p : RF2 r × RF2 r) (k : ℕ) : (emptyChain p k).flatten = [p] := by
  induction k with
  | zero => rfl
  | succ k ih => show (emptyChain p k).flatten ++ [] = [p]; rw [ih]; rfl

theorem emptyChain_emptyLeaves (p : RF2 r × RF2 r) (k : ℕ) : (emptyChain p k).emptyLeaves = k := by
  induction k with
  | zero => rfl
  | succ k ih => show (emptyChain p k).emptyLeaves + 1 = k + 1; rw [ih]

variable [FloatOps (RF2 r)]

/-- under `fl t = t·(1+u)` the stored sum of squares of `emptyChain p k` is `w²·(1+u)^(k+2)` -/
theorem emptyChain_wsumsq (hfl : ∀ t, r.fl t = t * (1 + r.u)) (p : RF2 r × RF2 r) (k : ℕ) :
    (WeightedMeanWithError.evalTree (emptyChain p k)).weight_sum_sq.val
      = p.2.val * p.2.val * (1 + r.u)^(k + 2) := by
  induction k with
  | zero =>
    show r.fl (((0:ℕ) : K) + r.fl (p.2.val * p.2.val)) = _
    rw [hfl, hfl, Nat.cast_zero]; ring
  | succ k ih =>
    show r.fl ((WeightedMeanWithError.evalTree (emptyChain p k)).weight_sum_sq.val + ((0:ℕ) : K)) = _
    rw [ih, hfl, Nat.cast_zero]; ring

/-- ... so its error is at least `(k+2)·u·w²` although the tree holds a single observation -/
theorem emptyChain_wsumsq_err (hfl : ∀ t, r.fl t = t * (1 + r.u)) (p : RF2 r × RF2 r) (k : ℕ) :
    ((k : K) + 2) * r.u * W2 (pairVals (emptyChain p k).flatten)
      ≤ (WeightedMeanWithError.evalTree (emptyChain p k)).weight_sum_sq.val
          - W2 (pairVals (emptyChain p k).flatten) := by
  have hu0 := r.u_nonneg
  have hW2 : W2 (pairVals (emptyChain p k).flatten) = p.2.val * p.2.val := by
    rw [emptyChain_flatten]; simp [pairVals, W2]
  rw [emptyChain_wsumsq hfl, hW2]
  have hb : 1 + ((k + 2 : ℕ) : K) * r.u ≤ (1 + r.u)^(k + 2) := one_add_mul_le_pow (by linarith) _
  push_cast at hb
  nlinarith [mul_self_nonneg p.2.val]

end WMergeErr

#print axioms WMergeErr.emptyChain_wsumsq_err
