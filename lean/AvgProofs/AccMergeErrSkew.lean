import AvgProofs.SkewAccSharp

/-!
# The accessor `Skewness.skewness` on a state whose `sum_3` carries an ABSOLUTE error

`SkewAcc.skew_core_sharp` takes the error of the stored `sum_3` relative to a scale `V ≥ |U|` and returns a
bound proportional to `V`: the error of `sum_2` and the roundings of the accessor are then charged to `V` as
well. After a merge tree the natural bound of `sum_3` is absolute (`U` can be `0` for symmetric data while the
scale `V3T` of the tree is not), and the two contributions separate:

`|skewness() - √c·U/√(T³)| ≤ (√c/√(T³))·( δ₃·A + |U|·(A - 1) )`,   `A = (1+u)³/((1-ε₂)√(1-ε₂)(1-u)²)`,

for `|S3 - U| ≤ δ₃`, `|S - T| ≤ ε₂·T` (`skew_core_abs`, both branches of the `sum_3 == 0` shortcut): the
error of `sum_3` is amplified by `A ≈ 1`, and only the exact skewness itself is multiplied by the relative
perturbation `A - 1 ≈ (3/2)·ε₂ + 5·u` of the quotient.

* `num_round_error_abs`: the numerator `fl(sqrtfl(c)·S3)`.
* `quot_round_error_abs`: a rounded quotient, two-sided enclosure of the denominator, absolute error of the
  numerator.
* `skew_amp_facts`: `L = (1-ε₂)√(1-ε₂)(1-u)² ≤ 1`, `L·H ≤ 1` for `H = (1+ε₂)√(1+ε₂)(1+u)²`.
* `skew_amp_small`: `A ≤ 1 + (8/5)·ε₂ + (53/10)·u ≤ 1053/1000` for `ε₂ ≤ 1/32`, `u ≤ 1/1856`.
* `skewness_error_abs`: the accessor on a non-empty `Skewness` state.
-/
open Avg MSpec VarSpec SkewSpec SkewErr SkewAcc

namespace AccMerge

/-- the numerator: `fl(sq·S3)` with `|sq - √c| ≤ u·√c`, `|S3 - U| ≤ δ₃`:
`|fl(sq·S3) - √c·U| ≤ √c·(δ₃·(1+u)² + |U|·((1+u)² - 1))` -/
theorem num_round_error_abs (r : Rnd2 ℝ) (sq rc U S3 δ₃ : ℝ) (hrc : 0 ≤ rc)
    (hsq : |sq - rc| ≤ r.u * rc) (hS3 : |S3 - U| ≤ δ₃) :
    |r.fl (sq * S3) - rc * U| ≤ rc * (δ₃ * (1 + r.u)^2 + |U| * ((1 + r.u)^2 - 1)) := by
  have hu := r.u_nonneg
  have hδ : 0 ≤ δ₃ := le_trans (abs_nonneg _) hS3
  have hS3b : |S3| ≤ |U| + δ₃ := by
    have : S3 = U + (S3 - U) := by ring
    rw [this]
    calc |U + (S3 - U)| ≤ |U| + |S3 - U| := abs_add_le _ _
      _ ≤ |U| + δ₃ := by linarith
  have hB0 : 0 ≤ |U| + δ₃ := by positivity
  have hp : |sq * S3 - rc * U| ≤ rc * δ₃ + r.u * rc * (|U| + δ₃) := by
    have e : sq * S3 - rc * U = rc * (S3 - U) + (sq - rc) * S3 := by ring
    rw [e]
    calc |rc * (S3 - U) + (sq - rc) * S3| ≤ |rc * (S3 - U)| + |(sq - rc) * S3| := abs_add_le _ _
      _ ≤ rc * δ₃ + (r.u * rc) * (|U| + δ₃) := by
          rw [abs_mul, abs_mul, abs_of_nonneg hrc]
          gcongr
  have hpb : |sq * S3| ≤ (1 + r.u) * rc * (|U| + δ₃) := by
    have hsqb : |sq| ≤ (1 + r.u) * rc := by
      have : sq = rc + (sq - rc) := by ring
      rw [this]
      calc |rc + (sq - rc)| ≤ |rc| + |sq - rc| := abs_add_le _ _
        _ ≤ rc + r.u * rc := by rw [abs_of_nonneg hrc]; linarith
        _ = (1 + r.u) * rc := by ring
    rw [abs_mul]
    gcongr
  have hfl := r.err (sq * S3)
  have hflb : |r.fl (sq * S3) - sq * S3| ≤ r.u * ((1 + r.u) * rc * (|U| + δ₃)) :=
    le_trans hfl (by gcongr)
  have e : r.fl (sq * S3) - rc * U = (r.fl (sq * S3) - sq * S3) + (sq * S3 - rc * U) := by ring
  rw [e]
  calc _ ≤ |r.fl (sq * S3) - sq * S3| + |sq * S3 - rc * U| := abs_add_le _ _
    _ ≤ r.u * ((1 + r.u) * rc * (|U| + δ₃)) + (rc * δ₃ + r.u * rc * (|U| + δ₃)) :=
        add_le_add hflb hp
    _ = rc * (δ₃ * (1 + r.u)^2 + |U| * ((1 + r.u)^2 - 1)) := by ring

/-- **A rounded quotient, two-sided enclosure of the denominator, absolute error of the numerator.**
`D₀ ≤ ℓ·D'`, `h·D' ≤ D₀` (so `D₀/D' ∈ [h, ℓ]`), `ℓ + h ≥ 2`; `|N₀| ≤ B₀`, `|N' - N₀| ≤ E`:
`|fl(N'/D') - N₀/D₀| ≤ ((u·(B₀+E) + E)·ℓ + B₀·(ℓ - 1))/D₀`. -/
theorem quot_round_error_abs (r : Rnd2 ℝ) (N' N₀ D' D₀ B₀ E ℓ h : ℝ) (hD₀ : 0 < D₀) (hD' : 0 < D')
    (hℓ : D₀ ≤ ℓ * D') (hh : h * D' ≤ D₀) (hℓh : 2 ≤ ℓ + h)
    (hN₀ : |N₀| ≤ B₀) (hN : |N' - N₀| ≤ E) :
    |r.fl (N' / D') - N₀ / D₀| ≤ ((r.u * (B₀ + E) + E) * ℓ + B₀ * (ℓ - 1)) / D₀ := by
  have hu := r.u_nonneg
  have hB : 0 ≤ B₀ := le_trans (abs_nonneg _) hN₀
  have hE : 0 ≤ E := le_trans (abs_nonneg _) hN
  have hN' : |N'| ≤ B₀ + E := by
    have : N' = N₀ + (N' - N₀) := by ring
    rw [this]
    exact le_trans (abs_add_le _ _) (add_le_add hN₀ hN)
  set t := D₀ / D' with ht
  have ht0 : 0 < t := div_pos hD₀ hD'
  have htℓ : t ≤ ℓ := by rw [ht, div_le_iff₀ hD']; exact hℓ
  have hth : h ≤ t := by rw [ht, le_div_iff₀ hD']; exact hh
  have hX : N' / D' = N' * t / D₀ := by rw [ht]; field_simp
  have e : r.fl (N' / D') - N₀ / D₀
      = ((r.fl (N' / D') - N' / D') * D₀ + (N' - N₀) * t + N₀ * (t - 1)) / D₀ := by
    rw [hX]; field_simp; ring
  have h1 : |(r.fl (N' / D') - N' / D') * D₀| ≤ r.u * (B₀ + E) * t := by
    rw [abs_mul, abs_of_pos hD₀]
    have := r.err (N' / D')
    rw [hX, abs_div, abs_mul, abs_of_pos hD₀, abs_of_pos ht0] at this
    rw [hX]
    calc |r.fl (N' * t / D₀) - N' * t / D₀| * D₀ ≤ (r.u * (|N'| * t / D₀)) * D₀ := by gcongr
      _ = r.u * |N'| * t := by field_simp
      _ ≤ r.u * (B₀ + E) * t := by gcongr
  have h2 : |(N' - N₀) * t| ≤ E * t := by
    rw [abs_mul, abs_of_pos ht0]; gcongr
  have ht1 : |t - 1| ≤ ℓ - 1 := by
    rw [abs_le]; constructor <;> linarith
  have h3 : |N₀ * (t - 1)| ≤ B₀ * (ℓ - 1) := by
    rw [abs_mul]
    exact mul_le_mul hN₀ ht1 (abs_nonneg _) hB
  have hnum : |(r.fl (N' / D') - N' / D') * D₀ + (N' - N₀) * t + N₀ * (t - 1)|
      ≤ (r.u * (B₀ + E) + E) * ℓ + B₀ * (ℓ - 1) := by
    have hc0 : 0 ≤ r.u * (B₀ + E) + E := by positivity
    calc _ ≤ |(r.fl (N' / D') - N' / D') * D₀| + |(N' - N₀) * t| + |N₀ * (t - 1)| := by
          refine le_trans (abs_add_le _ _) ?_
          gcongr
          exact abs_add_le _ _
      _ ≤ r.u * (B₀ + E) * t + E * t + B₀ * (ℓ - 1) := by linarith
      _ = (r.u * (B₀ + E) + E) * t + B₀ * (ℓ - 1) := by ring
      _ ≤ (r.u * (B₀ + E) + E) * ℓ + B₀ * (ℓ - 1) := by gcongr
  rw [e, abs_div, abs_of_pos hD₀]
  gcongr

/-- the two ends of the enclosure of the denominator: `L = (1-ε₂)√(1-ε₂)·(1-u)²`,
`H = (1+ε₂)√(1+ε₂)·(1+u)²` satisfy `0 < L ≤ 1`, `0 < H`, `L·H ≤ 1` for `0 ≤ ε₂ < 1`, `0 ≤ u < 1` -/
theorem skew_amp_facts (u ε₂ : ℝ) (hu : 0 ≤ u) (hu1 : u < 1) (hε₂ : 0 ≤ ε₂) (hε₂1 : ε₂ < 1) :
    0 < (1 - ε₂) * Real.sqrt (1 - ε₂) * ((1 - u) * (1 - u))
    ∧ (1 - ε₂) * Real.sqrt (1 - ε₂) * ((1 - u) * (1 - u)) ≤ 1
    ∧ 0 < (1 + ε₂) * Real.sqrt (1 + ε₂) * ((1 + u) * (1 + u))
    ∧ ((1 - ε₂) * Real.sqrt (1 - ε₂) * ((1 - u) * (1 - u)))
        * ((1 + ε₂) * Real.sqrt (1 + ε₂) * ((1 + u) * (1 + u))) ≤ 1 := by
  have h1e : 0 < 1 - ε₂ := by linarith
  have h1u : 0 < 1 - u := by linarith
  set lo := (1 - ε₂) * Real.sqrt (1 - ε₂) with hlo
  set hi := (1 + ε₂) * Real.sqrt (1 + ε₂) with hhi
  have hlopos : 0 < lo := mul_pos h1e (Real.sqrt_pos.mpr h1e)
  have hhipos : 0 < hi := mul_pos (by linarith) (Real.sqrt_pos.mpr (by linarith))
  have hLpos : 0 < lo * ((1 - u) * (1 - u)) := by positivity
  have hHpos : 0 < hi * ((1 + u) * (1 + u)) := by positivity
  have hlohi : lo * hi ≤ 1 := by
    have e : lo * hi = ((1 - ε₂) * (1 + ε₂)) * Real.sqrt ((1 - ε₂) * (1 + ε₂)) := by
      rw [hlo, hhi, Real.sqrt_mul h1e.le]; ring
    have h1 : (1 - ε₂) * (1 + ε₂) ≤ 1 := by nlinarith
    have h0 : 0 ≤ (1 - ε₂) * (1 + ε₂) := by nlinarith
    have h2 : Real.sqrt ((1 - ε₂) * (1 + ε₂)) ≤ 1 := by
      rw [Real.sqrt_le_left (by norm_num)]; linarith
    rw [e]
    calc _ ≤ 1 * 1 := mul_le_mul h1 h2 (Real.sqrt_nonneg _) (by norm_num)
      _ = 1 := by ring
  have hLH : (lo * ((1 - u) * (1 - u))) * (hi * ((1 + u) * (1 + u))) ≤ 1 := by
    have e : (lo * ((1 - u) * (1 - u))) * (hi * ((1 + u) * (1 + u)))
        = (lo * hi) * (((1 - u) * (1 + u)) * ((1 - u) * (1 + u))) := by ring
    have h1 : (1 - u) * (1 + u) ≤ 1 := by nlinarith
    have h0 : 0 ≤ (1 - u) * (1 + u) := by nlinarith
    rw [e]
    calc _ ≤ 1 * (1 * 1) := mul_le_mul hlohi (mul_le_mul h1 h1 h0 (by norm_num))
            (mul_nonneg h0 h0) (by norm_num)
      _ = 1 := by ring
  have hL1 : lo * ((1 - u) * (1 - u)) ≤ 1 := by
    have hs1 : 1 ≤ Real.sqrt (1 + ε₂) := by
      rw [Real.le_sqrt (by norm_num) (by linarith)]; linarith
    have hhi1 : 1 ≤ hi := one_le_mul_of_one_le_of_one_le (by linarith) hs1
    have huu : 1 ≤ (1 + u) * (1 + u) :=
      one_le_mul_of_one_le_of_one_le (by linarith) (by linarith)
    have hH1 : 1 ≤ hi * ((1 + u) * (1 + u)) := one_le_mul_of_one_le_of_one_le hhi1 huu
    exact le_trans (le_mul_of_one_le_right hLpos.le hH1) hLH
  exact ⟨hLpos, hL1, hHpos, hLH⟩

/-- **Both branches of `skewness()`, real numbers only, absolute error of `sum_3`.** `c ≥ 0`, `T > 0`,
`|S - T| ≤ ε₂·T` with `0 ≤ ε₂ < 1`, `|S3 - U| ≤ δ₃`, `u < 1`; `A = (1+u)³/((1-ε₂)√(1-ε₂)(1-u)²)`. The value
returned is within `(√c/√(T³))·(δ₃·A + |U|·(A - 1))` of `√c·U/√(T³)`. -/
theorem skew_core_abs (r : Rnd2 ℝ) (q : RndSqrt r) (c T U S S3 ε₂ δ₃ : ℝ) (hc : 0 ≤ c)
    (hT : 0 < T) (hε₂ : 0 ≤ ε₂) (hε₂1 : ε₂ < 1) (hu1 : r.u < 1)
    (hS : |S - T| ≤ ε₂ * T) (hS3 : |S3 - U| ≤ δ₃) :
    |(if S3 = 0 then 0
        else r.fl (r.fl (q.sqrtfl c * S3) / q.sqrtfl (r.fl (r.fl (S * S) * S))))
        - Real.sqrt c * U / Real.sqrt (T * T * T)|
      ≤ Real.sqrt c / Real.sqrt (T * T * T)
          * (δ₃ * ((1 + r.u)^3 / ((1 - ε₂) * Real.sqrt (1 - ε₂) * ((1 - r.u) * (1 - r.u))))
              + |U| * ((1 + r.u)^3 / ((1 - ε₂) * Real.sqrt (1 - ε₂) * ((1 - r.u) * (1 - r.u))) - 1)) := by
  have hu := r.u_nonneg
  have hδ : 0 ≤ δ₃ := le_trans (abs_nonneg _) hS3
  have hpos3 : 0 < T * T * T := by positivity
  set D₀ := Real.sqrt (T * T * T) with hD₀
  have hD₀pos : 0 < D₀ := Real.sqrt_pos.mpr hpos3
  set rc := Real.sqrt c with hrc
  have hrc0 : 0 ≤ rc := Real.sqrt_nonneg c
  obtain ⟨hLpos, hL1, hHpos, hLH⟩ := skew_amp_facts r.u ε₂ hu hu1 hε₂ hε₂1
  set L := (1 - ε₂) * Real.sqrt (1 - ε₂) * ((1 - r.u) * (1 - r.u)) with hL
  set H := (1 + ε₂) * Real.sqrt (1 + ε₂) * ((1 + r.u) * (1 + r.u)) with hH
  have h13 : (1:ℝ) ≤ (1 + r.u)^3 := one_le_pow₀ (by linarith)
  have hA1 : 1 ≤ (1 + r.u)^3 / L := by
    rw [le_div_iff₀ hLpos]; linarith
  split_ifs with h0
  · have hU : |U| ≤ δ₃ := by
      rw [h0, zero_sub, abs_neg] at hS3; exact hS3
    rw [zero_sub, abs_neg, abs_div, abs_mul, abs_of_nonneg hrc0, abs_of_pos hD₀pos]
    have hU0 := abs_nonneg U
    have hx : |U| ≤ δ₃ * ((1 + r.u)^3 / L) + |U| * ((1 + r.u)^3 / L - 1) := by
      have h1 : δ₃ ≤ δ₃ * ((1 + r.u)^3 / L) := le_mul_of_one_le_right hδ hA1
      have h2 : 0 ≤ |U| * ((1 + r.u)^3 / L - 1) := mul_nonneg hU0 (by linarith)
      linarith
    calc rc * |U| / D₀ = rc / D₀ * |U| := by ring
      _ ≤ rc / D₀ * (δ₃ * ((1 + r.u)^3 / L) + |U| * ((1 + r.u)^3 / L - 1)) := by
          have : 0 ≤ rc / D₀ := by positivity
          gcongr
  · obtain ⟨hDlo, hDhi⟩ := denom_between r q S T ε₂ hT hε₂ hε₂1.le hu1.le hS
    set D' := q.sqrtfl (r.fl (r.fl (S * S) * S)) with hD'
    have hDlo' : D₀ * L ≤ D' := by
      refine le_trans (le_of_eq ?_) hDlo; rw [hL]; ring
    have hDhi' : D' ≤ D₀ * H := by
      refine le_trans hDhi (le_of_eq ?_); rw [hH]; ring
    have hD'pos : 0 < D' := lt_of_lt_of_le (by positivity) hDlo'
    have hℓ : D₀ ≤ (1 / L) * D' := by
      rw [one_div, ← div_eq_inv_mul, le_div_iff₀ hLpos]; exact hDlo'
    have hh : (1 / H) * D' ≤ D₀ := by
      rw [one_div, ← div_eq_inv_mul, div_le_iff₀ hHpos]; exact hDhi'
    have hℓh := inv_add_inv_ge_two L H hLpos hHpos hLH
    have hsq : |q.sqrtfl c - rc| ≤ r.u * rc := q.err c hc
    have hN := num_round_error_abs r (q.sqrtfl c) rc U S3 δ₃ hrc0 hsq hS3
    have hN₀ : |rc * U| ≤ rc * |U| := by
      rw [abs_mul, abs_of_nonneg hrc0]
    have hq := quot_round_error_abs r _ (rc * U) D' D₀ (rc * |U|)
      (rc * (δ₃ * (1 + r.u)^2 + |U| * ((1 + r.u)^2 - 1))) (1 / L) (1 / H) hD₀pos hD'pos
      hℓ hh hℓh hN₀ hN
    refine le_trans hq (le_of_eq ?_)
    field_simp
    ring

/-- **The amplification factor, `ε₂ ≤ 1/32`, `u ≤ 1/1856`**:
`A = (1+u)³/((1-ε₂)√(1-ε₂)(1-u)²)` satisfies `1 ≤ A`, `A - 1 ≤ (8/5)·ε₂ + (53/10)·u`, `A ≤ 1053/1000`. -/
theorem skew_amp_small (u ε₂ : ℝ) (hu : 0 ≤ u) (hu' : u ≤ 1/1856) (hε₂ : 0 ≤ ε₂) (hε₂' : ε₂ ≤ 1/32) :
    1 ≤ (1 + u)^3 / ((1 - ε₂) * Real.sqrt (1 - ε₂) * ((1 - u) * (1 - u)))
    ∧ (1 + u)^3 / ((1 - ε₂) * Real.sqrt (1 - ε₂) * ((1 - u) * (1 - u))) - 1 ≤ 8/5 * ε₂ + 53/10 * u
    ∧ (1 + u)^3 / ((1 - ε₂) * Real.sqrt (1 - ε₂) * ((1 - u) * (1 - u))) ≤ 1053/1000 := by
  obtain ⟨hLpos, hL1, _, _⟩ := skew_amp_facts u ε₂ hu (by linarith) hε₂ (by linarith)
  have h13 : (1:ℝ) ≤ (1 + u)^3 := one_le_pow₀ (by linarith)
  have h := skew_factor_sharp_small u ε₂ 0 hu hu' hε₂ hε₂' le_rfl
  rw [add_zero, one_mul, mul_zero, zero_add] at h
  refine ⟨?_, h, ?_⟩
  · rw [le_div_iff₀ hLpos]; linarith
  · linarith

section state
variable {r : Rnd2 ℝ} [FloatOps (RF2 r)]

/-- **The accessor on a state, absolute error of `sum_3`, both branches.** A non-empty state whose `sum_2`
approximates `T > 0` with `|sum_2 - T| ≤ ε₂·T` (`0 ≤ ε₂ < 1`) and whose `sum_3` approximates `U` with
`|sum_3 - U| ≤ δ₃`; `u < 1`; `A = (1+u)³/((1-ε₂)√(1-ε₂)(1-u)²)`:
`|skewness() - √n·U/√(T³)| ≤ (√n/√(T³))·(δ₃·A + |U|·(A - 1))`. -/
theorem skewness_error_abs (q : RndSqrt r) (hs : SqrtIs q) (heq : ValEqb r) (s : Skewness (RF2 r))
    (hn : s.avg.avg.n ≠ 0) (T U ε₂ δ₃ : ℝ) (hT : 0 < T) (hε₂ : 0 ≤ ε₂) (hε₂1 : ε₂ < 1)
    (hu1 : r.u < 1) (hS : |s.avg.sum_2.val - T| ≤ ε₂ * T) (hS3 : |s.sum_3.val - U| ≤ δ₃) :
    |s.skewness.val - Real.sqrt (s.avg.avg.n : ℝ) * U / Real.sqrt (T * T * T)|
      ≤ Real.sqrt (s.avg.avg.n : ℝ) / Real.sqrt (T * T * T)
          * (δ₃ * ((1 + r.u)^3 / ((1 - ε₂) * Real.sqrt (1 - ε₂) * ((1 - r.u) * (1 - r.u))))
              + |U| * ((1 + r.u)^3 / ((1 - ε₂) * Real.sqrt (1 - ε₂) * ((1 - r.u) * (1 - r.u))) - 1)) := by
  rw [skewness_val q hs heq s hn]
  exact skew_core_abs r q _ T U _ _ ε₂ δ₃ (Nat.cast_nonneg _) hT hε₂ hε₂1 hu1 hS hS3

/-- **The same with numerals** (`ε₂ ≤ 1/32`, `u ≤ 1/1856`):
`|skewness() - √n·U/√(T³)| ≤ (√n/√(T³))·( (1053/1000)·δ₃ + |U|·((8/5)·ε₂ + (53/10)·u) )`. -/
theorem skewness_error_abs_small (q : RndSqrt r) (hs : SqrtIs q) (heq : ValEqb r)
    (s : Skewness (RF2 r)) (hn : s.avg.avg.n ≠ 0) (T U ε₂ δ₃ : ℝ) (hT : 0 < T) (hε₂ : 0 ≤ ε₂)
    (hε₂' : ε₂ ≤ 1/32) (hu' : r.u ≤ 1/1856)
    (hS : |s.avg.sum_2.val - T| ≤ ε₂ * T) (hS3 : |s.sum_3.val - U| ≤ δ₃) :
    |s.skewness.val - Real.sqrt (s.avg.avg.n : ℝ) * U / Real.sqrt (T * T * T)|
      ≤ Real.sqrt (s.avg.avg.n : ℝ) / Real.sqrt (T * T * T)
          * (1053/1000 * δ₃ + |U| * (8/5 * ε₂ + 53/10 * r.u)) := by
  have hu := r.u_nonneg
  have hδ : 0 ≤ δ₃ := le_trans (abs_nonneg _) hS3
  have main := skewness_error_abs q hs heq s hn T U ε₂ δ₃ hT hε₂ (by linarith) (by linarith) hS hS3
  obtain ⟨_, hA1, hA⟩ := skew_amp_small r.u ε₂ hu hu' hε₂ hε₂'
  refine le_trans main ?_
  have hD : 0 < Real.sqrt (T * T * T) := Real.sqrt_pos.mpr (by positivity)
  have hc0 : 0 ≤ Real.sqrt (s.avg.avg.n : ℝ) / Real.sqrt (T * T * T) := by positivity
  have hU0 := abs_nonneg U
  have h1 : δ₃ * ((1 + r.u)^3 / ((1 - ε₂) * Real.sqrt (1 - ε₂) * ((1 - r.u) * (1 - r.u))))
      ≤ 1053/1000 * δ₃ := by
    rw [mul_comm]; exact mul_le_mul_of_nonneg_right hA hδ
  have h2 : |U| * ((1 + r.u)^3 / ((1 - ε₂) * Real.sqrt (1 - ε₂) * ((1 - r.u) * (1 - r.u))) - 1)
      ≤ |U| * (8/5 * ε₂ + 53/10 * r.u) := mul_le_mul_of_nonneg_left hA1 hU0
  exact mul_le_mul_of_nonneg_left (add_le_add h1 h2) hc0

end state

end AccMerge

#print axioms AccMerge.num_round_error_abs
#print axioms AccMerge.quot_round_error_abs
#print axioms AccMerge.skew_amp_facts
#print axioms AccMerge.skew_core_abs
#print axioms AccMerge.skew_amp_small
#print axioms AccMerge.skewness_error_abs
#print axioms AccMerge.skewness_error_abs_small
