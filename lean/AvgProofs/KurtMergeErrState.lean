import AvgProofs.KurtMergeErrSpec
import AvgProofs.KurtMergeErrStep
import AvgProofs.MomentsTree
import AvgProofs.MergeEmpty

/-!
# `Kurtosis.merge` at the carrier `RF2 r`: what is computed for `sum_4`, and the one-step state lemma

* `KurtMerge.sum4_merge_val`: the value of `sum_4` after `Kurtosis.merge` of two non-empty states, operation by
  operation: 31 rounded operations (`D`, `N`, `Dn`, `Dn2`; four products and the five operations of
  `n_x·n_x - n_x·n_y + n_y·n_y` and one more product for the first cross term; `6·Dn2`, four products, their sum and
  one product for the second; `4·Dn`, two products, their difference and one product for the third; four
  additions).
* `KurtMerge.sum4_merge_error`: **one-step state lemma** - explicit error of the merged `sum_4` from the errors
  of the operands' `sum_4`, `sum_3`, `sum_2` and means, `u` and the exact quantities.
-/
open Avg MSpec Finset VarSpec SkewSpec KurtSpec SkewErr

namespace KurtMerge
variable {K : Type} [Field K] [LinearOrder K] [IsStrictOrderedRing K]

/-- `sum_4` after `Kurtosis.merge` of two non-empty states at the carrier `RF2 r` -/
theorem sum4_merge_val (r : Rnd2 K) (s o : Kurtosis (RF2 r)) (hs : s.avg.avg.avg.n ≠ 0)
    (ho : o.avg.avg.avg.n ≠ 0) :
    (s.merge o).sum_4.val
      = r.fl (s.sum_4.val + r.fl (r.fl (r.fl (o.sum_4.val +
          r.fl (r.fl (r.fl (r.fl (r.fl (r.fl (o.avg.avg.avg.avg.val - s.avg.avg.avg.avg.val)
              * r.fl (r.fl (o.avg.avg.avg.avg.val - s.avg.avg.avg.avg.val)
                  / r.fl ((s.avg.avg.avg.n : K) + (o.avg.avg.avg.n : K))))
            * r.fl (r.fl (r.fl (o.avg.avg.avg.avg.val - s.avg.avg.avg.avg.val)
                  / r.fl ((s.avg.avg.avg.n : K) + (o.avg.avg.avg.n : K)))
                * r.fl (r.fl (o.avg.avg.avg.avg.val - s.avg.avg.avg.avg.val)
                  / r.fl ((s.avg.avg.avg.n : K) + (o.avg.avg.avg.n : K)))))
            * (s.avg.avg.avg.n : K)) * (o.avg.avg.avg.n : K))
            * r.fl (r.fl (r.fl ((s.avg.avg.avg.n : K) * (s.avg.avg.avg.n : K))
                  - r.fl ((s.avg.avg.avg.n : K) * (o.avg.avg.avg.n : K)))
                + r.fl ((o.avg.avg.avg.n : K) * (o.avg.avg.avg.n : K)))))
          + r.fl (r.fl (6 * r.fl (r.fl (r.fl (o.avg.avg.avg.avg.val - s.avg.avg.avg.avg.val)
                  / r.fl ((s.avg.avg.avg.n : K) + (o.avg.avg.avg.n : K)))
                * r.fl (r.fl (o.avg.avg.avg.avg.val - s.avg.avg.avg.avg.val)
                  / r.fl ((s.avg.avg.avg.n : K) + (o.avg.avg.avg.n : K)))))
              * r.fl (r.fl (r.fl ((s.avg.avg.avg.n : K) * (s.avg.avg.avg.n : K)) * o.avg.avg.sum_2.val)
                  + r.fl (r.fl ((o.avg.avg.avg.n : K) * (o.avg.avg.avg.n : K)) * s.avg.avg.sum_2.val))))
          + r.fl (r.fl (4 * r.fl (r.fl (o.avg.avg.avg.avg.val - s.avg.avg.avg.avg.val)
                  / r.fl ((s.avg.avg.avg.n : K) + (o.avg.avg.avg.n : K))))
              * r.fl (r.fl ((s.avg.avg.avg.n : K) * o.avg.sum_3.val)
                  - r.fl ((o.avg.avg.avg.n : K) * s.avg.sum_3.val))))) := by
  have h : (s.merge o).sum_4.val
      = r.fl (s.sum_4.val + r.fl (r.fl (r.fl (o.sum_4.val +
          r.fl (r.fl (r.fl (r.fl (r.fl (r.fl (o.avg.avg.avg.avg.val - s.avg.avg.avg.avg.val)
              * r.fl (r.fl (o.avg.avg.avg.avg.val - s.avg.avg.avg.avg.val)
                  / r.fl ((s.avg.avg.avg.n : K) + (o.avg.avg.avg.n : K))))
            * r.fl (r.fl (r.fl (o.avg.avg.avg.avg.val - s.avg.avg.avg.avg.val)
                  / r.fl ((s.avg.avg.avg.n : K) + (o.avg.avg.avg.n : K)))
                * r.fl (r.fl (o.avg.avg.avg.avg.val - s.avg.avg.avg.avg.val)
                  / r.fl ((s.avg.avg.avg.n : K) + (o.avg.avg.avg.n : K)))))
            * (s.avg.avg.avg.n : K)) * (o.avg.avg.avg.n : K))
            * r.fl (r.fl (r.fl ((s.avg.avg.avg.n : K) * (s.avg.avg.avg.n : K))
                  - r.fl ((s.avg.avg.avg.n : K) * (o.avg.avg.avg.n : K)))
                + r.fl ((o.avg.avg.avg.n : K) * (o.avg.avg.avg.n : K)))))
          + r.fl (r.fl (((6 : ℕ) : K) * r.fl (r.fl (r.fl (o.avg.avg.avg.avg.val - s.avg.avg.avg.avg.val)
                  / r.fl ((s.avg.avg.avg.n : K) + (o.avg.avg.avg.n : K)))
                * r.fl (r.fl (o.avg.avg.avg.avg.val - s.avg.avg.avg.avg.val)
                  / r.fl ((s.avg.avg.avg.n : K) + (o.avg.avg.avg.n : K)))))
              * r.fl (r.fl (r.fl ((s.avg.avg.avg.n : K) * (s.avg.avg.avg.n : K)) * o.avg.avg.sum_2.val)
                  + r.fl (r.fl ((o.avg.avg.avg.n : K) * (o.avg.avg.avg.n : K)) * s.avg.avg.sum_2.val))))
          + r.fl (r.fl (((4 : ℕ) : K) * r.fl (r.fl (o.avg.avg.avg.avg.val - s.avg.avg.avg.avg.val)
                  / r.fl ((s.avg.avg.avg.n : K) + (o.avg.avg.avg.n : K))))
              * r.fl (r.fl ((s.avg.avg.avg.n : K) * o.avg.sum_3.val)
                  - r.fl ((o.avg.avg.avg.n : K) * s.avg.sum_3.val))))) := by
    rw [Kurtosis.merge, if_neg ho, if_neg hs]; rfl
  rw [h, Nat.cast_ofNat, Nat.cast_ofNat]

/-- **One merge step of `sum_4` (state lemma).** The `Kurtosis` states `s`, `o` hold the exact counts of the
non-empty chunks `xs`, `ys` and means within `εx`, `εy` of the exact ones. With `δ = mean ys - mean xs`,
`n = n_x + n_y`, `ε = εx + εy`, `P`, `Qc`, `R` the exact cross terms (`crossP4`, `crossQ4`, `crossR4`),
`Ra = 4(|δ|/n)(n_x|U ys| + n_y|U xs|)` (`absR4`), `K = n_x²·T ys + n_y²·T xs` (`mixK`),
`Hu = n_x·|U ys| + n_y·|U xs|` (`mixU`), `γ_i = (1+u)^i - 1`:

`|sum_4' - Q(xs++ys)| ≤ (1+u)⁴·( |s.sum_4 - Q xs| + |o.sum_4 - Q ys| + γ28·P + γ14·Qc + γ8·Ra
      + (1+γ28)·w4·(4|δ|³ε + 6δ²ε² + 4|δ|ε³ + ε⁴)
      + (1+γ14)·(6/n²)·((2|δ|ε + ε²)·K + (|δ|+ε)²·(n_x²·|o.sum_2 - T ys| + n_y²·|s.sum_2 - T xs|))
      + (1+γ8)·(4/n)·(ε·Hu + (|δ|+ε)·(n_x·|o.sum_3 - U ys| + n_y·|s.sum_3 - U xs|)) )
   + u(1+u)³·|Q ys + P| + u(1+u)²·|Q ys + P + Qc| + u(1+u)·|Q ys + P + Qc + R| + u·|Q(xs++ys)|`. -/
theorem sum4_merge_error (r : Rnd2 K) (hu2 : r.u ≤ 1/2) (s o : Kurtosis (RF2 r)) (xs ys : List K)
    (hx : xs ≠ []) (hy : ys ≠ []) (hsn : s.avg.avg.avg.n = xs.length) (hon : o.avg.avg.avg.n = ys.length)
    (εx εy : K) (hsx : |s.avg.avg.avg.avg.val - mean xs| ≤ εx)
    (hoy : |o.avg.avg.avg.avg.val - mean ys| ≤ εy) :
    |(s.merge o).sum_4.val - Q (xs ++ ys)|
      ≤ (1 + r.u)^4 * (|s.sum_4.val - Q xs| + |o.sum_4.val - Q ys|
            + g r.u 28 * crossP4 xs ys + g r.u 14 * crossQ4 xs ys + g r.u 8 * absR4 xs ys
            + (1 + g r.u 28) * (w4 xs ys * (4 * |mean ys - mean xs|^3 * (εx + εy)
                + 6 * (mean ys - mean xs)^2 * (εx + εy)^2 + 4 * |mean ys - mean xs| * (εx + εy)^3
                + (εx + εy)^4))
            + (1 + g r.u 14) * (6 / ((xs.length : K) + (ys.length : K))^2
                * ((2 * |mean ys - mean xs| * (εx + εy) + (εx + εy)^2) * mixK xs ys
                    + (|mean ys - mean xs| + (εx + εy))^2
                      * ((xs.length : K) * (xs.length : K) * |o.avg.avg.sum_2.val - T ys|
                          + (ys.length : K) * (ys.length : K) * |s.avg.avg.sum_2.val - T xs|)))
            + (1 + g r.u 8) * (4 / ((xs.length : K) + (ys.length : K))
                * ((εx + εy) * mixU xs ys + (|mean ys - mean xs| + (εx + εy))
                    * ((xs.length : K) * |o.avg.sum_3.val - U ys|
                        + (ys.length : K) * |s.avg.sum_3.val - U xs|))))
        + r.u * (1 + r.u)^3 * |Q ys + crossP4 xs ys|
        + r.u * (1 + r.u)^2 * |Q ys + crossP4 xs ys + crossQ4 xs ys|
        + r.u * (1 + r.u) * |Q ys + crossP4 xs ys + crossQ4 xs ys + crossR4 xs ys|
        + r.u * |Q (xs ++ ys)| := by
  have hs0 : s.avg.avg.avg.n ≠ 0 := by rw [hsn]; exact fun h => hx (List.length_eq_zero_iff.mp h)
  have ho0 : o.avg.avg.avg.n ≠ 0 := by rw [hon]; exact fun h => hy (List.length_eq_zero_iff.mp h)
  have hnx : (0 : K) < xs.length := by exact_mod_cast List.length_pos_of_ne_nil hx
  have hny : (0 : K) < ys.length := by exact_mod_cast List.length_pos_of_ne_nil hy
  have hQ : Q (xs ++ ys) = Q xs + (Q ys + crossP4 xs ys + crossQ4 xs ys + crossR4 xs ys) := by
    rw [Q_append]; ring
  rw [sum4_merge_val r s o hs0 ho0, hsn, hon, hQ]
  have hε : |(o.avg.avg.avg.avg.val - s.avg.avg.avg.avg.val) - (mean ys - mean xs)| ≤ εx + εy := by
    have : (o.avg.avg.avg.avg.val - s.avg.avg.avg.avg.val) - (mean ys - mean xs)
        = (o.avg.avg.avg.avg.val - mean ys) - (s.avg.avg.avg.avg.val - mean xs) := by ring
    rw [this]
    exact le_trans (abs_sub _ _) (by linarith)
  exact merge4_step_error r.fl r.u r.u_nonneg hu2 r.err s.avg.avg.avg.avg.val o.avg.avg.avg.avg.val
    (mean xs) (mean ys) s.avg.avg.sum_2.val o.avg.avg.sum_2.val (T xs) (T ys) s.avg.sum_3.val
    o.avg.sum_3.val (U xs) (U ys) s.sum_4.val o.sum_4.val (Q xs) (Q ys) xs.length ys.length (εx + εy)
    hnx hny (T_nonneg xs) (T_nonneg ys) hε

end KurtMerge

#print axioms KurtMerge.sum4_merge_val
#print axioms KurtMerge.sum4_merge_error
