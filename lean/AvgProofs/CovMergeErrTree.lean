import AvgProofs.CovMergeErrProj
import AvgProofs.CovMergeErrSpec
import AvgProofs.CovMergeErrStep
import AvgProofs.CovMergeErrArith
import AvgProofs.CovMergeErrLeaf
import AvgProofs.MeanMergeErr

/-!
# Forward error of `sum_prod` through `Covariance.merge` and through every merge tree

Carrier `RF2 r` (standard model of rounding, `AvgProofs/MeanErr2.lean`).

* `CovMerge.sum_prod_merge_val`: what `Covariance.merge` computes for `sum_prod` of two non-empty states,
  operation by operation (eight rounded operations: six for the cross term, two additions).
* `CovMerge.sum_prod_merge_error`: **one-step state lemma** - explicit error of the merged `sum_prod`
  from the errors of the operands (`sum_prod` and the two means of each).
* `CovMerge.cov_mtree_meanx_gen`, `cov_mtree_meany_gen`: the two means through every merge tree of pairs
  keep any admissible per-observation budget (`mean_mtree_error_gen`, transferred).
* `CovMerge.cov_mtree_inv`: **every merge tree** - the square-root-free invariant
  `|sum_prod - C| ≤ (1+u)^(2n)·GC(n, GT t, T_x, T_y, L)` (`CovMerge.GC`; `GT t` the sum of the absolute
  exact increments along the tree, `L` the number of non-empty leaves) for all admissible free
  parameters.
-/
open Avg MSpec Finset VarSpec CovSpec CovErr VarMerge

namespace CovMerge
variable {K : Type} [Field K] [LinearOrder K] [IsStrictOrderedRing K]

/-- the exact values of a merge tree of pairs of the carrier (same shape, same chunks) -/
def tvals {r : Rnd2 K} (t : MTree (RF2 r × RF2 r)) : MTree (K × K) :=
  t.map (fun p => (p.1.val, p.2.val))

theorem tvals_flatten {r : Rnd2 K} (t : MTree (RF2 r × RF2 r)) :
    (tvals t).flatten = vals t.flatten := MTree.flatten_map _ t

theorem tvals_node {r : Rnd2 K} (l rt : MTree (RF2 r × RF2 r)) :
    tvals (.node l rt) = .node (tvals l) (tvals rt) := rfl

theorem tvals_leaf {r : Rnd2 K} (ps : List (RF2 r × RF2 r)) :
    tvals (.leaf ps) = .leaf (vals ps) := rfl

theorem vals_append {r : Rnd2 K} (ps qs : List (RF2 r × RF2 r)) :
    vals (ps ++ qs) = vals ps ++ vals qs := by simp [vals]

/-- `sum_prod` after `Covariance.merge` of two non-empty states at the carrier `RF2 r`: eight rounded
operations (six for the cross term, two additions) -/
theorem sum_prod_merge_val (r : Rnd2 K) (s o : Covariance (RF2 r)) (hs : s.n ≠ 0) (ho : o.n ≠ 0) :
    (s.merge o).sum_prod.val
      = r.fl (s.sum_prod.val + r.fl (o.sum_prod.val +
          r.fl (r.fl (r.fl (r.fl (r.fl (o.avg_x.val - s.avg_x.val)
                                  * r.fl (o.avg_y.val - s.avg_y.val))
                            * (s.n : K))
                      * (o.n : K))
                / r.fl ((s.n : K) + (o.n : K))))) := by
  rw [Covariance.merge, if_neg ho, if_neg hs]; rfl

/-- **One merge step (state lemma).** `s`, `o` hold the exact counts of the non-empty chunks `ps`, `qs`;
`εx`, `εy` bound the errors of the differences of their computed means. With
`K = (μx_q-μx_p)(μy_q-μy_p)·q`, `q = n_p·n_q/(n_p+n_q)`, `η = (1+u)^6/(1-u) - 1`:
`|sum_prod' - C(ps++qs)| ≤ (1+u)²·(|s.sum_prod - C ps| + |o.sum_prod - C qs| + η·|K|
      + (1+η)·(εx·|Δμy| + εy·|Δμx| + εx·εy)·q) + (1+u)·u·|C qs + K| + u·|C(ps++qs)|`. -/
theorem sum_prod_merge_error (r : Rnd2 K) (hu1 : r.u < 1) (s o : Covariance (RF2 r))
    (ps qs : List (K × K)) (hp : ps ≠ []) (hq : qs ≠ [])
    (hsn : s.n = ps.length) (hon : o.n = qs.length) (εx εy : K)
    (hεx : |(o.avg_x.val - s.avg_x.val) - (mean (fsts qs) - mean (fsts ps))| ≤ εx)
    (hεy : |(o.avg_y.val - s.avg_y.val) - (mean (snds qs) - mean (snds ps))| ≤ εy) :
    |(s.merge o).sum_prod.val - Cxy (ps ++ qs)|
      ≤ (1 + r.u)^2 * (|s.sum_prod.val - Cxy ps| + |o.sum_prod.val - Cxy qs|
            + eta r.u * |(mean (fsts qs) - mean (fsts ps)) * (mean (snds qs) - mean (snds ps))
                * mergeWp ps qs|
            + (1 + eta r.u) * ((εx * |mean (snds qs) - mean (snds ps)|
                + εy * |mean (fsts qs) - mean (fsts ps)| + εx * εy) * mergeWp ps qs))
        + (1 + r.u) * r.u * |Cxy qs + (mean (fsts qs) - mean (fsts ps))
            * (mean (snds qs) - mean (snds ps)) * mergeWp ps qs|
        + r.u * |Cxy (ps ++ qs)| := by
  have hs0 : s.n ≠ 0 := by rw [hsn]; exact fun h => hp (List.length_eq_zero_iff.mp h)
  have ho0 : o.n ≠ 0 := by rw [hon]; exact fun h => hq (List.length_eq_zero_iff.mp h)
  have hnx : (0 : K) < ps.length := by exact_mod_cast List.length_pos_of_ne_nil hp
  have hny : (0 : K) < qs.length := by exact_mod_cast List.length_pos_of_ne_nil hq
  rw [sum_prod_merge_val r s o hs0 ho0, hsn, hon, Cxy_append ps qs hp hq]
  exact merge_step_error r.fl r.u r.u_nonneg hu1 r.err s.avg_x.val o.avg_x.val s.avg_y.val
    o.avg_y.val (mean (fsts ps)) (mean (fsts qs)) (mean (snds ps)) (mean (snds qs))
    s.sum_prod.val o.sum_prod.val (Cxy ps) (Cxy qs) ps.length qs.length εx εy hnx hny hεx hεy

/-- the `x`-mean of `Covariance` through every merge tree keeps any admissible budget `B` -/
theorem cov_mtree_meanx_gen (r : Rnd2 K) (M B : K) (hM : 0 ≤ M) (hu : r.u ≤ 1/9)
    (hB : Bm r.u M ≤ B) (t : MTree (RF2 r × RF2 r)) (hb : ∀ p ∈ t.flatten, |p.1.val| ≤ M)
    (hs1 : (2*r.u + r.u^2) * (1 + r.u) + (t.flatten.length : K) * r.u ≤ 1/2)
    (hs2 : 5 * r.u * (M + B * (t.flatten.length : K)) ≤ B) :
    |(Covariance.evalTree t).avg_x.val - mean (fsts (vals t.flatten))|
      ≤ B * (t.flatten.length : K) := by
  have h := (mean_mtree_error_gen r M B hM hu hB (t.map Prod.fst)
    (by rw [MTree.flatten_map]; intro x hx; rw [List.mem_map] at hx
        obtain ⟨p, hp, rfl⟩ := hx; exact hb p hp)
    (by rw [MTree.flatten_map, List.length_map]; exact hs1)
    (by rw [MTree.flatten_map, List.length_map]; exact hs2)).2
  rw [← Covariance.mtree_meanXState, MTree.flatten_map, List.length_map] at h
  rw [fsts_vals]
  exact h

/-- the `y`-mean likewise -/
theorem cov_mtree_meany_gen (r : Rnd2 K) (M B : K) (hM : 0 ≤ M) (hu : r.u ≤ 1/9)
    (hB : Bm r.u M ≤ B) (t : MTree (RF2 r × RF2 r)) (hb : ∀ p ∈ t.flatten, |p.2.val| ≤ M)
    (hs1 : (2*r.u + r.u^2) * (1 + r.u) + (t.flatten.length : K) * r.u ≤ 1/2)
    (hs2 : 5 * r.u * (M + B * (t.flatten.length : K)) ≤ B) :
    |(Covariance.evalTree t).avg_y.val - mean (snds (vals t.flatten))|
      ≤ B * (t.flatten.length : K) := by
  have h := (mean_mtree_error_gen r M B hM hu hB (t.map Prod.snd)
    (by rw [MTree.flatten_map]; intro x hx; rw [List.mem_map] at hx
        obtain ⟨p, hp, rfl⟩ := hx; exact hb p hp)
    (by rw [MTree.flatten_map, List.length_map]; exact hs1)
    (by rw [MTree.flatten_map, List.length_map]; exact hs2)).2
  rw [← Covariance.mtree_meanYState, MTree.flatten_map, List.length_map] at h
  rw [snds_vals]
  exact h

/-- the error of the difference of two computed means from the errors of the two means -/
theorem diff_err (a b μa μb ea eb : K) (ha : |a - μa| ≤ ea) (hb : |b - μb| ≤ eb) :
    |(b - a) - (μb - μa)| ≤ ea + eb := by
  have : (b - a) - (μb - μa) = (b - μb) - (a - μa) := by ring
  rw [this]
  exact le_trans (abs_sub _ _) (by linarith)

/-- **Every merge tree: the square-root-free invariant.** `Bx`, `By` per-observation budgets of the two
means that every merge tree keeps (`mean_mtree_error_gen`), `Λ₁, κ₁, Λ₂, κ₂ ≥ 0` free with `Bx² ≤ Λ₁·κ₁`,
`By² ≤ Λ₂·κ₂`, `u ≤ 1/64`, `ε ≥ 0` a bound on `|avg_y after the first pair - y_0|` for the first pair of
every chunk:
`|sum_prod - C| ≤ (1+u)^(2n)·GC(n, GT t, T_x, T_y, L)`,
`GC = (19/4)·u·n·G + (2/5)·Λ₁·n·T_y + (2/5)·κ₁·n² + (3/4)·Λ₂·n·T_x + (3/4)·κ₂·n² + (2/5)·Bx·By·n³ + (6/5)·ε·Mx·L`.
Any shape, any chunk sizes, empty chunks included. -/
theorem cov_mtree_inv (r : Rnd2 K) (Mx My Bx By Λ₁ κ₁ Λ₂ κ₂ ε : K) (hMx : 0 ≤ Mx) (hMy : 0 ≤ My)
    (hu64 : r.u ≤ 1/64) (hBx : Bm r.u Mx ≤ Bx) (hBy : Bm r.u My ≤ By)
    (hΛ₁ : 0 ≤ Λ₁) (hκ₁ : 0 ≤ κ₁) (hΛ₂ : 0 ≤ Λ₂) (hκ₂ : 0 ≤ κ₂)
    (h1 : Bx^2 ≤ Λ₁ * κ₁) (h2 : By^2 ≤ Λ₂ * κ₂) (hε : 0 ≤ ε) :
    ∀ t : MTree (RF2 r × RF2 r), (∀ p ∈ t.flatten, |p.1.val| ≤ Mx) →
      (∀ p ∈ t.flatten, |p.2.val| ≤ My) →
      (2*r.u + r.u^2) * (1 + r.u) + (t.flatten.length : K) * r.u ≤ 1/2 →
      5 * r.u * (Mx + Bx * (t.flatten.length : K)) ≤ Bx →
      5 * r.u * (My + By * (t.flatten.length : K)) ≤ By →
      (∀ ps ∈ t.chunks, ∀ p, ps.head? = some p →
        |((Covariance.new : Covariance (RF2 r)).add p.1 p.2).avg_y.val - p.2.val| ≤ ε) →
      |(Covariance.evalTree t).sum_prod.val - Cxy (vals t.flatten)|
        ≤ (1 + r.u)^(2 * t.flatten.length)
            * GC r.u Bx By Λ₁ κ₁ Λ₂ κ₂ (ε * Mx) (t.flatten.length : K) (GT (tvals t))
                (T (fsts (vals t.flatten))) (T (snds (vals t.flatten))) (t.neLeaves : K) := by
  have hu0 := r.u_nonneg
  have hBx0 : 0 ≤ Bx := le_trans (Bm_nonneg hu0 hMx) hBx
  have hBy0 : 0 ≤ By := le_trans (Bm_nonneg hu0 hMy) hBy
  have hE0 : 0 ≤ ε * Mx := by positivity
  have hu9 : r.u ≤ 1/9 := by linarith
  intro t
  induction t with
  | leaf ps =>
    intro hbx hby hs1 _ _ hfirst
    by_cases hnil : ps = []
    · subst hnil
      have h0 : (Covariance.new : Covariance (RF2 r)).sum_prod.val = 0 :=
        (Nat.cast_zero : ((0 : ℕ) : K) = 0)
      have hz : |(Covariance.evalTree (MTree.leaf ([] : List (RF2 r × RF2 r)))).sum_prod.val
          - Cxy (vals (MTree.leaf ([] : List (RF2 r × RF2 r))).flatten)| = 0 := by
        show |(Covariance.new : Covariance (RF2 r)).sum_prod.val - Cxy (vals [])| = 0
        rw [h0]; simp [vals, Cxy_nil]
      rw [hz]
      exact mul_nonneg (by positivity)
        (GC_nonneg _ _ _ _ _ _ _ _ _ _ _ _ _ hu0 hBx0 hBy0 hΛ₁ hκ₁ hΛ₂ hκ₂ hE0 (Nat.cast_nonneg _)
          (GT_nonneg _) (T_nonneg _) (T_nonneg _) (Nat.cast_nonneg _))
    · have hL : ((MTree.leaf ps).neLeaves : K) = 1 := by
        have : 1 ≤ ps.length := List.length_pos_of_ne_nil hnil
        rw [MTree.neLeaves_leaf, Nat.min_eq_right this]; simp
      rw [hL]
      exact leaf_inv r Mx My Bx By Λ₁ κ₁ Λ₂ κ₂ ε hMx hMy hu64 hBx hBy hΛ₁ hκ₁ hΛ₂ hκ₂ h1 h2 hε ps hnil
        hbx hby hs1 (hfirst ps (by simp [MTree.chunks]))
  | node l rt ihl ihr =>
    intro hbx hby hs1 hs2x hs2y hfirst
    rw [MTree.flatten_node] at hbx hby hs1 hs2x hs2y ⊢
    rw [List.length_append, Nat.cast_add] at hs1 hs2x hs2y
    have hl0 : (0:K) ≤ (l.flatten.length : K) := Nat.cast_nonneg _
    have hr0 : (0:K) ≤ (rt.flatten.length : K) := Nat.cast_nonneg _
    have hbxl : ∀ p ∈ l.flatten, |p.1.val| ≤ Mx := fun p hp => hbx p (List.mem_append_left _ hp)
    have hbxr : ∀ p ∈ rt.flatten, |p.1.val| ≤ Mx := fun p hp => hbx p (List.mem_append_right _ hp)
    have hbyl : ∀ p ∈ l.flatten, |p.2.val| ≤ My := fun p hp => hby p (List.mem_append_left _ hp)
    have hbyr : ∀ p ∈ rt.flatten, |p.2.val| ≤ My := fun p hp => hby p (List.mem_append_right _ hp)
    have hs1l : (2*r.u + r.u^2) * (1 + r.u) + (l.flatten.length : K) * r.u ≤ 1/2 := by
      linarith [mul_nonneg hr0 hu0]
    have hs1r : (2*r.u + r.u^2) * (1 + r.u) + (rt.flatten.length : K) * r.u ≤ 1/2 := by
      linarith [mul_nonneg hl0 hu0]
    have hs2xl : 5 * r.u * (Mx + Bx * (l.flatten.length : K)) ≤ Bx := by
      linarith [mul_nonneg hu0 (mul_nonneg hBx0 hr0)]
    have hs2xr : 5 * r.u * (Mx + Bx * (rt.flatten.length : K)) ≤ Bx := by
      linarith [mul_nonneg hu0 (mul_nonneg hBx0 hl0)]
    have hs2yl : 5 * r.u * (My + By * (l.flatten.length : K)) ≤ By := by
      linarith [mul_nonneg hu0 (mul_nonneg hBy0 hr0)]
    have hs2yr : 5 * r.u * (My + By * (rt.flatten.length : K)) ≤ By := by
      linarith [mul_nonneg hu0 (mul_nonneg hBy0 hl0)]
    have hfl : ∀ ps ∈ l.chunks, ∀ p, ps.head? = some p →
        |((Covariance.new : Covariance (RF2 r)).add p.1 p.2).avg_y.val - p.2.val| ≤ ε :=
      fun ps hps => hfirst ps (by rw [MTree.chunks_node]; exact List.mem_append_left _ hps)
    have hfr : ∀ ps ∈ rt.chunks, ∀ p, ps.head? = some p →
        |((Covariance.new : Covariance (RF2 r)).add p.1 p.2).avg_y.val - p.2.val| ≤ ε :=
      fun ps hps => hfirst ps (by rw [MTree.chunks_node]; exact List.mem_append_right _ hps)
    have hEl := ihl hbxl hbyl hs1l hs2xl hs2yl hfl
    have hEr := ihr hbxr hbyr hs1r hs2xr hs2yr hfr
    have hln := Covariance.mtree_n l
    have hrn := Covariance.mtree_n rt
    have hGl0 := GT_nonneg (tvals l)
    have hGr0 := GT_nonneg (tvals rt)
    have hGnode : GT (tvals (MTree.node l rt))
        = GT (tvals l) + GT (tvals rt) + absCross (vals l.flatten) (vals rt.flatten) := by
      rw [tvals_node, GT_node, tvals_flatten, tvals_flatten]
    have hLnode : ((MTree.node l rt).neLeaves : K) = (l.neLeaves : K) + (rt.neLeaves : K) := by
      rw [MTree.neLeaves_node, Nat.cast_add]
    have hac0 := absCross_nonneg (vals l.flatten) (vals rt.flatten)
    show |(Covariance.merge (Covariance.evalTree l) (Covariance.evalTree rt)).sum_prod.val - _| ≤ _
    by_cases hy : rt.flatten = []
    · have h0 : (Covariance.evalTree rt).n = 0 := by rw [hrn, hy]; rfl
      rw [Covariance.merge_empty' _ _ h0, hy, List.append_nil]
      refine le_trans hEl (mul_le_mul_of_nonneg_left ?_ (by positivity))
      apply GC_mono _ _ _ _ _ _ _ _ _ _ _ _ _ _ _ hu0 hE0 hl0
      · rw [hGnode]; linarith
      · rw [hLnode]; linarith [(Nat.cast_nonneg rt.neLeaves : (0:K) ≤ _)]
    by_cases hx : l.flatten = []
    · have h0 : (Covariance.evalTree l).n = 0 := by rw [hln, hx]; rfl
      have h1' : (Covariance.evalTree rt).n ≠ 0 := by
        rw [hrn]; exact fun h => hy (List.length_eq_zero_iff.mp h)
      rw [Covariance.empty_merge' _ _ h0 h1', hx, List.nil_append]
      refine le_trans hEr (mul_le_mul_of_nonneg_left ?_ (by positivity))
      apply GC_mono _ _ _ _ _ _ _ _ _ _ _ _ _ _ _ hu0 hE0 hr0
      · rw [hGnode]; linarith
      · rw [hLnode]; linarith [(Nat.cast_nonneg l.neLeaves : (0:K) ≤ _)]
    -- both operands non-empty
    have hxl := cov_mtree_meanx_gen r Mx Bx hMx hu9 hBx l hbxl hs1l hs2xl
    have hxr := cov_mtree_meanx_gen r Mx Bx hMx hu9 hBx rt hbxr hs1r hs2xr
    have hyl := cov_mtree_meany_gen r My By hMy hu9 hBy l hbyl hs1l hs2yl
    have hyr := cov_mtree_meany_gen r My By hMy hu9 hBy rt hbyr hs1r hs2yr
    set sl := Covariance.evalTree l with hsl
    set sr := Covariance.evalTree rt with hsr
    set ps := vals l.flatten with hps
    set qs := vals rt.flatten with hqs
    have hpl : ps.length = l.flatten.length := vals_length _
    have hql : qs.length = rt.flatten.length := vals_length _
    have hpne : ps ≠ [] := by rw [hps]; simpa [vals] using hx
    have hqne : qs ≠ [] := by rw [hqs]; simpa [vals] using hy
    have hlnat : 1 ≤ l.flatten.length := List.length_pos_of_ne_nil hx
    have hrnat : 1 ≤ rt.flatten.length := List.length_pos_of_ne_nil hy
    have hεx : |(sr.avg_x.val - sl.avg_x.val) - (mean (fsts qs) - mean (fsts ps))|
        ≤ Bx * ((l.flatten.length : K) + (rt.flatten.length : K)) := by
      rw [mul_add]; exact diff_err _ _ _ _ _ _ hxl hxr
    have hεy : |(sr.avg_y.val - sl.avg_y.val) - (mean (snds qs) - mean (snds ps))|
        ≤ By * ((l.flatten.length : K) + (rt.flatten.length : K)) := by
      rw [mul_add]; exact diff_err _ _ _ _ _ _ hyl hyr
    have step := sum_prod_merge_error r (by linarith) sl sr ps qs hpne hqne
      (by rw [hln, hpl]) (by rw [hrn, hql]) _ _ hεx hεy
    have hq0 := mergeWp_nonneg ps qs
    have hq := mergeWp_mul ps qs hpne
    rw [hpl, hql] at hq
    set dx := mean (fsts qs) - mean (fsts ps) with hdx
    set dy := mean (snds qs) - mean (snds ps) with hdy
    have hK : |dx * dy * mergeWp ps qs| = |dx| * |dy| * mergeWp ps qs := by
      rw [abs_mul, abs_mul, abs_of_nonneg hq0]
    rw [hK] at step
    rw [vals_append, List.length_append, Nat.cast_add, hGnode, hLnode, Tx_append_all,
      Ty_append_all]
    refine le_trans step ?_
    have hCl := abs_Cxy_le_GT (tvals l)
    have hCr := abs_Cxy_le_GT (tvals rt)
    rw [tvals_flatten] at hCl hCr
    have hA1 : |Cxy qs + dx * dy * mergeWp ps qs| ≤ GT (tvals rt) + |dx| * |dy| * mergeWp ps qs := by
      refine le_trans (abs_add_le _ _) ?_
      rw [hK]; linarith
    have hA2 : |Cxy (ps ++ qs)| ≤ GT (tvals l) + GT (tvals rt) + |dx| * |dy| * mergeWp ps qs := by
      rw [Cxy_append_all]
      refine le_trans (abs_add_le _ _) ?_
      rw [hK]
      have := abs_add_le (Cxy ps) (Cxy qs)
      linarith
    exact node_arith r.u Bx By Λ₁ κ₁ Λ₂ κ₂ (ε * Mx) (eta r.u) (GT (tvals l)) (GT (tvals rt))
      (T (fsts ps)) (T (fsts qs)) (T (snds ps)) (T (snds qs)) (l.neLeaves : K) (rt.neLeaves : K)
      dx dy (mergeWp ps qs) |sl.sum_prod.val - Cxy ps| |sr.sum_prod.val - Cxy qs|
      |Cxy qs + dx * dy * mergeWp ps qs| |Cxy (ps ++ qs)|
      l.flatten.length rt.flatten.length hlnat hrnat hu0 hBx0 hBy0 hΛ₁ hκ₁ hΛ₂ hκ₂ hE0 h1 h2
      (eta_nonneg hu0 (by linarith)) (eta_le r.u hu0 hu64) (eta_sq_le r.u hu0 hu64)
      hGl0 hGr0 (T_nonneg _) (T_nonneg _) (T_nonneg _) (T_nonneg _)
      (Nat.cast_nonneg _) (Nat.cast_nonneg _) hq0 hq (abs_nonneg _) hA1 hA2 hEl hEr

end CovMerge

#print axioms CovMerge.sum_prod_merge_error
#print axioms CovMerge.cov_mtree_inv
