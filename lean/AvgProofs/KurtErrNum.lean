import AvgProofs.KurtErrSum
import AvgProofs.KurtErrH
import AvgProofs.KurtErrNumArith

/-!
# Forward error of the fourth-order sum of `Kurtosis.add`, all stream lengths: numerals

The general induction `kurt_fold_error_gen` with
* `E = Esharp β`, `β = (65/128)·u·M` (`mean_fold_error_sharp`),
* `F i = (109/20)·i·u·T_i + (79/20)·i·u·M·R₀ + (15/4)·i³·u²·M²` (`var_fold_error_sharp_num` for the prefix
  of length `i`),
* `H i = 7(i+10)·u·V3p_i + 11(i+10)·u·M·T_i + 13·u·M·R₀·W_i + 30(i+10)²u²M²R₀ + 16(i+10)⁴u³M³`
  (`skew_fold_error_num_W` for the prefix of length `i`; `0` for `i = 0`),
the sums bounded by `errSum4_le`, and the numerals worked out.

`kurt_fold_error_num`: `|x_i| ≤ M`, `(n+28)·u ≤ 1/64`, `n·T ≤ R₀²`, `N = n + 10`:

`|sum_4 - Q| ≤ 8·N·u·(V4p + VD4) + (9/4)·N·u·M·VR + 29·N·u·M·V3p + 230·u·M·R₀·T
     + 1650·N·u²·M²·R₀² + 138·N²·u²·M²·T + 2550·N³·u³·M³·R₀ + 970·N⁵·u⁴·M⁴`.
-/
open Avg MSpec Finset VarSpec SkewSpec KurtSpec VarErr SkewErr

namespace KurtErr
variable {K : Type} [Field K] [LinearOrder K] [IsStrictOrderedRing K]

/-- the bound `Hsharp` of the error of `sum_3` in the form required by `errSum4_le`:
`(i+10)² ≤ 11·i·N` and `(i+10)⁴ ≤ 11·i·N³` for `1 ≤ i`, `i + 10 ≤ N` -/
theorem Hsharp_le (u M R₀ : K) (hu : 0 ≤ u) (hM : 0 ≤ M) (hR : 0 ≤ R₀) (vs : List K) (i : ℕ)
    (Nn : K) (hN : (i : K) + 10 ≤ Nn) :
    Hsharp u M R₀ vs i ≤ if i = 0 then 0 else
      (7 * u) * Nn * V3p (vs.take i) + (11 * u * M) * Nn * T (vs.take i)
        + (13 * u * M * R₀) * W (vs.take i)
        + (330 * Nn * u^2 * M^2 * R₀ + 176 * Nn^3 * u^3 * M^3) * i := by
  unfold Hsharp
  split_ifs with h0
  · exact le_refl _
  · have hi1 : (1 : K) ≤ i := by exact_mod_cast Nat.one_le_iff_ne_zero.mpr h0
    have hV := V3p_nonneg (vs.take i)
    have hT := T_nonneg (vs.take i)
    have hi10 : (0 : K) ≤ (i : K) + 10 := by linarith
    have hN0 : 0 ≤ Nn := le_trans hi10 hN
    have h11 : (i : K) + 10 ≤ 11 * i := by linarith
    have e1 : 7 * ((i : K) + 10) * u * V3p (vs.take i) ≤ (7 * u) * Nn * V3p (vs.take i) := by
      calc 7 * ((i : K) + 10) * u * V3p (vs.take i) = (7 * u) * ((i : K) + 10) * V3p (vs.take i) := by
            ring
        _ ≤ (7 * u) * Nn * V3p (vs.take i) := by gcongr
    have e2 : 11 * ((i : K) + 10) * u * M * T (vs.take i) ≤ (11 * u * M) * Nn * T (vs.take i) := by
      calc 11 * ((i : K) + 10) * u * M * T (vs.take i)
          = (11 * u * M) * ((i : K) + 10) * T (vs.take i) := by ring
        _ ≤ (11 * u * M) * Nn * T (vs.take i) := by gcongr
    have e3 : 30 * ((i : K) + 10)^2 * u^2 * M^2 * R₀ ≤ (330 * Nn * u^2 * M^2 * R₀) * i := by
      calc 30 * ((i : K) + 10)^2 * u^2 * M^2 * R₀
          = 30 * (((i : K) + 10) * ((i : K) + 10)) * u^2 * M^2 * R₀ := by ring
        _ ≤ 30 * ((11 * (i : K)) * Nn) * u^2 * M^2 * R₀ := by gcongr
        _ = (330 * Nn * u^2 * M^2 * R₀) * i := by ring
    have e4 : 16 * ((i : K) + 10)^4 * u^3 * M^3 ≤ (176 * Nn^3 * u^3 * M^3) * i := by
      calc 16 * ((i : K) + 10)^4 * u^3 * M^3
          = 16 * (((i : K) + 10) * ((i : K) + 10)^3) * u^3 * M^3 := by ring
        _ ≤ 16 * ((11 * (i : K)) * Nn^3) * u^3 * M^3 := by gcongr
        _ = (176 * Nn^3 * u^3 * M^3) * i := by ring
    have e5 : 13 * u * M * R₀ * W (vs.take i) = (13 * u * M * R₀) * W (vs.take i) := by ring
    linarith

/-- **Forward error of `sum_4`, numerals.** `|x_i| ≤ M`, `(n+28)·u ≤ 1/64`, any `R₀ ≥ 0` with
`n·T ≤ R₀²`, `N = n + 10`:
`|sum_4 - Q| ≤ 8·N·u·(V4p + VD4) + (9/4)·N·u·M·VR + 29·N·u·M·V3p + 230·u·M·R₀·T
     + 1650·N·u²·M²·R₀² + 138·N²·u²·M²·T + 2550·N³·u³·M³·R₀ + 970·N⁵·u⁴·M⁴`. -/
theorem kurt_fold_error_num (r : Rnd2 K) (M : K) (hM : 0 ≤ M) (xs : List (RF2 r))
    (hb : ∀ x ∈ xs, |x.val| ≤ M) (hsmall : ((xs.length : K) + 28) * r.u ≤ 1/64)
    (R₀ : K) (hR : 0 ≤ R₀) (hRT : (xs.length : K) * T (xs.map RF2.val) ≤ R₀^2) :
    |(xs.foldl Kurtosis.add Kurtosis.new).sum_4.val - Q (xs.map RF2.val)|
      ≤ 8 * ((xs.length : K) + 10) * r.u * (V4p (xs.map RF2.val) + VD4 (xs.map RF2.val))
        + 9/4 * ((xs.length : K) + 10) * r.u * M * VR (xs.map RF2.val)
        + 29 * ((xs.length : K) + 10) * r.u * M * V3p (xs.map RF2.val)
        + 230 * r.u * M * R₀ * T (xs.map RF2.val)
        + 1650 * ((xs.length : K) + 10) * r.u^2 * M^2 * R₀^2
        + 138 * ((xs.length : K) + 10)^2 * r.u^2 * M^2 * T (xs.map RF2.val)
        + 2550 * ((xs.length : K) + 10)^3 * r.u^3 * M^3 * R₀
        + 970 * ((xs.length : K) + 10)^5 * r.u^4 * M^4 := by
  have hu := r.u_nonneg
  have hn0 : (0 : K) ≤ xs.length := Nat.cast_nonneg _
  have hlen : (xs.map RF2.val).length = xs.length := by simp
  have hβ : 0 ≤ 65/128 * r.u * M := by positivity
  by_cases hnil : xs = []
  · subst hnil
    have h0 : (Kurtosis.new : Kurtosis (RF2 r)).sum_4.val = 0 :=
      (Nat.cast_zero : ((0 : ℕ) : K) = 0)
    simp only [List.foldl_nil, h0, List.map_nil, Q_nil, sub_self, abs_zero, List.length_nil,
      Nat.cast_zero, zero_add]
    have := V4p_nonneg ([] : List K)
    have := VD4_nonneg ([] : List K)
    have := VR_nonneg ([] : List K)
    have := V3p_nonneg ([] : List K)
    have := T_nonneg ([] : List K)
    positivity
  have hn1 : (1 : K) ≤ xs.length := by
    exact_mod_cast List.length_pos_of_ne_nil hnil
  have hu1856 : r.u ≤ 1/1856 := by nlinarith
  have hnu : (xs.length : K) * r.u ≤ 1/64 := by nlinarith
  have hgen := kurt_fold_error_gen r (Esharp (65/128 * r.u * M))
    (Fsharp r.u M R₀ (xs.map RF2.val)) (Hsharp r.u M R₀ (xs.map RF2.val))
    (Esharp_nonneg hβ) (Fsharp_nonneg hu hM hR _) (Hsharp_nonneg hu hM hR _) xs
    (mean_prefix_sharp r M hM xs hb hsmall) (var_prefix_sharp r M hM xs hb hsmall R₀ hR hRT)
    (skew_prefix_W r M hM xs hb hsmall R₀ hR hRT)
  refine le_trans hgen ?_
  have hsum := errSum4_le r.u hu (Esharp (65/128 * r.u * M)) (Fsharp r.u M R₀ (xs.map RF2.val))
    (Hsharp r.u M R₀ (xs.map RF2.val)) (xs.map RF2.val)
    ((xs.length : K) + 10) R₀ (65/128 * r.u * M * ((xs.length : K) + 37/4))
    (41/8 * (65/128 * r.u * M)) (109/20 * r.u) (79/20 * r.u * M * R₀) (15/4 * r.u^2 * M^2)
    (7 * r.u) (11 * r.u * M) (13 * r.u * M * R₀)
    (330 * ((xs.length : K) + 10) * r.u^2 * M^2 * R₀ + 176 * ((xs.length : K) + 10)^3 * r.u^3 * M^3)
    (Esharp_nonneg hβ) (by positivity)
    (fun i hi => Esharp_le_max hβ xs.length i (by rwa [hlen] at hi))
    (fun i _ => Esharp_le_lin hβ i) (Fsharp_nonneg hu hM hR _) (fun i _ => le_refl _)
    (Hsharp_nonneg hu hM hR _)
    (fun i hi => Hsharp_le r.u M R₀ hu hM hR _ i _ (by
      rw [hlen] at hi
      have : (i : K) ≤ xs.length := by exact_mod_cast hi.le
      linarith))
    (by positivity) (by positivity) (by positivity) (by positivity) (by positivity) (by positivity)
    (by positivity) (by positivity) (by positivity) hR (by rw [hlen]; exact hRT)
  rw [hlen] at hsum
  have hP0 : 0 ≤ (1 + r.u)^xs.length := by positivity
  have hP : (1 + r.u)^xs.length ≤ 33/32 := by
    have := one_add_pow_le r.u hu xs.length (by linarith)
    linarith
  have hV4 : V4p (xs.map RF2.val)
      = VA4 (xs.map RF2.val) + VB4 (xs.map RF2.val) + VC4 (xs.map RF2.val) := rfl
  have hVB3 : VB (xs.map RF2.val) ≤ V3p (xs.map RF2.val) := by
    unfold V3p; linarith [VA_nonneg (xs.map RF2.val)]
  have hfin := num_arith4 ((1 + r.u)^xs.length) (g r.u 54) (g r.u 9) (g r.u 5) r.u M (xs.length : K)
    (T (xs.map RF2.val)) R₀ (VA4 (xs.map RF2.val)) (VB4 (xs.map RF2.val)) (VC4 (xs.map RF2.val))
    (VD4 (xs.map RF2.val)) (VR (xs.map RF2.val)) (VB (xs.map RF2.val)) (V3p (xs.map RF2.val))
    _ _ _ _ _ _ _ _ _ _ rfl rfl rfl rfl rfl rfl rfl rfl rfl rfl
    hu hM hn0 (T_nonneg _) hR (VA4_nonneg _) (VB4_nonneg _) (VC4_nonneg _) (VD4_nonneg _)
    (VR_nonneg _) (VB_nonneg _) hVB3 (g_nonneg hu 54) (g_nonneg hu 9) (g_nonneg hu 5) hP0 hP
    (g54_le r.u hu hu1856) (g9_le r.u hu hu1856) (g5_le r.u hu hu1856) hu1856 hnu
  have hinner := add_le_add hsum (le_refl ((xs.length : K) * r.u * V4p (xs.map RF2.val)))
  refine le_trans (mul_le_mul_of_nonneg_left hinner hP0) ?_
  rw [hV4]
  refine le_trans hfin (le_of_eq ?_)
  ring

end KurtErr

#print axioms KurtErr.kurt_fold_error_num
