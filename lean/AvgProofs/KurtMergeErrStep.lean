import AvgProofs.KurtMergeErrRel
import AvgProofs.KurtErrStep
import Mathlib.Tactic.LinearCombination

/-!
# One `Kurtosis.merge` of two non-empty states under the standard model of rounding: the fourth-order sum

`S4' = fl(S4x + fl(fl(fl(S4y + A') + B') + C'))` with the rounded cross terms `A'`, `B'`, `C'` of
`AvgProofs/KurtMergeErrRel.lean`, computed from the *computed* means `a`, `b`, the *computed* sums of squares
`Sx`, `Sy` and the *computed* third-order sums `S3x`, `S3y`; compared with the exact
`Q' = Qx + Qy + P + Qc + R`, `P = δ⁴·w`, `w = n_x·n_y·(n_x² - n_x·n_y + n_y²)/n³`,
`Qc = 6·(δ/n)²·K`, `K = n_x²·T_y + n_y²·T_x`, `R = 4·(δ/n)·(n_x·U_y - n_y·U_x)`, `δ = μ_y - μ_x`, `n = n_x + n_y`.

With `ε ≥ |(b - a) - δ|`, `Hu = n_x·|U_y| + n_y·|U_x|`, `Z2 = n_x²·|Sy - T_y| + n_y²·|Sx - T_x|`,
`Z3 = n_x·|S3y - U_y| + n_y·|S3x - U_x|`, `γ_i = (1+u)^i - 1` (`KurtMerge.merge4_step_error`):

`|S4' - Q'| ≤ (1+u)⁴·( |S4x - Qx| + |S4y - Qy| + γ28·P + γ14·Qc + γ8·4(|δ|/n)·Hu
        + (1+γ28)·w·(4|δ|³ε + 6δ²ε² + 4|δ|ε³ + ε⁴)
        + (1+γ14)·(6/n²)·((2|δ|ε + ε²)·K + (|δ|+ε)²·Z2)
        + (1+γ8)·(4/n)·(ε·Hu + (|δ|+ε)·Z3) )
     + u(1+u)³·|Qy + P| + u(1+u)²·|Qy + P + Qc| + u(1+u)·|Qy + P + Qc + R| + u·|Q'|`.
-/
variable {K : Type} [Field K] [LinearOrder K] [IsStrictOrderedRing K]

namespace KurtMerge
open SkewErr SkewMerge KurtErr

/-- the first cross term depends on the difference of the means through `4δ³e + 6δ²e² + 4δe³ + e⁴` -/
theorem crossA4_shift (D δ w : K) (hw : 0 ≤ w) :
    |D^4 * w - δ^4 * w|
      ≤ w * (4 * |δ|^3 * |D - δ| + 6 * δ^2 * (D - δ)^2 + 4 * |δ| * |D - δ|^3 + (D - δ)^4) := by
  have h := incrA4_shift δ (δ - D) 0 w hw
  rw [sub_zero, sub_zero, sub_sub_cancel, abs_sub_comm δ D] at h
  have e2 : (δ - D)^2 = (D - δ)^2 := by ring
  have e4 : (δ - D)^4 = (D - δ)^4 := by ring
  rw [e2, e4] at h
  exact h

/-- the second cross term depends on the error `e` of the difference of the means and on the errors of the two
sums of squares through `(2δe + e²)·K + (δ+e)²·(n_x²·D2y + n_y²·D2x)` -/
theorem crossB4_shift (D δ n nx ny Sx Sy Tx Ty : K) (hn : 0 < n) (hnx : 0 ≤ nx) (hny : 0 ≤ ny)
    (hTx : 0 ≤ Tx) (hTy : 0 ≤ Ty) :
    |6 * (D / n)^2 * (nx * nx * Sy + ny * ny * Sx) - 6 * (δ / n)^2 * (nx * nx * Ty + ny * ny * Tx)|
      ≤ 6 / n^2 * ((2 * |δ| * |D - δ| + (D - δ)^2) * (nx * nx * Ty + ny * ny * Tx)
          + (|δ| + |D - δ|)^2 * (nx * nx * |Sy - Ty| + ny * ny * |Sx - Tx|)) := by
  have h : 6 * (D / n)^2 * (nx * nx * Sy + ny * ny * Sx) - 6 * (δ / n)^2 * (nx * nx * Ty + ny * ny * Tx)
      = 6 / n^2 * ((2 * δ * (D - δ) + (D - δ)^2) * (nx * nx * Ty + ny * ny * Tx)
          + D^2 * (nx * nx * (Sy - Ty) + ny * ny * (Sx - Tx))) := by
    field_simp
    ring
  have h6 : (0 : K) ≤ 6 / n^2 := by positivity
  rw [h, abs_mul, abs_of_nonneg h6]
  gcongr
  have hxx : 0 ≤ nx * nx := by positivity
  have hyy : 0 ≤ ny * ny := by positivity
  have hK0 : 0 ≤ nx * nx * Ty + ny * ny * Tx := by positivity
  have hD : |D| ≤ |δ| + |D - δ| := by
    have : D = δ + (D - δ) := by ring
    calc |D| = |δ + (D - δ)| := by rw [← this]
      _ ≤ |δ| + |D - δ| := abs_add_le _ _
  have hD2 : D^2 ≤ (|δ| + |D - δ|)^2 := by
    rw [← sq_abs D]; gcongr
  have h1 : |2 * δ * (D - δ) + (D - δ)^2| ≤ 2 * |δ| * |D - δ| + (D - δ)^2 := by
    refine le_trans (abs_add_le _ _) (le_of_eq ?_)
    rw [abs_mul, abs_mul, abs_of_pos (by norm_num : (0:K) < 2), abs_of_nonneg (sq_nonneg (D - δ))]
  have h2 : |nx * nx * (Sy - Ty) + ny * ny * (Sx - Tx)| ≤ nx * nx * |Sy - Ty| + ny * ny * |Sx - Tx| := by
    refine le_trans (abs_add_le _ _) (le_of_eq ?_)
    rw [abs_mul (nx * nx) (Sy - Ty), abs_mul (ny * ny) (Sx - Tx), abs_of_nonneg hxx, abs_of_nonneg hyy]
  calc |(2 * δ * (D - δ) + (D - δ)^2) * (nx * nx * Ty + ny * ny * Tx)
          + D^2 * (nx * nx * (Sy - Ty) + ny * ny * (Sx - Tx))|
      ≤ |2 * δ * (D - δ) + (D - δ)^2| * (nx * nx * Ty + ny * ny * Tx)
          + D^2 * |nx * nx * (Sy - Ty) + ny * ny * (Sx - Tx)| := by
        refine le_trans (abs_add_le _ _) ?_
        rw [abs_mul, abs_mul, abs_of_nonneg hK0, abs_of_nonneg (sq_nonneg D)]
    _ ≤ (2 * |δ| * |D - δ| + (D - δ)^2) * (nx * nx * Ty + ny * ny * Tx)
          + (|δ| + |D - δ|)^2 * (nx * nx * |Sy - Ty| + ny * ny * |Sx - Tx|) := by gcongr

/-- the third cross term depends on the errors of the means and of the two third-order sums through
`e·(n_x·U_y - n_y·U_x) + (δ + e)·(n_x·D3y - n_y·D3x)` -/
theorem crossC4_shift (D δ n nx ny Sx Sy Ux Uy : K) (hn : 0 < n) (hnx : 0 ≤ nx) (hny : 0 ≤ ny) :
    |4 * (D / n) * (nx * Sy - ny * Sx) - 4 * (δ / n) * (nx * Uy - ny * Ux)|
      ≤ 4 / n * (|D - δ| * (nx * |Uy| + ny * |Ux|)
          + (|δ| + |D - δ|) * (nx * |Sy - Uy| + ny * |Sx - Ux|)) := by
  have h : 4 * (D / n) * (nx * Sy - ny * Sx) - 4 * (δ / n) * (nx * Uy - ny * Ux)
      = 4 / n * ((D - δ) * (nx * Uy - ny * Ux) + D * (nx * (Sy - Uy) - ny * (Sx - Ux))) := by ring
  have h4 : (0 : K) ≤ 4 / n := by positivity
  rw [h, abs_mul, abs_of_nonneg h4]
  gcongr
  have hD : |D| ≤ |δ| + |D - δ| := by
    have : D = δ + (D - δ) := by ring
    calc |D| = |δ + (D - δ)| := by rw [← this]
      _ ≤ |δ| + |D - δ| := abs_add_le _ _
  have h1 : |nx * Uy - ny * Ux| ≤ nx * |Uy| + ny * |Ux| := by
    refine le_trans (abs_sub _ _) (le_of_eq ?_)
    rw [abs_mul, abs_mul, abs_of_nonneg hnx, abs_of_nonneg hny]
  have h2 : |nx * (Sy - Uy) - ny * (Sx - Ux)| ≤ nx * |Sy - Uy| + ny * |Sx - Ux| := by
    refine le_trans (abs_sub _ _) (le_of_eq ?_)
    rw [abs_mul, abs_mul, abs_of_nonneg hnx, abs_of_nonneg hny]
  calc |(D - δ) * (nx * Uy - ny * Ux) + D * (nx * (Sy - Uy) - ny * (Sx - Ux))|
      ≤ |D - δ| * |nx * Uy - ny * Ux| + |D| * |nx * (Sy - Uy) - ny * (Sx - Ux)| := by
        refine le_trans (abs_add_le _ _) ?_
        rw [abs_mul, abs_mul]
    _ ≤ |D - δ| * (nx * |Uy| + ny * |Ux|)
          + (|δ| + |D - δ|) * (nx * |Sy - Uy| + ny * |Sx - Ux|) := by gcongr

theorem abs_le_add_err (S Tv : K) (hT : 0 ≤ Tv) : |S| ≤ Tv + |S - Tv| := by
  have : S = Tv + (S - Tv) := by ring
  calc |S| = |Tv + (S - Tv)| := by rw [← this]
    _ ≤ |Tv| + |S - Tv| := abs_add_le _ _
    _ = Tv + |S - Tv| := by rw [abs_of_nonneg hT]

theorem abs_le_abs_add_err (S Uv : K) : |S| ≤ |Uv| + |S - Uv| := by
  have : S = Uv + (S - Uv) := by ring
  calc |S| = |Uv + (S - Uv)| := by rw [← this]
    _ ≤ |Uv| + |S - Uv| := abs_add_le _ _

/-- the first rounded cross term against the exact one -/
theorem crossA4_total (fl : K → K) (u : K) (hu : 0 ≤ u) (hu2 : u ≤ 1/2)
    (hfl : ∀ t, |fl t - t| ≤ u * |t|) (a b δ nx ny ε : K) (hnx : 0 < nx) (hny : 0 < ny)
    (hε : |(b - a) - δ| ≤ ε) :
    let Dn := fl (fl (b - a) / fl (nx + ny))
    let A' := fl (fl (fl (fl (fl (fl (b - a) * Dn) * fl (Dn * Dn)) * nx) * ny)
      * fl (fl (fl (nx * nx) - fl (nx * ny)) + fl (ny * ny)))
    let w := nx * ny * (nx * nx - nx * ny + ny * ny) / (nx + ny)^3
    |A' - δ^4 * w| ≤ g u 28 * (δ^4 * w)
        + (1 + g u 28) * (w * (4 * |δ|^3 * ε + 6 * δ^2 * ε^2 + 4 * |δ| * ε^3 + ε^4)) := by
  intro Dn A' w
  have hpoly : 0 ≤ nx * nx - nx * ny + ny * ny := by nlinarith [sq_nonneg (nx - ny)]
  have hw0 : 0 ≤ w := by positivity
  have hε0 : 0 ≤ ε := le_trans (abs_nonneg _) hε
  have hg := g_nonneg hu 28
  have hA : RE u 28 A' ((b - a)^4 * w) := crossA4_RE fl u hu hu2 hfl a b nx ny hnx hny
  have hAs : |(b - a)^4 * w - δ^4 * w|
      ≤ w * (4 * |δ|^3 * ε + 6 * δ^2 * ε^2 + 4 * |δ| * ε^3 + ε^4) := by
    refine le_trans (crossA4_shift (b - a) δ w hw0) ?_
    have h2 : (b - a - δ)^2 ≤ ε^2 := by rw [← sq_abs]; gcongr
    have h3 : |b - a - δ|^3 ≤ ε^3 := by gcongr
    have h4 : (b - a - δ)^4 ≤ ε^4 := by
      have : (b - a - δ)^4 = |b - a - δ|^4 := by
        rw [← abs_pow, abs_of_nonneg (by positivity : 0 ≤ (b - a - δ)^4)]
      rw [this]; gcongr
    gcongr
  set ΔA := w * (4 * |δ|^3 * ε + 6 * δ^2 * ε^2 + 4 * |δ| * ε^3 + ε^4) with hΔA
  have hP0 : 0 ≤ δ^4 * w := by positivity
  have hA0le : |(b - a)^4 * w| ≤ δ^4 * w + ΔA := by
    have := abs_le_of_shift hAs
    rwa [abs_of_nonneg hP0] at this
  have : A' - δ^4 * w = (A' - (b - a)^4 * w) + ((b - a)^4 * w - δ^4 * w) := by ring
  rw [this]
  calc |(A' - (b - a)^4 * w) + ((b - a)^4 * w - δ^4 * w)|
      ≤ |A' - (b - a)^4 * w| + |(b - a)^4 * w - δ^4 * w| := abs_add_le _ _
    _ ≤ g u 28 * |(b - a)^4 * w| + ΔA := by
        have : |A' - (b - a)^4 * w| ≤ g u 28 * |(b - a)^4 * w| := hA
        linarith
    _ ≤ g u 28 * (δ^4 * w + ΔA) + ΔA := by gcongr
    _ = g u 28 * (δ^4 * w) + (1 + g u 28) * ΔA := by ring

/-- the second rounded cross term against the exact one -/
theorem crossB4_total (fl : K → K) (u : K) (hu : 0 ≤ u) (hu2 : u ≤ 1/2)
    (hfl : ∀ t, |fl t - t| ≤ u * |t|) (a b δ Sx Sy Tx Ty nx ny ε : K) (hnx : 0 < nx) (hny : 0 < ny)
    (hTx : 0 ≤ Tx) (hTy : 0 ≤ Ty) (hε : |(b - a) - δ| ≤ ε) :
    let Dn := fl (fl (b - a) / fl (nx + ny))
    let B' := fl (fl (6 * fl (Dn * Dn)) * fl (fl (fl (nx * nx) * Sy) + fl (fl (ny * ny) * Sx)))
    let Kx := nx * nx * Ty + ny * ny * Tx
    let Z2 := nx * nx * |Sy - Ty| + ny * ny * |Sx - Tx|
    |B' - 6 * (δ / (nx + ny))^2 * Kx| ≤ g u 14 * (6 * (δ / (nx + ny))^2 * Kx)
        + (1 + g u 14) * (6 / (nx + ny)^2 * ((2 * |δ| * ε + ε^2) * Kx + (|δ| + ε)^2 * Z2)) := by
  intro Dn B' Kx Z2
  have hn : 0 < nx + ny := by positivity
  have hε0 : 0 ≤ ε := le_trans (abs_nonneg _) hε
  have hg := g_nonneg hu 14
  have hxx : 0 ≤ nx * nx := by positivity
  have hyy : 0 ≤ ny * ny := by positivity
  have hK0 : 0 ≤ Kx := by positivity
  have hZ0 : 0 ≤ Z2 := by positivity
  have hd0 : 0 ≤ |δ| := abs_nonneg δ
  have hB := crossB4_error fl u hu hu2 hfl a b nx ny Sx Sy hnx hny
  have hBs := crossB4_shift (b - a) δ (nx + ny) nx ny Sx Sy Tx Ty hn hnx.le hny.le hTx hTy
  set B0 := 6 * ((b - a) / (nx + ny))^2 * (nx * nx * Sy + ny * ny * Sx) with hB0
  have hba : |b - a| ≤ |δ| + ε := by
    have := abs_le_abs_add_err (b - a) δ
    linarith
  have hba2 : (b - a)^2 ≤ (|δ| + ε)^2 := by rw [← sq_abs (b - a)]; gcongr
  have hWa : nx * nx * |Sy| + ny * ny * |Sx| ≤ Kx + Z2 := by
    have h1 : nx * nx * |Sy| ≤ nx * nx * (Ty + |Sy - Ty|) := by
      have := abs_le_add_err Sy Ty hTy; gcongr
    have h2 : ny * ny * |Sx| ≤ ny * ny * (Tx + |Sx - Tx|) := by
      have := abs_le_add_err Sx Tx hTx; gcongr
    simp only [Kx, Z2]; linarith
  have hB1 : |B' - B0| ≤ g u 14 * (6 / (nx + ny)^2 * ((|δ| + ε)^2 * (Kx + Z2))) := by
    refine le_trans hB ?_
    have e : 6 * ((b - a) / (nx + ny))^2 * (nx * nx * |Sy| + ny * ny * |Sx|)
        = 6 / (nx + ny)^2 * ((b - a)^2 * (nx * nx * |Sy| + ny * ny * |Sx|)) := by
      rw [div_pow]; ring
    rw [e]
    gcongr
  have hB2 : |B0 - 6 * (δ / (nx + ny))^2 * Kx|
      ≤ 6 / (nx + ny)^2 * ((2 * |δ| * ε + ε^2) * Kx + (|δ| + ε)^2 * Z2) := by
    refine le_trans hBs ?_
    have he' : |b - a - δ| ≤ ε := hε
    have he2 : (b - a - δ)^2 ≤ ε^2 := by rw [← sq_abs]; gcongr
    gcongr
  have : B' - 6 * (δ / (nx + ny))^2 * Kx = (B' - B0) + (B0 - 6 * (δ / (nx + ny))^2 * Kx) := by ring
  rw [this]
  refine le_trans (abs_add_le _ _) ?_
  refine le_trans (add_le_add hB1 hB2) (le_of_eq ?_)
  have hsq : |δ|^2 = δ^2 := sq_abs δ
  rw [div_pow]
  linear_combination (g u 14 * (6 / (nx + ny)^2) * Kx) * hsq

/-- the third rounded cross term against the exact one -/
theorem crossC4_total (fl : K → K) (u : K) (hu : 0 ≤ u) (hu2 : u ≤ 1/2)
    (hfl : ∀ t, |fl t - t| ≤ u * |t|) (a b δ S3x S3y Ux Uy nx ny ε : K) (hnx : 0 < nx) (hny : 0 < ny)
    (hε : |(b - a) - δ| ≤ ε) :
    let Dn := fl (fl (b - a) / fl (nx + ny))
    let C' := fl (fl (4 * Dn) * fl (fl (nx * S3y) - fl (ny * S3x)))
    let Hu := nx * |Uy| + ny * |Ux|
    let Z3 := nx * |S3y - Uy| + ny * |S3x - Ux|
    |C' - 4 * (δ / (nx + ny)) * (nx * Uy - ny * Ux)| ≤ g u 8 * (4 * (|δ| / (nx + ny)) * Hu)
        + (1 + g u 8) * (4 / (nx + ny) * (ε * Hu + (|δ| + ε) * Z3)) := by
  intro Dn C' Hu Z3
  have hn : 0 < nx + ny := by positivity
  have hε0 : 0 ≤ ε := le_trans (abs_nonneg _) hε
  have hg := g_nonneg hu 8
  have hH0 : 0 ≤ Hu := by positivity
  have hZ0 : 0 ≤ Z3 := by positivity
  have hd0 : 0 ≤ |δ| := abs_nonneg δ
  have hC := crossC4_error fl u hu hu2 hfl a b nx ny S3x S3y hnx hny
  have hCs := crossC4_shift (b - a) δ (nx + ny) nx ny S3x S3y Ux Uy hn hnx.le hny.le
  set C0 := 4 * ((b - a) / (nx + ny)) * (nx * S3y - ny * S3x) with hC0
  have hba : |b - a| ≤ |δ| + ε := by
    have := abs_le_abs_add_err (b - a) δ
    linarith
  have hWa : nx * |S3y| + ny * |S3x| ≤ Hu + Z3 := by
    have h1 : nx * |S3y| ≤ nx * (|Uy| + |S3y - Uy|) := by
      have := abs_le_abs_add_err S3y Uy; gcongr
    have h2 : ny * |S3x| ≤ ny * (|Ux| + |S3x - Ux|) := by
      have := abs_le_abs_add_err S3x Ux; gcongr
    simp only [Hu, Z3]; linarith
  have hC1 : |C' - C0| ≤ g u 8 * (4 * ((|δ| + ε) / (nx + ny)) * (Hu + Z3)) := by
    refine le_trans hC ?_
    gcongr
  have hC2 : |C0 - 4 * (δ / (nx + ny)) * (nx * Uy - ny * Ux)|
      ≤ 4 / (nx + ny) * (ε * Hu + (|δ| + ε) * Z3) := by
    refine le_trans hCs ?_
    have he' : |b - a - δ| ≤ ε := hε
    gcongr
  have : C' - 4 * (δ / (nx + ny)) * (nx * Uy - ny * Ux)
      = (C' - C0) + (C0 - 4 * (δ / (nx + ny)) * (nx * Uy - ny * Ux)) := by ring
  rw [this]
  refine le_trans (abs_add_le _ _) ?_
  refine le_trans (add_le_add hC1 hC2) (le_of_eq ?_)
  field_simp
  ring

/-- the four rounded additions `fl(S4x + fl(fl(fl(S4y + A') + B') + C'))` of a merge -/
theorem four_adds (fl : K → K) (u : K) (hu : 0 ≤ u) (hfl : ∀ t, |fl t - t| ≤ u * |t|)
    (S4x S4y A' B' C' Qx Qy P Qc R EA EB EC : K) (hEA' : |A' - P| ≤ EA) (hEB' : |B' - Qc| ≤ EB)
    (hEC' : |C' - R| ≤ EC) (hEB0 : 0 ≤ EB) (hEC0 : 0 ≤ EC) :
    |fl (S4x + fl (fl (fl (S4y + A') + B') + C')) - (Qx + (Qy + P + Qc + R))|
      ≤ (1 + u)^4 * (|S4x - Qx| + |S4y - Qy| + EA + EB + EC)
        + u * (1 + u)^3 * |Qy + P| + u * (1 + u)^2 * |Qy + P + Qc|
        + u * (1 + u) * |Qy + P + Qc + R| + u * |Qx + (Qy + P + Qc + R)| := by
  have r1 := round_add_error fl u hu hfl S4y A' Qy P
  set w1 := fl (S4y + A') with hw1
  have r2 := round_add_error fl u hu hfl w1 B' (Qy + P) Qc
  set w2 := fl (w1 + B') with hw2
  have r3 := round_add_error fl u hu hfl w2 C' (Qy + P + Qc) R
  set w3 := fl (w2 + C') with hw3
  have r4 := round_add_error fl u hu hfl S4x w3 Qx (Qy + P + Qc + R)
  have h1u : 0 ≤ 1 + u := by linarith
  have r1' : |w1 - (Qy + P)| ≤ (1 + u) * (|S4y - Qy| + EA) + u * |Qy + P| := by
    refine le_trans r1 ?_
    have := mul_le_mul_of_nonneg_left (add_le_add_left hEA' |S4y - Qy|) h1u
    linarith
  have r2' : |w2 - (Qy + P + Qc)|
      ≤ (1 + u) * ((1 + u) * (|S4y - Qy| + EA) + u * |Qy + P| + EB) + u * |Qy + P + Qc| := by
    refine le_trans r2 ?_
    have := mul_le_mul_of_nonneg_left (add_le_add r1' hEB') h1u
    linarith
  have r3' : |w3 - (Qy + P + Qc + R)|
      ≤ (1 + u) * ((1 + u) * ((1 + u) * (|S4y - Qy| + EA) + u * |Qy + P| + EB) + u * |Qy + P + Qc| + EC)
        + u * |Qy + P + Qc + R| := by
    refine le_trans r3 ?_
    have := mul_le_mul_of_nonneg_left (add_le_add r2' hEC') h1u
    linarith
  refine le_trans r4 ?_
  have r4' := mul_le_mul_of_nonneg_left (add_le_add_left r3' |S4x - Qx|) h1u
  have hE0 : 0 ≤ |S4x - Qx| := abs_nonneg _
  have h1le : (1 : K) ≤ 1 + u := by linarith
  have hp1 : (1 + u) * |S4x - Qx| ≤ (1 + u)^4 * |S4x - Qx| := by
    have : (1 + u) ≤ (1 + u)^4 := by
      calc (1 + u) = (1 + u)^1 := (pow_one _).symm
        _ ≤ (1 + u)^4 := pow_le_pow_right₀ h1le (by norm_num)
    exact mul_le_mul_of_nonneg_right this hE0
  have hp2 : (1 + u)^3 * EB ≤ (1 + u)^4 * EB :=
    mul_le_mul_of_nonneg_right (pow_le_pow_right₀ h1le (by norm_num)) hEB0
  have hp3 : (1 + u)^2 * EC ≤ (1 + u)^4 * EC :=
    mul_le_mul_of_nonneg_right (pow_le_pow_right₀ h1le (by norm_num)) hEC0
  calc (1 + u) * (|S4x - Qx| + |w3 - (Qy + P + Qc + R)|) + u * |Qx + (Qy + P + Qc + R)|
      ≤ (1 + u) * (|S4x - Qx| + ((1 + u) * ((1 + u) * ((1 + u) * (|S4y - Qy| + EA) + u * |Qy + P| + EB)
            + u * |Qy + P + Qc| + EC) + u * |Qy + P + Qc + R|))
          + u * |Qx + (Qy + P + Qc + R)| := by linarith
    _ = (1 + u) * |S4x - Qx| + (1 + u)^4 * (|S4y - Qy| + EA) + (1 + u)^3 * EB + (1 + u)^2 * EC
          + u * (1 + u)^3 * |Qy + P| + u * (1 + u)^2 * |Qy + P + Qc|
          + u * (1 + u) * |Qy + P + Qc + R| + u * |Qx + (Qy + P + Qc + R)| := by ring
    _ ≤ (1 + u)^4 * |S4x - Qx| + (1 + u)^4 * (|S4y - Qy| + EA) + (1 + u)^4 * EB + (1 + u)^4 * EC
          + u * (1 + u)^3 * |Qy + P| + u * (1 + u)^2 * |Qy + P + Qc|
          + u * (1 + u) * |Qy + P + Qc + R| + u * |Qx + (Qy + P + Qc + R)| := by linarith
    _ = _ := by ring

/-- **One merge step of `sum_4` (state lemma).** `a`, `b` the computed means, `μx`, `μy` the exact ones, `ε` a
bound on the error of their difference; `Sx`, `Sy` the computed sums of squares, `Tx, Ty ≥ 0` the exact ones;
`S3x`, `S3y` the computed third-order sums, `Ux`, `Uy` the exact ones; `S4x`, `S4y` the computed fourth-order sums,
`Qx`, `Qy` the exact ones; `nx, ny > 0` the counts. -/
theorem merge4_step_error (fl : K → K) (u : K) (hu : 0 ≤ u) (hu2 : u ≤ 1/2)
    (hfl : ∀ t, |fl t - t| ≤ u * |t|)
    (a b μx μy Sx Sy Tx Ty S3x S3y Ux Uy S4x S4y Qx Qy nx ny ε : K) (hnx : 0 < nx) (hny : 0 < ny)
    (hTx : 0 ≤ Tx) (hTy : 0 ≤ Ty) (hε : |(b - a) - (μy - μx)| ≤ ε) :
    let Dn := fl (fl (b - a) / fl (nx + ny))
    let A' := fl (fl (fl (fl (fl (fl (b - a) * Dn) * fl (Dn * Dn)) * nx) * ny)
      * fl (fl (fl (nx * nx) - fl (nx * ny)) + fl (ny * ny)))
    let B' := fl (fl (6 * fl (Dn * Dn)) * fl (fl (fl (nx * nx) * Sy) + fl (fl (ny * ny) * Sx)))
    let C' := fl (fl (4 * Dn) * fl (fl (nx * S3y) - fl (ny * S3x)))
    let δ := μy - μx
    let w := nx * ny * (nx * nx - nx * ny + ny * ny) / (nx + ny)^3
    let P := δ^4 * w
    let Kx := nx * nx * Ty + ny * ny * Tx
    let Qc := 6 * (δ / (nx + ny))^2 * Kx
    let R := 4 * (δ / (nx + ny)) * (nx * Uy - ny * Ux)
    let Hu := nx * |Uy| + ny * |Ux|
    let Z2 := nx * nx * |Sy - Ty| + ny * ny * |Sx - Tx|
    let Z3 := nx * |S3y - Uy| + ny * |S3x - Ux|
    |fl (S4x + fl (fl (fl (S4y + A') + B') + C')) - (Qx + (Qy + P + Qc + R))|
      ≤ (1 + u)^4 * (|S4x - Qx| + |S4y - Qy| + g u 28 * P + g u 14 * Qc
            + g u 8 * (4 * (|δ| / (nx + ny)) * Hu)
            + (1 + g u 28) * (w * (4 * |δ|^3 * ε + 6 * δ^2 * ε^2 + 4 * |δ| * ε^3 + ε^4))
            + (1 + g u 14) * (6 / (nx + ny)^2 * ((2 * |δ| * ε + ε^2) * Kx + (|δ| + ε)^2 * Z2))
            + (1 + g u 8) * (4 / (nx + ny) * (ε * Hu + (|δ| + ε) * Z3)))
        + u * (1 + u)^3 * |Qy + P| + u * (1 + u)^2 * |Qy + P + Qc|
        + u * (1 + u) * |Qy + P + Qc + R| + u * |Qx + (Qy + P + Qc + R)| := by
  intro Dn A' B' C' δ w P Kx Qc R Hu Z2 Z3
  have hn : 0 < nx + ny := by positivity
  have hpoly : 0 ≤ nx * nx - nx * ny + ny * ny := by nlinarith [sq_nonneg (nx - ny)]
  have hw0 : 0 ≤ w := by positivity
  have hxx : 0 ≤ nx * nx := by positivity
  have hyy : 0 ≤ ny * ny := by positivity
  have hK0 : 0 ≤ Kx := by positivity
  have hH0 : 0 ≤ Hu := by positivity
  have hZ20 : 0 ≤ Z2 := by positivity
  have hZ30 : 0 ≤ Z3 := by positivity
  have hε0 : 0 ≤ ε := le_trans (abs_nonneg _) hε
  have hg28 := g_nonneg hu 28
  have hg14 := g_nonneg hu 14
  have hg8 := g_nonneg hu 8
  have hd0 : 0 ≤ |δ| := abs_nonneg δ
  have hEA := crossA4_total fl u hu hu2 hfl a b δ nx ny ε hnx hny hε
  have hEB := crossB4_total fl u hu hu2 hfl a b δ Sx Sy Tx Ty nx ny ε hnx hny hTx hTy hε
  have hEC := crossC4_total fl u hu hu2 hfl a b δ S3x S3y Ux Uy nx ny ε hnx hny hε
  simp only at hEA hEB hEC
  set EA := g u 28 * P + (1 + g u 28) * (w * (4 * |δ|^3 * ε + 6 * δ^2 * ε^2 + 4 * |δ| * ε^3 + ε^4))
    with hEAdef
  set EB := g u 14 * Qc
      + (1 + g u 14) * (6 / (nx + ny)^2 * ((2 * |δ| * ε + ε^2) * Kx + (|δ| + ε)^2 * Z2)) with hEBdef
  set EC := g u 8 * (4 * (|δ| / (nx + ny)) * Hu)
      + (1 + g u 8) * (4 / (nx + ny) * (ε * Hu + (|δ| + ε) * Z3)) with hECdef
  have hEA' : |A' - P| ≤ EA := hEA
  have hEB' : |B' - Qc| ≤ EB := hEB
  have hEC' : |C' - R| ≤ EC := hEC
  have hP0 : 0 ≤ P := by positivity
  have hQc0 : 0 ≤ Qc := by positivity
  have hEA0 : 0 ≤ EA := by positivity
  have hEB0 : 0 ≤ EB := by positivity
  have hEC0 : 0 ≤ EC := by positivity
  refine le_trans (four_adds fl u hu hfl S4x S4y A' B' C' Qx Qy P Qc R EA EB EC hEA' hEB' hEC' hEB0 hEC0)
    (le_of_eq ?_)
  rw [hEAdef, hEBdef, hECdef]
  ring

end KurtMerge

#print axioms KurtMerge.merge4_step_error
