import AvgProofs.MomentsTree
import AvgProofs.RealCarrier
import Mathlib.Tactic.Positivity

/-!
# Values of the `skewness()` / `kurtosis()` accessors on canonical states

`m_p = Σ(x-μ)^p / n`. The accessors take shortcuts (`sum_3 == 0 → 0`, `sum_4 == 0 → 0`); over an
ordered field `Σ(x-μ)⁴ = 0 ↔ Σ(x-μ)² = 0 ↔ all observations are equal`, so with non-zero spread the
kurtosis shortcut never fires, and the skewness shortcut returns what the formula gives.
-/
open Avg

namespace MSpec

section Ordered
variable {K : Type} [Field K] [LinearOrder K] [IsStrictOrderedRing K]

theorem sumPow_two_nonneg (xs : List K) (c : K) : 0 ≤ sumPow xs c 2 := by
  induction xs with
  | nil => simp
  | cons x xs ih => rw [sumPow_cons]; positivity

theorem sumPow_four_nonneg (xs : List K) (c : K) : 0 ≤ sumPow xs c 4 := by
  induction xs with
  | nil => simp
  | cons x xs ih => rw [sumPow_cons]; positivity

theorem sumPow_two_eq_zero_iff (xs : List K) (c : K) : sumPow xs c 2 = 0 ↔ ∀ x ∈ xs, x = c := by
  induction xs with
  | nil => simp
  | cons x xs ih =>
    rw [sumPow_cons, add_eq_zero_iff_of_nonneg (by positivity) (sumPow_two_nonneg xs c), ih]
    simp [sub_eq_zero]

theorem sumPow_four_eq_zero_iff (xs : List K) (c : K) : sumPow xs c 4 = 0 ↔ ∀ x ∈ xs, x = c := by
  induction xs with
  | nil => simp
  | cons x xs ih =>
    rw [sumPow_cons, add_eq_zero_iff_of_nonneg (by positivity) (sumPow_four_nonneg xs c), ih]
    simp [sub_eq_zero]

/-- zero fourth central sum ↔ zero spread -/
theorem sumPow_four_eq_zero_iff_two (xs : List K) (c : K) : sumPow xs c 4 = 0 ↔ sumPow xs c 2 = 0 := by
  rw [sumPow_four_eq_zero_iff, sumPow_two_eq_zero_iff]

end Ordered

section AnyField
variable {K : Type} [Field K] [CharZero K]

/-- all observations equal to `c`: every central sum of positive order about `c` vanishes -/
theorem sumPow_const (xs : List K) (c : K) (h : ∀ x ∈ xs, x = c) (p : Nat) (hp : p ≠ 0) :
    sumPow xs c p = 0 := by
  induction xs with
  | nil => simp
  | cons x xs ih =>
    rw [sumPow_cons, ih (fun y hy => h y (List.mem_cons_of_mem _ hy)), h x List.mem_cons_self]
    simp [hp]

theorem ne_nil_of_sumPow_ne_zero (xs : List K) (c : K) (p : Nat) (h : sumPow xs c p ≠ 0) : xs ≠ [] := by
  rintro rfl; simp at h

end AnyField

section Kurt
variable {K : Type} [Field K] [LinearOrder K] [IsStrictOrderedRing K] [FloatOps K]

/-- `kurtosis()` on the canonical state, non-zero spread: `m₄/m₂² - 3`. `eqb` is exact equality. -/
theorem canonK_kurtosis (heqb : ∀ a b : K, FloatOps.eqb a b = decide (a = b))
    (xs : List K) (h : sumPow xs (mean xs) 2 ≠ 0) :
    (canonK xs).kurtosis
      = (sumPow xs (mean xs) 4 / xs.length) / (sumPow xs (mean xs) 2 / xs.length)^2 - 3 := by
  have hne := ne_nil_of_sumPow_ne_zero xs _ _ h
  have hn : (xs.length : K) ≠ 0 := by simp [hne]
  have h4 : sumPow xs (mean xs) 4 ≠ 0 := fun h' => h ((sumPow_four_eq_zero_iff_two xs _).1 h')
  simp only [Kurtosis.kurtosis, canonK, heqb, List.length_eq_zero_iff, hne, if_false, Nat.cast_zero,
    h4, decide_false, Bool.false_eq_true, Nat.cast_ofNat]
  field_simp

/-- zero spread (all observations equal, in particular a single observation): `kurtosis()` takes
the `sum_4 == 0` shortcut and returns 0 (not NaN, not -3). -/
theorem canonK_kurtosis_degenerate (heqb : ∀ a b : K, FloatOps.eqb a b = decide (a = b))
    (xs : List K) (hne : xs ≠ []) (h : sumPow xs (mean xs) 2 = 0) :
    (canonK xs).kurtosis = 0 := by
  have h4 : sumPow xs (mean xs) 4 = 0 := (sumPow_four_eq_zero_iff_two xs _).2 h
  simp [Kurtosis.kurtosis, canonK, heqb, hne, h4]

/-- zero spread: `skewness()` takes the `sum_3 == 0` shortcut and returns 0. -/
theorem canonS_skewness_degenerate (heqb : ∀ a b : K, FloatOps.eqb a b = decide (a = b))
    (xs : List K) (hne : xs ≠ []) (h : sumPow xs (mean xs) 2 = 0) :
    (canonS xs).skewness = 0 := by
  have h3 : sumPow xs (mean xs) 3 = 0 :=
    sumPow_const xs _ ((sumPow_two_eq_zero_iff xs _).1 h) 3 (by decide)
  simp [Skewness.skewness, canonS, canonK, heqb, hne, h3]

end Kurt

/-! ### skewness over ℝ -/

theorem mul_sqrt_eq_rpow (m : ℝ) (hm : 0 ≤ m) : m * Real.sqrt m = m ^ ((3:ℝ)/2) := by
  rw [Real.sqrt_eq_rpow, show ((3:ℝ)/2) = 1 + 1/2 by norm_num, Real.rpow_one_add' hm (by norm_num)]

theorem sqrt_cube (s : ℝ) (hs : 0 ≤ s) : Real.sqrt (s * s * s) = s * Real.sqrt s := by
  rw [Real.sqrt_mul (mul_self_nonneg s), Real.sqrt_mul_self hs]

/-- `skewness()` on the canonical state over ℝ, non-zero spread: `m₃ / (m₂ √m₂)`, in both branches
of the `sum_3 == 0` shortcut. -/
theorem canonS_skewness (xs : List ℝ) (h : sumPow xs (mean xs) 2 ≠ 0) :
    (canonS xs).skewness
      = (sumPow xs (mean xs) 3 / xs.length)
        / ((sumPow xs (mean xs) 2 / xs.length) * Real.sqrt (sumPow xs (mean xs) 2 / xs.length)) := by
  have hne := ne_nil_of_sumPow_ne_zero xs _ _ h
  have hlen : 0 < xs.length := List.length_pos_of_ne_nil hne
  have hn : (0:ℝ) < (xs.length : ℝ) := by exact_mod_cast hlen
  have hs2 : 0 < sumPow xs (mean xs) 2 := lt_of_le_of_ne (sumPow_two_nonneg xs _) (Ne.symm h)
  by_cases h3 : sumPow xs (mean xs) 3 = 0
  · simp [Skewness.skewness, canonS, canonK, hne, h3, FloatOps.eqb]
  · simp only [Skewness.skewness, canonS, canonK, List.length_eq_zero_iff, hne, if_false,
      Nat.cast_zero, FloatOps.eqb, h3, decide_false, Bool.false_eq_true, FloatOps.sqrt]
    rw [sqrt_cube _ hs2.le, Real.sqrt_div hs2.le]
    have hsn : 0 < Real.sqrt (xs.length : ℝ) := Real.sqrt_pos.2 hn
    have hss : 0 < Real.sqrt (sumPow xs (mean xs) 2) := Real.sqrt_pos.2 hs2
    have e : (xs.length : ℝ) = Real.sqrt xs.length * Real.sqrt xs.length := (Real.mul_self_sqrt hn.le).symm
    generalize Real.sqrt (xs.length : ℝ) = r at *
    rw [e]
    field_simp

end MSpec
