import AvgProofs.SkewMergeErrSpec
import AvgProofs.SkewMergeErrStep
import AvgProofs.MomentsTree
import AvgProofs.MergeEmpty

/-!
# `Skewness.merge` at the carrier `RF2 r`: what is computed for `sum_3`, and the one-step state lemma

* `SkewMerge.sum3_merge_val`: the value of `sum_3` after `Skewness.merge` of two non-empty states, operation by
  operation: 19 rounded operations (`D`, `N`, `Dn`; five products and the rounded difference of the counts for
  the first cross term; `3·Dn`, two products, their difference and one product for the second; three additions).
* `SkewMerge.sum3_merge_error`: **one-step state lemma** - explicit error of the merged `sum_3` from the errors
  of the operands' `sum_3`, `sum_2` and means, `u` and the exact quantities.
-/
open Avg MSpec Finset VarSpec SkewSpec SkewErr

namespace SkewMerge
variable {K : Type} [Field K] [LinearOrder K] [IsStrictOrderedRing K]

/-- `sum_3` after `Skewness.merge` of two non-empty states at the carrier `RF2 r` -/
theorem sum3_merge_val (r : Rnd2 K) (s o : Skewness (RF2 r)) (hs : s.avg.avg.n ≠ 0)
    (ho : o.avg.avg.n ≠ 0) :
    (s.merge o).sum_3.val
      = r.fl (s.sum_3.val + r.fl (r.fl (o.sum_3.val +
          r.fl (r.fl (r.fl (r.fl (r.fl (r.fl (o.avg.avg.avg.val - s.avg.avg.avg.val)
              * r.fl (r.fl (o.avg.avg.avg.val - s.avg.avg.avg.val)
                  / r.fl ((s.avg.avg.n : K) + (o.avg.avg.n : K))))
            * r.fl (r.fl (o.avg.avg.avg.val - s.avg.avg.avg.val)
                  / r.fl ((s.avg.avg.n : K) + (o.avg.avg.n : K))))
            * (s.avg.avg.n : K)) * (o.avg.avg.n : K))
            * r.fl ((s.avg.avg.n : K) - (o.avg.avg.n : K))))
          + r.fl (r.fl (3 * r.fl (r.fl (o.avg.avg.avg.val - s.avg.avg.avg.val)
                  / r.fl ((s.avg.avg.n : K) + (o.avg.avg.n : K))))
              * r.fl (r.fl ((s.avg.avg.n : K) * o.avg.sum_2.val)
                  - r.fl ((o.avg.avg.n : K) * s.avg.sum_2.val))))) := by
  have h : (s.merge o).sum_3.val
      = r.fl (s.sum_3.val + r.fl (r.fl (o.sum_3.val +
          r.fl (r.fl (r.fl (r.fl (r.fl (r.fl (o.avg.avg.avg.val - s.avg.avg.avg.val)
              * r.fl (r.fl (o.avg.avg.avg.val - s.avg.avg.avg.val)
                  / r.fl ((s.avg.avg.n : K) + (o.avg.avg.n : K))))
            * r.fl (r.fl (o.avg.avg.avg.val - s.avg.avg.avg.val)
                  / r.fl ((s.avg.avg.n : K) + (o.avg.avg.n : K))))
            * (s.avg.avg.n : K)) * (o.avg.avg.n : K))
            * r.fl ((s.avg.avg.n : K) - (o.avg.avg.n : K))))
          + r.fl (r.fl (((3 : ℕ) : K) * r.fl (r.fl (o.avg.avg.avg.val - s.avg.avg.avg.val)
                  / r.fl ((s.avg.avg.n : K) + (o.avg.avg.n : K))))
              * r.fl (r.fl ((s.avg.avg.n : K) * o.avg.sum_2.val)
                  - r.fl ((o.avg.avg.n : K) * s.avg.sum_2.val))))) := by
    rw [Skewness.merge, if_neg ho, if_neg hs]; rfl
  rw [h, Nat.cast_ofNat]

/-- **One merge step of `sum_3` (state lemma).** The `Skewness` states `s`, `o` hold the exact counts of the
non-empty chunks `xs`, `ys` and means within `εx`, `εy` of the exact ones. With `δ = mean ys - mean xs`,
`n = n_x + n_y`, `ε = εx + εy`, `γ_i = (1+u)^i - 1`:

`|sum_3' - U(xs++ys)| ≤ (1+u)³·( |s.sum_3 - U xs| + |o.sum_3 - U ys| + γ15·absP + γ8·absQ
      + (1+γ15)·w3a·(3δ²ε + 3|δ|ε² + ε³)
      + (1+γ8)·(3/n)·(ε·(n_x·T ys + n_y·T xs) + (|δ|+ε)·(n_x·|o.sum_2 - T ys| + n_y·|s.sum_2 - T xs|)) )
   + u·(1+u)²·|U ys + P| + u·(1+u)·|U ys + P + Q| + u·|U(xs++ys)|`. -/
theorem sum3_merge_error (r : Rnd2 K) (hu2 : r.u ≤ 1/2) (s o : Skewness (RF2 r)) (xs ys : List K)
    (hx : xs ≠ []) (hy : ys ≠ []) (hsn : s.avg.avg.n = xs.length) (hon : o.avg.avg.n = ys.length)
    (εx εy : K) (hsx : |s.avg.avg.avg.val - mean xs| ≤ εx) (hoy : |o.avg.avg.avg.val - mean ys| ≤ εy) :
    |(s.merge o).sum_3.val - U (xs ++ ys)|
      ≤ (1 + r.u)^3 * (|s.sum_3.val - U xs| + |o.sum_3.val - U ys|
            + g r.u 15 * absP xs ys + g r.u 8 * absQ xs ys
            + (1 + g r.u 15) * (w3a xs ys * (3 * (mean ys - mean xs)^2 * (εx + εy)
                + 3 * |mean ys - mean xs| * (εx + εy)^2 + (εx + εy)^3))
            + (1 + g r.u 8) * (3 / ((xs.length : K) + (ys.length : K))
                * ((εx + εy) * mixH xs ys + (|mean ys - mean xs| + (εx + εy))
                    * ((xs.length : K) * |o.avg.sum_2.val - T ys|
                        + (ys.length : K) * |s.avg.sum_2.val - T xs|))))
        + r.u * (1 + r.u)^2 * |U ys + crossP xs ys|
        + r.u * (1 + r.u) * |U ys + crossP xs ys + crossQ xs ys|
        + r.u * |U (xs ++ ys)| := by
  have hs0 : s.avg.avg.n ≠ 0 := by rw [hsn]; exact fun h => hx (List.length_eq_zero_iff.mp h)
  have ho0 : o.avg.avg.n ≠ 0 := by rw [hon]; exact fun h => hy (List.length_eq_zero_iff.mp h)
  have hnx : (0 : K) < xs.length := by exact_mod_cast List.length_pos_of_ne_nil hx
  have hny : (0 : K) < ys.length := by exact_mod_cast List.length_pos_of_ne_nil hy
  have hU : U (xs ++ ys) = U xs + (U ys + crossP xs ys + crossQ xs ys) := by
    rw [U_append]; ring
  rw [sum3_merge_val r s o hs0 ho0, hsn, hon, hU]
  have hε : |(o.avg.avg.avg.val - s.avg.avg.avg.val) - (mean ys - mean xs)| ≤ εx + εy := by
    have : (o.avg.avg.avg.val - s.avg.avg.avg.val) - (mean ys - mean xs)
        = (o.avg.avg.avg.val - mean ys) - (s.avg.avg.avg.val - mean xs) := by ring
    rw [this]
    exact le_trans (abs_sub _ _) (by linarith)
  exact merge3_step_error r.fl r.u r.u_nonneg hu2 r.err s.avg.avg.avg.val o.avg.avg.avg.val
    (mean xs) (mean ys) s.avg.sum_2.val o.avg.sum_2.val (T xs) (T ys) s.sum_3.val o.sum_3.val
    (U xs) (U ys) xs.length ys.length (εx + εy) hnx hny (T_nonneg xs) (T_nonneg ys) hε

end SkewMerge

#print axioms SkewMerge.sum3_merge_val
#print axioms SkewMerge.sum3_merge_error
