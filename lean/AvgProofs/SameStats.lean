import AvgProofs.Sentinel
/-! `X.SameStats s t`: every public accessor of the estimator type `X` returns the same value (the same bits,
on the IEEE carrier) on `s` and on `t`. The lists of accessors are those of the Rust types
(`src/moments/*.rs`, `src/moments/mod.rs`, `src/covariance.rs`, `src/weighted_mean.rs`).
`X.sameStats_of_empty`: two states with count 0 are indistinguishable through the accessors. -/
set_option linter.unusedSectionVars false
namespace Avg
variable {α : Type} [Add α] [Sub α] [Mul α] [Div α] [NatCast α] [FloatOps α]

/-- `mean`, `len`, `is_empty`, `estimate` -/
def Mean.SameStats (s t : Mean α) : Prop :=
  s.mean = t.mean ∧ s.len = t.len ∧ s.isEmpty = t.isEmpty ∧ s.estimate = t.estimate

/-- `mean`, `len`, `is_empty`, `sample_variance`, `population_variance`, `variance_of_mean`, `error`, `estimate` -/
def Variance.SameStats (s t : Variance α) : Prop :=
  s.mean = t.mean ∧ s.len = t.len ∧ s.isEmpty = t.isEmpty ∧ s.sampleVariance = t.sampleVariance
  ∧ s.populationVariance = t.populationVariance ∧ s.varianceOfMean = t.varianceOfMean ∧ s.error = t.error
  ∧ s.estimate = t.estimate

/-- `mean`, `len`, `is_empty`, `sample_variance`, `population_variance`, `error_mean`, `skewness`, `estimate` -/
def Skewness.SameStats (s t : Skewness α) : Prop :=
  s.mean = t.mean ∧ s.len = t.len ∧ s.isEmpty = t.isEmpty ∧ s.sampleVariance = t.sampleVariance
  ∧ s.populationVariance = t.populationVariance ∧ s.errorMean = t.errorMean ∧ s.skewness = t.skewness
  ∧ s.estimate = t.estimate

/-- `mean`, `len`, `is_empty`, `sample_variance`, `population_variance`, `error_mean`, `skewness`, `kurtosis`,
`estimate` -/
def Kurtosis.SameStats (s t : Kurtosis α) : Prop :=
  s.mean = t.mean ∧ s.len = t.len ∧ s.isEmpty = t.isEmpty ∧ s.sampleVariance = t.sampleVariance
  ∧ s.populationVariance = t.populationVariance ∧ s.errorMean = t.errorMean ∧ s.skewness = t.skewness
  ∧ s.kurtosis = t.kurtosis ∧ s.estimate = t.estimate

/-- `mean`, `len`, `is_empty`, `central_moment(p)` and `standardized_moment(p)` for every `p` (panics included),
`sample_variance`, `sample_skewness`, `sample_excess_kurtosis` of a `define_moments!(_, N)` type -/
def Moments.SameStats [Neg α] (N : Nat) (s t : Moments α) : Prop :=
  s.mean = t.mean ∧ s.len = t.len ∧ s.isEmpty = t.isEmpty
  ∧ (∀ p, s.centralMoment N p = t.centralMoment N p) ∧ (∀ p, s.standardizedMoment N p = t.standardizedMoment N p)
  ∧ s.sampleVariance = t.sampleVariance ∧ s.sampleSkewness = t.sampleSkewness
  ∧ s.sampleExcessKurtosis = t.sampleExcessKurtosis

/-- all eleven accessors of `Covariance` -/
def Covariance.SameStats (s t : Covariance α) : Prop :=
  s.len = t.len ∧ s.isEmpty = t.isEmpty ∧ s.meanX = t.meanX ∧ s.meanY = t.meanY
  ∧ s.populationCovariance = t.populationCovariance ∧ s.sampleCovariance = t.sampleCovariance
  ∧ s.pearson = t.pearson ∧ s.sampleVarianceX = t.sampleVarianceX ∧ s.populationVarianceX = t.populationVarianceX
  ∧ s.sampleVarianceY = t.sampleVarianceY ∧ s.populationVarianceY = t.populationVarianceY

theorem Mean.sameStats_refl (s : Mean α) : s.SameStats s := ⟨rfl, rfl, rfl, rfl⟩
theorem Variance.sameStats_refl (s : Variance α) : s.SameStats s := ⟨rfl, rfl, rfl, rfl, rfl, rfl, rfl, rfl⟩
theorem Skewness.sameStats_refl (s : Skewness α) : s.SameStats s := ⟨rfl, rfl, rfl, rfl, rfl, rfl, rfl, rfl⟩
theorem Kurtosis.sameStats_refl (s : Kurtosis α) : s.SameStats s := ⟨rfl, rfl, rfl, rfl, rfl, rfl, rfl, rfl, rfl⟩
theorem Moments.sameStats_refl [Neg α] (N : Nat) (s : Moments α) : Moments.SameStats N s s :=
  ⟨rfl, rfl, rfl, fun _ => rfl, fun _ => rfl, rfl, rfl, rfl⟩
theorem Covariance.sameStats_refl (s : Covariance α) : s.SameStats s :=
  ⟨rfl, rfl, rfl, rfl, rfl, rfl, rfl, rfl, rfl, rfl, rfl⟩

theorem Mean.sameStats_of_empty (s t : Mean α) (hs : s.n = 0) (ht : t.n = 0) : s.SameStats t :=
  ⟨by rw [Mean.mean_empty s hs, Mean.mean_empty t ht], by simp [Mean.len, hs, ht], by simp [Mean.isEmpty, hs, ht],
   by rw [Mean.estimate_empty s hs, Mean.estimate_empty t ht]⟩

theorem Variance.sameStats_of_empty (s t : Variance α) (hs : s.avg.n = 0) (ht : t.avg.n = 0) : s.SameStats t :=
  ⟨by rw [Variance.mean_empty s hs, Variance.mean_empty t ht], by simp [Variance.len, hs, ht],
   by simp [Variance.isEmpty, Mean.isEmpty, hs, ht],
   by rw [Variance.sampleVariance_lt2 s (by omega), Variance.sampleVariance_lt2 t (by omega)],
   by rw [Variance.populationVariance_empty s hs, Variance.populationVariance_empty t ht],
   by rw [Variance.varianceOfMean_empty s hs, Variance.varianceOfMean_empty t ht],
   by rw [Variance.error_empty s hs, Variance.error_empty t ht],
   by rw [Variance.estimate_empty s hs, Variance.estimate_empty t ht]⟩

theorem Skewness.sameStats_of_empty (s t : Skewness α) (hs : s.avg.avg.n = 0) (ht : t.avg.avg.n = 0) :
    s.SameStats t :=
  ⟨by rw [Skewness.mean_empty s hs, Skewness.mean_empty t ht], by simp [Skewness.len, hs, ht],
   by simp [Skewness.isEmpty, Variance.isEmpty, Mean.isEmpty, hs, ht],
   by rw [Skewness.sampleVariance_lt2 s (by omega), Skewness.sampleVariance_lt2 t (by omega)],
   by rw [Skewness.populationVariance_empty s hs, Skewness.populationVariance_empty t ht],
   by rw [Skewness.errorMean_empty s hs, Skewness.errorMean_empty t ht],
   by rw [Skewness.skewness_empty s hs, Skewness.skewness_empty t ht],
   by rw [Skewness.estimate_empty s hs, Skewness.estimate_empty t ht]⟩

theorem Kurtosis.sameStats_of_empty (s t : Kurtosis α) (hs : s.avg.avg.avg.n = 0) (ht : t.avg.avg.avg.n = 0) :
    s.SameStats t :=
  ⟨by rw [Kurtosis.mean_empty s hs, Kurtosis.mean_empty t ht], by simp [Kurtosis.len, hs, ht],
   by simp [Kurtosis.isEmpty, Skewness.isEmpty, Variance.isEmpty, Mean.isEmpty, hs, ht],
   by rw [Kurtosis.sampleVariance_lt2 s (by omega), Kurtosis.sampleVariance_lt2 t (by omega)],
   by rw [Kurtosis.populationVariance_empty s hs, Kurtosis.populationVariance_empty t ht],
   by rw [Kurtosis.errorMean_empty s hs, Kurtosis.errorMean_empty t ht],
   by rw [Kurtosis.skewness_empty s hs, Kurtosis.skewness_empty t ht],
   by rw [Kurtosis.kurtosis_empty s hs, Kurtosis.kurtosis_empty t ht],
   by rw [Kurtosis.estimate_empty s hs, Kurtosis.estimate_empty t ht]⟩

theorem Moments.sameStats_of_empty [Neg α] (N : Nat) (s t : Moments α) (hs : s.n = 0) (ht : t.n = 0) :
    Moments.SameStats N s t :=
  ⟨by rw [Moments.mean_empty s hs, Moments.mean_empty t ht], by simp [Moments.len, hs, ht],
   by simp [Moments.isEmpty, hs, ht],
   fun p => Moments.centralMoment_empty_eq N N s t hs ht p,
   fun p => Moments.standardizedMoment_empty_eq N N s t hs ht p,
   by rw [Moments.sampleVariance_lt2 s (by omega), Moments.sampleVariance_lt2 t (by omega)],
   by rw [Moments.sampleSkewness_empty s hs, Moments.sampleSkewness_empty t ht],
   by rw [Moments.sampleExcessKurtosis_lt4 s (by omega), Moments.sampleExcessKurtosis_lt4 t (by omega)]⟩

theorem Covariance.sameStats_of_empty (s t : Covariance α) (hs : s.n = 0) (ht : t.n = 0) : s.SameStats t :=
  ⟨by simp [Covariance.len, hs, ht], by simp [Covariance.isEmpty, hs, ht],
   by rw [Covariance.meanX_empty s hs, Covariance.meanX_empty t ht],
   by rw [Covariance.meanY_empty s hs, Covariance.meanY_empty t ht],
   by rw [Covariance.populationCovariance_empty s hs, Covariance.populationCovariance_empty t ht],
   by rw [Covariance.sampleCovariance_lt2 s (by omega), Covariance.sampleCovariance_lt2 t (by omega)],
   by rw [Covariance.pearson_lt2 s (by omega), Covariance.pearson_lt2 t (by omega)],
   by rw [Covariance.sampleVarianceX_lt2 s (by omega), Covariance.sampleVarianceX_lt2 t (by omega)],
   by rw [Covariance.populationVarianceX_empty s hs, Covariance.populationVarianceX_empty t ht],
   by rw [Covariance.sampleVarianceY_lt2 s (by omega), Covariance.sampleVarianceY_lt2 t (by omega)],
   by rw [Covariance.populationVarianceY_empty s hs, Covariance.populationVarianceY_empty t ht]⟩

end Avg
