import AvgProofs.MomentsAdd

/-! `define_moments!` merge for any order `N`: closed forms of the two loops, then the binomial
shift lemma applied to both operands. -/
open Avg Finset
set_option linter.unusedSectionVars false
namespace MSpec
variable {K : Type} [Field K] [CharZero K]

/-- closed form of the inner (binomial) loop of `merge` -/
theorem innerMerge_closed (p : Nat) (prev other : List K) (fa fb delta : K) :
    ∀ (fuel k : Nat) (ca cb cd : K) (a : Nat) (acc : K),
      1 ≤ k → k + fuel ≤ p + 1 → a = p.choose (k-1) →
      ca = fa^(k-1) → cb = fb^(k-1) → cd = delta^(k-1) →
      innerMerge p prev other fa fb delta k fuel ca cb cd a acc
        = acc + ∑ j ∈ Ico k (k+fuel), (p.choose j : K) * delta^j *
            (prev.getD (p-2-j) 0 * fa^j + other.getD (p-2-j) 0 * fb^j) := by
  intro fuel
  induction fuel with
  | zero => intro k ca cb cd a acc _ _ _ _ _ _; simp [innerMerge]
  | succ fuel ih =>
    intro k ca cb cd a acc hk hle ha hca hcb hcd
    unfold innerMerge
    have hbin : a * (p - k + 1) / k = p.choose k := by
      have := binom_step p (k-1) (by omega)
      rw [ha]
      have e1 : k - 1 + 1 = k := by omega
      rw [e1] at this
      exact this
    have e1 : k - 1 + 1 = k := by omega
    have hA : ca * fa = fa^k := by rw [hca, ← pow_succ, e1]
    have hB : cb * fb = fb^k := by rw [hcb, ← pow_succ, e1]
    have hD : cd * delta = delta^k := by rw [hcd, ← pow_succ, e1]
    simp only [hbin, hA, hB, hD]
    rw [ih (k+1) (fa^k) (fb^k) (delta^k) (p.choose k) _ (by omega) (by omega) (by simp) (by simp)
      (by simp) (by simp)]
    rw [Finset.sum_eq_sum_Ico_succ_bot (by omega : k < k + (fuel+1))]
    have : k + 1 + fuel = k + (fuel + 1) := by omega
    rw [this]
    simp only [Nat.cast_zero]
    ring

/-- one outer iteration of `merge`, as a function of the carried scalars -/
def GM (prev other : List K) (fa fb delta : K) (p : Nat) (ta tb : K) : K :=
  innerMerge p prev other fa fb delta 1 (p-2) ((1:Nat):K) ((1:Nat):K) ((1:Nat):K) 1
    (prev.getD (p-2) ((0:Nat):K) + (other.getD (p-2) ((0:Nat):K) + ta + tb))

theorem outerMerge_closed (prev other : List K) (factor_a factor_b fa fb delta : K) :
    ∀ (fuel p : Nat) (ta tb : K),
      outerMerge prev other factor_a factor_b fa fb delta p fuel ta tb
        = (List.range fuel).map (fun i =>
            GM prev other fa fb delta (p+i) (ta * factor_a^(i+1)) (tb * factor_b^(i+1))) := by
  intro fuel
  induction fuel with
  | zero => intro p ta tb; simp [outerMerge]
  | succ fuel ih =>
    intro p ta tb
    unfold outerMerge
    rw [List.range_succ_eq_map, List.map_cons, List.map_map]
    simp only [ih]
    congr 1
    · simp [GM]
    · apply List.map_congr_left
      intro i _
      simp only [Function.comp]
      have : p + 1 + i = p + (i+1) := by omega
      rw [this]
      congr 1 <;> (simp only [Nat.succ_eq_add_one]; ring)

theorem canonM_nil (N : Nat) : canonM N ([] : List K) = Moments.new N := by
  simp only [canonM, Moments.new, List.length_nil, mean, List.sum_nil, Nat.cast_zero, div_zero,
    sumPow_nil]
  congr 1
  apply List.ext_getElem <;> simp

/-- the shift lemma at the mean of the operand, with the terms `k = 0, p-1, p` split off -/
theorem shift_mean_split (xs : List K) (c : K) (i : Nat) :
    sumPow xs c (i+2) = sumPow xs (mean xs) (i+2)
      + ∑ j ∈ Ico 1 (i+1), ((i+2).choose j : K) * (mean xs - c)^j * sumPow xs (mean xs) (i+2-j)
      + (mean xs - c)^(i+2) * (xs.length : K) := by
  rw [shift xs c (mean xs) (i+2)]
  rw [Finset.sum_range_succ, Finset.sum_range_succ, Finset.range_eq_Ico,
      Finset.sum_eq_sum_Ico_succ_bot (by omega : 0 < i + 1)]
  have s1 : sumPow xs (mean xs) (i + 2 - (i+1)) = 0 := by
    have : i + 2 - (i+1) = 1 := by omega
    rw [this]; exact sumPow_one_mean xs
  have s0 : sumPow xs (mean xs) (i + 2 - (i+2)) = (xs.length : K) := by
    have : i + 2 - (i+2) = 0 := by omega
    rw [this]; exact sumPow_zero xs (mean xs)
  rw [s1, s0]
  simp only [Nat.choose_self, Nat.choose_zero_right, Nat.cast_one, pow_zero, Nat.sub_zero, zero_add,
    mul_zero, add_zero, one_mul]

theorem moments_merge (N : Nat) (xs ys : List K) :
    (canonM N xs).merge N (canonM N ys) = canonM N (xs ++ ys) := by
  by_cases hy : ys = []
  · subst hy; simp [Moments.merge, canonM]
  by_cases hx : xs = []
  · subst hx; simp [Moments.merge, canonM, hy]
  have h1 : (xs.length : K) ≠ 0 := by simp [hx]
  have h2 : (ys.length : K) ≠ 0 := by simp [hy]
  have h3 : (xs.length : K) + (ys.length : K) ≠ 0 := by
    have : ((xs.length + ys.length : Nat) : K) ≠ 0 := by
      rw [Nat.cast_ne_zero]; have := List.length_pos_of_ne_nil hx; omega
    simpa using this
  have hm := mean_append xs ys hx hy
  unfold Moments.merge canonM
  simp only [List.length_eq_zero_iff, hx, hy, if_false, List.length_append, Nat.cast_add]
  set μa := mean xs with hμa
  set μb := mean ys with hμb
  set na : K := (xs.length : K) with hna
  set nb : K := (ys.length : K) with hnb
  have hμ : mean (xs ++ ys) = μa + nb / (na + nb) * (μb - μa) := by
    rw [hm]; field_simp; ring
  congr 1
  · exact hμ.symm
  rw [outerMerge_closed]
  apply List.map_congr_left
  intro i hi
  have hi' : i < N - 1 := by simpa using hi
  simp only [GM]
  rw [innerMerge_closed (2+i) _ _ _ _ _ (2+i-2) 1 _ _ _ 1 _ (le_refl 1) (by omega) (by simp) (by simp)
    (by simp) (by simp)]
  have e0 : 2 + i - 2 = i := by omega
  rw [e0, getD_map_range _ _ _ hi', getD_map_range _ _ _ hi']
  set δ := μb - μa with hδ
  set fa : K := -(nb / (na + nb)) with hfa
  set fb : K := na / (na + nb) with hfb
  have hca : μa - mean (xs ++ ys) = fa * δ := by rw [hμ, hfa]; ring
  have hcb : μb - mean (xs ++ ys) = fb * δ := by rw [hμ, hfb, hδ]; field_simp; ring
  rw [sumPow_append, shift_mean_split xs (mean (xs ++ ys)) i, shift_mean_split ys (mean (xs ++ ys)) i,
    ← hμa, ← hμb, hca, hcb]
  have hsum : ∑ j ∈ Ico 1 (1+i), ((2+i).choose j : K) * δ^j *
        (((List.range (N-1)).map (fun j => sumPow xs μa (j+2))).getD (i-j) 0 * fa^j
          + ((List.range (N-1)).map (fun j => sumPow ys μb (j+2))).getD (i-j) 0 * fb^j)
      = ∑ j ∈ Ico 1 (i+1), ((i+2).choose j : K) * (fa * δ)^j * sumPow xs μa (i + 2 - j)
        + ∑ j ∈ Ico 1 (i+1), ((i+2).choose j : K) * (fb * δ)^j * sumPow ys μb (i + 2 - j) := by
    rw [Nat.add_comm 1 i, ← Finset.sum_add_distrib]
    apply Finset.sum_congr rfl
    intro j hj
    rw [Finset.mem_Ico] at hj
    rw [getD_map_range _ _ _ (by omega), getD_map_range _ _ _ (by omega)]
    have : i - j + 2 = i + 2 - j := by omega
    rw [this, Nat.add_comm 2 i, mul_pow, mul_pow]
    ring
  rw [hsum]
  generalize (∑ j ∈ Ico 1 (i + 1), ((i + 2).choose j : K) * (fa * δ) ^ j * sumPow xs μa (i + 2 - j)) = TA
  generalize (∑ j ∈ Ico 1 (i + 1), ((i + 2).choose j : K) * (fb * δ) ^ j * sumPow ys μb (i + 2 - j)) = TB
  ring

end MSpec
#print axioms MSpec.moments_merge
