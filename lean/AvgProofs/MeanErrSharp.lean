import AvgProofs.MeanErr2
import Mathlib.Tactic.NormNum
import Mathlib.Tactic.LinearCombination

/-!
# A sharper forward-error bound for Welford's running mean

`mean_fold_error` gives `|avg_n - mean_n| ≤ 2(2w+u)·M·n ≈ 10.1·u·M·n`. The recurrence
`welford_step_error` supports the first-order-sharp invariant
`|avg_k - mean_k| ≤ (65/128)·u·M·(k + 37/4)`  (≈ `u·M·k/2`, the worst case of `k` roundings of size
`u·M` damped by `(k-1)/k`), as long as `(n + 28)·u ≤ 1/64`.
-/
open Avg
variable {K : Type} [Field K] [LinearOrder K] [IsStrictOrderedRing K]

/-- the arithmetic of one step: the invariant `e ≤ β(k-1+c)` is propagated, `β = (65/128)uM`,
`c = 37/4` -/
theorem mean_sharp_step_arith (u M w k e : K) (hu : 0 ≤ u) (hM : 0 ≤ M) (hw0 : 0 ≤ w)
    (hw : w ≤ 33/16 * u) (hk : 1 ≤ k) (hs : w + k * u ≤ 1/64) (he0 : 0 ≤ e)
    (he : e ≤ 65/128 * u * M * (k - 1 + 37/4)) :
    e * (1 - 1/k) + w * (2*M + e) / k + u * (M + e) ≤ 65/128 * u * M * (k + 37/4) := by
  have hkpos : 0 < k := lt_of_lt_of_le one_pos hk
  set ι := 1/k with hι
  have hkι : k * ι = 1 := by rw [hι]; field_simp
  have hι0 : 0 ≤ ι := by rw [hι]; positivity
  have hι1 : ι ≤ 1 := by rw [hι, div_le_one hkpos]; exact hk
  have hdiv : w * (2*M + e) / k = w * (2*M + e) * ι := by rw [hι]; ring
  rw [hdiv]
  set Z := u * M with hZ
  have hZ0 : 0 ≤ Z := by positivity
  set eb := 65/128 * Z * (k - 1 + 37/4) with heb
  have he' : e ≤ eb := by rw [heb, hZ]; linarith [he]
  -- monotone in e
  have hmono : e * (1 - ι) + w * (2*M + e) * ι + u * (M + e)
      ≤ eb * (1 - ι) + w * (2*M + eb) * ι + u * (M + eb) := by
    have h1 : 0 ≤ 1 - ι := by linarith
    gcongr
  refine le_trans hmono ?_
  -- the pieces
  have p1 : eb * (1 - ι) = 65/128 * Z * (k + 37/4 - 2 - 33/4 * ι) := by
    rw [heb]; linear_combination (-(65/128 * Z)) * hkι
  have p2 : w * eb * ι + u * eb = 65/128 * Z * (1 + 33/4 * ι) * (w + k * u) := by
    rw [heb]; linear_combination (65/128 * Z * (w - 33/4 * u)) * hkι
  have p2' : 65/128 * Z * (1 + 33/4 * ι) * (w + k * u) ≤ 65/128 * Z * (1 + 33/4 * ι) * (1/64) := by
    gcongr
  have p3 : w * (2*M) * ι ≤ 33/8 * Z * ι := by
    calc w * (2*M) * ι ≤ (33/16 * u) * (2*M) * ι := by gcongr
      _ = 33/8 * Z * ι := by rw [hZ]; ring
  have hsplit : eb * (1 - ι) + w * (2*M + eb) * ι + u * (M + eb)
      = eb * (1 - ι) + (w * eb * ι + u * eb) + w * (2*M) * ι + Z := by rw [hZ]; ring
  rw [hsplit, p1, p2]
  have hZι : 0 ≤ Z * ι := by positivity
  have hZι1 : Z * ι ≤ Z := by nlinarith
  nlinarith

/-- **Sharper forward error of the running mean**, all stream lengths with `(n+28)·u ≤ 1/64`:
`|avg_n - mean| ≤ (65/128)·u·M·(n + 37/4)`. -/
theorem mean_fold_error_sharp (r : Rnd2 K) (M : K) (hM : 0 ≤ M) :
    ∀ (xs : List (RF2 r)), (∀ x ∈ xs, |x.val| ≤ M) →
      ((xs.length : K) + 28) * r.u ≤ 1/64 →
      |(xs.foldl Mean.add Mean.new).avg.val - meanK (xs.map RF2.val)|
        ≤ 65/128 * r.u * M * ((xs.length : K) + 37/4) := by
  intro xs
  induction xs using List.reverseRecOn with
  | nil =>
    intro _ _
    have hu := r.u_nonneg
    have h0 : (Mean.new : Mean (RF2 r)).avg.val = 0 := (Nat.cast_zero : ((0 : ℕ) : K) = 0)
    simp only [List.foldl_nil, h0, List.map_nil, meanK, List.sum_nil, List.length_nil,
      Nat.cast_zero, div_zero, sub_self, abs_zero, zero_add]
    positivity
  | append_singleton xs x ih =>
    intro hb hsmall
    have hu := r.u_nonneg
    set w := (2*r.u + r.u^2) * (1 + r.u) with hw
    have hw0 : 0 ≤ w := by positivity
    have hb' : ∀ y ∈ xs, |y.val| ≤ M := fun y hy => hb y (by simp [hy])
    have hlen : ((xs ++ [x]).length : K) = xs.length + 1 := by simp
    rw [hlen] at hsmall
    have hl0 : (0:K) ≤ xs.length := Nat.cast_nonneg _
    have hsmall' : ((xs.length : K) + 28) * r.u ≤ 1/64 := by nlinarith
    have hu64 : r.u ≤ 1/64 := by nlinarith
    have he := ih hb' hsmall'
    have hn : (xs.foldl Mean.add Mean.new).n = xs.length :=
      (mean_fold_error r M hM xs hb' (by
        have : w ≤ 33/16 * r.u := by rw [hw]; nlinarith
        nlinarith)).1
    rw [List.foldl_append, List.foldl_cons, List.foldl_nil]
    set s := xs.foldl Mean.add Mean.new with hs
    rw [List.map_append, List.map_cons, List.map_nil, meanK_snoc, List.length_map]
    set μ := meanK (xs.map RF2.val) with hμ
    set k : K := ((xs.length + 1 : Nat) : K) with hk
    have hk1 : (1:K) ≤ k := by simp [hk]
    have hμb : |μ| ≤ M := abs_mean_le _ M hM (by
      intro y hy; rw [List.mem_map] at hy; obtain ⟨z, hz, rfl⟩ := hy; exact hb' z hz)
    have hxb : |x.val| ≤ M := hb x (by simp)
    have step := welford_step_error r.fl r.u hu r.err M hM s.avg.val μ x.val k hk1 hxb hμb
    simp only at step
    have havg : (s.add x).avg.val = r.fl (s.avg.val + r.fl (r.fl (x.val - s.avg.val) / k)) := by
      simp only [Mean.add, hn, hk]; rfl
    rw [havg]
    refine le_trans step ?_
    have hkm : (xs.length : K) = k - 1 := by simp [hk]
    rw [hkm] at he hsmall
    rw [hlen, hkm]
    have hww : w ≤ 33/16 * r.u := by rw [hw]; nlinarith
    have hs : w + k * r.u ≤ 1/64 := by nlinarith
    have := mean_sharp_step_arith r.u M w k |s.avg.val - μ| hu hM hw0 hww hk1 hs (abs_nonneg _) he
    calc _ ≤ 65/128 * r.u * M * (k + 37/4) := this
      _ = 65/128 * r.u * M * (k - 1 + 1 + 37/4) := by ring

#print axioms mean_fold_error_sharp
