import AvgProofs.WeightedMergeErrProj

/-!
# `sum_weights`, `sum_weights_sq`, `effective_len` through every merge tree, in terms of `n`

Carrier `RF2 r`; the multiplicative calculus `MB lo hi a' a : lo·a ≤ a' ≤ hi·a` of `AvgProofs/WeightedSumsErr.lean`.
`n` = number of observations of the tree, `e` = number of empty chunks (`MTree.emptyLeaves`).

* `tree_wsum_MB`: `weight_sum` is within `n` roundings of `Σw` for EVERY tree: a leaf of `k` observations
  makes `k` rounded additions; `WeightedMean.merge` returns an operand unchanged when the other has stored
  weight sum zero, so a merge that rounds has two operands with at least one observation each, and
  `max(n_l, n_r) + 1 ≤ n_l + n_r`.
* `tree_wsumsq_MB`: `weight_sum_sq` is within `n + e + 1` roundings of `Σw²` (`WeightedMeanWithError.merge`
  adds the two sums of squares with a rounded addition also when an operand is empty).
* `efflen_of_MB`, `invefflen_of_MB`: `fl(fl(Ŵ·Ŵ)/Ŵ2)` and `fl(Ŵ2/fl(Ŵ·Ŵ))` from two-sided bounds on `Ŵ`, `Ŵ2`.
* `efflen_tree_MB_n`, `invefflen_tree_MB_n`: the two ratios for every tree.
-/
open Avg MSpec
set_option linter.unusedSectionVars false

variable {K : Type} [Field K] [LinearOrder K] [IsStrictOrderedRing K]

namespace WMergeErr

/-! ## two ratios from two-sided bounds on the sums (pure arithmetic) -/

/-- `fl(fl(Ŵ·Ŵ)/Ŵ2)` with `Ŵ` within `a` roundings of `W > 0` and `Ŵ2` within `b` roundings of `W2 > 0` -/
theorem efflen_of_MB (fl : K → K) (u : K) (hu0 : 0 ≤ u) (hu1 : u < 1) (hfl : ∀ t, |fl t - t| ≤ u * |t|)
    (a b : ℕ) (Wc W W2c W2 : K) (hW0 : 0 < W) (hW20 : 0 < W2)
    (hW : MB ((1 - u)^a) ((1 + u)^a) Wc W) (hW2 : MB ((1 - u)^b) ((1 + u)^b) W2c W2) :
    MB ((1 - u)^(2 * a + 2) / (1 + u)^b) ((1 + u)^(2 * a + 2) / (1 - u)^b)
      (fl (fl (Wc * Wc) / W2c)) (W * W / W2) := by
  have h1u : 0 < 1 - u := by linarith
  have hl : 0 ≤ (1 - u)^a := (pow_pos h1u _).le
  have hE0 := div_nonneg (mul_nonneg hW0.le hW0.le) hW20.le
  have hWW := ((hW.mul hW hl hl hW0.le hW0.le).round fl u hu0 hu1.le hfl
    (by positivity) (mul_nonneg hW0.le hW0.le))
  have hq := (hWW.div hW2 (by positivity) (pow_pos h1u _) (mul_nonneg hW0.le hW0.le) hW20).round
    fl u hu0 hu1.le hfl (by positivity) hE0
  refine hq.mono hE0 (le_of_eq ?_) (le_of_eq ?_)
  · rw [div_mul_eq_mul_div]; congr 1; ring
  · rw [div_mul_eq_mul_div]; congr 1; ring

/-- `fl(Ŵ2/fl(Ŵ·Ŵ))`, likewise -/
theorem invefflen_of_MB (fl : K → K) (u : K) (hu0 : 0 ≤ u) (hu1 : u < 1) (hfl : ∀ t, |fl t - t| ≤ u * |t|)
    (a b : ℕ) (Wc W W2c W2 : K) (hW0 : 0 < W) (hW20 : 0 ≤ W2)
    (hW : MB ((1 - u)^a) ((1 + u)^a) Wc W) (hW2 : MB ((1 - u)^b) ((1 + u)^b) W2c W2) :
    MB ((1 - u)^(b + 1) / (1 + u)^(2 * a + 1)) ((1 + u)^(b + 1) / (1 - u)^(2 * a + 1))
      (fl (W2c / fl (Wc * Wc))) (W2 / (W * W)) := by
  have h1u : 0 < 1 - u := by linarith
  have hl : 0 ≤ (1 - u)^a := (pow_pos h1u _).le
  have hWWpos : 0 < W * W := mul_pos hW0 hW0
  have hWW := ((hW.mul hW hl hl hW0.le hW0.le).round fl u hu0 hu1.le hfl (by positivity) hWWpos.le)
  have hq := (hW2.div hWW (pow_pos h1u _).le (by positivity) hW20 hWWpos).round
    fl u hu0 hu1.le hfl (by positivity) (div_nonneg hW20 hWWpos.le)
  refine hq.mono (div_nonneg hW20 hWWpos.le) (le_of_eq ?_) (le_of_eq ?_)
  · rw [div_mul_eq_mul_div]; congr 1 <;> ring
  · rw [div_mul_eq_mul_div]; congr 1 <;> ring

section tree
variable {r : Rnd2 K} [FloatOps (RF2 r)]

/-- one merge of two `WeightedMean` states whose weight sums are within `i`, `j` roundings: the result is
within `k` roundings as soon as `i, j ≤ k` and, *when both stored sums are non-zero* (the only case in
which `merge` performs an addition), `max i j + 1 ≤ k` -/
theorem merge_wsum_MB (heq : ValEqb r) (hu1 : r.u < 1) (a b : WeightedMean (RF2 r)) (Wa Wb : K)
    (i j k : ℕ) (hWa : 0 ≤ Wa) (hWb : 0 ≤ Wb)
    (ha : MB ((1 - r.u)^i) ((1 + r.u)^i) a.weight_sum.val Wa)
    (hb : MB ((1 - r.u)^j) ((1 + r.u)^j) b.weight_sum.val Wb)
    (hik : i ≤ k) (hjk : j ≤ k)
    (hnz : a.weight_sum.val ≠ 0 → b.weight_sum.val ≠ 0 → max i j + 1 ≤ k) :
    MB ((1 - r.u)^k) ((1 + r.u)^k) (a.merge b).weight_sum.val (Wa + Wb) := by
  have hu0 := r.u_nonneg
  have h1u : 0 < 1 - r.u := by linarith
  have h0K : ((0:Nat) : K) = 0 := Nat.cast_zero
  have hemp : ∀ s : WeightedMean (RF2 r), s.isEmpty = true ↔ s.weight_sum.val = 0 := by
    intro s; unfold WeightedMean.isEmpty; rw [heq]
    show s.weight_sum.val = ((0:Nat) : K) ↔ _; rw [h0K]
  have hzero : ∀ (m : ℕ) (c W' : K), 0 ≤ W' → MB ((1 - r.u)^m) ((1 + r.u)^m) c W' → c = 0 → W' = 0 := by
    intro m c W' hW' h hc
    have := h.1; rw [hc] at this
    have hlo : 0 < (1 - r.u)^m := pow_pos h1u m
    nlinarith
  have hup : ∀ (m : ℕ) (c W' : K), m ≤ k → 0 ≤ W' → MB ((1 - r.u)^m) ((1 + r.u)^m) c W' →
      MB ((1 - r.u)^k) ((1 + r.u)^k) c W' := fun m c W' hm hW' h =>
    h.mono hW' (pow_one_sub_le_pow r.u hu0 hu1.le hm) (pow_one_add_le_pow r.u hu0 hm)
  by_cases hbz : b.weight_sum.val = 0
  · rw [WeightedMean.merge_empty a b ((hemp b).mpr hbz), hzero j _ _ hWb hb hbz, add_zero]
    exact hup i _ _ hik hWa ha
  have hbne : b.isEmpty = false := by
    cases h : b.isEmpty
    · rfl
    · exact absurd ((hemp b).mp h) hbz
  by_cases haz : a.weight_sum.val = 0
  · rw [WeightedMean.empty_merge a b ((hemp a).mpr haz) hbne, hzero i _ _ hWa ha haz, zero_add]
    exact hup j _ _ hjk hWb hb
  have hm := hnz haz hbz
  have hi : i ≤ max i j := le_max_left _ _
  have hj : j ≤ max i j := le_max_right _ _
  have := wmean_merge_wsum_MB heq hu1 a b Wa Wb (max i j) hWa hWb
    (ha.mono hWa (pow_one_sub_le_pow r.u hu0 hu1.le hi) (pow_one_add_le_pow r.u hu0 hi))
    (hb.mono hWb (pow_one_sub_le_pow r.u hu0 hu1.le hj) (pow_one_add_le_pow r.u hu0 hj))
  exact hup _ _ _ hm (add_nonneg hWa hWb) this

/-- **`weight_sum` through every merge tree: `n` roundings.** Weights `≥ 0`, `u < 1`:
`(1-u)^n·Σw ≤ weight_sum ≤ (1+u)^n·Σw` for every tree over `n` observations (any shape, empty chunks and
chunks of total weight zero included). -/
theorem tree_wsum_MB (heq : ValEqb r) (hu1 : r.u < 1) (t : MTree (RF2 r × RF2 r))
    (hw : ∀ p ∈ t.flatten, 0 ≤ p.2.val) :
    0 ≤ W (pairVals t.flatten) ∧
    MB ((1 - r.u)^t.flatten.length) ((1 + r.u)^t.flatten.length)
      (WeightedMean.evalTree t).weight_sum.val (W (pairVals t.flatten)) := by
  induction t with
  | leaf ps => exact wsum_fold_MB hu1.le ps hw
  | node l rt ihl ihr =>
    have hwl : ∀ p ∈ l.flatten, 0 ≤ p.2.val := fun p hp => hw p (List.mem_append_left _ hp)
    have hwr : ∀ p ∈ rt.flatten, 0 ≤ p.2.val := fun p hp => hw p (List.mem_append_right _ hp)
    obtain ⟨l0, lW⟩ := ihl hwl
    obtain ⟨r0, rW⟩ := ihr hwr
    rw [MTree.flatten_node, pairVals_append, W_append, List.length_append]
    refine ⟨add_nonneg l0 r0, ?_⟩
    -- a stored sum that is not zero needs an observation
    have hobs : ∀ (s : MTree (RF2 r × RF2 r)),
        MB ((1 - r.u)^s.flatten.length) ((1 + r.u)^s.flatten.length)
          (WeightedMean.evalTree s).weight_sum.val (W (pairVals s.flatten)) →
        (WeightedMean.evalTree s).weight_sum.val ≠ 0 → 1 ≤ s.flatten.length := by
      intro s hs hne
      by_contra hlt
      have h0 : s.flatten = [] := List.length_eq_zero_iff.mp (by omega)
      rw [h0] at hs
      have e : W (pairVals ([] : List (RF2 r × RF2 r))) = 0 := by simp [pairVals]
      rw [e] at hs
      have h1 := hs.1
      have h2 := hs.2
      rw [mul_zero] at h1 h2
      exact hne (le_antisymm h2 h1)
    show MB _ _ ((WeightedMean.evalTree l).merge (WeightedMean.evalTree rt)).weight_sum.val _
    refine merge_wsum_MB heq hu1 _ _ _ _ _ _ _ l0 r0 lW rW (Nat.le_add_right _ _) (Nat.le_add_left _ _) ?_
    intro ha hb
    have h1 := hobs l lW ha
    have h2 := hobs rt rW hb
    omega

/-- **`weight_sum_sq` through every merge tree: `n + e + 1` roundings**, `e` the number of empty chunks. -/
theorem tree_wsumsq_MB (heq : ValEqb r) (hu1 : r.u < 1) (t : MTree (RF2 r × RF2 r))
    (hw : ∀ p ∈ t.flatten, 0 ≤ p.2.val) :
    0 ≤ W2 (pairVals t.flatten) ∧
    MB ((1 - r.u)^(t.flatten.length + t.emptyLeaves + 1)) ((1 + r.u)^(t.flatten.length + t.emptyLeaves + 1))
      (WeightedMeanWithError.evalTree t).weight_sum_sq.val (W2 (pairVals t.flatten)) := by
  obtain ⟨_, hW20, _, hW2⟩ := tree_sums_MB heq hu1 t hw
  exact ⟨hW20, hW2.mono hW20 (pow_one_sub_le_pow r.u r.u_nonneg hu1.le t.rounds_le_obs_empty)
    (pow_one_add_le_pow r.u r.u_nonneg t.rounds_le_obs_empty)⟩

/-- **`effective_len` through every merge tree, multiplicative form in `n` and `e`.** -/
theorem efflen_tree_MB_n (heq : ValEqb r) (hu1 : r.u < 1) (t : MTree (RF2 r × RF2 r))
    (hw : ∀ p ∈ t.flatten, 0 ≤ p.2.val) (hpos : 0 < W (pairVals t.flatten)) :
    MB ((1 - r.u)^(2 * t.flatten.length + 2) / (1 + r.u)^(t.flatten.length + t.emptyLeaves + 1))
       ((1 + r.u)^(2 * t.flatten.length + 2) / (1 - r.u)^(t.flatten.length + t.emptyLeaves + 1))
       (WeightedMeanWithError.evalTree t).effectiveLen.val
       (W (pairVals t.flatten) * W (pairVals t.flatten) / W2 (pairVals t.flatten)) := by
  have hne : t.flatten ≠ [] := by intro h; rw [h] at hpos; simp [pairVals] at hpos
  rw [efflen_tree_val t hne, WeightedMeanWithError.mtree_weighted_avg]
  exact efflen_of_MB r.fl r.u r.u_nonneg hu1 r.err _ _ _ _ _ _ hpos (W2_pos hpos.ne')
    (tree_wsum_MB heq hu1 t hw).2 (tree_wsumsq_MB heq hu1 t hw).2

/-- **the factor `fl(Ŵ2/fl(Ŵ·Ŵ))` of `variance_of_weighted_mean` through every merge tree** -/
theorem invefflen_tree_MB_n (heq : ValEqb r) (hu1 : r.u < 1) (t : MTree (RF2 r × RF2 r))
    (hw : ∀ p ∈ t.flatten, 0 ≤ p.2.val) (hpos : 0 < W (pairVals t.flatten)) :
    MB ((1 - r.u)^(t.flatten.length + t.emptyLeaves + 1 + 1) / (1 + r.u)^(2 * t.flatten.length + 1))
       ((1 + r.u)^(t.flatten.length + t.emptyLeaves + 1 + 1) / (1 - r.u)^(2 * t.flatten.length + 1))
       (r.fl ((WeightedMeanWithError.evalTree t).weight_sum_sq.val
          / r.fl ((WeightedMean.evalTree t).weight_sum.val * (WeightedMean.evalTree t).weight_sum.val)))
       (W2 (pairVals t.flatten) / (W (pairVals t.flatten) * W (pairVals t.flatten))) :=
  invefflen_of_MB r.fl r.u r.u_nonneg hu1 r.err _ _ _ _ _ _ hpos (tree_wsumsq_MB heq hu1 t hw).1
    (tree_wsum_MB heq hu1 t hw).2 (tree_wsumsq_MB heq hu1 t hw).2

end tree
end WMergeErr

#print axioms WMergeErr.tree_wsum_MB
#print axioms WMergeErr.tree_wsumsq_MB
#print axioms WMergeErr.efflen_tree_MB_n
#print axioms WMergeErr.invefflen_tree_MB_n
