import AvgProofs.SkewMergeErrTree
import AvgProofs.VarMergeErrLin

/-!
# Forward error of `sum_3` through every merge tree: numerals

* `SkewMerge.skew_mtree_error_sym`: symbolic in the budget `B` of the mean - for `n·T ≤ R₀²`
  `|sum_3 - U| ≤ (1+u)^(3n)·(15·u·n·V3T + 6·B·n·T + (27/5)·B²·n²·R₀ + (33/20)·B³·n⁴)`.
* `SkewMerge.skew_mtree_error_lin`: `(n+28)·u ≤ 1/64`, `|x| ≤ M`:
  `|sum_3 - U| ≤ 16·n·u·V3T + 65·n·u·M·T + 596·n²·u²·M²·R₀ + 1865·n⁴·u³·M³`.
* `SkewMerge.skew_mtree_envelope`: moreover `T ≤ n·σ²`, `n·u·M ≤ σ`:
  `|sum_3 - U| ≤ 16·n·u·V3T + 2526·n²·u·M·σ²` - linear in the conditioning `M/σ` relative to `n·σ³`.
-/
open Avg MSpec Finset VarSpec SkewSpec SkewErr

namespace SkewMerge
variable {K : Type} [Field K] [LinearOrder K] [IsStrictOrderedRing K]

/-- the leading factor: `(1+u)^(3n) ≤ 64/61` when `n·u ≤ 1/64` -/
theorem lead3_le (u : K) (hu : 0 ≤ u) (n : ℕ) (h : (n : K) * u ≤ 1/64) : (1 + u)^(3 * n) ≤ 64/61 := by
  have h1 := VarMerge.one_add_pow_mul_le u hu (3 * n)
  push_cast at h1
  have hp : 0 ≤ (1 + u)^(3 * n) := by positivity
  nlinarith

/-- **Every merge tree, symbolic in the budget `B` of the mean.** Hypotheses on `B` as in
`mean_mtree_error_gen`; `u ≤ 1/1856`, `n·u ≤ 1/64`; any `R₀ ≥ 0` with `n·T ≤ R₀²`. -/
theorem skew_mtree_error_sym (r : Rnd2 K) (M B : K) (hM : 0 ≤ M) (hu' : r.u ≤ 1/1856)
    (hB : 2 * M * (2 * ((2*r.u + r.u^2) * (1 + r.u)) + r.u) ≤ B) (t : MTree (RF2 r))
    (hne : t.flatten ≠ [])
    (hb : ∀ x ∈ t.flatten, |x.val| ≤ M)
    (hnu : (t.flatten.length : K) * r.u ≤ 1/64)
    (hs2 : 5 * r.u * (M + B * (t.flatten.length : K)) ≤ B)
    (R₀ : K) (hR : 0 ≤ R₀) (hRT : (t.flatten.length : K) * T (t.flatten.map RF2.val) ≤ R₀^2) :
    |(Skewness.evalTree t).sum_3.val - U (t.flatten.map RF2.val)|
      ≤ (1 + r.u)^(3 * t.flatten.length)
          * (15 * r.u * (t.flatten.length : K) * V3T (t.map RF2.val)
              + 6 * B * (t.flatten.length : K) * T (t.flatten.map RF2.val)
              + 27/5 * B^2 * (t.flatten.length : K)^2 * R₀
              + 33/20 * B^3 * (t.flatten.length : K)^4) := by
  have hu0 := r.u_nonneg
  have hB0 : 0 ≤ B := le_trans (by positivity) hB
  have hn1 : (1 : K) ≤ t.flatten.length := by exact_mod_cast List.length_pos_of_ne_nil hne
  set n : K := (t.flatten.length : K) with hn
  have hnpos : 0 < n := by linarith
  set Tn := T (t.flatten.map RF2.val) with hTn
  have hT0 : 0 ≤ Tn := T_nonneg _
  set V := V3T (t.map RF2.val) with hV
  have hP0 : 0 ≤ (1 + r.u)^(3 * t.flatten.length) := by positivity
  rcases hR.eq_or_lt with h0 | hpos
  · -- R₀ = 0: then T = 0
    have hT : Tn = 0 := by
      rw [← h0] at hRT
      have : n * Tn ≤ 0 := by simpa using hRT
      have h2 : 0 ≤ n * Tn := by positivity
      have h3 : n * Tn = 0 := le_antisymm this h2
      rcases mul_eq_zero.mp h3 with h | h
      · linarith
      · exact h
    have main := skew_mtree_inv r M B 64 (B^2 / 64) hM hu' hB (by norm_num) (by positivity)
      (by rw [mul_div_cancel₀]; norm_num) t hb hnu hs2
    refine le_trans main (mul_le_mul_of_nonneg_left ?_ hP0)
    show G3 r.u B 64 (B^2 / 64) n V Tn
      ≤ 15 * r.u * n * V + 6 * B * n * Tn + 27/5 * B^2 * n^2 * R₀ + 33/20 * B^3 * n^4
    rw [hT, ← h0]
    unfold G3
    have h34 : n^3 ≤ n^4 := by
      have : 0 ≤ n^3 := by positivity
      nlinarith
    have hB3 : 0 ≤ B^3 := by positivity
    have : 27/10 * B * (B^2 / 64) * n^3 ≤ 27/640 * B^3 * n^4 := by
      have : 27/10 * B * (B^2 / 64) * n^3 = 27/640 * B^3 * n^3 := by ring
      rw [this]; gcongr
    have h4 : 0 ≤ B^3 * n^4 := by positivity
    simp only [mul_zero, add_zero]
    linarith
  · -- R₀ > 0
    have main := skew_mtree_inv r M B (B * n / R₀) (B * R₀ / n) hM hu' hB (by positivity)
      (by positivity) (by
        have : B * n / R₀ * (B * R₀ / n) = B^2 := by field_simp
        rw [this]) t hb hnu hs2
    refine le_trans main (mul_le_mul_of_nonneg_left ?_ hP0)
    show G3 r.u B (B * n / R₀) (B * R₀ / n) n V Tn
      ≤ 15 * r.u * n * V + 6 * B * n * Tn + 27/5 * B^2 * n^2 * R₀ + 33/20 * B^3 * n^4
    unfold G3
    have h1 : 27/10 * B * (B * n / R₀) * n^2 * Tn ≤ 27/10 * B^2 * n^2 * R₀ := by
      have : 27/10 * B * (B * n / R₀) * n^2 * Tn = 27/10 * B^2 * n^2 * (n * Tn) / R₀ := by
        field_simp
      rw [this, div_le_iff₀ hpos]
      calc 27/10 * B^2 * n^2 * (n * Tn) ≤ 27/10 * B^2 * n^2 * R₀^2 := by gcongr
        _ = 27/10 * B^2 * n^2 * R₀ * R₀ := by ring
    have h2 : 27/10 * B * (B * R₀ / n) * n^3 = 27/10 * B^2 * n^2 * R₀ := by field_simp
    have h3 : 8/5 * B^3 * n^4 ≤ 33/20 * B^3 * n^4 := by
      have : 0 ≤ B^3 * n^4 := by positivity
      linarith
    linarith

/-- numerals of `skew_mtree_error_lin` -/
theorem mtree3_lin_arith (P B u M n V Tn R₀ : K) (hu : 0 ≤ u) (hM : 0 ≤ M) (hn : 0 ≤ n) (hV : 0 ≤ V)
    (hT : 0 ≤ Tn) (hR : 0 ≤ R₀) (hP : P ≤ 64/61) (hB : B = 41/4 * u * M) :
    P * (15 * u * n * V + 6 * B * n * Tn + 27/5 * B^2 * n^2 * R₀ + 33/20 * B^3 * n^4)
      ≤ 16 * n * u * V + 65 * n * u * M * Tn + 596 * n^2 * u^2 * M^2 * R₀
        + 1865 * n^4 * u^3 * M^3 := by
  have a1 : 0 ≤ n * u * V := by positivity
  have a2 : 0 ≤ n * u * M * Tn := by positivity
  have a3 : 0 ≤ n^2 * u^2 * M^2 * R₀ := by positivity
  have a4 : 0 ≤ n^4 * u^3 * M^3 := by positivity
  have h0 : 0 ≤ 15 * u * n * V + 6 * B * n * Tn + 27/5 * B^2 * n^2 * R₀ + 33/20 * B^3 * n^4 := by
    rw [hB]; positivity
  calc P * (15 * u * n * V + 6 * B * n * Tn + 27/5 * B^2 * n^2 * R₀ + 33/20 * B^3 * n^4)
      ≤ 64/61 * (15 * u * n * V + 6 * B * n * Tn + 27/5 * B^2 * n^2 * R₀ + 33/20 * B^3 * n^4) := by
        gcongr
    _ = 64/61 * 15 * (n * u * V) + 64/61 * 6 * 41/4 * (n * u * M * Tn)
          + 64/61 * 27/5 * (41/4)^2 * (n^2 * u^2 * M^2 * R₀)
          + 64/61 * 33/20 * (41/4)^3 * (n^4 * u^3 * M^3) := by rw [hB]; ring
    _ ≤ 16 * (n * u * V) + 65 * (n * u * M * Tn) + 596 * (n^2 * u^2 * M^2 * R₀)
          + 1865 * (n^4 * u^3 * M^3) := by
        have : (64:K)/61 * 15 ≤ 16 := by norm_num
        have : (64:K)/61 * 6 * 41/4 ≤ 65 := by norm_num
        have : (64:K)/61 * 27/5 * (41/4)^2 ≤ 596 := by norm_num
        have : (64:K)/61 * 33/20 * (41/4)^3 ≤ 1865 := by norm_num
        gcongr
    _ = _ := by ring

/-- **Forward error of `sum_3` through every merge tree.** Standard model of rounding with unit roundoff `u`;
every merge tree `t` (any shape, any chunk sizes, empty chunks included; leaves folded with `Skewness.add`,
nodes merged with `Skewness.merge`) over `n` observations with `|x| ≤ M` and `(n+28)·u ≤ 1/64`;
`U = Σ(x - mean)³`, `T = Σ(x - mean)²` of the concatenated data; `V3T` the scale of the tree; any `R₀ ≥ 0` with
`n·T ≤ R₀²`:
`|sum_3 - U| ≤ 16·n·u·V3T + 65·n·u·M·T + 596·n²·u²·M²·R₀ + 1865·n⁴·u³·M³`. -/
theorem skew_mtree_error_lin (r : Rnd2 K) (M : K) (hM : 0 ≤ M) (t : MTree (RF2 r))
    (hb : ∀ x ∈ t.flatten, |x.val| ≤ M) (hsmall : ((t.flatten.length : K) + 28) * r.u ≤ 1/64)
    (R₀ : K) (hR : 0 ≤ R₀) (hRT : (t.flatten.length : K) * T (t.flatten.map RF2.val) ≤ R₀^2) :
    |(Skewness.evalTree t).sum_3.val - U (t.flatten.map RF2.val)|
      ≤ 16 * (t.flatten.length : K) * r.u * V3T (t.map RF2.val)
        + 65 * (t.flatten.length : K) * r.u * M * T (t.flatten.map RF2.val)
        + 596 * (t.flatten.length : K)^2 * r.u^2 * M^2 * R₀
        + 1865 * (t.flatten.length : K)^4 * r.u^3 * M^3 := by
  have hu := r.u_nonneg
  by_cases hnil : t.flatten = []
  · rw [Skewness.mtree_eval_empty t hnil, hnil]
    have h0 : (Skewness.new : Skewness (RF2 r)).sum_3.val = 0 :=
      (Nat.cast_zero : ((0 : ℕ) : K) = 0)
    simp [h0, U_nil]
  have hn1 : (1 : K) ≤ t.flatten.length := by exact_mod_cast List.length_pos_of_ne_nil hnil
  have hnu : (t.flatten.length : K) * r.u ≤ 1/64 := by nlinarith
  have hu' : r.u ≤ 1/1856 := by nlinarith
  have hu64 : r.u ≤ 1/64 := by linarith
  have hBle := VarErr.B_le r.u M hu hM hu64
  have huM : 0 ≤ r.u * M := by positivity
  have main := skew_mtree_error_sym r M (41/4 * r.u * M) hM hu' hBle t hnil hb hnu
    (by
      have h1 : 5 * r.u * (M + 41/4 * r.u * M * (t.flatten.length : K))
          = 5 * (r.u * M) + 205/4 * ((r.u * M) * ((t.flatten.length : K) * r.u)) := by ring
      have h2 : (r.u * M) * ((t.flatten.length : K) * r.u) ≤ (r.u * M) * (1/64) := by gcongr
      rw [h1]; linarith) R₀ hR hRT
  refine le_trans main ?_
  exact mtree3_lin_arith _ (41/4 * r.u * M) r.u M _ _ _ R₀ hu hM (by linarith) (V3T_nonneg _)
    (T_nonneg _) hR (lead3_le r.u hu _ hnu) rfl

/-- **Envelope form, linear in the conditioning.** If moreover `σ ≥ 0` with `T ≤ n·σ²` and `n·u·M ≤ σ`, then
`|sum_3 - U| ≤ 16·n·u·V3T + 2526·n²·u·M·σ²` - that is `2526·n·u·(M/σ)` relative to the scale `n·σ³`. -/
theorem skew_mtree_envelope (r : Rnd2 K) (M : K) (hM : 0 ≤ M) (t : MTree (RF2 r))
    (hb : ∀ x ∈ t.flatten, |x.val| ≤ M) (hsmall : ((t.flatten.length : K) + 28) * r.u ≤ 1/64)
    (σ : K) (hσ : 0 ≤ σ) (hvar : T (t.flatten.map RF2.val) ≤ (t.flatten.length : K) * σ^2)
    (hcond : (t.flatten.length : K) * r.u * M ≤ σ) :
    |(Skewness.evalTree t).sum_3.val - U (t.flatten.map RF2.val)|
      ≤ 16 * (t.flatten.length : K) * r.u * V3T (t.map RF2.val)
        + 2526 * (t.flatten.length : K)^2 * r.u * M * σ^2 := by
  have hu := r.u_nonneg
  set n : K := (t.flatten.length : K) with hn
  have hn0 : 0 ≤ n := Nat.cast_nonneg _
  have hT0 := T_nonneg (t.flatten.map RF2.val)
  have hRT : n * T (t.flatten.map RF2.val) ≤ (n * σ)^2 := by
    calc n * T (t.flatten.map RF2.val) ≤ n * (n * σ^2) := by gcongr
      _ = (n * σ)^2 := by ring
  have main := skew_mtree_error_lin r M hM t hb hsmall (n * σ) (by positivity) hRT
  refine le_trans main ?_
  have hnuM0 : 0 ≤ n * r.u * M := by positivity
  have b2 : 65 * n * r.u * M * T (t.flatten.map RF2.val) ≤ 65 * n^2 * r.u * M * σ^2 := by
    calc 65 * n * r.u * M * T (t.flatten.map RF2.val) ≤ 65 * n * r.u * M * (n * σ^2) := by gcongr
      _ = 65 * n^2 * r.u * M * σ^2 := by ring
  have b3 : 596 * n^2 * r.u^2 * M^2 * (n * σ) ≤ 596 * n^2 * r.u * M * σ^2 := by
    calc 596 * n^2 * r.u^2 * M^2 * (n * σ) = 596 * n^2 * r.u * M * σ * (n * r.u * M) := by ring
      _ ≤ 596 * n^2 * r.u * M * σ * σ := by gcongr
      _ = 596 * n^2 * r.u * M * σ^2 := by ring
  have b4 : 1865 * n^4 * r.u^3 * M^3 ≤ 1865 * n^2 * r.u * M * σ^2 := by
    calc 1865 * n^4 * r.u^3 * M^3 = 1865 * n^2 * r.u * M * ((n * r.u * M) * (n * r.u * M)) := by ring
      _ ≤ 1865 * n^2 * r.u * M * (σ * σ) := by gcongr
      _ = 1865 * n^2 * r.u * M * σ^2 := by ring
  linarith

end SkewMerge

#print axioms SkewMerge.skew_mtree_error_sym
#print axioms SkewMerge.skew_mtree_error_lin
#print axioms SkewMerge.skew_mtree_envelope
