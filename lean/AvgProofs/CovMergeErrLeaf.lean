import AvgProofs.CovErr
import AvgProofs.CovErrLin
import AvgProofs.CovMergeErrArith
import AvgProofs.CovMergeErrSpec

/-!
# The leaves of the merge-tree induction for `sum_prod`: the add-only bound for any budgets of the means

* `CovMerge.cov_fold_error_Bgen`: the add-only bound of `CovErr.cov_fold_error_gen` in terms of
  `Gxy` (the sum of the absolute exact increments, not yet bounded by `sqrt(T_x·T_y)`), for any
  per-observation budgets `Bx ≥ 2Mx(2w+u)`, `By ≥ 2My(2w+u)` of the running means, with the `y`-mean of
  the *first* pair treated separately (`ε` any bound on `|avg_y after the first pair - y_0|`):
  `|sum_prod - C| ≤ (1+u)^n·((γ₃+n·u)·Gxy + (1+γ₃)·(RA + RB + ε·Mx + Bx·By·n³/3))`
  for `Bx²·(n³/3)·T_y ≤ RA²`, `By²·2n³·T_x ≤ RB²`.
* `CovMerge.leaf_inv`: that bound is below `(1+u)^(2n)·GC(n, Gxy, T_x, T_y, 1)` (`CovMerge.GC`).
-/
open Avg MSpec Finset VarSpec CovSpec CovErr

namespace CovMerge
variable {K : Type} [Field K] [LinearOrder K] [IsStrictOrderedRing K]

/-- bound on the error of the running `y`-mean after `i` pairs: `ε` after the first pair, `By·i`
otherwise -/
def EyB (By ε : K) (i : ℕ) : K := if i = 1 then ε else By * (i : K)

theorem EyB_nonneg {By ε : K} (hB : 0 ≤ By) (hε : 0 ≤ ε) (i : ℕ) : 0 ≤ EyB By ε i := by
  unfold EyB; split_ifs <;> positivity

omit [LinearOrder K] [IsStrictOrderedRing K] in
/-- the weighted form of `EyB (i+1)` does not see the first pair -/
theorem lift_EyB (By ε : K) (i : ℕ) :
    lift (fun j => EyB By ε (j + 1)) i = lift (fun j => By * ((j + 1 : ℕ) : K)) i := by
  unfold lift
  by_cases h : i = 0
  · simp [h]
  · have h' : i + 1 ≠ 1 := by omega
    simp only [h, if_false, EyB, h']

/-- the hypotheses of the general theorem for the `y`-means, with the first pair treated separately -/
theorem mean_prefix_y_eps (r : Rnd2 K) (M By : K) (hM : 0 ≤ M) (hBy : Bm r.u M ≤ By)
    (ps : List (RF2 r × RF2 r)) (hb : ∀ p ∈ ps, |p.2.val| ≤ M)
    (hsmall : (2*r.u + r.u^2) * (1 + r.u) + ps.length * r.u ≤ 1/2) (ε : K)
    (h1 : ∀ p, ps.head? = some p →
      |((Covariance.new : Covariance (RF2 r)).add p.1 p.2).avg_y.val - p.2.val| ≤ ε) :
    ∀ qs, qs <+: ps →
      |(qs.foldl (fun (s : Covariance (RF2 r)) p => s.add p.1 p.2) Covariance.new).avg_y.val
          - mean (snds (vals qs))| ≤ EyB By ε qs.length := by
  intro qs hqs
  by_cases hl : qs.length = 1
  · obtain ⟨p, rfl⟩ := List.length_eq_one_iff.mp hl
    have hhead : ps.head? = some p := by
      obtain ⟨t, rfl⟩ := hqs
      rfl
    have := h1 p hhead
    have hm : mean (snds (vals [p])) = p.2.val := by simp [vals, snds, mean]
    rw [hm]
    simp only [List.foldl_cons, List.foldl_nil, List.length_singleton, EyB]
    simpa using this
  · have h := mean_prefix_y r M hM ps hb hsmall qs hqs
    have he : EyB By ε qs.length = By * (qs.length : K) := by
      unfold EyB; simp only [hl, if_false]
    rw [he]
    refine le_trans h ?_
    have : (0 : K) ≤ qs.length := Nat.cast_nonneg _
    gcongr

/-- the hypotheses of the general theorem for the `x`-means, any budget -/
theorem mean_prefix_x_gen (r : Rnd2 K) (M Bx : K) (hM : 0 ≤ M) (hBx : Bm r.u M ≤ Bx)
    (ps : List (RF2 r × RF2 r)) (hb : ∀ p ∈ ps, |p.1.val| ≤ M)
    (hsmall : (2*r.u + r.u^2) * (1 + r.u) + ps.length * r.u ≤ 1/2) :
    ∀ qs, qs <+: ps →
      |(qs.foldl (fun (s : Covariance (RF2 r)) p => s.add p.1 p.2) Covariance.new).avg_x.val
          - mean (fsts (vals qs))| ≤ Bx * (qs.length : K) := by
  intro qs hqs
  refine le_trans (mean_prefix_x r M hM ps hb hsmall qs hqs) ?_
  have : (0 : K) ≤ qs.length := Nat.cast_nonneg _
  gcongr

/-- **The add-only bound in terms of `Gxy`, any budgets of the means, first pair separate.** -/
theorem cov_fold_error_Bgen (r : Rnd2 K) (Mx My Bx By : K) (hMx : 0 ≤ Mx) (hMy : 0 ≤ My)
    (hBx : Bm r.u Mx ≤ Bx) (hBy : Bm r.u My ≤ By)
    (ps : List (RF2 r × RF2 r))
    (hbx : ∀ p ∈ ps, |p.1.val| ≤ Mx) (hby : ∀ p ∈ ps, |p.2.val| ≤ My)
    (hsmall : (2*r.u + r.u^2) * (1 + r.u) + ps.length * r.u ≤ 1/2)
    (ε : K) (hε : 0 ≤ ε)
    (h1 : ∀ p, ps.head? = some p →
      |((Covariance.new : Covariance (RF2 r)).add p.1 p.2).avg_y.val - p.2.val| ≤ ε)
    (RA RB : K) (hRA : 0 ≤ RA) (hRB : 0 ≤ RB)
    (hA : Bx^2 * ((ps.length : K)^3 / 3) * T (snds (vals ps)) ≤ RA^2)
    (hB : By^2 * (2 * (ps.length : K)^3) * T (fsts (vals ps)) ≤ RB^2) :
    |(ps.foldl (fun (s : Covariance (RF2 r)) p => s.add p.1 p.2) Covariance.new).sum_prod.val
        - Cxy (vals ps)|
      ≤ (1 + r.u)^ps.length *
          ((gam3 r.u + ps.length * r.u) * Gxy (vals ps)
            + (1 + gam3 r.u) * (RA + RB + ε * Mx + Bx * By * ((ps.length : K)^3 / 3))) := by
  have hu := r.u_nonneg
  have hBx0 : 0 ≤ Bx := le_trans (Bm_nonneg hu hMx) hBx
  have hBy0 : 0 ≤ By := le_trans (Bm_nonneg hu hMy) hBy
  have hTx0 := T_nonneg (fsts (vals ps))
  have hTy0 := T_nonneg (snds (vals ps))
  have hlen := vals_length ps
  have hsumA : ∑ i ∈ range ps.length, (Bx * (i : K))^2 ≤ Bx^2 * ((ps.length : K)^3 / 3) := by
    have h := VarSpec.sum_sq_le (K := K) ps.length
    calc ∑ i ∈ range ps.length, (Bx * (i : K))^2 = Bx^2 * ∑ i ∈ range ps.length, ((i : K))^2 := by
          rw [mul_sum]; apply sum_congr rfl; intro i _; ring
      _ ≤ Bx^2 * ((ps.length : K)^3 / 3) := by gcongr
  have hsumB : ∑ i ∈ range ps.length, (lift (fun j => EyB By ε (j + 1)) i)^2
      ≤ By^2 * (2 * (ps.length : K)^3) := by
    have := sum_lift_sq_le By hBy0 ps.length
    refine le_trans (le_of_eq ?_) this
    apply sum_congr rfl; intro i _; rw [lift_EyB]
  have hsumC : ∑ i ∈ range ps.length, Bx * (i : K) * EyB By ε (i + 1)
      ≤ Bx * By * ((ps.length : K)^3 / 3) := by
    have h := sum_mul_succ_le (K := K) ps.length
    have hpt : ∀ i ∈ range ps.length, Bx * (i : K) * EyB By ε (i + 1)
        = (Bx * By) * ((i : K) * ((i : K) + 1)) := by
      intro i _
      unfold EyB
      by_cases h0 : i = 0
      · simp [h0]
      · have h' : i + 1 ≠ 1 := by omega
        simp only [h', if_false]
        push_cast; ring
    rw [sum_congr rfl hpt, ← mul_sum]
    gcongr
  have hd0 : |dev (fsts (vals ps)) 0| ≤ Mx := by
    apply abs_dev_zero_le _ Mx hMx
    intro v hv
    rw [fsts_vals, List.mem_map] at hv
    obtain ⟨x, hx, rfl⟩ := hv
    rw [List.mem_map] at hx
    obtain ⟨p, hp, rfl⟩ := hx
    exact hbx p hp
  have hgen := cov_fold_error_gen r (fun i => Bx * (i : K)) (EyB By ε)
    (fun i => by positivity) (EyB_nonneg hBy0 hε) ps
    (mean_prefix_x_gen r Mx Bx hMx hBx ps hbx hsmall)
    (mean_prefix_y_eps r My By hMy hBy ps hby hsmall ε h1)
  refine le_trans hgen ?_
  have hc := crossXY_le (fun i => Bx * (i : K)) (EyB By ε) (EyB_nonneg hBy0 hε) (vals ps) RA RB
    hRA hRB (by rw [hlen]; exact le_trans (by gcongr) hA)
    (by rw [hlen]; exact le_trans (by gcongr) hB)
  rw [hlen] at hc
  have hE1 : EyB By ε 1 * |dev (fsts (vals ps)) 0| ≤ ε * Mx := by
    have : EyB By ε 1 = ε := by simp [EyB]
    rw [this]; gcongr
  have hg := gam3_nonneg hu
  have hcc : crossXY (fun i => Bx * (i : K)) (EyB By ε) (vals ps)
      ≤ RA + RB + ε * Mx + Bx * By * ((ps.length : K)^3 / 3) := by linarith
  gcongr

/-- the leaf case of the tree induction: the add-only bound is below the envelope with `L = 1` -/
theorem leaf_inv (r : Rnd2 K) (Mx My Bx By Λ₁ κ₁ Λ₂ κ₂ ε : K) (hMx : 0 ≤ Mx) (hMy : 0 ≤ My)
    (hu64 : r.u ≤ 1/64) (hBx : Bm r.u Mx ≤ Bx) (hBy : Bm r.u My ≤ By)
    (hΛ₁ : 0 ≤ Λ₁) (hκ₁ : 0 ≤ κ₁) (hΛ₂ : 0 ≤ Λ₂) (hκ₂ : 0 ≤ κ₂)
    (h1 : Bx^2 ≤ Λ₁ * κ₁) (h2 : By^2 ≤ Λ₂ * κ₂) (hε : 0 ≤ ε)
    (ps : List (RF2 r × RF2 r)) (hne : ps ≠ [])
    (hbx : ∀ p ∈ ps, |p.1.val| ≤ Mx) (hby : ∀ p ∈ ps, |p.2.val| ≤ My)
    (hsmall : (2*r.u + r.u^2) * (1 + r.u) + ps.length * r.u ≤ 1/2)
    (hfirst : ∀ p, ps.head? = some p →
      |((Covariance.new : Covariance (RF2 r)).add p.1 p.2).avg_y.val - p.2.val| ≤ ε) :
    |(ps.foldl (fun (s : Covariance (RF2 r)) p => s.add p.1 p.2) Covariance.new).sum_prod.val
        - Cxy (vals ps)|
      ≤ (1 + r.u)^(2 * ps.length)
          * GC r.u Bx By Λ₁ κ₁ Λ₂ κ₂ (ε * Mx) (ps.length : K) (Gxy (vals ps))
              (T (fsts (vals ps))) (T (snds (vals ps))) 1 := by
  have hu := r.u_nonneg
  have hBx0 : 0 ≤ Bx := le_trans (Bm_nonneg hu hMx) hBx
  have hBy0 : 0 ≤ By := le_trans (Bm_nonneg hu hMy) hBy
  have hn1 : (1 : K) ≤ ps.length := by exact_mod_cast List.length_pos_of_ne_nil hne
  set n : K := (ps.length : K) with hn
  have hn0 : 0 ≤ n := by linarith
  set Tx := T (fsts (vals ps)) with hTx
  set Ty := T (snds (vals ps)) with hTy
  have hTx0 : 0 ≤ Tx := T_nonneg _
  have hTy0 : 0 ≤ Ty := T_nonneg _
  have hG0 := Gxy_nonneg (vals ps)
  have hg0 := gam3_nonneg hu
  have hgle := gam3_le r.u hu hu64
  have hg1 : 1 + gam3 r.u ≤ 1073/1024 := by linarith
  have hg2 : (1 + gam3 r.u)^2 ≤ 9/8 := by
    calc (1 + gam3 r.u)^2 ≤ (1073/1024)^2 := by gcongr
      _ ≤ 9/8 := by norm_num
  obtain ⟨hRA0, hRAT, hRAe⟩ := leaf_R (2/5) (1/3) Λ₁ κ₁ Bx n Ty (gam3 r.u) (by norm_num) hΛ₁ hκ₁
    hn0 hTy0 hg0 (by nlinarith) h1
  obtain ⟨hRB0, hRBT, hRBe⟩ := leaf_R (3/4) 2 Λ₂ κ₂ By n Tx (gam3 r.u) (by norm_num) hΛ₂ hκ₂
    hn0 hTx0 hg0 (by nlinarith) h2
  set RA := (2/5 * Λ₁ * n * Ty + 2/5 * κ₁ * n^2) / (1 + gam3 r.u) with hRAdef
  set RB := (3/4 * Λ₂ * n * Tx + 3/4 * κ₂ * n^2) / (1 + gam3 r.u) with hRBdef
  have main := cov_fold_error_Bgen r Mx My Bx By hMx hMy hBx hBy ps hbx hby hsmall ε hε hfirst
    RA RB hRA0 hRB0 (by rw [show (n^3 / 3 : K) = 1/3 * n^3 by ring]; exact hRAT) hRBT
  refine le_trans main ?_
  have hE0 : 0 ≤ ε * Mx := by positivity
  have hGC0 : 0 ≤ GC r.u Bx By Λ₁ κ₁ Λ₂ κ₂ (ε * Mx) n (Gxy (vals ps)) Tx Ty 1 :=
    GC_nonneg _ _ _ _ _ _ _ _ _ _ _ _ _ hu hBx0 hBy0 hΛ₁ hκ₁ hΛ₂ hκ₂ hE0 hn0 hG0 hTx0 hTy0 zero_le_one
  have hP : (1 + r.u)^ps.length ≤ (1 + r.u)^(2 * ps.length) :=
    pow_le_pow_right₀ (by linarith) (by omega)
  have hP0 : 0 ≤ (1 + r.u)^ps.length := by positivity
  have hinner : (gam3 r.u + n * r.u) * Gxy (vals ps)
        + (1 + gam3 r.u) * (RA + RB + ε * Mx + Bx * By * (n^3 / 3))
      ≤ GC r.u Bx By Λ₁ κ₁ Λ₂ κ₂ (ε * Mx) n (Gxy (vals ps)) Tx Ty 1 := by
    have e : (1 + gam3 r.u) * (RA + RB + ε * Mx + Bx * By * (n^3 / 3))
        = (2/5 * Λ₁ * n * Ty + 2/5 * κ₁ * n^2) + (3/4 * Λ₂ * n * Tx + 3/4 * κ₂ * n^2)
          + (1 + gam3 r.u) * (ε * Mx + Bx * By * (n^3 / 3)) := by
      rw [← hRAe, ← hRBe]; ring
    rw [e]
    exact leaf_arith r.u (gam3 r.u) Bx By Λ₁ κ₁ Λ₂ κ₂ (ε * Mx) n (Gxy (vals ps)) Tx Ty hu hn1 hG0
      hBx0 hBy0 hE0 hgle (by linarith)
  calc _ ≤ (1 + r.u)^ps.length * GC r.u Bx By Λ₁ κ₁ Λ₂ κ₂ (ε * Mx) n (Gxy (vals ps)) Tx Ty 1 := by
        gcongr
    _ ≤ (1 + r.u)^(2 * ps.length) * GC r.u Bx By Λ₁ κ₁ Λ₂ κ₂ (ε * Mx) n (Gxy (vals ps)) Tx Ty 1 := by
        gcongr

end CovMerge

#print axioms CovMerge.cov_fold_error_Bgen
#print axioms CovMerge.leaf_inv
