import AvgModel.Weighted
import AvgProofs.MomentsCanon
import Mathlib.Algebra.Order.BigOperators.Ring.Finset
import Mathlib.Algebra.BigOperators.Fin

/-!
# Canonical states of `Covariance`

`coSum ps c d = Σ (x - c)(y - d)`, `canonC ps` = (mean x, Σ(x-mx)², mean y, Σ(y-my)², Σ(x-mx)(y-my), n).
`add` and `merge` map canonical states to canonical states (exact arithmetic, any field of
characteristic 0; `Covariance.add/merge` use no `FloatOps` operation).
-/
open Avg

namespace MSpec
variable {K : Type} [Field K] [CharZero K]

/-- the x-coordinates / y-coordinates of a list of pairs -/
abbrev fsts (ps : List (K × K)) : List K := ps.map Prod.fst
abbrev snds (ps : List (K × K)) : List K := ps.map Prod.snd

/-- Σ (x - c)(y - d) -/
def coSum (ps : List (K × K)) (c d : K) : K := (ps.map (fun p => (p.1 - c) * (p.2 - d))).sum

omit [CharZero K] in
@[simp] theorem coSum_nil (c d : K) : coSum ([] : List (K × K)) c d = 0 := by simp [coSum]
omit [CharZero K] in
@[simp] theorem coSum_cons (p : K × K) (ps) (c d : K) :
    coSum (p :: ps) c d = (p.1 - c) * (p.2 - d) + coSum ps c d := by simp [coSum]
omit [CharZero K] in
theorem coSum_append (ps qs : List (K × K)) (c d : K) :
    coSum (ps ++ qs) c d = coSum ps c d + coSum qs c d := by simp [coSum]

/-- change of centre for the co-moment -/
theorem coSum_shift (ps : List (K × K)) (c d c' d' : K) :
    coSum ps c d = coSum ps c' d' + (c' - c) * sumPow (snds ps) d' 1 + (d' - d) * sumPow (fsts ps) c' 1
      + (c' - c) * (d' - d) * ps.length := by
  induction ps with
  | nil => simp
  | cons p ps ih => simp only [coSum_cons, ih, fsts, snds, List.map_cons, sumPow_cons, List.length_cons,
      Nat.cast_add, Nat.cast_one]; ring

/-- around the means the linear terms vanish -/
theorem coSum_shift_mean (ps : List (K × K)) (c d : K) :
    coSum ps c d = coSum ps (mean (fsts ps)) (mean (snds ps))
      + (mean (fsts ps) - c) * (mean (snds ps) - d) * ps.length := by
  rw [coSum_shift ps c d (mean (fsts ps)) (mean (snds ps)), sumPow_one_mean, sumPow_one_mean]; ring

omit [CharZero K] in
theorem coSum_swap (ps : List (K × K)) (c d : K) : coSum (ps.map Prod.swap) d c = coSum ps c d := by
  induction ps with
  | nil => simp
  | cons p ps ih => simp only [List.map_cons, coSum_cons, ih, Prod.fst_swap, Prod.snd_swap]; ring

/-- exactly collinear data `y = a x + b` -/
theorem coSum_affine (xs : List K) (a b c : K) :
    coSum (xs.map fun x => (x, a * x + b)) c (a * c + b) = a * sumPow xs c 2 := by
  induction xs with
  | nil => simp
  | cons x xs ih => simp only [List.map_cons, coSum_cons, ih, sumPow_cons]; ring

theorem sumPow_affine (xs : List K) (a b c : K) :
    sumPow (xs.map fun x => a * x + b) (a * c + b) 2 = a ^ 2 * sumPow xs c 2 := by
  induction xs with
  | nil => simp
  | cons x xs ih => simp only [List.map_cons, ih, sumPow_cons]; ring

theorem mean_affine (xs : List K) (a b : K) (h : xs ≠ []) :
    mean (xs.map fun x => a * x + b) = a * mean xs + b := by
  have h1 : (xs.length : K) ≠ 0 := by simp [h]
  have hs : (xs.map fun x => a * x + b).sum = a * xs.sum + xs.length * b := by
    clear h h1
    induction xs with
    | nil => simp
    | cons x xs ih => simp only [List.map_cons, List.sum_cons, ih, List.length_cons, Nat.cast_add,
        Nat.cast_one]; ring
  rw [mean, hs, List.length_map, mean]; field_simp

theorem coSum_self (xs : List K) (c : K) : coSum (xs.map fun x => (x, x)) c c = sumPow xs c 2 := by
  induction xs with
  | nil => simp
  | cons x xs ih => simp only [List.map_cons, coSum_cons, ih, sumPow_cons]; ring

/-- (mean x, Σ(x-mx)², mean y, Σ(y-my)², Σ(x-mx)(y-my), n) -/
def canonC (ps : List (K × K)) : Covariance K :=
  ⟨mean (fsts ps), sumPow (fsts ps) (mean (fsts ps)) 2, mean (snds ps), sumPow (snds ps) (mean (snds ps)) 2,
   coSum ps (mean (fsts ps)) (mean (snds ps)), ps.length⟩

/-- the `sum_2` update of `Variance.add`, extracted from `kurtosis_add` -/
theorem sum2_snoc (xs : List K) (x : K) :
    sumPow xs (mean xs) 2
      + (x - mean xs) / ((xs.length + 1 : Nat) : K) * ((x - mean xs) / ((xs.length + 1 : Nat) : K))
        * ((xs.length + 1 : Nat) : K) * (((xs.length + 1 : Nat) : K) - ((1 : Nat) : K))
      = sumPow (xs ++ [x]) (mean (xs ++ [x])) 2 :=
  congrArg (fun k => k.avg.avg.sum_2) (kurtosis_add xs x)

/-- the `sum_2` update of `Variance.merge` for two non-empty samples -/
theorem sum2_append (xs ys : List K) (hx : xs ≠ []) (hy : ys ≠ []) :
    sumPow xs (mean xs) 2 + (sumPow ys (mean ys) 2
        + (mean ys - mean xs) * (mean ys - mean xs) * xs.length * ys.length / ((xs.length : K) + ys.length))
      = sumPow (xs ++ ys) (mean (xs ++ ys)) 2 := by
  have h1 : (xs.length : K) ≠ 0 := by simp [hx]
  have h2 : (ys.length : K) ≠ 0 := by simp [hy]
  have h3 : (xs.length : K) + (ys.length : K) ≠ 0 := by
    have : ((xs.length + ys.length : Nat) : K) ≠ 0 := by
      rw [Nat.cast_ne_zero]; have := List.length_pos_of_ne_nil hx; omega
    simpa using this
  have hm := mean_append xs ys hx hy
  have e2x := shift2 xs (mean (xs++ys)) (mean xs)
  have e2y := shift2 ys (mean (xs++ys)) (mean ys)
  rw [sumPow_one_mean, sumPow_zero] at e2x e2y
  rw [sumPow_append, e2x, e2y, hm]; field_simp; ring

theorem canonC_nil : canonC ([] : List (K × K)) = Covariance.new := by
  simp [canonC, Covariance.new, mean]

theorem cov_add (ps : List (K × K)) (x y : K) : (canonC ps).add x y = canonC (ps ++ [(x, y)]) := by
  have hn : ((ps.length + 1 : Nat) : K) ≠ 0 := Nat.cast_ne_zero.mpr (Nat.succ_ne_zero _)
  have hlx : (fsts ps).length = ps.length := List.length_map _
  have hly : (snds ps).length = ps.length := List.length_map _
  have hmx := mean_snoc (fsts ps) x
  have hmy := mean_snoc (snds ps) y
  have h2x := sum2_snoc (fsts ps) x
  have h2y := sum2_snoc (snds ps) y
  rw [hlx] at hmx h2x
  rw [hly] at hmy h2y
  have hfx : fsts (ps ++ [(x, y)]) = fsts ps ++ [x] := by simp [fsts]
  have hfy : snds (ps ++ [(x, y)]) = snds ps ++ [y] := by simp [snds]
  have hco := coSum_shift_mean ps (mean (fsts ps ++ [x])) (mean (snds ps ++ [y]))
  unfold Covariance.add canonC
  simp only [hfx, hfy, List.length_append, List.length_cons, List.length_nil, Nat.zero_add]
  congr 1
  rw [coSum_append, hco, ← hmx, ← hmy]
  have hlen : (ps.length : K) = ((ps.length + 1 : Nat) : K) - 1 := by simp
  rw [hlen]
  set n : K := ((ps.length + 1 : Nat) : K) with hnn
  simp only [coSum_cons, coSum_nil]
  field_simp
  ring

theorem cov_fold (ps : List (K × K)) :
    ps.foldl (fun s p => s.add p.1 p.2) Covariance.new = canonC ps := by
  induction ps using List.reverseRecOn with
  | nil => simp [canonC_nil]
  | append_singleton ps p ih => rw [List.foldl_append, ih]; simp [cov_add]

theorem cov_merge (ps qs : List (K × K)) : (canonC ps).merge (canonC qs) = canonC (ps ++ qs) := by
  by_cases hq : qs = []
  · subst hq; simp [Covariance.merge, canonC]
  by_cases hp : ps = []
  · subst hp; simp [Covariance.merge, canonC, hq]
  have hlx : (fsts ps).length = ps.length := List.length_map _
  have hly : (snds ps).length = ps.length := List.length_map _
  have hlx' : (fsts qs).length = qs.length := List.length_map _
  have hly' : (snds qs).length = qs.length := List.length_map _
  have hpx : fsts ps ≠ [] := by simpa [fsts] using hp
  have hpy : snds ps ≠ [] := by simpa [snds] using hp
  have hqx : fsts qs ≠ [] := by simpa [fsts] using hq
  have hqy : snds qs ≠ [] := by simpa [snds] using hq
  have h1 : (ps.length : K) ≠ 0 := by simp [hp]
  have h2 : (qs.length : K) ≠ 0 := by simp [hq]
  have h3 : (ps.length : K) + (qs.length : K) ≠ 0 := by
    have : ((ps.length + qs.length : Nat) : K) ≠ 0 := by
      rw [Nat.cast_ne_zero]; have := List.length_pos_of_ne_nil hp; omega
    simpa using this
  have hmx := mean_append (fsts ps) (fsts qs) hpx hqx
  have hmy := mean_append (snds ps) (snds qs) hpy hqy
  have h2x := sum2_append (fsts ps) (fsts qs) hpx hqx
  have h2y := sum2_append (snds ps) (snds qs) hpy hqy
  rw [hlx, hlx'] at hmx h2x
  rw [hly, hly'] at hmy h2y
  have hfx : fsts (ps ++ qs) = fsts ps ++ fsts qs := by simp [fsts]
  have hfy : snds (ps ++ qs) = snds ps ++ snds qs := by simp [snds]
  have hcp := coSum_shift_mean ps (mean (fsts ps ++ fsts qs)) (mean (snds ps ++ snds qs))
  have hcq := coSum_shift_mean qs (mean (fsts ps ++ fsts qs)) (mean (snds ps ++ snds qs))
  simp only [Covariance.merge, canonC, List.length_eq_zero_iff, hp, hq, if_false, hfx, hfy]
  congr 1
  · exact hmx.symm
  · exact hmy.symm
  · rw [coSum_append, hcp, hcq, hmx, hmy]; field_simp; ring
  · simp

/-! ## Cauchy-Schwarz for lists -/

/-- `(Σ (x-c)(y-d))² ≤ Σ (x-c)² · Σ (y-d)²` in any ordered field -/
theorem coSum_sq_le {F : Type} [Field F] [CharZero F] [LinearOrder F] [IsStrictOrderedRing F]
    (ps : List (F × F)) (c d : F) :
    (coSum ps c d) ^ 2 ≤ sumPow (fsts ps) c 2 * sumPow (snds ps) d 2 := by
  have h := Finset.sum_mul_sq_le_sq_mul_sq (Finset.univ : Finset (Fin ps.length))
    (fun i => (ps[i.1]).1 - c) (fun i => (ps[i.1]).2 - d)
  have e1 : (∑ i : Fin ps.length, ((ps[i.1]).1 - c) * ((ps[i.1]).2 - d)) = coSum ps c d :=
    Fin.sum_univ_fun_getElem ps (fun p => (p.1 - c) * (p.2 - d))
  have e2 : (∑ i : Fin ps.length, ((ps[i.1]).1 - c) ^ 2) = sumPow (fsts ps) c 2 := by
    rw [Fin.sum_univ_fun_getElem ps (fun p => (p.1 - c) ^ 2)]; simp only [sumPow, fsts, List.map_map]; rfl
  have e3 : (∑ i : Fin ps.length, ((ps[i.1]).2 - d) ^ 2) = sumPow (snds ps) d 2 := by
    rw [Fin.sum_univ_fun_getElem ps (fun p => (p.2 - d) ^ 2)]; simp only [sumPow, snds, List.map_map]; rfl
  rw [e1, e2, e3] at h
  exact h

theorem sumPow_two_nonneg_cov {F : Type} [Field F] [CharZero F] [LinearOrder F] [IsStrictOrderedRing F]
    (xs : List F) (c : F) : 0 ≤ sumPow xs c 2 := by
  induction xs with
  | nil => simp
  | cons x xs ih => rw [sumPow_cons]; exact add_nonneg (sq_nonneg _) ih

end MSpec
