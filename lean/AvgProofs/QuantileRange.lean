import AvgProofs.QuantileStep
import AvgProofs.QuantileSmall
import Mathlib.Data.List.Induction

/-!
# Range facts for `Quantile` over a linear order (arbitrary arithmetic)

* the extreme markers hold the running minimum and maximum (no sortedness needed);
* the small-sample branch stays inside the sample's range (thanks to the `fmin`/`fmax` clamp this
  does not even need exact arithmetic or a correct `ceil`).
-/
open Avg Avg.Spec
set_option linter.unusedSectionVars false
set_option linter.unusedSimpArgs false

namespace Avg

section anyCarrier
variable {α : Type} [Add α] [Sub α] [Mul α] [Div α] [NatCast α] [IntCast α] [FloatOps α]

/-- from five observations on `quantile()` is the middle marker's height -/
theorem quantile_large (s : Quantile α) (h5 : 5 ≤ s.n.a4) : s.quantile = s.q.a2 := by
  unfold Quantile.quantile Quantile.len
  have : s.n.a4.toNat ≥ 5 := by omega
  simp [this]

/-- whole-run bookkeeping, any carrier -/
theorem run_n_a4 (p : α) (xs : List α) :
    (xs.foldl Quantile.add (Quantile.init p)).n.a4 = xs.length := by
  induction xs using List.reverseRecOn with
  | nil => rfl
  | append_singleton ys y ih =>
    rw [List.foldl_append, List.length_append]
    simp only [List.foldl_cons, List.foldl_nil, List.length_singleton]
    rw [add_n_a4, ih]; push_cast; rfl

theorem run_dm (p : α) (xs : List α) :
    (xs.foldl Quantile.add (Quantile.init p)).dm = (Quantile.init p).dm := by
  induction xs using List.reverseRecOn with
  | nil => rfl
  | append_singleton ys y ih =>
    rw [List.foldl_append]
    simp only [List.foldl_cons, List.foldl_nil]
    rw [add_dm, ih]

end anyCarrier

section order
variable {K : Type} [LinearOrder K] [FloatOps K] [OrdLaws K]
variable [Add K] [Sub K] [Mul K] [Div K] [NatCast K] [IntCast K]

theorem add_q0_eq_min (s : Quantile K) (x : K) (h5 : 5 ≤ s.n.a4) : (s.add x).q.a0 = min s.q.a0 x := by
  rw [add_q_a0 s x h5]
  split_ifs with c
  · exact (min_eq_right (le_of_lt ((OrdLaws.lt_iff _ _).mp c))).symm
  · exact (min_eq_left ((OrdLaws.lt_false_iff _ _).mp (by simpa using c))).symm

theorem add_q4_eq_max (s : Quantile K) (x : K) (h5 : 5 ≤ s.n.a4) (h04 : s.q.a0 ≤ s.q.a4) :
    (s.add x).q.a4 = max s.q.a4 x := by
  rw [add_q_a4 s x h5]
  split_ifs with c0 c4
  · exact (max_eq_left (le_trans (le_of_lt ((OrdLaws.lt_iff _ _).mp c0)) h04)).symm
  · exact (max_eq_right (le_of_lt ((OrdLaws.lt_iff _ _).mp c4))).symm
  · exact (max_eq_left ((OrdLaws.lt_false_iff _ _).mp (by simpa using c4))).symm

/-- From the fifth observation on, whatever the arithmetic does to the interior markers, marker 0
holds the minimum and marker 4 the maximum of all observations so far. -/
theorem extremes_run (p : K) (xs : List K) (h : 5 ≤ xs.length) :
    IsMinOf (xs.foldl Quantile.add (Quantile.init p)).q.a0 xs
    ∧ IsMaxOf (xs.foldl Quantile.add (Quantile.init p)).q.a4 xs := by
  induction xs using List.reverseRecOn with
  | nil => simp at h
  | append_singleton ys y ih =>
    by_cases h5 : 5 ≤ ys.length
    · obtain ⟨imin, imax⟩ := ih h5
      have hn : (5:Int) ≤ (ys.foldl Quantile.add (Quantile.init p)).n.a4 := by
        rw [run_n_a4]; exact_mod_cast h5
      rw [List.foldl_append]
      simp only [List.foldl_cons, List.foldl_nil]
      rw [add_q0_eq_min _ _ hn, add_q4_eq_max _ _ hn (imin.le_max imax)]
      exact ⟨imin.snoc y, imax.snoc y⟩
    · have h4 : ys.length = 4 := by simp at h; omega
      match ys, h4 with
      | [a, b, c, d], _ =>
        show IsMinOf (((((Quantile.init p).add a).add b).add c).add d |>.add y).q.a0 [a, b, c, d, y] ∧
          IsMaxOf (((((Quantile.init p).add a).add b).add c).add d |>.add y).q.a4 [a, b, c, d, y]
        rw [init_add5, OrdLaws.ordLt_fun]
        have hs := sortBy_sorted [a, b, c, d, y]
        have hp := sortBy_perm (fun a b : K => decide (a < b)) [a, b, c, d, y]
        have hl : (sortBy (fun a b : K => decide (a < b)) [a, b, c, d, y]).length = 5 := by
          rw [sortBy_length]; rfl
        have e4 : 4 = (sortBy (fun a b : K => decide (a < b)) [a, b, c, d, y]).length - 1 := by
          rw [hl]
        constructor
        · exact (sorted_head_min hs y (by omega)).perm hp
        · have := (sorted_last_max hs y (by omega)).perm hp
          rw [← e4] at this
          exact this

/-- The small-sample branch returns a value inside every interval that contains the observations:
either a stored observation, or the average of two of them clamped between them. Arbitrary
arithmetic and arbitrary `ceilInt`. -/
theorem smallQuantile_range (p : K) (xs : List K) (h1 : 1 ≤ xs.length) (lo hi : K)
    (hb : ∀ x ∈ xs, lo ≤ x ∧ x ≤ hi) :
    lo ≤ smallQuantile p xs ∧ smallQuantile p xs ≤ hi := by
  unfold smallQuantile
  have hl := sortBy_length (FloatOps.ordLt : K → K → Bool) xs
  have key : ∀ i, i < xs.length →
      lo ≤ (sortBy FloatOps.ordLt xs).getD i nan ∧ (sortBy FloatOps.ordLt xs).getD i nan ≤ hi := by
    intro i hi'
    rw [List.getD_eq_getElem _ _ (by rw [hl]; exact hi')]
    exact hb _ ((mem_sortBy _ xs _).mp (List.getElem_mem _))
  simp only []
  split_ifs with c
  · simp only [Bool.and_eq_true, decide_eq_true_eq] at c
    obtain ⟨⟨_, c1⟩, c2⟩ := c
    have ka := key _ (by omega : (FloatOps.ceilInt ((xs.length : K) * p - ((1:Nat):K))).toNat < xs.length)
    have kb := key _ (by omega : (FloatOps.ceilInt ((xs.length : K) * p - ((1:Nat):K))).toNat + 1 < xs.length)
    rw [OrdLaws.fmin_eq, OrdLaws.fmax_eq]
    constructor
    · exact le_min (le_trans ka.1 (le_max_right _ _)) kb.1
    · exact le_trans (min_le_right _ _) kb.2
  · exact key _ (by omega)

end order
end Avg
