import AvgProofs.SkewMergeErrTree
import AvgProofs.KurtErrSum

/-!
# Exact side of the error analysis of the fourth-order sum of `Kurtosis.merge`

With `n_x = |xs|`, `n_y = |ys|`, `n = n_x + n_y`, `δ = mean ys - mean xs`, `T = Σ(x - mean)²`,
`U = Σ(x - mean)³`, `Q = Σ(x - mean)⁴`:

`Q(xs ++ ys) = Q xs + Q ys + δ⁴·n_x·n_y·(n_x² - n_x·n_y + n_y²)/n³ + 6·(δ/n)²·(n_x²·T ys + n_y²·T xs)
    + 4·(δ/n)·(n_x·U ys - n_y·U xs)`
(`KurtMerge.Q_append`; true for empty lists as well: the three cross terms vanish).

The first two cross terms are non-negative, the third one is signed and is a difference of two products of
either sign. The computed third-order sums enter with *their* errors, whose scale is a third-order scale of the
sub-trees. Two tree scales are defined here:

* `V3S t` (third order): `V3L = VR + VB` of the chunk at a leaf (`Σ|d_i|³·i/(i+1) + Σ 3|d_i|T_i/(i+1)`); the
  children's scales plus `|δ|³·n_x·n_y/n + 3(|δ|/n)(n_x·T ys + n_y·T xs)` at a node. It differs from
  `SkewMerge.V3T` only in the weight of `|δ|³` (`n_x·n_y/n` instead of `n_x·n_y·|n_x-n_y|/n²`, which vanishes for
  `n_x = n_y` whereas the perturbation of `δ⁴` by the error of the means does not); `V3T t ≤ V3S t`.
* `V4T t` (fourth order): `V4L = VA4 + VB4 + VE4` of the chunk at a leaf (`VE4 = Σ 4|d_i|·V3L_i/(i+1)`); the
  children's scales plus `δ⁴·w4 + 6(δ/n)²(n_x²·T ys + n_y²·T xs) + 4(|δ|/n)(n_x·V3S r + n_y·V3S l)` at a node.
  `|Q(t.flatten)| ≤ V4T t`.
-/
open Avg MSpec Finset VarSpec SkewSpec KurtSpec SkewErr KurtErr SkewMerge

namespace KurtMerge
variable {K : Type} [Field K] [LinearOrder K] [IsStrictOrderedRing K]

/-! ## the exact cross terms -/

/-- the weight `n_x·n_y·(n_x² - n_x·n_y + n_y²)/(n_x+n_y)³` of `δ⁴` -/
def w4 (xs ys : List K) : K :=
  (xs.length : K) * (ys.length : K)
    * ((xs.length : K) * (xs.length : K) - (xs.length : K) * (ys.length : K)
        + (ys.length : K) * (ys.length : K))
    / ((xs.length : K) + (ys.length : K))^3

/-- first exact cross term `δ⁴·w4` (non-negative) -/
def crossP4 (xs ys : List K) : K := (mean ys - mean xs)^4 * w4 xs ys

/-- the mixed sum `n_x²·T ys + n_y²·T xs` -/
def mixK (xs ys : List K) : K :=
  (xs.length : K) * (xs.length : K) * T ys + (ys.length : K) * (ys.length : K) * T xs

/-- second exact cross term `6·(δ/n)²·(n_x²·T ys + n_y²·T xs)` (non-negative) -/
def crossQ4 (xs ys : List K) : K :=
  6 * ((mean ys - mean xs) / ((xs.length : K) + (ys.length : K)))^2 * mixK xs ys

/-- third exact cross term `4·(δ/n)·(n_x·U ys - n_y·U xs)` (signed) -/
def crossR4 (xs ys : List K) : K :=
  4 * ((mean ys - mean xs) / ((xs.length : K) + (ys.length : K)))
    * ((xs.length : K) * U ys - (ys.length : K) * U xs)

/-- the mixed sum `n_x·|U ys| + n_y·|U xs|` -/
def mixU (xs ys : List K) : K := (xs.length : K) * |U ys| + (ys.length : K) * |U xs|

/-- `4·(|δ|/n)·(n_x·|U ys| + n_y·|U xs|)` -/
def absR4 (xs ys : List K) : K :=
  4 * (|mean ys - mean xs| / ((xs.length : K) + (ys.length : K))) * mixU xs ys

/-- `4·(|δ|/n)·(n_x·V_y + n_y·V_x)`: the third cross term with third-order scales `V_x`, `V_y` of the operands
in the place of `|U xs|`, `|U ys|` -/
def absRV (xs ys : List K) (Vx Vy : K) : K :=
  4 * (|mean ys - mean xs| / ((xs.length : K) + (ys.length : K)))
    * ((xs.length : K) * Vy + (ys.length : K) * Vx)

/-- the absolute parts of the exact increment of `Q` at a merge, with third-order scales `V_x`, `V_y` -/
def absJ4 (xs ys : List K) (Vx Vy : K) : K := crossP4 xs ys + crossQ4 xs ys + absRV xs ys Vx Vy

theorem poly2_nonneg (a b : K) : 0 ≤ a * a - a * b + b * b := by nlinarith [sq_nonneg (a - b), sq_nonneg (a + b)]

theorem w4_nonneg (xs ys : List K) : 0 ≤ w4 xs ys := by
  unfold w4
  have := poly2_nonneg (xs.length : K) (ys.length : K)
  positivity

/-- the weight of `δ⁴` is at most the weight `n_x·n_y/n` of `δ²` in the merge identity of the sums of squares -/
theorem w4_le_mergeW (xs ys : List K) (hx : xs ≠ []) : w4 xs ys ≤ mergeW xs ys := by
  have h1 : (0 : K) < xs.length := by exact_mod_cast List.length_pos_of_ne_nil hx
  have h2 : (0 : K) ≤ ys.length := Nat.cast_nonneg _
  have hn : (0 : K) < (xs.length : K) + (ys.length : K) := by positivity
  unfold w4 mergeW
  rw [div_le_div_iff₀ (by positivity) hn]
  have h0 : 0 ≤ (xs.length : K) * (ys.length : K) := by positivity
  have hp : (xs.length : K) * (xs.length : K) - (xs.length : K) * (ys.length : K)
      + (ys.length : K) * (ys.length : K) ≤ ((xs.length : K) + (ys.length : K))^2 := by nlinarith
  calc (xs.length : K) * (ys.length : K) * ((xs.length : K) * (xs.length : K)
          - (xs.length : K) * (ys.length : K) + (ys.length : K) * (ys.length : K))
        * ((xs.length : K) + (ys.length : K))
      ≤ (xs.length : K) * (ys.length : K) * ((xs.length : K) + (ys.length : K))^2
        * ((xs.length : K) + (ys.length : K)) := by gcongr
    _ = (xs.length : K) * (ys.length : K) * ((xs.length : K) + (ys.length : K))^3 := by ring

theorem crossP4_nonneg (xs ys : List K) : 0 ≤ crossP4 xs ys :=
  mul_nonneg (by positivity) (w4_nonneg xs ys)

theorem mixK_nonneg (xs ys : List K) : 0 ≤ mixK xs ys := by
  have := T_nonneg xs
  have := T_nonneg ys
  unfold mixK; positivity

theorem crossQ4_nonneg (xs ys : List K) : 0 ≤ crossQ4 xs ys := by
  have := mixK_nonneg xs ys
  unfold crossQ4; positivity

theorem mixU_nonneg (xs ys : List K) : 0 ≤ mixU xs ys := by unfold mixU; positivity

theorem absR4_nonneg (xs ys : List K) : 0 ≤ absR4 xs ys := by
  have := mixU_nonneg xs ys
  unfold absR4; positivity

theorem absRV_nonneg (xs ys : List K) (Vx Vy : K) (hVx : 0 ≤ Vx) (hVy : 0 ≤ Vy) :
    0 ≤ absRV xs ys Vx Vy := by unfold absRV; positivity

theorem absJ4_nonneg (xs ys : List K) (Vx Vy : K) (hVx : 0 ≤ Vx) (hVy : 0 ≤ Vy) :
    0 ≤ absJ4 xs ys Vx Vy :=
  add_nonneg (add_nonneg (crossP4_nonneg xs ys) (crossQ4_nonneg xs ys)) (absRV_nonneg xs ys Vx Vy hVx hVy)

theorem abs_crossR4_le (xs ys : List K) : |crossR4 xs ys| ≤ absR4 xs ys := by
  unfold crossR4 absR4 mixU
  have h1 : (0 : K) ≤ xs.length := Nat.cast_nonneg _
  have h2 : (0 : K) ≤ ys.length := Nat.cast_nonneg _
  have hn : (0 : K) ≤ (xs.length : K) + (ys.length : K) := by positivity
  rw [abs_mul, abs_mul, abs_div, abs_of_nonneg hn, abs_of_pos (by norm_num : (0 : K) < 4)]
  have : |(xs.length : K) * U ys - (ys.length : K) * U xs|
      ≤ (xs.length : K) * |U ys| + (ys.length : K) * |U xs| := by
    refine le_trans (abs_sub _ _) (le_of_eq ?_)
    rw [abs_mul, abs_mul, abs_of_nonneg h1, abs_of_nonneg h2]
  gcongr

theorem absR4_le_absRV (xs ys : List K) (Vx Vy : K) (hx : |U xs| ≤ Vx) (hy : |U ys| ≤ Vy) :
    absR4 xs ys ≤ absRV xs ys Vx Vy := by
  unfold absR4 absRV mixU
  have h1 : (0 : K) ≤ xs.length := Nat.cast_nonneg _
  have h2 : (0 : K) ≤ ys.length := Nat.cast_nonneg _
  gcongr

theorem absJ4_nil_right (xs : List K) (Vx : K) : absJ4 xs [] Vx 0 = 0 := by
  simp [absJ4, crossP4, crossQ4, absRV, w4, mixK, T_nil]

theorem absJ4_nil_left (ys : List K) (Vy : K) : absJ4 [] ys 0 Vy = 0 := by
  simp [absJ4, crossP4, crossQ4, absRV, w4, mixK, T_nil]

/-- **Exact merge identity of the fourth-order sum** (the quantity `Kurtosis.merge` approximates). -/
theorem Q_append (xs ys : List K) :
    Q (xs ++ ys) = Q xs + Q ys + crossP4 xs ys + crossQ4 xs ys + crossR4 xs ys := by
  by_cases hy : ys = []
  · subst hy; simp [crossP4, crossQ4, crossR4, w4, mixK, Q_nil, U_nil, T_nil]
  by_cases hx : xs = []
  · subst hx; simp [crossP4, crossQ4, crossR4, w4, mixK, Q_nil, U_nil, T_nil]
  have h1 : (xs.length : K) ≠ 0 := by simp [hx]
  have h2 : (ys.length : K) ≠ 0 := by simp [hy]
  have h3 : (xs.length : K) + (ys.length : K) ≠ 0 := by
    have h1' : (0 : K) < xs.length := by exact_mod_cast List.length_pos_of_ne_nil hx
    have h2' : (0 : K) ≤ ys.length := Nat.cast_nonneg _
    positivity
  have hm := mean_append xs ys hx hy
  have e4x := shift4 xs (mean (xs ++ ys)) (mean xs)
  have e4y := shift4 ys (mean (xs ++ ys)) (mean ys)
  rw [sumPow_one_mean, sumPow_zero] at e4x e4y
  unfold Q crossP4 crossQ4 crossR4 w4 mixK T U
  rw [sumPow_append, e4x, e4y, hm]
  field_simp
  ring

/-- the four targets of the rounded additions of a merge are at most `|Q xs| + |Q ys|` plus the absolute parts -/
theorem abs_targets_le (xs ys : List K) :
    |Q ys + crossP4 xs ys| ≤ |Q ys| + crossP4 xs ys
    ∧ |Q ys + crossP4 xs ys + crossQ4 xs ys| ≤ |Q ys| + crossP4 xs ys + crossQ4 xs ys
    ∧ |Q ys + crossP4 xs ys + crossQ4 xs ys + crossR4 xs ys|
        ≤ |Q ys| + crossP4 xs ys + crossQ4 xs ys + absR4 xs ys
    ∧ |Q (xs ++ ys)| ≤ |Q xs| + |Q ys| + crossP4 xs ys + crossQ4 xs ys + absR4 xs ys := by
  have hP := crossP4_nonneg xs ys
  have hQ := crossQ4_nonneg xs ys
  have hR := abs_crossR4_le xs ys
  have a1 : |Q ys + crossP4 xs ys| ≤ |Q ys| + crossP4 xs ys := by
    refine le_trans (abs_add_le _ _) ?_
    rw [abs_of_nonneg hP]
  have a2 : |Q ys + crossP4 xs ys + crossQ4 xs ys| ≤ |Q ys| + crossP4 xs ys + crossQ4 xs ys := by
    refine le_trans (abs_add_le _ _) ?_
    rw [abs_of_nonneg hQ]; linarith
  have a3 : |Q ys + crossP4 xs ys + crossQ4 xs ys + crossR4 xs ys|
      ≤ |Q ys| + crossP4 xs ys + crossQ4 xs ys + absR4 xs ys := by
    refine le_trans (abs_add_le _ _) ?_
    linarith
  refine ⟨a1, a2, a3, ?_⟩
  rw [Q_append]
  have e : Q xs + Q ys + crossP4 xs ys + crossQ4 xs ys + crossR4 xs ys
      = Q xs + (Q ys + crossP4 xs ys + crossQ4 xs ys + crossR4 xs ys) := by ring
  rw [e]
  refine le_trans (abs_add_le _ _) ?_
  linarith

/-! ## the third-order scale with the symmetric weight -/

/-- `|δ|³·n_x·n_y/n + 3(|δ|/n)(n_x·T ys + n_y·T xs)` -/
def absJS (xs ys : List K) : K := |mean ys - mean xs|^3 * mergeW xs ys + absQ xs ys

theorem absJS_nonneg (xs ys : List K) : 0 ≤ absJS xs ys := by
  have := mergeW_nonneg xs ys
  have := absQ_nonneg xs ys
  unfold absJS; positivity

theorem absJS_nil_right (xs : List K) : absJS xs [] = 0 := by
  simp [absJS, absQ, mergeW, mixH, T_nil]

theorem absJS_nil_left (ys : List K) : absJS [] ys = 0 := by
  simp [absJS, absQ, mergeW, mixH, T_nil]

theorem absJ_le_absJS (xs ys : List K) : absJ xs ys ≤ absJS xs ys := by
  by_cases hx : xs = []
  · subst hx; rw [absJ_nil_left, absJS_nil_left]
  have := w3a_le_mergeW xs ys hx
  unfold absJ absJS absP
  have : |mean ys - mean xs|^3 * w3a xs ys ≤ |mean ys - mean xs|^3 * mergeW xs ys := by gcongr
  linarith

/-- the leaf scale of third order: `Σ|d_i|³·i/(i+1) + Σ 3|d_i|·T_i/(i+1)` -/
def V3L (vs : List K) : K := VR vs + VB vs

theorem V3L_nonneg (vs : List K) : 0 ≤ V3L vs := add_nonneg (VR_nonneg vs) (VB_nonneg vs)

omit [IsStrictOrderedRing K] in
theorem VR_snoc (vs : List K) (x : K) :
    VR (vs ++ [x]) = VR vs + |x - mean vs|^3 * ((vs.length : K) / ((vs.length : K) + 1)) :=
  sum_dev_snoc (fun i d => |d|^3 * ((i : K) / ((i : K) + 1))) vs x

omit [IsStrictOrderedRing K] in
theorem V3L_snoc (vs : List K) (x : K) :
    V3L (vs ++ [x]) = V3L vs + (|x - mean vs|^3 * ((vs.length : K) / ((vs.length : K) + 1))
      + incB vs.length (x - mean vs) (T vs)) := by
  unfold V3L; rw [VR_snoc, VB_snoc]; ring

omit [IsStrictOrderedRing K] in
theorem V3L_nil : V3L ([] : List K) = 0 := by simp [V3L, VR, VB]

theorem V3p_le_V3L (vs : List K) : V3p vs ≤ V3L vs := by
  unfold V3p V3L
  have : VA vs ≤ VR vs := by
    unfold VA VR
    apply sum_le_sum
    intro i _
    unfold incA
    have := cA_le_ratio (K := K) i
    gcongr
  linarith

theorem abs_U_le_V3L (vs : List K) : |U vs| ≤ V3L vs := le_trans (abs_U_le vs) (V3p_le_V3L vs)

/-- the third-order scale along a merge tree, with the weight `n_x·n_y/n` of `|δ|³` at a node -/
def V3S : MTree K → K
  | .leaf xs => V3L xs
  | .node l r => V3S l + V3S r + absJS l.flatten r.flatten

omit [IsStrictOrderedRing K] in
theorem V3S_leaf (xs : List K) : V3S (.leaf xs) = V3L xs := rfl
omit [IsStrictOrderedRing K] in
theorem V3S_node (l r : MTree K) :
    V3S (.node l r) = V3S l + V3S r + absJS l.flatten r.flatten := rfl

theorem V3S_nonneg (t : MTree K) : 0 ≤ V3S t := by
  induction t with
  | leaf xs => exact V3L_nonneg xs
  | node l r ihl ihr =>
    rw [V3S_node]; have := absJS_nonneg l.flatten r.flatten; linarith

theorem V3T_le_V3S (t : MTree K) : V3T t ≤ V3S t := by
  induction t with
  | leaf xs => exact V3p_le_V3L xs
  | node l r ihl ihr =>
    rw [V3T_node, V3S_node]; have := absJ_le_absJS l.flatten r.flatten; linarith

theorem abs_U_le_V3S (t : MTree K) : |U t.flatten| ≤ V3S t :=
  le_trans (abs_U_le_V3T t) (V3T_le_V3S t)

theorem V3S_empty (t : MTree K) (h : t.flatten = []) : V3S t = 0 := by
  induction t with
  | leaf xs => rw [MTree.flatten_leaf] at h; subst h; exact V3L_nil
  | node l r ihl ihr =>
    rw [MTree.flatten_node, List.append_eq_nil_iff] at h
    rw [V3S_node, ihl h.1, ihr h.2, h.1, h.2, absJS_nil_right]; ring

/-! ## the fourth-order scale -/

omit [LinearOrder K] [IsStrictOrderedRing K] in
/-- sums over the observations of a function of the index, the deviation and the list of the predecessors: one
more observation -/
theorem sum_take_snoc (f : ℕ → K → List K → K) (vs : List K) (x : K) :
    ∑ i ∈ range (vs ++ [x]).length, f i (dev (vs ++ [x]) i) ((vs ++ [x]).take i)
      = ∑ i ∈ range vs.length, f i (dev vs i) (vs.take i) + f vs.length (x - mean vs) vs := by
  rw [List.length_append, List.length_singleton, sum_range_succ, dev_snoc_len]
  congr 1
  · apply sum_congr rfl
    intro i hi
    have hi' := mem_range.mp hi
    rw [dev_snoc_lt vs x hi', List.take_append_of_le_length (le_of_lt hi')]
  · rw [List.take_left']
    rfl

/-- `Σ 4·|d_i|·V3L(x_0..x_{i-1})/(i+1)` -/
def VE4 (vs : List K) : K := ∑ i ∈ range vs.length, incD4 i (dev vs i) (V3L (vs.take i))

theorem VE4_nonneg (vs : List K) : 0 ≤ VE4 vs :=
  sum_nonneg (fun i _ => incD4_nonneg i _ _ (V3L_nonneg _))

omit [IsStrictOrderedRing K] in
theorem VE4_snoc (vs : List K) (x : K) :
    VE4 (vs ++ [x]) = VE4 vs + incD4 vs.length (x - mean vs) (V3L vs) :=
  sum_take_snoc (fun i d l => incD4 i d (V3L l)) vs x

/-- the leaf scale of fourth order: `VA4 + VB4 + VE4` -/
def V4L (vs : List K) : K := VA4 vs + VB4 vs + VE4 vs

theorem V4L_nonneg (vs : List K) : 0 ≤ V4L vs :=
  add_nonneg (add_nonneg (VA4_nonneg vs) (VB4_nonneg vs)) (VE4_nonneg vs)

omit [IsStrictOrderedRing K] in
theorem V4L_snoc (vs : List K) (x : K) :
    V4L (vs ++ [x]) = V4L vs + (incA4 vs.length (x - mean vs) + incB4 vs.length (x - mean vs) (T vs)
      + incD4 vs.length (x - mean vs) (V3L vs)) := by
  unfold V4L; rw [VA4_snoc, VB4_snoc, VE4_snoc]; ring

omit [IsStrictOrderedRing K] in
theorem V4L_nil : V4L ([] : List K) = 0 := by simp [V4L, VA4, VB4, VE4]

theorem V4p_le_V4L (vs : List K) : V4p vs ≤ V4L vs := by
  unfold V4p V4L
  have : VC4 vs ≤ VE4 vs := by
    unfold VC4 VE4
    apply sum_le_sum
    intro i _
    unfold incC4 incD4
    have := abs_U_le_V3L (vs.take i)
    gcongr
  linarith

theorem abs_Q_le_V4L (vs : List K) : |Q vs| ≤ V4L vs := le_trans (abs_Q_le vs) (V4p_le_V4L vs)

/-- the natural scale of the rounding errors of `sum_4` along a merge tree -/
def V4T : MTree K → K
  | .leaf xs => V4L xs
  | .node l r => V4T l + V4T r + absJ4 l.flatten r.flatten (V3S l) (V3S r)

omit [IsStrictOrderedRing K] in
theorem V4T_leaf (xs : List K) : V4T (.leaf xs) = V4L xs := rfl
omit [IsStrictOrderedRing K] in
theorem V4T_node (l r : MTree K) :
    V4T (.node l r) = V4T l + V4T r + absJ4 l.flatten r.flatten (V3S l) (V3S r) := rfl

theorem V4T_nonneg (t : MTree K) : 0 ≤ V4T t := by
  induction t with
  | leaf xs => exact V4L_nonneg xs
  | node l r ihl ihr =>
    rw [V4T_node]
    have := absJ4_nonneg l.flatten r.flatten (V3S l) (V3S r) (V3S_nonneg l) (V3S_nonneg r)
    linarith

/-- `Σ(x - mean)⁴ ≤ V4T t` for every merge tree over the data -/
theorem abs_Q_le_V4T (t : MTree K) : |Q t.flatten| ≤ V4T t := by
  induction t with
  | leaf xs => exact abs_Q_le_V4L xs
  | node l r ihl ihr =>
    rw [MTree.flatten_node, V4T_node]
    have h := (abs_targets_le l.flatten r.flatten).2.2.2
    have hR := absR4_le_absRV l.flatten r.flatten (V3S l) (V3S r) (abs_U_le_V3S l) (abs_U_le_V3S r)
    unfold absJ4
    linarith

theorem V4T_empty (t : MTree K) (h : t.flatten = []) : V4T t = 0 := by
  induction t with
  | leaf xs => rw [MTree.flatten_leaf] at h; subst h; exact V4L_nil
  | node l r ihl ihr =>
    rw [MTree.flatten_node, List.append_eq_nil_iff] at h
    rw [V4T_node, ihl h.1, ihr h.2, h.1, h.2, V3S_empty r h.2, absJ4_nil_right]; ring

end KurtMerge

#print axioms KurtMerge.Q_append
#print axioms KurtMerge.abs_Q_le_V4T
