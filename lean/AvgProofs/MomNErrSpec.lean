import AvgProofs.MomNErrStep
import AvgProofs.SkewErrV3
import AvgProofs.SkewErrV3Hardy

/-!
# The natural scale of the rounding errors of `m[1]` of `define_moments!`

The coefficient `c_i = i(i-1)/(i+1)²` (`SkewSpec.cA`) of `d³` in the exact increment is computed as a rounded
sum of `-i/(i+1)³` and `i³/(i+1)³`; its error is relative to `cM i = (i + i³)/(i+1)³ ≥ c_i`.
`VAM = Σ|d_i|³·cM i`, `V3m = VAM + VB` (`VB = Σ 3|d_i|T_i/(i+1)` as for `Skewness`).

* `V3p_le_V3m`, `abs_U_le_V3m`, `V3m_mono`;
* `VAM_le_V3`: `VAM ≤ (35/2)·V3`, `V3m_le_V3`: `V3m ≤ 40·V3`, `V3 = Σ|x - mean|³` (same proof as for `VA`);
* `V3m_le`: `V3m ≤ 2M·T + 3·T·S₀`;  `abs_U_le_V3`: `|U| ≤ V3`.
-/
open Avg MSpec Finset VarSpec SkewSpec SkewErr

namespace MomNErr
variable {K : Type} [Field K] [LinearOrder K] [IsStrictOrderedRing K]

/-- `(i + i³)/(i+1)³`: the sum of the absolute values of the two rounded parts of the coefficient of `d³` -/
def cM (i : ℕ) : K := ((i : K) + (i : K)^3) / ((i : K) + 1)^3

omit [LinearOrder K] [IsStrictOrderedRing K] in
theorem cab_succ (i : ℕ) : cab ((i : K) + 1) = cM i := by
  unfold cab cM
  rw [add_sub_cancel_right, ← add_div]

theorem cM_nonneg (i : ℕ) : (0 : K) ≤ cM i := by
  unfold cM; positivity

theorem cM_le_ratio (i : ℕ) : (cM i : K) ≤ (i : K) / ((i : K) + 1) := by
  unfold cM
  have hi : (0 : K) ≤ i := Nat.cast_nonneg i
  have hp : (0 : K) < (i : K) + 1 := by linarith
  rw [div_le_div_iff₀ (by positivity) hp]
  have : 0 ≤ (i : K)^2 * ((i : K) + 1) := by positivity
  nlinarith

theorem cM_le_one (i : ℕ) : (cM i : K) ≤ 1 := le_trans (cM_le_ratio i) (ratio_le_one i)

theorem cA_le_cM (i : ℕ) : (cA i : K) ≤ cM i := by
  unfold cA cM
  have hi : (0 : K) ≤ i := Nat.cast_nonneg i
  have hp : (0 : K) < (i : K) + 1 := by linarith
  rw [div_le_div_iff₀ (by positivity) (by positivity)]
  have : 0 ≤ (i : K) * ((i : K) + 1)^2 := by positivity
  nlinarith

/-- absolute scale of the `d³` part of the increment of `m[1]` -/
def incAM (i : ℕ) (d : K) : K := |d|^3 * cM i

theorem incAM_nonneg (i : ℕ) (d : K) : 0 ≤ incAM i d := mul_nonneg (by positivity) (cM_nonneg i)

theorem incA_le_incAM (i : ℕ) (d : K) : incA i d ≤ incAM i d := by
  unfold incA incAM
  have := cA_le_cM (K := K) i
  gcongr

/-- `Σ |d_i|³·(i + i³)/(i+1)³` -/
def VAM (vs : List K) : K := ∑ i ∈ range vs.length, incAM i (dev vs i)
/-- the natural scale of the rounding errors of `m[1]` -/
def V3m (vs : List K) : K := VAM vs + VB vs

omit [IsStrictOrderedRing K] in
theorem VAM_snoc (vs : List K) (x : K) : VAM (vs ++ [x]) = VAM vs + incAM vs.length (x - mean vs) :=
  sum_dev_snoc (fun i d => incAM i d) vs x

omit [IsStrictOrderedRing K] in
theorem V3m_snoc (vs : List K) (x : K) :
    V3m (vs ++ [x]) = V3m vs + (incAM vs.length (x - mean vs) + incB vs.length (x - mean vs) (T vs)) := by
  unfold V3m; rw [VAM_snoc, VB_snoc]; ring

theorem VAM_nonneg (vs : List K) : 0 ≤ VAM vs := sum_nonneg (fun i _ => incAM_nonneg i _)

theorem V3m_nonneg (vs : List K) : 0 ≤ V3m vs := add_nonneg (VAM_nonneg vs) (VB_nonneg vs)

theorem V3m_mono (vs : List K) (x : K) : V3m vs ≤ V3m (vs ++ [x]) := by
  rw [V3m_snoc]
  have := incAM_nonneg vs.length (x - mean vs)
  have := incB_nonneg vs.length (x - mean vs) (T vs) (T_nonneg vs)
  linarith

theorem V3p_le_V3m (vs : List K) : V3p vs ≤ V3m vs := by
  unfold V3p V3m VA VAM
  have : ∑ i ∈ range vs.length, incA i (dev vs i) ≤ ∑ i ∈ range vs.length, incAM i (dev vs i) :=
    sum_le_sum (fun i _ => incA_le_incAM i _)
  linarith

theorem abs_U_le_V3m (vs : List K) : |U vs| ≤ V3m vs := le_trans (abs_U_le vs) (V3p_le_V3m vs)

/-- the intermediate exact value `U + d³c` of one step is inside the scale of the longer stream -/
theorem abs_U_add_le (vs : List K) (x : K) :
    |U vs + (x - mean vs)^3 * cA vs.length| ≤ V3m (vs ++ [x]) := by
  rw [V3m_snoc]
  have h1 := abs_U_le_V3m vs
  have h2 : |(x - mean vs)^3 * cA vs.length| ≤ incAM vs.length (x - mean vs) := by
    rw [abs_mul, abs_pow, abs_of_nonneg (cA_nonneg (K := K) vs.length)]
    exact incA_le_incAM _ _
  have := incB_nonneg vs.length (x - mean vs) (T vs) (T_nonneg vs)
  calc |U vs + (x - mean vs)^3 * cA vs.length| ≤ |U vs| + |(x - mean vs)^3 * cA vs.length| :=
        abs_add_le _ _
    _ ≤ _ := by linarith

/-- the new exact value of one step is inside the scale of the longer stream -/
theorem abs_U_snoc_le (vs : List K) (x : K) :
    |U vs + ((x - mean vs)^3 * cA vs.length - 3 * (x - mean vs) * T vs / ((vs.length : K) + 1))|
      ≤ V3m (vs ++ [x]) := by
  have := abs_U_le_V3m (vs ++ [x])
  rwa [U_snoc] at this

/-- **`VAM ≤ (35/2)·V3`** (the proof of `VA_le_V3` uses only `0 ≤ c_i ≤ 1`, `c_0 = 0`) -/
theorem VAM_le_V3 (vs : List K) : VAM vs ≤ 35/2 * V3 vs := by
  have hterm : ∀ k ∈ range vs.length, incAM k (dev vs k)
      ≤ 4 * (adev vs k)^3 + 4 * (if k = 0 then 0 else (amean (adev vs) k)^3) := by
    intro k hk
    have hk' := mem_range.mp hk
    unfold incAM
    split_ifs with h0
    · subst h0
      have : (cM 0 : K) = 0 := by simp [cM]
      rw [this, mul_zero]
      have := pow_nonneg (adev_nonneg vs 0) 3
      linarith
    · have hk1 : 1 ≤ k := Nat.one_le_iff_ne_zero.mpr h0
      have hd := abs_dev_le_adev vs k hk1 hk'
      have ha := adev_nonneg vs k
      have hα := amean_nonneg (adev_nonneg vs) k
      have hc0 := cM_nonneg (K := K) k
      have hc1 := cM_le_one (K := K) k
      calc |dev vs k|^3 * cM k ≤ (adev vs k + amean (adev vs) k)^3 * 1 := by gcongr
        _ ≤ 4 * ((adev vs k)^3 + (amean (adev vs) k)^3) := by
            rw [mul_one]; exact add_cube_le _ _ ha hα
        _ = 4 * (adev vs k)^3 + 4 * (amean (adev vs) k)^3 := by ring
  have hsum := sum_le_sum hterm
  rw [sum_add_distrib, ← mul_sum, ← mul_sum, ← V3_eq_sum] at hsum
  have hα : ∑ k ∈ range vs.length, (if k = 0 then 0 else (amean (adev vs) k)^3)
      ≤ 27/8 * V3 vs := by
    refine le_trans ?_ (sum_amean_le vs)
    rcases Nat.eq_zero_or_pos vs.length with h | h
    · rw [h]; simp
    · obtain ⟨n', hn'⟩ : ∃ n', vs.length = n' + 1 := ⟨vs.length - 1, by omega⟩
      rw [hn', sum_range_succ' (fun k => if k = 0 then 0 else (amean (adev vs) k)^3) n',
        sum_range_succ (fun m => (amean (adev vs) (m + 1))^3) n']
      simp only [Nat.add_eq_zero_iff, one_ne_zero, and_false, if_false, if_true, add_zero]
      have := pow_nonneg (amean_nonneg (adev_nonneg vs) (n' + 1)) 3
      linarith
  unfold VAM
  linarith

/-- **`V3m ≤ 40·V3`**, `V3 = Σ|x - mean|³`. No hypothesis on the data. -/
theorem V3m_le_V3 (vs : List K) : V3m vs ≤ 40 * V3 vs := by
  unfold V3m
  have := VAM_le_V3 vs
  have := VB_le_V3 vs
  linarith

/-- `VAM ≤ D·T` when every `|d_i| ≤ D` -/
theorem VAM_le (vs : List K) (D : K) (hD : ∀ i, i < vs.length → |dev vs i| ≤ D) :
    VAM vs ≤ D * T vs := by
  rw [T_eq_sum, mul_sum]
  unfold VAM
  apply sum_le_sum
  intro i hi
  have hd := hD i (mem_range.mp hi)
  have h0 : 0 ≤ |dev vs i| := abs_nonneg _
  have hD0 : 0 ≤ D := le_trans h0 hd
  have hc0 := cM_nonneg (K := K) i
  have hcρ := cM_le_ratio (K := K) i
  unfold incAM
  calc |dev vs i|^3 * cM i = |dev vs i| * (|dev vs i|^2 * cM i) := by ring
    _ ≤ D * (|dev vs i|^2 * ((i : K) / ((i : K) + 1))) := by gcongr
    _ = D * ((dev vs i)^2 * ((i : K) / ((i : K) + 1))) := by rw [sq_abs]

/-- `V3m ≤ 2M·T + 3·T·S₀` for `|x_i| ≤ M`, `T ≤ S₀²` -/
theorem V3m_le (vs : List K) (M : K) (hM : 0 ≤ M) (hb : ∀ x ∈ vs, |x| ≤ M) (S₀ : K) (hS : 0 ≤ S₀)
    (hST : T vs ≤ S₀^2) : V3m vs ≤ 2 * M * T vs + 3 * T vs * S₀ := by
  unfold V3m
  have h1 := VAM_le vs (2 * M) (abs_dev_le vs M hM hb)
  have h2 := VB_le vs S₀ hS hST
  linarith

theorem abs_sum_cube_le (l : List K) (c : K) :
    |(l.map (fun x => (x - c)^3)).sum| ≤ (l.map (fun x => |x - c|^3)).sum := by
  induction l with
  | nil => simp
  | cons y l ih =>
    simp only [List.map_cons, List.sum_cons]
    calc |(y - c)^3 + (l.map (fun x => (x - c)^3)).sum|
        ≤ |(y - c)^3| + |(l.map (fun x => (x - c)^3)).sum| := abs_add_le _ _
      _ ≤ |y - c|^3 + (l.map (fun x => |x - c|^3)).sum := by rw [abs_pow]; linarith

/-- `|Σ(x - mean)³| ≤ Σ|x - mean|³` -/
theorem abs_U_le_V3 (vs : List K) : |U vs| ≤ V3 vs := abs_sum_cube_le vs (mean vs)

end MomNErr

#print axioms MomNErr.V3m_le_V3
#print axioms MomNErr.V3m_le
#print axioms MomNErr.abs_U_le_V3
