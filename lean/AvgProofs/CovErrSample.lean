import AvgProofs.CovErrEnvelope

/-!
# `sample_covariance` in terms of the *population* standard deviations, and its envelope

DESIGN.md section 5 measures the conditioning `κ = 1 + M/σ` with the population `σ = sqrt(T/n)` for every
statistic, and takes `sqrt(S_xx·S_yy)/(n-1)` as the scale of `sample_covariance`. In these terms the
bound of `sample_covariance` is the bound of `population_covariance` times `n/(n-1)` - the error of
`sum_prod` is divided by `n - 1` instead of `n` - and the envelope has the same constant 8.
-/
open Avg MSpec Finset VarSpec CovSpec VarErr

namespace CovErr
variable {K : Type} [Field K] [LinearOrder K] [IsStrictOrderedRing K]

/-- the arithmetic of the envelope: the first-order terms with coefficients `21/4, 2, 17/4` and the
second-order term dominated through `4·n·u·Mx ≤ σx` or `4·n·u·My ≤ σy` -/
theorem envelope_arith (n u σx σy Mx My : K) (hn : 0 ≤ n) (hu : 0 ≤ u) (hσx : 0 ≤ σx)
    (hσy : 0 ≤ σy) (hMx : 0 ≤ Mx) (hMy : 0 ≤ My)
    (hcond : 4 * n * u * Mx ≤ σx ∨ 4 * n * u * My ≤ σy) :
    21/4 * n * u * σx * σy + 2 * n * u * Mx * σy + 17/4 * n * u * My * σx
        + 4 * n^2 * u^2 * Mx * My
      ≤ 8 * n * u * (σx * σy + max (Mx * σy) (My * σx)) := by
  set m := max (Mx * σy) (My * σx) with hm
  have hm1 : Mx * σy ≤ m := le_max_left _ _
  have hm2 : My * σx ≤ m := le_max_right _ _
  have hnu : 0 ≤ n * u := by positivity
  have h1 : n * u * (Mx * σy) ≤ n * u * m := by gcongr
  have h2 : n * u * (My * σx) ≤ n * u * m := by gcongr
  have h0 : 0 ≤ n * u * (σx * σy) := by positivity
  have h4 : 4 * n^2 * u^2 * Mx * My ≤ n * u * m := by
    rcases hcond with hc | hc
    · calc 4 * n^2 * u^2 * Mx * My = (4 * n * u * Mx) * (n * u * My) := by ring
        _ ≤ σx * (n * u * My) := by gcongr
        _ = n * u * (My * σx) := by ring
        _ ≤ n * u * m := h2
    · calc 4 * n^2 * u^2 * Mx * My = (4 * n * u * My) * (n * u * Mx) := by ring
        _ ≤ σy * (n * u * Mx) := by gcongr
        _ = n * u * (Mx * σy) := by ring
        _ ≤ n * u * m := h1
  have hm0 : 0 ≤ n * u * m := by
    have : 0 ≤ Mx * σy := by positivity
    have : 0 ≤ m := le_trans this hm1
    positivity
  linarith

/-- **`sum_prod` divided by any `m > 0` and rounded** (`m = n`: `population_covariance`, `m = n - 1`:
`sample_covariance`), with the population standard deviations `T_x/n ≤ σx²`, `T_y/n ≤ σy²`:
`|fl(sum_prod/m) - C/m| ≤ ((21/4)·n²·u·σx·σy + 2·n²·u·Mx·σy + (17/4)·n²·u·My·σx + 4·n³·u²·Mx·My
    + (11/10)·ε·Mx)/m`. -/
theorem cov_div_error_sharp (r : Rnd2 K) (Mx My : K) (hMx : 0 ≤ Mx) (hMy : 0 ≤ My)
    (ps : List (RF2 r × RF2 r)) (hne : ps ≠ [])
    (hbx : ∀ p ∈ ps, |p.1.val| ≤ Mx) (hby : ∀ p ∈ ps, |p.2.val| ≤ My)
    (hsmall : ((ps.length : K) + 28) * r.u ≤ 1/64)
    (ε : K) (hε : 0 ≤ ε)
    (h1 : ∀ p, ps.head? = some p →
      |((Covariance.new : Covariance (RF2 r)).add p.1 p.2).avg_y.val - p.2.val| ≤ ε)
    (σx σy : K) (hσx : 0 ≤ σx) (hσy : 0 ≤ σy)
    (hvx : T (fsts (vals ps)) / (ps.length : K) ≤ σx^2)
    (hvy : T (snds (vals ps)) / (ps.length : K) ≤ σy^2)
    (m : K) (hm : 0 < m) :
    |r.fl ((ps.foldl (fun (s : Covariance (RF2 r)) p => s.add p.1 p.2)
          Covariance.new).sum_prod.val / m) - Cxy (vals ps) / m|
      ≤ (21/4 * (ps.length : K)^2 * r.u * σx * σy + 2 * (ps.length : K)^2 * r.u * Mx * σy
        + 17/4 * (ps.length : K)^2 * r.u * My * σx + 4 * (ps.length : K)^3 * r.u^2 * Mx * My
        + 11/10 * ε * Mx) / m := by
  have hu := r.u_nonneg
  have hnat : 1 ≤ ps.length := List.length_pos_of_ne_nil hne
  have hn1 : (1 : K) ≤ ps.length := by exact_mod_cast hnat
  set n : K := (ps.length : K) with hn
  have hnpos : 0 < n := by linarith
  have hu1856 : r.u ≤ 1/1856 := by nlinarith
  obtain ⟨hprod, hC⟩ := abs_Cxy_le_of_var (vals ps) n σx σy hnpos hσx hσy hvx hvy
  have hTx : T (fsts (vals ps)) ≤ n * σx^2 := by rwa [div_le_iff₀ hnpos, mul_comm] at hvx
  have hTy : T (snds (vals ps)) ≤ n * σy^2 := by rwa [div_le_iff₀ hnpos, mul_comm] at hvy
  have hd := cov_fold_error_sharp_num r Mx My hMx hMy ps hbx hby hsmall ε hε h1 (n * σx * σy)
    (n * σx) (n * σy) (by positivity) (by positivity) (by positivity) hprod
    (by rw [mul_pow]; nlinarith) (by rw [mul_pow]; nlinarith)
  refine le_trans (div_round_error_abs r _ (Cxy (vals ps)) m hm) ?_
  have := popcov_arith_sharp r.u n σx σy Mx My ε _ _ hu hu1856 hn1 hσx hσy hMx hMy hε
    (abs_nonneg _) hd hC
  gcongr

section access
variable {r : Rnd2 K} [FloatOps (RF2 r)]

/-- **Sample covariance in terms of the population standard deviations**, any bound `ε` for the first
pair: `n ≥ 2`, `T_x/n ≤ σx²`, `T_y/n ≤ σy²`:
`|sample_covariance - C/(n-1)| ≤ ((21/4)·n·u·σx·σy + 2·n·u·Mx·σy + (17/4)·n·u·My·σx + 4·n²·u²·Mx·My
    + (11/10)·ε·Mx/n)·n/(n-1)`. -/
theorem samplecov_error_sharp_pop (Mx My : K) (hMx : 0 ≤ Mx) (hMy : 0 ≤ My)
    (ps : List (RF2 r × RF2 r)) (h2 : 2 ≤ ps.length)
    (hbx : ∀ p ∈ ps, |p.1.val| ≤ Mx) (hby : ∀ p ∈ ps, |p.2.val| ≤ My)
    (hsmall : ((ps.length : K) + 28) * r.u ≤ 1/64)
    (ε : K) (hε : 0 ≤ ε)
    (h1 : ∀ p, ps.head? = some p →
      |((Covariance.new : Covariance (RF2 r)).add p.1 p.2).avg_y.val - p.2.val| ≤ ε)
    (σx σy : K) (hσx : 0 ≤ σx) (hσy : 0 ≤ σy)
    (hvx : T (fsts (vals ps)) / (ps.length : K) ≤ σx^2)
    (hvy : T (snds (vals ps)) / (ps.length : K) ≤ σy^2) :
    |(ps.foldl (fun (s : Covariance (RF2 r)) p => s.add p.1 p.2)
          Covariance.new).sampleCovariance.val - Cxy (vals ps) / ((ps.length - 1 : ℕ) : K)|
      ≤ (21/4 * ps.length * r.u * σx * σy + 2 * ps.length * r.u * Mx * σy
          + 17/4 * ps.length * r.u * My * σx + 4 * (ps.length : K)^2 * r.u^2 * Mx * My
          + 11/10 * ε * Mx / (ps.length : K))
        * ((ps.length : K) / ((ps.length - 1 : ℕ) : K)) := by
  have hne : ps ≠ [] := by
    intro h; rw [h] at h2; simp at h2
  have hn2 : (2 : K) ≤ ps.length := by exact_mod_cast h2
  have hm : ((ps.length - 1 : ℕ) : K) = (ps.length : K) - 1 := by
    rw [Nat.cast_sub (by omega)]; simp
  have hmpos : (0 : K) < ((ps.length - 1 : ℕ) : K) := by rw [hm]; linarith
  rw [samplecov_val ps h2]
  refine le_trans (cov_div_error_sharp r Mx My hMx hMy ps hne hbx hby hsmall ε hε h1 σx σy hσx hσy
    hvx hvy _ hmpos) (le_of_eq ?_)
  have hnne : (ps.length : K) ≠ 0 := by
    have : (0 : K) < ps.length := by linarith
    exact this.ne'
  have hmne := hmpos.ne'
  field_simp

/-- **Sample covariance inside the envelope of DESIGN.md section 5** (population `σ`s, scale
`sqrt(S_xx·S_yy)/(n-1)`): first pair exact, `4·n·u·Mx ≤ σx` or `4·n·u·My ≤ σy`:
`|sample_covariance - C/(n-1)| ≤ 8·n·u·(σx·σy + max(Mx·σy, My·σx))·n/(n-1)`. -/
theorem samplecov_error_envelope (Mx My : K) (hMx : 0 ≤ Mx) (hMy : 0 ≤ My)
    (ps : List (RF2 r × RF2 r)) (h2 : 2 ≤ ps.length)
    (hbx : ∀ p ∈ ps, |p.1.val| ≤ Mx) (hby : ∀ p ∈ ps, |p.2.val| ≤ My)
    (hsmall : ((ps.length : K) + 28) * r.u ≤ 1/64) (hfirst : FirstExact ps)
    (σx σy : K) (hσx : 0 ≤ σx) (hσy : 0 ≤ σy)
    (hvx : T (fsts (vals ps)) / (ps.length : K) ≤ σx^2)
    (hvy : T (snds (vals ps)) / (ps.length : K) ≤ σy^2)
    (hcond : 4 * (ps.length : K) * r.u * Mx ≤ σx ∨ 4 * (ps.length : K) * r.u * My ≤ σy) :
    |(ps.foldl (fun (s : Covariance (RF2 r)) p => s.add p.1 p.2)
          Covariance.new).sampleCovariance.val - Cxy (vals ps) / ((ps.length - 1 : ℕ) : K)|
      ≤ 8 * ps.length * r.u * (σx * σy + max (Mx * σy) (My * σx))
        * ((ps.length : K) / ((ps.length - 1 : ℕ) : K)) := by
  have hu := r.u_nonneg
  have hn0 : (0 : K) ≤ ps.length := Nat.cast_nonneg _
  have hmpos : (0 : K) < ((ps.length - 1 : ℕ) : K) := by
    have : 0 < ps.length - 1 := by omega
    exact_mod_cast this
  have h := samplecov_error_sharp_pop Mx My hMx hMy ps h2 hbx hby hsmall 0 (le_refl _)
    (h1_of_firstExact hfirst) σx σy hσx hσy hvx hvy
  refine le_trans h ?_
  have hq : 0 ≤ (ps.length : K) / ((ps.length - 1 : ℕ) : K) := by positivity
  have ha := envelope_arith (ps.length : K) r.u σx σy Mx My hn0 hu hσx hσy hMx hMy hcond
  gcongr
  simpa using ha

end access

/-- **The envelope clause of C09 for `sample_covariance`, in the words of DESIGN.md section 5.** Over ℝ,
`n ≥ 2` pairs, population variances `var_x, var_y > 0`, `σx = sqrt(var_x)`, `σy = sqrt(var_y)`,
`κ = 1 + max(Mx/σx, My/σy)`, `(n+28)·u ≤ 1/64`, first pair exact, `4·n·u·Mx ≤ σx` or `4·n·u·My ≤ σy`:
`|sample_covariance - C/(n-1)| ≤ 8·n·κ·u·sqrt(S_xx·S_yy)/(n-1)`. -/
theorem samplecov_envelope_kappa {r : Rnd2 ℝ} [FloatOps (RF2 r)] (Mx My : ℝ) (hMx : 0 ≤ Mx)
    (hMy : 0 ≤ My) (ps : List (RF2 r × RF2 r)) (h2 : 2 ≤ ps.length)
    (hbx : ∀ p ∈ ps, |p.1.val| ≤ Mx) (hby : ∀ p ∈ ps, |p.2.val| ≤ My)
    (hsmall : ((ps.length : ℝ) + 28) * r.u ≤ 1/64) (hfirst : FirstExact ps)
    (hposx : 0 < T (fsts (vals ps)) / (ps.length : ℝ))
    (hposy : 0 < T (snds (vals ps)) / (ps.length : ℝ))
    (hcond : 4 * (ps.length : ℝ) * r.u * Mx ≤ Real.sqrt (T (fsts (vals ps)) / (ps.length : ℝ))
      ∨ 4 * (ps.length : ℝ) * r.u * My ≤ Real.sqrt (T (snds (vals ps)) / (ps.length : ℝ))) :
    |(ps.foldl (fun (s : Covariance (RF2 r)) p => s.add p.1 p.2)
          Covariance.new).sampleCovariance.val - Cxy (vals ps) / ((ps.length - 1 : ℕ) : ℝ)|
      ≤ 8 * ps.length
          * (1 + max (Mx / Real.sqrt (T (fsts (vals ps)) / (ps.length : ℝ)))
                     (My / Real.sqrt (T (snds (vals ps)) / (ps.length : ℝ)))) * r.u
          * (Real.sqrt (T (fsts (vals ps)) * T (snds (vals ps))) / ((ps.length - 1 : ℕ) : ℝ)) := by
  have hnpos : (0 : ℝ) < ps.length := by
    have : 0 < ps.length := by omega
    exact_mod_cast this
  have hmpos : (0 : ℝ) < ((ps.length - 1 : ℕ) : ℝ) := by
    have : 0 < ps.length - 1 := by omega
    exact_mod_cast this
  set n : ℝ := (ps.length : ℝ) with hn
  set m : ℝ := ((ps.length - 1 : ℕ) : ℝ) with hm
  set vx := T (fsts (vals ps)) / n with hvx
  set vy := T (snds (vals ps)) / n with hvy
  have hσx : 0 < Real.sqrt vx := Real.sqrt_pos.mpr hposx
  have hσy : 0 < Real.sqrt vy := Real.sqrt_pos.mpr hposy
  have hsqx : Real.sqrt vx ^ 2 = vx := Real.sq_sqrt hposx.le
  have hsqy : Real.sqrt vy ^ 2 = vy := Real.sq_sqrt hposy.le
  have h := samplecov_error_envelope Mx My hMx hMy ps h2 hbx hby hsmall hfirst (Real.sqrt vx)
    (Real.sqrt vy) hσx.le hσy.le (le_of_eq hsqx.symm) (le_of_eq hsqy.symm) hcond
  refine le_trans h (le_of_eq ?_)
  have hTx : T (fsts (vals ps)) = n * vx := by rw [hvx]; field_simp
  have hTy : T (snds (vals ps)) = n * vy := by rw [hvy]; field_simp
  have hscale : Real.sqrt (T (fsts (vals ps)) * T (snds (vals ps)))
      = n * (Real.sqrt vx * Real.sqrt vy) := by
    have : T (fsts (vals ps)) * T (snds (vals ps)) = (n * (Real.sqrt vx * Real.sqrt vy))^2 := by
      rw [hTx, hTy, mul_pow, mul_pow, hsqx, hsqy]; ring
    rw [this, Real.sqrt_sq (by positivity)]
  rw [hscale]
  have hmax : max (Mx / Real.sqrt vx) (My / Real.sqrt vy) * (Real.sqrt vx * Real.sqrt vy)
      = max (Mx * Real.sqrt vy) (My * Real.sqrt vx) := by
    rw [max_mul_of_nonneg _ _ (by positivity)]
    congr 1 <;> field_simp
  calc 8 * n * r.u * (Real.sqrt vx * Real.sqrt vy + max (Mx * Real.sqrt vy) (My * Real.sqrt vx))
        * (n / m)
      = 8 * n * r.u * (Real.sqrt vx * Real.sqrt vy
          + max (Mx / Real.sqrt vx) (My / Real.sqrt vy) * (Real.sqrt vx * Real.sqrt vy))
        * (n / m) := by rw [hmax]
    _ = _ := by ring

end CovErr

#print axioms CovErr.cov_div_error_sharp
#print axioms CovErr.samplecov_error_sharp_pop
#print axioms CovErr.samplecov_error_envelope
#print axioms CovErr.samplecov_envelope_kappa
