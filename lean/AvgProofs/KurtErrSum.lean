import AvgProofs.KurtErrFold
import AvgProofs.KurtErrHardy2
import AvgProofs.SkewErrSum

/-!
# Bounding the accumulated error terms of `sum_4`

`stepTerm4_le`: the contribution of observation `i` is bounded by a combination of "basis" summands:
the three parts of the exact increment, `|d_i|³ρ_i` (sums to `VR`), `d_i²ρ_i` (sums to `T`), `|d_i|ρ_i`
(sums to `W ≤ sqrt(n·T)`), `3|d_i|T_i/(i+1)` (sums to `VB` of `sum_3`), `4|d_i|·V3p_i/(i+1)` (sums to
`VD4`), `(|d_i|/(i+1))·W_i` (sums to at most `4T`), `1` and `i`;
`ρ_i = i/(i+1)`; whenever `E_i ≤ Eb`, `E_i ≤ η·(i+1)`, `F_i ≤ a1·i·T_i + a2·i + a3·i³` and
`H_i ≤ p1·N·V3p_i + p2·N·T_i + w·W_i + h3·i` (`H_0 = 0`).

`errSum4_le`: the sum.
-/
open Avg MSpec Finset VarSpec SkewSpec KurtSpec SkewErr

namespace KurtErr
variable {K : Type} [Field K] [LinearOrder K] [IsStrictOrderedRing K]

/-- `4·|d|·V/(i+1)`: the part of the increment that carries the rounding errors of `sum_3` (relative to
`V = V3p` of the prefix) -/
def incD4 (i : ℕ) (d Vi : K) : K := 4 * |d| * Vi / ((i : K) + 1)

theorem incD4_nonneg (i : ℕ) (d Vi : K) (hV : 0 ≤ Vi) : 0 ≤ incD4 i d Vi := by
  unfold incD4; positivity

/-- `Σ 4·|d_i|·V3p(x_0..x_{i-1})/(i+1)`: the scale of the rounding errors of `sum_3` carried into
`sum_4` (at least `VC4`, since `|U| ≤ V3p`) -/
def VD4 (vs : List K) : K := ∑ i ∈ range vs.length, incD4 i (dev vs i) (V3p (vs.take i))

theorem VD4_nonneg (vs : List K) : 0 ≤ VD4 vs :=
  sum_nonneg (fun i _ => incD4_nonneg i _ _ (V3p_nonneg _))

theorem VC4_le_VD4 (vs : List K) : VC4 vs ≤ VD4 vs := by
  unfold VC4 VD4
  apply sum_le_sum
  intro i _
  unfold incC4 incD4
  have := abs_U_le (vs.take i)
  gcongr

/-- `Σ |d_i|³·i/(i+1)` -/
def VR (vs : List K) : K := ∑ i ∈ range vs.length, |dev vs i|^3 * ((i : K) / ((i : K) + 1))

theorem VR_nonneg (vs : List K) : 0 ≤ VR vs :=
  sum_nonneg (fun i _ => mul_nonneg (by positivity) (ratio_nonneg i))

/-- `ρ_i/(i+1) ≤ ρ_i/2` (`ρ_0 = 0`) -/
theorem ratio_div_le (i : ℕ) :
    (i : K) / ((i : K) + 1) / ((i : K) + 1) ≤ (i : K) / ((i : K) + 1) / 2 := by
  rcases Nat.eq_zero_or_pos i with h | h
  · subst h; simp
  · have h1 : (1 : K) ≤ i := by exact_mod_cast h
    have hρ := ratio_nonneg (K := K) i
    apply div_le_div_of_nonneg_left hρ (by norm_num) (by linarith)

/-- the part of `stepTerm4` that comes from the error of the mean in `d⁴` -/
theorem partA_le (i : ℕ) (d Ei Eb : K) (hE0 : 0 ≤ Ei) (hEb : Ei ≤ Eb) :
    cQ i * (4 * |d|^3 * Ei + 6 * d^2 * Ei^2 + 4 * |d| * Ei^3 + Ei^4)
      ≤ 4 * Eb * (|d|^3 * ((i : K) / ((i : K) + 1))) + 6 * Eb^2 * (d^2 * ((i : K) / ((i : K) + 1)))
        + 4 * Eb^3 * (|d| * ((i : K) / ((i : K) + 1))) + Eb^4 := by
  set ρ : K := (i : K) / ((i : K) + 1) with hρ
  have hρ0 : 0 ≤ ρ := ratio_nonneg i
  have hc0 := cQ_nonneg (K := K) i
  have hcρ : cQ i ≤ ρ := cQ_le_ratio i
  have hc1 : (cQ i : K) ≤ 1 := cQ_le_one i
  have hd0 : 0 ≤ |d| := abs_nonneg d
  have hEb0 : 0 ≤ Eb := le_trans hE0 hEb
  have a : cQ i * (4 * |d|^3 * Ei) ≤ ρ * (4 * |d|^3 * Eb) := by gcongr
  have b : cQ i * (6 * d^2 * Ei^2) ≤ ρ * (6 * d^2 * Eb^2) := by gcongr
  have c : cQ i * (4 * |d| * Ei^3) ≤ ρ * (4 * |d| * Eb^3) := by gcongr
  have e : cQ i * Ei^4 ≤ 1 * Eb^4 := by gcongr
  calc cQ i * (4 * |d|^3 * Ei + 6 * d^2 * Ei^2 + 4 * |d| * Ei^3 + Ei^4)
      = cQ i * (4 * |d|^3 * Ei) + cQ i * (6 * d^2 * Ei^2) + cQ i * (4 * |d| * Ei^3)
          + cQ i * Ei^4 := by ring
    _ ≤ ρ * (4 * |d|^3 * Eb) + ρ * (6 * d^2 * Eb^2) + ρ * (4 * |d| * Eb^3) + 1 * Eb^4 := by
        linarith
    _ = 4 * Eb * (|d|^3 * ρ) + 6 * Eb^2 * (d^2 * ρ) + 4 * Eb^3 * (|d| * ρ) + Eb^4 := by ring

/-- the part of `stepTerm4` that comes from the errors of the mean and of `sum_2` in `6d²T/k²` -/
theorem partB_le (i : ℕ) (d Ti Tn n Ei Fi η a1 a2 a3 : K) (hTi : 0 ≤ Ti) (hTn : Ti ≤ Tn)
    (hin : (i : K) + 1 ≤ n) (hE0 : 0 ≤ Ei) (hEη : Ei ≤ η * ((i : K) + 1)) (hF0 : 0 ≤ Fi)
    (hF : Fi ≤ a1 * i * Ti + a2 * i + a3 * (i : K)^3)
    (ha1 : 0 ≤ a1) (ha2 : 0 ≤ a2) (ha3 : 0 ≤ a3) (hη : 0 ≤ η) :
    6 / ((i : K) + 1)^2 * (d^2 * Fi + (2 * |d| * Ei + Ei^2) * (Ti + Fi))
      ≤ (a1 * n) * incB4 i d Ti + 3 * (a2 + a3 * n^2) * (d^2 * ((i : K) / ((i : K) + 1)))
        + 4 * η * incB i d Ti + 6 * η^2 * Tn
        + 12 * η * (a1 * Tn + a2 + a3 * n^2) * (|d| * ((i : K) / ((i : K) + 1)))
        + 6 * η^2 * (a1 * Tn + a2 + a3 * n^2) * i := by
  have hi0 : (0 : K) ≤ i := Nat.cast_nonneg i
  have hp : (0 : K) < (i : K) + 1 := by linarith
  have hn0 : 0 ≤ n := by linarith
  have hiN : (i : K) ≤ n := by linarith
  have hTn0 : 0 ≤ Tn := le_trans hTi hTn
  have hd0 : 0 ≤ |d| := abs_nonneg d
  set ρ : K := (i : K) / ((i : K) + 1) with hρ
  have hρ0 : 0 ≤ ρ := ratio_nonneg i
  have hq : Ei / ((i : K) + 1) ≤ η := by rw [div_le_iff₀ hp]; exact hEη
  have hq0 : 0 ≤ Ei / ((i : K) + 1) := by positivity
  have hi2 : (i : K)^2 ≤ n^2 := by gcongr
  have hφ : a1 * Ti + a2 + a3 * (i : K)^2 ≤ a1 * Tn + a2 + a3 * n^2 := by gcongr
  have hφ0 : 0 ≤ a1 * Ti + a2 + a3 * (i : K)^2 := by positivity
  have hf0 : 0 ≤ a1 * Tn + a2 + a3 * n^2 := by positivity
  have hFi : Fi ≤ (i : K) * (a1 * Ti + a2 + a3 * (i : K)^2) := by
    calc Fi ≤ a1 * i * Ti + a2 * i + a3 * (i : K)^3 := hF
      _ = (i : K) * (a1 * Ti + a2 + a3 * (i : K)^2) := by ring
  have hFi' : Fi ≤ (i : K) * (a1 * Tn + a2 + a3 * n^2) :=
    le_trans hFi (by gcongr)
  have hB40 := incB4_nonneg i d Ti hTi
  have hrd := ratio_div_le (K := K) i
  -- B1
  have b1 : 6 / ((i : K) + 1)^2 * (d^2 * Fi)
      ≤ (a1 * n) * incB4 i d Ti + 3 * (a2 + a3 * n^2) * (d^2 * ρ) := by
    have e : 6 / ((i : K) + 1)^2 * (d^2 * ((i : K) * (a1 * Ti + a2 + a3 * (i : K)^2)))
        = (a1 * i) * incB4 i d Ti + 6 * (a2 + a3 * (i : K)^2) * (d^2 * (ρ / ((i : K) + 1))) := by
      unfold incB4; rw [hρ]; field_simp; ring
    calc 6 / ((i : K) + 1)^2 * (d^2 * Fi)
        ≤ 6 / ((i : K) + 1)^2 * (d^2 * ((i : K) * (a1 * Ti + a2 + a3 * (i : K)^2))) := by gcongr
      _ = (a1 * i) * incB4 i d Ti + 6 * (a2 + a3 * (i : K)^2) * (d^2 * (ρ / ((i : K) + 1))) := e
      _ ≤ (a1 * n) * incB4 i d Ti + 6 * (a2 + a3 * n^2) * (d^2 * (ρ / 2)) := by gcongr
      _ = (a1 * n) * incB4 i d Ti + 3 * (a2 + a3 * n^2) * (d^2 * ρ) := by ring
  -- B2
  have b2 : 6 / ((i : K) + 1)^2 * (2 * |d| * Ei * Ti) ≤ 4 * η * incB i d Ti := by
    calc 6 / ((i : K) + 1)^2 * (2 * |d| * Ei * Ti)
        = 4 * (Ei / ((i : K) + 1)) * (3 * |d| * Ti / ((i : K) + 1)) := by field_simp; ring
      _ ≤ 4 * η * (3 * |d| * Ti / ((i : K) + 1)) := by gcongr
      _ = 4 * η * incB i d Ti := by unfold incB; ring
  -- B3
  have b3 : 6 / ((i : K) + 1)^2 * (Ei^2 * Ti) ≤ 6 * η^2 * Tn := by
    calc 6 / ((i : K) + 1)^2 * (Ei^2 * Ti) = 6 * (Ei / ((i : K) + 1))^2 * Ti := by
          field_simp
      _ ≤ 6 * η^2 * Tn := by gcongr
  -- B4
  have b4 : 6 / ((i : K) + 1)^2 * (2 * |d| * Ei * Fi)
      ≤ 12 * η * (a1 * Tn + a2 + a3 * n^2) * (|d| * ρ) := by
    calc 6 / ((i : K) + 1)^2 * (2 * |d| * Ei * Fi)
        = 12 * (Ei / ((i : K) + 1)) * (|d| * (Fi / ((i : K) + 1))) := by field_simp; ring
      _ ≤ 12 * η * (|d| * ((i : K) * (a1 * Tn + a2 + a3 * n^2) / ((i : K) + 1))) := by gcongr
      _ = 12 * η * (a1 * Tn + a2 + a3 * n^2) * (|d| * ρ) := by rw [hρ]; ring
  -- B5
  have b5 : 6 / ((i : K) + 1)^2 * (Ei^2 * Fi) ≤ 6 * η^2 * (a1 * Tn + a2 + a3 * n^2) * i := by
    calc 6 / ((i : K) + 1)^2 * (Ei^2 * Fi) = 6 * (Ei / ((i : K) + 1))^2 * Fi := by
          field_simp
      _ ≤ 6 * η^2 * ((i : K) * (a1 * Tn + a2 + a3 * n^2)) := by gcongr
      _ = 6 * η^2 * (a1 * Tn + a2 + a3 * n^2) * i := by ring
  have e : 6 / ((i : K) + 1)^2 * (d^2 * Fi + (2 * |d| * Ei + Ei^2) * (Ti + Fi))
      = 6 / ((i : K) + 1)^2 * (d^2 * Fi) + 6 / ((i : K) + 1)^2 * (2 * |d| * Ei * Ti)
        + 6 / ((i : K) + 1)^2 * (Ei^2 * Ti) + 6 / ((i : K) + 1)^2 * (2 * |d| * Ei * Fi)
        + 6 / ((i : K) + 1)^2 * (Ei^2 * Fi) := by ring
  rw [e]
  linarith

/-- `|d|/(i+1)` for `i ≥ 1`, `0` for `i = 0` (as `SkewErr.rr`, for a given deviation) -/
def rrv (i : ℕ) (d : K) : K := if i = 0 then 0 else |d| / ((i : K) + 1)

theorem rrv_nonneg (i : ℕ) (d : K) : 0 ≤ rrv i d := by
  unfold rrv; split_ifs <;> positivity

/-- the part of `stepTerm4` that comes from the errors of the mean and of `sum_3` in `4dU/k` -/
theorem partC_le (i : ℕ) (d Ti Ui Vi Wi Tn Vn Nn R₀ Ei Hi η p1 p2 w h3 : K)
    (hTi : 0 ≤ Ti) (hTn : Ti ≤ Tn) (hVi : 0 ≤ Vi) (hVn : Vi ≤ Vn) (hUi : |Ui| ≤ Vn)
    (hWi : 0 ≤ Wi) (hWR : Wi ≤ R₀) (hNn : 0 ≤ Nn)
    (hE0 : 0 ≤ Ei) (hEη : Ei ≤ η * ((i : K) + 1)) (hH0 : 0 ≤ Hi)
    (hH : Hi ≤ if i = 0 then 0 else p1 * Nn * Vi + p2 * Nn * Ti + w * Wi + h3 * i)
    (hη : 0 ≤ η) (hp1 : 0 ≤ p1) (hp2 : 0 ≤ p2) (hw : 0 ≤ w) (hh3 : 0 ≤ h3) :
    4 / ((i : K) + 1) * (|d| * Hi + Ei * |Ui| + Ei * Hi)
      ≤ (p1 * Nn) * incD4 i d Vi + (4/3 * p2 * Nn) * incB i d Ti + 4 * w * (rrv i d * Wi)
        + 4 * h3 * (|d| * ((i : K) / ((i : K) + 1))) + 4 * η * Vn
        + 4 * η * (p1 * Nn * Vn + p2 * Nn * Tn + w * R₀) + 4 * η * h3 * i := by
  have hi0 : (0 : K) ≤ i := Nat.cast_nonneg i
  have hp : (0 : K) < (i : K) + 1 := by linarith
  have hd0 : 0 ≤ |d| := abs_nonneg d
  have hq : Ei / ((i : K) + 1) ≤ η := by rw [div_le_iff₀ hp]; exact hEη
  have hq0 : 0 ≤ Ei / ((i : K) + 1) := by positivity
  have hVn0 : 0 ≤ Vn := le_trans hVi hVn
  have hTn0 : 0 ≤ Tn := le_trans hTi hTn
  have hR0 : 0 ≤ R₀ := le_trans hWi hWR
  have hD0 := incD4_nonneg i d Vi hVi
  have hB0 := incB_nonneg i d Ti hTi
  have hr0 := rrv_nonneg i d
  -- uniform bound of H
  have hHb : Hi ≤ p1 * Nn * Vn + p2 * Nn * Tn + w * R₀ + h3 * i := by
    refine le_trans hH ?_
    split_ifs
    · positivity
    · gcongr
  -- C1
  have c1 : 4 / ((i : K) + 1) * (|d| * Hi)
      ≤ (p1 * Nn) * incD4 i d Vi + (4/3 * p2 * Nn) * incB i d Ti + 4 * w * (rrv i d * Wi)
        + 4 * h3 * (|d| * ((i : K) / ((i : K) + 1))) := by
    by_cases h0 : i = 0
    · rw [if_pos h0] at hH
      have : Hi = 0 := le_antisymm hH hH0
      rw [this, mul_zero, mul_zero]
      positivity
    · rw [if_neg h0] at hH
      have e : 4 / ((i : K) + 1) * (|d| * (p1 * Nn * Vi + p2 * Nn * Ti + w * Wi + h3 * i))
          = (p1 * Nn) * incD4 i d Vi + (4/3 * p2 * Nn) * incB i d Ti + 4 * w * (rrv i d * Wi)
            + 4 * h3 * (|d| * ((i : K) / ((i : K) + 1))) := by
        unfold incD4 incB rrv
        rw [if_neg h0]
        field_simp
      rw [← e]
      gcongr
  -- C2
  have c2 : 4 / ((i : K) + 1) * (Ei * |Ui|) ≤ 4 * η * Vn := by
    calc 4 / ((i : K) + 1) * (Ei * |Ui|) = 4 * (Ei / ((i : K) + 1)) * |Ui| := by ring
      _ ≤ 4 * η * Vn := by gcongr
  -- C3
  have c3 : 4 / ((i : K) + 1) * (Ei * Hi)
      ≤ 4 * η * (p1 * Nn * Vn + p2 * Nn * Tn + w * R₀) + 4 * η * h3 * i := by
    calc 4 / ((i : K) + 1) * (Ei * Hi) = 4 * (Ei / ((i : K) + 1)) * Hi := by ring
      _ ≤ 4 * η * (p1 * Nn * Vn + p2 * Nn * Tn + w * R₀ + h3 * i) := by gcongr
      _ = 4 * η * (p1 * Nn * Vn + p2 * Nn * Tn + w * R₀) + 4 * η * h3 * i := by ring
  have e : 4 / ((i : K) + 1) * (|d| * Hi + Ei * |Ui| + Ei * Hi)
      = 4 / ((i : K) + 1) * (|d| * Hi) + 4 / ((i : K) + 1) * (Ei * |Ui|)
        + 4 / ((i : K) + 1) * (Ei * Hi) := by ring
  rw [e]
  linarith

/-- the contribution of one observation, bounded by the basis summands -/
theorem stepTerm4_le (u : K) (hu : 0 ≤ u) (E F H : ℕ → K) (i : ℕ)
    (d Ti Ui Vi Wi Tn Vn n Nn R₀ Eb η a1 a2 a3 p1 p2 w h3 : K)
    (hTi : 0 ≤ Ti) (hTn : Ti ≤ Tn) (hVi : 0 ≤ Vi) (hVn : Vi ≤ Vn) (hUi : |Ui| ≤ Vn)
    (hWi : 0 ≤ Wi) (hWR : Wi ≤ R₀) (hin : (i : K) + 1 ≤ n) (hNn : 0 ≤ Nn)
    (hE0 : 0 ≤ E i) (hEb : E i ≤ Eb) (hEη : E i ≤ η * ((i : K) + 1))
    (hF0 : 0 ≤ F i) (hF : F i ≤ a1 * i * Ti + a2 * i + a3 * (i : K)^3)
    (hH0 : 0 ≤ H i)
    (hH : H i ≤ if i = 0 then 0 else p1 * Nn * Vi + p2 * Nn * Ti + w * Wi + h3 * i)
    (ha1 : 0 ≤ a1) (ha2 : 0 ≤ a2) (ha3 : 0 ≤ a3) (hη : 0 ≤ η)
    (hp1 : 0 ≤ p1) (hp2 : 0 ≤ p2) (hw : 0 ≤ w) (hh3 : 0 ≤ h3) :
    stepTerm4 u E F H i d Ti Ui ≤
      g u 54 * incA4 i d + (g u 9 + (1 + g u 9) * (a1 * n)) * incB4 i d Ti + g u 5 * incC4 i d Ui
      + (1 + g u 54) * (4 * Eb) * (|d|^3 * ((i : K) / ((i : K) + 1)))
      + ((1 + g u 54) * (6 * Eb^2) + (1 + g u 9) * (3 * (a2 + a3 * n^2)))
          * (d^2 * ((i : K) / ((i : K) + 1)))
      + ((1 + g u 54) * (4 * Eb^3) + (1 + g u 9) * (12 * η * (a1 * Tn + a2 + a3 * n^2))
          + (1 + g u 5) * (4 * h3)) * (|d| * ((i : K) / ((i : K) + 1)))
      + ((1 + g u 9) * (4 * η) + (1 + g u 5) * (4/3 * p2 * Nn)) * incB i d Ti
      + (1 + g u 5) * (p1 * Nn) * incD4 i d Vi
      + (1 + g u 5) * (4 * w) * (rrv i d * Wi)
      + ((1 + g u 54) * Eb^4 + (1 + g u 9) * (6 * η^2 * Tn)
          + (1 + g u 5) * (4 * η * Vn + 4 * η * (p1 * Nn * Vn + p2 * Nn * Tn + w * R₀)))
      + ((1 + g u 9) * (6 * η^2 * (a1 * Tn + a2 + a3 * n^2)) + (1 + g u 5) * (4 * η * h3)) * i := by
  have h54 := g_nonneg hu 54
  have h9 := g_nonneg hu 9
  have h5 := g_nonneg hu 5
  have pA := partA_le i d (E i) Eb hE0 hEb
  have pB := partB_le i d Ti Tn n (E i) (F i) η a1 a2 a3 hTi hTn hin hE0 hEη hF0 hF ha1 ha2 ha3 hη
  have pC := partC_le i d Ti Ui Vi Wi Tn Vn Nn R₀ (E i) (H i) η p1 p2 w h3 hTi hTn hVi hVn hUi
    hWi hWR hNn hE0 hEη hH0 hH hη hp1 hp2 hw hh3
  have qA := mul_le_mul_of_nonneg_left pA (by linarith : 0 ≤ 1 + g u 54)
  have qB := mul_le_mul_of_nonneg_left pB (by linarith : 0 ≤ 1 + g u 9)
  have qC := mul_le_mul_of_nonneg_left pC (by linarith : 0 ≤ 1 + g u 5)
  unfold stepTerm4
  linarith

/-- `W` of a prefix is at most `R₀` when `n·T ≤ R₀²` -/
theorem W_take_le_R (vs : List K) (i : ℕ) (R₀ : K) (hR : 0 ≤ R₀)
    (hRT : (vs.length : K) * T vs ≤ R₀^2) : W (vs.take i) ≤ R₀ := by
  apply W_le _ R₀ hR
  have hlen : ((vs.take i).length : K) ≤ vs.length := by
    rw [List.length_take]; exact_mod_cast min_le_right _ _
  have hT := T_take_le vs i
  have hT0 := T_nonneg (vs.take i)
  calc ((vs.take i).length : K) * T (vs.take i) ≤ (vs.length : K) * T vs := by gcongr
    _ ≤ R₀^2 := hRT

/-- `V3p` of a prefix is at most `V3p` of the whole stream -/
theorem V3p_take_le (vs : List K) (i : ℕ) : V3p (vs.take i) ≤ V3p vs := by
  induction vs using List.reverseRecOn with
  | nil => simp
  | append_singleton vs x ih =>
    rcases Nat.lt_or_ge vs.length i with h | h
    · rw [List.take_of_length_le (by simp; omega)]
    · rw [List.take_append_of_le_length h]
      exact le_trans ih (V3p_mono vs x)

/-- **The accumulated bound.** -/
theorem errSum4_le (u : K) (hu : 0 ≤ u) (E F H : ℕ → K) (vs : List K)
    (Nn R₀ Eb η a1 a2 a3 p1 p2 w h3 : K)
    (hE0 : ∀ i, 0 ≤ E i) (hEb0 : 0 ≤ Eb) (hEb : ∀ i, i < vs.length → E i ≤ Eb)
    (hEη : ∀ i, i < vs.length → E i ≤ η * ((i : K) + 1))
    (hF0 : ∀ i, 0 ≤ F i)
    (hF : ∀ i, i < vs.length → F i ≤ a1 * i * T (vs.take i) + a2 * i + a3 * (i : K)^3)
    (hH0 : ∀ i, 0 ≤ H i)
    (hH : ∀ i, i < vs.length → H i ≤ if i = 0 then 0 else
      p1 * Nn * V3p (vs.take i) + p2 * Nn * T (vs.take i) + w * W (vs.take i) + h3 * i)
    (ha1 : 0 ≤ a1) (ha2 : 0 ≤ a2) (ha3 : 0 ≤ a3) (hη : 0 ≤ η)
    (hp1 : 0 ≤ p1) (hp2 : 0 ≤ p2) (hw : 0 ≤ w) (hh3 : 0 ≤ h3) (hNn : 0 ≤ Nn)
    (hR : 0 ≤ R₀) (hRT : (vs.length : K) * T vs ≤ R₀^2) :
    errSum4 u E F H vs ≤
      g u 54 * VA4 vs + (g u 9 + (1 + g u 9) * (a1 * vs.length)) * VB4 vs + g u 5 * VC4 vs
      + (1 + g u 54) * (4 * Eb) * VR vs
      + ((1 + g u 54) * (6 * Eb^2) + (1 + g u 9) * (3 * (a2 + a3 * (vs.length : K)^2))) * T vs
      + ((1 + g u 54) * (4 * Eb^3)
          + (1 + g u 9) * (12 * η * (a1 * T vs + a2 + a3 * (vs.length : K)^2))
          + (1 + g u 5) * (4 * h3)) * R₀
      + ((1 + g u 9) * (4 * η) + (1 + g u 5) * (4/3 * p2 * Nn)) * VB vs
      + (1 + g u 5) * (p1 * Nn) * VD4 vs
      + (1 + g u 5) * (4 * w) * (4 * T vs)
      + ((1 + g u 54) * Eb^4 + (1 + g u 9) * (6 * η^2 * T vs)
          + (1 + g u 5) * (4 * η * V3p vs
              + 4 * η * (p1 * Nn * V3p vs + p2 * Nn * T vs + w * R₀))) * vs.length
      + ((1 + g u 9) * (6 * η^2 * (a1 * T vs + a2 + a3 * (vs.length : K)^2))
          + (1 + g u 5) * (4 * η * h3)) * ((vs.length : K)^2 / 2) := by
  have h54 := g_nonneg hu 54
  have h9 := g_nonneg hu 9
  have h5 := g_nonneg hu 5
  have hT0 := T_nonneg vs
  have hn0 : (0 : K) ≤ vs.length := Nat.cast_nonneg _
  have hterm : ∀ i ∈ range vs.length,
      stepTerm4 u E F H i (dev vs i) (T (vs.take i)) (U (vs.take i)) ≤
      g u 54 * incA4 i (dev vs i)
      + (g u 9 + (1 + g u 9) * (a1 * vs.length)) * incB4 i (dev vs i) (T (vs.take i))
      + g u 5 * incC4 i (dev vs i) (U (vs.take i))
      + (1 + g u 54) * (4 * Eb) * (|dev vs i|^3 * ((i : K) / ((i : K) + 1)))
      + ((1 + g u 54) * (6 * Eb^2) + (1 + g u 9) * (3 * (a2 + a3 * (vs.length : K)^2)))
          * ((dev vs i)^2 * ((i : K) / ((i : K) + 1)))
      + ((1 + g u 54) * (4 * Eb^3)
          + (1 + g u 9) * (12 * η * (a1 * T vs + a2 + a3 * (vs.length : K)^2))
          + (1 + g u 5) * (4 * h3)) * (|dev vs i| * ((i : K) / ((i : K) + 1)))
      + ((1 + g u 9) * (4 * η) + (1 + g u 5) * (4/3 * p2 * Nn))
          * incB i (dev vs i) (T (vs.take i))
      + (1 + g u 5) * (p1 * Nn) * incD4 i (dev vs i) (V3p (vs.take i))
      + (1 + g u 5) * (4 * w) * (rr vs i * W (vs.take i))
      + ((1 + g u 54) * Eb^4 + (1 + g u 9) * (6 * η^2 * T vs)
          + (1 + g u 5) * (4 * η * V3p vs
              + 4 * η * (p1 * Nn * V3p vs + p2 * Nn * T vs + w * R₀)))
      + ((1 + g u 9) * (6 * η^2 * (a1 * T vs + a2 + a3 * (vs.length : K)^2))
          + (1 + g u 5) * (4 * η * h3)) * i := by
    intro i hi
    have hi' := mem_range.mp hi
    have hin : (i : K) + 1 ≤ vs.length := by exact_mod_cast hi'
    have hUi : |U (vs.take i)| ≤ V3p vs := le_trans (abs_U_le _) (V3p_take_le vs i)
    have hrr : rr vs i = rrv i (dev vs i) := rfl
    rw [hrr]
    exact stepTerm4_le u hu E F H i (dev vs i) (T (vs.take i)) (U (vs.take i)) (V3p (vs.take i))
      (W (vs.take i)) (T vs) (V3p vs) vs.length Nn R₀ Eb η a1 a2 a3 p1 p2 w h3
      (T_nonneg _) (T_take_le vs i) (V3p_nonneg _) (V3p_take_le vs i) hUi (W_nonneg _)
      (W_take_le_R vs i R₀ hR hRT) hin hNn (hE0 i) (hEb i hi') (hEη i hi') (hF0 i) (hF i hi')
      (hH0 i) (hH i hi') ha1 ha2 ha3 hη hp1 hp2 hw hh3
  refine le_trans (sum_le_sum hterm) ?_
  simp only [sum_add_distrib, ← mul_sum, sum_const, card_range, nsmul_eq_mul]
  have hW := W_le vs R₀ hR hRT
  have hS := sum_id_le (K := K) vs.length
  have hrrW := sum_rr_W_le vs
  have eVA : ∑ i ∈ range vs.length, incA4 i (dev vs i) = VA4 vs := rfl
  have eVB4 : ∑ i ∈ range vs.length, incB4 i (dev vs i) (T (vs.take i)) = VB4 vs := rfl
  have eVC : ∑ i ∈ range vs.length, incC4 i (dev vs i) (U (vs.take i)) = VC4 vs := rfl
  have eVR : ∑ i ∈ range vs.length, |dev vs i|^3 * ((i : K) / ((i : K) + 1)) = VR vs := rfl
  have eT : ∑ i ∈ range vs.length, (dev vs i)^2 * ((i : K) / ((i : K) + 1)) = T vs :=
    (T_eq_sum vs).symm
  have eW : ∑ i ∈ range vs.length, |dev vs i| * ((i : K) / ((i : K) + 1)) = W vs := rfl
  have eVB : ∑ i ∈ range vs.length, incB i (dev vs i) (T (vs.take i)) = VB vs := rfl
  have eVD : ∑ i ∈ range vs.length, incD4 i (dev vs i) (V3p (vs.take i)) = VD4 vs := rfl
  rw [eVA, eVB4, eVC, eVR, eT, eW, eVB, eVD]
  have c6 : 0 ≤ (1 + g u 54) * (4 * Eb^3)
      + (1 + g u 9) * (12 * η * (a1 * T vs + a2 + a3 * (vs.length : K)^2))
      + (1 + g u 5) * (4 * h3) := by
    have hEb3 : 0 ≤ Eb^3 := pow_nonneg hEb0 3
    positivity
  have c9 : 0 ≤ (1 + g u 5) * (4 * w) := by positivity
  have c12 : 0 ≤ (1 + g u 9) * (6 * η^2 * (a1 * T vs + a2 + a3 * (vs.length : K)^2))
      + (1 + g u 5) * (4 * η * h3) := by
    positivity
  have m6 := mul_le_mul_of_nonneg_left hW c6
  have m9 := mul_le_mul_of_nonneg_left hrrW c9
  have m12 := mul_le_mul_of_nonneg_left hS c12
  linarith

end KurtErr

#print axioms KurtErr.stepTerm4_le
#print axioms KurtErr.errSum4_le
