import AvgProofs.VarErr
import AvgProofs.MeanErrSharp

/-!
# Sharper constants for the forward error of Welford's sum of squares

Uses `mean_fold_error_sharp` (`|avg_k - mean_k| ≤ β·(k + 37/4)`, `β = (65/128)·u·M`, and `= 0` for
`k = 0`) in the general theorem `var_fold_error_cs`.

* `var_fold_error_sharp` - symbolic: `|sum_2 - T| ≤ (1+u)^n·((γ+n·u)·T + (1+γ)·(2R + β²·Q n))` for any
  `R ≥ 0` with `β²·Q n·T ≤ R²`, where `Q n = Σ_{1≤i<n}(i+37/4)² = n³/3 + 35n²/4 + 3671n/48 - 1369/16`.
  To first order and for large `n`: `n·u·T + (1/√3)·n·u·M·sqrt(n·T)`.
* `var_fold_error_sharp_num` - numerals: `(109/20)·n·u·T + (79/20)·n·u·M·R₀ + (15/4)·n³·u²·M²`
  whenever `(n+28)·u ≤ 1/64`, `n·T ≤ R₀²`.
-/
open Avg MSpec Finset VarSpec

namespace VarErr
variable {K : Type} [Field K] [LinearOrder K] [IsStrictOrderedRing K]

/-- bound on the error of the running mean after `i` observations (exactly 0 before the first) -/
def Esharp (β : K) (i : ℕ) : K := if i = 0 then 0 else β * ((i : K) + 37/4)

theorem Esharp_nonneg {β : K} (hβ : 0 ≤ β) (i : ℕ) : 0 ≤ Esharp β i := by
  unfold Esharp; split_ifs <;> positivity

/-- `Q n = Σ_{1 ≤ i < n} (i + 37/4)²` in closed form (valid for `n ≥ 1`) -/
def Qc (n : K) : K := n^3 / 3 + 35/4 * n^2 + 3671/48 * n - 1369/16

theorem sum_Esharp_sq (β : K) : ∀ n : ℕ, 1 ≤ n →
    ∑ i ∈ range n, (Esharp β i)^2 = β^2 * Qc (n : K) := by
  intro n hn
  induction n, hn using Nat.le_induction with
  | base => simp [Esharp, Qc]; norm_num
  | succ n hn ih =>
    rw [sum_range_succ, ih]
    have : n ≠ 0 := by omega
    simp only [Esharp, this, if_false, Qc]
    push_cast
    ring

theorem Qc_le (n : ℕ) (hn : 1 ≤ n) : Qc (n : K) ≤ 14 * (n : K)^3 := by
  rcases Nat.eq_or_lt_of_le hn with h | h
  · rw [← h]; simp [Qc]; norm_num
  · have h2 : (2 : K) ≤ n := by exact_mod_cast h
    obtain ⟨t, ht⟩ : ∃ t : K, (n : K) = 2 + t := ⟨n - 2, by ring⟩
    have ht0 : 0 ≤ t := by linarith
    rw [ht]; unfold Qc
    have h2 : 0 ≤ t^2 := by positivity
    have h3 : 0 ≤ t^3 := by positivity
    nlinarith

theorem Qc_nonneg (n : ℕ) (hn : 1 ≤ n) : 0 ≤ Qc (n : K) := by
  have h1 : (1 : K) ≤ n := by exact_mod_cast hn
  obtain ⟨t, ht⟩ : ∃ t : K, (n : K) = 1 + t := ⟨n - 1, by ring⟩
  have ht0 : 0 ≤ t := by linarith
  rw [ht]; unfold Qc
  have h2 : 0 ≤ t^2 := by positivity
  have h3 : 0 ≤ t^3 := by positivity
  nlinarith

/-- the hypothesis of the general theorem, from `mean_fold_error_sharp` -/
theorem mean_prefix_sharp (r : Rnd2 K) (M : K) (hM : 0 ≤ M) (xs : List (RF2 r))
    (hb : ∀ x ∈ xs, |x.val| ≤ M) (hsmall : ((xs.length : K) + 28) * r.u ≤ 1/64) :
    ∀ ys, ys <+: xs →
      |(ys.foldl Mean.add Mean.new).avg.val - mean (ys.map RF2.val)|
        ≤ Esharp (65/128 * r.u * M) ys.length := by
  intro ys hys
  have hu := r.u_nonneg
  by_cases hnil : ys = []
  · subst hnil
    have h0 : (Mean.new : Mean (RF2 r)).avg.val = 0 := (Nat.cast_zero : ((0 : ℕ) : K) = 0)
    simp [Esharp, h0, mean]
  · have hne : ys.length ≠ 0 := by
      intro h; exact hnil (List.length_eq_zero_iff.mp h)
    have hlen : (ys.length : K) ≤ xs.length := by exact_mod_cast hys.length_le
    have := mean_fold_error_sharp r M hM ys (fun y hy => hb y (hys.subset hy)) (by nlinarith)
    simp only [Esharp, hne, if_false]
    exact this

/-- **Sharp symbolic form.** `|x_i| ≤ M`, `n ≥ 1`, `(n+28)·u ≤ 1/64`, `β = (65/128)·u·M`, any `R ≥ 0`
with `β²·Q(n)·T ≤ R²`:  `|sum_2 - T| ≤ (1+u)^n·((γ + n·u)·T + (1+γ)·(2R + β²·Q(n)))`. -/
theorem var_fold_error_sharp (r : Rnd2 K) (M : K) (hM : 0 ≤ M) (xs : List (RF2 r)) (hne : xs ≠ [])
    (hb : ∀ x ∈ xs, |x.val| ≤ M) (hsmall : ((xs.length : K) + 28) * r.u ≤ 1/64)
    (R : K) (hR : 0 ≤ R)
    (hRT : (65/128 * r.u * M)^2 * Qc (xs.length : K) * T (xs.map RF2.val) ≤ R^2) :
    |(xs.foldl Variance.add Variance.new).sum_2.val - T (xs.map RF2.val)|
      ≤ (1 + r.u)^xs.length *
          ((gam r.u + xs.length * r.u) * T (xs.map RF2.val)
            + (1 + gam r.u) * (2 * R + (65/128 * r.u * M)^2 * Qc (xs.length : K))) := by
  have hu := r.u_nonneg
  have hn : 1 ≤ xs.length := List.length_pos_of_ne_nil hne
  have hβ : 0 ≤ 65/128 * r.u * M := by positivity
  have h := var_fold_error_cs r (Esharp (65/128 * r.u * M)) (Esharp_nonneg hβ) xs
    (mean_prefix_sharp r M hM xs hb hsmall) R hR (by rw [sum_Esharp_sq _ _ hn]; exact hRT)
  rw [sum_Esharp_sq _ _ hn] at h
  exact h

theorem T_singleton (x : K) : T [x] = 0 := by
  have := T_snoc ([] : List K) x
  simpa [T_nil] using this

/-- the last algebraic step of `var_fold_error_sharp_num` -/
theorem sharp_arith (P γ u M n Tn R₀ Q : K) (hu : 0 ≤ u) (hM : 0 ≤ M) (hn : 1 ≤ n) (hT : 0 ≤ Tn)
    (hR : 0 ≤ R₀) (hγ0 : 0 ≤ γ) (hQ0 : 0 ≤ Q)
    (hP : P ≤ 33/32) (hγ : γ ≤ 17/2 * u) (hu64 : u ≤ 1/1856) (hQ : Q ≤ 14 * n^3)
    (hn2 : 2 ≤ n ∨ Tn = 0) :
    P * ((γ + n * u) * Tn + (1 + γ) * (2 * (15/4 * (65/128 * u * M) * n * R₀)
          + (65/128 * u * M)^2 * Q))
      ≤ 109/20 * n * u * Tn + 79/20 * n * u * M * R₀ + 15/4 * n^3 * u^2 * M^2 := by
  have hn0 : 0 ≤ n := by linarith
  have h1γ : 1 + γ ≤ 1 + 17/3712 := by linarith
  have huM : 0 ≤ u * M := by positivity
  have t1 : P * ((γ + n * u) * Tn) ≤ 109/20 * n * u * Tn := by
    rcases hn2 with h2 | h0
    · have hc : γ + n * u ≤ 21/4 * (n * u) := by nlinarith
      calc P * ((γ + n * u) * Tn) ≤ 33/32 * ((21/4 * (n * u)) * Tn) := by gcongr
        _ ≤ 109/20 * n * u * Tn := by
            have : 0 ≤ n * u * Tn := by positivity
            nlinarith
    · rw [h0]; simp
  have t2 : P * ((1 + γ) * (2 * (15/4 * (65/128 * u * M) * n * R₀) + (65/128 * u * M)^2 * Q))
      ≤ 33/32 * ((1 + 17/3712) * (2 * (15/4 * (65/128 * u * M) * n * R₀)
          + (65/128 * u * M)^2 * (14 * n^3))) := by
    gcongr
  have a2 : 0 ≤ n * u * M * R₀ := by positivity
  have a3 : 0 ≤ n^3 * u^2 * M^2 := by positivity
  have e : P * ((γ + n * u) * Tn + (1 + γ) * (2 * (15/4 * (65/128 * u * M) * n * R₀)
          + (65/128 * u * M)^2 * Q))
      = P * ((γ + n * u) * Tn) + P * ((1 + γ) * (2 * (15/4 * (65/128 * u * M) * n * R₀)
          + (65/128 * u * M)^2 * Q)) := by ring
  rw [e]
  nlinarith

/-- **Sharp numerals.** `|x_i| ≤ M`, `(n+28)·u ≤ 1/64`, any `R₀ ≥ 0` with `n·T ≤ R₀²`:
`|sum_2 - T| ≤ (109/20)·n·u·T + (79/20)·n·u·M·R₀ + (15/4)·n³·u²·M²`. -/
theorem var_fold_error_sharp_num (r : Rnd2 K) (M : K) (hM : 0 ≤ M) (xs : List (RF2 r))
    (hb : ∀ x ∈ xs, |x.val| ≤ M) (hsmall : ((xs.length : K) + 28) * r.u ≤ 1/64)
    (R₀ : K) (hR : 0 ≤ R₀) (hRT : (xs.length : K) * T (xs.map RF2.val) ≤ R₀^2) :
    |(xs.foldl Variance.add Variance.new).sum_2.val - T (xs.map RF2.val)|
      ≤ 109/20 * xs.length * r.u * T (xs.map RF2.val) + 79/20 * xs.length * r.u * M * R₀
        + 15/4 * (xs.length : K)^3 * r.u^2 * M^2 := by
  have hu := r.u_nonneg
  by_cases hnil : xs = []
  · subst hnil
    have h0 : (Variance.new : Variance (RF2 r)).sum_2.val = 0 :=
      (Nat.cast_zero : ((0 : ℕ) : K) = 0)
    simp [h0, T_nil]
  have hnat : 1 ≤ xs.length := List.length_pos_of_ne_nil hnil
  have hn1 : (1 : K) ≤ xs.length := by exact_mod_cast hnat
  have hn2 : (2 : K) ≤ xs.length ∨ T (xs.map RF2.val) = 0 := by
    rcases Nat.eq_or_lt_of_le hnat with h | h
    · right
      obtain ⟨x, hx⟩ := List.length_eq_one_iff.mp h.symm
      rw [hx]; exact T_singleton _
    · left; exact_mod_cast h
  set n : K := (xs.length : K) with hn
  have hn0 : 0 ≤ n := by linarith
  have hu1856 : r.u ≤ 1/1856 := by nlinarith
  have hu64 : r.u ≤ 1/64 := by linarith
  have hnu : n * r.u ≤ 1/64 := by nlinarith
  set Tn := T (xs.map RF2.val) with hTn
  have hT0 : 0 ≤ Tn := T_nonneg _
  set β := 65/128 * r.u * M with hβ
  have hβ0 : 0 ≤ β := by positivity
  have hQle := Qc_le (K := K) xs.length hnat
  have hQ0 := Qc_nonneg (K := K) xs.length hnat
  have hRR : β^2 * Qc n * Tn ≤ (15/4 * β * n * R₀)^2 := by
    have h2 : (15/4 * β * n * R₀)^2 = (β^2 * n^2 * (225/16)) * R₀^2 := by ring
    rw [h2]
    have h4 : 0 ≤ n * Tn := by positivity
    calc β^2 * Qc n * Tn ≤ β^2 * (14 * n^3) * Tn := by gcongr
      _ = (β^2 * n^2 * 14) * (n * Tn) := by ring
      _ ≤ (β^2 * n^2 * (225/16)) * (n * Tn) := by
          have : 0 ≤ β^2 * n^2 := by positivity
          nlinarith
      _ ≤ (β^2 * n^2 * (225/16)) * R₀^2 := by gcongr
  have main := var_fold_error_sharp r M hM xs hnil hb hsmall (15/4 * β * n * R₀) (by positivity) hRR
  refine le_trans main ?_
  have hP : (1 + r.u)^xs.length ≤ 33/32 := by
    have := one_add_pow_le r.u hu xs.length (by linarith)
    linarith
  exact sharp_arith _ _ r.u M n Tn R₀ _ hu hM hn1 hT0 hR (gam_nonneg hu) hQ0 hP
    (gam_le r.u hu hu64) hu1856 hQle hn2

end VarErr

#print axioms VarErr.var_fold_error_sharp
#print axioms VarErr.var_fold_error_sharp_num
