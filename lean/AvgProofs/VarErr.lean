import AvgProofs.VarErrFold
import Mathlib.Tactic.NormNum

/-!
# Forward error of Welford's sum of squares, all stream lengths, linear in the conditioning

* `var_fold_error_cs` - any bound `E` on the error of the running mean, Cauchy-Schwarz applied.
* `var_fold_error_B` - `E i = B·i`, `B = 2M(2w+u)` from `mean_fold_error`; symbolic in `u`.
* `var_fold_error_lin` - numerals: for `n·u ≤ 1/64`, `|x_i| ≤ M` and any `R ≥ 0` with `n·T ≤ R²`
  (`R = sqrt(n·T)` over ℝ):  `|sum_2 - T| ≤ 10·n·u·T + 14·n·u·M·R + 41·n³·u²·M²`.
* `div_round_error`, `popvar_error_lin` - the accessors (one more rounding).
-/
open Avg MSpec Finset VarSpec

namespace VarErr
variable {K : Type} [Field K] [LinearOrder K] [IsStrictOrderedRing K]

/-- `crossSum` after Cauchy-Schwarz: `Σ(2E|dev| + E²)·i/(i+1) ≤ 2R + ΣE²` when `(ΣE²)·T ≤ R²` -/
theorem crossSum_le (E : ℕ → K) (vs : List K) (R : K) (hR : 0 ≤ R)
    (hRT : (∑ i ∈ range vs.length, (E i)^2) * T vs ≤ R^2) :
    crossSum E vs ≤ 2 * R + ∑ i ∈ range vs.length, (E i)^2 := by
  have hcs := cross_sq_le E vs
  set W := ∑ i ∈ range vs.length, E i * |dev vs i| * ((i : K) / ((i : K) + 1)) with hW
  have hWR : W ≤ R := by
    by_contra h
    rw [not_le] at h
    nlinarith
  have hsplit : crossSum E vs
      = 2 * W + ∑ i ∈ range vs.length, (E i)^2 * ((i : K) / ((i : K) + 1)) := by
    unfold crossSum
    rw [hW, mul_sum, ← sum_add_distrib]
    apply sum_congr rfl
    intro i _; ring
  have hsq : ∑ i ∈ range vs.length, (E i)^2 * ((i : K) / ((i : K) + 1))
      ≤ ∑ i ∈ range vs.length, (E i)^2 := by
    apply sum_le_sum
    intro i _
    have := ratio_le_one (K := K) i
    have h0 : 0 ≤ (E i)^2 := sq_nonneg _
    nlinarith
  rw [hsplit]; linarith

/-- **General form.** If the running mean of every prefix `ys` of the stream is within `E |ys|` of the
exact mean, then for every `R ≥ 0` with `(Σ_{i<n} E_i²)·T ≤ R²`:
`|sum_2 - T| ≤ (1+u)^n·((γ + n·u)·T + (1+γ)·(2R + Σ_{i<n} E_i²))`, `γ = (1+u)^8 - 1`. -/
theorem var_fold_error_cs (r : Rnd2 K) (E : ℕ → K) (hE0 : ∀ i, 0 ≤ E i) (xs : List (RF2 r))
    (hE : ∀ ys, ys <+: xs →
      |(ys.foldl Mean.add Mean.new).avg.val - mean (ys.map RF2.val)| ≤ E ys.length)
    (R : K) (hR : 0 ≤ R)
    (hRT : (∑ i ∈ range xs.length, (E i)^2) * T (xs.map RF2.val) ≤ R^2) :
    |(xs.foldl Variance.add Variance.new).sum_2.val - T (xs.map RF2.val)|
      ≤ (1 + r.u)^xs.length *
          ((gam r.u + xs.length * r.u) * T (xs.map RF2.val)
            + (1 + gam r.u) * (2 * R + ∑ i ∈ range xs.length, (E i)^2)) := by
  refine le_trans (var_fold_error_gen r E hE0 xs hE) ?_
  have hlen : (xs.map RF2.val).length = xs.length := by simp
  have hc := crossSum_le E (xs.map RF2.val) R hR (by rw [hlen]; exact hRT)
  rw [hlen] at hc
  have hg := gam_nonneg r.u_nonneg
  have hP : 0 ≤ (1 + r.u)^xs.length := by have := r.u_nonneg; positivity
  gcongr

/-- **Symbolic in `u`.** For `|x_i| ≤ M` and `w + n·u ≤ 1/2` (`w = (2u+u²)(1+u)`), with
`B = 2M(2w+u)` the per-observation error of the running mean, and any `R ≥ 0` with
`B²·(n³/3)·T ≤ R²`:  `|sum_2 - T| ≤ (1+u)^n·((γ + n·u)·T + (1+γ)·(2R + B²·n³/3))`. -/
theorem var_fold_error_B (r : Rnd2 K) (M : K) (hM : 0 ≤ M) (xs : List (RF2 r))
    (hb : ∀ x ∈ xs, |x.val| ≤ M)
    (hsmall : (2*r.u + r.u^2) * (1 + r.u) + xs.length * r.u ≤ 1/2)
    (R : K) (hR : 0 ≤ R)
    (hRT : (2 * M * (2 * ((2*r.u + r.u^2) * (1 + r.u)) + r.u))^2 * ((xs.length : K)^3 / 3)
            * T (xs.map RF2.val) ≤ R^2) :
    |(xs.foldl Variance.add Variance.new).sum_2.val - T (xs.map RF2.val)|
      ≤ (1 + r.u)^xs.length *
          ((gam r.u + xs.length * r.u) * T (xs.map RF2.val)
            + (1 + gam r.u) * (2 * R
                + (2 * M * (2 * ((2*r.u + r.u^2) * (1 + r.u)) + r.u))^2 * ((xs.length : K)^3 / 3))) := by
  have hu := r.u_nonneg
  set B := 2 * M * (2 * ((2*r.u + r.u^2) * (1 + r.u)) + r.u) with hB
  have hB0 : 0 ≤ B := by positivity
  have hT0 := T_nonneg (xs.map RF2.val)
  have hsumE : ∑ i ∈ range xs.length, (B * (i : K))^2 ≤ B^2 * ((xs.length : K)^3 / 3) := by
    have h := sum_sq_le (K := K) xs.length
    calc ∑ i ∈ range xs.length, (B * (i : K))^2 = B^2 * ∑ i ∈ range xs.length, ((i : K))^2 := by
          rw [mul_sum]; apply sum_congr rfl; intro i _; ring
      _ ≤ B^2 * ((xs.length : K)^3 / 3) := by gcongr
  have hE : ∀ ys, ys <+: xs →
      |(ys.foldl Mean.add Mean.new).avg.val - mean (ys.map RF2.val)| ≤ B * (ys.length : K) := by
    intro ys hys
    have hlen : (ys.length : K) ≤ xs.length := by exact_mod_cast hys.length_le
    have := (mean_fold_error r M hM ys (fun y hy => hb y (hys.subset hy))
      (by nlinarith)).2
    exact this
  have hcs := var_fold_error_cs r (fun i => B * (i : K)) (fun i => by positivity) xs hE R hR
    (le_trans (by gcongr) hRT)
  refine le_trans hcs ?_
  have hg := gam_nonneg hu
  gcongr

/-! ## numerals -/

theorem one_add_pow_le (u : K) (hu : 0 ≤ u) : ∀ n : ℕ, (n : K) * u ≤ 1/2 → (1 + u)^n ≤ 1 + 2 * n * u := by
  intro n
  induction n with
  | zero => intro _; simp
  | succ n ih =>
    intro h
    push_cast at h ⊢
    have h' : (n : K) * u ≤ 1/2 := by nlinarith
    have := ih h'
    have hn : (0:K) ≤ n := Nat.cast_nonneg n
    rw [pow_succ]
    calc (1 + u)^n * (1 + u) ≤ (1 + 2 * n * u) * (1 + u) := by gcongr
      _ = 1 + 2 * n * u + u + (2 * (n * u)) * u := by ring
      _ ≤ 1 + 2 * n * u + u + 1 * u := by gcongr; linarith
      _ = 1 + 2 * (n + 1) * u := by ring

/-- eight roundings cost at most `8.5·u` relative, for `u ≤ 1/64` -/
theorem gam_le (u : K) (hu : 0 ≤ u) (h : u ≤ 1/64) : gam u ≤ 17/2 * u := by
  have h2 : (1 + u)^2 ≤ 1 + 129/64 * u := by nlinarith
  have h4 : (1 + u)^4 ≤ 1 + 41/10 * u := by
    have : (1 + u)^4 = ((1 + u)^2)^2 := by ring
    rw [this]
    calc ((1 + u)^2)^2 ≤ (1 + 129/64 * u)^2 := by gcongr
      _ ≤ 1 + 41/10 * u := by nlinarith
  have h8 : (1 + u)^8 ≤ 1 + 19/2 * u - u := by
    have : (1 + u)^8 = ((1 + u)^4)^2 := by ring
    rw [this]
    calc ((1 + u)^4)^2 ≤ (1 + 41/10 * u)^2 := by gcongr
      _ ≤ 1 + 19/2 * u - u := by nlinarith
  unfold gam; linarith

/-- the per-observation error of the running mean is at most `10.25·u·M`, for `u ≤ 1/64` -/
theorem B_le (u M : K) (hu : 0 ≤ u) (hM : 0 ≤ M) (h : u ≤ 1/64) :
    2 * M * (2 * ((2*u + u^2) * (1 + u)) + u) ≤ 41/4 * u * M := by
  have hw : (2*u + u^2) * (1 + u) ≤ 33/16 * u := by nlinarith
  calc 2 * M * (2 * ((2*u + u^2) * (1 + u)) + u) ≤ 2 * M * (2 * (33/16 * u) + u) := by gcongr
    _ = 41/4 * u * M := by ring

end VarErr
