import AvgProofs.VarErrLin
import AvgProofs.VarErrSharp

/-!
# Forward error of `population_variance` and `sample_variance` (one more rounded division)
-/
open Avg MSpec Finset VarSpec

namespace VarErr
variable {K : Type} [Field K] [LinearOrder K] [IsStrictOrderedRing K]

section access
variable {r : Rnd2 K} [FloatOps (RF2 r)]

/-- what `population_variance` computes at the carrier `RF2 r` when the count is not 0 -/
theorem popvar_val (xs : List (RF2 r)) (hne : xs ≠ []) :
    (xs.foldl Variance.add Variance.new).populationVariance.val
      = r.fl ((xs.foldl Variance.add Variance.new).sum_2.val / (xs.length : K)) := by
  have hn := Variance.fold_n_ve xs
  have h0 : xs.length ≠ 0 := fun h => hne (List.length_eq_zero_iff.mp h)
  unfold Variance.populationVariance
  rw [hn, if_neg h0]
  rfl

/-- what `sample_variance` computes at the carrier `RF2 r` when the count is at least 2 -/
theorem samplevar_val (xs : List (RF2 r)) (h2 : 2 ≤ xs.length) :
    (xs.foldl Variance.add Variance.new).sampleVariance.val
      = r.fl ((xs.foldl Variance.add Variance.new).sum_2.val / ((xs.length - 1 : ℕ) : K)) := by
  have hn := Variance.fold_n_ve xs
  unfold Variance.sampleVariance
  rw [hn, if_neg (by omega)]
  rfl

/-- **Population variance, sharp numerals.** `n ≥ 1`, `|x_i| ≤ M`, `(n+28)·u ≤ 1/64`, `var = T/n`,
any `σ ≥ 0` with `var ≤ σ²`:
`|population_variance - var| ≤ 6·n·u·var + 4·n·u·M·σ + 4·n²·u²·M²`. -/
theorem popvar_error_sharp (M : K) (hM : 0 ≤ M) (xs : List (RF2 r)) (hne : xs ≠ [])
    (hb : ∀ x ∈ xs, |x.val| ≤ M) (hsmall : ((xs.length : K) + 28) * r.u ≤ 1/64)
    (σ : K) (hσ : 0 ≤ σ) (hvar : T (xs.map RF2.val) / (xs.length : K) ≤ σ^2) :
    |(xs.foldl Variance.add Variance.new).populationVariance.val
        - T (xs.map RF2.val) / (xs.length : K)|
      ≤ 6 * xs.length * r.u * (T (xs.map RF2.val) / (xs.length : K))
        + 4 * xs.length * r.u * M * σ + 4 * (xs.length : K)^2 * r.u^2 * M^2 := by
  have hu := r.u_nonneg
  have hnat : 1 ≤ xs.length := List.length_pos_of_ne_nil hne
  have hn1 : (1 : K) ≤ xs.length := by exact_mod_cast hnat
  have hn2 : (2 : K) ≤ xs.length ∨ T (xs.map RF2.val) = 0 := by
    rcases Nat.eq_or_lt_of_le hnat with h | h
    · right
      obtain ⟨x, hx⟩ := List.length_eq_one_iff.mp h.symm
      rw [hx]; exact T_singleton _
    · left; exact_mod_cast h
  rw [popvar_val xs hne]
  set n : K := (xs.length : K) with hn
  have hnpos : 0 < n := by linarith
  set Tn := T (xs.map RF2.val) with hTn
  have hT0 : 0 ≤ Tn := T_nonneg _
  have hu1856 : r.u ≤ 1/1856 := by nlinarith
  have hTle : Tn ≤ n * σ^2 := by rwa [div_le_iff₀ hnpos, mul_comm] at hvar
  have hd := var_fold_error_sharp_num r M hM xs hb hsmall (n * σ) (by positivity)
    (by rw [mul_pow]; nlinarith)
  refine le_trans (div_round_error r _ Tn n hnpos hT0) ?_
  rw [div_le_iff₀ hnpos]
  set D := |(xs.foldl Variance.add Variance.new).sum_2.val - Tn| with hD
  have e1 : (6 * n * r.u * (Tn / n) + 4 * n * r.u * M * σ + 4 * n^2 * r.u^2 * M^2) * n
      = 6 * n * r.u * Tn + 4 * n^2 * r.u * M * σ + 4 * n^3 * r.u^2 * M^2 := by
    field_simp
  rw [e1]
  have a2 : 0 ≤ n^2 * r.u * M * σ := by positivity
  have a3 : 0 ≤ n^3 * r.u^2 * M^2 := by positivity
  have hD' : (1 + r.u) * D ≤ (1 + 1/1856) * (109/20 * n * r.u * Tn + 79/20 * n * r.u * M * (n * σ)
        + 15/4 * n^3 * r.u^2 * M^2) := by
    have : 0 ≤ D := abs_nonneg _
    gcongr
  have t1 : (1 + 1/1856) * (109/20 * n * r.u * Tn) + r.u * Tn ≤ 6 * n * r.u * Tn := by
    rcases hn2 with h2 | h0
    · have : 0 ≤ r.u * Tn := by positivity
      nlinarith
    · rw [h0]; simp
  nlinarith

/-- **Inside the design envelope.** If moreover `n·u·M ≤ σ` (the second-order term is dominated), then
`|population_variance - var| ≤ 8·n·u·(var + M·σ)`; with `σ² = var` this is `8·n·κ·u·var`,
`κ = 1 + M/σ`. -/
theorem popvar_error_envelope (M : K) (hM : 0 ≤ M) (xs : List (RF2 r)) (hne : xs ≠ [])
    (hb : ∀ x ∈ xs, |x.val| ≤ M) (hsmall : ((xs.length : K) + 28) * r.u ≤ 1/64)
    (σ : K) (hσ : 0 ≤ σ) (hvar : T (xs.map RF2.val) / (xs.length : K) ≤ σ^2)
    (hcond : (xs.length : K) * r.u * M ≤ σ) :
    |(xs.foldl Variance.add Variance.new).populationVariance.val
        - T (xs.map RF2.val) / (xs.length : K)|
      ≤ 8 * xs.length * r.u * (T (xs.map RF2.val) / (xs.length : K) + M * σ) := by
  have hu := r.u_nonneg
  refine le_trans (popvar_error_sharp M hM xs hne hb hsmall σ hσ hvar) ?_
  have hn0 : (0 : K) ≤ xs.length := Nat.cast_nonneg _
  have hv0 : 0 ≤ T (xs.map RF2.val) / (xs.length : K) := div_nonneg (T_nonneg _) hn0
  set n : K := (xs.length : K)
  set v := T (xs.map RF2.val) / n
  have h2 : 4 * n^2 * r.u^2 * M^2 ≤ 4 * n * r.u * M * σ := by
    have : 0 ≤ n * r.u * M := by positivity
    calc 4 * n^2 * r.u^2 * M^2 = 4 * (n * r.u * M) * (n * r.u * M) := by ring
      _ ≤ 4 * (n * r.u * M) * σ := by gcongr
      _ = 4 * n * r.u * M * σ := by ring
  have h3 : 0 ≤ n * r.u * v := by positivity
  nlinarith

/-- **Population variance with the constants of `var_fold_error_lin`** (hypothesis `n·u ≤ 1/64` only):
`|population_variance - var| ≤ 12·n·u·var + 15·n·u·M·σ + 42·n²·u²·M²`. -/
theorem popvar_error_lin (M : K) (hM : 0 ≤ M) (xs : List (RF2 r)) (hne : xs ≠ [])
    (hb : ∀ x ∈ xs, |x.val| ≤ M) (hsmall : (xs.length : K) * r.u ≤ 1/64)
    (σ : K) (hσ : 0 ≤ σ) (hvar : T (xs.map RF2.val) / (xs.length : K) ≤ σ^2) :
    |(xs.foldl Variance.add Variance.new).populationVariance.val
        - T (xs.map RF2.val) / (xs.length : K)|
      ≤ 12 * xs.length * r.u * (T (xs.map RF2.val) / (xs.length : K))
        + 15 * xs.length * r.u * M * σ + 42 * (xs.length : K)^2 * r.u^2 * M^2 := by
  have hu := r.u_nonneg
  have hnat : 1 ≤ xs.length := List.length_pos_of_ne_nil hne
  have hn1 : (1 : K) ≤ xs.length := by exact_mod_cast hnat
  rw [popvar_val xs hne]
  set n : K := (xs.length : K) with hn
  have hnpos : 0 < n := by linarith
  set Tn := T (xs.map RF2.val) with hTn
  have hT0 : 0 ≤ Tn := T_nonneg _
  have hu64 : r.u ≤ 1/64 := by nlinarith
  have hTle : Tn ≤ n * σ^2 := by rwa [div_le_iff₀ hnpos, mul_comm] at hvar
  have hd := var_fold_error_lin r M hM xs hb hsmall (n * σ) (by positivity)
    (by rw [mul_pow]; nlinarith)
  refine le_trans (div_round_error r _ Tn n hnpos hT0) ?_
  rw [div_le_iff₀ hnpos]
  set D := |(xs.foldl Variance.add Variance.new).sum_2.val - Tn| with hD
  have e1 : (12 * n * r.u * (Tn / n) + 15 * n * r.u * M * σ + 42 * n^2 * r.u^2 * M^2) * n
      = 12 * n * r.u * Tn + 15 * n^2 * r.u * M * σ + 42 * n^3 * r.u^2 * M^2 := by
    field_simp
  rw [e1]
  have a1 : 0 ≤ n * r.u * Tn := by positivity
  have a2 : 0 ≤ n^2 * r.u * M * σ := by positivity
  have a3 : 0 ≤ n^3 * r.u^2 * M^2 := by positivity
  have hD' : (1 + r.u) * D ≤ (1 + 1/64) * (10 * n * r.u * Tn + 14 * n * r.u * M * (n * σ)
        + 41 * n^3 * r.u^2 * M^2) := by
    have : 0 ≤ D := abs_nonneg _
    gcongr
  have t1 : r.u * Tn ≤ n * r.u * Tn := by
    have : 0 ≤ r.u * Tn := by positivity
    nlinarith
  nlinarith

/-- **Sample variance, sharp numerals.** `n ≥ 2`, `|x_i| ≤ M`, `(n+28)·u ≤ 1/64`, `s² = T/(n-1)`,
any `σ ≥ 0` with `s² ≤ σ²`:
`|sample_variance - s²| ≤ 6·n·u·s² + 8·n·u·M·σ + 8·n²·u²·M²`. -/
theorem samplevar_error_sharp (M : K) (hM : 0 ≤ M) (xs : List (RF2 r)) (h2 : 2 ≤ xs.length)
    (hb : ∀ x ∈ xs, |x.val| ≤ M) (hsmall : ((xs.length : K) + 28) * r.u ≤ 1/64)
    (σ : K) (hσ : 0 ≤ σ) (hvar : T (xs.map RF2.val) / ((xs.length - 1 : ℕ) : K) ≤ σ^2) :
    |(xs.foldl Variance.add Variance.new).sampleVariance.val
        - T (xs.map RF2.val) / ((xs.length - 1 : ℕ) : K)|
      ≤ 6 * xs.length * r.u * (T (xs.map RF2.val) / ((xs.length - 1 : ℕ) : K))
        + 8 * xs.length * r.u * M * σ + 8 * (xs.length : K)^2 * r.u^2 * M^2 := by
  have hu := r.u_nonneg
  have hn2 : (2 : K) ≤ xs.length := by exact_mod_cast h2
  rw [samplevar_val xs h2]
  have hm : ((xs.length - 1 : ℕ) : K) = (xs.length : K) - 1 := by
    rw [Nat.cast_sub (by omega)]; simp
  rw [hm] at hvar ⊢
  set n : K := (xs.length : K) with hn
  have hmpos : 0 < n - 1 := by linarith
  set Tn := T (xs.map RF2.val) with hTn
  have hT0 : 0 ≤ Tn := T_nonneg _
  have hu1856 : r.u ≤ 1/1856 := by nlinarith
  have hTle : Tn ≤ (n - 1) * σ^2 := by rwa [div_le_iff₀ hmpos, mul_comm] at hvar
  have hσ2 : 0 ≤ σ^2 := sq_nonneg σ
  have hd := var_fold_error_sharp_num r M hM xs hb hsmall (n * σ) (by positivity)
    (by rw [mul_pow]; nlinarith)
  refine le_trans (div_round_error r _ Tn (n - 1) hmpos hT0) ?_
  rw [div_le_iff₀ hmpos]
  set D := |(xs.foldl Variance.add Variance.new).sum_2.val - Tn| with hD
  have e1 : (6 * n * r.u * (Tn / (n - 1)) + 8 * n * r.u * M * σ + 8 * n^2 * r.u^2 * M^2) * (n - 1)
      = 6 * n * r.u * Tn + 8 * n * r.u * M * σ * (n - 1) + 8 * n^2 * r.u^2 * M^2 * (n - 1) := by
    field_simp
  rw [e1]
  have a1 : 0 ≤ r.u * Tn := by positivity
  have a2 : 0 ≤ n * r.u * M * σ := by positivity
  have a3 : 0 ≤ n^2 * r.u^2 * M^2 := by positivity
  have hD' : (1 + r.u) * D ≤ (1 + 1/1856) * (109/20 * n * r.u * Tn + 79/20 * n * r.u * M * (n * σ)
        + 15/4 * n^3 * r.u^2 * M^2) := by
    have : 0 ≤ D := abs_nonneg _
    gcongr
  -- n ≤ 2 (n - 1)
  have b2 : n * r.u * M * σ * n ≤ 2 * (n * r.u * M * σ * (n - 1)) := by nlinarith
  have b3 : n^2 * r.u^2 * M^2 * n ≤ 2 * (n^2 * r.u^2 * M^2 * (n - 1)) := by nlinarith
  have t1 : (1 + 1/1856) * (109/20 * n * r.u * Tn) + r.u * Tn ≤ 6 * n * r.u * Tn := by nlinarith
  have c2 : 0 ≤ n * r.u * M * σ * (n - 1) := by positivity
  have c3 : 0 ≤ n^2 * r.u^2 * M^2 * (n - 1) := by positivity
  linarith

end access
end VarErr

#print axioms VarErr.popvar_error_sharp
#print axioms VarErr.popvar_error_envelope
#print axioms VarErr.popvar_error_lin
#print axioms VarErr.samplevar_error_sharp
