import AvgProofs.CovErrFold
import AvgProofs.VarErr

/-!
# Forward error of the co-moment `sum_prod` of `Covariance`: Cauchy-Schwarz and the symbolic form

* `crossXY_le` - the accumulated effect of the errors of the running means after Cauchy-Schwarz.
* `cov_fold_error_cs` - any bounds `Ex`, `Ey` on the errors of the running means, square-root free.
* `cov_fold_error_B` - `Ex i = Bx·i`, `Ey i = By·i` from `mean_fold_error`; symbolic in `u`.
-/
open Avg MSpec Finset VarSpec CovSpec

namespace CovErr
variable {K : Type} [Field K] [LinearOrder K] [IsStrictOrderedRing K]

/-- `crossXY` after Cauchy-Schwarz (twice): with `(Σ Ex_i²)·T_y ≤ RA²` and
`(Σ (Ey_{i+1}(i+1)/i)²)·T_x ≤ RB²` (sum over `1 ≤ i < n`),
`crossXY ≤ RA + RB + Ey_1·|x_0| + Σ Ex_i·Ey_{i+1}`. -/
theorem crossXY_le (Ex Ey : ℕ → K) (hEy0 : ∀ i, 0 ≤ Ey i) (vs : List (K × K))
    (RA RB : K) (hRA : 0 ≤ RA) (hRB : 0 ≤ RB)
    (hA : (∑ i ∈ range vs.length, (Ex i)^2) * T (snds vs) ≤ RA^2)
    (hB : (∑ i ∈ range vs.length, (lift (fun i => Ey (i + 1)) i)^2) * T (fsts vs) ≤ RB^2) :
    crossXY Ex Ey vs
      ≤ RA + RB + Ey 1 * |dev (fsts vs) 0| + ∑ i ∈ range vs.length, Ex i * Ey (i + 1) := by
  unfold crossXY
  rw [sum_add_distrib, sum_add_distrib]
  have h1 := cross_weighted_cs Ex (snds vs) RA hRA (by rw [snds_length]; exact hA)
  have h2 := cross_unweighted_cs (fun i => Ey (i + 1)) (fun i => hEy0 (i + 1)) (fsts vs) RB hRB
    (by rw [fsts_length]; exact hB)
  rw [snds_length] at h1
  rw [fsts_length] at h2
  simp only [zero_add] at h2
  linarith

/-- **General form, after Cauchy-Schwarz** (square-root free). If the computed `x`-mean (`y`-mean) of
every prefix `qs` of the stream is within `Ex |qs|` (`Ey |qs|`) of the exact mean, then for all
`Rxy, RA, RB ≥ 0` with `T_x·T_y ≤ Rxy²`, `(Σ_{i<n} Ex_i²)·T_y ≤ RA²`,
`(Σ_{1≤i<n} (Ey_{i+1}·(i+1)/i)²)·T_x ≤ RB²`:
`|sum_prod - C| ≤ (1+u)^n·((γ₃ + n·u)·Rxy + (1+γ₃)·(RA + RB + Ey_1·|x_0| + Σ_{i<n} Ex_i·Ey_{i+1}))`. -/
theorem cov_fold_error_cs (r : Rnd2 K) (Ex Ey : ℕ → K) (hEx0 : ∀ i, 0 ≤ Ex i)
    (hEy0 : ∀ i, 0 ≤ Ey i) (ps : List (RF2 r × RF2 r))
    (hEx : ∀ qs, qs <+: ps →
      |(qs.foldl (fun (s : Covariance (RF2 r)) p => s.add p.1 p.2) Covariance.new).avg_x.val
          - mean (fsts (vals qs))| ≤ Ex qs.length)
    (hEy : ∀ qs, qs <+: ps →
      |(qs.foldl (fun (s : Covariance (RF2 r)) p => s.add p.1 p.2) Covariance.new).avg_y.val
          - mean (snds (vals qs))| ≤ Ey qs.length)
    (Rxy RA RB : K) (hRxy : 0 ≤ Rxy) (hRA : 0 ≤ RA) (hRB : 0 ≤ RB)
    (hxy : T (fsts (vals ps)) * T (snds (vals ps)) ≤ Rxy^2)
    (hA : (∑ i ∈ range ps.length, (Ex i)^2) * T (snds (vals ps)) ≤ RA^2)
    (hB : (∑ i ∈ range ps.length, (lift (fun i => Ey (i + 1)) i)^2) * T (fsts (vals ps)) ≤ RB^2) :
    |(ps.foldl (fun (s : Covariance (RF2 r)) p => s.add p.1 p.2) Covariance.new).sum_prod.val
        - Cxy (vals ps)|
      ≤ (1 + r.u)^ps.length *
          ((gam3 r.u + ps.length * r.u) * Rxy
            + (1 + gam3 r.u) * (RA + RB + Ey 1 * |dev (fsts (vals ps)) 0|
                + ∑ i ∈ range ps.length, Ex i * Ey (i + 1))) := by
  refine le_trans (cov_fold_error_gen r Ex Ey hEx0 hEy0 ps hEx hEy) ?_
  have hlen := vals_length ps
  have hc := crossXY_le Ex Ey hEy0 (vals ps) RA RB hRA hRB (by rw [hlen]; exact hA)
    (by rw [hlen]; exact hB)
  rw [hlen] at hc
  have hG := Gxy_le (vals ps) Rxy hRxy hxy
  have hu := r.u_nonneg
  have hg := gam3_nonneg hu
  have hP : 0 ≤ (1 + r.u)^ps.length := by positivity
  have hn : (0 : K) ≤ ps.length := Nat.cast_nonneg _
  have hc0 : 0 ≤ gam3 r.u + ps.length * r.u := by positivity
  gcongr

/-! ## bounds of the running means from `mean_fold_error` -/

/-- per-observation error of the running mean from `mean_fold_error`: `2M(2w+u)`, `w = (2u+u²)(1+u)` -/
def Bm (u M : K) : K := 2 * M * (2 * ((2*u + u^2) * (1 + u)) + u)

theorem Bm_nonneg {u M : K} (hu : 0 ≤ u) (hM : 0 ≤ M) : 0 ≤ Bm u M := by
  unfold Bm; positivity

/-- the hypotheses of the general theorem, from `mean_fold_error` (`x`-coordinates) -/
theorem mean_prefix_x (r : Rnd2 K) (M : K) (hM : 0 ≤ M) (ps : List (RF2 r × RF2 r))
    (hb : ∀ p ∈ ps, |p.1.val| ≤ M)
    (hsmall : (2*r.u + r.u^2) * (1 + r.u) + ps.length * r.u ≤ 1/2) :
    ∀ qs, qs <+: ps →
      |(qs.foldl (fun (s : Covariance (RF2 r)) p => s.add p.1 p.2) Covariance.new).avg_x.val
          - mean (fsts (vals qs))| ≤ Bm r.u M * (qs.length : K) := by
  intro qs hqs
  have hu := r.u_nonneg
  have hlen : (qs.length : K) ≤ ps.length := by exact_mod_cast hqs.length_le
  have h := (mean_fold_error r M hM (qs.map Prod.fst)
    (by
      intro x hx
      rw [List.mem_map] at hx
      obtain ⟨p, hp, rfl⟩ := hx
      exact hb p (hqs.subset hp))
    (by rw [List.length_map]; nlinarith)).2
  rw [Covariance.fold_avg_x, fsts_vals]
  rw [List.length_map] at h
  exact h

/-- the hypotheses of the general theorem, from `mean_fold_error` (`y`-coordinates) -/
theorem mean_prefix_y (r : Rnd2 K) (M : K) (hM : 0 ≤ M) (ps : List (RF2 r × RF2 r))
    (hb : ∀ p ∈ ps, |p.2.val| ≤ M)
    (hsmall : (2*r.u + r.u^2) * (1 + r.u) + ps.length * r.u ≤ 1/2) :
    ∀ qs, qs <+: ps →
      |(qs.foldl (fun (s : Covariance (RF2 r)) p => s.add p.1 p.2) Covariance.new).avg_y.val
          - mean (snds (vals qs))| ≤ Bm r.u M * (qs.length : K) := by
  intro qs hqs
  have hu := r.u_nonneg
  have hlen : (qs.length : K) ≤ ps.length := by exact_mod_cast hqs.length_le
  have h := (mean_fold_error r M hM (qs.map Prod.snd)
    (by
      intro x hx
      rw [List.mem_map] at hx
      obtain ⟨p, hp, rfl⟩ := hx
      exact hb p (hqs.subset hp))
    (by rw [List.length_map]; nlinarith)).2
  rw [Covariance.fold_avg_y, snds_vals]
  rw [List.length_map] at h
  exact h

/-! ## the sums for `E i = B·i` -/

/-- `Σ_{i<n} i(i+1) ≤ n³/3` -/
theorem sum_mul_succ_le (n : ℕ) : ∑ i ∈ range n, (i : K) * ((i : K) + 1) ≤ (n : K)^3 / 3 := by
  induction n with
  | zero => simp
  | succ n ih =>
    rw [sum_range_succ]
    push_cast
    have : (0:K) ≤ n := Nat.cast_nonneg n
    nlinarith

/-- for `i ≥ 1`: `(i+1)·(i+1)/i ≤ i + 3` -/
theorem lift_succ_le (B : K) (hB : 0 ≤ B) (i : ℕ) :
    lift (fun j => B * ((j + 1 : ℕ) : K)) i ≤ if i = 0 then 0 else B * ((i : K) + 3) := by
  unfold lift
  by_cases h : i = 0
  · simp [h]
  · simp only [h, if_false]
    have hi : (1 : K) ≤ i := by exact_mod_cast Nat.one_le_iff_ne_zero.mpr h
    have hipos : (0 : K) < i := by linarith
    push_cast
    rw [mul_assoc]
    gcongr
    rw [← mul_div_assoc, div_le_iff₀ hipos]
    nlinarith

/-- `Σ_{1≤i<n} (i+3)² ≤ 2n³` -/
theorem sum_lift_sq_aux (n : ℕ) :
    ∑ i ∈ range n, (if i = 0 then (0:K) else ((i : K) + 3))^2 ≤ 2 * (n : K)^3 := by
  induction n with
  | zero => simp
  | succ n ih =>
    rw [sum_range_succ]
    rcases Nat.eq_zero_or_pos n with h0 | hpos
    · subst h0; simp
    · rcases Nat.eq_or_lt_of_le hpos with h1 | h2
      · rw [← h1]
        norm_num [sum_range_succ]
      · have hn2 : (2 : K) ≤ n := by exact_mod_cast h2
        have hne : n ≠ 0 := by omega
        simp only [hne, if_false]
        push_cast
        nlinarith

/-- `Σ_{i<n} (lift (j ↦ B(j+1)) i)² ≤ 2·B²·n³` -/
theorem sum_lift_sq_le (B : K) (hB : 0 ≤ B) (n : ℕ) :
    ∑ i ∈ range n, (lift (fun j => B * ((j + 1 : ℕ) : K)) i)^2 ≤ B^2 * (2 * (n : K)^3) := by
  calc ∑ i ∈ range n, (lift (fun j => B * ((j + 1 : ℕ) : K)) i)^2
      ≤ ∑ i ∈ range n, B^2 * (if i = 0 then (0:K) else ((i : K) + 3))^2 := by
        apply sum_le_sum
        intro i _
        have h0 := lift_nonneg (E := fun j => B * ((j + 1 : ℕ) : K))
          (fun j => mul_nonneg hB (Nat.cast_nonneg _)) i
        have h1 := lift_succ_le B hB i
        have h2 : (if i = 0 then (0:K) else B * ((i : K) + 3))
            = B * (if i = 0 then (0:K) else ((i : K) + 3)) := by
          split <;> simp
        rw [h2] at h1
        rw [← mul_pow]
        gcongr
    _ = B^2 * ∑ i ∈ range n, (if i = 0 then (0:K) else ((i : K) + 3))^2 := by rw [mul_sum]
    _ ≤ B^2 * (2 * (n : K)^3) := by
        have := sum_lift_sq_aux (K := K) n
        gcongr

/-- **Symbolic in `u`.** `|x_i| ≤ Mx`, `|y_i| ≤ My`, `w + n·u ≤ 1/2` (`w = (2u+u²)(1+u)`),
`Bx = 2Mx(2w+u)`, `By = 2My(2w+u)` the per-observation errors of the running means; for all
`Rxy, RA, RB ≥ 0` with `T_x·T_y ≤ Rxy²`, `Bx²·(n³/3)·T_y ≤ RA²`, `By²·2n³·T_x ≤ RB²`:
`|sum_prod - C| ≤ (1+u)^n·((γ₃ + n·u)·Rxy + (1+γ₃)·(RA + RB + By·Mx + Bx·By·n³/3))`. -/
theorem cov_fold_error_B (r : Rnd2 K) (Mx My : K) (hMx : 0 ≤ Mx) (hMy : 0 ≤ My)
    (ps : List (RF2 r × RF2 r))
    (hbx : ∀ p ∈ ps, |p.1.val| ≤ Mx) (hby : ∀ p ∈ ps, |p.2.val| ≤ My)
    (hsmall : (2*r.u + r.u^2) * (1 + r.u) + ps.length * r.u ≤ 1/2)
    (Rxy RA RB : K) (hRxy : 0 ≤ Rxy) (hRA : 0 ≤ RA) (hRB : 0 ≤ RB)
    (hxy : T (fsts (vals ps)) * T (snds (vals ps)) ≤ Rxy^2)
    (hA : (Bm r.u Mx)^2 * ((ps.length : K)^3 / 3) * T (snds (vals ps)) ≤ RA^2)
    (hB : (Bm r.u My)^2 * (2 * (ps.length : K)^3) * T (fsts (vals ps)) ≤ RB^2) :
    |(ps.foldl (fun (s : Covariance (RF2 r)) p => s.add p.1 p.2) Covariance.new).sum_prod.val
        - Cxy (vals ps)|
      ≤ (1 + r.u)^ps.length *
          ((gam3 r.u + ps.length * r.u) * Rxy
            + (1 + gam3 r.u) * (RA + RB + Bm r.u My * Mx
                + Bm r.u Mx * Bm r.u My * ((ps.length : K)^3 / 3))) := by
  have hu := r.u_nonneg
  set Bx := Bm r.u Mx with hBx
  set By := Bm r.u My with hBy
  have hBx0 : 0 ≤ Bx := Bm_nonneg hu hMx
  have hBy0 : 0 ≤ By := Bm_nonneg hu hMy
  have hTx0 := T_nonneg (fsts (vals ps))
  have hTy0 := T_nonneg (snds (vals ps))
  have hsumA : ∑ i ∈ range ps.length, (Bx * (i : K))^2 ≤ Bx^2 * ((ps.length : K)^3 / 3) := by
    have h := sum_sq_le (K := K) ps.length
    calc ∑ i ∈ range ps.length, (Bx * (i : K))^2 = Bx^2 * ∑ i ∈ range ps.length, ((i : K))^2 := by
          rw [mul_sum]; apply sum_congr rfl; intro i _; ring
      _ ≤ Bx^2 * ((ps.length : K)^3 / 3) := by gcongr
  have hsumB := sum_lift_sq_le By hBy0 ps.length
  have hsumC : ∑ i ∈ range ps.length, Bx * (i : K) * (By * ((i + 1 : ℕ) : K))
      ≤ Bx * By * ((ps.length : K)^3 / 3) := by
    have h := sum_mul_succ_le (K := K) ps.length
    calc ∑ i ∈ range ps.length, Bx * (i : K) * (By * ((i + 1 : ℕ) : K))
        = (Bx * By) * ∑ i ∈ range ps.length, (i : K) * ((i : K) + 1) := by
          rw [mul_sum]; apply sum_congr rfl; intro i _; push_cast; ring
      _ ≤ Bx * By * ((ps.length : K)^3 / 3) := by gcongr
  have hd0 : |dev (fsts (vals ps)) 0| ≤ Mx := by
    apply abs_dev_zero_le _ Mx hMx
    intro v hv
    rw [fsts_vals, List.mem_map] at hv
    obtain ⟨x, hx, rfl⟩ := hv
    rw [List.mem_map] at hx
    obtain ⟨p, hp, rfl⟩ := hx
    exact hbx p hp
  have hcs := cov_fold_error_cs r (fun i => Bx * (i : K)) (fun i => By * (i : K))
    (fun i => by positivity) (fun i => by positivity) ps
    (mean_prefix_x r Mx hMx ps hbx hsmall) (mean_prefix_y r My hMy ps hby hsmall)
    Rxy RA RB hRxy hRA hRB hxy
    (le_trans (by gcongr) hA) (le_trans (by gcongr) hB)
  refine le_trans hcs ?_
  have hg := gam3_nonneg hu
  have hE1 : By * ((1 : ℕ) : K) * |dev (fsts (vals ps)) 0| ≤ By * Mx := by
    rw [Nat.cast_one, mul_one]; gcongr
  gcongr

end CovErr

#print axioms CovErr.cov_fold_error_cs
#print axioms CovErr.cov_fold_error_B
