import AvgProofs.MomentsVarErrStep

/-!
# The third-order entry `m[1]` of `define_moments!`: what `add` computes

`Moments.add N s x` (`N ≥ 3`) updates `m[1]` in the iteration `p = 3` of the outer loop; the inner loop
`for k in 1..(p-1)` runs once (`k = 1`, binomial `C(3,1) = 3`, `coeff = 1·factor_coeff`):

`m1' = (m1 + (term1·f1·f1 + term2·f2·f2)·(delta·delta·delta)) + (3·m0)·(1·((-delta)·over_n))`

with `over_n = 1/n`, `term1 = (n-1)·(-over_n)`, `f1 = -over_n`, `term2 = f2 = (n-1)·over_n`,
`delta = x - avg`, `n` the new count, `m0`, `m1` the entries BEFORE the observation.

* `Moments.add_m1` - any carrier, bit for bit, every `N ≥ 3` (the entry does not depend on `N`).
* `moments_m1_add_val` - at `RF2 r` with exact negation, rounding by rounding.
-/
open Avg

namespace Avg
section anyCarrier
variable {α : Type} [Add α] [Sub α] [Mul α] [Div α] [Neg α] [NatCast α]

/-- the third-order entry `m[1] = Σ(x - avg)³` of a `define_moments!` state (`0` if `N < 3`) -/
def Moments.m1 (s : Moments α) : α := s.m.getD 1 ((0:Nat):α)

/-- **What `add` does to `m[1]`, any carrier, bit for bit**: for every order `N ≥ 3`, whatever default `d`
the entry is read with. -/
theorem Moments.add_m1 (N : Nat) (hN : 3 ≤ N) (s : Moments α) (x d : α) :
    (Moments.add N s x).m.getD 1 d =
      (s.m1 + ((((s.n + 1 : Nat) : α) - ((1:Nat):α)) * (-(((1:Nat):α) / ((s.n + 1 : Nat) : α)))
                  * (-(((1:Nat):α) / ((s.n + 1 : Nat) : α)))
                  * (-(((1:Nat):α) / ((s.n + 1 : Nat) : α)))
                + ((((s.n + 1 : Nat) : α) - ((1:Nat):α)) * (((1:Nat):α) / ((s.n + 1 : Nat) : α)))
                  * ((((s.n + 1 : Nat) : α) - ((1:Nat):α)) * (((1:Nat):α) / ((s.n + 1 : Nat) : α)))
                  * ((((s.n + 1 : Nat) : α) - ((1:Nat):α)) * (((1:Nat):α) / ((s.n + 1 : Nat) : α))))
              * ((x - s.avg) * (x - s.avg) * (x - s.avg)))
        + ((3:Nat):α) * s.m0
            * (((1:Nat):α) * ((-(x - s.avg)) * (((1:Nat):α) / ((s.n + 1 : Nat) : α)))) := by
  obtain ⟨k, rfl⟩ : ∃ k, N = k + 3 := ⟨N - 3, by omega⟩
  rfl

/-- the entries `m[0]`, `m[1]` after an `add` are the same for every order `N ≥ 3` -/
theorem Moments.add_m01_indep (N N' : Nat) (hN : 3 ≤ N) (hN' : 3 ≤ N') (s s' : Moments α) (x d : α)
    (hn : s.n = s'.n) (ha : s.avg = s'.avg) (h0 : s.m0 = s'.m0) (h1 : s.m1 = s'.m1) :
    (Moments.add N s x).m.getD 0 d = (Moments.add N' s' x).m.getD 0 d
    ∧ (Moments.add N s x).m.getD 1 d = (Moments.add N' s' x).m.getD 1 d := by
  refine ⟨?_, ?_⟩
  · rw [Moments.add_m0 N (by omega), Moments.add_m0 N' (by omega), hn, ha, h0]
  · rw [Moments.add_m1 N hN, Moments.add_m1 N' hN', hn, ha, h0, h1]

/-- reading `m[1]` of a state produced by `add` (`N ≥ 3`) does not depend on the default -/
theorem Moments.add_getD_m1 (N : Nat) (hN : 3 ≤ N) (s : Moments α) (x d : α) :
    (Moments.add N s x).m.getD 1 d = (Moments.add N s x).m1 := by
  rw [Moments.m1, Moments.add_m1 N hN, Moments.add_m1 N hN]

omit [Add α] [Sub α] [Mul α] [Div α] [Neg α] in
theorem Moments.new_m1 (N : Nat) : (Moments.new N : Moments α).m1 = ((0:Nat):α) := by
  unfold Moments.m1 Moments.new
  rcases h : N - 1 with _ | _ | k
  · rfl
  · rfl
  · rfl

/-- after any add-only stream the count, the mean and the entries `m[0]`, `m[1]` are the same for every order
`N ≥ 3`, bit for bit -/
theorem Moments.fold_m01_indep (N N' : Nat) (hN : 3 ≤ N) (hN' : 3 ≤ N') (xs : List α) :
    (xs.foldl (Moments.add N) (Moments.new N)).n = (xs.foldl (Moments.add N') (Moments.new N')).n
    ∧ (xs.foldl (Moments.add N) (Moments.new N)).avg = (xs.foldl (Moments.add N') (Moments.new N')).avg
    ∧ (xs.foldl (Moments.add N) (Moments.new N)).m0 = (xs.foldl (Moments.add N') (Moments.new N')).m0
    ∧ (xs.foldl (Moments.add N) (Moments.new N)).m1
        = (xs.foldl (Moments.add N') (Moments.new N')).m1 := by
  induction xs using List.reverseRecOn with
  | nil =>
    refine ⟨rfl, rfl, ?_, ?_⟩
    · rw [List.foldl_nil, List.foldl_nil, Moments.new_m0, Moments.new_m0]
    · rw [List.foldl_nil, List.foldl_nil, Moments.new_m1, Moments.new_m1]
  | append_singleton xs x ih =>
    obtain ⟨hn, ha, h0, h1⟩ := ih
    simp only [List.foldl_append, List.foldl_cons, List.foldl_nil]
    set s := xs.foldl (Moments.add N) (Moments.new N)
    set s' := xs.foldl (Moments.add N') (Moments.new N')
    have h := Moments.add_m01_indep N N' hN hN' s s' x ((0:Nat):α) hn ha h0 h1
    refine ⟨?_, ?_, h.1, h.2⟩
    · show s.n + 1 = s'.n + 1
      rw [hn]
    · show s.avg + (x - s.avg) / ((s.n + 1 : Nat) : α) = s'.avg + (x - s'.avg) / ((s'.n + 1 : Nat) : α)
      rw [hn, ha]

end anyCarrier
end Avg

variable {K : Type} [Field K] [LinearOrder K] [IsStrictOrderedRing K]

/-- **What `add` computes for `m[1]` at the carrier `RF2 r`**, rounding by rounding (`k` the new count,
`a` the mean, `m0`, `m1` the entries before the observation): with `on = fl(1/k)`, `km = fl(k-1)`,
`δ = fl(x-a)`, `w = fl(km·on)`,
`t1 = fl(fl(fl(km·(-on))·(-on))·(-on))`, `t2 = fl(fl(w·w)·w)`, `cd = fl(fl(δ·δ)·δ)`,
`m1' = fl( fl(m1 + fl(fl(t1 + t2)·cd)) + fl(fl(3·m0)·fl(1·fl((-δ)·on))) )`. -/
theorem moments_m1_add_val (r : Rnd2 K) [Neg (RF2 r)] (hneg : NegExact r) (N : Nat) (hN : 3 ≤ N)
    (s : Moments (RF2 r)) (x : RF2 r) :
    (Moments.add N s x).m1.val =
      r.fl (r.fl (s.m1.val +
          r.fl (r.fl (r.fl (r.fl (r.fl (r.fl (((s.n + 1 : ℕ) : K) - 1) * -(r.fl (1 / ((s.n + 1 : ℕ) : K))))
                          * -(r.fl (1 / ((s.n + 1 : ℕ) : K))))
                        * -(r.fl (1 / ((s.n + 1 : ℕ) : K))))
                    + r.fl (r.fl (r.fl (r.fl (((s.n + 1 : ℕ) : K) - 1) * r.fl (1 / ((s.n + 1 : ℕ) : K)))
                          * r.fl (r.fl (((s.n + 1 : ℕ) : K) - 1) * r.fl (1 / ((s.n + 1 : ℕ) : K))))
                        * r.fl (r.fl (((s.n + 1 : ℕ) : K) - 1) * r.fl (1 / ((s.n + 1 : ℕ) : K)))))
                * r.fl (r.fl (r.fl (x.val - s.avg.val) * r.fl (x.val - s.avg.val))
                    * r.fl (x.val - s.avg.val))))
        + r.fl (r.fl (3 * s.m0.val)
            * r.fl (1 * r.fl (-(r.fl (x.val - s.avg.val)) * r.fl (1 / ((s.n + 1 : ℕ) : K)))))) := by
  rw [Moments.m1, Moments.add_m1 N hN]
  set on : RF2 r := ((1:Nat) : RF2 r) / ((s.n + 1 : Nat) : RF2 r) with hon
  set dl : RF2 r := x - s.avg with hdl
  have h1 : ((1:Nat) : RF2 r).val = 1 := (Nat.cast_one : ((1 : ℕ) : K) = 1)
  have h3 : ((3:Nat) : RF2 r).val = 3 := (Nat.cast_ofNat : ((3 : ℕ) : K) = 3)
  have hon' : on.val = r.fl (1 / ((s.n + 1 : ℕ) : K)) := by
    rw [hon]
    show r.fl (((1:Nat) : RF2 r).val / ((s.n + 1 : ℕ) : K)) = _
    rw [h1]
  have hneg' : (-on).val = -(r.fl (1 / ((s.n + 1 : ℕ) : K))) := by rw [hneg on, hon']
  have hdl' : dl.val = r.fl (x.val - s.avg.val) := rfl
  have hnegd : (-dl).val = -(r.fl (x.val - s.avg.val)) := by rw [hneg dl, hdl']
  show r.fl (r.fl (s.m1.val +
      r.fl (r.fl (r.fl (r.fl (r.fl (r.fl (((s.n + 1 : ℕ) : K) - ((1:Nat) : RF2 r).val) * (-on).val)
                * (-on).val) * (-on).val)
          + r.fl (r.fl (r.fl (r.fl (((s.n + 1 : ℕ) : K) - ((1:Nat) : RF2 r).val) * on.val)
                * r.fl (r.fl (((s.n + 1 : ℕ) : K) - ((1:Nat) : RF2 r).val) * on.val))
              * r.fl (r.fl (((s.n + 1 : ℕ) : K) - ((1:Nat) : RF2 r).val) * on.val)))
        * r.fl (r.fl (dl.val * dl.val) * dl.val)))
      + r.fl (r.fl (((3:Nat) : RF2 r).val * s.m0.val)
          * r.fl (((1:Nat) : RF2 r).val * r.fl ((-dl).val * on.val)))) = _
  rw [h1, h3, hneg', hon', hnegd, hdl']

#print axioms Avg.Moments.add_m1
#print axioms Avg.Moments.add_m01_indep
#print axioms Avg.Moments.fold_m01_indep
#print axioms moments_m1_add_val
