import AvgProofs.SkewMergeErrRel

/-!
# One `Skewness.merge` of two non-empty states under the standard model of rounding: the third-order sum

`S3' = fl(S3x + fl(fl(S3y + A') + B'))` with the rounded cross terms `A'`, `B'` of
`AvgProofs/SkewMergeErrRel.lean`, computed from the *computed* means `a`, `b` and the *computed* sums of squares
`Sx`, `Sy`; compared with the exact `U' = Ux + Uy + P + Q`,
`P = δ³·n_x·n_y·(n_x-n_y)/n²`, `Q = 3·(δ/n)·(n_x·T_y - n_y·T_x)`, `δ = μ_y - μ_x`, `n = n_x + n_y`.

With `ε ≥ |(b - a) - δ|`, `Pa = |P|`, `H = n_x·T_y + n_y·T_x`, `Qa = 3·(|δ|/n)·H`,
`Z = n_x·|Sy - T_y| + n_y·|Sx - T_x|`, `w = n_x·n_y·|n_x-n_y|/n²`, `γ_i = (1+u)^i - 1`
(`SkewMerge.merge3_step_error`):

`|S3' - U'| ≤ (1+u)³·( |S3x - Ux| + |S3y - Uy| + γ15·Pa + γ8·Qa
        + (1+γ15)·w·(3δ²ε + 3|δ|ε² + ε³) + (1+γ8)·(3/n)·(ε·H + (|δ|+ε)·Z) )
     + u·(1+u)²·|Uy + P| + u·(1+u)·|Uy + P + Q| + u·|U'|`.
-/
variable {K : Type} [Field K] [LinearOrder K] [IsStrictOrderedRing K]

namespace SkewMerge
open SkewErr

/-- the first cross term depends on the difference of the means through `3δ²e + 3δe² + e³` -/
theorem crossA_shift (D δ w : K) :
    |D^3 * w - δ^3 * w| ≤ |w| * (3 * δ^2 * |D - δ| + 3 * |δ| * (D - δ)^2 + |D - δ|^3) := by
  have h : D^3 * w - δ^3 * w = w * (3 * δ^2 * (D - δ) + 3 * δ * (D - δ)^2 + (D - δ)^3) := by ring
  rw [h, abs_mul]
  gcongr
  calc |3 * δ^2 * (D - δ) + 3 * δ * (D - δ)^2 + (D - δ)^3|
      ≤ |3 * δ^2 * (D - δ)| + |3 * δ * (D - δ)^2| + |(D - δ)^3| :=
        le_trans (abs_add_le _ _) (by gcongr; exact abs_add_le _ _)
    _ = 3 * δ^2 * |D - δ| + 3 * |δ| * (D - δ)^2 + |D - δ|^3 := by
        simp only [abs_mul, abs_pow, sq_abs, abs_of_pos (by norm_num : (0:K) < 3)]

/-- the second cross term depends on the errors of the means and of the two sums of squares through
`e·(n_x·T_y - n_y·T_x) + (δ + e)·(n_x·D2y - n_y·D2x)` -/
theorem crossB_shift (D δ n nx ny Sx Sy Tx Ty : K) (hn : 0 < n) (hnx : 0 ≤ nx) (hny : 0 ≤ ny)
    (hTx : 0 ≤ Tx) (hTy : 0 ≤ Ty) :
    |3 * (D / n) * (nx * Sy - ny * Sx) - 3 * (δ / n) * (nx * Ty - ny * Tx)|
      ≤ 3 / n * (|D - δ| * (nx * Ty + ny * Tx)
          + (|δ| + |D - δ|) * (nx * |Sy - Ty| + ny * |Sx - Tx|)) := by
  have h : 3 * (D / n) * (nx * Sy - ny * Sx) - 3 * (δ / n) * (nx * Ty - ny * Tx)
      = 3 / n * ((D - δ) * (nx * Ty - ny * Tx) + D * (nx * (Sy - Ty) - ny * (Sx - Tx))) := by ring
  have h3 : (0 : K) ≤ 3 / n := by positivity
  rw [h, abs_mul, abs_of_nonneg h3]
  gcongr
  have hD : |D| ≤ |δ| + |D - δ| := by
    have : D = δ + (D - δ) := by ring
    calc |D| = |δ + (D - δ)| := by rw [← this]
      _ ≤ |δ| + |D - δ| := abs_add_le _ _
  have h1 : |nx * Ty - ny * Tx| ≤ nx * Ty + ny * Tx := by
    refine le_trans (abs_sub _ _) (le_of_eq ?_)
    rw [abs_of_nonneg (mul_nonneg hnx hTy), abs_of_nonneg (mul_nonneg hny hTx)]
  have h2 : |nx * (Sy - Ty) - ny * (Sx - Tx)| ≤ nx * |Sy - Ty| + ny * |Sx - Tx| := by
    refine le_trans (abs_sub _ _) (le_of_eq ?_)
    rw [abs_mul, abs_mul, abs_of_nonneg hnx, abs_of_nonneg hny]
  calc |(D - δ) * (nx * Ty - ny * Tx) + D * (nx * (Sy - Ty) - ny * (Sx - Tx))|
      ≤ |D - δ| * |nx * Ty - ny * Tx| + |D| * |nx * (Sy - Ty) - ny * (Sx - Tx)| := by
        refine le_trans (abs_add_le _ _) ?_
        rw [abs_mul, abs_mul]
    _ ≤ |D - δ| * (nx * Ty + ny * Tx)
          + (|δ| + |D - δ|) * (nx * |Sy - Ty| + ny * |Sx - Tx|) := by gcongr

/-- **One merge step of `sum_3` (state lemma).** `a`, `b` the computed means, `μx`, `μy` the exact ones, `ε` a
bound on the error of their difference; `Sx`, `Sy` the computed sums of squares, `Tx, Ty ≥ 0` the exact ones;
`S3x`, `S3y` the computed third-order sums, `Ux`, `Uy` the exact ones; `nx, ny > 0` the counts. -/
theorem merge3_step_error (fl : K → K) (u : K) (hu : 0 ≤ u) (hu2 : u ≤ 1/2)
    (hfl : ∀ t, |fl t - t| ≤ u * |t|)
    (a b μx μy Sx Sy Tx Ty S3x S3y Ux Uy nx ny ε : K) (hnx : 0 < nx) (hny : 0 < ny)
    (hTx : 0 ≤ Tx) (hTy : 0 ≤ Ty) (hε : |(b - a) - (μy - μx)| ≤ ε) :
    let Dn := fl (fl (b - a) / fl (nx + ny))
    let A' := fl (fl (fl (fl (fl (fl (b - a) * Dn) * Dn) * nx) * ny) * fl (nx - ny))
    let B' := fl (fl (3 * Dn) * fl (fl (nx * Sy) - fl (ny * Sx)))
    let δ := μy - μx
    let w := nx * ny * |nx - ny| / (nx + ny)^2
    let P := δ^3 * (nx * ny * (nx - ny) / (nx + ny)^2)
    let Q := 3 * (δ / (nx + ny)) * (nx * Ty - ny * Tx)
    let H := nx * Ty + ny * Tx
    let Z := nx * |Sy - Ty| + ny * |Sx - Tx|
    |fl (S3x + fl (fl (S3y + A') + B')) - (Ux + (Uy + P + Q))|
      ≤ (1 + u)^3 * (|S3x - Ux| + |S3y - Uy| + g u 15 * (|δ|^3 * w)
            + g u 8 * (3 * (|δ| / (nx + ny)) * H)
            + (1 + g u 15) * (w * (3 * δ^2 * ε + 3 * |δ| * ε^2 + ε^3))
            + (1 + g u 8) * (3 / (nx + ny) * (ε * H + (|δ| + ε) * Z)))
        + u * (1 + u)^2 * |Uy + P| + u * (1 + u) * |Uy + P + Q| + u * |Ux + (Uy + P + Q)| := by
  intro Dn A' B' δ w P Q H Z
  have hn : 0 < nx + ny := by positivity
  have hw0 : 0 ≤ w := by positivity
  have hH0 : 0 ≤ H := by positivity
  have hZ0 : 0 ≤ Z := by positivity
  have hε0 : 0 ≤ ε := le_trans (abs_nonneg _) hε
  have hg15 := g_nonneg hu 15
  have hg8 := g_nonneg hu 8
  set e := (b - a) - δ with he
  have hd0 : 0 ≤ |δ| := abs_nonneg δ
  -- first cross term
  set w' := nx * ny * (nx - ny) / (nx + ny)^2 with hw'
  have hww : |w'| = w := by
    rw [hw', abs_div, abs_mul, abs_mul, abs_of_pos hnx, abs_of_pos hny,
      abs_of_nonneg (sq_nonneg (nx + ny))]
  have hA : RE u 15 A' ((b - a)^3 * w') := crossA_RE fl u hu hu2 hfl a b nx ny hnx hny
  have hAs : |(b - a)^3 * w' - P| ≤ w * (3 * δ^2 * ε + 3 * |δ| * ε^2 + ε^3) := by
    have := crossA_shift (b - a) δ w'
    rw [hww] at this
    refine le_trans this ?_
    have h2 : (b - a - δ)^2 ≤ ε^2 := by rw [← sq_abs]; gcongr
    have h3 : |b - a - δ|^3 ≤ ε^3 := by gcongr
    gcongr
  set ΔA := w * (3 * δ^2 * ε + 3 * |δ| * ε^2 + ε^3) with hΔA
  have hPabs : |P| = |δ|^3 * w := by
    show |δ^3 * w'| = _
    rw [abs_mul, abs_pow, hww]
  have hA0le : |(b - a)^3 * w'| ≤ |δ|^3 * w + ΔA := by
    have : (b - a)^3 * w' = P + ((b - a)^3 * w' - P) := by ring
    calc |(b - a)^3 * w'| = |P + ((b - a)^3 * w' - P)| := by rw [← this]
      _ ≤ |P| + |(b - a)^3 * w' - P| := abs_add_le _ _
      _ ≤ |δ|^3 * w + ΔA := by rw [hPabs]; linarith
  have hEA : |A' - P| ≤ g u 15 * (|δ|^3 * w) + (1 + g u 15) * ΔA := by
    have : A' - P = (A' - (b - a)^3 * w') + ((b - a)^3 * w' - P) := by ring
    rw [this]
    calc |(A' - (b - a)^3 * w') + ((b - a)^3 * w' - P)|
        ≤ |A' - (b - a)^3 * w'| + |(b - a)^3 * w' - P| := abs_add_le _ _
      _ ≤ g u 15 * |(b - a)^3 * w'| + ΔA := by
          have : |A' - (b - a)^3 * w'| ≤ g u 15 * |(b - a)^3 * w'| := hA
          linarith
      _ ≤ g u 15 * (|δ|^3 * w + ΔA) + ΔA := by gcongr
      _ = g u 15 * (|δ|^3 * w) + (1 + g u 15) * ΔA := by ring
  -- second cross term
  have hB := crossB_error fl u hu hu2 hfl a b nx ny Sx Sy hnx hny
  have hBs := crossB_shift (b - a) δ (nx + ny) nx ny Sx Sy Tx Ty hn hnx.le hny.le hTx hTy
  set B0 := 3 * ((b - a) / (nx + ny)) * (nx * Sy - ny * Sx) with hB0
  have hba : |b - a| ≤ |δ| + ε := by
    have : b - a = δ + e := by rw [he]; ring
    calc |b - a| = |δ + e| := by rw [this]
      _ ≤ |δ| + |e| := abs_add_le _ _
      _ ≤ |δ| + ε := by linarith
  have hSy : |Sy| ≤ Ty + |Sy - Ty| := by
    have : Sy = Ty + (Sy - Ty) := by ring
    calc |Sy| = |Ty + (Sy - Ty)| := by rw [← this]
      _ ≤ |Ty| + |Sy - Ty| := abs_add_le _ _
      _ = Ty + |Sy - Ty| := by rw [abs_of_nonneg hTy]
  have hSx : |Sx| ≤ Tx + |Sx - Tx| := by
    have : Sx = Tx + (Sx - Tx) := by ring
    calc |Sx| = |Tx + (Sx - Tx)| := by rw [← this]
      _ ≤ |Tx| + |Sx - Tx| := abs_add_le _ _
      _ = Tx + |Sx - Tx| := by rw [abs_of_nonneg hTx]
  have hWa : nx * |Sy| + ny * |Sx| ≤ H + Z := by
    have h1 : nx * |Sy| ≤ nx * (Ty + |Sy - Ty|) := by gcongr
    have h2 : ny * |Sx| ≤ ny * (Tx + |Sx - Tx|) := by gcongr
    simp only [H, Z]; linarith
  have hB1 : |B' - B0| ≤ g u 8 * (3 * ((|δ| + ε) / (nx + ny)) * (H + Z)) := by
    refine le_trans hB ?_
    gcongr
  have hB2 : |B0 - Q| ≤ 3 / (nx + ny) * (ε * H + (|δ| + ε) * Z) := by
    refine le_trans hBs ?_
    have he' : |b - a - δ| ≤ ε := hε
    gcongr
  have hEB : |B' - Q| ≤ g u 8 * (3 * (|δ| / (nx + ny)) * H)
      + (1 + g u 8) * (3 / (nx + ny) * (ε * H + (|δ| + ε) * Z)) := by
    have : B' - Q = (B' - B0) + (B0 - Q) := by ring
    rw [this]
    refine le_trans (abs_add_le _ _) ?_
    refine le_trans (add_le_add hB1 hB2) (le_of_eq ?_)
    field_simp
    ring
  have hEB0 : 0 ≤ g u 8 * (3 * (|δ| / (nx + ny)) * H)
      + (1 + g u 8) * (3 / (nx + ny) * (ε * H + (|δ| + ε) * Z)) := by positivity
  set EB := g u 8 * (3 * (|δ| / (nx + ny)) * H)
      + (1 + g u 8) * (3 / (nx + ny) * (ε * H + (|δ| + ε) * Z)) with hEBdef
  set EA := g u 15 * (|δ|^3 * w) + (1 + g u 15) * ΔA with hEAdef
  -- the three rounded additions
  have r1 := round_add_error fl u hu hfl S3y A' Uy P
  set w1 := fl (S3y + A') with hw1
  have r2 := round_add_error fl u hu hfl w1 B' (Uy + P) Q
  set w2 := fl (w1 + B') with hw2
  have r3 := round_add_error fl u hu hfl S3x w2 Ux (Uy + P + Q)
  have h1u : 0 ≤ 1 + u := by linarith
  have r1' : |w1 - (Uy + P)| ≤ (1 + u) * (|S3y - Uy| + EA) + u * |Uy + P| := by
    refine le_trans r1 ?_
    have := mul_le_mul_of_nonneg_left (add_le_add_left hEA |S3y - Uy|) h1u
    linarith
  have r2' : |w2 - (Uy + P + Q)|
      ≤ (1 + u) * ((1 + u) * (|S3y - Uy| + EA) + u * |Uy + P| + EB) + u * |Uy + P + Q| := by
    refine le_trans r2 ?_
    have := mul_le_mul_of_nonneg_left (add_le_add r1' hEB) h1u
    linarith
  refine le_trans r3 ?_
  have r3' := mul_le_mul_of_nonneg_left (add_le_add_left r2' |S3x - Ux|) h1u
  have hE0 : 0 ≤ |S3x - Ux| := abs_nonneg _
  have h1le : (1 : K) ≤ 1 + u := by linarith
  have hp1 : (1 + u) * |S3x - Ux| ≤ (1 + u)^3 * |S3x - Ux| := by
    have : (1 + u) ≤ (1 + u)^3 := by
      calc (1 + u) = (1 + u)^1 := (pow_one _).symm
        _ ≤ (1 + u)^3 := pow_le_pow_right₀ h1le (by norm_num)
    exact mul_le_mul_of_nonneg_right this hE0
  have hp2 : (1 + u)^2 * EB ≤ (1 + u)^3 * EB :=
    mul_le_mul_of_nonneg_right (pow_le_pow_right₀ h1le (by norm_num)) hEB0
  calc (1 + u) * (|S3x - Ux| + |w2 - (Uy + P + Q)|) + u * |Ux + (Uy + P + Q)|
      ≤ (1 + u) * (|S3x - Ux| + ((1 + u) * ((1 + u) * (|S3y - Uy| + EA) + u * |Uy + P| + EB)
          + u * |Uy + P + Q|)) + u * |Ux + (Uy + P + Q)| := by linarith
    _ = (1 + u) * |S3x - Ux| + (1 + u)^3 * (|S3y - Uy| + EA) + (1 + u)^2 * EB
          + u * (1 + u)^2 * |Uy + P| + u * (1 + u) * |Uy + P + Q| + u * |Ux + (Uy + P + Q)| := by ring
    _ ≤ (1 + u)^3 * |S3x - Ux| + (1 + u)^3 * (|S3y - Uy| + EA) + (1 + u)^3 * EB
          + u * (1 + u)^2 * |Uy + P| + u * (1 + u) * |Uy + P + Q| + u * |Ux + (Uy + P + Q)| := by
        linarith
    _ = (1 + u)^3 * (|S3x - Ux| + |S3y - Uy| + g u 15 * (|δ|^3 * w)
            + g u 8 * (3 * (|δ| / (nx + ny)) * H)
            + (1 + g u 15) * ΔA
            + (1 + g u 8) * (3 / (nx + ny) * (ε * H + (|δ| + ε) * Z)))
        + u * (1 + u)^2 * |Uy + P| + u * (1 + u) * |Uy + P + Q| + u * |Ux + (Uy + P + Q)| := by
        rw [hEAdef, hEBdef]; ring

end SkewMerge

#print axioms SkewMerge.merge3_step_error
