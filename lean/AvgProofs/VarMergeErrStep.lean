import AvgProofs.VarMergeErrRel

/-!
# One `Variance.merge` of two non-empty states under the standard model of rounding

`S' = fl(S_x + fl(S_y + c'))`, `c'` the rounded cross term (`VarMerge.cross_term_error`) computed from
the *computed* means `a`, `b`, compared with the exact `T' = T_x + T_y + C`, `C = (μ_y-μ_x)²·q`,
`q = n_x·n_y/(n_x+n_y)`. With `ε ≥ |(b - a) - (μ_y - μ_x)|` and `η = (1+u)^6/(1-u) - 1`:

`|S' - T'| ≤ (1+u)²·(|S_x-T_x| + |S_y-T_y| + η·C + (1+η)·(2ε|μ_y-μ_x| + ε²)·q) + (1+u)·u·(T_y+C) + u·T'`.

As for `add`, the perturbation by the errors of the means is linear in `|μ_y - μ_x|` (the distance of
the two chunk means, at most `sqrt(T'/q)`), not in the size of the data.
-/
variable {K : Type} [Field K] [LinearOrder K] [IsStrictOrderedRing K]

namespace VarMerge

/-- `|D'²·q - D²·q| ≤ (2|D'-D||D| + (D'-D)²)·q` -/
theorem sq_shift (D' D q : K) (hq : 0 ≤ q) :
    |D'^2 * q - D^2 * q| ≤ (2 * |D' - D| * |D| + (D' - D)^2) * q := by
  have h : D'^2 * q - D^2 * q = (2 * ((D' - D) * D) + (D' - D)^2) * q := by ring
  rw [h, abs_mul, abs_of_nonneg hq]
  gcongr
  calc |2 * ((D' - D) * D) + (D' - D)^2| ≤ |2 * ((D' - D) * D)| + |(D' - D)^2| := abs_add_le _ _
    _ = 2 * |D' - D| * |D| + (D' - D)^2 := by
        rw [abs_mul, abs_mul, abs_of_nonneg (sq_nonneg (D' - D)), abs_two]; ring

/-- one rounding of an approximation `X` of a non-negative target `Tt`:
`|fl X - Tt| ≤ (1+u)·|X - Tt| + u·Tt` -/
theorem round_to_nonneg (fl : K → K) (u : K) (hu : 0 ≤ u) (hfl : ∀ t, |fl t - t| ≤ u * |t|)
    (X Tt : K) (hT : 0 ≤ Tt) : |fl X - Tt| ≤ (1 + u) * |X - Tt| + u * Tt := by
  have hX : |X| ≤ Tt + |X - Tt| := by
    have : X = Tt + (X - Tt) := by ring
    calc |X| = |Tt + (X - Tt)| := by rw [← this]
      _ ≤ |Tt| + |X - Tt| := abs_add_le _ _
      _ = Tt + |X - Tt| := by rw [abs_of_nonneg hT]
  have : fl X - Tt = (fl X - X) + (X - Tt) := by ring
  rw [this]
  calc |(fl X - X) + (X - Tt)| ≤ |fl X - X| + |X - Tt| := abs_add_le _ _
    _ ≤ u * (Tt + |X - Tt|) + |X - Tt| := by
        have : u * |X| ≤ u * (Tt + |X - Tt|) := by gcongr
        linarith [hfl X]
    _ = (1 + u) * |X - Tt| + u * Tt := by ring

/-- **One merge step (state lemma).** `a`, `b` the computed means, `μx`, `μy` the exact ones, `ε` a
bound on the error of their difference; `Sx`, `Sy` the computed sums of squares, `Tx, Ty ≥ 0` the exact
ones; `nx, ny > 0` the counts. -/
theorem merge_step_error (fl : K → K) (u : K) (hu : 0 ≤ u) (hu1 : u < 1)
    (hfl : ∀ t, |fl t - t| ≤ u * |t|)
    (a b μx μy Sx Sy Tx Ty nx ny ε : K) (hnx : 0 < nx) (hny : 0 < ny)
    (hTx : 0 ≤ Tx) (hTy : 0 ≤ Ty) (hε : |(b - a) - (μy - μx)| ≤ ε) :
    let δ := fl (b - a)
    let q := nx * ny / (nx + ny)
    let C := (μy - μx)^2 * q
    let c' := fl (fl (fl (fl (δ * δ) * nx) * ny) / fl (nx + ny))
    |fl (Sx + fl (Sy + c')) - (Tx + Ty + C)|
      ≤ (1 + u)^2 * (|Sx - Tx| + |Sy - Ty| + eta u * C
            + (1 + eta u) * ((2 * ε * |μy - μx| + ε^2) * q))
        + (1 + u) * u * (Ty + C) + u * (Tx + Ty + C) := by
  intro δ q C c'
  have hq : 0 ≤ q := by positivity
  have hC : 0 ≤ C := by positivity
  have hη := eta_nonneg hu hu1
  obtain ⟨hI, hc⟩ := cross_term_error fl u hu hu1 hfl a b nx ny hnx hny
  set I := (b - a)^2 * q with hIdef
  have hε0 : 0 ≤ ε := le_trans (abs_nonneg _) hε
  have hIC : |I - C| ≤ (2 * ε * |μy - μx| + ε^2) * q := by
    refine le_trans (sq_shift (b - a) (μy - μx) q hq) ?_
    have h2 : (b - a - (μy - μx))^2 ≤ ε^2 := by
      rw [← sq_abs]; gcongr
    gcongr
  set Δ := (2 * ε * |μy - μx| + ε^2) * q with hΔ
  have hIle : I ≤ C + Δ := by
    have := (abs_le.mp hIC).2; linarith
  have hEc : |c' - C| ≤ eta u * C + (1 + eta u) * Δ := by
    have : c' - C = (c' - I) + (I - C) := by ring
    rw [this]
    calc |(c' - I) + (I - C)| ≤ |c' - I| + |I - C| := abs_add_le _ _
      _ ≤ eta u * I + Δ := by linarith
      _ ≤ eta u * (C + Δ) + Δ := by gcongr
      _ = eta u * C + (1 + eta u) * Δ := by ring
  set Ec := eta u * C + (1 + eta u) * Δ with hEcdef
  -- inner addition
  have hz1 : |(Sy + c') - (Ty + C)| ≤ |Sy - Ty| + Ec := by
    have : (Sy + c') - (Ty + C) = (Sy - Ty) + (c' - C) := by ring
    rw [this]
    exact le_trans (abs_add_le _ _) (by linarith)
  have hw1 := round_to_nonneg fl u hu hfl (Sy + c') (Ty + C) (by linarith)
  set w1 := fl (Sy + c') with hw1def
  have hw1' : |w1 - (Ty + C)| ≤ (1 + u) * (|Sy - Ty| + Ec) + u * (Ty + C) := by
    refine le_trans hw1 ?_
    gcongr
  -- outer addition
  have hz2 : |(Sx + w1) - (Tx + Ty + C)|
      ≤ |Sx - Tx| + ((1 + u) * (|Sy - Ty| + Ec) + u * (Ty + C)) := by
    have : (Sx + w1) - (Tx + Ty + C) = (Sx - Tx) + (w1 - (Ty + C)) := by ring
    rw [this]
    exact le_trans (abs_add_le _ _) (by linarith)
  have hw2 := round_to_nonneg fl u hu hfl (Sx + w1) (Tx + Ty + C) (by linarith)
  refine le_trans hw2 ?_
  have hEx : 0 ≤ |Sx - Tx| := abs_nonneg _
  have h1 : (1 + u) * |(Sx + w1) - (Tx + Ty + C)|
      ≤ (1 + u) * (|Sx - Tx| + ((1 + u) * (|Sy - Ty| + Ec) + u * (Ty + C))) := by gcongr
  have h2 : (1 + u) * |Sx - Tx| ≤ (1 + u)^2 * |Sx - Tx| := by
    have : (1 + u) ≤ (1 + u)^2 := by nlinarith
    gcongr
  calc (1 + u) * |(Sx + w1) - (Tx + Ty + C)| + u * (Tx + Ty + C)
      ≤ (1 + u) * (|Sx - Tx| + ((1 + u) * (|Sy - Ty| + Ec) + u * (Ty + C)))
          + u * (Tx + Ty + C) := by linarith
    _ = (1 + u) * |Sx - Tx| + (1 + u)^2 * (|Sy - Ty| + Ec) + (1 + u) * u * (Ty + C)
          + u * (Tx + Ty + C) := by ring
    _ ≤ (1 + u)^2 * |Sx - Tx| + (1 + u)^2 * (|Sy - Ty| + Ec) + (1 + u) * u * (Ty + C)
          + u * (Tx + Ty + C) := by linarith
    _ = (1 + u)^2 * (|Sx - Tx| + |Sy - Ty| + eta u * C + (1 + eta u) * Δ)
          + (1 + u) * u * (Ty + C) + u * (Tx + Ty + C) := by rw [hEcdef]; ring

end VarMerge

#print axioms VarMerge.merge_step_error
