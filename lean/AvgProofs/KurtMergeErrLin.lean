import AvgProofs.KurtMergeErrInv

/-!
# Forward error of `sum_4` through every merge tree: numerals

* `KurtMerge.kurt_mtree_error_sym`: symbolic in the budget `B` of the mean - for `n·T ≤ R₀²`
  `|sum_4 - Q| ≤ (1+u)^(4n)·(30·u·n·V4T + 14·B·n·V3S + 27·B²·n²·T + 25·B³·n³·R₀ + (13/2)·B⁴·n⁵)`.
* `KurtMerge.kurt_mtree_error_lin`: `(n+28)·u ≤ 1/64`, `|x| ≤ M`:
  `|sum_4 - Q| ≤ 32·n·u·V4T + 154·n·u·M·V3S + 3026·n²·u²·M²·T + 28718·n³·u³·M³·R₀ + 76532·n⁵·u⁴·M⁴`.
* `KurtMerge.kurt_mtree_envelope`: moreover `T ≤ n·σ²`, `n·u·M ≤ σ`:
  `|sum_4 - Q| ≤ 32·n·u·V4T + 154·n·u·M·V3S + 108276·n²·u·M·σ³` - linear in the conditioning `M/σ` relative to
  `n·σ⁴`.
-/
open Avg MSpec Finset VarSpec SkewSpec KurtSpec SkewErr SkewMerge

namespace KurtMerge
variable {K : Type} [Field K] [LinearOrder K] [IsStrictOrderedRing K]

/-- the leading factor: `(1+u)^(4n) ≤ 16/15` when `n·u ≤ 1/64` -/
theorem lead4_le (u : K) (hu : 0 ≤ u) (n : ℕ) (h : (n : K) * u ≤ 1/64) : (1 + u)^(4 * n) ≤ 16/15 := by
  have h1 := VarMerge.one_add_pow_mul_le u hu (4 * n)
  push_cast at h1
  have hp : 0 ≤ (1 + u)^(4 * n) := by positivity
  nlinarith

/-- **Every merge tree, symbolic in the budget `B` of the mean.** Hypotheses on `B` as in
`mean_mtree_error_gen`; `u ≤ 1/1856`, `n·u ≤ 1/64`; any `R₀ ≥ 0` with `n·T ≤ R₀²`. -/
theorem kurt_mtree_error_sym (r : Rnd2 K) (M B : K) (hM : 0 ≤ M) (hu' : r.u ≤ 1/1856)
    (hB : 2 * M * (2 * ((2*r.u + r.u^2) * (1 + r.u)) + r.u) ≤ B) (t : MTree (RF2 r))
    (hne : t.flatten ≠ [])
    (hb : ∀ x ∈ t.flatten, |x.val| ≤ M)
    (hnu : (t.flatten.length : K) * r.u ≤ 1/64)
    (hs2 : 5 * r.u * (M + B * (t.flatten.length : K)) ≤ B)
    (R₀ : K) (hR : 0 ≤ R₀) (hRT : (t.flatten.length : K) * T (t.flatten.map RF2.val) ≤ R₀^2) :
    |(Kurtosis.evalTree t).sum_4.val - Q (t.flatten.map RF2.val)|
      ≤ (1 + r.u)^(4 * t.flatten.length)
          * (30 * r.u * (t.flatten.length : K) * V4T (t.map RF2.val)
              + 14 * B * (t.flatten.length : K) * V3S (t.map RF2.val)
              + 27 * B^2 * (t.flatten.length : K)^2 * T (t.flatten.map RF2.val)
              + 25 * B^3 * (t.flatten.length : K)^3 * R₀
              + 13/2 * B^4 * (t.flatten.length : K)^5) := by
  have hu0 := r.u_nonneg
  have hB0 : 0 ≤ B := le_trans (by positivity) hB
  have hn1 : (1 : K) ≤ t.flatten.length := by exact_mod_cast List.length_pos_of_ne_nil hne
  set n : K := (t.flatten.length : K) with hn
  have hnpos : 0 < n := by linarith
  set Tn := T (t.flatten.map RF2.val) with hTn
  have hT0 : 0 ≤ Tn := T_nonneg _
  set V4 := V4T (t.map RF2.val) with hV4
  set V3 := V3S (t.map RF2.val) with hV3
  have hP0 : 0 ≤ (1 + r.u)^(4 * t.flatten.length) := by positivity
  rcases hR.eq_or_lt with h0 | hpos
  · -- R₀ = 0: then T = 0
    have hT : Tn = 0 := by
      rw [← h0] at hRT
      have : n * Tn ≤ 0 := by simpa using hRT
      have h2 : 0 ≤ n * Tn := by positivity
      have h3 : n * Tn = 0 := le_antisymm this h2
      rcases mul_eq_zero.mp h3 with h | h
      · linarith
      · exact h
    have main := kurt_mtree_inv r M B 64 (B^2 / 64) hM hu' hB (by norm_num) (by positivity)
      (by rw [mul_div_cancel₀]; norm_num) t hb hnu hs2
    refine le_trans main (mul_le_mul_of_nonneg_left ?_ hP0)
    show G4 r.u B 64 (B^2 / 64) n V4 V3 Tn
      ≤ 30 * r.u * n * V4 + 14 * B * n * V3 + 27 * B^2 * n^2 * Tn + 25 * B^3 * n^3 * R₀
        + 13/2 * B^4 * n^5
    rw [hT, ← h0]
    unfold G4
    have h45 : n^4 ≤ n^5 := by
      have : 0 ≤ n^4 := by positivity
      nlinarith
    have hB4 : 0 ≤ B^4 := by positivity
    have : 25/2 * B^2 * (B^2 / 64) * n^4 ≤ 25/128 * B^4 * n^5 := by
      have : 25/2 * B^2 * (B^2 / 64) * n^4 = 25/128 * B^4 * n^4 := by ring
      rw [this]; gcongr
    have h4 : 0 ≤ B^4 * n^5 := by positivity
    simp only [mul_zero, add_zero]
    linarith
  · -- R₀ > 0
    have main := kurt_mtree_inv r M B (B * n / R₀) (B * R₀ / n) hM hu' hB (by positivity)
      (by positivity) (by
        have : B * n / R₀ * (B * R₀ / n) = B^2 := by field_simp
        rw [this]) t hb hnu hs2
    refine le_trans main (mul_le_mul_of_nonneg_left ?_ hP0)
    show G4 r.u B (B * n / R₀) (B * R₀ / n) n V4 V3 Tn
      ≤ 30 * r.u * n * V4 + 14 * B * n * V3 + 27 * B^2 * n^2 * Tn + 25 * B^3 * n^3 * R₀
        + 13/2 * B^4 * n^5
    unfold G4
    have h1 : 25/2 * B^2 * (B * n / R₀) * n^3 * Tn ≤ 25/2 * B^3 * n^3 * R₀ := by
      have : 25/2 * B^2 * (B * n / R₀) * n^3 * Tn = 25/2 * B^3 * n^3 * (n * Tn) / R₀ := by
        field_simp
      rw [this, div_le_iff₀ hpos]
      calc 25/2 * B^3 * n^3 * (n * Tn) ≤ 25/2 * B^3 * n^3 * R₀^2 := by gcongr
        _ = 25/2 * B^3 * n^3 * R₀ * R₀ := by ring
    have h2 : 25/2 * B^2 * (B * R₀ / n) * n^4 = 25/2 * B^3 * n^3 * R₀ := by field_simp
    have h3 : 6 * B^4 * n^5 ≤ 13/2 * B^4 * n^5 := by
      have : 0 ≤ B^4 * n^5 := by positivity
      linarith
    linarith

/-- numerals of `kurt_mtree_error_lin` -/
theorem mtree4_lin_arith (P B u M n V4 V3 Tn R₀ : K) (hu : 0 ≤ u) (hM : 0 ≤ M) (hn : 0 ≤ n)
    (hV4 : 0 ≤ V4) (hV3 : 0 ≤ V3) (hT : 0 ≤ Tn) (hR : 0 ≤ R₀) (hP : P ≤ 16/15) (hB : B = 41/4 * u * M) :
    P * (30 * u * n * V4 + 14 * B * n * V3 + 27 * B^2 * n^2 * Tn + 25 * B^3 * n^3 * R₀
        + 13/2 * B^4 * n^5)
      ≤ 32 * n * u * V4 + 154 * n * u * M * V3 + 3026 * n^2 * u^2 * M^2 * Tn
        + 28718 * n^3 * u^3 * M^3 * R₀ + 76532 * n^5 * u^4 * M^4 := by
  have a1 : 0 ≤ n * u * V4 := by positivity
  have a2 : 0 ≤ n * u * M * V3 := by positivity
  have a3 : 0 ≤ n^2 * u^2 * M^2 * Tn := by positivity
  have a4 : 0 ≤ n^3 * u^3 * M^3 * R₀ := by positivity
  have a5 : 0 ≤ n^5 * u^4 * M^4 := by positivity
  have h0 : 0 ≤ 30 * u * n * V4 + 14 * B * n * V3 + 27 * B^2 * n^2 * Tn + 25 * B^3 * n^3 * R₀
      + 13/2 * B^4 * n^5 := by
    rw [hB]; positivity
  calc P * (30 * u * n * V4 + 14 * B * n * V3 + 27 * B^2 * n^2 * Tn + 25 * B^3 * n^3 * R₀
          + 13/2 * B^4 * n^5)
      ≤ 16/15 * (30 * u * n * V4 + 14 * B * n * V3 + 27 * B^2 * n^2 * Tn + 25 * B^3 * n^3 * R₀
          + 13/2 * B^4 * n^5) := by gcongr
    _ = 16/15 * 30 * (n * u * V4) + 16/15 * 14 * (41/4) * (n * u * M * V3)
          + 16/15 * 27 * (41/4)^2 * (n^2 * u^2 * M^2 * Tn)
          + 16/15 * 25 * (41/4)^3 * (n^3 * u^3 * M^3 * R₀)
          + 16/15 * (13/2) * (41/4)^4 * (n^5 * u^4 * M^4) := by rw [hB]; ring
    _ ≤ 32 * (n * u * V4) + 154 * (n * u * M * V3) + 3026 * (n^2 * u^2 * M^2 * Tn)
          + 28718 * (n^3 * u^3 * M^3 * R₀) + 76532 * (n^5 * u^4 * M^4) := by
        have : (16:K)/15 * 30 ≤ 32 := by norm_num
        have : (16:K)/15 * 14 * (41/4) ≤ 154 := by norm_num
        have : (16:K)/15 * 27 * (41/4)^2 ≤ 3026 := by norm_num
        have : (16:K)/15 * 25 * (41/4)^3 ≤ 28718 := by norm_num
        have : (16:K)/15 * (13/2) * (41/4)^4 ≤ 76532 := by norm_num
        gcongr
    _ = _ := by ring

/-- **Forward error of `sum_4` through every merge tree.** Standard model of rounding with unit roundoff `u`;
every merge tree `t` (any shape, any chunk sizes, empty chunks included; leaves folded with `Kurtosis.add`,
nodes merged with `Kurtosis.merge`) over `n` observations with `|x| ≤ M` and `(n+28)·u ≤ 1/64`;
`Q = Σ(x - mean)⁴`, `T = Σ(x - mean)²` of the concatenated data; `V4T`, `V3S` the scales of the tree; any `R₀ ≥ 0`
with `n·T ≤ R₀²`:
`|sum_4 - Q| ≤ 32·n·u·V4T + 154·n·u·M·V3S + 3026·n²·u²·M²·T + 28718·n³·u³·M³·R₀ + 76532·n⁵·u⁴·M⁴`. -/
theorem kurt_mtree_error_lin (r : Rnd2 K) (M : K) (hM : 0 ≤ M) (t : MTree (RF2 r))
    (hb : ∀ x ∈ t.flatten, |x.val| ≤ M) (hsmall : ((t.flatten.length : K) + 28) * r.u ≤ 1/64)
    (R₀ : K) (hR : 0 ≤ R₀) (hRT : (t.flatten.length : K) * T (t.flatten.map RF2.val) ≤ R₀^2) :
    |(Kurtosis.evalTree t).sum_4.val - Q (t.flatten.map RF2.val)|
      ≤ 32 * (t.flatten.length : K) * r.u * V4T (t.map RF2.val)
        + 154 * (t.flatten.length : K) * r.u * M * V3S (t.map RF2.val)
        + 3026 * (t.flatten.length : K)^2 * r.u^2 * M^2 * T (t.flatten.map RF2.val)
        + 28718 * (t.flatten.length : K)^3 * r.u^3 * M^3 * R₀
        + 76532 * (t.flatten.length : K)^5 * r.u^4 * M^4 := by
  have hu := r.u_nonneg
  by_cases hnil : t.flatten = []
  · rw [Kurtosis.mtree_eval_empty t hnil, hnil]
    have h0 : (Kurtosis.new : Kurtosis (RF2 r)).sum_4.val = 0 :=
      (Nat.cast_zero : ((0 : ℕ) : K) = 0)
    simp [h0, Q_nil]
  have hn1 : (1 : K) ≤ t.flatten.length := by exact_mod_cast List.length_pos_of_ne_nil hnil
  have hnu : (t.flatten.length : K) * r.u ≤ 1/64 := by nlinarith
  have hu' : r.u ≤ 1/1856 := by nlinarith
  have hu64 : r.u ≤ 1/64 := by linarith
  have hBle := VarErr.B_le r.u M hu hM hu64
  have huM : 0 ≤ r.u * M := by positivity
  have main := kurt_mtree_error_sym r M (41/4 * r.u * M) hM hu' hBle t hnil hb hnu
    (by
      have h1 : 5 * r.u * (M + 41/4 * r.u * M * (t.flatten.length : K))
          = 5 * (r.u * M) + 205/4 * ((r.u * M) * ((t.flatten.length : K) * r.u)) := by ring
      have h2 : (r.u * M) * ((t.flatten.length : K) * r.u) ≤ (r.u * M) * (1/64) := by gcongr
      rw [h1]; linarith) R₀ hR hRT
  refine le_trans main ?_
  exact mtree4_lin_arith _ (41/4 * r.u * M) r.u M _ _ _ _ R₀ hu hM (by linarith) (V4T_nonneg _)
    (V3S_nonneg _) (T_nonneg _) hR (lead4_le r.u hu _ hnu) rfl

/-- **Envelope form, linear in the conditioning.** If moreover `σ ≥ 0` with `T ≤ n·σ²` and `n·u·M ≤ σ`, then
`|sum_4 - Q| ≤ 32·n·u·V4T + 154·n·u·M·V3S + 108276·n²·u·M·σ³` - the last term is `108276·n·u·(M/σ)` relative to
the scale `n·σ⁴`. -/
theorem kurt_mtree_envelope (r : Rnd2 K) (M : K) (hM : 0 ≤ M) (t : MTree (RF2 r))
    (hb : ∀ x ∈ t.flatten, |x.val| ≤ M) (hsmall : ((t.flatten.length : K) + 28) * r.u ≤ 1/64)
    (σ : K) (hσ : 0 ≤ σ) (hvar : T (t.flatten.map RF2.val) ≤ (t.flatten.length : K) * σ^2)
    (hcond : (t.flatten.length : K) * r.u * M ≤ σ) :
    |(Kurtosis.evalTree t).sum_4.val - Q (t.flatten.map RF2.val)|
      ≤ 32 * (t.flatten.length : K) * r.u * V4T (t.map RF2.val)
        + 154 * (t.flatten.length : K) * r.u * M * V3S (t.map RF2.val)
        + 108276 * (t.flatten.length : K)^2 * r.u * M * σ^3 := by
  have hu := r.u_nonneg
  set n : K := (t.flatten.length : K) with hn
  have hn0 : 0 ≤ n := Nat.cast_nonneg _
  have hT0 := T_nonneg (t.flatten.map RF2.val)
  have hRT : n * T (t.flatten.map RF2.val) ≤ (n * σ)^2 := by
    calc n * T (t.flatten.map RF2.val) ≤ n * (n * σ^2) := by gcongr
      _ = (n * σ)^2 := by ring
  have main := kurt_mtree_error_lin r M hM t hb hsmall (n * σ) (by positivity) hRT
  refine le_trans main ?_
  have hnuM0 : 0 ≤ n * r.u * M := by positivity
  have b3 : 3026 * n^2 * r.u^2 * M^2 * T (t.flatten.map RF2.val) ≤ 3026 * n^2 * r.u * M * σ^3 := by
    calc 3026 * n^2 * r.u^2 * M^2 * T (t.flatten.map RF2.val)
        ≤ 3026 * n^2 * r.u^2 * M^2 * (n * σ^2) := by gcongr
      _ = 3026 * n^2 * r.u * M * σ^2 * (n * r.u * M) := by ring
      _ ≤ 3026 * n^2 * r.u * M * σ^2 * σ := by gcongr
      _ = 3026 * n^2 * r.u * M * σ^3 := by ring
  have b4 : 28718 * n^3 * r.u^3 * M^3 * (n * σ) ≤ 28718 * n^2 * r.u * M * σ^3 := by
    calc 28718 * n^3 * r.u^3 * M^3 * (n * σ)
        = 28718 * n^2 * r.u * M * σ * ((n * r.u * M) * (n * r.u * M)) := by ring
      _ ≤ 28718 * n^2 * r.u * M * σ * (σ * σ) := by gcongr
      _ = 28718 * n^2 * r.u * M * σ^3 := by ring
  have b5 : 76532 * n^5 * r.u^4 * M^4 ≤ 76532 * n^2 * r.u * M * σ^3 := by
    calc 76532 * n^5 * r.u^4 * M^4
        = 76532 * n^2 * r.u * M * ((n * r.u * M) * (n * r.u * M) * (n * r.u * M)) := by ring
      _ ≤ 76532 * n^2 * r.u * M * (σ * σ * σ) := by gcongr
      _ = 76532 * n^2 * r.u * M * σ^3 := by ring
  linarith

end KurtMerge

#print axioms KurtMerge.kurt_mtree_error_sym
#print axioms KurtMerge.kurt_mtree_error_lin
#print axioms KurtMerge.kurt_mtree_envelope
