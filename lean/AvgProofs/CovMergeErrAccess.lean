import AvgProofs.CovMergeErrLin
import AvgProofs.CovErrAccess

/-!
# `Covariance` through every merge tree: `sum_x_2`, `sum_y_2`, the four variances, the two covariances

* By `Covariance.mtree_varXState`/`mtree_varYState` (bit for bit, any carrier) the bounds of
  `AvgProofs/VarMergeErrLin.lean` hold for `sum_x_2`, `sum_y_2`, `population_variance_x/y`,
  `sample_variance_x/y` after every merge tree of pairs:
  `|sum_x_2 - T_x| ≤ 10·n·u·T_x + 17·n·u·Mx·R₀ + 45·n³·u²·Mx²`,
  `|population_variance_x - var_x| ≤ 12·n·u·var_x + 18·n·u·Mx·σ + 46·n²·u²·Mx²`,
  `|sample_variance_x - s_x²| ≤ 12·n·u·s_x² + 35·n·u·Mx·σ + 92·n²·u²·Mx²`.
* `population_covariance`, `sample_covariance` of the merged state (one more rounded division), from
  `CovMerge.cov_mtree_error_lin` (`ε`: first pair of every chunk, `L`: number of non-empty chunks):
  `|population_covariance - C/n| ≤ 7·n·u·σx·σy + 9·n·u·Mx·σy + 17·n·u·My·σx + 45·n²·u²·Mx·My + (13/10)·ε·Mx·L/n`
  (`T_x/n ≤ σx²`, `T_y/n ≤ σy²`),
  `|sample_covariance - C/(n-1)| ≤ 7·n·u·σx·σy + 18·n·u·Mx·σy + 33·n·u·My·σx + 90·n²·u²·Mx·My
      + (13/10)·ε·Mx·L/(n-1)` (`T_x/(n-1) ≤ σx²`, `T_y/(n-1) ≤ σy²`).
-/
open Avg MSpec Finset VarSpec CovSpec CovErr VarMerge

namespace CovMerge
variable {K : Type} [Field K] [LinearOrder K] [IsStrictOrderedRing K]

theorem tree_bound_fst {r : Rnd2 K} {M : K} {t : MTree (RF2 r × RF2 r)}
    (hb : ∀ p ∈ t.flatten, |p.1.val| ≤ M) : ∀ x ∈ (t.map Prod.fst).flatten, |x.val| ≤ M := by
  rw [MTree.flatten_map]; intro x hx; rw [List.mem_map] at hx
  obtain ⟨p, hp, rfl⟩ := hx; exact hb p hp

theorem tree_bound_snd {r : Rnd2 K} {M : K} {t : MTree (RF2 r × RF2 r)}
    (hb : ∀ p ∈ t.flatten, |p.2.val| ≤ M) : ∀ x ∈ (t.map Prod.snd).flatten, |x.val| ≤ M := by
  rw [MTree.flatten_map]; intro x hx; rw [List.mem_map] at hx
  obtain ⟨p, hp, rfl⟩ := hx; exact hb p hp

theorem tree_len_fst {r : Rnd2 K} (t : MTree (RF2 r × RF2 r)) :
    (t.map Prod.fst).flatten.length = t.flatten.length := by
  rw [MTree.flatten_map, List.length_map]
theorem tree_len_snd {r : Rnd2 K} (t : MTree (RF2 r × RF2 r)) :
    (t.map Prod.snd).flatten.length = t.flatten.length := by
  rw [MTree.flatten_map, List.length_map]

theorem tree_vals_fst {r : Rnd2 K} (t : MTree (RF2 r × RF2 r)) :
    (t.map Prod.fst).flatten.map RF2.val = fsts (vals t.flatten) := by
  rw [MTree.flatten_map, fsts_vals]
theorem tree_vals_snd {r : Rnd2 K} (t : MTree (RF2 r × RF2 r)) :
    (t.map Prod.snd).flatten.map RF2.val = snds (vals t.flatten) := by
  rw [MTree.flatten_map, snds_vals]

/-- `sum_x_2` through every merge tree of pairs (`n·u ≤ 1/64`, `n·T_x ≤ R₀²`):
`|sum_x_2 - T_x| ≤ 10·n·u·T_x + 17·n·u·Mx·R₀ + 45·n³·u²·Mx²`. -/
theorem sum_x_2_mtree_error_lin (r : Rnd2 K) (M : K) (hM : 0 ≤ M) (t : MTree (RF2 r × RF2 r))
    (hb : ∀ p ∈ t.flatten, |p.1.val| ≤ M) (hsmall : (t.flatten.length : K) * r.u ≤ 1/64)
    (R₀ : K) (hR : 0 ≤ R₀) (hRT : (t.flatten.length : K) * T (fsts (vals t.flatten)) ≤ R₀^2) :
    |(Covariance.evalTree t).sum_x_2.val - T (fsts (vals t.flatten))|
      ≤ 10 * (t.flatten.length : K) * r.u * T (fsts (vals t.flatten))
        + 17 * (t.flatten.length : K) * r.u * M * R₀
        + 45 * (t.flatten.length : K)^3 * r.u^2 * M^2 := by
  have h := var_mtree_error_lin r M hM (t.map Prod.fst) (tree_bound_fst hb)
    (by rw [tree_len_fst]; exact hsmall) R₀ hR (by rw [tree_len_fst, tree_vals_fst]; exact hRT)
  rw [tree_len_fst, tree_vals_fst, ← Covariance.mtree_sum_x_2] at h
  exact h

/-- `sum_y_2` through every merge tree of pairs:
`|sum_y_2 - T_y| ≤ 10·n·u·T_y + 17·n·u·My·R₀ + 45·n³·u²·My²`. -/
theorem sum_y_2_mtree_error_lin (r : Rnd2 K) (M : K) (hM : 0 ≤ M) (t : MTree (RF2 r × RF2 r))
    (hb : ∀ p ∈ t.flatten, |p.2.val| ≤ M) (hsmall : (t.flatten.length : K) * r.u ≤ 1/64)
    (R₀ : K) (hR : 0 ≤ R₀) (hRT : (t.flatten.length : K) * T (snds (vals t.flatten)) ≤ R₀^2) :
    |(Covariance.evalTree t).sum_y_2.val - T (snds (vals t.flatten))|
      ≤ 10 * (t.flatten.length : K) * r.u * T (snds (vals t.flatten))
        + 17 * (t.flatten.length : K) * r.u * M * R₀
        + 45 * (t.flatten.length : K)^3 * r.u^2 * M^2 := by
  have h := var_mtree_error_lin r M hM (t.map Prod.snd) (tree_bound_snd hb)
    (by rw [tree_len_snd]; exact hsmall) R₀ hR (by rw [tree_len_snd, tree_vals_snd]; exact hRT)
  rw [tree_len_snd, tree_vals_snd, ← Covariance.mtree_sum_y_2] at h
  exact h

/-- the two means of `Covariance` through every merge tree of pairs (`n·u ≤ 1/64`): count exact,
`|avg_x - mean x| ≤ 11·u·Mx·n`, `|avg_y - mean y| ≤ 11·u·My·n` (`mean_mtree_error`, transferred) -/
theorem cov_mtree_means_lin (r : Rnd2 K) (Mx My : K) (hMx : 0 ≤ Mx) (hMy : 0 ≤ My)
    (t : MTree (RF2 r × RF2 r))
    (hbx : ∀ p ∈ t.flatten, |p.1.val| ≤ Mx) (hby : ∀ p ∈ t.flatten, |p.2.val| ≤ My)
    (hsmall : (t.flatten.length : K) * r.u ≤ 1/64) :
    (Covariance.evalTree t).n = t.flatten.length
    ∧ |(Covariance.evalTree t).avg_x.val - mean (fsts (vals t.flatten))|
        ≤ 11 * r.u * Mx * (t.flatten.length : K)
    ∧ |(Covariance.evalTree t).avg_y.val - mean (snds (vals t.flatten))|
        ≤ 11 * r.u * My * (t.flatten.length : K) := by
  have hx := (mean_mtree_error r Mx hMx (t.map Prod.fst) (tree_bound_fst hbx)
    (by rw [tree_len_fst]; exact hsmall)).2
  have hy := (mean_mtree_error r My hMy (t.map Prod.snd) (tree_bound_snd hby)
    (by rw [tree_len_snd]; exact hsmall)).2
  rw [← Covariance.mtree_meanXState, tree_len_fst, tree_vals_fst] at hx
  rw [← Covariance.mtree_meanYState, tree_len_snd, tree_vals_snd] at hy
  exact ⟨Covariance.mtree_n t, hx, hy⟩

section access
variable {r : Rnd2 K} [FloatOps (RF2 r)]

/-- `population_variance_x` after any merge tree of pairs (`n ≥ 1`, `var_x = T_x/n ≤ σ²`):
`|population_variance_x - var_x| ≤ 12·n·u·var_x + 18·n·u·Mx·σ + 46·n²·u²·Mx²`. -/
theorem popvar_x_mtree_error_lin (M : K) (hM : 0 ≤ M) (t : MTree (RF2 r × RF2 r))
    (hne : t.flatten ≠ [])
    (hb : ∀ p ∈ t.flatten, |p.1.val| ≤ M) (hsmall : (t.flatten.length : K) * r.u ≤ 1/64)
    (σ : K) (hσ : 0 ≤ σ) (hvar : T (fsts (vals t.flatten)) / (t.flatten.length : K) ≤ σ^2) :
    |(Covariance.evalTree t).populationVarianceX.val
        - T (fsts (vals t.flatten)) / (t.flatten.length : K)|
      ≤ 12 * (t.flatten.length : K) * r.u * (T (fsts (vals t.flatten)) / (t.flatten.length : K))
        + 18 * (t.flatten.length : K) * r.u * M * σ + 46 * (t.flatten.length : K)^2 * r.u^2 * M^2 := by
  have h := popvar_mtree_error_lin M hM (t.map Prod.fst)
    (by rw [MTree.flatten_map]; simpa using hne) (tree_bound_fst hb)
    (by rw [tree_len_fst]; exact hsmall) σ hσ (by rw [tree_len_fst, tree_vals_fst]; exact hvar)
  rw [tree_len_fst, tree_vals_fst, ← Covariance.mtree_varXState] at h
  exact h

/-- `population_variance_y` after any merge tree of pairs:
`12·n·u·var_y + 18·n·u·My·σ + 46·n²·u²·My²`. -/
theorem popvar_y_mtree_error_lin (M : K) (hM : 0 ≤ M) (t : MTree (RF2 r × RF2 r))
    (hne : t.flatten ≠ [])
    (hb : ∀ p ∈ t.flatten, |p.2.val| ≤ M) (hsmall : (t.flatten.length : K) * r.u ≤ 1/64)
    (σ : K) (hσ : 0 ≤ σ) (hvar : T (snds (vals t.flatten)) / (t.flatten.length : K) ≤ σ^2) :
    |(Covariance.evalTree t).populationVarianceY.val
        - T (snds (vals t.flatten)) / (t.flatten.length : K)|
      ≤ 12 * (t.flatten.length : K) * r.u * (T (snds (vals t.flatten)) / (t.flatten.length : K))
        + 18 * (t.flatten.length : K) * r.u * M * σ + 46 * (t.flatten.length : K)^2 * r.u^2 * M^2 := by
  have h := popvar_mtree_error_lin M hM (t.map Prod.snd)
    (by rw [MTree.flatten_map]; simpa using hne) (tree_bound_snd hb)
    (by rw [tree_len_snd]; exact hsmall) σ hσ (by rw [tree_len_snd, tree_vals_snd]; exact hvar)
  rw [tree_len_snd, tree_vals_snd, ← Covariance.mtree_varYState] at h
  exact h

/-- `sample_variance_x` after any merge tree of pairs (`n ≥ 2`, `s² = T_x/(n-1) ≤ σ²`):
`|sample_variance_x - s²| ≤ 12·n·u·s² + 35·n·u·Mx·σ + 92·n²·u²·Mx²`. -/
theorem samplevar_x_mtree_error_lin (M : K) (hM : 0 ≤ M) (t : MTree (RF2 r × RF2 r))
    (h2 : 2 ≤ t.flatten.length)
    (hb : ∀ p ∈ t.flatten, |p.1.val| ≤ M) (hsmall : (t.flatten.length : K) * r.u ≤ 1/64)
    (σ : K) (hσ : 0 ≤ σ)
    (hvar : T (fsts (vals t.flatten)) / ((t.flatten.length - 1 : ℕ) : K) ≤ σ^2) :
    |(Covariance.evalTree t).sampleVarianceX.val
        - T (fsts (vals t.flatten)) / ((t.flatten.length - 1 : ℕ) : K)|
      ≤ 12 * (t.flatten.length : K) * r.u
            * (T (fsts (vals t.flatten)) / ((t.flatten.length - 1 : ℕ) : K))
        + 35 * (t.flatten.length : K) * r.u * M * σ + 92 * (t.flatten.length : K)^2 * r.u^2 * M^2 := by
  have h := samplevar_mtree_error_lin M hM (t.map Prod.fst)
    (by rw [tree_len_fst]; exact h2) (tree_bound_fst hb)
    (by rw [tree_len_fst]; exact hsmall) σ hσ (by rw [tree_len_fst, tree_vals_fst]; exact hvar)
  rw [tree_len_fst, tree_vals_fst, ← Covariance.mtree_varXState] at h
  exact h

/-- `sample_variance_y` after any merge tree of pairs:
`12·n·u·s² + 35·n·u·My·σ + 92·n²·u²·My²`. -/
theorem samplevar_y_mtree_error_lin (M : K) (hM : 0 ≤ M) (t : MTree (RF2 r × RF2 r))
    (h2 : 2 ≤ t.flatten.length)
    (hb : ∀ p ∈ t.flatten, |p.2.val| ≤ M) (hsmall : (t.flatten.length : K) * r.u ≤ 1/64)
    (σ : K) (hσ : 0 ≤ σ)
    (hvar : T (snds (vals t.flatten)) / ((t.flatten.length - 1 : ℕ) : K) ≤ σ^2) :
    |(Covariance.evalTree t).sampleVarianceY.val
        - T (snds (vals t.flatten)) / ((t.flatten.length - 1 : ℕ) : K)|
      ≤ 12 * (t.flatten.length : K) * r.u
            * (T (snds (vals t.flatten)) / ((t.flatten.length - 1 : ℕ) : K))
        + 35 * (t.flatten.length : K) * r.u * M * σ + 92 * (t.flatten.length : K)^2 * r.u^2 * M^2 := by
  have h := samplevar_mtree_error_lin M hM (t.map Prod.snd)
    (by rw [tree_len_snd]; exact h2) (tree_bound_snd hb)
    (by rw [tree_len_snd]; exact hsmall) σ hσ (by rw [tree_len_snd, tree_vals_snd]; exact hvar)
  rw [tree_len_snd, tree_vals_snd, ← Covariance.mtree_varYState] at h
  exact h

/-! ## the covariances -/

/-- what `population_covariance` computes at the carrier `RF2 r` after a merge tree over `n ≥ 1` pairs -/
theorem popcov_mtree_val (t : MTree (RF2 r × RF2 r)) (hne : t.flatten ≠ []) :
    (Covariance.evalTree t).populationCovariance.val
      = r.fl ((Covariance.evalTree t).sum_prod.val / (t.flatten.length : K)) := by
  have hn := Covariance.mtree_n t
  have h0 : ¬ t.flatten.length < 1 := by
    have := List.length_pos_of_ne_nil hne; omega
  unfold Covariance.populationCovariance
  rw [hn, if_neg h0]
  rfl

/-- what `sample_covariance` computes at the carrier `RF2 r` after a merge tree over `n ≥ 2` pairs -/
theorem samplecov_mtree_val (t : MTree (RF2 r × RF2 r)) (h2 : 2 ≤ t.flatten.length) :
    (Covariance.evalTree t).sampleCovariance.val
      = r.fl ((Covariance.evalTree t).sum_prod.val / ((t.flatten.length - 1 : ℕ) : K)) := by
  have hn := Covariance.mtree_n t
  unfold Covariance.sampleCovariance
  rw [hn, if_neg (by omega)]
  rfl

omit [FloatOps (RF2 r)] in
/-- arithmetic of `popcov_mtree_error` -/
theorem popcov_mtree_arith (u n σx σy Mx My E L D Ca : K) (hu : 0 ≤ u) (hu' : u ≤ 1/64)
    (hn : 1 ≤ n) (hσx : 0 ≤ σx) (hσy : 0 ≤ σy) (hMx : 0 ≤ Mx) (hMy : 0 ≤ My) (hE : 0 ≤ E)
    (hL : 0 ≤ L) (hD0 : 0 ≤ D)
    (hD : D ≤ 5 * n * u * (n * σx * σy) + 17/2 * n * u * Mx * (n * σy) + 16 * n * u * My * (n * σx)
        + 44 * n^3 * u^2 * Mx * My + 5/4 * E * L)
    (hC : Ca ≤ n * σx * σy) :
    (1 + u) * D + u * Ca
      ≤ (7 * n * u * σx * σy + 9 * n * u * Mx * σy + 17 * n * u * My * σx
          + 45 * n^2 * u^2 * Mx * My + 13/10 * E * L / n) * n := by
  have hnpos : 0 < n := by linarith
  have e : (7 * n * u * σx * σy + 9 * n * u * Mx * σy + 17 * n * u * My * σx
          + 45 * n^2 * u^2 * Mx * My + 13/10 * E * L / n) * n
      = 7 * n^2 * u * σx * σy + 9 * n^2 * u * Mx * σy + 17 * n^2 * u * My * σx
          + 45 * n^3 * u^2 * Mx * My + 13/10 * E * L := by field_simp
  rw [e]
  have a1 : 0 ≤ n^2 * u * σx * σy := by positivity
  have a2 : 0 ≤ n^2 * u * Mx * σy := by positivity
  have a3 : 0 ≤ n^2 * u * My * σx := by positivity
  have a4 : 0 ≤ n^3 * u^2 * Mx * My := by positivity
  have a5 : 0 ≤ E * L := by positivity
  have h1 : (1 + u) * D ≤ 65/64 * (5 * n * u * (n * σx * σy) + 17/2 * n * u * Mx * (n * σy)
        + 16 * n * u * My * (n * σx) + 44 * n^3 * u^2 * Mx * My + 5/4 * E * L) := by
    calc (1 + u) * D ≤ 65/64 * D := by gcongr; linarith
      _ ≤ _ := by gcongr
  have h2 : u * Ca ≤ u * (n * σx * σy) := by gcongr
  have h3 : u * (n * σx * σy) ≤ n^2 * u * σx * σy := by
    have h0 : 0 ≤ n * u * σx * σy := by positivity
    have := le_mul_of_one_le_left h0 hn
    calc u * (n * σx * σy) = n * u * σx * σy := by ring
      _ ≤ n * (n * u * σx * σy) := this
      _ = n^2 * u * σx * σy := by ring
  have e1 : 65/64 * (5 * n * u * (n * σx * σy) + 17/2 * n * u * Mx * (n * σy)
        + 16 * n * u * My * (n * σx) + 44 * n^3 * u^2 * Mx * My + 5/4 * E * L)
      = 65/64 * 5 * (n^2 * u * σx * σy) + 65/64 * 17/2 * (n^2 * u * Mx * σy)
        + 65/64 * 16 * (n^2 * u * My * σx) + 65/64 * 44 * (n^3 * u^2 * Mx * My)
        + 65/64 * 5/4 * (E * L) := by ring
  rw [e1] at h1
  linarith

/-- **Population covariance after every merge tree.** `n ≥ 1` pairs, `n·u ≤ 1/64`, `cov = C/n`, any
`σx, σy ≥ 0` with `T_x/n ≤ σx²`, `T_y/n ≤ σy²`, `ε` the first-pair bound of every chunk, `L` the number of
non-empty chunks:
`|population_covariance - cov| ≤ 7·n·u·σx·σy + 9·n·u·Mx·σy + 17·n·u·My·σx + 45·n²·u²·Mx·My
    + (13/10)·ε·Mx·L/n`. -/
theorem popcov_mtree_error (Mx My ε : K) (hMx : 0 ≤ Mx) (hMy : 0 ≤ My) (hε : 0 ≤ ε)
    (t : MTree (RF2 r × RF2 r)) (hne : t.flatten ≠ [])
    (hbx : ∀ p ∈ t.flatten, |p.1.val| ≤ Mx) (hby : ∀ p ∈ t.flatten, |p.2.val| ≤ My)
    (hsmall : (t.flatten.length : K) * r.u ≤ 1/64) (hfirst : FirstEps t ε)
    (σx σy : K) (hσx : 0 ≤ σx) (hσy : 0 ≤ σy)
    (hvx : T (fsts (vals t.flatten)) / (t.flatten.length : K) ≤ σx^2)
    (hvy : T (snds (vals t.flatten)) / (t.flatten.length : K) ≤ σy^2) :
    |(Covariance.evalTree t).populationCovariance.val
        - Cxy (vals t.flatten) / (t.flatten.length : K)|
      ≤ 7 * (t.flatten.length : K) * r.u * σx * σy + 9 * (t.flatten.length : K) * r.u * Mx * σy
        + 17 * (t.flatten.length : K) * r.u * My * σx
        + 45 * (t.flatten.length : K)^2 * r.u^2 * Mx * My
        + 13/10 * (ε * Mx) * (t.neLeaves : K) / (t.flatten.length : K) := by
  have hu := r.u_nonneg
  have hn1 : (1 : K) ≤ t.flatten.length := by exact_mod_cast List.length_pos_of_ne_nil hne
  rw [popcov_mtree_val t hne]
  set n : K := (t.flatten.length : K) with hn
  have hnpos : 0 < n := by linarith
  have hu64 : r.u ≤ 1/64 := by nlinarith
  obtain ⟨hprod, hCabs⟩ := abs_Cxy_le_of_var (vals t.flatten) n σx σy hnpos hσx hσy hvx hvy
  have hTx : T (fsts (vals t.flatten)) ≤ n * σx^2 := by rwa [div_le_iff₀ hnpos, mul_comm] at hvx
  have hTy : T (snds (vals t.flatten)) ≤ n * σy^2 := by rwa [div_le_iff₀ hnpos, mul_comm] at hvy
  have hd := cov_mtree_error_lin r Mx My ε hMx hMy hε t hbx hby hsmall hfirst (n * σx * σy)
    (n * σx) (n * σy) (by positivity) (by positivity) (by positivity) hprod
    (by rw [mul_pow]; nlinarith) (by rw [mul_pow]; nlinarith)
  refine le_trans (div_round_error_abs r _ _ n hnpos) ?_
  rw [div_le_iff₀ hnpos]
  exact popcov_mtree_arith r.u n σx σy Mx My (ε * Mx) (t.neLeaves : K) _ _ hu hu64 hn1 hσx hσy hMx hMy
    (by positivity) (Nat.cast_nonneg _) (abs_nonneg _) hd hCabs

omit [FloatOps (RF2 r)] in
/-- arithmetic of `samplecov_mtree_error` -/
theorem samplecov_mtree_arith (u n σx σy Mx My E L D Ca : K) (hu : 0 ≤ u) (hu' : u ≤ 1/64)
    (hn : 2 ≤ n) (hσx : 0 ≤ σx) (hσy : 0 ≤ σy) (hMx : 0 ≤ Mx) (hMy : 0 ≤ My) (hE : 0 ≤ E)
    (hL : 0 ≤ L) (hD0 : 0 ≤ D)
    (hD : D ≤ 5 * n * u * ((n - 1) * σx * σy) + 17/2 * n * u * Mx * (n * σy)
        + 16 * n * u * My * (n * σx) + 44 * n^3 * u^2 * Mx * My + 5/4 * E * L)
    (hC : Ca ≤ (n - 1) * σx * σy) :
    (1 + u) * D + u * Ca
      ≤ (7 * n * u * σx * σy + 18 * n * u * Mx * σy + 33 * n * u * My * σx
          + 90 * n^2 * u^2 * Mx * My + 13/10 * E * L / (n - 1)) * (n - 1) := by
  have hmpos : 0 < n - 1 := by linarith
  have hn0 : 0 ≤ n := by linarith
  have e : (7 * n * u * σx * σy + 18 * n * u * Mx * σy + 33 * n * u * My * σx
          + 90 * n^2 * u^2 * Mx * My + 13/10 * E * L / (n - 1)) * (n - 1)
      = 7 * (n * u * σx * σy * (n - 1)) + 18 * (n * u * Mx * σy * (n - 1))
          + 33 * (n * u * My * σx * (n - 1))
          + 90 * (n^2 * u^2 * Mx * My * (n - 1)) + 13/10 * (E * L) := by field_simp
  rw [e]
  have a1 : 0 ≤ n * u * σx * σy * (n - 1) := by positivity
  have a2 : 0 ≤ n * u * Mx * σy := by positivity
  have a3 : 0 ≤ n * u * My * σx := by positivity
  have a4 : 0 ≤ n^2 * u^2 * Mx * My := by positivity
  have a5 : 0 ≤ E * L := by positivity
  have h1 : (1 + u) * D ≤ 65/64 * (5 * n * u * ((n - 1) * σx * σy) + 17/2 * n * u * Mx * (n * σy)
        + 16 * n * u * My * (n * σx) + 44 * n^3 * u^2 * Mx * My + 5/4 * E * L) := by
    calc (1 + u) * D ≤ 65/64 * D := by gcongr; linarith
      _ ≤ _ := by gcongr
  have h2 : u * Ca ≤ u * ((n - 1) * σx * σy) := by gcongr
  have h3 : u * ((n - 1) * σx * σy) ≤ n * u * σx * σy * (n - 1) := by
    have h0 : 0 ≤ u * σx * σy * (n - 1) := by positivity
    have := le_mul_of_one_le_left h0 (by linarith : (1 : K) ≤ n)
    calc u * ((n - 1) * σx * σy) = u * σx * σy * (n - 1) := by ring
      _ ≤ n * (u * σx * σy * (n - 1)) := this
      _ = n * u * σx * σy * (n - 1) := by ring
  -- n ≤ 2 (n - 1)
  have b2 : n * u * Mx * σy * n ≤ 2 * (n * u * Mx * σy * (n - 1)) := mul_le_two_mul_pred _ n a2 hn
  have b3 : n * u * My * σx * n ≤ 2 * (n * u * My * σx * (n - 1)) := mul_le_two_mul_pred _ n a3 hn
  have b4 : n^2 * u^2 * Mx * My * n ≤ 2 * (n^2 * u^2 * Mx * My * (n - 1)) :=
    mul_le_two_mul_pred _ n a4 hn
  have c2 : 0 ≤ n * u * Mx * σy * (n - 1) := by positivity
  have c3 : 0 ≤ n * u * My * σx * (n - 1) := by positivity
  have c4 : 0 ≤ n^2 * u^2 * Mx * My * (n - 1) := by positivity
  have e1 : 65/64 * (5 * n * u * ((n - 1) * σx * σy) + 17/2 * n * u * Mx * (n * σy)
        + 16 * n * u * My * (n * σx) + 44 * n^3 * u^2 * Mx * My + 5/4 * E * L)
      = 65/64 * 5 * (n * u * σx * σy * (n - 1)) + 65/64 * 17/2 * (n * u * Mx * σy * n)
        + 65/64 * 16 * (n * u * My * σx * n) + 65/64 * 44 * (n^2 * u^2 * Mx * My * n)
        + 65/64 * 5/4 * (E * L) := by ring
  rw [e1] at h1
  linarith

/-- **Sample covariance after every merge tree.** `n ≥ 2` pairs, `n·u ≤ 1/64`, `cov = C/(n-1)`, any
`σx, σy ≥ 0` with `T_x/(n-1) ≤ σx²`, `T_y/(n-1) ≤ σy²`:
`|sample_covariance - cov| ≤ 7·n·u·σx·σy + 18·n·u·Mx·σy + 33·n·u·My·σx + 90·n²·u²·Mx·My
    + (13/10)·ε·Mx·L/(n-1)`. -/
theorem samplecov_mtree_error (Mx My ε : K) (hMx : 0 ≤ Mx) (hMy : 0 ≤ My) (hε : 0 ≤ ε)
    (t : MTree (RF2 r × RF2 r)) (h2 : 2 ≤ t.flatten.length)
    (hbx : ∀ p ∈ t.flatten, |p.1.val| ≤ Mx) (hby : ∀ p ∈ t.flatten, |p.2.val| ≤ My)
    (hsmall : (t.flatten.length : K) * r.u ≤ 1/64) (hfirst : FirstEps t ε)
    (σx σy : K) (hσx : 0 ≤ σx) (hσy : 0 ≤ σy)
    (hvx : T (fsts (vals t.flatten)) / ((t.flatten.length - 1 : ℕ) : K) ≤ σx^2)
    (hvy : T (snds (vals t.flatten)) / ((t.flatten.length - 1 : ℕ) : K) ≤ σy^2) :
    |(Covariance.evalTree t).sampleCovariance.val
        - Cxy (vals t.flatten) / ((t.flatten.length - 1 : ℕ) : K)|
      ≤ 7 * (t.flatten.length : K) * r.u * σx * σy + 18 * (t.flatten.length : K) * r.u * Mx * σy
        + 33 * (t.flatten.length : K) * r.u * My * σx
        + 90 * (t.flatten.length : K)^2 * r.u^2 * Mx * My
        + 13/10 * (ε * Mx) * (t.neLeaves : K) / ((t.flatten.length - 1 : ℕ) : K) := by
  have hu := r.u_nonneg
  have hn2 : (2 : K) ≤ t.flatten.length := by exact_mod_cast h2
  rw [samplecov_mtree_val t h2]
  have hm : ((t.flatten.length - 1 : ℕ) : K) = (t.flatten.length : K) - 1 := by
    rw [Nat.cast_sub (by omega)]; simp
  rw [hm] at hvx hvy ⊢
  set n : K := (t.flatten.length : K) with hn
  have hmpos : 0 < n - 1 := by linarith
  have hn0 : 0 ≤ n := by linarith
  have hu64 : r.u ≤ 1/64 := by nlinarith
  obtain ⟨hprod, hCabs⟩ := abs_Cxy_le_of_var (vals t.flatten) (n - 1) σx σy hmpos hσx hσy hvx hvy
  have hTx : T (fsts (vals t.flatten)) ≤ (n - 1) * σx^2 := by
    rwa [div_le_iff₀ hmpos, mul_comm] at hvx
  have hTy : T (snds (vals t.flatten)) ≤ (n - 1) * σy^2 := by
    rwa [div_le_iff₀ hmpos, mul_comm] at hvy
  have hσx2 : 0 ≤ σx^2 := sq_nonneg _
  have hσy2 : 0 ≤ σy^2 := sq_nonneg _
  have hd := cov_mtree_error_lin r Mx My ε hMx hMy hε t hbx hby hsmall hfirst ((n - 1) * σx * σy)
    (n * σx) (n * σy) (by positivity) (by positivity) (by positivity) hprod
    (by rw [mul_pow]; nlinarith) (by rw [mul_pow]; nlinarith)
  refine le_trans (div_round_error_abs r _ _ (n - 1) hmpos) ?_
  rw [div_le_iff₀ hmpos]
  exact samplecov_mtree_arith r.u n σx σy Mx My (ε * Mx) (t.neLeaves : K) _ _ hu hu64 hn2 hσx hσy
    hMx hMy (by positivity) (Nat.cast_nonneg _) (abs_nonneg _) hd hCabs

end access
end CovMerge

#print axioms CovMerge.sum_x_2_mtree_error_lin
#print axioms CovMerge.popvar_x_mtree_error_lin
#print axioms CovMerge.samplevar_x_mtree_error_lin
#print axioms CovMerge.popcov_mtree_error
#print axioms CovMerge.samplecov_mtree_error
