import AvgModel.Moments4
import AvgModel.MomentsN
import AvgModel.Weighted
import AvgModel.Quantile
/-! What every accessor returns on a state whose count is too small - any carrier, by unfolding. The
statements are about *every* state with that count (reachable or not), so an accessor of an empty estimator
is a function of the count alone. Used by `Props/C11` (accessor-level identity of merge) and `Props/C16`. -/
set_option linter.unusedSectionVars false
namespace Avg
variable {α : Type} [Add α] [Sub α] [Mul α] [Div α] [NatCast α] [FloatOps α]

/-! ## Mean, Variance, Skewness, Kurtosis -/

theorem Mean.mean_empty (s : Mean α) (h : s.n = 0) : s.mean = nan := by
  simp [Mean.mean, h]
theorem Mean.estimate_empty (s : Mean α) (h : s.n = 0) : s.estimate = nan := Mean.mean_empty s h

theorem Variance.mean_empty (s : Variance α) (h : s.avg.n = 0) : s.mean = nan := Mean.mean_empty _ h
theorem Variance.sampleVariance_lt2 (s : Variance α) (h : s.avg.n < 2) : s.sampleVariance = nan := by
  simp [Variance.sampleVariance, h]
theorem Variance.populationVariance_empty (s : Variance α) (h : s.avg.n = 0) : s.populationVariance = nan := by
  simp [Variance.populationVariance, h]
theorem Variance.varianceOfMean_empty (s : Variance α) (h : s.avg.n = 0) : s.varianceOfMean = nan := by
  simp [Variance.varianceOfMean, h]
theorem Variance.varianceOfMean_one (s : Variance α) (h : s.avg.n = 1) : s.varianceOfMean = ((0:Nat):α) := by
  simp [Variance.varianceOfMean, h]
theorem Variance.error_empty (s : Variance α) (h : s.avg.n = 0) : s.error = FloatOps.sqrt nan := by
  simp [Variance.error, Variance.varianceOfMean, h]
theorem Variance.error_one (s : Variance α) (h : s.avg.n = 1) : s.error = FloatOps.sqrt ((0:Nat):α) := by
  simp [Variance.error, Variance.varianceOfMean, h]
theorem Variance.estimate_empty (s : Variance α) (h : s.avg.n = 0) : s.estimate = nan :=
  Variance.populationVariance_empty s h

theorem Skewness.mean_empty (s : Skewness α) (h : s.avg.avg.n = 0) : s.mean = nan := Mean.mean_empty _ h
theorem Skewness.sampleVariance_lt2 (s : Skewness α) (h : s.avg.avg.n < 2) : s.sampleVariance = nan :=
  Variance.sampleVariance_lt2 _ h
theorem Skewness.populationVariance_empty (s : Skewness α) (h : s.avg.avg.n = 0) : s.populationVariance = nan :=
  Variance.populationVariance_empty _ h
theorem Skewness.errorMean_empty (s : Skewness α) (h : s.avg.avg.n = 0) : s.errorMean = FloatOps.sqrt nan :=
  Variance.error_empty _ h
theorem Skewness.errorMean_one (s : Skewness α) (h : s.avg.avg.n = 1) : s.errorMean = FloatOps.sqrt ((0:Nat):α) :=
  Variance.error_one _ h
theorem Skewness.skewness_empty (s : Skewness α) (h : s.avg.avg.n = 0) : s.skewness = nan := by
  simp [Skewness.skewness, h]
theorem Skewness.estimate_empty (s : Skewness α) (h : s.avg.avg.n = 0) : s.estimate = nan :=
  Skewness.skewness_empty s h

theorem Kurtosis.mean_empty (s : Kurtosis α) (h : s.avg.avg.avg.n = 0) : s.mean = nan := Mean.mean_empty _ h
theorem Kurtosis.sampleVariance_lt2 (s : Kurtosis α) (h : s.avg.avg.avg.n < 2) : s.sampleVariance = nan :=
  Variance.sampleVariance_lt2 _ h
theorem Kurtosis.populationVariance_empty (s : Kurtosis α) (h : s.avg.avg.avg.n = 0) :
    s.populationVariance = nan := Variance.populationVariance_empty _ h
theorem Kurtosis.errorMean_empty (s : Kurtosis α) (h : s.avg.avg.avg.n = 0) : s.errorMean = FloatOps.sqrt nan :=
  Variance.error_empty _ h
theorem Kurtosis.errorMean_one (s : Kurtosis α) (h : s.avg.avg.avg.n = 1) :
    s.errorMean = FloatOps.sqrt ((0:Nat):α) := Variance.error_one _ h
theorem Kurtosis.skewness_empty (s : Kurtosis α) (h : s.avg.avg.avg.n = 0) : s.skewness = nan :=
  Skewness.skewness_empty _ h
theorem Kurtosis.kurtosis_empty (s : Kurtosis α) (h : s.avg.avg.avg.n = 0) : s.kurtosis = nan := by
  simp [Kurtosis.kurtosis, h]
theorem Kurtosis.estimate_empty (s : Kurtosis α) (h : s.avg.avg.avg.n = 0) : s.estimate = nan :=
  Kurtosis.kurtosis_empty s h

/-! ## `define_moments!` -/
section moments
variable [Neg α]

theorem Moments.mean_empty (s : Moments α) (h : s.n = 0) : s.mean = nan := by
  simp [Moments.mean, h]
theorem Moments.cmRaw_zero (s : Moments α) : s.cmRaw 0 = ((1:Nat):α) := rfl
theorem Moments.cmRaw_one (s : Moments α) : s.cmRaw 1 = ((0:Nat):α) := rfl
theorem Moments.cmRaw_empty (s : Moments α) (h : s.n = 0) (p : Nat) (hp : 2 ≤ p) : s.cmRaw p = nan := by
  match p, hp with
  | p+2, _ => simp [Moments.cmRaw, h]
/-- on an empty state `cmRaw` does not depend on anything but `p` -/
theorem Moments.cmRaw_empty_eq (s t : Moments α) (hs : s.n = 0) (ht : t.n = 0) (p : Nat) :
    s.cmRaw p = t.cmRaw p := by
  match p with
  | 0 => rfl
  | 1 => rfl
  | p+2 => rw [Moments.cmRaw_empty s hs _ (by omega), Moments.cmRaw_empty t ht _ (by omega)]
/-- `central_moment(p)` does not panic for `p ≤ N` (nor for `p ≤ 1`, nor on an empty estimator) -/
theorem Moments.centralMoment_val (N : Nat) (s : Moments α) (p : Nat) (h : p ≤ 1 ∨ s.n = 0 ∨ p ≤ N) :
    s.centralMoment N p = .val (s.cmRaw p) := by
  simp [Moments.centralMoment, h]
theorem Moments.centralMoment_empty_eq (N M : Nat) (s t : Moments α) (hs : s.n = 0) (ht : t.n = 0) (p : Nat) :
    s.centralMoment N p = t.centralMoment M p := by
  rw [Moments.centralMoment_val N s p (Or.inr (Or.inl hs)), Moments.centralMoment_val M t p (Or.inr (Or.inl ht)),
    Moments.cmRaw_empty_eq s t hs ht]
theorem Moments.standardizedMoment_empty_eq (N M : Nat) (s t : Moments α) (hs : s.n = 0) (ht : t.n = 0) (p : Nat) :
    s.standardizedMoment N p = t.standardizedMoment M p := by
  match p with
  | 0 => simp [Moments.standardizedMoment, hs, ht]
  | 1 => rfl
  | 2 => rfl
  | p+3 =>
    simp only [Moments.standardizedMoment]
    rw [Moments.centralMoment_empty_eq N M s t hs ht, Moments.cmRaw_empty_eq s t hs ht]
theorem Moments.sampleVariance_lt2 (s : Moments α) (h : s.n < 2) : s.sampleVariance = nan := by
  simp [Moments.sampleVariance, h]
theorem Moments.sampleSkewness_empty (s : Moments α) (h : s.n = 0) : s.sampleSkewness = nan := by
  simp [Moments.sampleSkewness, h]
theorem Moments.sampleSkewness_one (s : Moments α) (h : s.n = 1) : s.sampleSkewness = ((0:Nat):α) := by
  simp [Moments.sampleSkewness, h]
theorem Moments.sampleExcessKurtosis_lt4 (s : Moments α) (h : s.n < 4) : s.sampleExcessKurtosis = nan := by
  simp [Moments.sampleExcessKurtosis, h]
end moments

/-! ## Covariance -/

theorem Covariance.populationCovariance_empty (s : Covariance α) (h : s.n = 0) : s.populationCovariance = nan := by
  simp [Covariance.populationCovariance, h]
theorem Covariance.sampleCovariance_lt2 (s : Covariance α) (h : s.n < 2) : s.sampleCovariance = nan := by
  simp [Covariance.sampleCovariance, h]
theorem Covariance.pearson_lt2 (s : Covariance α) (h : s.n < 2) : s.pearson = nan := by
  simp [Covariance.pearson, h]
theorem Covariance.meanX_empty (s : Covariance α) (h : s.n = 0) : s.meanX = nan := by
  simp [Covariance.meanX, h]
theorem Covariance.meanY_empty (s : Covariance α) (h : s.n = 0) : s.meanY = nan := by
  simp [Covariance.meanY, h]
theorem Covariance.sampleVarianceX_lt2 (s : Covariance α) (h : s.n < 2) : s.sampleVarianceX = nan := by
  simp [Covariance.sampleVarianceX, h]
theorem Covariance.sampleVarianceY_lt2 (s : Covariance α) (h : s.n < 2) : s.sampleVarianceY = nan := by
  simp [Covariance.sampleVarianceY, h]
theorem Covariance.populationVarianceX_empty (s : Covariance α) (h : s.n = 0) : s.populationVarianceX = nan := by
  simp [Covariance.populationVarianceX, h]
theorem Covariance.populationVarianceY_empty (s : Covariance α) (h : s.n = 0) : s.populationVarianceY = nan := by
  simp [Covariance.populationVarianceY, h]

/-! ## WeightedMean, WeightedMeanWithError -/

theorem WeightedMean.mean_empty (s : WeightedMean α) (h : s.isEmpty = true) : s.mean = nan := by
  simp [WeightedMean.mean, h]
theorem WeightedMeanWithError.weightedMean_empty (s : WeightedMeanWithError α)
    (h : s.weighted_avg.isEmpty = true) : s.weightedMean = nan := WeightedMean.mean_empty _ h
theorem WeightedMeanWithError.varianceOfWeightedMean_empty (s : WeightedMeanWithError α)
    (h : s.weighted_avg.isEmpty = true) : s.varianceOfWeightedMean = nan := by
  have h' : FloatOps.eqb s.weighted_avg.weight_sum ((0:Nat):α) = true := h
  simp [WeightedMeanWithError.varianceOfWeightedMean, WeightedMean.sumWeights, h']
theorem WeightedMeanWithError.effectiveLen_empty (s : WeightedMeanWithError α) (h : s.unweighted_avg.avg.n = 0) :
    s.effectiveLen = ((0:Nat):α) := by
  simp [WeightedMeanWithError.effectiveLen, WeightedMeanWithError.isEmpty, Variance.isEmpty, Mean.isEmpty, h]

/-! ## Quantile -/

theorem Quantile.quantile_empty [IntCast α] (s : Quantile α) (h : s.n.a4 ≤ 0) : s.quantile = nan := by
  have hl : s.len = 0 := by unfold Quantile.len; omega
  simp [Quantile.quantile, Quantile.isEmpty, hl]

end Avg
