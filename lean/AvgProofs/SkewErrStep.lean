import AvgProofs.VarErrRel
import Mathlib.Tactic.NormNum

/-!
# One step of the third-order sum of `Skewness.add` under the standard model of rounding

With `δ = fl(x - a)` (`a` the computed mean before the step), `δn = fl(δ/k)` (`k` the new count),
`S2` the computed sum of squares before the step, the model computes

`A = fl(fl(fl(fl(δ·δn)·fl(k-1))·δn)·fl(k-2))`,  `B = fl(fl(3·δn)·S2)`,  `S3' = fl(S3 + fl(A - B))`.

* `skew_incrA_RE`: `A` is within relative error `(1+u)^11 - 1` of `(x-a)³(k-1)(k-2)/k²`.
* `skew_incrB_RE`: `B` is within relative error `(1+u)^4 - 1` of `3·((x-a)/k)·S2`.
* `skew_step_error`: with the exact mean `μ`, sum of squares `Tv ≥ 0`, third-order sum `Uv` before the
  step, `d = x - μ`, `e = a - μ`, `D2 = S2 - Tv`, `c = (k-1)(k-2)/k²`, exact increment `As - Bs`,
  `As = d³c`, `Bs = 3dTv/k`, and `γ_i = (1+u)^i - 1`:

  `|S3' - (Uv + As - Bs)| ≤ (1+u)·( |S3 - Uv| + γ12·|As| + γ5·|Bs|
        + (1+γ12)·c·(3d²|e| + 3|d|e² + |e|³) + (1+γ5)·(3/k)·(|d||D2| + |e|Tv + |e||D2|) ) + u·|Uv + As - Bs|`.

  The rounding of the subtraction `A - B` is relative to `|A| + |B|` (not to `|A - B|`): this is why the
  absolute values of the two parts of the increment appear.
-/
variable {K : Type} [Field K] [LinearOrder K] [IsStrictOrderedRing K]

namespace SkewErr

/-- the relative error of `i` roundings -/
def g (u : K) (i : ℕ) : K := (1 + u)^i - 1

theorem g_nonneg {u : K} (hu : 0 ≤ u) (i : ℕ) : 0 ≤ g u i := by
  have := RE.one_le_pow hu i
  unfold g; linarith

omit [LinearOrder K] [IsStrictOrderedRing K] in
/-- one more rounding on top of `i`: `u·(1+γ_i) + γ_i = γ_{i+1}` -/
theorem g_succ (u : K) (i : ℕ) : u * (1 + g u i) + g u i = g u (i + 1) := by
  unfold g; ring

/-- the `d³` part of the increment: eleven roundings -/
theorem skew_incrA_RE (fl : K → K) (u : K) (hu : 0 ≤ u) (hfl : ∀ t, |fl t - t| ≤ u * |t|)
    (x a k : K) :
    RE u 11
      (fl (fl (fl (fl (fl (x - a) * fl (fl (x - a) / k)) * fl (k - 1)) * fl (fl (x - a) / k))
        * fl (k - 2)))
      ((x - a)^3 * ((k - 1) * (k - 2) / k^2)) := by
  have h1 : RE u 1 (fl (x - a)) (x - a) := (RE.refl u (x - a)).round fl hu hfl
  have h2 : RE u 2 (fl (fl (x - a) / k)) ((x - a) / k) := (h1.div_exact k).round fl hu hfl
  have h3 : RE u 4 _ _ := (h1.mul hu h2).round fl hu hfl
  have h4 : RE u 1 (fl (k - 1)) (k - 1) := (RE.refl u (k - 1)).round fl hu hfl
  have h5 : RE u 6 _ _ := (h3.mul hu h4).round fl hu hfl
  have h6 : RE u 9 _ _ := (h5.mul hu h2).round fl hu hfl
  have h7 : RE u 1 (fl (k - 2)) (k - 2) := (RE.refl u (k - 2)).round fl hu hfl
  have h8 : RE u 11 _ _ := (h6.mul hu h7).round fl hu hfl
  have hval : (x - a) * ((x - a) / k) * (k - 1) * ((x - a) / k) * (k - 2)
      = (x - a)^3 * ((k - 1) * (k - 2) / k^2) := by ring
  rw [hval] at h8
  exact h8

/-- the `d·sum_2` part of the increment: four roundings (`sum_2` is the computed value, an input) -/
theorem skew_incrB_RE (fl : K → K) (u : K) (hu : 0 ≤ u) (hfl : ∀ t, |fl t - t| ≤ u * |t|)
    (x a k S2 : K) :
    RE u 4 (fl (fl (3 * fl (fl (x - a) / k)) * S2)) (3 * ((x - a) / k) * S2) := by
  have h1 : RE u 1 (fl (x - a)) (x - a) := (RE.refl u (x - a)).round fl hu hfl
  have h2 : RE u 2 (fl (fl (x - a) / k)) ((x - a) / k) := (h1.div_exact k).round fl hu hfl
  have h3 : RE u 3 _ _ := ((RE.refl u (3 : K)).mul hu h2).round fl hu hfl
  have h4 : RE u 4 _ _ := (h3.mul hu (RE.refl u S2)).round fl hu hfl
  exact h4

/-- a rounded addition of an approximate increment to an approximate running value -/
theorem round_add_error (fl : K → K) (u : K) (hu : 0 ≤ u) (hfl : ∀ t, |fl t - t| ≤ u * |t|)
    (S p Uv J : K) :
    |fl (S + p) - (Uv + J)| ≤ (1 + u) * (|S - Uv| + |p - J|) + u * |Uv + J| := by
  set z := (S - Uv) + (p - J) with hz
  have hzb : |z| ≤ |S - Uv| + |p - J| := abs_add_le _ _
  have hsum : S + p = (Uv + J) + z := by simp only [hz]; ring
  have hsp : |S + p| ≤ |Uv + J| + |z| := by rw [hsum]; exact abs_add_le _ _
  have : fl (S + p) - (Uv + J) = (fl (S + p) - (S + p)) + z := by rw [hsum]; ring
  rw [this]
  calc |(fl (S + p) - (S + p)) + z| ≤ |fl (S + p) - (S + p)| + |z| := abs_add_le _ _
    _ ≤ u * (|Uv + J| + |z|) + |z| := by
        have : u * |S + p| ≤ u * (|Uv + J| + |z|) := by gcongr
        linarith [hfl (S + p)]
    _ = (1 + u) * |z| + u * |Uv + J| := by ring
    _ ≤ (1 + u) * (|S - Uv| + |p - J|) + u * |Uv + J| := by gcongr

/-- a rounded subtraction of two approximations: the rounding is relative to `|A| + |B|` -/
theorem round_sub_error (fl : K → K) (u : K) (hu : 0 ≤ u) (hfl : ∀ t, |fl t - t| ≤ u * |t|)
    {i j : ℕ} {A A0 B B0 : K} (hA : RE u i A A0) (hB : RE u j B B0) :
    |fl (A - B) - (A0 - B0)| ≤ g u (i + 1) * |A0| + g u (j + 1) * |B0| := by
  have hAb := hA.abs_le
  have hBb := hB.abs_le
  unfold RE at hA hB
  have h1 : |fl (A - B) - (A - B)| ≤ u * (|A| + |B|) :=
    le_trans (hfl _) (by gcongr; exact abs_sub _ _)
  have e : fl (A - B) - (A0 - B0) = (fl (A - B) - (A - B)) + ((A - A0) - (B - B0)) := by ring
  rw [e]
  calc |(fl (A - B) - (A - B)) + ((A - A0) - (B - B0))|
      ≤ |fl (A - B) - (A - B)| + (|A - A0| + |B - B0|) :=
        le_trans (abs_add_le _ _) (by gcongr; exact abs_sub _ _)
    _ ≤ u * ((1 + u)^i * |A0| + (1 + u)^j * |B0|) + (((1 + u)^i - 1) * |A0| + ((1 + u)^j - 1) * |B0|) := by
        have : u * (|A| + |B|) ≤ u * ((1 + u)^i * |A0| + (1 + u)^j * |B0|) := by gcongr
        linarith
    _ = g u (i + 1) * |A0| + g u (j + 1) * |B0| := by unfold g; ring

/-- the `d³` part of the increment depends on the centre through `-3d²e + 3de² - e³` -/
theorem incrA_shift (x a μ c : K) (hc : 0 ≤ c) :
    |(x - a)^3 * c - (x - μ)^3 * c|
      ≤ c * (3 * (x - μ)^2 * |a - μ| + 3 * |x - μ| * (a - μ)^2 + |a - μ|^3) := by
  have h : (x - a)^3 * c - (x - μ)^3 * c
      = c * (-(3 * (x - μ)^2 * (a - μ)) + 3 * (x - μ) * (a - μ)^2 - (a - μ)^3) := by ring
  rw [h, abs_mul, abs_of_nonneg hc]
  gcongr
  calc |-(3 * (x - μ)^2 * (a - μ)) + 3 * (x - μ) * (a - μ)^2 - (a - μ)^3|
      ≤ |-(3 * (x - μ)^2 * (a - μ))| + |3 * (x - μ) * (a - μ)^2| + |(a - μ)^3| :=
        le_trans (abs_sub _ _) (by gcongr; exact abs_add_le _ _)
    _ = 3 * (x - μ)^2 * |a - μ| + 3 * |x - μ| * (a - μ)^2 + |a - μ|^3 := by
        simp only [abs_neg, abs_mul, abs_pow, sq_abs, abs_of_pos (by norm_num : (0:K) < 3)]

/-- the `d·sum_2` part of the increment depends on the centre and on the error of `sum_2` through
`d·D2 - e·T - e·D2` -/
theorem incrB_shift (x a μ S2 Tv k : K) (hk : 0 < k) (hT : 0 ≤ Tv) :
    |3 * ((x - a) / k) * S2 - 3 * (x - μ) * Tv / k|
      ≤ 3 / k * (|x - μ| * |S2 - Tv| + |a - μ| * Tv + |a - μ| * |S2 - Tv|) := by
  have h : 3 * ((x - a) / k) * S2 - 3 * (x - μ) * Tv / k
      = 3 / k * ((x - μ) * (S2 - Tv) - (a - μ) * Tv - (a - μ) * (S2 - Tv)) := by ring
  have h3 : (0 : K) ≤ 3 / k := by positivity
  rw [h, abs_mul, abs_of_nonneg h3]
  gcongr
  calc |(x - μ) * (S2 - Tv) - (a - μ) * Tv - (a - μ) * (S2 - Tv)|
      ≤ |(x - μ) * (S2 - Tv)| + |(a - μ) * Tv| + |(a - μ) * (S2 - Tv)| :=
        le_trans (abs_sub _ _) (by gcongr; exact abs_sub _ _)
    _ = |x - μ| * |S2 - Tv| + |a - μ| * Tv + |a - μ| * |S2 - Tv| := by
        rw [abs_mul, abs_mul, abs_mul, abs_of_nonneg hT]

/-- **One step of the error recurrence of `sum_3`.** -/
theorem skew_step_error (fl : K → K) (u : K) (hu : 0 ≤ u) (hfl : ∀ t, |fl t - t| ≤ u * |t|)
    (x a μ S2 Tv S3 Uv k : K) (hk : 0 < k) (hc : 0 ≤ (k - 1) * (k - 2) / k^2) (hT : 0 ≤ Tv) :
    let δn := fl (fl (x - a) / k)
    let A := fl (fl (fl (fl (fl (x - a) * δn) * fl (k - 1)) * δn) * fl (k - 2))
    let B := fl (fl (3 * δn) * S2)
    let c := (k - 1) * (k - 2) / k^2
    let As := (x - μ)^3 * c
    let Bs := 3 * (x - μ) * Tv / k
    let ΔA := c * (3 * (x - μ)^2 * |a - μ| + 3 * |x - μ| * (a - μ)^2 + |a - μ|^3)
    let ΔB := 3 / k * (|x - μ| * |S2 - Tv| + |a - μ| * Tv + |a - μ| * |S2 - Tv|)
    |fl (S3 + fl (A - B)) - (Uv + (As - Bs))|
      ≤ (1 + u) * (|S3 - Uv| + g u 12 * |As| + g u 5 * |Bs| + (1 + g u 12) * ΔA + (1 + g u 5) * ΔB)
        + u * |Uv + (As - Bs)| := by
  intro δn A B c As Bs ΔA ΔB
  have hA : RE u 11 A ((x - a)^3 * c) := skew_incrA_RE fl u hu hfl x a k
  have hB : RE u 4 B (3 * ((x - a) / k) * S2) := skew_incrB_RE fl u hu hfl x a k S2
  have hsub := round_sub_error fl u hu hfl hA hB
  have hA0 : |(x - a)^3 * c - As| ≤ ΔA := incrA_shift x a μ c hc
  have hB0 : |3 * ((x - a) / k) * S2 - Bs| ≤ ΔB := incrB_shift x a μ S2 Tv k hk hT
  set A0 := (x - a)^3 * c with hA0def
  set B0 := 3 * ((x - a) / k) * S2 with hB0def
  have hg12 := g_nonneg hu 12
  have hg5 := g_nonneg hu 5
  have hA0le : |A0| ≤ |As| + ΔA := by
    have : A0 = As + (A0 - As) := by ring
    calc |A0| = |As + (A0 - As)| := by rw [← this]
      _ ≤ |As| + |A0 - As| := abs_add_le _ _
      _ ≤ |As| + ΔA := by linarith
  have hB0le : |B0| ≤ |Bs| + ΔB := by
    have : B0 = Bs + (B0 - Bs) := by ring
    calc |B0| = |Bs + (B0 - Bs)| := by rw [← this]
      _ ≤ |Bs| + |B0 - Bs| := abs_add_le _ _
      _ ≤ |Bs| + ΔB := by linarith
  have hp : |fl (A - B) - (As - Bs)|
      ≤ g u 12 * |As| + g u 5 * |Bs| + (1 + g u 12) * ΔA + (1 + g u 5) * ΔB := by
    have e : fl (A - B) - (As - Bs) = (fl (A - B) - (A0 - B0)) + ((A0 - As) - (B0 - Bs)) := by ring
    rw [e]
    calc |(fl (A - B) - (A0 - B0)) + ((A0 - As) - (B0 - Bs))|
        ≤ |fl (A - B) - (A0 - B0)| + (|A0 - As| + |B0 - Bs|) :=
          le_trans (abs_add_le _ _) (by gcongr; exact abs_sub _ _)
      _ ≤ (g u 12 * |A0| + g u 5 * |B0|) + (ΔA + ΔB) := by
          have : |fl (A - B) - (A0 - B0)| ≤ g u 12 * |A0| + g u 5 * |B0| := hsub
          linarith
      _ ≤ (g u 12 * (|As| + ΔA) + g u 5 * (|Bs| + ΔB)) + (ΔA + ΔB) := by gcongr
      _ = g u 12 * |As| + g u 5 * |Bs| + (1 + g u 12) * ΔA + (1 + g u 5) * ΔB := by ring
  refine le_trans (round_add_error fl u hu hfl S3 (fl (A - B)) Uv (As - Bs)) ?_
  have h1u : 0 ≤ 1 + u := by linarith
  have : |S3 - Uv| + |fl (A - B) - (As - Bs)|
      ≤ |S3 - Uv| + g u 12 * |As| + g u 5 * |Bs| + (1 + g u 12) * ΔA + (1 + g u 5) * ΔB := by
    linarith
  have := mul_le_mul_of_nonneg_left this h1u
  linarith

end SkewErr

#print axioms SkewErr.skew_step_error
