import AvgProofs.HistSearch
import AvgProofs.Round
import Mathlib.Tactic.FieldSimp
import Mathlib.Tactic.Ring
import Mathlib.Data.List.Range

/-!
# `with_const_width`: exact arithmetic and any monotone rounding
-/
namespace Avg

section shape
variable {α : Type} [Add α] [Sub α] [Mul α] [Div α] [NatCast α]

theorem withConstWidth_range (LEN : Nat) (s e : α) :
    (Hist.withConstWidth LEN s e).range
      = (List.range (LEN + 1)).map (fun i : Nat => s + (e - s) / (LEN : α) * (i : α)) := rfl

theorem withConstWidth_bin (LEN : Nat) (s e : α) :
    (Hist.withConstWidth LEN s e).bin = List.replicate LEN 0 := rfl

theorem withConstWidth_lengths (LEN : Nat) (s e : α) :
    (Hist.withConstWidth LEN s e).range.length = (Hist.withConstWidth LEN s e).bin.length + 1 := by
  simp [withConstWidth_range, withConstWidth_bin]

theorem withConstWidth_getElem? (LEN : Nat) (s e : α) (i : Nat) (hi : i ≤ LEN) :
    (Hist.withConstWidth LEN s e).range[i]? = some (s + (e - s) / (LEN : α) * (i : α)) := by
  rw [withConstWidth_range, List.getElem?_map, List.getElem?_range (by omega)]; rfl

/-- edges given by a monotone function of the index are sorted -/
theorem pairwise_map_range {β : Type} (R : β → β → Prop) (f : Nat → β) (n : Nat)
    (hf : ∀ i j, i < j → j < n → R (f i) (f j)) : ((List.range n).map f).Pairwise R := by
  rw [List.pairwise_map]
  have h := List.pairwise_lt_range (n := n)
  have hm : ∀ x ∈ List.range n, x < n := fun x hx => List.mem_range.mp hx
  exact (List.Pairwise.and_mem.mp h).imp (fun ⟨_, hb, hab⟩ => hf _ _ hab (hm _ hb))

end shape

/-! ## exact arithmetic -/
section exact
variable {K : Type} [Field K] [LinearOrder K] [IsStrictOrderedRing K]

theorem withConstWidth_sorted_exact (LEN : Nat) (s e : K) (hse : s ≤ e) :
    (Hist.withConstWidth LEN s e).range.Pairwise (· ≤ ·) := by
  rw [withConstWidth_range]
  apply pairwise_map_range
  intro i j hij _
  have hstep : 0 ≤ (e - s) / (LEN : K) := div_nonneg (sub_nonneg.mpr hse) (Nat.cast_nonneg _)
  have : (i : K) ≤ (j : K) := by exact_mod_cast le_of_lt hij
  have := mul_le_mul_of_nonneg_left this hstep
  linarith

omit [LinearOrder K] [IsStrictOrderedRing K] in
theorem withConstWidth_first_exact (LEN : Nat) (s e : K) :
    (Hist.withConstWidth LEN s e).range[0]? = some s := by
  rw [withConstWidth_getElem? LEN s e 0 (Nat.zero_le _)]; simp

theorem withConstWidth_last_exact (LEN : Nat) (hLEN : 1 ≤ LEN) (s e : K) :
    (Hist.withConstWidth LEN s e).range[LEN]? = some e := by
  rw [withConstWidth_getElem? LEN s e LEN (le_refl _)]
  have : (LEN : K) ≠ 0 := Nat.cast_ne_zero.mpr (by omega)
  congr 1; field_simp; ring

end exact

/-! ## any monotone rounding (carrier `RF r`) -/
section r0
variable {K : Type} [Field K] [LinearOrder K] [IsStrictOrderedRing K] {r : Rnd K}
open RF

/-- the value of edge `i` computed in rounded arithmetic -/
theorem withConstWidth_edge_val (LEN : Nat) (s e : RF r) (i : Nat) (hi : i ≤ LEN) :
    ∃ v, (Hist.withConstWidth LEN s e).range[i]? = some v ∧
      v.val = r.fl (s.val + r.fl (r.fl (r.fl (e.val - s.val) / r.fl (LEN : K)) * r.fl (i : K))) :=
  ⟨_, withConstWidth_getElem? LEN s e i hi, rfl⟩

theorem step_nonneg (LEN : Nat) (s e : RF r) (hse : s.val ≤ e.val) :
    0 ≤ ((e - s) / ((LEN : Nat) : RF r)).val := by
  simp only [div_val, sub_val, cast_val]
  apply fl_nonneg
  apply div_nonneg
  · exact fl_nonneg (sub_nonneg.mpr hse)
  · exact fl_nonneg (Nat.cast_nonneg _)

/-- under any monotone rounding the computed edges are non-decreasing -/
theorem withConstWidth_sorted_r0 (LEN : Nat) (s e : RF r) (hse : s.val ≤ e.val) :
    (Hist.withConstWidth LEN s e).range.Pairwise (fun a b => a.val ≤ b.val) := by
  rw [withConstWidth_range]
  apply pairwise_map_range
  intro i j hij _
  simp only [add_val, mul_val]
  apply r.mono
  apply add_le_add_right
  apply r.mono
  apply mul_le_mul_of_nonneg_left _ (step_nonneg LEN s e hse)
  exact cast_mono (r := r) (le_of_lt hij)

/-- edge 0 is `fl(start + fl(step * fl 0))`, which is `fl start`; it is `start` itself when
`start` is representable (`fl start = start`) -/
theorem withConstWidth_first_r0 (LEN : Nat) (s e : RF r) :
    ∃ v, (Hist.withConstWidth LEN s e).range[0]? = some v ∧ v.val = r.fl s.val := by
  refine ⟨_, withConstWidth_getElem? LEN s e 0 (Nat.zero_le _), ?_⟩
  simp only [add_val, mul_val, cast_val, Nat.cast_zero, r.zero, mul_zero, add_zero]

theorem RF.ext' {a b : RF r} (h : a.val = b.val) : a = b := by
  cases a; cases b; simp only at h; subst h; rfl

theorem withConstWidth_first_r0_repr (LEN : Nat) (s e : RF r) (hs : r.fl s.val = s.val) :
    (Hist.withConstWidth LEN s e).range[0]? = some s := by
  obtain ⟨v, hv, hval⟩ := withConstWidth_first_r0 LEN s e
  rw [hv]; congr 1; exact RF.ext' (by rw [hval, hs])

end r0

/-! ## `RF r` as an ordered carrier (scoped, so that nothing clashes with other files) -/
namespace HistRF
variable {K : Type} [Field K] [LinearOrder K] [IsStrictOrderedRing K] {r : Rnd K}

theorem val_injective : Function.Injective (fun a : RF r => a.val) :=
  fun _ _ h => RF.ext' h

scoped instance : LinearOrder (RF r) := LinearOrder.lift' (fun a : RF r => a.val) val_injective
scoped instance : FloatOps (RF r) := histFloatOps ⟨0⟩
scoped instance : OrdLawful (RF r) := histFloatOps_lawful _

theorem le_iff (a b : RF r) : a ≤ b ↔ a.val ≤ b.val := Iff.rfl
theorem lt_iff (a b : RF r) : a < b ↔ a.val < b.val := Iff.rfl

theorem withConstWidth_sorted (LEN : Nat) (s e : RF r) (hse : s.val ≤ e.val) :
    (Hist.withConstWidth LEN s e).range.Pairwise (· ≤ ·) :=
  withConstWidth_sorted_r0 LEN s e hse

end HistRF
end Avg
