import AvgProofs.SampleStatErrReal
import AvgModel.MomentsN

/-!
# `sample_skewness` of `define_moments!` at the carrier `RF2 r` over ℝ

* `sampleSkewness_val` (`n ≥ 3`): the accessor computes
  `fl(fl(fl(sqrtfl(fl(n·fl(n-1)))/fl(n-2))·c₃)/powfl(c₂))`, `c_p = central_moment(p)` as computed,
  `n - 1`, `n - 2` rounded subtractions of exactly converted counts - six roundings `fl`/`sqrtfl`, one `powfl`.
* `skew_core`: with `|c₂ - m₂| ≤ ε₂·m₂`, `|c₃ - m₃| ≤ δ₃`,
  `Φ = (1/(1-u))^6 · 1/(1-ρ) · (1/(1-ε₂))^(3/2)`:
  `|computed - A·m₃/m₂^(3/2)| ≤ A/m₂^(3/2)·(|m₃|·(Φ-1) + δ₃·Φ)`, `A = √(n(n-1))/(n-2)`.
* `skew_factor_le`: `s = 6u + ρ + (3/2)ε₂ ≤ 1/16` ⟹ `Φ ≤ 1 + (16/15)·s`.
* `sampleSkewness_two_val`, `skew_two_core`: the method-of-moments branch `n = 2`:
  `fl(c₃/powfl(fl(2·fl(c₂/fl(2-1)))))`, factor `Φ₂ = (1/(1-u))^7 · 1/(1-ρ) · (1/(1-ε₂))^(3/2)`.
-/
open Avg
set_option linter.unusedSectionVars false

namespace SSE

/-! ## what is computed -/
section val
variable {r : Rnd2 ℝ} [FloatOps (RF2 r)]

/-- what `sample_skewness` computes at `RF2 r` for `n ≥ 3` -/
theorem sampleSkewness_val (q : RndSqrt r) (hs : SqrtIs q) (p : RndPow15 r) (hp : Pow15Is p)
    (s : Moments (RF2 r)) (hn : 3 ≤ s.n) :
    s.sampleSkewness.val
      = r.fl (r.fl (r.fl (q.sqrtfl (r.fl ((s.n:ℝ) * r.fl ((s.n:ℝ) - 1))) / r.fl ((s.n:ℝ) - 2))
                * (s.cmRaw 3).val) / p.powfl (s.cmRaw 2).val) := by
  unfold Moments.sampleSkewness
  rw [if_neg (by omega), if_neg (by omega)]
  simp only []
  rw [if_neg (by omega)]
  show r.fl (r.fl (r.fl ((FloatOps.sqrt ((s.n : RF2 r) * ((s.n : RF2 r) - ((1:ℕ) : RF2 r)))).val
        / r.fl ((s.n : ℝ) - ((2:ℕ):ℝ))) * (s.cmRaw 3).val) / (FloatOps.pow15 (s.cmRaw 2)).val) = _
  rw [hs, hp]
  show r.fl (r.fl (r.fl (q.sqrtfl (r.fl ((s.n:ℝ) * r.fl ((s.n:ℝ) - ((1:ℕ):ℝ))))
      / r.fl ((s.n : ℝ) - ((2:ℕ):ℝ))) * (s.cmRaw 3).val) / p.powfl (s.cmRaw 2).val) = _
  norm_num

/-- what `sample_skewness` computes at `RF2 r` for `n = 2` (method of moments) -/
theorem sampleSkewness_two_val (p : RndPow15 r) (hp : Pow15Is p)
    (s : Moments (RF2 r)) (hn : s.n = 2) :
    s.sampleSkewness.val
      = r.fl ((s.cmRaw 3).val / p.powfl (r.fl (2 * r.fl ((s.cmRaw 2).val / r.fl (2 - 1))))) := by
  unfold Moments.sampleSkewness
  rw [if_neg (by omega), if_neg (by omega)]
  simp only []
  rw [if_pos (by omega)]
  show r.fl ((s.cmRaw 3).val / (FloatOps.pow15 ((s.n : RF2 r) * (s.cmRaw 2 / ((s.n : RF2 r) - ((1:ℕ) : RF2 r))))).val) = _
  rw [hp]
  show r.fl ((s.cmRaw 3).val / p.powfl (r.fl ((s.n:ℝ) * r.fl ((s.cmRaw 2).val / r.fl ((s.n:ℝ) - ((1:ℕ):ℝ)))))) = _
  rw [hn]
  norm_num

end val

/-! ## the error analysis on real numbers -/

/-- the factor of `sample_skewness`, `n ≥ 3` -/
noncomputable def skewPhi (u ρ ε₂ : ℝ) : ℝ := ((1 - u)⁻¹)^6 * (1 - ρ)⁻¹ * ((1 - ε₂)⁻¹) ^ ((3:ℝ)/2)

/-- the factor of the branch `n = 2` -/
noncomputable def skewPhi2 (u ρ ε₂ : ℝ) : ℝ := ((1 - u)⁻¹)^7 * (1 - ρ)⁻¹ * ((1 - ε₂)⁻¹) ^ ((3:ℝ)/2)

theorem one_le_skewPhi {u ρ ε₂ : ℝ} (hu : 0 ≤ u) (hu1 : u < 1) (hρ : 0 ≤ ρ) (hρ1 : ρ < 1)
    (hε : 0 ≤ ε₂) (hε1 : ε₂ < 1) : 1 ≤ skewPhi u ρ ε₂ := by
  unfold skewPhi
  have h1 := one_le_inv_one_sub hu hu1
  have h2 := one_le_inv_one_sub hρ hρ1
  have h3 := one_le_rpow15 (one_le_inv_one_sub hε hε1)
  have h4 : (1:ℝ) ≤ ((1 - u)⁻¹)^6 := one_le_pow₀ h1
  calc (1:ℝ) = 1 * 1 * 1 := by ring
    _ ≤ _ := by gcongr

theorem one_le_skewPhi2 {u ρ ε₂ : ℝ} (hu : 0 ≤ u) (hu1 : u < 1) (hρ : 0 ≤ ρ) (hρ1 : ρ < 1)
    (hε : 0 ≤ ε₂) (hε1 : ε₂ < 1) : 1 ≤ skewPhi2 u ρ ε₂ := by
  unfold skewPhi2
  have h1 := one_le_inv_one_sub hu hu1
  have h2 := one_le_inv_one_sub hρ hρ1
  have h3 := one_le_rpow15 (one_le_inv_one_sub hε hε1)
  have h4 : (1:ℝ) ≤ ((1 - u)⁻¹)^7 := one_le_pow₀ h1
  calc (1:ℝ) = 1 * 1 * 1 := by ring
    _ ≤ _ := by gcongr

/-- from a multiplicative closeness of `x` to `c·c₃/P` and `|c₃ - m₃| ≤ δ₃` to the absolute error against
`c·m₃/P` (`c/P ≥ 0`) -/
theorem mc_to_abs {Φ x c3 m₃ δ₃ w : ℝ} (hΦ : 1 ≤ Φ) (hw : 0 ≤ w) (h : MC Φ x (w * c3))
    (h3 : |c3 - m₃| ≤ δ₃) : |x - w * m₃| ≤ w * (|m₃| * (Φ - 1) + δ₃ * Φ) := by
  have h1 := MC.abs_sub_le hΦ h
  have hc3 : |c3| ≤ |m₃| + δ₃ := by
    have : c3 = m₃ + (c3 - m₃) := by ring
    calc |c3| = |m₃ + (c3 - m₃)| := by rw [← this]
      _ ≤ |m₃| + |c3 - m₃| := abs_add_le _ _
      _ ≤ _ := by linarith
  have hδ : 0 ≤ δ₃ := le_trans (abs_nonneg _) h3
  have e : x - w * m₃ = (x - w * c3) + w * (c3 - m₃) := by ring
  rw [e]
  calc |x - w * c3 + w * (c3 - m₃)| ≤ |x - w * c3| + |w * (c3 - m₃)| := abs_add_le _ _
    _ ≤ (Φ - 1) * |w * c3| + w * δ₃ := by
        rw [abs_mul w (c3 - m₃), abs_of_nonneg hw]
        exact add_le_add h1 (mul_le_mul_of_nonneg_left h3 hw)
    _ ≤ (Φ - 1) * (w * (|m₃| + δ₃)) + w * δ₃ := by
        rw [abs_mul, abs_of_nonneg hw]
        have : 0 ≤ Φ - 1 := by linarith
        gcongr
    _ = _ := by ring

/-- **`sample_skewness`, `n ≥ 3`, on real numbers.** -/
theorem skew_core (r : Rnd2 ℝ) (q : RndSqrt r) (p : RndPow15 r) (n c2 c3 m₂ m₃ ε₂ δ₃ : ℝ)
    (hn : 3 ≤ n) (hm₂ : 0 < m₂) (hε₂ : 0 ≤ ε₂) (hε₂1 : ε₂ < 1) (hu1 : r.u < 1) (hρ1 : p.ρ < 1)
    (h2 : |c2 - m₂| ≤ ε₂ * m₂) (h3 : |c3 - m₃| ≤ δ₃) :
    |r.fl (r.fl (r.fl (q.sqrtfl (r.fl (n * r.fl (n - 1))) / r.fl (n - 2)) * c3) / p.powfl c2)
        - Real.sqrt (n * (n - 1)) / (n - 2) * m₃ / m₂ ^ ((3:ℝ)/2)|
      ≤ Real.sqrt (n * (n - 1)) / (n - 2) / m₂ ^ ((3:ℝ)/2)
          * (|m₃| * (skewPhi r.u p.ρ ε₂ - 1) + δ₃ * skewPhi r.u p.ρ ε₂) := by
  have hu := r.u_nonneg
  have hρ := p.ρ_nonneg
  set U := (1 - r.u)⁻¹ with hU
  set R := (1 - p.ρ)⁻¹ with hR
  set E := (1 - ε₂)⁻¹ with hE
  have hU0 : 0 < U := inv_pos.mpr (by linarith)
  have hR0 : 0 < R := inv_pos.mpr (by linarith)
  have hE0 : 0 < E := inv_pos.mpr (by linarith)
  have hE15 : 0 < E ^ ((3:ℝ)/2) := Real.rpow_pos_of_pos hE0 _
  have hnn : 0 ≤ n * (n - 1) := mul_nonneg (by linarith) (by linarith)
  -- the coefficient
  have a1 : MC U (r.fl (n - 1)) (n - 1) := MC.fl r hu1 _
  have a2 : MC (U * U) (r.fl (n * r.fl (n - 1))) (n * (n - 1)) := by
    have := MC.round r hu1 (mul_pos one_pos hU0) (MC.mul one_pos hU0 (MC.refl n) a1)
    rwa [one_mul] at this
  have hx0 : 0 ≤ r.fl (n * r.fl (n - 1)) := MC.nonneg_of_nonneg (mul_pos hU0 hU0) a2 hnn
  have a3 : MC (U * U) (q.sqrtfl (r.fl (n * r.fl (n - 1)))) (Real.sqrt (n * (n - 1))) := by
    have s1 := MC.sqrt (mul_pos hU0 hU0) a2 hnn
    rw [Real.sqrt_mul_self hU0.le] at s1
    exact MC.trans hU0 hU0 (MC.sqrtfl q hu1 hx0) s1
  have a4 : MC U (r.fl (n - 2)) (n - 2) := MC.fl r hu1 _
  have a5 : MC (U * U * U * U) (r.fl (q.sqrtfl (r.fl (n * r.fl (n - 1))) / r.fl (n - 2)))
      (Real.sqrt (n * (n - 1)) / (n - 2)) :=
    MC.round r hu1 (by positivity) (MC.div (by positivity) hU0 a3 a4)
  have a6 : MC (U * U * U * U * U)
      (r.fl (r.fl (q.sqrtfl (r.fl (n * r.fl (n - 1))) / r.fl (n - 2)) * c3))
      (Real.sqrt (n * (n - 1)) / (n - 2) * c3) := by
    have := MC.round r hu1 (by positivity) (MC.mul (by positivity) one_pos a5 (MC.refl c3))
    rwa [mul_one] at this
  -- the power
  have b1 : MC E c2 m₂ := MC.of_rel hε₂ hε₂1 (by rwa [abs_of_pos hm₂])
  have hc2 : 0 ≤ c2 := MC.nonneg_of_nonneg hE0 b1 hm₂.le
  have b2 : MC (R * E ^ ((3:ℝ)/2)) (p.powfl c2) (m₂ ^ ((3:ℝ)/2)) :=
    MC.trans hR0 hE15 (MC.powfl p hρ1 hc2) (MC.rpow15 hE0 b1 hm₂.le)
  -- the quotient
  have c1 := MC.round r hu1 (by positivity) (MC.div (by positivity) (by positivity) a6 b2)
  have hΦ : U * U * U * U * U * (R * E ^ ((3:ℝ)/2)) * U = skewPhi r.u p.ρ ε₂ := by
    unfold skewPhi; rw [← hU, ← hR, ← hE]; ring
  rw [hΦ] at c1
  have hP : 0 < m₂ ^ ((3:ℝ)/2) := Real.rpow_pos_of_pos hm₂ _
  have hA : 0 ≤ Real.sqrt (n * (n - 1)) / (n - 2) :=
    div_nonneg (Real.sqrt_nonneg _) (by linarith)
  have hw : 0 ≤ Real.sqrt (n * (n - 1)) / (n - 2) / m₂ ^ ((3:ℝ)/2) := div_nonneg hA hP.le
  have e1 : Real.sqrt (n * (n - 1)) / (n - 2) * c3 / m₂ ^ ((3:ℝ)/2)
      = Real.sqrt (n * (n - 1)) / (n - 2) / m₂ ^ ((3:ℝ)/2) * c3 := by ring
  have e2 : Real.sqrt (n * (n - 1)) / (n - 2) * m₃ / m₂ ^ ((3:ℝ)/2)
      = Real.sqrt (n * (n - 1)) / (n - 2) / m₂ ^ ((3:ℝ)/2) * m₃ := by ring
  rw [e1] at c1
  rw [e2]
  exact mc_to_abs (one_le_skewPhi hu hu1 hρ hρ1 hε₂ hε₂1) hw c1 h3

/-- `x^(3/2) ≤ x^2` for `x ≥ 1` -/
theorem rpow15_le_sq {x : ℝ} (hx : 1 ≤ x) : x ^ ((3:ℝ)/2) ≤ x ^ 2 := by
  have := Real.rpow_le_rpow_of_exponent_le hx (by norm_num : (3:ℝ)/2 ≤ 2)
  rwa [Real.rpow_two] at this

/-- **`sample_skewness`, the branch `n = 2`, on real numbers**: against `m₃/(2·(m₂/(2-1)))^(3/2)`. -/
theorem skew_two_core (r : Rnd2 ℝ) (p : RndPow15 r) (c2 c3 m₂ m₃ ε₂ δ₃ : ℝ)
    (hm₂ : 0 < m₂) (hε₂ : 0 ≤ ε₂) (hε₂1 : ε₂ < 1) (hu1 : r.u < 1) (hρ1 : p.ρ < 1)
    (h2 : |c2 - m₂| ≤ ε₂ * m₂) (h3 : |c3 - m₃| ≤ δ₃) :
    |r.fl (c3 / p.powfl (r.fl (2 * r.fl (c2 / r.fl (2 - 1))))) - m₃ / (2 * (m₂ / (2 - 1))) ^ ((3:ℝ)/2)|
      ≤ 1 / (2 * (m₂ / (2 - 1))) ^ ((3:ℝ)/2)
          * (|m₃| * (skewPhi2 r.u p.ρ ε₂ - 1) + δ₃ * skewPhi2 r.u p.ρ ε₂) := by
  have hu := r.u_nonneg
  have hρ := p.ρ_nonneg
  set U := (1 - r.u)⁻¹ with hU
  set R := (1 - p.ρ)⁻¹ with hR
  set E := (1 - ε₂)⁻¹ with hE
  have hU0 : 0 < U := inv_pos.mpr (by linarith)
  have hU1 : 1 ≤ U := one_le_inv_one_sub hu hu1
  have hR0 : 0 < R := inv_pos.mpr (by linarith)
  have hE0 : 0 < E := inv_pos.mpr (by linarith)
  have hE15 : 0 < E ^ ((3:ℝ)/2) := Real.rpow_pos_of_pos hE0 _
  have b1 : MC E c2 m₂ := MC.of_rel hε₂ hε₂1 (by rwa [abs_of_pos hm₂])
  have a1 : MC U (r.fl (2 - 1)) (2 - 1) := MC.fl r hu1 _
  have a2 : MC (E * U * U) (r.fl (c2 / r.fl (2 - 1))) (m₂ / (2 - 1)) :=
    MC.round r hu1 (by positivity) (MC.div hE0 hU0 b1 a1)
  have a3 : MC (E * U * U * U) (r.fl (2 * r.fl (c2 / r.fl (2 - 1)))) (2 * (m₂ / (2 - 1))) := by
    have := MC.round r hu1 (by positivity) (MC.mul one_pos (by positivity) (MC.refl (2:ℝ)) a2)
    rwa [one_mul] at this
  have hy0 : 0 ≤ 2 * (m₂ / (2 - 1)) := by norm_num; exact hm₂.le
  have hx0 : 0 ≤ r.fl (2 * r.fl (c2 / r.fl (2 - 1))) :=
    MC.nonneg_of_nonneg (by positivity) a3 hy0
  have a4 := MC.rpow15 (by positivity : 0 < E * U * U * U) a3 hy0
  have hpow : (E * U * U * U) ^ ((3:ℝ)/2) ≤ E ^ ((3:ℝ)/2) * (U * U * U * U * U * U) := by
    have e : E * U * U * U = E * (U * U * U) := by ring
    rw [e, Real.mul_rpow hE0.le (by positivity)]
    apply mul_le_mul_of_nonneg_left _ hE15.le
    have h1 : 1 ≤ U * U * U := by nlinarith [mul_pos hU0 hU0]
    refine le_trans (rpow15_le_sq h1) (le_of_eq (by ring))
  have a5 : MC (E ^ ((3:ℝ)/2) * (U * U * U * U * U * U))
      ((r.fl (2 * r.fl (c2 / r.fl (2 - 1)))) ^ ((3:ℝ)/2)) ((2 * (m₂ / (2 - 1))) ^ ((3:ℝ)/2)) :=
    MC.mono (Real.rpow_pos_of_pos (by positivity) _) hpow a4
  have a6 : MC (R * (E ^ ((3:ℝ)/2) * (U * U * U * U * U * U)))
      (p.powfl (r.fl (2 * r.fl (c2 / r.fl (2 - 1))))) ((2 * (m₂ / (2 - 1))) ^ ((3:ℝ)/2)) :=
    MC.trans hR0 (by positivity) (MC.powfl p hρ1 hx0) a5
  have c1 := MC.round r hu1 (by positivity) (MC.div one_pos (by positivity) (MC.refl c3) a6)
  have hΦ : 1 * (R * (E ^ ((3:ℝ)/2) * (U * U * U * U * U * U))) * U = skewPhi2 r.u p.ρ ε₂ := by
    unfold skewPhi2; rw [← hU, ← hR, ← hE]; ring
  rw [hΦ] at c1
  have hP : 0 < (2 * (m₂ / (2 - 1))) ^ ((3:ℝ)/2) :=
    Real.rpow_pos_of_pos (by norm_num; exact hm₂) _
  have e1 : c3 / (2 * (m₂ / (2 - 1))) ^ ((3:ℝ)/2) = 1 / (2 * (m₂ / (2 - 1))) ^ ((3:ℝ)/2) * c3 := by ring
  have e2 : m₃ / (2 * (m₂ / (2 - 1))) ^ ((3:ℝ)/2) = 1 / (2 * (m₂ / (2 - 1))) ^ ((3:ℝ)/2) * m₃ := by ring
  rw [e1] at c1
  rw [e2]
  exact mc_to_abs (one_le_skewPhi2 hu hu1 hρ hρ1 hε₂ hε₂1) (by positivity) c1 h3

/-! ## numerals -/

/-- `k` roundings, one `powf`, and the power `3/2` of the second moment:
`(1/(1-u))^k · 1/(1-ρ) · (1/(1-ε₂))^(3/2) ≤ 1/(1-s) ≤ 1 + (16/15)·s`, `s = k·u + ρ + (3/2)·ε₂ ≤ 1/16` -/
theorem skew_factor_gen (k : ℕ) {u ρ ε₂ : ℝ} (hu : 0 ≤ u) (hρ : 0 ≤ ρ) (hε : 0 ≤ ε₂)
    (hs : (k : ℝ) * u + ρ + 3/2 * ε₂ ≤ 1/16) :
    ((1 - u)⁻¹)^k * (1 - ρ)⁻¹ * ((1 - ε₂)⁻¹) ^ ((3:ℝ)/2) ≤ 1 + 16/15 * ((k : ℝ) * u + ρ + 3/2 * ε₂) := by
  have hk0 : 0 ≤ (k : ℝ) * u := mul_nonneg (Nat.cast_nonneg k) hu
  have hε0 : 0 ≤ 3/2 * ε₂ := by positivity
  have h1 := inv_one_sub_pow_le hu k (by linarith)
  have h2 := inv_rpow15_le hε (by linarith)
  have hpos1 : 0 ≤ (1 - ρ)⁻¹ := (inv_pos.mpr (by linarith)).le
  have hpos2 : 0 ≤ (1 - 3/2 * ε₂)⁻¹ := (inv_pos.mpr (by linarith)).le
  have hpos3 : 0 ≤ ((1 - ε₂)⁻¹) ^ ((3:ℝ)/2) := Real.rpow_nonneg (inv_pos.mpr (by linarith)).le _
  have hpos4 : 0 ≤ (1 - (k:ℝ) * u)⁻¹ := (inv_pos.mpr (by linarith)).le
  calc ((1 - u)⁻¹)^k * (1 - ρ)⁻¹ * ((1 - ε₂)⁻¹) ^ ((3:ℝ)/2)
      ≤ (1 - (k:ℝ) * u)⁻¹ * (1 - ρ)⁻¹ * (1 - 3/2 * ε₂)⁻¹ := by gcongr
    _ ≤ (1 - ((k:ℝ) * u + ρ))⁻¹ * (1 - 3/2 * ε₂)⁻¹ :=
        mul_le_mul_of_nonneg_right (inv_one_sub_mul_le hk0 hρ (by linarith)) hpos2
    _ ≤ (1 - ((k:ℝ) * u + ρ + 3/2 * ε₂))⁻¹ :=
        inv_one_sub_mul_le (by linarith) hε0 (by linarith)
    _ ≤ _ := inv_one_sub_le_numeral (by linarith) hs

/-- `s = 6u + ρ + (3/2)ε₂ ≤ 1/16` ⟹ `Φ ≤ 1 + (16/15)·s` -/
theorem skew_factor_le {u ρ ε₂ : ℝ} (hu : 0 ≤ u) (hρ : 0 ≤ ρ) (hε : 0 ≤ ε₂)
    (hs : 6 * u + ρ + 3/2 * ε₂ ≤ 1/16) :
    skewPhi u ρ ε₂ ≤ 1 + 16/15 * (6 * u + ρ + 3/2 * ε₂) := by
  have := skew_factor_gen 6 hu hρ hε (by push_cast; exact hs)
  push_cast at this
  exact this

/-- `s = 7u + ρ + (3/2)ε₂ ≤ 1/16` ⟹ `Φ₂ ≤ 1 + (16/15)·s` -/
theorem skew_factor2_le {u ρ ε₂ : ℝ} (hu : 0 ≤ u) (hρ : 0 ≤ ρ) (hε : 0 ≤ ε₂)
    (hs : 7 * u + ρ + 3/2 * ε₂ ≤ 1/16) :
    skewPhi2 u ρ ε₂ ≤ 1 + 16/15 * (7 * u + ρ + 3/2 * ε₂) := by
  have := skew_factor_gen 7 hu hρ hε (by push_cast; exact hs)
  push_cast at this
  exact this

end SSE

#print axioms SSE.skew_core
#print axioms SSE.skew_two_core
