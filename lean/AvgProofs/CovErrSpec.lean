import AvgProofs.VarErrSpec
import AvgProofs.CovCanon

/-!
# Exact side of the error analysis of the co-moment `sum_prod` of `Covariance`

For a list `vs` of pairs, `fsts vs`/`snds vs` its coordinates, `dev (fsts vs) i = x_i - mean(x_0..x_{i-1})`
(`VarSpec.dev`), `T = Σ(x - mean)²` (`VarSpec.T`):

* `Cxy vs = Σ (x - mean x)(y - mean y)`, the exact co-moment, and its exact recurrence
  `Cxy (vs ++ [(x,y)]) = Cxy vs + (x - mean xs)(y - mean ys)·n/(n+1)`  (`n = |vs|`;
  `(y - mean ys)·n/(n+1) = y - mean (ys ++ [y])`: old `x`-mean, new `y`-mean),
* `Gxy vs = Σ_{i<n} |dev_x i|·|dev_y i|·i/(i+1)`, the sum of the *absolute* exact increments:
  `|Cxy vs| ≤ Gxy vs`, `Gxy` never decreases, and by Cauchy-Schwarz `Gxy vs² ≤ T xs · T ys`,
* the splitting of an un-weighted cross term `Σ E_i·|dev i|` into its first summand and a weighted
  cross term to which `VarSpec.cross_sq_le` applies.
-/
open Avg MSpec Finset VarSpec

namespace CovSpec
variable {K : Type} [Field K] [LinearOrder K] [IsStrictOrderedRing K]

/-- exact co-moment `Σ (x - mean x)(y - mean y)` -/
def Cxy (vs : List (K × K)) : K := coSum vs (mean (fsts vs)) (mean (snds vs))

omit [LinearOrder K] [IsStrictOrderedRing K] in
theorem Cxy_nil : Cxy ([] : List (K × K)) = 0 := by simp [Cxy]

omit [Field K] [LinearOrder K] [IsStrictOrderedRing K] in
theorem fsts_snoc (vs : List (K × K)) (p : K × K) : fsts (vs ++ [p]) = fsts vs ++ [p.1] := by
  simp [fsts]
omit [Field K] [LinearOrder K] [IsStrictOrderedRing K] in
theorem snds_snoc (vs : List (K × K)) (p : K × K) : snds (vs ++ [p]) = snds vs ++ [p.2] := by
  simp [snds]
omit [Field K] [LinearOrder K] [IsStrictOrderedRing K] in
theorem fsts_length (vs : List (K × K)) : (fsts vs).length = vs.length := List.length_map _
omit [Field K] [LinearOrder K] [IsStrictOrderedRing K] in
theorem snds_length (vs : List (K × K)) : (snds vs).length = vs.length := List.length_map _

/-- the new `y`-mean: `y - mean (ys ++ [y]) = (y - mean ys)·n/(n+1)` -/
theorem sub_mean_snoc (ys : List K) (y : K) :
    y - mean (ys ++ [y]) = (y - mean ys) * ((ys.length : K) / ((ys.length : K) + 1)) := by
  have hn : ((ys.length : K) + 1) ≠ 0 := by positivity
  rw [← mean_snoc]
  push_cast
  field_simp
  ring

/-- **Exact recurrence** of the co-moment (the quantity `Covariance.add` approximates in `sum_prod`). -/
theorem Cxy_snoc (vs : List (K × K)) (x y : K) :
    Cxy (vs ++ [(x, y)]) = Cxy vs
      + (x - mean (fsts vs)) * (y - mean (snds vs)) * ((vs.length : K) / ((vs.length : K) + 1)) := by
  have h := congrArg Covariance.sum_prod (cov_add vs x y)
  have h' : ((canonC vs).add x y).sum_prod
      = Cxy vs + (x - mean (fsts vs))
          * (y - (mean (snds vs) + (y - mean (snds vs)) / ((vs.length + 1 : ℕ) : K))) := rfl
  have h'' : (canonC (vs ++ [(x, y)])).sum_prod = Cxy (vs ++ [(x, y)]) := rfl
  rw [h', h''] at h
  rw [← h]
  have hm := mean_snoc (snds vs) y
  rw [snds_length] at hm
  rw [hm]
  have hs := sub_mean_snoc (snds vs) y
  rw [snds_length] at hs
  rw [hs]; ring

/-- the same with the new `y`-mean written out -/
theorem Cxy_snoc' (vs : List (K × K)) (x y : K) :
    Cxy (vs ++ [(x, y)]) = Cxy vs + (x - mean (fsts vs)) * (y - mean (snds vs ++ [y])) := by
  rw [Cxy_snoc, sub_mean_snoc, snds_length]; ring

omit [LinearOrder K] [IsStrictOrderedRing K] in
/-- sums over the pairs of a function of the index and the two deviations, one more pair -/
theorem sum_dev2_snoc (f : ℕ → K → K → K) (vs : List (K × K)) (x y : K) :
    ∑ i ∈ range (vs ++ [(x, y)]).length,
        f i (dev (fsts (vs ++ [(x, y)])) i) (dev (snds (vs ++ [(x, y)])) i)
      = ∑ i ∈ range vs.length, f i (dev (fsts vs) i) (dev (snds vs) i)
        + f vs.length (x - mean (fsts vs)) (y - mean (snds vs)) := by
  rw [List.length_append, List.length_singleton, sum_range_succ, fsts_snoc, snds_snoc]
  have h1 := dev_snoc_len (fsts vs) x
  have h2 := dev_snoc_len (snds vs) y
  rw [fsts_length] at h1
  rw [snds_length] at h2
  rw [h1, h2]
  congr 1
  apply sum_congr rfl
  intro i hi
  have hi' := mem_range.mp hi
  rw [dev_snoc_lt (fsts vs) x (by rw [fsts_length]; exact hi'),
    dev_snoc_lt (snds vs) y (by rw [snds_length]; exact hi')]

/-- the sum of the absolute values of the exact increments of the co-moment -/
def Gxy (vs : List (K × K)) : K :=
  ∑ i ∈ range vs.length, |dev (fsts vs) i| * |dev (snds vs) i| * ((i : K) / ((i : K) + 1))

omit [IsStrictOrderedRing K] in
theorem Gxy_nil : Gxy ([] : List (K × K)) = 0 := by simp [Gxy]

omit [IsStrictOrderedRing K] in
theorem Gxy_snoc (vs : List (K × K)) (x y : K) :
    Gxy (vs ++ [(x, y)]) = Gxy vs
      + |x - mean (fsts vs)| * |y - mean (snds vs)| * ((vs.length : K) / ((vs.length : K) + 1)) :=
  sum_dev2_snoc (fun i d e => |d| * |e| * ((i : K) / ((i : K) + 1))) vs x y

theorem Gxy_nonneg (vs : List (K × K)) : 0 ≤ Gxy vs := by
  unfold Gxy
  apply sum_nonneg
  intro i _
  have := ratio_nonneg (K := K) i
  positivity

theorem Gxy_mono (vs : List (K × K)) (x y : K) : Gxy vs ≤ Gxy (vs ++ [(x, y)]) := by
  rw [Gxy_snoc]
  have := ratio_nonneg (K := K) vs.length
  have : 0 ≤ |x - mean (fsts vs)| * |y - mean (snds vs)| * ((vs.length : K) / ((vs.length : K) + 1)) := by
    positivity
  linarith

/-- the co-moment is at most the sum of the absolute increments -/
theorem abs_Cxy_le_Gxy (vs : List (K × K)) : |Cxy vs| ≤ Gxy vs := by
  induction vs using List.reverseRecOn with
  | nil => simp [Cxy_nil, Gxy_nil]
  | append_singleton vs p ih =>
    obtain ⟨x, y⟩ := p
    rw [Cxy_snoc, Gxy_snoc]
    have hq := ratio_nonneg (K := K) vs.length
    calc |Cxy vs + (x - mean (fsts vs)) * (y - mean (snds vs)) * ((vs.length : K) / ((vs.length : K) + 1))|
        ≤ |Cxy vs| + |(x - mean (fsts vs)) * (y - mean (snds vs))
            * ((vs.length : K) / ((vs.length : K) + 1))| := abs_add_le _ _
      _ = |Cxy vs| + |x - mean (fsts vs)| * |y - mean (snds vs)|
            * ((vs.length : K) / ((vs.length : K) + 1)) := by
          rw [abs_mul, abs_mul, abs_of_nonneg hq]
      _ ≤ _ := by linarith

/-- **Cauchy-Schwarz**: `(Σ|dev_x||dev_y|·i/(i+1))² ≤ (Σ dev_x²·i/(i+1))·(Σ dev_y²·i/(i+1)) = T xs · T ys`. -/
theorem Gxy_sq_le (vs : List (K × K)) : (Gxy vs)^2 ≤ T (fsts vs) * T (snds vs) := by
  rw [T_eq_sum (fsts vs), T_eq_sum (snds vs), fsts_length, snds_length]
  unfold Gxy
  apply sum_sq_le_sum_mul_sum_of_sq_le_mul
  · intro i _; exact mul_nonneg (sq_nonneg _) (ratio_nonneg i)
  · intro i _; exact mul_nonneg (sq_nonneg _) (ratio_nonneg i)
  · intro i _
    apply le_of_eq
    rw [mul_pow, mul_pow, sq_abs, sq_abs]; ring

/-- `Gxy ≤ R` for every `R ≥ 0` with `T xs · T ys ≤ R²` (`R = sqrt(T xs · T ys)` over ℝ) -/
theorem Gxy_le (vs : List (K × K)) (R : K) (hR : 0 ≤ R) (h : T (fsts vs) * T (snds vs) ≤ R^2) :
    Gxy vs ≤ R := by
  have h1 := Gxy_sq_le vs
  have h0 := Gxy_nonneg vs
  by_contra hc
  rw [not_le] at hc
  nlinarith

/-! ## un-weighted cross terms -/

/-- `E i·(i+1)/i` for `i ≥ 1`, and `0` at `i = 0` (where the weight `i/(i+1)` vanishes) -/
def lift (E : ℕ → K) (i : ℕ) : K := if i = 0 then 0 else E i * (((i : K) + 1) / (i : K))

theorem lift_nonneg {E : ℕ → K} (hE : ∀ i, 0 ≤ E i) (i : ℕ) : 0 ≤ lift E i := by
  unfold lift
  split
  · exact le_refl _
  · have := hE i
    positivity

/-- an un-weighted cross term is its first summand plus a weighted cross term -/
theorem cross_unweighted_le (E : ℕ → K) (hE : ∀ i, 0 ≤ E i) (vs : List K) :
    ∑ i ∈ range vs.length, E i * |dev vs i|
      ≤ E 0 * |dev vs 0|
        + ∑ i ∈ range vs.length, lift E i * |dev vs i| * ((i : K) / ((i : K) + 1)) := by
  have hpt : ∀ i ∈ range vs.length, E i * |dev vs i|
      = (if i = 0 then E 0 * |dev vs 0| else 0)
        + lift E i * |dev vs i| * ((i : K) / ((i : K) + 1)) := by
    intro i _
    unfold lift
    by_cases h : i = 0
    · subst h; simp
    · have hi : (i : K) ≠ 0 := Nat.cast_ne_zero.mpr h
      have hi1 : (i : K) + 1 ≠ 0 := by positivity
      simp only [h, if_false]
      field_simp
      ring
  rw [sum_congr rfl hpt, sum_add_distrib]
  have h0 : ∑ i ∈ range vs.length, (if i = 0 then E 0 * |dev vs 0| else 0) ≤ E 0 * |dev vs 0| := by
    rw [sum_ite_eq' (range vs.length) 0 (fun _ => E 0 * |dev vs 0|)]
    split
    · exact le_refl _
    · exact mul_nonneg (hE 0) (abs_nonneg _)
  linarith

/-- Cauchy-Schwarz for an un-weighted cross term: for every `R ≥ 0` with `(Σ (lift E i)²)·T ≤ R²`,
`Σ_{i<n} E_i·|dev i| ≤ E_0·|dev 0| + R`. -/
theorem cross_unweighted_cs (E : ℕ → K) (hE : ∀ i, 0 ≤ E i) (vs : List K) (R : K) (hR : 0 ≤ R)
    (hRT : (∑ i ∈ range vs.length, (lift E i)^2) * T vs ≤ R^2) :
    ∑ i ∈ range vs.length, E i * |dev vs i| ≤ E 0 * |dev vs 0| + R := by
  refine le_trans (cross_unweighted_le E hE vs) ?_
  have hcs := cross_sq_le (lift E) vs
  set W := ∑ i ∈ range vs.length, lift E i * |dev vs i| * ((i : K) / ((i : K) + 1)) with hW
  have hWR : W ≤ R := by
    by_contra h
    rw [not_le] at h
    nlinarith
  linarith

/-- Cauchy-Schwarz for a weighted cross term: for every `R ≥ 0` with `(Σ E_i²)·T ≤ R²`,
`Σ_{i<n} E_i·|dev i|·i/(i+1) ≤ R`. -/
theorem cross_weighted_cs (E : ℕ → K) (vs : List K) (R : K) (hR : 0 ≤ R)
    (hRT : (∑ i ∈ range vs.length, (E i)^2) * T vs ≤ R^2) :
    ∑ i ∈ range vs.length, E i * |dev vs i| * ((i : K) / ((i : K) + 1)) ≤ R := by
  have hcs := cross_sq_le E vs
  by_contra h
  rw [not_le] at h
  nlinarith

/-- the first deviation is the first observation (the mean of no observation is `0/0 = 0` here, but
only `|dev 0| ≤ M` is used) -/
theorem abs_dev_zero_le (vs : List K) (M : K) (hM : 0 ≤ M) (hb : ∀ v ∈ vs, |v| ≤ M) :
    |dev vs 0| ≤ M := by
  unfold dev
  cases vs with
  | nil => simpa [mean] using hM
  | cons v vs => simpa [mean] using hb v (by simp)

end CovSpec

#print axioms CovSpec.Cxy_snoc
#print axioms CovSpec.Gxy_sq_le
#print axioms CovSpec.cross_unweighted_cs
