import AvgProofs.MomentsFold
import AvgProofs.NumPow
import AvgProofs.RealCarrier

/-! Accessors of `define_moments!(T, N)` on the canonical state. -/
open Avg
set_option linter.unusedSectionVars false
namespace MSpec
variable {K : Type} [Field K] [CharZero K]

theorem canonM_getD (N : Nat) (xs : List K) (j : Nat) (h : j + 2 ≤ N) (d : K) :
    (canonM N xs).m.getD j d = sumPow xs (mean xs) (j+2) := by
  unfold canonM
  exact getD_map_range _ _ _ (by omega) _

theorem canonM_getElem? (N : Nat) (xs : List K) (j : Nat) (h : j + 2 ≤ N) :
    (canonM N xs).m[j]? = some (sumPow xs (mean xs) (j+2)) := by
  have : j < N - 1 := by omega
  simp [canonM, this]

theorem canonM_m_length (N : Nat) (xs : List K) : (canonM N xs).m.length = N - 1 := by
  simp [canonM]

variable [FloatOps K]

/-- `m[p-2]/n` on the canonical state, `2 ≤ p ≤ N`, non-empty sample -/
theorem canonM_cmRaw (N : Nat) (xs : List K) (p : Nat) (h2 : 2 ≤ p) (hN : p ≤ N) (hne : xs ≠ []) :
    (canonM N xs).cmRaw p = sumPow xs (mean xs) p / (xs.length : K) := by
  obtain ⟨q, rfl⟩ : ∃ q, p = q + 2 := ⟨p - 2, by omega⟩
  have hpos : 0 < xs.length := List.length_pos_of_ne_nil hne
  have hn : (canonM N xs).n = xs.length := rfl
  unfold Moments.cmRaw
  simp only [hn, hpos, if_true, Nat.add_sub_cancel]
  rw [canonM_getD N xs q hN]

theorem canonM_centralMoment (N : Nat) (xs : List K) (p : Nat) (h2 : 2 ≤ p) (hN : p ≤ N) (hne : xs ≠ []) :
    (canonM N xs).centralMoment N p = .val (sumPow xs (mean xs) p / (xs.length : K)) := by
  unfold Moments.centralMoment
  rw [if_pos (Or.inr (Or.inr hN)), canonM_cmRaw N xs p h2 hN hne]

/-- `central_moment(p)` indexes beyond the array for `p > N` on a non-empty sample -/
theorem canonM_centralMoment_panic (N : Nat) (xs : List K) (p : Nat) (h2 : 2 ≤ p) (hN : N < p) (hne : xs ≠ []) :
    (canonM N xs).centralMoment N p = .panic := by
  have hpos : 0 < xs.length := List.length_pos_of_ne_nil hne
  have hn : (canonM N xs).n = xs.length := rfl
  unfold Moments.centralMoment
  rw [if_neg]
  rw [hn]; omega

end MSpec

namespace MSpec
/-! over ℝ -/

theorem momN_sumPow_two_nonneg (xs : List ℝ) (c : ℝ) : 0 ≤ sumPow xs c 2 := by
  induction xs with
  | nil => simp
  | cons x xs ih => rw [sumPow_cons]; positivity

theorem momN_ne_nil_of_sumPow_ne_zero {K : Type} [Field K] [CharZero K] (xs : List K) (c : K) (p : Nat)
    (h : sumPow xs c p ≠ 0) : xs ≠ [] := by
  rintro rfl; simp at h

/-- population variance of a sample with non-zero spread is positive -/
theorem momN_m2_pos (xs : List ℝ) (hv : sumPow xs (mean xs) 2 ≠ 0) :
    0 < sumPow xs (mean xs) 2 / (xs.length : ℝ) := by
  have hne := momN_ne_nil_of_sumPow_ne_zero xs _ _ hv
  have hpos : 0 < xs.length := List.length_pos_of_ne_nil hne
  have h1 : 0 < sumPow xs (mean xs) 2 := lt_of_le_of_ne (momN_sumPow_two_nonneg _ _) (Ne.symm hv)
  have h2 : (0:ℝ) < xs.length := by exact_mod_cast hpos
  exact div_pos h1 h2

theorem canonM_standardizedMoment (N : Nat) (xs : List ℝ) (p : Nat) (h3 : 3 ≤ p) (hN : p ≤ N)
    (hv : sumPow xs (mean xs) 2 ≠ 0) :
    (canonM N xs).standardizedMoment N p
      = .val (sumPow xs (mean xs) p / (xs.length : ℝ) / (Real.sqrt (sumPow xs (mean xs) 2 / (xs.length : ℝ)))^p) := by
  obtain ⟨q, rfl⟩ : ∃ q, p = q + 3 := ⟨p - 3, by omega⟩
  have hne := momN_ne_nil_of_sumPow_ne_zero xs _ _ hv
  have hm2 := momN_m2_pos xs hv
  unfold Moments.standardizedMoment
  simp only
  rw [canonM_cmRaw N xs 2 (le_refl 2) (by omega) hne, canonM_centralMoment N xs (q+3) (by omega) hN hne]
  have : FloatOps.eqb (sumPow xs (mean xs) 2 / (xs.length : ℝ)) (((0:Nat):ℝ)) = false := by
    simp only [FloatOps.eqb, Nat.cast_zero, decide_eq_false_iff_not]
    exact ne_of_gt hm2
  rw [this]
  simp only [Bool.false_eq_true, if_false, numPow_eq_pow]
  rfl

theorem canonM_standardizedMoment_panic (N : Nat) (xs : List ℝ) (p : Nat) (h3 : 3 ≤ p) (hne : xs ≠ [])
    (hN : 2 ≤ N) (hv : sumPow xs (mean xs) 2 = 0) :
    (canonM N xs).standardizedMoment N p = .panic := by
  obtain ⟨q, rfl⟩ : ∃ q, p = q + 3 := ⟨p - 3, by omega⟩
  unfold Moments.standardizedMoment
  simp only
  rw [canonM_cmRaw N xs 2 (le_refl 2) hN hne, hv]
  have : FloatOps.eqb ((0:ℝ) / (xs.length : ℝ)) (((0:Nat):ℝ)) = true := by
    simp [FloatOps.eqb]
  rw [this]
  simp

end MSpec
#print axioms MSpec.canonM_standardizedMoment
